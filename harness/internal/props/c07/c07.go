// Package c07 monitors the graph codecs of the library (graph6, sparse6,
// Multicode, Pruefer) against the reference codec of internal/oracle/codec:
// every encoding is compared with the string the format definition prescribes
// and every decoding with the graph that was encoded (DESIGN.md section 4, C07).
package c07

import (
	"fmt"
	"hash/fnv"
	"strconv"
	"strings"

	"github.com/Tom-Johnston/mamba/graph"
	"github.com/Tom-Johnston/mamba/sortints"

	"verif/internal/engine"
	"verif/internal/gen"
	"verif/internal/oracle/codec"
	"verif/internal/oracle/rg"
)

func init() {
	engine.Register(&engine.Property{
		ID:    "C07",
		Level: "exploration",
		Rule: "graphs: all labelled graphs n<=5, all isomorphism classes n=6,7 (8 in thorough) x relabellings, seeded graphs of every n in 0..70 at several densities and shapes " +
			"(edgeless, complete, trees, last / last-but-one vertex isolated), n a power of two, n in {100..300}, sparse6 with n = 65536..262145 incl. 258047/258048 (4- and 8-byte size headers); " +
			"each graph is given to the encoders as DenseGraph and as SparseGraph (fields filled by the harness). graph6/sparse6/Multicode strings are compared byte for byte with the reference codec " +
			"(formats.txt; nauty's ntos6 pair order and both padding rules), the library's sparse6 string is read by the reference reader which reports loops and repeated edges, and every decode " +
			"(library string, reference string, alternative valid sparse6 encodings, with and without the >>...<< header) is compared with the graph through IsEdge, M, Degrees and Neighbours. " +
			"Pruefer: all codes of trees on n<=7 (8 in thorough) vertices, seeded trees n<=60 and structured long codes (n = 255..262, 302, 402, 602, 1002: stars, double stars, runs of 127..129 / 255..257 / 511..513 equal entries at small, middle and large labels, paths, caterpillars, seeded), encode and decode against the reference and both compositions (graphs compared through IsEdge only). " +
			"graphs on 200..600 vertices with vertices of degree 129..n-1 (stars, hubs in sparse graphs) for graph6/sparse6/Multicode. " +
			"Multicode: single records up to n=255 and concatenations of records including n=0 and n=1. " +
			"held results (held.go): sessions keep every result of all nine functions (graph6/sparse6 strings, Multicode records, Pruefer codes, decoded graphs) of several inputs alive while the later calls of the same and of the other functions are made " +
			"(all ordered pairs of 11 small graphs, the whole pool in one history, ladders of growing and shrinking sizes 0..255, seeded histories with repeated inputs and shuffled call order): every string / record / code is compared with the private copy taken when it was returned after every later call, every decoded graph is re-read through the observers at the end; then the caller overwrites the results it owns and the same calls are made again and must give the same answers. " +
			"caller-owned buffers (buffers.go): the byte / int slices given to MulticodeDecode, MulticodeDecodeMultiple and PruferDecode (and the bytes the graph6 / sparse6 strings are built from) are sub-slices of larger buffers in six forms (own slice, middle of a buffer, prefix, exactly one spare element, three-index slice, large spare capacity) with sentinel, zero and plausible data around them; rows of flat tables of all Pruefer codes n<=5 (6 in thorough), prefixes and windows of longer sequences, records / prefixes / windows of Multicode streams, lines of graph6 / sparse6 texts; " +
			"the encoders get DenseGraph / SparseGraph values whose Edges, DegreeSequence, neighbour lists (one CSR array) and list headers are sub-slices of buffers shared by a whole table of graphs; after every call the result is judged and every element of the caller's buffers (before, inside, behind the argument up to the capacity) must be unchanged. " +
			"nested calls (reentrant.go): every encoder is called on a graph.Graph implemented by the caller whose observers (N, M, IsEdge, Neighbours, Degrees), while the outer call is running, call the library themselves - " +
			"one of the nine functions on another input of the same size / smaller / larger (encode another graph held as DenseGraph, SparseGraph or caller-implemented graph, decode a string / record / code), the running function on the same graph value, " +
			"an inner call whose own argument makes a further inner call - from the first, a middle, the last call of each observer the function uses, from every call (n<=8), from seeded positions (1..3 inner calls per outer call, n up to 70 incl. the 4-byte size header; 160 in thorough; every single position in turn in thorough), now and then after plain calls on other sizes; " +
			"one goroutine only. The outer result and every inner result are judged against the reference codec like the results of plain calls (the plain call on the caller-implemented graph is judged first). " +
			"non-trivial = graph with n >= 3 and m >= 1; distinct = hash of (workload kind, adjacency)",
		Assumptions: []string{
			"oracle: internal/oracle/codec written from formats.txt and the definitions, validated at start-up on the formats.txt examples (N(n), DQc, :Fa@x^), the graph6/sparse6 pairs of the repository's own tests (written by nauty tools), Sage's Petersen strings, Cayley counts for Pruefer",
			"Sparse6Encode's documentation promises the format used by showg/geng/nauty, so string equality with the ntos6 order is demanded; graph6 and Multicode are unique encodings",
			"DenseGraph / SparseGraph values built by filling the exported fields are legal inputs of the encoders",
			"PruferDecode's result is compared through IsEdge only (its missing edge count / degree sequence belongs to C06)",
			"a graph.Graph implemented by the caller may use the library while it answers (the codec functions are documented as plain functions of their arguments; nothing says that they may not be called while another call of them is in progress on the same goroutine): nested calls must give the same results as the same calls made one after the other. Calls that overlap in time on different goroutines are C19's business",
			"a value returned by a codec function belongs to the caller: it must read the same after any later call into the library (the round trip is demanded of the encoding the caller holds, not only of the bytes at the moment of return), and a slice argument is only read: the memory of the caller before it, inside it and behind it up to its capacity is unchanged by the call",
		},
		Run:            run,
		MinEvaluations: map[string]int{"quick": 120000, "thorough": 1500000},
		MinNontrivial:  map[string]int{"quick": 8000, "thorough": 60000},
		RequiredObs: []string{
			"g6:size_header_bytes=1", "g6:size_header_bytes=4",
			"s6:size_header_bytes=1", "s6:size_header_bytes=4", "s6:size_header_bytes=8",
			"s6:stream_ends_at_bit=0", "s6:stream_ends_at_bit=1", "s6:stream_ends_at_bit=2", "s6:stream_ends_at_bit=3", "s6:stream_ends_at_bit=4", "s6:stream_ends_at_bit=5",
			"s6:zero_bit_padding_prescribed", "s6:edgeless", "s6:alternative_encodings_decoded",
			"multicode:records", "multicode:concatenations", "multicode:n<=1_inside_concatenation",
			"prufer:codes_decoded", "prufer:trees_encoded", "prufer:codes_with_a_value_occurring>=256_times",
			"graphs:with_a_vertex_of_degree>=256",
			// results of earlier calls re-read after later calls, for each of the nine functions
			"held:Graph6Encode:results_reread_after_later_calls", "held:Sparse6Encode:results_reread_after_later_calls", "held:MulticodeEncode:results_reread_after_later_calls", "held:PruferEncode:results_reread_after_later_calls",
			"held:Graph6Decode:results_reread_after_later_calls", "held:Sparse6Decode:results_reread_after_later_calls", "held:MulticodeDecode:results_reread_after_later_calls", "held:MulticodeDecodeMultiple:results_reread_after_later_calls", "held:PruferDecode:results_reread_after_later_calls",
			"held:later_call_with_a_larger_input", "held:later_call_with_a_smaller_input", "held:later_call_with_an_input_of_the_same_size",
			"held:calls_repeated_after_the_caller_overwrote_the_earlier_results",
			// arguments inside larger caller-owned buffers, for each function
			"buffers:Graph6Decode:calls_with_sub-slice_arguments", "buffers:Sparse6Decode:calls_with_sub-slice_arguments", "buffers:MulticodeDecode:calls_with_sub-slice_arguments", "buffers:MulticodeDecodeMultiple:calls_with_sub-slice_arguments", "buffers:PruferDecode:calls_with_sub-slice_arguments",
			"buffers:Graph6Encode:graphs_whose_slices_are_sub-slices_of_shared_buffers", "buffers:Sparse6Encode:graphs_whose_slices_are_sub-slices_of_shared_buffers", "buffers:MulticodeEncode:graphs_whose_slices_are_sub-slices_of_shared_buffers", "buffers:PruferEncode:graphs_whose_slices_are_sub-slices_of_shared_buffers",
			"buffers:form=1", "buffers:form=2", "buffers:form=3", "buffers:form=4", "buffers:form=5",
			"buffers:PruferDecode:rows_of_a_flat_table", "buffers:PruferDecode:prefixes_and_windows_of_a_longer_sequence",
			"buffers:MulticodeDecode:records_inside_a_stream", "buffers:MulticodeDecodeMultiple:prefixes_and_windows_of_a_stream",
			"buffers:Graph6Decode:lines_of_a_larger_text", "buffers:Sparse6Decode:lines_of_a_larger_text",
			// nested calls: library calls made by the observers of a caller-implemented graph while an encoder is running on it
			"reentrant:Graph6Encode:outer_calls_during_which_an_observer_called_the_library", "reentrant:Sparse6Encode:outer_calls_during_which_an_observer_called_the_library",
			"reentrant:MulticodeEncode:outer_calls_during_which_an_observer_called_the_library", "reentrant:PruferEncode:outer_calls_during_which_an_observer_called_the_library",
			"reentrant:inner_call_made_from:N", "reentrant:inner_call_made_from:M", "reentrant:inner_call_made_from:IsEdge", "reentrant:inner_call_made_from:Neighbours", "reentrant:inner_call_made_from:Degrees",
			"reentrant:moment=first_call", "reentrant:moment=middle_call", "reentrant:moment=last_call", "reentrant:moment=every_call", "reentrant:moment=seeded_position",
			"reentrant:inner:Graph6Encode", "reentrant:inner:Sparse6Encode", "reentrant:inner:MulticodeEncode", "reentrant:inner:PruferEncode",
			"reentrant:inner:Graph6Decode", "reentrant:inner:Sparse6Decode", "reentrant:inner:MulticodeDecode", "reentrant:inner:MulticodeDecodeMultiple", "reentrant:inner:PruferDecode",
			"reentrant:inner_call_of_the_running_function_on_the_same_graph_value", "reentrant:inner_call_of_the_running_function_on_another_graph",
			"reentrant:inner_input_of_the_same_size", "reentrant:inner_input_smaller", "reentrant:inner_input_larger",
			"reentrant:nesting_depth=1", "reentrant:nesting_depth=2", "reentrant:inner_results_judged",
			"reentrant:outer_calls_with_several_inner_calls_at_different_moments", "reentrant:cases_with_earlier_plain_calls_on_other_sizes",
		},
	})
}

// mon carries the per-unit state: a cap on the violations of one kind, so
// that a defect that hits every case of a sweep is reported by its first
// witnesses only.
type mon struct {
	c   *engine.Ctx
	cap map[string]int
}

const perKindPerUnit = 2

func (m *mon) viol(api, kind, witness string, detail interface{}, observed, expected string) {
	ck := api + "|" + kind
	m.cap[ck]++
	if m.cap[ck] > perKindPerUnit {
		m.c.Obs("violations_not_repeated_within_unit:"+ck, 1)
		return
	}
	m.c.Violation(api+"|"+kind+"|"+witness, detail, observed, expected)
}

func unit(c *engine.Ctx, name string, f func(m *mon)) {
	c.Unit(name, func() { f(&mon{c: c, cap: map[string]int{}}) })
}

func hash32(s string) uint32 {
	h := fnv.New32a()
	h.Write([]byte(s))
	return h.Sum32()
}

// strKey names a string in a violation key.
func strKey(s string) string {
	if len(s) <= 60 {
		return strconv.Quote(s)
	}
	return fmt.Sprintf("%s...(len=%d,fnv=%08x)", strconv.Quote(s[:24]), len(s), hash32(s))
}

func clip(s string) string {
	if len(s) > 600 {
		return fmt.Sprintf("%q...(len=%d)", s[:600], len(s))
	}
	return strconv.Quote(s)
}

// graphKey names a graph in a violation key.
func graphKey(g *rg.G, label string) string {
	if g.N <= 24 {
		return fmt.Sprintf("n=%d,g6=%s", g.N, codec.Graph6(g))
	}
	return fmt.Sprintf("n=%d,m=%d,%s,fnv=%08x", g.N, g.M(), label, hash32(g.Key()))
}

func graphDetail(g *rg.G, label string) map[string]interface{} {
	d := map[string]interface{}{"n": g.N, "m": g.M(), "workload": label}
	if g.N <= 62 {
		d["graph6_by_harness"] = codec.Graph6(g)
	}
	if g.M() <= 400 {
		d["edges"] = g.String()
	} else {
		d["key"] = g.Key()
	}
	return d
}

func validBytes(s string, colon bool) string {
	b := []byte(s)
	if colon {
		if len(b) == 0 || b[0] != ':' {
			return "does not start with ':'"
		}
		b = b[1:]
	}
	for i, c := range b {
		if c < 63 || c > 126 {
			return fmt.Sprintf("byte %d at offset %d is outside 63..126", c, i)
		}
	}
	return ""
}

func reps(g *rg.G) []struct {
	name string
	h    graph.Graph
} {
	if g.N > 600 { // every comparison costs n^2: the plain representations only
		return []struct {
			name string
			h    graph.Graph
		}{{"DenseGraph", g.Dense()}, {"SparseGraph", g.Sparse()}}
	}
	return []struct {
		name string
		h    graph.Graph
	}{{"DenseGraph", g.Dense()}, {"SparseGraph", g.Sparse()},
		// the same graph held with edge bytes other than 1 (any byte > 0 is an edge for NewDense and all observers)
		// and with dirty spare capacity behind its slices
		{"DenseGraph(edge bytes 1..255)", g.DenseVariant(1 + g.N%5)}, {"SparseGraph(spare capacity)", g.SparseVariant(1 + g.M()%3)},
		{"complement view of the complement", graph.Complement(g.Complement().Dense())}}
}

// describeScan renders what the strict reader saw; it never materialises a huge graph (a wrong size header can
// declare hundreds of thousands of vertices).
func describeScan(sc *codec.S6) string {
	if sc.N <= 300 {
		return sc.Graph().String()
	}
	e := sc.Edges
	if len(e) > 12 {
		e = e[:12]
	}
	return fmt.Sprintf("n=%d, %d pairs, first edges %v", sc.N, sc.Pairs, e)
}

// conforms compares a library graph with the model inside a guarded call.
func (m *mon) conforms(key string, h graph.Graph, g *rg.G) (string, *engine.PanicInfo) {
	var bad string
	pi := m.c.Call(key, func() { bad = rg.Conforms(h, g) })
	return bad, pi
}

// ------------------------------------------------------------------ graph6

func (m *mon) decodeG6(s string, g *rg.G, gk string, det map[string]interface{}) {
	c := m.c
	var h *graph.DenseGraph
	var err error
	c.Eval(1)
	c.Obs("g6:decodes", 1)
	sk := strKey(s)
	pi := c.Call("Graph6Decode|"+sk, func() { h, err = graph.Graph6Decode(s) })
	d := withStr(det, s)
	if pi != nil {
		m.viol("Graph6Decode", "panic|"+engine.SiteNoLine(pi.Site), sk, d, pi.String(), "the graph "+gk)
		return
	}
	if err != nil {
		m.viol("Graph6Decode", "error-on-valid-string", sk, d, "error: "+err.Error(), "the graph "+gk)
		return
	}
	bad, pi := m.conforms("Graph6Decode|"+sk+"|read-result", h, g)
	if pi != nil {
		m.viol("Graph6Decode", "result-panics|"+engine.SiteNoLine(pi.Site), sk, d, pi.String(), "the graph "+gk)
	} else if bad != "" {
		m.viol("Graph6Decode", "wrong-graph", sk, d, bad, "the graph "+gk)
	}
}

func withStr(det map[string]interface{}, s string) map[string]interface{} {
	d := map[string]interface{}{}
	for k, v := range det {
		d[k] = v
	}
	if len(s) <= 4000 {
		d["string"] = s
	} else {
		d["string_prefix"] = s[:200]
		d["string_len"] = len(s)
	}
	return d
}

func (m *mon) graph6(g *rg.G, gk string, det map[string]interface{}) {
	c := m.c
	ref := codec.Graph6(g)
	c.Obs(fmt.Sprintf("g6:size_header_bytes=%d", len(codec.SizeHeader(g.N))), 1)
	encoderFailed := false
	for _, r := range reps(g) {
		var s string
		c.Eval(1)
		pi := c.Call("Graph6Encode|"+r.name+"|"+gk, func() { s = graph.Graph6Encode(r.h) })
		if pi != nil {
			m.viol("Graph6Encode", "panic|"+engine.SiteNoLine(pi.Site), gk, det, pi.String(), clip(ref))
			encoderFailed = true
			continue
		}
		if s != ref {
			encoderFailed = true
			obs := clip(s)
			if v := validBytes(s, false); v != "" {
				obs += " (" + v + ")"
			}
			m.viol("Graph6Encode", "not-the-graph6-string", gk, det, obs, clip(ref)+" (formats.txt)")
			continue
		}
		if r.name == "DenseGraph" {
			m.decodeG6(s, g, gk, det)
			m.decodeG6(codec.G6Header+s, g, gk, det)
		}
	}
	if encoderFailed {
		// the decoder is still judged on the reference string
		m.decodeG6(ref, g, gk, det)
	}
}

// ----------------------------------------------------------------- sparse6

func (m *mon) decodeS6(s, how string, g *rg.G, gk string, det map[string]interface{}) {
	c := m.c
	var h *graph.SparseGraph
	var err error
	c.Eval(1)
	c.Obs("s6:decodes", 1)
	sk := strKey(s)
	pi := c.Call("Sparse6Decode|"+sk, func() { h, err = graph.Sparse6Decode(s) })
	d := withStr(det, s)
	d["string_written_by"] = how
	if pi != nil {
		m.viol("Sparse6Decode", "panic|"+engine.SiteNoLine(pi.Site), sk, d, pi.String(), "the graph "+gk)
		return
	}
	if err != nil {
		m.viol("Sparse6Decode", "error-on-valid-string", sk, d, "error: "+err.Error(), "the graph "+gk)
		return
	}
	bad, pi := m.conforms("Sparse6Decode|"+sk+"|read-result", h, g)
	if pi != nil {
		m.viol("Sparse6Decode", "result-panics|"+engine.SiteNoLine(pi.Site), sk, d, pi.String(), "the graph "+gk)
	} else if bad != "" {
		m.viol("Sparse6Decode", "wrong-graph", sk, d, bad, "the graph "+gk+" (string written by "+how+")")
	}
}

func (m *mon) sparse6(g *rg.G, gk string, det map[string]interface{}, pick func(int) int, alts int) {
	c := m.c
	ref := codec.Sparse6OfGraph(g)
	m.obsS6(g.N, ref, g.M() == 0)
	decoded := map[string]bool{}
	for _, r := range reps(g) {
		var s string
		c.Eval(1)
		pi := c.Call("Sparse6Encode|"+r.name+"|"+gk, func() { s = graph.Sparse6Encode(r.h) })
		if pi != nil {
			m.viol("Sparse6Encode", "panic|"+engine.SiteNoLine(pi.Site), gk, det, pi.String(), clip(ref))
			continue
		}
		ok := true
		if v := validBytes(s, true); v != "" {
			m.viol("Sparse6Encode", "illegal-bytes", gk, det, clip(s)+": "+v, "':' followed by bytes in 63..126")
			ok = false
		} else if sc, err := codec.Sparse6Scan(s, 1<<20); err != nil {
			m.viol("Sparse6Encode", "unreadable", gk, det, clip(s)+": "+err.Error(), clip(ref))
			ok = false
		} else if int(sc.N) != g.N || sc.Loops != 0 || sc.Repeats != 0 || !sc.Graph().Equal(g) {
			m.viol("Sparse6Encode", "string-is-another-graph", gk, det,
				fmt.Sprintf("%s reads (formats.txt rule) as n=%d with %d loops, %d repeated edges: %s", clip(s), sc.N, sc.Loops, sc.Repeats, describeScan(sc)), "a string that reads as "+g.String())
			ok = false
		} else if s != ref {
			// sparse6 is not a unique encoding: a string that the strict formats.txt reader reads as exactly g
			// (no loop, no repeated edge, right n) interoperates with the nauty tools.  Differing from nauty's own
			// writer is recorded, not judged.
			c.Obs("Sparse6Encode:valid_string_but_not_the_ntos6_string(recorded,not judged)", 1)
		} else {
			c.Obs("Sparse6Encode:string_equals_the_ntos6_reference", 1)
		}
		if ok && !decoded[s] {
			decoded[s] = true
			m.decodeS6(s, "Sparse6Encode("+r.name+")", g, gk, det)
			m.decodeS6(codec.S6Header+s, "Sparse6Encode("+r.name+") + header", g, gk, det)
		}
	}
	if !decoded[ref] {
		m.decodeS6(ref, "reference encoder", g, gk, det)
	}
	for a := 0; a < alts; a++ {
		alt := codec.Sparse6Alt(g.N, g.Edges(), pick)
		if decoded[alt] {
			continue
		}
		decoded[alt] = true
		c.Obs("s6:alternative_encodings_decoded", 1)
		m.decodeS6(alt, "reference encoder, alternative pair order", g, gk, det)
	}
}

// obsS6 records which format mechanisms the reference string exercises.
func (m *mon) obsS6(n int, ref string, edgeless bool) {
	c := m.c
	hdr := len(codec.SizeHeader(n))
	c.Obs(fmt.Sprintf("s6:size_header_bytes=%d", hdr), 1)
	if edgeless {
		c.Obs("s6:edgeless", 1)
		return
	}
	sc, err := codec.Sparse6Scan(ref, 1<<40)
	if err != nil {
		return
	}
	streamBits := 6 * (len(ref) - 1 - hdr)
	pad := 0
	last := int(ref[len(ref)-1]) - 63
	// the reference pads with 1-bits, possibly after one 0-bit: the stream
	// proper ends where the pairs written by the encoder end
	k := sc.K
	used := 0
	cur := 0
	for _, e := range sc.Edges {
		if e[1] > cur+1 {
			used += 1 + k
		}
		cur = e[1]
		used += 1 + k
	}
	pad = streamBits - used
	c.Obs(fmt.Sprintf("s6:stream_ends_at_bit=%d", used%6), 1)
	if pad > 0 && (last>>uint(pad-1))&1 == 0 {
		c.Obs("s6:zero_bit_padding_prescribed", 1)
	}
}

// --------------------------------------------------------------- Multicode

func (m *mon) multicode(g *rg.G, gk string, det map[string]interface{}) {
	c := m.c
	ref := codec.Multicode(g)
	c.Obs("multicode:records", 1)
	for _, r := range reps(g) {
		var b []byte
		c.Eval(1)
		pi := c.Call("MulticodeEncode|"+r.name+"|"+gk, func() { b = graph.MulticodeEncode(r.h) })
		if pi != nil {
			m.viol("MulticodeEncode", "panic|"+engine.SiteNoLine(pi.Site), gk, det, pi.String(), fmt.Sprint(ref))
			continue
		}
		if string(b) != string(ref) {
			// judged by what the bytes mean: the reference reader must read them as exactly g and consume them all
			if back, rest, err := codec.MulticodeParse(b); err != nil || len(rest) != 0 || !back.Equal(g) {
				m.viol("MulticodeEncode", "wrong-bytes", gk, det, clipBytes(b), clipBytes(ref))
			} else {
				c.Obs("MulticodeEncode:valid_bytes_but_not_the_reference_order(recorded,not judged)", 1)
			}
		}
	}
	var h *graph.DenseGraph
	c.Eval(1)
	in := append([]byte(nil), ref...)
	pi := c.Call("MulticodeDecode|"+gk, func() { h = graph.MulticodeDecode(in) })
	d := map[string]interface{}{"graph": det, "bytes": clipBytes(ref)}
	if pi != nil {
		m.viol("MulticodeDecode", "panic|"+engine.SiteNoLine(pi.Site), gk, d, pi.String(), "the graph "+gk)
		return
	}
	bad, pi := m.conforms("MulticodeDecode|"+gk+"|read-result", h, g)
	if pi != nil {
		m.viol("MulticodeDecode", "result-panics|"+engine.SiteNoLine(pi.Site), gk, d, pi.String(), "the graph "+gk)
	} else if bad != "" {
		m.viol("MulticodeDecode", "wrong-graph", gk, d, bad, "the graph "+gk)
	}
}

func clipBytes(b []byte) string {
	if len(b) > 200 {
		return fmt.Sprintf("%v...(len=%d)", b[:200], len(b))
	}
	return fmt.Sprint(b)
}

func (m *mon) multicodeMultiple(gs []*rg.G, label string) {
	c := m.c
	var cat []byte
	names := ""
	small := false
	for i, g := range gs {
		cat = append(cat, codec.Multicode(g)...)
		if i > 0 {
			names += "+"
		}
		if g.N <= 8 {
			names += codec.Graph6(g)
		} else {
			names += fmt.Sprintf("n%d.%08x", g.N, hash32(g.Key()))
		}
		if g.N <= 1 {
			small = true
		}
	}
	c.Obs("multicode:concatenations", 1)
	if small {
		c.Obs("multicode:n<=1_inside_concatenation", 1)
	}
	key := "records=" + names
	if len(key) > 120 {
		key = fmt.Sprintf("%s...(%d records,fnv=%08x)", key[:60], len(gs), hash32(key))
	}
	det := map[string]interface{}{"workload": label, "records_graph6_or_size": names, "bytes": clipBytes(cat)}
	var hs []*graph.DenseGraph
	c.Eval(1)
	in := append([]byte(nil), cat...)
	pi := c.Call("MulticodeDecodeMultiple|"+key, func() { hs = graph.MulticodeDecodeMultiple(in) })
	if pi != nil {
		m.viol("MulticodeDecodeMultiple", "panic|"+engine.SiteNoLine(pi.Site), key, det, pi.String(), fmt.Sprintf("%d graphs", len(gs)))
		return
	}
	if len(hs) != len(gs) {
		m.viol("MulticodeDecodeMultiple", "wrong-number-of-graphs", key, det, fmt.Sprintf("%d graphs", len(hs)), fmt.Sprintf("%d graphs", len(gs)))
		return
	}
	for i := range gs {
		bad, pi := m.conforms("MulticodeDecodeMultiple|"+key+"|read-result", hs[i], gs[i])
		if pi != nil {
			m.viol("MulticodeDecodeMultiple", "result-panics|"+engine.SiteNoLine(pi.Site), key, det, pi.String(), "graph "+strconv.Itoa(i)+" readable")
			return
		}
		if bad != "" {
			m.viol("MulticodeDecodeMultiple", "wrong-graph", key, det, fmt.Sprintf("graph %d: %s", i, bad), gs[i].String())
			return
		}
	}
}

// ------------------------------------------------------------- whole graph

type opts struct {
	alts      int
	multicode bool
	g6        bool
}

var full = opts{alts: 2, multicode: true, g6: true}

// checkGraph runs every codec on g.
func (m *mon) checkGraph(g *rg.G, label string, pick func(int) int, o opts) {
	c := m.c
	gk := graphKey(g, label)
	det := graphDetail(g, label)
	c.Obs("graphs", 1)
	if g.N <= 70 {
		c.Obs(fmt.Sprintf("graphs:n=%02d", g.N), 1)
	} else {
		c.Obs("graphs:n>70", 1)
	}
	if o.g6 {
		m.graph6(g, gk, det)
	}
	m.sparse6(g, gk, det, pick, o.alts)
	if o.multicode && g.N <= 255 {
		m.multicode(g, gk, det)
	}
	if g.N >= 3 && g.M() >= 1 {
		c.NT("graph", g.Key())
	}
}

// inputsUntouched checks that the encoders leave their argument alone.
func (m *mon) inputsUntouched(g *rg.G, label string) {
	c := m.c
	gk := graphKey(g, label)
	for _, r := range reps(g) {
		pi := c.Call("encoders|"+r.name+"|"+gk, func() {
			graph.Graph6Encode(r.h)
			graph.Sparse6Encode(r.h)
			if g.N <= 255 {
				graph.MulticodeEncode(r.h)
			}
		})
		c.Eval(1)
		if pi != nil {
			continue // reported by the codec checks
		}
		if bad, pi := m.conforms("encoders|"+r.name+"|"+gk+"|read-input", r.h, g); pi == nil && bad != "" {
			m.viol("encoders", "argument-modified", r.name+","+gk, graphDetail(g, label), bad, "the "+r.name+" passed in is unchanged")
		}
	}
}

// ------------------------------------------------------- very large sparse6

func sparseFromEdges(n int, edges [][2]int) *graph.SparseGraph {
	adj := codec.AdjacencyOf(edges)
	nb := make([]sortints.SortedInts, n)
	deg := make([]int, n)
	for v := range nb {
		nb[v] = sortints.SortedInts{}
	}
	mm := 0
	for v, l := range adj {
		nb[v] = sortints.SortedInts(append([]int(nil), l...))
		deg[v] = len(l)
		mm += len(l)
	}
	return &graph.SparseGraph{NumberOfVertices: n, NumberOfEdges: mm / 2, Neighbourhoods: nb, DegreeSequence: deg}
}

// compareSparse compares a decoded graph with neighbour lists (no matrix).
func compareSparse(h *graph.SparseGraph, n int, adj map[int][]int) string {
	if h == nil {
		return "nil graph"
	}
	if h.N() != n {
		return fmt.Sprintf("N()=%d, want %d", h.N(), n)
	}
	mm := 0
	for _, l := range adj {
		mm += len(l)
	}
	if h.M() != mm/2 {
		return fmt.Sprintf("M()=%d, want %d", h.M(), mm/2)
	}
	deg := h.Degrees()
	if len(deg) != n {
		return fmt.Sprintf("len(Degrees())=%d, want %d", len(deg), n)
	}
	for v := 0; v < n; v++ {
		want := adj[v]
		if deg[v] != len(want) {
			return fmt.Sprintf("Degrees()[%d]=%d, want %d", v, deg[v], len(want))
		}
		got := h.Neighbours(v)
		if len(got) != len(want) {
			return fmt.Sprintf("Neighbours(%d)=%v, want %v", v, got, want)
		}
		for i := range got {
			if got[i] != want[i] {
				return fmt.Sprintf("Neighbours(%d)=%v, want %v", v, got, want)
			}
		}
	}
	for v, l := range adj {
		for _, u := range l {
			if !h.IsEdge(u, v) || !h.IsEdge(v, u) {
				return fmt.Sprintf("IsEdge(%d,%d) false", u, v)
			}
		}
	}
	return ""
}

func (m *mon) checkHuge(n int, edges [][2]int, label string) {
	c := m.c
	edges = codec.NormEdges(edges)
	gk := fmt.Sprintf("n=%d,edges=%v", n, edges)
	if len(gk) > 100 {
		gk = fmt.Sprintf("n=%d,m=%d,%s,fnv=%08x", n, len(edges), label, hash32(gk))
	}
	det := map[string]interface{}{"n": n, "edges": fmt.Sprint(edges), "workload": label}
	adj := codec.AdjacencyOf(edges)
	ref := codec.Sparse6(n, edges)
	m.obsS6(n, ref, len(edges) == 0)
	c.Obs("graphs", 1)
	c.Obs("graphs:n>70", 1)
	c.Obs(fmt.Sprintf("s6:huge_n=%d", n), 1)
	if len(edges) > 0 {
		c.NT("huge", gk)
	}
	sg := sparseFromEdges(n, edges)
	var s string
	c.Eval(1)
	pi := c.Call("Sparse6Encode|SparseGraph|"+gk, func() { s = graph.Sparse6Encode(sg) })
	strs := []string{}
	if pi != nil {
		m.viol("Sparse6Encode", "panic|"+engine.SiteNoLine(pi.Site), gk, det, pi.String(), clip(ref))
	} else {
		sc, err := codec.Sparse6Scan(s, 1<<40)
		switch {
		case err != nil:
			m.viol("Sparse6Encode", "unreadable", gk, det, clip(s)+": "+err.Error(), clip(ref))
		case int(sc.N) != n || sc.Loops != 0 || sc.Repeats != 0 || fmt.Sprint(codec.NormEdges(sc.Edges)) != fmt.Sprint(edges):
			m.viol("Sparse6Encode", "string-is-another-graph", gk, det, fmt.Sprintf("%s reads as n=%d edges %v (%d loops, %d repeats)", clip(s), sc.N, sc.Edges, sc.Loops, sc.Repeats), fmt.Sprint(edges))
		case s != ref:
			c.Obs("Sparse6Encode:valid_string_but_not_the_ntos6_string(recorded,not judged)", 1)
			strs = append(strs, s)
		default:
			strs = append(strs, s, codec.S6Header+s)
		}
	}
	if len(strs) == 0 || strs[0] != ref {
		strs = append(strs, ref)
	}
	strs = append(strs, codec.Sparse6Alt(n, edges, func(k int) int { return (k*7 + n) % k }))
	for _, x := range strs {
		var h *graph.SparseGraph
		var err error
		c.Eval(1)
		sk := strKey(x)
		d := withStr(det, x)
		pi := c.Call("Sparse6Decode|"+sk, func() { h, err = graph.Sparse6Decode(x) })
		if pi != nil {
			m.viol("Sparse6Decode", "panic|"+engine.SiteNoLine(pi.Site), sk, d, pi.String(), "the graph "+gk)
			continue
		}
		if err != nil {
			m.viol("Sparse6Decode", "error-on-valid-string", sk, d, "error: "+err.Error(), "the graph "+gk)
			continue
		}
		var bad string
		pi = c.Call("Sparse6Decode|"+sk+"|read-result", func() { bad = compareSparse(h, n, adj) })
		if pi != nil {
			m.viol("Sparse6Decode", "result-panics|"+engine.SiteNoLine(pi.Site), sk, d, pi.String(), "the graph "+gk)
		} else if bad != "" {
			m.viol("Sparse6Decode", "wrong-graph", sk, d, bad, "the graph "+gk)
		}
	}
}

// ----------------------------------------------------------------- Pruefer

func (m *mon) pruferCode(code []int, label string) {
	c := m.c
	n := len(code) + 2
	var want *rg.G
	if n <= 62 {
		want = codec.PruferTree(code)
	} else {
		want = codec.PruferTreeCounted(code) // O(n^2), checked against PruferTree at start-up
	}
	ck := fmt.Sprintf("n=%d,code=%v", n, code)
	if len(ck) > 100 {
		ck = fmt.Sprintf("n=%d,%s,fnv=%08x", n, label, hash32(ck))
	}
	det := map[string]interface{}{"n": n, "code": runs(code), "workload": label}
	if n <= 100 {
		det["tree"] = want.String()
	}
	c.ObsMax("prufer:n", n)
	maxOcc := 0
	occ := map[int]int{}
	for _, x := range code {
		occ[x]++
		if occ[x] > maxOcc {
			maxOcc = occ[x]
		}
	}
	c.ObsMax("prufer:occurrences_of_one_value_in_a_code", maxOcc)
	if maxOcc >= 256 {
		c.Obs("prufer:codes_with_a_value_occurring>=256_times", 1)
	}
	if n >= 3 {
		c.NT("prufer", fmt.Sprint(code))
	}
	// decode
	c.Obs("prufer:codes_decoded", 1)
	c.Eval(1)
	in := append([]int(nil), code...)
	var h *graph.DenseGraph
	var got *rg.G
	pi := c.Call("PruferDecode|"+ck, func() {
		h = graph.PruferDecode(in)
		if h.N() == n {
			got = rg.FromGraph(h)
		}
	})
	switch {
	case pi != nil:
		m.viol("PruferDecode", "panic|"+engine.SiteNoLine(pi.Site), ck, det, pi.String(), "the tree of the code")
	case got == nil:
		m.viol("PruferDecode", "wrong-number-of-vertices", ck, det, "a graph on another number of vertices", fmt.Sprintf("a tree on %d vertices", n))
	case !got.Equal(want):
		o, e := treeDiff(got, want)
		m.viol("PruferDecode", "wrong-tree", ck, det, o, e)
	case fmt.Sprint(in) != fmt.Sprint(code):
		m.viol("PruferDecode", "argument-modified", ck, det, fmt.Sprint(in), fmt.Sprint(code))
	default:
		// encode(decode(code)) == code, the decoded tree re-read through IsEdge
		c.Eval(1)
		var back []int
		arg := got.Dense()
		pi := c.Call("PruferEncode|decoded|"+ck, func() { back = graph.PruferEncode(arg) })
		if pi != nil {
			m.viol("PruferEncode", "panic|"+engine.SiteNoLine(pi.Site), ck, det, pi.String(), runs(code))
		} else if fmt.Sprint(back) != fmt.Sprint(code) {
			m.viol("PruferEncode∘PruferDecode", "not-identity", ck, det, runs(back), runs(code))
		}
		// the same composition on the library's own value: its failure is the
		// C06 finding (no degree sequence in the decoded graph), recorded only
		var direct []int
		if n > 300 {
			break
		}
		pd := c.Call("PruferEncode|library-value|"+ck, func() { direct = graph.PruferEncode(h) })
		if pd != nil || fmt.Sprint(direct) != fmt.Sprint(code) {
			c.Obs("prufer:encode_of_the_decoded_value_itself_fails(C06:PruferDecode sets no degrees)", 1)
		} else {
			c.Obs("prufer:encode_of_the_decoded_value_itself_ok", 1)
		}
	}
	// encode the reference tree in every representation (the first two above 300 vertices)
	rs := reps(want)
	if n > 300 { // the library's encoder is quadratic: dense and sparse in turn
		k := len(code) % 2
		if len(code) > 3 {
			k = (code[0] + code[len(code)/2] + code[len(code)-1] + len(code)) % 2
		}
		rs = rs[k : k+1]
	}
	for _, r := range rs {
		c.Obs("prufer:trees_encoded", 1)
		c.Eval(1)
		var enc []int
		pi := c.Call("PruferEncode|"+r.name+"|"+ck, func() { enc = graph.PruferEncode(r.h) })
		if pi != nil {
			m.viol("PruferEncode", "panic|"+engine.SiteNoLine(pi.Site), r.name+","+ck, det, pi.String(), runs(code))
			continue
		}
		if fmt.Sprint(enc) != fmt.Sprint(code) {
			m.viol("PruferEncode", "wrong-code", r.name+","+ck, det, runs(enc), runs(code))
			continue
		}
		if bad, pi := m.conforms("PruferEncode|"+r.name+"|"+ck+"|read-input", r.h, want); pi == nil && bad != "" {
			m.viol("PruferEncode", "argument-modified", r.name+","+ck, det, bad, "the tree passed in is unchanged")
		}
	}
}

// runs renders an int sequence with runs collapsed ("0x256 7 3x2"), so that a
// long code stays readable in a witness.
func runs(a []int) string {
	var sb strings.Builder
	sb.WriteByte('[')
	for i := 0; i < len(a); {
		j := i
		for j < len(a) && a[j] == a[i] {
			j++
		}
		if i > 0 {
			sb.WriteByte(' ')
		}
		if j-i >= 3 {
			fmt.Fprintf(&sb, "%dx%d", a[i], j-i)
		} else {
			fmt.Fprintf(&sb, "%d", a[i])
			if j-i == 2 {
				fmt.Fprintf(&sb, " %d", a[i])
			}
		}
		i = j
		if sb.Len() > 1500 {
			fmt.Fprintf(&sb, " ...(%d entries in all)", len(a))
			break
		}
	}
	sb.WriteByte(']')
	return sb.String()
}

// treeDiff describes the first vertices on which two graphs differ by their
// neighbour lists (long lists as counts).
func treeDiff(got, want *rg.G) (string, string) {
	if got.N <= 40 {
		return got.String(), want.String()
	}
	show := func(l []int) string {
		if len(l) > 12 {
			return fmt.Sprintf("%d neighbours %v...", len(l), l[:12])
		}
		return fmt.Sprint(l)
	}
	var o, e []string
	for v := 0; v < want.N && len(o) < 3; v++ {
		a, b := got.Nbrs(v), want.Nbrs(v)
		if fmt.Sprint(a) != fmt.Sprint(b) {
			o = append(o, fmt.Sprintf("N(%d)=%s", v, show(a)))
			e = append(e, fmt.Sprintf("N(%d)=%s", v, show(b)))
		}
	}
	return fmt.Sprintf("%d edges; %s", got.M(), strings.Join(o, "; ")), fmt.Sprintf("%d edges; %s", want.M(), strings.Join(e, "; "))
}

// pruferTree starts from a tree (decode(encode(t)) == t).
func (m *mon) pruferTree(t *rg.G, label string) {
	c := m.c
	code := codec.PruferCode(t)
	if !codec.PruferTreeCounted(code).Equal(t) {
		c.Inconclusive("reference Pruefer codec is not a bijection on " + t.String())
		return
	}
	m.pruferCode(code, label)
}

// -------------------------------------------------------------------- run

func picker(r *engine.Rng) func(int) int { return func(k int) int { return r.Intn(k) } }

func fixedPick(seed int) func(int) int {
	x := uint64(seed)*2654435761 + 12345
	return func(k int) int {
		x = x*6364136223846793005 + 1442695040888963407
		return int((x >> 33) % uint64(k))
	}
}

func edgesOf(n int, e ...[2]int) *rg.G {
	g := rg.New(n)
	for _, p := range e {
		g.Add(p[0], p[1])
	}
	return g
}

// shapes returns the deterministic special graphs on n vertices.
func shapes(n int) []struct {
	name string
	g    *rg.G
} {
	type sg = struct {
		name string
		g    *rg.G
	}
	out := []sg{{"edgeless", rg.New(n)}}
	if n >= 2 {
		out = append(out, sg{"complete", gen.Complete(n)}, sg{"path", gen.PathG(n)})
		out = append(out, sg{"single-edge-first", edgesOf(n, [2]int{0, 1})}, sg{"single-edge-last", edgesOf(n, [2]int{n - 2, n - 1})}, sg{"single-edge-0-last", edgesOf(n, [2]int{0, n - 1})})
		k := gen.Complete(n - 1)
		out = append(out, sg{"complete-minus-last-vertex", k.AddVertex(nil)})
		star := rg.New(n)
		for i := 0; i+1 < n; i++ {
			star.Add(i, n-1)
		}
		out = append(out, sg{"star-at-last", star})
		for _, ctr := range []int{0, n / 2} { // a vertex adjacent to all others, small and middle label
			st := rg.New(n)
			for i := 0; i < n; i++ {
				st.Add(i, ctr)
			}
			out = append(out, sg{fmt.Sprintf("star-at-%d", ctr), st})
		}
	}
	if n >= 3 {
		out = append(out, sg{"cycle", gen.Cycle(n)})
		h := gen.Complete(n - 2).AddVertex(nil).AddVertex(nil)
		out = append(out, sg{"last-two-isolated", h})
		h2 := gen.Complete(n - 2).AddVertex(nil).AddVertex([]int{0})
		out = append(out, sg{"last-but-one-isolated", h2})
		out = append(out, sg{"single-edge-n-3,n-2", edgesOf(n, [2]int{n - 3, n - 2})})
	}
	return out
}

// longCodes builds the structured long Pruefer codes of length L (trees on
// n = L+2 vertices): values repeated across the 127/128, 255/256/257 and
// 511/512/513 boundaries at small, middle and large labels.
func longCodes(L int, r *engine.Rng, seeded int, thin bool) []struct {
	label string
	code  []int
} {
	type lc = struct {
		label string
		code  []int
	}
	n := L + 2
	var out []lc
	constant := func(v, k int) []int {
		a := make([]int, k)
		for i := range a {
			a[i] = v
		}
		return a
	}
	cat := func(parts ...[]int) []int {
		var a []int
		for _, p := range parts {
			a = append(a, p...)
		}
		return a
	}
	randomTail := func(k int, avoid ...int) []int {
		a := make([]int, 0, k)
		for len(a) < k {
			x := r.Intn(n)
			ok := true
			for _, y := range avoid {
				ok = ok && x != y
			}
			if ok {
				a = append(a, x)
			}
		}
		return a
	}
	// (i) constant: the star centred at v
	for _, v := range []int{0, 1, 2, n / 2, n - 3, n - 2, n - 1} {
		out = append(out, lc{fmt.Sprintf("star centred at %d", v), constant(v, L)})
	}
	// (ii) two values in blocks and alternating: double stars with chosen degrees
	for _, ca := range []int{126, 127, 128, 254, 255, 256, 257, 511, 512, 513} {
		cb := L - ca
		if cb < 1 {
			continue
		}
		for pi, pr := range [][2]int{{0, 1}, {1, 0}, {0, n - 1}, {n - 1, 0}, {2, n / 2}, {n / 2, 3}} {
			if thin && (pi == 1 || pi >= 4) {
				continue
			}
			a, b := pr[0], pr[1]
			out = append(out, lc{fmt.Sprintf("double star: %d x%d then %d x%d", a, ca, b, cb), cat(constant(a, ca), constant(b, cb))})
			if pi%2 == 0 {
				out = append(out, lc{fmt.Sprintf("double star: %d x%d then %d x%d", b, cb, a, ca), cat(constant(b, cb), constant(a, ca))})
				alt := make([]int, 0, L)
				ia, ib := 0, 0
				for len(alt) < L {
					if ia < ca && (ib >= cb || len(alt)%2 == 0) {
						alt = append(alt, a)
						ia++
					} else {
						alt = append(alt, b)
						ib++
					}
				}
				out = append(out, lc{fmt.Sprintf("double star alternating: %d x%d, %d x%d", a, ca, b, cb), alt})
			}
		}
	}
	// (iii) one value repeated across a byte boundary + random rest
	for _, rep := range []int{255, 256, 257, 300, 511, 512, 513} {
		if rep > L {
			continue
		}
		for _, v := range []int{0, 3, n / 2, n - 1} {
			tail := randomTail(L-rep, v)
			out = append(out, lc{fmt.Sprintf("%d x%d then a random tail", v, rep), cat(constant(v, rep), tail)})
			out = append(out, lc{fmt.Sprintf("a random head then %d x%d", v, rep), cat(tail, constant(v, rep))})
			mixed := cat(constant(v, rep), tail)
			for i := len(mixed) - 1; i > 0; i-- {
				j := r.Intn(i + 1)
				mixed[i], mixed[j] = mixed[j], mixed[i]
			}
			out = append(out, lc{fmt.Sprintf("%d x%d spread among random entries", v, rep), mixed})
		}
	}
	// (v) increasing / decreasing / caterpillars / spiders
	inc := make([]int, L)
	dec := make([]int, L)
	cater := make([]int, L)
	cater3 := make([]int, L)
	for i := 0; i < L; i++ {
		inc[i] = i + 1
		dec[i] = L - i
		cater[i] = n/2 + i/2
		cater3[i] = 1 + (i/3)*2
		if cater[i] >= n {
			cater[i] = n - 1
		}
		if cater3[i] >= n {
			cater3[i] = n - 1
		}
	}
	out = append(out, lc{"increasing (path 0-1-2-...)", inc}, lc{"decreasing", dec}, lc{"caterpillar, spine in the upper half, 2 legs each", cater}, lc{"caterpillar, odd spine, 3 legs each", cater3})
	// (iv) random codes, random codes over few values
	for i := 0; i < seeded; i++ {
		a := make([]int, L)
		vals := n
		if i%2 == 1 {
			vals = 2 + r.Intn(3)
		}
		base := r.Intn(n - vals + 1)
		for j := range a {
			a[j] = base + r.Intn(vals)
		}
		out = append(out, lc{fmt.Sprintf("seeded code over %d values from %d, #%d", vals, base, i), a})
	}
	return out
}

func run(c *engine.Ctx) {
	// 0. regression witnesses of the defects found on the pinned tree: the
	// smallest graph of each kind, first so that they are the first reported.
	unit(c, "witness/sparse6", func(m *mon) {
		list := []struct {
			name string
			g    *rg.G
		}{
			{"edgeless n=5 (:D)", rg.New(5)},
			{"K2 (:An)", gen.Complete(2)},
			{"triangle + isolated vertex, n=4: the zero-bit padding rule", edgesOf(4, [2]int{0, 1}, [2]int{0, 2}, [2]int{1, 2})},
			{"path n=17: every pair is 6 bits, the stream ends on a byte boundary", gen.PathG(17)},
			{"edgeless n=0", rg.New(0)}, {"edgeless n=1", rg.New(1)}, {"edgeless n=2", rg.New(2)},
			{"K7 + isolated vertex, n=8", gen.Complete(7).AddVertex(nil)},
			{"K15 + isolated vertex, n=16", gen.Complete(15).AddVertex(nil)},
			{"edgeless n=63", rg.New(63)},
			{"formats.txt example :Fa@x^", edgesOf(7, [2]int{0, 1}, [2]int{0, 2}, [2]int{1, 2}, [2]int{5, 6})},
		}
		for i, x := range list {
			m.checkGraph(x.g, x.name, fixedPick(i), full)
			m.inputsUntouched(x.g, x.name)
		}
	})
	unit(c, "witness/multicode", func(m *mon) {
		m.multicode(edgesOf(3, [2]int{0, 2}), "n=3,g6="+codec.Graph6(edgesOf(3, [2]int{0, 2})), graphDetail(edgesOf(3, [2]int{0, 2}), "witness"))
		k3 := gen.Complete(3)
		m.multicodeMultiple([]*rg.G{k3, rg.New(1), k3}, "witness")
		m.multicodeMultiple([]*rg.G{k3, rg.New(0), k3}, "witness")
		m.multicodeMultiple([]*rg.G{rg.New(1)}, "witness")
		m.multicodeMultiple([]*rg.G{rg.New(0)}, "witness")
		m.multicodeMultiple([]*rg.G{k3, gen.PathG(4), gen.Complete(2)}, "witness")
	})

	// 1. all labelled graphs n <= 5
	unit(c, "labelled/n<=4", func(m *mon) {
		cnt := 0
		for n := 0; n <= 4; n++ {
			gen.AllLabelled(n, 0, 1, func(mask uint64, g *rg.G) {
				m.checkGraph(g, "all labelled graphs", fixedPick(int(mask)+n), full)
				if mask%8 == 0 {
					m.inputsUntouched(g, "all labelled graphs")
				}
				cnt++
			})
		}
		c.Obs("labelled_graphs_n<=4", cnt)
		c.Obs("exhaustive:all labelled graphs on n<=4 vertices, all codecs, two representations", 1)
	})
	for part := 0; part < 8; part++ {
		part := part
		unit(c, fmt.Sprintf("labelled/n=5/%d", part), func(m *mon) {
			cnt := 0
			gen.AllLabelled(5, uint64(part), 8, func(mask uint64, g *rg.G) {
				m.checkGraph(g, "all labelled graphs", fixedPick(int(mask)), full)
				cnt++
			})
			c.Obs("labelled_graphs_n=5", cnt)
			if part == 0 {
				c.Obs("exhaustive:all 1024 labelled graphs on 5 vertices, all codecs, two representations", 1)
			}
		})
	}

	// 2. isomorphism classes x relabellings
	classN := []int{6, 7}
	if c.Thorough() {
		classN = append(classN, 8)
	}
	for _, n := range classN {
		parts := map[int]int{6: 1, 7: 8, 8: 48}[n]
		relab := c.Pick(2, 8)
		if n == 8 {
			relab = 4
		}
		for part := 0; part < parts; part++ {
			n, part := n, part
			unit(c, fmt.Sprintf("classes/n=%d/%d", n, part), func(m *mon) {
				cl := gen.Classes(n)
				for i := part; i < len(cl); i += parts {
					for r := 0; r < relab; r++ {
						g := cl[i]
						rr := c.Rand(fmt.Sprintf("classes%d", n), i*16+r)
						if r > 0 {
							g = g.Induced(rr.Perm(n))
						}
						m.checkGraph(g, fmt.Sprintf("class %d of n=%d, relabelling %d", i, n, r), picker(rr), full)
					}
				}
				if part == 0 {
					c.Obs(fmt.Sprintf("exhaustive:all %d isomorphism classes on %d vertices x %d labellings", len(cl), n, relab), 1)
					c.Sample("classes", map[string]interface{}{"n": n, "classes": len(cl), "labellings_each": relab})
				}
			})
		}
	}

	// 3. every n in 0..70: fixed shapes and seeded graphs
	perN := c.Pick(10, 200)
	for n := 0; n <= 70; n++ {
		n := n
		unit(c, fmt.Sprintf("sizes/n=%d", n), func(m *mon) {
			for i, s := range shapes(n) {
				m.checkGraph(s.g, s.name, fixedPick(n*100+i), full)
			}
			for i := 0; i < perN; i++ {
				r := c.Rand("sizes", n*1000+i)
				var g *rg.G
				label := ""
				switch i % 10 {
				case 0:
					g, label = gen.Random(r, n, 0.5), "seeded p=0.5"
				case 1:
					g, label = gen.Random(r, n, 0.1), "seeded p=0.1"
				case 2:
					g, label = gen.Random(r, n, 0.9), "seeded p=0.9"
				case 3:
					g, label = gen.RandomTree(r, n), "seeded tree"
				case 4: // last vertex isolated
					if n >= 1 {
						g, label = gen.Random(r, n-1, 0.3+0.4*r.Float()).AddVertex(nil), "seeded, last vertex isolated"
					} else {
						g, label = rg.New(0), "edgeless"
					}
				case 5: // last-but-one vertex isolated
					g, label = gen.Random(r, n, 0.4), "seeded, last-but-one vertex isolated"
					if n >= 2 {
						for j := 0; j < n; j++ {
							g.Del(n-2, j)
						}
					}
				case 6: // very sparse: few edges, many moves
					g, label = rg.New(n), "seeded, few edges"
					if n >= 2 {
						for e := 0; e < 1+r.Intn(4); e++ {
							g.Add(r.Intn(n), r.Intn(n))
						}
					}
				case 7:
					g, label = gen.Random(r, n, 2.0/float64(n+1)), "seeded p=2/n"
				case 8: // only the high vertices are used
					g, label = rg.New(n), "seeded, edges among the last vertices"
					for a := n - 1; a >= 0 && a >= n-5; a-- {
						for b := a - 1; b >= 0 && b >= n-5; b-- {
							if r.Bool(0.6) {
								g.Add(a, b)
							}
						}
					}
				default:
					g, label = gen.Random(r, n, r.Float()), "seeded random density"
				}
				m.checkGraph(g, fmt.Sprintf("%s #%d", label, i), picker(r), full)
				if i < 2 {
					m.inputsUntouched(g, label)
				}
				if n == 37 && i == 0 {
					c.Sample("sizes", map[string]interface{}{"n": n, "m": g.M(), "graph6": codec.Graph6(g), "sparse6": codec.Sparse6OfGraph(g)})
				}
			}
		})
	}

	// 4. n a power of two (and neighbours): the special padding rule needs the
	// last vertex isolated, the last-but-one not, and enough room in the last byte
	for _, n := range []int{2, 4, 8, 16, 32, 64, 3, 7, 9, 15, 17, 31, 33} {
		n := n
		cnt := c.Pick(300, 10000)
		unit(c, fmt.Sprintf("padding/n=%d", n), func(m *mon) {
			for i := 0; i < cnt; i++ {
				r := c.Rand("padding", n*100000+i)
				g := rg.New(n)
				top := n - 1
				if i%4 == 3 {
					top = n
				}
				p := []float64{0.15, 0.3, 0.5, 0.8}[r.Intn(4)]
				if n >= 32 {
					p /= 4
				}
				for a := 1; a < top; a++ {
					for b := 0; b < a; b++ {
						if r.Bool(p) {
							g.Add(a, b)
						}
					}
				}
				if top == n-1 && n >= 2 && r.Bool(0.8) && n > 2 {
					g.Add(n-2, r.Intn(n-2)) // the last-but-one vertex has an edge
				}
				m.checkGraph(g, fmt.Sprintf("padding #%d", i), picker(r), opts{alts: 1, multicode: false, g6: false})
			}
		})
	}
	if c.Thorough() {
		// all graphs on 8 vertices whose last vertex is isolated and whose edges
		// lie among 6 of the first 7 vertices + all neighbourhoods of vertex 6
		for part := 0; part < 32; part++ {
			part := part
			unit(c, fmt.Sprintf("padding/n=8/exhaustive/%d", part), func(m *mon) {
				cnt := 0
				gen.AllLabelled(6, uint64(part), 32, func(mask uint64, g6 *rg.G) {
					for nb := 1; nb < 64; nb += 6 {
						var l []int
						for b := 0; b < 6; b++ {
							if nb>>uint(b)&1 == 1 {
								l = append(l, b)
							}
						}
						g := g6.AddVertex(l).AddVertex(nil)
						m.checkGraph(g, "n=8, last vertex isolated", fixedPick(int(mask)), opts{alts: 0, multicode: false, g6: false})
						cnt++
					}
				})
				c.Obs("padding_n=8_structured", cnt)
			})
		}
	}

	// 5. larger n: 4-byte graph6 headers (n >= 4096 uses all three size bytes), Multicode up to 255
	bigN := []int{71, 100, 127, 128, 129, 200, 254, 255, 256, 257, 258, 300, 400, 600, 4096}
	if c.Thorough() {
		bigN = append(bigN, 4095, 4100)
	}
	for _, n := range bigN {
		n := n
		cnt := c.Pick(4, 16)
		if n > 300 {
			cnt = c.Pick(1, 3)
		}
		unit(c, fmt.Sprintf("large/n=%d", n), func(m *mon) {
			for _, s := range shapes(n) {
				if n > 300 {
					// the matrix comparisons cost n^2 each: the stars only (one above 600 vertices)
					if s.name == "star-at-last" || (n <= 600 && strings.HasPrefix(s.name, "star-at-")) {
						m.checkGraph(s.g, s.name, fixedPick(n), opts{alts: 0, multicode: false, g6: true})
					}
					continue
				}
				if s.name == "edgeless" || s.name == "single-edge-last" || strings.HasPrefix(s.name, "star-at-") || s.name == "complete" || s.name == "complete-minus-last-vertex" {
					m.checkGraph(s.g, s.name, fixedPick(n), opts{alts: 1, multicode: true, g6: true})
				}
			}
			if n >= 200 && n <= 600 {
				// hubs: vertices of degree >= 128 / 256 inside a sparse graph (long runs for one vertex in the
				// sparse6 stream and in a Multicode list, list entries 128..255), at a small, a middle and the last label
				for i, hub := range [][]int{{0}, {n / 2}, {n - 1}, {1, n - 2}, {0, 1, 2}} {
					r := c.Rand("hubs", n*10+i)
					g := gen.Random(r, n, 1.5/float64(n))
					for _, h := range hub {
						deg := []int{n - 1, 257, 256, 255, 129}[(i+h)%5]
						if deg > n-1 {
							deg = n - 1
						}
						for _, u := range r.Perm(n)[:deg] {
							g.Add(h, u)
						}
						for u := n - 1; u >= n-40 && u >= 0; u-- { // the high labels (bytes 216..255 of a Multicode list)
							g.Add(h, u)
						}
					}
					c.Obs("graphs:with_a_vertex_of_degree>=128", 1)
					if g.Deg(hub[0]) >= 256 {
						c.Obs("graphs:with_a_vertex_of_degree>=256", 1)
					}
					m.checkGraph(g, fmt.Sprintf("sparse graph with hubs %v", hub), picker(r), opts{alts: 1, multicode: true, g6: true})
				}
			}
			for i := 0; i < cnt; i++ {
				r := c.Rand("large", n*100+i)
				p := []float64{0.5, 0.02, 0.1, 0.9}[i%4]
				if n > 300 {
					p = []float64{0.002, 0.0005, 0.01}[i%3]
				}
				g := gen.Random(r, n, p)
				o := opts{alts: 1, multicode: true, g6: true}
				if n > 300 {
					o.alts = 0
				}
				m.checkGraph(g, fmt.Sprintf("seeded p=%.4f #%d", p, i), picker(r), o)
			}
		})
	}

	// 6. sparse6 with very large n (neighbour lists only, no matrix)
	hugeN := []int{65535, 65536, 65537, 258046, 258047, 258048, 258049, 262143, 262144, 262145}
	for _, n := range hugeN {
		n := n
		unit(c, fmt.Sprintf("huge/n=%d", n), func(m *mon) {
			m.checkHuge(n, nil, "edgeless")
			m.checkHuge(n, [][2]int{{0, 1}}, "one edge 0-1")
			m.checkHuge(n, [][2]int{{n - 2, n - 1}}, "one edge at the end")
			m.checkHuge(n, [][2]int{{0, n - 1}}, "one edge 0-last")
			m.checkHuge(n, [][2]int{{0, 1}, {0, 2}, {1, 2}, {5, 6}, {12345, 54321}, {54321, 54322}, {54321, 54323}, {7, n - 1}, {n - 3, n - 2}, {n - 3, n - 1}}, "ten edges")
			cnt := c.Pick(3, 12)
			for i := 0; i < cnt; i++ {
				r := c.Rand("huge", n%1000*100+i)
				var e [][2]int
				ne := 1 + r.Intn(12)
				for len(e) < ne {
					a, b := r.Intn(n), r.Intn(n)
					if r.Bool(0.3) {
						b = a + 1 + r.Intn(3)
					}
					if r.Bool(0.2) {
						a = n - 1 - r.Intn(4)
					}
					if a != b && a < n && b < n {
						e = append(e, [2]int{a, b})
					}
				}
				m.checkHuge(n, e, fmt.Sprintf("seeded #%d", i))
			}
			if n == 258048 {
				c.Sample("huge", map[string]interface{}{"n": n, "edges": "0-1 0-2 1-2 5-6 ...", "sparse6": codec.Sparse6(n, [][2]int{{0, 1}, {0, 2}, {1, 2}, {5, 6}})})
			}
		})
	}

	// 7. Pruefer: all codes for small n, seeded trees
	maxP := c.Pick(7, 8)
	for n := 2; n <= maxP; n++ {
		total := 1
		for i := 0; i < n-2; i++ {
			total *= n
		}
		parts := 1
		if total > 5000 {
			parts = (total + 3999) / 4000
		}
		for part := 0; part < parts; part++ {
			n, part, total, parts := n, part, total, parts
			unit(c, fmt.Sprintf("prufer/all/n=%d/%d", n, part), func(m *mon) {
				code := make([]int, n-2)
				for x := part; x < total; x += parts {
					y := x
					for i := range code {
						code[i] = y % n
						y /= n
					}
					m.pruferCode(code, "all codes")
				}
				if part == 0 {
					c.Obs(fmt.Sprintf("exhaustive:all %d Pruefer codes (= all labelled trees) on %d vertices", total, n), 1)
				}
			})
		}
	}
	np := c.Pick(600, 20000)
	for u := 0; u*100 < np; u++ {
		u := u
		unit(c, fmt.Sprintf("prufer/seeded/%d", u), func(m *mon) {
			for i := u * 100; i < (u+1)*100 && i < np; i++ {
				r := c.Rand("prufer", i)
				n := 2 + r.Intn(59)
				switch i % 3 {
				case 0:
					code := make([]int, n-2)
					for j := range code {
						code[j] = r.Intn(n)
					}
					m.pruferCode(code, fmt.Sprintf("seeded code #%d", i))
				case 1:
					m.pruferTree(gen.RandomTree(r, n), fmt.Sprintf("seeded tree #%d", i))
				default: // paths and stars relabelled: codes with all-distinct / all-equal entries
					var t *rg.G
					if r.Bool(0.5) {
						t = gen.PathG(n)
					} else {
						t = rg.New(n)
						for j := 1; j < n; j++ {
							t.Add(0, j)
						}
					}
					m.pruferTree(t.Induced(r.Perm(n)), fmt.Sprintf("seeded path/star #%d", i))
				}
				if i == 1 {
					t := gen.RandomTree(c.Rand("prufer-sample", 0), 9)
					c.Sample("prufer", map[string]interface{}{"tree": t.String(), "code": fmt.Sprint(codec.PruferCode(t))})
				}
			}
		})
	}

	// 7b. long Pruefer codes: vertices of degree around 128, 256, 512 (counters of one byte wrap there)
	longL := []int{253, 254, 255, 256, 257, 258, 259, 260, 300, 400, 600, 1000}
	if c.Thorough() {
		longL = append(longL, 128, 129, 510, 511, 512, 513, 514, 515, 768, 770, 1030)
	}
	for _, L := range longL {
		L := L
		parts := 1 // the library's codec is quadratic: spread the long ones over several units
		switch {
		case L >= 1000:
			parts = 8
		case L >= 500:
			parts = 4
		case L >= 400:
			parts = 2
		}
		for part := 0; part < parts; part++ {
			part := part
			unit(c, fmt.Sprintf("prufer/long/len=%d/%d", L, part), func(m *mon) {
				r := c.Rand("prufer-long", L)
				list := longCodes(L, r, c.Pick(4, 24), !c.Thorough() && L >= 600)
				cnt := 0
				for i, x := range list {
					if i%parts == part {
						m.pruferCode(x.code, fmt.Sprintf("long code, n=%d: %s", L+2, x.label))
						cnt++
					}
				}
				c.Obs("prufer:long_codes", cnt)
				if L == 256 {
					c.Sample("prufer-long", map[string]interface{}{"n": L + 2, "cases": len(list), "examples": []string{runs(list[0].code), runs(list[len(list)/2].code)}})
				}
			})
		}
	}

	// 8. Multicode concatenations
	unit(c, "multicode/concat/small", func(m *mon) {
		pool := []*rg.G{rg.New(0), rg.New(1), rg.New(2), gen.Complete(2), gen.PathG(3), gen.Complete(3), rg.New(3), edgesOf(4, [2]int{0, 3}, [2]int{1, 2}), gen.Complete(5)}
		cnt := 0
		var rec func(cur []*rg.G)
		rec = func(cur []*rg.G) {
			if len(cur) > 0 {
				m.multicodeMultiple(cur, "all sequences of length <= 3 over 9 small graphs")
				cnt++
			}
			if len(cur) == 3 {
				return
			}
			for _, g := range pool {
				rec(append(append([]*rg.G(nil), cur...), g))
			}
		}
		rec(nil)
		c.Obs("multicode:small_sequences", cnt)
		c.Obs("exhaustive:all sequences of <= 3 Multicode records over 9 small graphs (n=0,1 included)", 1)
	})
	nc := c.Pick(200, 5000)
	for u := 0; u*50 < nc; u++ {
		u := u
		unit(c, fmt.Sprintf("multicode/concat/seeded/%d", u), func(m *mon) {
			for i := u * 50; i < (u+1)*50 && i < nc; i++ {
				r := c.Rand("mconcat", i)
				var gs []*rg.G
				for k := 1 + r.Intn(8); k > 0; k-- {
					n := r.Intn(12)
					switch r.Intn(6) {
					case 0:
						n = r.Intn(2)
					case 1:
						n = []int{60, 128, 200, 254, 255}[r.Intn(5)]
					}
					p := r.Float()
					if n > 30 {
						p /= 10
					}
					gs = append(gs, gen.Random(r, n, p))
				}
				m.multicodeMultiple(gs, fmt.Sprintf("seeded #%d", i))
			}
		})
	}

	// 9. results of earlier calls held across later calls (held.go)
	heldUnits(c)
	// 10. arguments that are sub-slices of larger caller-owned buffers (buffers.go)
	bufferUnits(c)
	// 11. nested calls: the observers of a caller-implemented graph call the library while an encoder is running (reentrant.go)
	reentrantUnits(c)
}

package planarity

import (
	"fmt"

	"verif/internal/oracle/rg"
)

// Emb is a graph given by a rotation system: Rot[v] is the cyclic order of
// the neighbours of v.  The builders below keep it planar by construction; the
// monitor nevertheless uses an Emb as a certificate only after CheckRotation
// accepted it.
type Emb struct {
	Rot [][]int
}

// NewEmb returns the edgeless embedded graph on n vertices.
func NewEmb(n int) *Emb { return &Emb{Rot: make([][]int, n)} }

// N returns the number of vertices.
func (e *Emb) N() int { return len(e.Rot) }

// M returns the number of edges.
func (e *Emb) M() int {
	d := 0
	for _, r := range e.Rot {
		d += len(r)
	}
	return d / 2
}

// Graph returns the underlying graph.
func (e *Emb) Graph() *rg.G {
	g := rg.New(len(e.Rot))
	for v, r := range e.Rot {
		for _, u := range r {
			g.Add(v, u)
		}
	}
	return g
}

// Copy returns an independent copy.
func (e *Emb) Copy() *Emb {
	c := &Emb{Rot: make([][]int, len(e.Rot))}
	for v, r := range e.Rot {
		c.Rot[v] = append([]int(nil), r...)
	}
	return c
}

// Has reports whether uv is an edge.
func (e *Emb) Has(u, v int) bool {
	for _, x := range e.Rot[u] {
		if x == v {
			return true
		}
	}
	return false
}

// Edges lists the edges (u < v) in ascending order of (v, u).
func (e *Emb) Edges() [][2]int {
	var r [][2]int
	for v, rv := range e.Rot {
		for _, u := range rv {
			if u < v {
				r = append(r, [2]int{u, v})
			}
		}
	}
	return r
}

// FromFaces builds the rotation system of the embedding whose faces are the
// given directed closed walks (every dart u->v occurs exactly once over all
// faces): at v the neighbour following u is w for consecutive u, v, w.
func FromFaces(n int, faces [][]int) (*Emb, error) {
	type de struct{ a, b int }
	succ := make(map[de]int) // (v,u) -> w
	nbrs := make([][]int, n)
	for _, f := range faces {
		k := len(f)
		if k < 2 {
			return nil, fmt.Errorf("face of length %d", k)
		}
		for i := 0; i < k; i++ {
			u, v, w := f[i], f[(i+1)%k], f[(i+2)%k]
			if u < 0 || u >= n || v < 0 || v >= n || u == v {
				return nil, fmt.Errorf("bad dart %d->%d", u, v)
			}
			if _, dup := succ[de{v, u}]; dup {
				return nil, fmt.Errorf("dart %d->%d occurs twice", u, v)
			}
			succ[de{v, u}] = w
			nbrs[v] = append(nbrs[v], u)
		}
	}
	e := NewEmb(n)
	for v := 0; v < n; v++ {
		if len(nbrs[v]) == 0 {
			continue
		}
		start := nbrs[v][0]
		cur := start
		for {
			e.Rot[v] = append(e.Rot[v], cur)
			nx, ok := succ[de{v, cur}]
			if !ok {
				return nil, fmt.Errorf("dart %d->%d has no reverse", v, cur)
			}
			cur = nx
			if cur == start {
				break
			}
			if len(e.Rot[v]) > len(nbrs[v]) {
				return nil, fmt.Errorf("rotation at %d does not close", v)
			}
		}
		if len(e.Rot[v]) != len(nbrs[v]) {
			return nil, fmt.Errorf("rotation at %d is not a single cycle", v)
		}
	}
	return e, nil
}

func removeFrom(s []int, x int) []int {
	for i, y := range s {
		if y == x {
			return append(s[:i:i], s[i+1:]...)
		}
	}
	return s
}

func replaceIn(s []int, x, y int) {
	for i := range s {
		if s[i] == x {
			s[i] = y
			return
		}
	}
}

// DeleteEdge removes the edge uv; the remaining graph inherits the
// restricted rotation system.
func (e *Emb) DeleteEdge(u, v int) {
	e.Rot[u] = removeFrom(e.Rot[u], v)
	e.Rot[v] = removeFrom(e.Rot[v], u)
}

// Subdivide replaces the edge uv by the path u-w-v with a new vertex w,
// which is returned.
func (e *Emb) Subdivide(u, v int) int {
	w := len(e.Rot)
	replaceIn(e.Rot[u], v, w)
	replaceIn(e.Rot[v], u, w)
	e.Rot = append(e.Rot, []int{u, v})
	return w
}

// AddIsolated appends an isolated vertex.
func (e *Emb) AddIsolated() int {
	e.Rot = append(e.Rot, nil)
	return len(e.Rot) - 1
}

func insertAt(s []int, i, x int) []int {
	s = append(s, 0)
	copy(s[i+1:], s[i:])
	s[i] = x
	return s
}

// AddPendant appends a new vertex adjacent to v only, placed at position at
// (0..deg v) of the rotation of v.
func (e *Emb) AddPendant(v, at int) int {
	w := len(e.Rot)
	if at > len(e.Rot[v]) {
		at = len(e.Rot[v])
	}
	e.Rot[v] = insertAt(append([]int(nil), e.Rot[v]...), at, w)
	e.Rot = append(e.Rot, []int{v})
	return w
}

// Bridge joins two vertices of DIFFERENT components by an edge (any corner
// will do: the two components lie on separate spheres).
func (e *Emb) Bridge(u, v, atU, atV int) {
	if atU > len(e.Rot[u]) {
		atU = len(e.Rot[u])
	}
	if atV > len(e.Rot[v]) {
		atV = len(e.Rot[v])
	}
	e.Rot[u] = insertAt(append([]int(nil), e.Rot[u]...), atU, v)
	e.Rot[v] = insertAt(append([]int(nil), e.Rot[v]...), atV, u)
}

// Append adds a disjoint copy of o and returns the offset of its vertices.
func (e *Emb) Append(o *Emb) int {
	off := len(e.Rot)
	for _, r := range o.Rot {
		nr := make([]int, len(r))
		for i, u := range r {
			nr[i] = u + off
		}
		e.Rot = append(e.Rot, nr)
	}
	return off
}

// Identify merges vertex b into vertex a; a and b must lie in DIFFERENT
// components (the result has a as a cut vertex).  The last vertex takes the
// index of b.
func (e *Emb) Identify(a, b int) {
	for _, u := range e.Rot[b] {
		replaceIn(e.Rot[u], b, a)
	}
	e.Rot[a] = append(append([]int(nil), e.Rot[a]...), e.Rot[b]...)
	last := len(e.Rot) - 1
	if b != last {
		e.Rot[b] = e.Rot[last]
		for _, u := range e.Rot[b] {
			replaceIn(e.Rot[u], last, b)
		}
	}
	e.Rot = e.Rot[:last]
}

// Relabel returns the embedded graph whose vertex i is vertex perm[i] of e
// (the convention of rg.Induced).
func (e *Emb) Relabel(perm []int) *Emb {
	n := len(e.Rot)
	inv := make([]int, n)
	for i, p := range perm {
		inv[p] = i
	}
	r := NewEmb(n)
	for i := 0; i < n; i++ {
		old := e.Rot[perm[i]]
		nr := make([]int, len(old))
		for k, u := range old {
			nr[k] = inv[u]
		}
		r.Rot[i] = nr
	}
	return r
}

// FaceGraph is a 2-connected plane graph under construction, kept as the list
// of its faces (simple directed cycles; every dart occurs in exactly one).
type FaceGraph struct {
	N     int
	Faces [][]int
	adj   map[[2]int]bool
}

func key(u, v int) [2]int {
	if u > v {
		u, v = v, u
	}
	return [2]int{u, v}
}

// NewCycleFaces returns the cycle 0..k-1 with its two faces (k >= 3).
func NewCycleFaces(k int) *FaceGraph {
	f := &FaceGraph{N: k, adj: map[[2]int]bool{}}
	a := make([]int, k)
	b := make([]int, k)
	for i := 0; i < k; i++ {
		a[i] = i
		b[i] = k - 1 - i
		f.adj[key(i, (i+1)%k)] = true
	}
	f.Faces = [][]int{a, b}
	return f
}

// Adjacent reports whether uv is an edge.
func (f *FaceGraph) Adjacent(u, v int) bool { return f.adj[key(u, v)] }

// M returns the number of edges.
func (f *FaceGraph) M() int { return len(f.adj) }

// AddChord splits face fi by the edge between its positions i and j; the two
// vertices must be distinct and non-adjacent.  Reports whether it was done.
func (f *FaceGraph) AddChord(fi, i, j int) bool {
	F := f.Faces[fi]
	k := len(F)
	if i == j || i < 0 || j < 0 || i >= k || j >= k {
		return false
	}
	if i > j {
		i, j = j, i
	}
	a, b := F[i], F[j]
	if a == b || f.adj[key(a, b)] {
		return false
	}
	// F = ... a (i) ... b (j) ...   ->   [a..b] and [b..a]
	f1 := append([]int(nil), F[i:j+1]...)
	f2 := append(append([]int(nil), F[j:]...), F[:i+1]...)
	f.Faces[fi] = f1
	f.Faces = append(f.Faces, f2)
	f.adj[key(a, b)] = true
	return true
}

// AddVertex puts a new vertex into face fi and joins it to the face vertices
// at the given positions (at least 2, strictly ascending).  Returns the new
// vertex or -1.
func (f *FaceGraph) AddVertex(fi int, at []int) int {
	F := f.Faces[fi]
	k := len(F)
	if len(at) < 2 {
		return -1
	}
	for i, p := range at {
		if p < 0 || p >= k || (i > 0 && at[i-1] >= p) {
			return -1
		}
	}
	v := f.N
	f.N++
	// between consecutive attachment positions p < q the new face is F[p..q], v
	var nf [][]int
	for i := range at {
		p := at[i]
		q := at[(i+1)%len(at)]
		var face []int
		if i+1 < len(at) {
			face = append(face, F[p:q+1]...)
		} else {
			face = append(face, F[p:]...)
			face = append(face, F[:q+1]...)
		}
		face = append(face, v)
		nf = append(nf, face)
		f.adj[key(v, F[p])] = true
	}
	f.Faces[fi] = nf[0]
	f.Faces = append(f.Faces, nf[1:]...)
	return v
}

// Flip replaces the edge ab, which must lie on two triangular faces abc and
// bad, by the edge cd if c and d are distinct and not adjacent.  Reports
// whether it was done.
func (f *FaceGraph) Flip(a, b int) bool {
	if !f.adj[key(a, b)] {
		return false
	}
	f1, f2 := -1, -1
	c, d := -1, -1
	for fi, F := range f.Faces {
		if len(F) != 3 {
			continue
		}
		for i := 0; i < 3; i++ {
			if F[i] == a && F[(i+1)%3] == b {
				f1, c = fi, F[(i+2)%3]
			}
			if F[i] == b && F[(i+1)%3] == a {
				f2, d = fi, F[(i+2)%3]
			}
		}
	}
	if f1 < 0 || f2 < 0 || c == d || f.adj[key(c, d)] {
		return false
	}
	// faces a->b->c and b->a->d become a->d->c and d->b->c
	f.Faces[f1] = []int{a, d, c}
	f.Faces[f2] = []int{d, b, c}
	delete(f.adj, key(a, b))
	f.adj[key(c, d)] = true
	return true
}

// EdgeList lists the edges in a deterministic order (by face, first seen).
func (f *FaceGraph) EdgeList() [][2]int {
	seen := map[[2]int]bool{}
	var r [][2]int
	for _, F := range f.Faces {
		for i := range F {
			k := key(F[i], F[(i+1)%len(F)])
			if !seen[k] {
				seen[k] = true
				r = append(r, k)
			}
		}
	}
	return r
}

// Emb converts the face list into a rotation system.
func (f *FaceGraph) Emb() (*Emb, error) { return FromFaces(f.N, f.Faces) }

//go:build race

package c19

const raceEnabled = true

package planarity

import (
	"verif/internal/oracle/rg"
)

// Blocks returns the blocks of g (maximal 2-connected subgraphs and bridges)
// as vertex lists in order of discovery; isolated vertices belong to no block.
// Lowpoint DFS with an explicit edge stack.
func Blocks(g *rg.G) [][]int {
	n := g.N
	adj := make([][]int, n)
	for v := 0; v < n; v++ {
		adj[v] = g.Nbrs(v)
	}
	disc := make([]int, n)
	low := make([]int, n)
	for i := range disc {
		disc[i] = -1
	}
	var out [][]int
	type edge struct{ u, v int }
	var st []edge
	timer := 0
	mark := make([]int, n)
	for i := range mark {
		mark[i] = -1
	}
	// iterative DFS
	type frame struct{ v, p, i int }
	for s := 0; s < n; s++ {
		if disc[s] != -1 {
			continue
		}
		disc[s], low[s] = timer, timer
		timer++
		fs := []frame{{s, -1, 0}}
		for len(fs) > 0 {
			f := &fs[len(fs)-1]
			v := f.v
			if f.i < len(adj[v]) {
				u := adj[v][f.i]
				f.i++
				if u == f.p {
					continue
				}
				if disc[u] == -1 {
					st = append(st, edge{v, u})
					disc[u], low[u] = timer, timer
					timer++
					fs = append(fs, frame{u, v, 0})
				} else if disc[u] < disc[v] {
					st = append(st, edge{v, u})
					if disc[u] < low[v] {
						low[v] = disc[u]
					}
				}
				continue
			}
			// v finished
			fs = fs[:len(fs)-1]
			if len(fs) == 0 {
				break
			}
			p := fs[len(fs)-1].v
			if low[v] < low[p] {
				low[p] = low[v]
			}
			if low[v] >= disc[p] {
				id := len(out)
				var b []int
				for {
					e := st[len(st)-1]
					st = st[:len(st)-1]
					if mark[e.u] != id {
						mark[e.u] = id
						b = append(b, e.u)
					}
					if mark[e.v] != id {
						mark[e.v] = id
						b = append(b, e.v)
					}
					if e.u == p && e.v == v {
						break
					}
				}
				out = append(out, b)
			}
		}
	}
	return out
}

// MaxBlock returns the number of vertices of the largest block (0 if none).
func MaxBlock(g *rg.G) int {
	m := 0
	for _, b := range Blocks(g) {
		if len(b) > m {
			m = len(b)
		}
	}
	return m
}

// dmpBlock runs Demoucron-Malgrange-Pertuiset on the subgraph of g induced by
// the block vs (2-connected, >= 3 vertices).  It returns the faces (directed
// cycles over the original vertex names) or nil if some fragment has no
// admissible face.
func dmpBlock(g *rg.G, vs []int) [][]int {
	k := len(vs)
	loc := make(map[int]int, k)
	for i, v := range vs {
		loc[v] = i
	}
	adj := make([][]int, k)
	totalE := 0
	for i, v := range vs {
		for _, u := range g.Nbrs(v) {
			if j, ok := loc[u]; ok {
				adj[i] = append(adj[i], j)
			}
		}
		totalE += len(adj[i])
	}
	totalE /= 2
	// a cycle by DFS from local vertex 0
	parent := make([]int, k)
	for i := range parent {
		parent[i] = -2
	}
	parent[0] = -1
	var cyc []int
	{
		type frame struct{ v, i int }
		fs := []frame{{0, 0}}
	search:
		for len(fs) > 0 {
			f := &fs[len(fs)-1]
			v := f.v
			if f.i >= len(adj[v]) {
				fs = fs[:len(fs)-1]
				continue
			}
			u := adj[v][f.i]
			f.i++
			if u == parent[v] {
				continue
			}
			if parent[u] != -2 {
				c := []int{v}
				for x := v; x != u; {
					x = parent[x]
					c = append(c, x)
				}
				cyc = c
				break search
			}
			parent[u] = v
			fs = append(fs, frame{u, 0})
		}
	}
	if cyc == nil {
		return nil
	}
	emb := make([]bool, k*k)
	inH := make([]bool, k)
	addE := func(a, b int) {
		emb[a*k+b] = true
		emb[b*k+a] = true
		inH[a] = true
		inH[b] = true
	}
	for i := range cyc {
		addE(cyc[i], cyc[(i+1)%len(cyc)])
	}
	rev := make([]int, len(cyc))
	for i := range cyc {
		rev[i] = cyc[len(cyc)-1-i]
	}
	faces := [][]int{append([]int(nil), cyc...), rev}
	embE := len(cyc)
	type frag struct {
		inner  []int
		attach []int
		ea, eb int
	}
	comp := make([]int, k)
	attMark := make([]int, k)
	for embE < totalE {
		var frags []frag
		for v := 0; v < k; v++ {
			if !inH[v] {
				continue
			}
			for _, u := range adj[v] {
				if u < v && inH[u] && !emb[v*k+u] {
					frags = append(frags, frag{attach: []int{u, v}, ea: u, eb: v})
				}
			}
		}
		for i := range comp {
			comp[i] = -1
			attMark[i] = -1
		}
		for s := 0; s < k; s++ {
			if inH[s] || comp[s] >= 0 {
				continue
			}
			id := len(frags)
			comp[s] = id
			stack := []int{s}
			var inner, att []int
			for len(stack) > 0 {
				v := stack[len(stack)-1]
				stack = stack[:len(stack)-1]
				inner = append(inner, v)
				for _, u := range adj[v] {
					if inH[u] {
						if attMark[u] != id {
							attMark[u] = id
							att = append(att, u)
						}
					} else if comp[u] < 0 {
						comp[u] = id
						stack = append(stack, u)
					}
				}
			}
			frags = append(frags, frag{inner: inner, attach: att})
		}
		// admissible faces
		nf := len(faces)
		onFace := make([]bool, nf*k)
		for j, fc := range faces {
			for _, v := range fc {
				onFace[j*k+v] = true
			}
		}
		bestI, bestCnt, bestFace := -1, 1<<30, -1
		for i, f := range frags {
			cnt, fi := 0, -1
			for j := 0; j < nf; j++ {
				ok := true
				for _, a := range f.attach {
					if !onFace[j*k+a] {
						ok = false
						break
					}
				}
				if ok {
					cnt++
					fi = j
				}
			}
			if cnt == 0 {
				return nil
			}
			if cnt < bestCnt {
				bestI, bestCnt, bestFace = i, cnt, fi
			}
		}
		f := frags[bestI]
		var path []int
		if f.inner == nil {
			path = []int{f.ea, f.eb}
		} else {
			a := f.attach[0]
			isInner := make([]bool, k)
			for _, v := range f.inner {
				isInner[v] = true
			}
			isAtt := make([]bool, k)
			for _, v := range f.attach {
				isAtt[v] = true
			}
			prev := make([]int, k)
			for i := range prev {
				prev[i] = -1
			}
			visited := make([]bool, k)
			var queue []int
			for _, u := range adj[a] {
				if isInner[u] && !visited[u] {
					visited[u] = true
					prev[u] = a
					queue = append(queue, u)
				}
			}
			end, last := -1, -1
			for len(queue) > 0 && end < 0 {
				v := queue[0]
				queue = queue[1:]
				for _, u := range adj[v] {
					if isAtt[u] && u != a {
						end, last = u, v
						break
					}
				}
				if end >= 0 {
					break
				}
				for _, u := range adj[v] {
					if isInner[u] && !visited[u] {
						visited[u] = true
						prev[u] = v
						queue = append(queue, u)
					}
				}
			}
			if end < 0 {
				// a fragment with a single attachment: the input was not 2-connected
				return nil
			}
			p := []int{end}
			for x := last; x != a; x = prev[x] {
				p = append(p, x)
			}
			p = append(p, a)
			for i, j := 0, len(p)-1; i < j; i, j = i+1, j-1 {
				p[i], p[j] = p[j], p[i]
			}
			path = p
		}
		F := faces[bestFace]
		a, b := path[0], path[len(path)-1]
		ia, ib := -1, -1
		for i, v := range F {
			if v == a {
				ia = i
			}
			if v == b {
				ib = i
			}
		}
		fl := len(F)
		var F1, F2 []int
		for i := ia; ; i = (i + 1) % fl {
			F1 = append(F1, F[i])
			if i == ib {
				break
			}
		}
		for i := len(path) - 2; i >= 1; i-- {
			F1 = append(F1, path[i])
		}
		for i := ib; ; i = (i + 1) % fl {
			F2 = append(F2, F[i])
			if i == ia {
				break
			}
		}
		for i := 1; i <= len(path)-2; i++ {
			F2 = append(F2, path[i])
		}
		faces[bestFace] = F1
		faces = append(faces, F2)
		for i := 0; i+1 < len(path); i++ {
			addE(path[i], path[i+1])
			embE++
		}
	}
	out := make([][]int, len(faces))
	for i, fc := range faces {
		o := make([]int, len(fc))
		for j, v := range fc {
			o[j] = vs[v]
		}
		out[i] = o
	}
	return out
}

// refFaces returns, per block with >= 3 vertices, the faces found by DMP, or
// ok = false if some block has no embedding.
func refFaces(g *rg.G) (faces [][]int, bridges [][2]int, ok bool) {
	for _, b := range Blocks(g) {
		if len(b) == 2 {
			bridges = append(bridges, [2]int{b[0], b[1]})
			continue
		}
		f := dmpBlock(g, b)
		if f == nil {
			return nil, nil, false
		}
		faces = append(faces, f...)
	}
	return faces, bridges, true
}

// RefIsPlanar is the bare verdict of the reference (no certificate).
func RefIsPlanar(g *rg.G) bool {
	_, _, ok := refFaces(g)
	return ok
}

// Reference decides planarity of g with the independent DMP implementation
// and proposes a certificate: a rotation system assembled from the faces of
// the blocks (cut vertices get the concatenation of their per-block
// rotations), or the edges that survive greedy edge deletion (delete an edge
// whenever the rest stays non-planar), which form a K5 / K3,3 subdivision.
// The caller must Verify the certificate; an unverifiable one is inconclusive.
func Reference(g *rg.G) *Cert {
	faces, bridges, ok := refFaces(g)
	if ok {
		// a bridge uv is the closed walk u v (both darts)
		for _, b := range bridges {
			faces = append(faces, []int{b[0], b[1]})
		}
		// rotation per block, concatenated at cut vertices: FromFaces follows
		// the successor map, which is a union of disjoint cycles at a cut
		// vertex (one per block), so assemble by hand.
		type de struct{ a, b int }
		succ := make(map[de]int)
		for _, f := range faces {
			k := len(f)
			for i := 0; i < k; i++ {
				u, v, w := f[i], f[(i+1)%k], f[(i+2)%k]
				succ[de{v, u}] = w
			}
		}
		rot := make([][]int, g.N)
		for v := 0; v < g.N; v++ {
			done := map[int]bool{}
			for _, s := range g.Nbrs(v) {
				if done[s] {
					continue
				}
				cur := s
				for steps := 0; steps <= g.N; steps++ {
					done[cur] = true
					rot[v] = append(rot[v], cur)
					nx, ok := succ[de{v, cur}]
					if !ok || nx == s {
						break
					}
					cur = nx
				}
			}
		}
		return &Cert{Planar: true, Rot: rot}
	}
	if g.N >= 3 && g.M() > 3*g.N-6 {
		return &Cert{Dense: true}
	}
	// restrict to one non-planar block, then delete edges greedily
	k := rg.New(g.N)
	for _, b := range Blocks(g) {
		if len(b) < 5 {
			continue
		}
		if dmpBlock(g, b) == nil {
			for i, u := range b {
				for _, v := range b[:i] {
					if g.Has(u, v) {
						k.Add(u, v)
					}
				}
			}
			break
		}
	}
	// chunked passes first (a Kuratowski subgraph is small, most chunks go at
	// once), then one pass edge by edge: an edge that cannot go now can never
	// go later, so one single-edge pass leaves an edge-minimal non-planar graph.
	for chunk := k.M() / 2; chunk >= 1; chunk /= 2 {
		cur := k.Edges()
		for i := 0; i < len(cur); i += chunk {
			j := i + chunk
			if j > len(cur) {
				j = len(cur)
			}
			for _, e := range cur[i:j] {
				k.Del(e[0], e[1])
			}
			if RefIsPlanar(k) {
				for _, e := range cur[i:j] {
					k.Add(e[0], e[1])
				}
			}
		}
	}
	return &Cert{Kur: k.Edges()}
}

// Demo for C12 change 5 (the register of minimised nodes of a Builder is a map indexed by a node signature instead of
// a slice which is scanned linearly; building a dawg with m nodes takes about m map operations instead of about m*m/2
// node comparisons).
//
// Run (from the root of the library worktree):
//
//	cp /tmp/green-out/C12/5/demo_test.go dawg/c12demo5_test.go
//	GOFLAGS=-mod=mod GOPROXY=off GOSUMDB=off GOTOOLCHAIN=local go test -vet=off -count=1 -timeout 600s -run 'TestC12Demo5' -v ./dawg/
//	rm dawg/c12demo5_test.go
//
// TestC12Demo5Property checks the property itself (accepts exactly the words, NumberOfWords, ranks of members, false
// for non-members, minimal node count, rejected Adds return an error and are harmless, also through a builder reset
// with Initialise) on fixed and random word sets, and on one larger random set, and passes before and after the change.
// TestC12Demo5Incidental asserts the OLD incidental behaviour, the quadratic growth of the construction time (a word
// list which is 4 times as long takes more than 9 times as long to build; about 16 times on the clean tree, about 4 to 5
// times with the change) and therefore passes on the clean tree and fails with the change. It also logs a digest of
// the GobEncode bytes of the dawgs, which is the same before and after: the change is not visible in any result.
package dawg_test

import (
	"encoding/hex"
	"hash/crc32"
	"math/rand"
	"sort"
	"testing"
	"time"

	"github.com/Tom-Johnston/mamba/dawg"
)

var c12demo5Sets = [][]string{
	{},
	{""},
	{"", "a"},
	{"abject", "abjection", "abjections", "abjectly", "abjectness", "ablate", "ablated", "ablation", "ablations"},
	{"", "a", "aa", "ab", "b", "ba", "bb", "tap", "taps", "top", "tops"},
	{"\x00", "\x00\xff", "\xff", "\xff\x00\xff"},
}

// randomSets5 returns sorted duplicate-free random word sets over small alphabets (many shared prefixes and suffixes).
func randomSets5(n int, seed int64) [][]string {
	rng := rand.New(rand.NewSource(seed))
	var sets [][]string
	for k := 0; k < n; k++ {
		alpha := 1 + rng.Intn(3)
		maxLen := 1 + rng.Intn(5)
		set := map[string]bool{}
		for i, m := 0, rng.Intn(14); i < m; i++ {
			w := make([]byte, rng.Intn(maxLen+1))
			for j := range w {
				w[j] = "ab\xff"[rng.Intn(alpha)]
			}
			set[string(w)] = true
		}
		words := []string{}
		for w := range set {
			words = append(words, w)
		}
		sort.Strings(words)
		sets = append(sets, words)
	}
	return sets
}

// minimalNodes5 is the number of states of the minimal (trim) deterministic acyclic automaton of the set: the number of
// distinct non-empty right languages of prefixes, and 1 (just the root) for the empty set.
func minimalNodes5(words []string) int {
	langs := map[string]bool{}
	for _, w := range words {
		for i := 0; i <= len(w); i++ {
			p := w[:i]
			var rl []string
			for _, v := range words {
				if len(v) >= len(p) && v[:len(p)] == p {
					rl = append(rl, v[len(p):])
				}
			}
			sort.Strings(rl)
			key := ""
			for _, s := range rl {
				key += hex.EncodeToString([]byte(s)) + ","
			}
			langs[key] = true
		}
	}
	if len(langs) == 0 {
		return 1
	}
	return len(langs)
}

// encodedNumNodes5 reads the node count which GobEncode writes first.
func encodedNumNodes5(t *testing.T, d *dawg.Dawg) int {
	b, err := d.GobEncode()
	if err != nil {
		t.Fatal(err)
	}
	if b[0] <= 127 {
		return int(b[0])
	}
	n := int(b[0]) - 128
	x := 0
	for _, c := range b[1 : 1+n] {
		x = x<<8 | int(c)
	}
	return x
}

func probes5(words []string) []string {
	set := map[string]bool{"": true, "zz": true, "a": true, "\x00": true}
	for _, w := range words {
		set[w] = true
		set[w+"a"] = true
		set[w+"\x00"] = true
		for i := 0; i < len(w); i++ {
			set[w[:i]] = true
			set[w[:i]+"\x01"] = true
			set[w[:i]+"b"] = true
		}
	}
	var ps []string
	for p := range set {
		ps = append(ps, p)
	}
	sort.Strings(ps)
	return ps
}

func checkDawg5(t *testing.T, d *dawg.Dawg, words []string) {
	t.Helper()
	if d.NumberOfWords() != len(words) {
		t.Errorf("%q: NumberOfWords = %d, want %d", words, d.NumberOfWords(), len(words))
	}
	rank := map[string]int{}
	for i, w := range words {
		rank[w] = i
	}
	for _, p := range probes5(words) {
		r, ok := d.Lookup([]byte(p))
		wr, wok := rank[p]
		if ok != wok || (ok && r != wr) {
			t.Errorf("%q: Lookup(%q) = (%d, %v), want (%d, %v)", words, p, r, ok, wr, wok)
		}
	}
	if got, want := encodedNumNodes5(t, d), minimalNodes5(words); got != want {
		t.Errorf("%q: %d nodes, minimal automaton has %d", words, got, want)
	}
}

func TestC12Demo5Property(t *testing.T) {
	rng := rand.New(rand.NewSource(12))
	for _, words := range append(c12demo5Sets, randomSets5(3000, 3)...) {
		var bs [][]byte
		for _, w := range words {
			bs = append(bs, []byte(w))
		}
		d, err := dawg.New(bs)
		if err != nil {
			t.Fatal(err)
		}
		checkDawg5(t, d, words)

		// The same set through a Builder with rejected Adds (duplicates and out-of-order words) in between.
		db := new(dawg.Builder)
		for i, w := range words {
			if err := db.Add([]byte(w)); err != nil {
				t.Fatal(err)
			}
			if err := db.Add([]byte(w)); err == nil {
				t.Errorf("%q: duplicate %q accepted", words, w)
			}
			if i > 0 {
				j := rng.Intn(i)
				if err := db.Add([]byte(words[j])); err == nil {
					t.Errorf("%q: out-of-order %q accepted", words, words[j])
				}
			}
			if w != "" {
				if err := db.Add([]byte(w[:len(w)-1])); err == nil {
					t.Errorf("%q: out-of-order %q accepted", words, w[:len(w)-1])
				}
			}
		}
		d, err = db.Finish()
		if err != nil {
			t.Fatal(err)
		}
		checkDawg5(t, d, words)

		// A builder which has been reset with Initialise() builds the same set again (documented way to reuse a builder).
		db.Initialise()
		for _, w := range words {
			if err := db.Add([]byte(w)); err != nil {
				t.Fatal(err)
			}
		}
		d2, err := db.Finish()
		if err != nil {
			t.Fatal(err)
		}
		checkDawg5(t, d2, words)
		checkDawg5(t, d, words) // the first dawg is not disturbed

		// New rejects a list with a duplicate or an inversion.
		if len(bs) > 0 {
			if _, err := dawg.New(append(bs[:len(bs):len(bs)], bs[rng.Intn(len(bs))])); err == nil {
				t.Errorf("%q: New accepted a list which is not strictly increasing", words)
			}
		}
	}
}

// bigSet5 returns n distinct random words of 6 to 9 lower case letters in increasing order.
func bigSet5(n int, seed int64) [][]byte {
	rng := rand.New(rand.NewSource(seed))
	set := map[string]bool{}
	for len(set) < n {
		w := make([]byte, 6+rng.Intn(4))
		for j := range w {
			w[j] = byte('a' + rng.Intn(26))
		}
		set[string(w)] = true
	}
	var ws []string
	for w := range set {
		ws = append(ws, w)
	}
	sort.Strings(ws)
	var bs [][]byte
	for _, w := range ws {
		bs = append(bs, []byte(w))
	}
	return bs
}

// The property on a larger set (ranks of all members, some non-members, NumberOfWords; the node count is compared with
// the number of distinct right languages computed from the sorted list).
func TestC12Demo5PropertyLarge(t *testing.T) {
	bs := bigSet5(6000, 7)
	d, err := dawg.New(bs)
	if err != nil {
		t.Fatal(err)
	}
	if d.NumberOfWords() != len(bs) {
		t.Fatalf("NumberOfWords = %d, want %d", d.NumberOfWords(), len(bs))
	}
	words := make([]string, len(bs))
	member := map[string]bool{}
	for i, b := range bs {
		words[i] = string(b)
		member[words[i]] = true
		if r, ok := d.Lookup(b); !ok || r != i {
			t.Fatalf("Lookup(%q) = (%d, %v), want (%d, true)", b, r, ok, i)
		}
	}
	for _, w := range words {
		for _, p := range []string{w[:len(w)-1], w + "a", w[1:], "b" + w} {
			if _, ok := d.Lookup([]byte(p)); ok != member[p] {
				t.Fatalf("Lookup(%q) ok = %v, want %v", p, ok, member[p])
			}
		}
	}
	// Right language of a prefix p = the suffixes of the words which start with p; these are contiguous in the list.
	langs := map[string]bool{}
	seen := map[string]bool{}
	for _, w := range words {
		for i := 0; i <= len(w); i++ {
			p := w[:i]
			if seen[p] {
				continue
			}
			seen[p] = true
			lo := sort.SearchStrings(words, p)
			key := ""
			for j := lo; j < len(words) && len(words[j]) >= len(p) && words[j][:len(p)] == p; j++ {
				key += words[j][len(p):] + ","
			}
			langs[key] = true
		}
	}
	if got := encodedNumNodes5(t, d); got != len(langs) {
		t.Fatalf("%d nodes, minimal automaton has %d", got, len(langs))
	}
}

// crc32 of the GobEncode bytes of the two dawgs built below (the same on the clean tree and with the change).
const wantCRCSmall5, wantCRCLarge5 = 0xc2845a08, 0xe148f920

func TestC12Demo5Incidental(t *testing.T) {
	build := func(bs [][]byte) (time.Duration, uint32) {
		best := time.Duration(0)
		var sum uint32
		for run := 0; run < 3; run++ {
			st := time.Now()
			d, err := dawg.New(bs)
			el := time.Since(st)
			if err != nil {
				t.Fatal(err)
			}
			if run == 0 || el < best {
				best = el
			}
			b, err := d.GobEncode()
			if err != nil {
				t.Fatal(err)
			}
			sum = crc32.ChecksumIEEE(b)
		}
		return best, sum
	}
	small, large := bigSet5(3000, 1), bigSet5(12000, 1)
	ts, cs := build(small)
	tl, cl := build(large)
	ratio := float64(tl) / float64(ts)
	t.Logf("3000 words: %v (crc32 of GobEncode %08x); 12000 words: %v (crc32 %08x); ratio %.1f", ts, cs, tl, cl, ratio)
	if cs != wantCRCSmall5 || cl != wantCRCLarge5 {
		t.Errorf("GobEncode bytes differ from the clean tree (this is NOT expected from the change)")
	}
	if ratio <= 9 {
		t.Errorf("4 times as many words took only %.1f times as long; old behaviour: quadratic, about 16 times", ratio)
	}
}

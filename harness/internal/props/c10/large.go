package c10

// Large structured graphs: sizes placed around 32, 64, 128 and 256 (and 100,
// 200) so that anything in the library that depends on a size threshold - a
// machine word used as a set, a narrow counter, a preallocated stack - is
// crossed.  Every judged value is either a closed form or comes from the
// polynomial definition oracles (BFS distances, components, cut vertices by
// deletion, blocks by the n-search edge relation); the two are compared with
// each other before the library is judged.

import (
	"fmt"
	"sort"

	"verif/internal/engine"
	"verif/internal/gen"
	"verif/internal/oracle/conn"
	"verif/internal/oracle/rg"
)

var largeSizes = []int{31, 32, 33, 63, 64, 65, 66, 100, 127, 128, 129, 130, 200, 257}

const none = -9 // closed form not given

type largeCase struct {
	name string
	g    *rg.G
	// closed forms (none = not given)
	girth, diam, rad int
	oneBlock         bool // 2-connected: the vertex set is the only block, no cut vertex
	tree             bool // every edge is a block, the cut vertices are the vertices of degree >= 2, no cycle; induced paths = pairs by distance
	blocks           [][]int
	art              []int
	byConstruction   bool  // blocks / art given
	cycles           []int // closed form of NumberOfCycles (length n+1)
	indCycles        []int
	indPaths         []int
	sumOverBlocks    bool  // cycle and induced cycle counts are added up over the (small) blocks
	bounds           []int // maxLength values for NumberOfInducedCycles
	pathBounds       []int // maxLength values for NumberOfInducedPaths
	pathOracle       bool  // induced paths from the budgeted oracle (polynomially many on this family)
	noCycleCall      bool
	// The induced counters of the library need about n^3 steps on these
	// families (and far more around a vertex of high degree), so: all bounds
	// up to fullMaxN vertices; beyond that the light bounds on every
	// representation and, up to heavyMaxN, the unbounded call once (sparse,
	// identity labelling).
	fullMaxN, heavyMaxN          int
	lightBounds, lightPathBounds []int
}

func zeros(n int) []int { return make([]int, n) }

func factor(n, least int) (a, b int) {
	for a = least; a*a <= n; a++ {
	}
	for a--; a >= least; a-- {
		if n%a == 0 {
			return a, n / a
		}
	}
	return 0, 0
}

func choose2(n int) int { return n * (n - 1) / 2 }

// largeCases lists the families that have a member with exactly n vertices.
func largeCases(n int) []*largeCase {
	var out []*largeCase
	add := func(lc *largeCase) {
		if lc.g.N != n {
			panic(fmt.Sprintf("large family %s has %d vertices, wanted %d", lc.name, lc.g.N, n))
		}
		lc.name = fmt.Sprintf("%s/n=%d", lc.name, n)
		out = append(out, lc)
	}
	base := func(name string, g *rg.G) *largeCase {
		return &largeCase{name: name, g: g, girth: none, diam: none, rad: none}
	}
	allBounds := []int{-1, 0, 1, 3, n / 2, n - 1, n, n + 1}

	// path
	{
		lc := base("path", gen.PathG(n))
		lc.girth, lc.diam, lc.rad, lc.tree = -1, n-1, n/2, true
		lc.indPaths = zeros(n + 1)
		for k := 0; k < n; k++ {
			lc.indPaths[k] = n - k
		}
		lc.bounds, lc.pathBounds = []int{-1, 3, n}, allBounds
		lc.fullMaxN, lc.heavyMaxN, lc.lightBounds, lc.lightPathBounds = 130, 257, []int{3}, []int{0, 3}
		add(lc)
	}
	// cycle
	{
		lc := base("cycle", gen.Cycle(n))
		lc.girth, lc.diam, lc.rad, lc.oneBlock = n, n/2, n/2, true
		lc.cycles, lc.indCycles, lc.indPaths = zeros(n+1), zeros(n+1), zeros(n+1)
		lc.cycles[n], lc.indCycles[n] = 1, 1
		lc.indPaths[0] = n
		for k := 1; k <= n-2; k++ {
			lc.indPaths[k] = n
		}
		lc.bounds, lc.pathBounds = []int{-1, 3, n - 1, n, n + 1}, []int{-1, 2, n - 2, n - 1, n}
		lc.fullMaxN, lc.heavyMaxN, lc.lightBounds, lc.lightPathBounds = 100, 257, []int{3}, []int{2}
		add(lc)
	}
	// star
	{
		lc := base("star", gen.CompleteMultipartite(1, n-1))
		lc.girth, lc.diam, lc.rad, lc.tree = -1, 2, 1, true
		lc.indPaths = zeros(n + 1)
		lc.indPaths[0], lc.indPaths[1], lc.indPaths[2] = n, n-1, choose2(n-1)
		lc.bounds, lc.pathBounds = []int{-1, 3}, []int{-1, 1, 2, 3, n}
		lc.fullMaxN, lc.heavyMaxN, lc.lightBounds, lc.lightPathBounds = 33, 66, []int{3}, []int{1, 2}
		add(lc)
	}
	// complete graph: distance-type functions and blocks only
	{
		lc := base("complete", gen.Complete(n))
		lc.girth, lc.diam, lc.rad, lc.oneBlock, lc.noCycleCall = 3, 1, 1, true, true
		add(lc)
	}
	// complete bipartite, balanced and lopsided
	for _, a := range []int{n / 2, 3} {
		lc := base(fmt.Sprintf("K(%d,%d)", a, n-a), gen.CompleteMultipartite(a, n-a))
		lc.girth, lc.diam, lc.rad, lc.oneBlock, lc.noCycleCall = 4, 2, 2, true, true
		add(lc)
	}
	// grid (with a pendant vertex at a corner when n is prime) and torus
	{
		a, b := factor(n, 2)
		pend := 0
		if a == 0 {
			a, b = factor(n-1, 2)
			pend = 1
		}
		g := gen.Grid(a, b)
		lc := base(fmt.Sprintf("grid%dx%d", a, b), g)
		lc.girth, lc.noCycleCall = 4, true
		if pend == 1 {
			lc.g = g.AddVertex([]int{0})
			lc.name += "+pendant"
			lc.diam = a + b - 1
		} else {
			lc.diam, lc.oneBlock = a+b-2, true
		}
		add(lc)
		if a, b := factor(n, 3); a != 0 {
			t := rg.New(n)
			for i := 0; i < a; i++ {
				for j := 0; j < b; j++ {
					t.Add(i*b+j, i*b+(j+1)%b)
					t.Add(i*b+j, ((i+1)%a)*b+j)
				}
			}
			lc := base(fmt.Sprintf("torus%dx%d", a, b), t)
			lc.girth = 4
			if a == 3 || b == 3 {
				lc.girth = 3
			}
			lc.diam, lc.rad, lc.oneBlock, lc.noCycleCall = a/2+b/2, a/2+b/2, true, true
			add(lc)
		}
	}
	// hypercube
	for d := 5; d <= 8; d++ {
		if 1<<uint(d) == n {
			lc := base(fmt.Sprintf("Q%d", d), gen.Hypercube(d))
			lc.girth, lc.diam, lc.rad, lc.oneBlock, lc.noCycleCall = 4, d, d, true, true
			add(lc)
		}
	}
	// ladder
	if n%2 == 0 {
		lc := base("ladder", gen.Grid(2, n/2))
		lc.girth, lc.diam, lc.oneBlock, lc.noCycleCall = 4, n/2, true, true
		add(lc)
	}
	// caterpillar: spine of s vertices, the other vertices are leaves spread over the spine
	{
		s := n / 3
		g := gen.PathG(s).Copy()
		for v := s; v < n; v++ {
			g = g.AddVertex([]int{(v * 5) % s})
		}
		lc := base("caterpillar", g)
		lc.girth, lc.tree, lc.pathOracle = -1, true, true
		lc.bounds, lc.pathBounds = []int{-1, 3}, []int{-1, 2, n / 3, n}
		lc.fullMaxN, lc.heavyMaxN, lc.lightBounds, lc.lightPathBounds = 100, 257, []int{3}, []int{2}
		add(lc)
	}
	// broom: a path of n/2 vertices whose last vertex carries the other vertices as leaves
	{
		s := n / 2
		g := gen.PathG(s).Copy()
		for v := s; v < n; v++ {
			g = g.AddVertex([]int{s - 1})
		}
		lc := base("broom", g)
		lc.girth, lc.diam, lc.tree, lc.pathOracle = -1, s, true, true
		lc.bounds, lc.pathBounds = []int{3}, []int{-1, 2, s}
		lc.fullMaxN, lc.heavyMaxN, lc.lightBounds, lc.lightPathBounds = 66, 100, []int{3}, []int{2}
		add(lc)
	}
	// one long cycle of length L with pendant trees
	{
		L := n/2 + 1
		g := gen.Cycle(L).Copy()
		for v := L; v < n; v++ {
			g = g.AddVertex([]int{((v * 2654435761) >> 7) % v})
		}
		lc := base(fmt.Sprintf("cycle%d+trees", L), g)
		lc.girth = L
		lc.cycles, lc.indCycles = zeros(n+1), zeros(n+1)
		lc.cycles[L], lc.indCycles[L] = 1, 1
		lc.pathOracle = true
		lc.bounds, lc.pathBounds = []int{-1, 3, L - 1, L, L + 1, n}, []int{-1, 3, L - 1}
		lc.fullMaxN, lc.heavyMaxN, lc.lightBounds, lc.lightPathBounds = 100, 257, []int{3}, []int{2}
		add(lc)
	}
	// disjoint union: path, cycle, K_6, star and an isolated vertex
	{
		a := n / 4
		b := n/4 + 1
		rest := n - a - b - 6 - 1
		g := rg.Union(rg.Union(rg.Union(rg.Union(gen.PathG(a), gen.Cycle(b)), gen.Complete(6)), gen.CompleteMultipartite(1, rest-1)), rg.New(1))
		lc := base("union(path,cycle,K6,star,K1)", g)
		lc.girth, lc.diam, lc.rad = 3, -1, -1
		lc.cycles, lc.indCycles = zeros(n+1), zeros(n+1)
		k6, _ := conn.Cycles(gen.Complete(6), &conn.Budget{Steps: 1 << 30})
		copy(lc.cycles, k6)
		lc.cycles[b]++
		lc.indCycles[3], lc.indCycles[b] = 20, lc.indCycles[b]+1
		lc.pathOracle = true
		lc.bounds, lc.pathBounds = []int{-1, 3, b, n}, []int{-1, 2, a}
		lc.fullMaxN, lc.heavyMaxN, lc.lightBounds, lc.lightPathBounds = 66, 130, []int{3}, []int{2}
		add(lc)
	}
	return out
}

// largeBlockForest builds the idx-th block forest with exactly n vertices.
func largeBlockForest(r *engine.Rng, n, idx int) *largeCase {
	mode := conn.Mode(idx % 3)
	comps, iso := 1, 0
	hub, deep := 0.1, 0.85 // long chains of blocks
	switch idx % 4 {
	case 1:
		hub, deep = 0.7, 0.1 // many blocks at few cut vertices
	case 2:
		hub, deep = 0.2, 0.3
		comps, iso = 3, 2
	}
	b := conn.BuildBlockTree(r, n, mode, comps, iso, hub, deep)
	lc := &largeCase{name: fmt.Sprintf("%s/n=%d/#%d", []string{"tree", "cactus", "blockforest"}[mode], n, idx), g: b.G, girth: none, diam: none, rad: none}
	lc.byConstruction, lc.blocks, lc.art = true, b.Blocks, b.Art
	lc.sumOverBlocks = true
	lc.tree = mode == conn.Trees && comps == 1
	// every piece has at most 6 vertices: a bound of 6 covers all induced cycles, and short paths are few
	lc.bounds, lc.pathBounds = []int{3, 6}, []int{0, 2, 3}
	lc.fullMaxN = 257
	lc.pathOracle = true
	return lc
}

// expectation computes the expected values of a large case, cross-checking
// closed forms, construction and oracles.  A disagreement is a harness fault.
func (lc *largeCase) expectation() (*want, string) {
	g := lc.g
	n := g.N
	w := polynomialPart(g, true)
	chk := func(what string, closed, orc int) string {
		if closed != none && closed != orc {
			return fmt.Sprintf("%s of %s: closed form %d, oracle %d", what, lc.name, closed, orc)
		}
		return ""
	}
	if w.girth == girthUnknown {
		if lc.girth == none {
			return nil, "no girth for " + lc.name
		}
		w.girth = lc.girth
	} else if msg := chk("girth", lc.girth, w.girth); msg != "" {
		return nil, msg
	}
	if msg := chk("diameter", lc.diam, w.diam); msg != "" {
		return nil, msg
	}
	if msg := chk("radius", lc.rad, w.rad); msg != "" {
		return nil, msg
	}
	var blocks [][]int
	var art []int
	switch {
	case lc.oneBlock:
		all := make([]int, n)
		for i := range all {
			all[i] = i
		}
		blocks, art = [][]int{all}, []int{}
	case lc.tree:
		for _, e := range g.Edges() {
			blocks = append(blocks, []int{e[0], e[1]})
		}
		conn.SortSets(blocks)
		art = []int{}
		for v := 0; v < n; v++ {
			if g.Deg(v) >= 2 {
				art = append(art, v)
			}
		}
	case lc.byConstruction:
		blocks, art = lc.blocks, lc.art
	}
	if blocks != nil && (fmt.Sprint(blocks) != fmt.Sprint(w.blocks) || !eqInts(art, w.art)) {
		return nil, fmt.Sprintf("blocks / cut vertices of %s: construction and oracle disagree", lc.name)
	}
	// counters
	switch {
	case lc.cycles != nil:
		w.cycles = lc.cycles
	case lc.tree:
		w.cycles = zeros(n + 1)
	case lc.sumOverBlocks:
		if c, ok := conn.CountsByBlocks(g, w.blocks, conn.Cycles, &conn.Budget{Steps: 2000000}); ok {
			w.cycles = c
		}
	}
	switch {
	case lc.indCycles != nil:
		w.indCycles = lc.indCycles
	case lc.tree:
		w.indCycles = zeros(n + 1)
	case lc.sumOverBlocks:
		if c, ok := conn.CountsByBlocks(g, w.blocks, conn.InducedCycles, &conn.Budget{Steps: 2000000}); ok {
			w.indCycles = c
		}
	}
	var byDist []int
	if lc.tree {
		// in a tree the induced paths are the paths, one per pair of vertices
		byDist = zeros(n + 1)
		byDist[0] = n
		for i := 0; i < n; i++ {
			for j := 0; j < i; j++ {
				byDist[w.dist[i][j]]++
			}
		}
	}
	switch {
	case lc.indPaths != nil:
		w.indPaths = lc.indPaths
		if byDist != nil && !eqInts(byDist, lc.indPaths) {
			return nil, "induced paths of " + lc.name + ": closed form and pairs by distance disagree"
		}
	case byDist != nil:
		w.indPaths = byDist
	}
	if lc.pathOracle || lc.indPaths != nil {
		bp := &conn.Budget{Steps: 300000}
		if c, ok := conn.InducedPaths(g, bp); ok {
			if w.indPaths != nil && !eqInts(c, w.indPaths) {
				return nil, "induced paths of " + lc.name + ": oracle and closed form disagree"
			}
			w.indPaths = c
			w.indSteps = bp.Used
		} else if w.indPaths == nil {
			w.indSteps = bp.Used
		}
	}
	return w, ""
}

// sample picks the Distance pairs and ConnectedComponent vertices of a large case.
func sample(r *engine.Rng, h *rg.G, wh *want, lc *largeCase, npairs int) *sampling {
	n := h.N
	s := &sampling{}
	src := []int{0, n - 1, n / 2, r.Intn(n), r.Intn(n)}
	for _, a := range src {
		for j := 0; j < n; j++ {
			s.pairs = append(s.pairs, [2]int{a, j})
		}
		for j := 0; j < n; j += 3 {
			s.pairs = append(s.pairs, [2]int{j, a})
		}
	}
	for k := 0; k < npairs; k++ {
		s.pairs = append(s.pairs, [2]int{r.Intn(n), r.Intn(n)})
	}
	seen := map[int]bool{}
	addv := func(v int) {
		if !seen[v] {
			seen[v] = true
			s.verts = append(s.verts, v)
		}
	}
	for k, c := range wh.comps {
		if k < 8 {
			addv(c[0])
			addv(c[len(c)-1])
		}
	}
	addv(n - 1)
	for k := 0; k < 3; k++ {
		addv(r.Intn(n))
	}
	sort.Ints(s.verts)
	bounds, pathBounds := lc.bounds, lc.pathBounds
	if n > lc.fullMaxN {
		bounds, pathBounds = lc.lightBounds, lc.lightPathBounds
		if n <= lc.heavyMaxN {
			s.heavyBounds, s.heavyPathBounds = []int{-1}, []int{-1}
		}
	}
	if wh.indCycles != nil {
		s.bounds = bounds
	} else {
		s.heavyBounds = nil
	}
	if wh.indPaths != nil {
		s.pathBounds = pathBounds
	} else {
		s.heavyPathBounds = nil
	}
	return s
}

func runLarge(c *engine.Ctx, lc *largeCase, r *engine.Rng, fixedSalt int) {
	w, msg := lc.expectation()
	if msg != "" {
		c.Inconclusive("large graphs: " + msg)
		return
	}
	c.Obs("oracle_crosschecks", 1)
	c.Obs("large:graphs", 1)
	c.Obs(fmt.Sprintf("large:n=%d", lc.g.N), 1)
	n := lc.g.N
	p := &plan{workload: "large " + lc.name, w: w, largeID: lc.name, info: map[string]interface{}{"family": lc.name}}
	p.perms = [][]int{nil, r.Perm(n)}
	p.permKind = []string{"identity", "seeded"}
	// Neighbours of an InducedSubgraph view costs deg^2 (sorted insertion), and the BFS-based functions call it n times per root
	view := []string{"view"}
	cost := 0
	for _, d := range lc.g.Degrees() {
		cost += d * d
	}
	if cost*n > 200000000 {
		view = nil
		c.Obs("large:view_not_used_on_dense_graph", 1)
	}
	with := func(r ...string) []string { return append(r, view...) }
	second := []string{[]string{"dense", "sparse", "view"}[fixedSalt%3]}
	if view == nil && second[0] == "view" {
		second[0] = "sparse"
	}
	p.reps = [][]string{with("dense", "sparse"), second}
	cc := 12
	if lc.noCycleCall {
		cc = -1
	}
	p.cycleCap = []int{cc, cc}
	if c.Thorough() {
		p.perms = append(p.perms, fixedRng(n, fixedSalt, 9).Perm(n), reverse(n))
		p.permKind = append(p.permKind, "fixed", "reversed")
		p.reps = [][]string{with("dense", "sparse"), with("dense", "sparse"), with("dense", "sparse"), with("sparse")}
		p.cycleCap = append(p.cycleCap, cc, cc)
	}
	p.viewRng = func(k int, rep string) *engine.Rng {
		if p.permKind[k] == "seeded" {
			return r
		}
		return fixedRng(n, fixedSalt, 40+k)
	}
	p.sampling = func(k int, h *rg.G, wh *want) *sampling {
		sr := r
		if p.permKind[k] != "seeded" {
			sr = fixedRng(n, fixedSalt, 70+k)
		}
		return sample(sr, h, wh, lc, c.Pick(150, 600))
	}
	runBase(c, lc.g, p)
}

// largeWorkload registers the units of the large structured graphs.
func largeWorkload(c *engine.Ctx) {
	for _, n := range largeSizes {
		n := n
		names := largeCases(n)
		for i := range names {
			i := i
			c.Unit("large/"+names[i].name, func() {
				runLarge(c, largeCases(n)[i], c.Rand("large/"+names[i].name, 0), i)
				if n == 257 && i < 2 {
					c.Sample("large", map[string]interface{}{"name": names[i].name, "n": n, "m": names[i].g.M()})
				}
			})
		}
		nf := c.Pick(3, 12)
		for idx := 0; idx < nf; idx++ {
			idx := idx
			c.Unit(fmt.Sprintf("large/blockforest/n=%d/%d", n, idx), func() {
				r := c.Rand(fmt.Sprintf("large/blockforest/n=%d", n), idx)
				lc := largeBlockForest(r, n, idx)
				c.ObsMax("large:blocks_in_one_graph", len(lc.blocks))
				c.ObsMax("large:cut_vertices_in_one_graph", len(lc.art))
				runLarge(c, lc, r, idx)
			})
		}
	}
}

// Package c08 monitors the totality of the text decoders Graph6Decode and
// Sparse6Decode on hostile input: no panic, no endless loop, and whenever a
// graph is returned it is well formed, has the declared number of vertices and
// survives a re-encode / decode cycle (DESIGN.md section 4, C08).
package c08

import (
	"fmt"
	"hash/fnv"
	"sort"
	"strconv"
	"strings"

	"github.com/Tom-Johnston/mamba/graph"

	"verif/internal/engine"
	"verif/internal/gen"
	"verif/internal/oracle/codec"
	"verif/internal/oracle/rg"
)

// MaxN is the resource bound of the property: strings that declare more
// vertices are not given to the decoders.
const MaxN = 4096

func init() {
	engine.Register(&engine.Property{
		ID:    "C08",
		Level: "exploration",
		Rule: "byte strings for Graph6Decode and Sparse6Decode: ALL strings of length <= 2 over the 256 byte values (bare, behind ':' and behind the >>...<< headers), all strings of length 3..4 (5 in thorough) over a 14-byte hostile alphabet, " +
			"every reference encoding of a base set of graphs truncated at every length, with every byte replaced by each of 11 boundary bytes, with every data bit flipped, with trailing garbage, and given to the other decoder; " +
			"sparse6 pair streams synthesised by the harness (all 12-bit streams for n<=17, seeded pair lists with x >= n, v running past n, every fill of the last byte); 1-, 4- and 8-byte size headers with small, inconsistent and truncated n. " +
			"Counter limits (grammar-aware, limits.go): for declared n = 0 (vertex numbers of 64, 32, 0 and neighbouring widths, since bits(n-1) is not defined there), n = 1, 2 and both sides of every change of k up to the largest accepted n = 4096, each in its 1-, 4- and 8-byte header form: " +
			"ALL sequences of <= 3 (4 for n = 0 / width 64 and in thorough; 2 resp. 1 for n >= 32 in quick) pairs (b, x) with x in {0, 1, n-1, n, 0111.., 1000.., 111..0, 111..1}; seeded walks that jump just below n, 2^k, 2^7, 2^8, 2^15, 2^16, 2^31, 2^32, 2^63, 2^64 and carry the current vertex across with set increment bits; " +
			"runs of 260..65540 set increment bits and one data byte repeated up to 11000 times (2^20 thorough); graph6: every header form of n in {0..5, 12, 62, 63, 64} x every body length 0..needed+2 x all-ones / all-zeros data. " +
			"The harness follows v by the rule of formats.txt in unbounded arithmetic only to count which limits a string reaches (limits:* counters). " +
			"The harness parses the size header itself: strings declaring n > 4096 are skipped. Outcome panic / CPU budget => violation; graph => N()=declared n, well formed (rg.WellFormed), decode(encode(graph)) == graph; " +
			"a graph for a string without a readable size is a violation (except the documented empty graph6 string). " +
			"non-trivial = string of length >= 2 that is not the canonical encoding of a graph; distinct = hash of (decoder, string)",
		Assumptions: []string{
			"the size header is parsed by internal/oracle/codec.ParseSize (validated on the formats.txt examples)",
			"a CPU budget event of the engine (30 CPU-s where ordinary calls take microseconds) is the bounded-progress form of non-termination",
			"what a hostile string decodes TO is not judged (only recorded against the tolerant reference reader); C07 judges the decoding of valid strings",
		},
		Run:            run,
		MinEvaluations: map[string]int{"quick": 500000, "thorough": 4000000},
		MinNontrivial:  map[string]int{"quick": 300000, "thorough": 2500000},
		RequiredObs: []string{"results_edited_by_the_caller_then_the_same_string_decoded_again",
			"Graph6Decode:outcome=error", "Graph6Decode:outcome=graph", "Sparse6Decode:outcome=error", "Sparse6Decode:outcome=graph",
			"Sparse6Decode:accepted_stream_with_pairs_beyond_n", "Sparse6Decode:accepted_stream_with_loops_or_repeats", "Sparse6Decode:accepted_stream_ending_on_byte_boundary",
			"Sparse6Decode:accepted_without_stream",
			"declared_n:unreadable", "declared_n:0", "declared_n:1", "declared_n:63..4096", "declared_n:>4096(skipped)",
			"size_header_bytes=4", "size_header_bytes=8", "reencode_cycles", "reencode_cycles_through_the_other_format",
			// part 7: the counters of the decoders at their numeric limits
			"limits:vertex_number_width=64", "limits:vertex_number_width=32", "limits:vertex_number_width=0", "limits:vertex_number_width=12",
			"limits:declared_n=0:size_header_bytes=1", "limits:declared_n=0:size_header_bytes=4", "limits:declared_n=0:size_header_bytes=8",
			"limits:declared_n=1:size_header_bytes=4", "limits:declared_n=1:size_header_bytes=8", "limits:declared_n=2:size_header_bytes=4", "limits:declared_n=2:size_header_bytes=8",
			"limits:declared_n=largest_accepted:size_header_bytes=4", "limits:declared_n=largest_accepted:size_header_bytes=8",
			"limits:current_vertex_incremented_across_n", "limits:current_vertex_incremented_across_2^k", "limits:current_vertex_incremented_across_2^8", "limits:current_vertex_incremented_across_2^16",
			"limits:current_vertex_incremented_across_2^31", "limits:current_vertex_incremented_across_2^32", "limits:current_vertex_incremented_across_2^63", "limits:current_vertex_incremented_across_2^64",
			"limits:current_vertex_set_to>=2^63_by_a_vertex_number", "limits:pairs_read_while_current_vertex>=2^63", "limits:pairs_read_while_current_vertex>=2^64",
			"limits:one_data_byte_repeated", "limits:graph6:declared_n=0:size_header_bytes=4", "limits:graph6:declared_n=0:size_header_bytes=8", "limits:graph6:all_ones_data_accepted",
		},
	})
}

type mon struct {
	c   *engine.Ctx
	cap map[string]int
}

const perKindPerUnit = 2

func (m *mon) viol(api, kind, witness string, detail interface{}, observed, expected string) {
	ck := api + "|" + kind
	m.cap[ck]++
	if m.cap[ck] > perKindPerUnit {
		m.c.Obs("violations_not_repeated_within_unit:"+ck, 1)
		return
	}
	m.c.Violation(api+"|"+kind+"|"+witness, detail, observed, expected)
}

func unit(c *engine.Ctx, name string, f func(m *mon)) {
	c.Unit(name, func() { f(&mon{c: c, cap: map[string]int{}}) })
}

func hash32(s string) uint32 {
	h := fnv.New32a()
	h.Write([]byte(s))
	return h.Sum32()
}

func strKey(s string) string {
	if len(s) <= 60 {
		return strconv.Quote(s)
	}
	return fmt.Sprintf("%s...(len=%d,fnv=%08x)", strconv.Quote(s[:24]), len(s), hash32(s))
}

func detail(s, origin string) map[string]interface{} {
	d := map[string]interface{}{"origin": origin, "len": len(s)}
	if len(s) <= 4000 {
		d["string"] = s
		d["bytes"] = fmt.Sprint([]byte(s))
	} else {
		d["string_prefix"] = s[:200]
	}
	return d
}

const (
	g6 = "Graph6Decode"
	s6 = "Sparse6Decode"
)

// declared parses the size the string declares, the way the format defines it.
func declared(dec, s string) (n uint64, hdrLen int, ok bool, emptyBody bool) {
	if dec == g6 {
		s = strings.TrimPrefix(s, codec.G6Header)
		if s == "" {
			return 0, 0, false, true
		}
		n, used, ok := codec.ParseSize([]byte(s))
		return n, used, ok, false
	}
	s = strings.TrimPrefix(s, codec.S6Header)
	if s == "" || s[0] != ':' {
		return 0, 0, false, false
	}
	n, used, ok := codec.ParseSize([]byte(s[1:]))
	return n, used, ok, false
}

// canonical reports whether s is exactly the reference encoding of a graph
// (optional header allowed).
func canonical(dec, s string) bool {
	if dec == g6 {
		g, err := codec.Graph6Parse(s, MaxN)
		return err == nil && strings.TrimPrefix(s, codec.G6Header) == codec.Graph6(g)
	}
	sc, err := codec.Sparse6Scan(s, MaxN)
	if err != nil || sc.Loops > 0 || sc.Repeats > 0 {
		return false
	}
	return strings.TrimPrefix(s, codec.S6Header) == codec.Sparse6(int(sc.N), sc.Edges)
}

// adjacency reads a library graph through its accessors.
type adjacency struct {
	n   int
	m   int
	deg []int
	nb  [][]int
}

func readAdj(h graph.Graph) *adjacency {
	a := &adjacency{n: h.N(), m: h.M(), deg: h.Degrees()}
	a.nb = make([][]int, a.n)
	for v := 0; v < a.n; v++ {
		a.nb[v] = append([]int(nil), h.Neighbours(v)...)
	}
	return a
}

// wellFormedLarge is the O(n + m log m) form of rg.WellFormed used above 300
// vertices: degree sequence, edge count, ascending loop-free symmetric
// neighbour lists, IsEdge on every listed pair and on a sample of others.
func wellFormedLarge(h graph.Graph) string {
	a := readAdj(h)
	if len(a.deg) != a.n {
		return fmt.Sprintf("len(Degrees())=%d, n=%d", len(a.deg), a.n)
	}
	sum := 0
	for v := 0; v < a.n; v++ {
		l := a.nb[v]
		if len(l) != a.deg[v] {
			return fmt.Sprintf("Degrees()[%d]=%d but %d neighbours", v, a.deg[v], len(l))
		}
		for i, u := range l {
			if u < 0 || u >= a.n || u == v || (i > 0 && l[i-1] >= u) {
				return fmt.Sprintf("Neighbours(%d)=%v not an ascending loop-free list of vertices", v, l)
			}
			w := a.nb[u]
			j := sort.SearchInts(w, v)
			if j >= len(w) || w[j] != v {
				return fmt.Sprintf("%d is a neighbour of %d but not conversely", u, v)
			}
			if !h.IsEdge(u, v) || !h.IsEdge(v, u) {
				return fmt.Sprintf("IsEdge(%d,%d) false for a listed neighbour", u, v)
			}
		}
		sum += len(l)
		for t := 1; t <= 3; t++ {
			u := (v*7919 + t*104729) % a.n
			j := sort.SearchInts(l, u)
			listed := j < len(l) && l[j] == u
			if h.IsEdge(v, u) != listed {
				return fmt.Sprintf("IsEdge(%d,%d)=%v, neighbour lists say %v", v, u, !listed, listed)
			}
		}
	}
	if sum != 2*a.m {
		return fmt.Sprintf("M()=%d but the degrees sum to %d", a.m, sum)
	}
	return ""
}

func sameAdj(a, b *adjacency) string {
	if a.n != b.n {
		return fmt.Sprintf("%d vertices, then %d", a.n, b.n)
	}
	for v := 0; v < a.n; v++ {
		same := len(a.nb[v]) == len(b.nb[v])
		for i := 0; same && i < len(a.nb[v]); i++ {
			same = a.nb[v][i] == b.nb[v][i]
		}
		if !same {
			return fmt.Sprintf("vertex %d has neighbours %v, after the cycle %v", v, a.nb[v], b.nb[v])
		}
	}
	return ""
}

// judge gives s to the decoder and judges the outcome.
func (m *mon) judge(dec, s, origin string) { m.judgeOutcome(dec, s, origin) }

// The outcomes judgeOutcome reports to the workload (for observation counters only).
const (
	outSkipped = "skipped"
	outPanic   = "panic"
	outError   = "error"
	outGraph   = "graph"
)

// judgeOutcome is judge; it also tells the caller what the decoder did.
func (m *mon) judgeOutcome(dec, s, origin string) (outcome string) {
	c := m.c
	n, hdrLen, ok, emptyBody := declared(dec, s)
	switch {
	case !ok:
		c.Obs("declared_n:unreadable", 1)
	case n > MaxN:
		c.Obs("declared_n:>4096(skipped)", 1)
		return outSkipped
	case n == 0:
		c.Obs("declared_n:0", 1)
	case n == 1:
		c.Obs("declared_n:1", 1)
	case n <= 62:
		c.Obs("declared_n:2..62", 1)
	default:
		c.Obs("declared_n:63..4096", 1)
	}
	if ok {
		c.Obs(fmt.Sprintf("size_header_bytes=%d", hdrLen), 1)
	}
	sk := strKey(s)
	var h graph.Graph
	var err error
	isNil := false
	pi := c.Call(dec+"|"+sk, func() {
		if dec == g6 {
			var d *graph.DenseGraph
			d, err = graph.Graph6Decode(s)
			h, isNil = d, d == nil
		} else {
			var d *graph.SparseGraph
			d, err = graph.Sparse6Decode(s)
			h, isNil = d, d == nil
		}
	})
	c.Eval(1)
	if len(s) >= 2 && !canonical(dec, s) {
		c.NT(dec, s)
	}
	if pi != nil {
		c.Obs(dec+":outcome=panic", 1)
		m.viol(dec, "panic|"+engine.SiteNoLine(pi.Site), sk, detail(s, origin), pi.String(), "an error or a graph")
		return outPanic
	}
	if err != nil {
		c.Obs(dec+":outcome=error", 1)
		return outError
	}
	c.Obs(dec+":outcome=graph", 1)
	if isNil {
		m.viol(dec, "nil-graph-without-error", sk, detail(s, origin), "nil graph, nil error", "an error or a graph")
		return outGraph
	}
	// the result: declared size, well formed
	var gotN int
	var bad string
	var model *rg.G // the adjacency of the result read through IsEdge
	large := false
	pi = c.Call(dec+"|"+sk+"|read-result", func() {
		gotN = h.N()
		if gotN <= 300 {
			model = rg.FromGraph(h)
			bad = rg.Conforms(h, model) // = rg.WellFormed(h)
		} else {
			large = true
			bad = wellFormedLarge(h)
		}
	})
	if pi != nil {
		m.viol(dec, "result-panics|"+engine.SiteNoLine(pi.Site), sk, detail(s, origin), pi.String(), "a well-formed graph")
		return outGraph
	}
	if !ok {
		if dec == g6 && emptyBody {
			c.Obs("Graph6Decode:empty_string_gives_the_empty_graph(documented)", 1)
			if gotN != 0 {
				m.viol(dec, "wrong-size", sk, detail(s, origin), fmt.Sprintf("N()=%d", gotN), "the empty graph (documented for the empty string)")
			}
			return outGraph
		}
		m.viol(dec, "graph-without-readable-size", sk, detail(s, origin), fmt.Sprintf("a graph on %d vertices and no error", gotN), "an error: the string has no complete size header N(n)")
		return outGraph
	}
	if uint64(gotN) != n {
		m.viol(dec, "wrong-size", sk, detail(s, origin), fmt.Sprintf("N()=%d", gotN), fmt.Sprintf("N()=%d (declared by the size header)", n))
		return outGraph
	}
	if bad != "" {
		m.viol(dec, "malformed-graph", sk, detail(s, origin), bad, "a well-formed graph")
		return outGraph
	}
	// what the tolerant reference reads (recorded, not judged)
	if dec == s6 {
		if sc, err := codec.Sparse6Scan(s, MaxN); err == nil {
			if sc.Beyond > 0 {
				c.Obs("Sparse6Decode:accepted_stream_with_pairs_beyond_n", 1)
			}
			if sc.Loops > 0 || sc.Repeats > 0 {
				c.Obs("Sparse6Decode:accepted_stream_with_loops_or_repeats", 1)
			}
			if sc.Pairs > 0 && sc.TailBits == 0 {
				c.Obs("Sparse6Decode:accepted_stream_ending_on_byte_boundary", 1)
			}
			if sc.Pairs == 0 && sc.TailBits == 0 {
				c.Obs("Sparse6Decode:accepted_without_stream", 1)
			}
			if !large {
				if model.Equal(sc.Graph()) {
					c.Obs("Sparse6Decode:result_equals_tolerant_reference_reading", 1)
				} else {
					c.Obs("Sparse6Decode:result_differs_from_tolerant_reference_reading(not judged)", 1)
				}
			}
		}
	}
	// re-encode, decode again: the same graph
	c.Obs("reencode_cycles", 1)
	var s2 string
	var h2 graph.Graph
	var err2 error
	enc := "Graph6Encode"
	if dec == s6 {
		enc = "Sparse6Encode"
	}
	pi = c.Call(dec+"|"+sk+"|"+enc, func() {
		if dec == g6 {
			s2 = graph.Graph6Encode(h)
		} else {
			s2 = graph.Sparse6Encode(h)
		}
	})
	if pi != nil {
		m.viol(dec, "result-cannot-be-encoded|"+engine.SiteNoLine(pi.Site), sk, detail(s, origin), pi.String(), "the decoded graph can be encoded again")
		return outGraph
	}
	pi = c.Call(dec+"|"+sk+"|again|"+strKey(s2), func() {
		if dec == g6 {
			var d *graph.DenseGraph
			d, err2 = graph.Graph6Decode(s2)
			h2 = d
		} else {
			var d *graph.SparseGraph
			d, err2 = graph.Sparse6Decode(s2)
			h2 = d
		}
	})
	d := detail(s, origin)
	d["reencoded_as"] = clip(s2)
	if pi != nil {
		m.viol(dec, "reencoded-result-panics|"+engine.SiteNoLine(pi.Site), sk, d, "decoding "+clip(s2)+": "+pi.String(), "decode(encode(graph)) == graph")
		return outGraph
	}
	if err2 != nil {
		m.viol(dec, "reencoded-result-rejected", sk, d, "decoding "+clip(s2)+": error "+err2.Error(), "decode(encode(graph)) == graph")
		return outGraph
	}
	var diff string
	pi = c.Call(dec+"|"+sk+"|compare", func() {
		if !large {
			a, b := model, rg.FromGraph(h2)
			if b.N != a.N || !a.Equal(b) {
				diff = fmt.Sprintf("decoded %s, after encode+decode %s", a, b)
			}
			return
		}
		diff = sameAdj(readAdj(h), readAdj(h2))
	})
	if pi != nil {
		m.viol(dec, "reencoded-result-panics|"+engine.SiteNoLine(pi.Site), sk, d, pi.String(), "decode(encode(graph)) == graph")
		return outGraph
	} else if diff != "" {
		m.viol(dec, "reencode-cycle-changes-graph", sk, d, diff+" (re-encoded as "+clip(s2)+")", "decode(encode(graph)) == graph")
		return outGraph
	}
	// re-encoding in the OTHER format (the result of Sparse6Decode written by Graph6Encode and the other way round), decoded
	// again: still the same graph.  Small results only (graph6 of a sparse result asks n^2/2 edge questions).
	if !large {
		c.Obs("reencode_cycles_through_the_other_format", 1)
		var s3 string
		var err4 error
		var b4 *rg.G
		pi = c.Call(dec+"|"+sk+"|other-format", func() {
			if dec == g6 {
				s3 = graph.Sparse6Encode(h)
				d4, e := graph.Sparse6Decode(s3)
				if err4 = e; e == nil {
					b4 = rg.FromGraph(d4)
				}
			} else {
				s3 = graph.Graph6Encode(h)
				d4, e := graph.Graph6Decode(s3)
				if err4 = e; e == nil {
					b4 = rg.FromGraph(d4)
				}
			}
		})
		d["reencoded_in_the_other_format_as"] = clip(s3)
		if pi != nil {
			m.viol(dec, "reencoded-in-the-other-format-panics|"+engine.SiteNoLine(pi.Site), sk, d, pi.String(), "decode(encode(graph)) == graph in either format")
			return outGraph
		} else if err4 != nil {
			m.viol(dec, "reencoded-in-the-other-format-rejected", sk, d, "decoding "+clip(s3)+": error "+err4.Error(), "decode(encode(graph)) == graph in either format")
			return outGraph
		} else if b4.N != model.N || !model.Equal(b4) {
			m.viol(dec, "reencode-cycle-through-the-other-format-changes-graph", sk, d, fmt.Sprintf("decoded %s, after encode+decode in the other format %s (written as %s)", model, b4, clip(s3)), "decode(encode(graph)) == graph in either format")
			return outGraph
		}
		delete(d, "reencoded_in_the_other_format_as")
	}
	// a history: the caller EDITS the graph it got (it is the caller's) and decodes the same string again: the second
	// result must be what the first was.  All results on at most 2 vertices and every 8th other small result.
	if eg, isEd := h.(graph.EditableGraph); isEd && !large && (gotN <= 2 || hash32(s)%8 == 0) {
		var h3 graph.Graph
		var err3 error
		pi = c.Call(dec+"|"+sk+"|edit-result-then-decode-again", func() {
			all := make([]int, eg.N())
			for i := range all {
				all[i] = i
			}
			eg.AddVertex(all)
			eg.AddVertex(nil)
			if eg.N() >= 2 {
				if eg.IsEdge(0, 1) {
					eg.RemoveEdge(0, 1)
				} else {
					eg.AddEdge(0, 1)
				}
			}
			if dec == g6 {
				var d *graph.DenseGraph
				d, err3 = graph.Graph6Decode(s)
				h3 = d
			} else {
				var d *graph.SparseGraph
				d, err3 = graph.Sparse6Decode(s)
				h3 = d
			}
		})
		c.Obs("results_edited_by_the_caller_then_the_same_string_decoded_again", 1)
		if pi != nil {
			m.viol(dec, "decode-after-caller-edited-an-earlier-result-panics|"+engine.SiteNoLine(pi.Site), sk, d, pi.String(), "the same graph as the first time")
		} else if err3 != nil {
			m.viol(dec, "decode-after-caller-edited-an-earlier-result", sk, d, "error "+err3.Error(), "the same graph as the first time")
		} else if b := rg.FromGraph(h3); b.N != model.N || !model.Equal(b) || rg.Conforms(h3, b) != "" {
			m.viol(dec, "decode-after-caller-edited-an-earlier-result", sk, d, fmt.Sprintf("first decode gave %s; after the caller edited that result the same string decodes to %s", model, b), "the same graph as the first time: results are independent values")
		}
	}
	return outGraph
}

func clip(s string) string {
	if len(s) > 300 {
		return fmt.Sprintf("%q...(len=%d)", s[:300], len(s))
	}
	return strconv.Quote(s)
}

// both gives a body to both decoders in every framing.
func (m *mon) both(body, origin string, allFramings bool) {
	m.judge(g6, body, origin)
	m.judge(s6, ":"+body, origin)
	m.judge(s6, body, origin)
	if allFramings {
		m.judge(g6, codec.G6Header+body, origin)
		m.judge(s6, codec.S6Header+":"+body, origin)
		m.judge(s6, codec.S6Header+body, origin)
	}
}

var alphabet = []byte{0x00, '\n', ':', '<', '>', 63, 64, 65, 95, 125, 126, 127, 128, 255}
var boundary = []byte{0x00, '\n', ':', 62, 63, 64, 94, 125, 126, 127, 255}

// baseGraphs is the set of graphs whose reference encodings are mutated.
func baseGraphs(c *engine.Ctx) []*rg.G {
	var out []*rg.G
	for n := 0; n <= 4; n++ {
		gen.AllLabelled(n, 0, 1, func(_ uint64, g *rg.G) { out = append(out, g.Copy()) })
	}
	maxClass := c.Pick(6, 7)
	for n := 5; n <= maxClass; n++ {
		step := 1
		if n == 7 {
			step = 4
		}
		cl := gen.Classes(n)
		for i := 0; i < len(cl); i += step {
			out = append(out, cl[i])
		}
	}
	per := c.Pick(3, 24)
	for _, n := range []int{7, 8, 9, 15, 16, 17, 18, 31, 32, 33, 40, 62, 63, 64, 70} {
		out = append(out, rg.New(n), gen.PathG(n))
		if n <= 18 || n == 32 {
			out = append(out, gen.Complete(n-1).AddVertex(nil))
		}
		for i := 0; i < per; i++ {
			r := c.Rand("base", n*100+i)
			p := []float64{0.08, 0.3, 0.6}[i%3]
			if n > 18 { // decoding a dense sparse6 string costs the library one allocation per edge
				p = []float64{0.03, 0.1, 0.2}[i%3]
			}
			g := gen.Random(r, n, p)
			if i%4 == 1 {
				for j := 0; j < n; j++ {
					g.Del(n-1, j)
				}
			}
			out = append(out, g)
		}
	}
	return out
}

func (m *mon) mutations(dec, valid, origin string) {
	other := s6
	if dec == s6 {
		other = g6
	}
	m.judge(dec, valid, origin+": unmodified")
	m.judge(other, valid, origin+": given to the other decoder")
	hdr := codec.G6Header
	if dec == s6 {
		hdr = codec.S6Header
	}
	m.judge(dec, hdr+valid, origin+": with header")
	if dec == s6 {
		m.judge(dec, valid[1:], origin+": without ':'")
		m.judge(dec, ":"+valid, origin+": second ':'")
	}
	// every position of a short string; of a long one the first and last 16
	// and 32 positions in between (the cost would be quadratic otherwise)
	positions := make([]int, 0, len(valid))
	for l := 0; l < len(valid); l++ {
		if len(valid) <= 100 || l < 16 || l >= len(valid)-16 || (uint64(l)*2654435761>>4)%uint64max(1, uint64(len(valid)/32)) == 0 {
			positions = append(positions, l)
		}
	}
	for _, l := range positions {
		m.judge(dec, valid[:l], origin+fmt.Sprintf(": truncated to %d bytes", l))
		if l%3 == 0 {
			m.judge(dec, hdr+valid[:l], origin+fmt.Sprintf(": header + truncated to %d bytes", l))
		}
	}
	b := []byte(valid)
	for _, i := range positions {
		old := b[i]
		for _, x := range boundary {
			if x == old {
				continue
			}
			b[i] = x
			m.judge(dec, string(b), origin+fmt.Sprintf(": byte %d replaced by %d", i, x))
		}
		if old >= 63 && old <= 126 {
			for bit := uint(0); bit < 6; bit++ {
				b[i] = byte((int(old)-63)^(1<<bit)) + 63
				m.judge(dec, string(b), origin+fmt.Sprintf(": bit %d of byte %d flipped", bit, i))
			}
		}
		b[i] = old
	}
	for _, x := range boundary {
		m.judge(dec, valid+string([]byte{x}), origin+fmt.Sprintf(": trailing byte %d", x))
	}
	for _, t := range []string{"~~", "??", "\n", "\r\n", "~?", "?~", "@@@", "~~~~~~~~", valid} {
		m.judge(dec, valid+t, origin+": trailing "+strconv.Quote(t))
	}
}

func uint64max(a, b uint64) uint64 {
	if a > b {
		return a
	}
	return b
}

// stream builds ":" N(n) + the six-bit packing of bits (bits is padded by the
// caller to a multiple of 6).
func stream(hdr []byte, bits []int) string {
	out := append([]byte{':'}, hdr...)
	for i := 0; i+6 <= len(bits); i += 6 {
		v := 0
		for j := 0; j < 6; j++ {
			v = v*2 + bits[i+j]
		}
		out = append(out, byte(v+63))
	}
	return string(out)
}

func (m *mon) seededStream(r *engine.Rng, n int, hdr []byte, origin string) {
	k := codec.BitsFor(n)
	var bits []int
	v := 0
	pairs := r.Intn(24)
	mode := r.Intn(5)
	for p := 0; p < pairs; p++ {
		b := 0
		if r.Bool(0.5) {
			b = 1
		}
		x := 0
		top := 1
		if k > 0 {
			top = 1 << uint(k)
		}
		switch mode {
		case 0: // uniform over the k-bit range (often >= n)
			x = r.Intn(top)
		case 1: // at or just above n-1
			x = n - 2 + r.Intn(4)
		case 2: // near the current vertex
			x = v - 1 + r.Intn(4)
		case 3: // mostly small: many edges, v creeps past n through b
			x = r.Intn(3)
			b = 1
		default:
			if r.Bool(0.3) {
				x = top - 1
			} else {
				x = r.Intn(n + 1)
			}
		}
		if x < 0 {
			x = 0
		}
		if x >= top {
			x = top - 1
		}
		bits = append(bits, b)
		for j := k - 1; j >= 0; j-- {
			bits = append(bits, (x>>uint(j))&1)
		}
		if b == 1 {
			v++
		}
		if x > v {
			v = x
		}
	}
	pad := (6 - len(bits)%6) % 6
	if pad == 0 {
		m.judge(s6, stream(hdr, bits), origin+fmt.Sprintf(": %d pairs, no padding", pairs))
		// and one more full byte of every kind of fill
		for _, fill := range []int{0, 63, 31, 32, 21} {
			bb := append([]int(nil), bits...)
			for j := 5; j >= 0; j-- {
				bb = append(bb, (fill>>uint(j))&1)
			}
			m.judge(s6, stream(hdr, bb), origin+fmt.Sprintf(": %d pairs + byte %d", pairs, fill+63))
		}
		return
	}
	for fill := 0; fill < 1<<uint(pad); fill++ { // every padding
		bb := append([]int(nil), bits...)
		for j := pad - 1; j >= 0; j-- {
			bb = append(bb, (fill>>uint(j))&1)
		}
		m.judge(s6, stream(hdr, bb), origin+fmt.Sprintf(": %d pairs, %d padding bits = %b", pairs, pad, fill))
	}
}

func headers(n int) [][]byte {
	var out [][]byte
	if n <= 62 {
		out = append(out, []byte{byte(n + 63)})
	}
	if n <= 258047 {
		out = append(out, []byte{126, byte(n>>12&63) + 63, byte(n>>6&63) + 63, byte(n&63) + 63})
	}
	out = append(out, []byte{126, 126, byte(n>>30&63) + 63, byte(n>>24&63) + 63, byte(n>>18&63) + 63, byte(n>>12&63) + 63, byte(n>>6&63) + 63, byte(n&63) + 63})
	return out
}

func run(c *engine.Ctx) {
	// 0. regression witnesses first (smallest strings of every defect found on the pinned tree)
	unit(c, "witness/sparse6", func(m *mon) {
		for _, s := range []string{"", ":", ":~", ":~~", ":~?", ":~??", ":~~?????", codec.S6Header, codec.S6Header + ":", ":?", ":@", ":A", ":D", ":An", ":A~", ":@~", ":?~", ":Bw", ":CcN", ":Cdv",
			":P_`abcdefghijklmn", ":~??@", ":~??A~", ":~~?????A", ":~~?????A~", ":Fa@x^", "A_", "~", "\n", ":\n"} {
			m.judge(s6, s, "witness table")
		}
	})
	unit(c, "witness/graph6", func(m *mon) {
		for _, s := range []string{"", "~", "~~", "~?", "~??", "~~?", "~~??????", "~~?????", codec.G6Header, codec.G6Header + "~", codec.G6Header + "~~", "?", "@", "A", "A_", "A~", "D", "DQ", "DQc", "DQc~", "DQ\n",
			"~??@", "~??A", "~??A_", "~~?????@", "~~?????A_", ":An", "\x00", "\xff"} {
			m.judge(g6, s, "witness table")
		}
	})

	// 1. every string of length <= 2 over all byte values, all framings
	unit(c, "bytes/len<=1", func(m *mon) {
		m.both("", "all strings of length <= 2", true)
		for a := 0; a < 256; a++ {
			m.both(string([]byte{byte(a)}), "all strings of length <= 2", true)
		}
		c.Obs("exhaustive:all byte strings of length <= 2 (256 values) bare, behind ':' and behind the headers, both decoders", 1)
	})
	for blk := 0; blk < 64; blk++ {
		blk := blk
		unit(c, fmt.Sprintf("bytes/len=2/first=%d..%d", blk*4, blk*4+3), func(m *mon) {
			for a := blk * 4; a < blk*4+4; a++ {
				for b := 0; b < 256; b++ {
					m.both(string([]byte{byte(a), byte(b)}), "all strings of length <= 2", true)
				}
			}
		})
	}

	// 2. hostile alphabet, lengths 3..4 (5 in thorough)
	maxLen := c.Pick(4, 5)
	for L := 3; L <= maxLen; L++ {
		for first := range alphabet {
			for second := range alphabet {
				if L < 5 && second > 0 {
					break
				}
				L, first, second := L, first, second
				name := fmt.Sprintf("alphabet/len=%d/first=%d", L, first)
				if L == 5 {
					name += fmt.Sprintf("/second=%d", second)
				}
				unit(c, name, func(m *mon) {
					body := make([]byte, L)
					body[0] = alphabet[first]
					free := L - 1
					if L == 5 {
						body[1] = alphabet[second]
						free = L - 2
					}
					total := 1
					for i := 0; i < free; i++ {
						total *= len(alphabet)
					}
					for x := 0; x < total; x++ {
						y := x
						for i := L - free; i < L; i++ {
							body[i] = alphabet[y%len(alphabet)]
							y /= len(alphabet)
						}
						m.both(string(body), fmt.Sprintf("all strings of length %d over the hostile alphabet", L), c.Thorough() && L < 5)
					}
					if first == 0 && second == 0 {
						c.Obs(fmt.Sprintf("exhaustive:all strings of length %d over the 14-byte alphabet %v", L, alphabet), 1)
					}
				})
			}
		}
	}

	// 3. size headers: every form, small / inconsistent / truncated n
	for _, n := range []int{0, 1, 2, 3, 4, 5, 7, 8, 9, 16, 17, 31, 32, 33, 62, 63, 64, 100, 1000, 4095, 4096, 4097, 5000, 258047, 258048, 1 << 20, 1<<31 - 1, 1 << 31, 1 << 32, 1<<36 - 1} {
		n := n
		unit(c, fmt.Sprintf("headers/n=%d", n), func(m *mon) {
			for _, h := range headers(n) {
				hs := string(h)
				for l := 1; l < len(h); l++ {
					m.judge(g6, hs[:l], fmt.Sprintf("size header of n=%d truncated to %d bytes", n, l))
					m.judge(s6, ":"+hs[:l], fmt.Sprintf("size header of n=%d truncated to %d bytes", n, l))
				}
				org := fmt.Sprintf("%d-byte size header of n=%d", len(h), n)
				// sparse6 bodies
				for _, body := range []string{"", "~", "?", "~~~~", "????", "_", "@?@?@?", "w}~{", "\n"} {
					m.judge(s6, ":"+hs+body, org+" + "+strconv.Quote(body))
				}
				if n <= MaxN {
					for i := 0; i < 40; i++ {
						r := c.Rand("hdr-stream", n*100+i)
						m.seededStream(r, n, h, org+fmt.Sprintf(" + seeded stream #%d", i))
					}
				}
				// graph6 bodies: exact, short, long
				need := 0
				if n <= MaxN {
					need = (n*(n-1)/2 + 5) / 6
				}
				for _, body := range []string{"", "?", "~"} {
					m.judge(g6, hs+body, org+" + "+strconv.Quote(body))
				}
				if n <= MaxN && n >= 2 {
					fills := []byte{'?', '~', 'U'}
					if n > 300 { // megabyte strings: the edgeless fill, and one dense fill behind the canonical header
						fills = []byte{'?'}
						if len(h) == len(codec.SizeHeader(n)) && (n == 1000 || n == MaxN) {
							fills = []byte{'?', 'U'}
						}
					}
					for _, fill := range fills {
						full := strings.Repeat(string([]byte{fill}), need)
						m.judge(g6, hs+full, org+fmt.Sprintf(" + exactly %d data bytes %q", need, fill))
						m.judge(g6, hs+full[:need-1], org+fmt.Sprintf(" + one data byte too few (%q)", fill))
						if n <= 300 || fill == '?' {
							m.judge(g6, hs+full+"?", org+fmt.Sprintf(" + one data byte too many (%q)", fill))
						}
					}
					if n <= 1000 {
						seeded := 6
						if n > 300 {
							seeded = 1
						}
						for i := 0; i < seeded; i++ {
							r := c.Rand("hdr-g6", n*10+i)
							body := make([]byte, need)
							for j := range body {
								body[j] = byte(63 + r.Intn(64))
							}
							if i%3 == 2 && need > 0 {
								body[r.Intn(need)] = boundary[r.Intn(len(boundary))]
							}
							m.judge(g6, hs+string(body), org+fmt.Sprintf(" + seeded data bytes #%d", i))
						}
					}
				}
			}
		})
	}

	// 4. mutations of valid encodings
	chunks := c.Pick(48, 160)
	for ch := 0; ch < chunks; ch++ {
		ch := ch
		unit(c, fmt.Sprintf("mutations/%d", ch), func(m *mon) {
			base := baseGraphs(c)
			for i := ch; i < len(base); i += chunks {
				g := base[i]
				org := fmt.Sprintf("reference encoding of base graph %d (n=%d, m=%d)", i, g.N, g.M())
				m.mutations(g6, codec.Graph6(g), "graph6 "+org)
				m.mutations(s6, codec.Sparse6OfGraph(g), "sparse6 "+org)
				if i%5 == 0 {
					r := c.Rand("base-alt", i)
					m.mutations(s6, codec.Sparse6Alt(g.N, g.Edges(), func(k int) int { return r.Intn(k) }), "alternative sparse6 "+org)
				}
			}
			if ch == 0 {
				c.Obs("mutation_base_graphs", len(base))
				c.Sample("mutations", map[string]interface{}{"base_graphs": len(base), "example_graph6": codec.Graph6(base[len(base)-1]), "example_sparse6": codec.Sparse6OfGraph(base[len(base)-1])})
			}
		})
	}

	// 5. sparse6 pair streams synthesised by the harness
	for n := 0; n <= 17; n++ {
		n := n
		for half := 0; half < 2; half++ {
			half := half
			unit(c, fmt.Sprintf("streams/all-12-bit/n=%d/%d", n, half), func(m *mon) {
				hdr := codec.SizeHeader(n)
				for x := half * 2048; x < (half+1)*2048; x++ {
					m.judge(s6, string(append(append([]byte{':'}, hdr...), byte(x>>6)+63, byte(x&63)+63)), fmt.Sprintf("all 12-bit streams for n=%d", n))
				}
				if half == 0 {
					c.Obs(fmt.Sprintf("exhaustive:all 4096 two-byte sparse6 streams for n=%d", n), 1)
				}
			})
		}
	}
	perStream := c.Pick(250, 8000)
	for _, n := range []int{0, 1, 2, 3, 4, 5, 6, 7, 8, 9, 10, 12, 15, 16, 17, 18, 24, 31, 32, 33, 47, 62, 63, 64, 65, 100, 127, 128, 129, 1000, 4095, 4096} {
		n := n
		cnt := perStream
		if n > 300 {
			cnt = perStream / 10
		}
		for blk := 0; blk*500 < cnt; blk++ {
			blk := blk
			unit(c, fmt.Sprintf("streams/seeded/n=%d/%d", n, blk), func(m *mon) {
				hs := headers(n)
				for i := blk * 500; i < (blk+1)*500 && i < cnt; i++ {
					r := c.Rand("stream", n*100000+i)
					h := hs[0]
					if i%16 == 15 {
						h = hs[r.Intn(len(hs))]
					}
					m.seededStream(r, n, h, fmt.Sprintf("seeded pair stream #%d for n=%d", i, n))
				}
				if n == 5 && blk == 0 {
					c.Sample("streams", map[string]interface{}{"n": 5, "example": ":Dn~", "meaning": "pairs that point at vertices >= n and fill patterns of the last byte"})
				}
			})
		}
	}

	// 6. large declared n within the bound
	for _, n := range []int{301, 1000, 4096} {
		n := n
		unit(c, fmt.Sprintf("large/n=%d", n), func(m *mon) {
			for i := 0; i < c.Pick(2, 4); i++ {
				r := c.Rand("large", n*10+i)
				g := gen.Random(r, n, []float64{0.01, 0.5}[i%2])
				s := codec.Graph6(g)
				m.judge(g6, s, fmt.Sprintf("graph6 of a seeded graph n=%d", n))
				m.judge(g6, s[:len(s)-1], fmt.Sprintf("graph6 of a seeded graph n=%d, last byte cut", n))
				b := []byte(s)
				b[len(b)/2] = 62
				m.judge(g6, string(b), fmt.Sprintf("graph6 of a seeded graph n=%d, byte 62 in the middle", n))
				if i%2 == 0 {
					m.judge(g6, s+"~", fmt.Sprintf("graph6 of a seeded graph n=%d, one byte more", n))
				}
				sp := gen.Random(r, n, 3.0/float64(n))
				t := codec.Sparse6OfGraph(sp)
				m.judge(s6, t, fmt.Sprintf("sparse6 of a seeded graph n=%d", n))
				for cut := 1; cut <= 6; cut++ {
					m.judge(s6, t[:len(t)-cut], fmt.Sprintf("sparse6 of a seeded graph n=%d, %d bytes cut", n, cut))
				}
				m.judge(s6, t+"~~~~", fmt.Sprintf("sparse6 of a seeded graph n=%d + ~~~~", n))
				m.judge(s6, t+t[1:], fmt.Sprintf("sparse6 of a seeded graph n=%d, stream twice", n))
			}
		})
	}

	// 7. the decoders' counters (declared n, width k, current vertex v) driven to their numeric limits (limits.go)
	limitUnits(c)
}

// Demonstration for C14, change 7 (Lookup returns the index -1, not 0, for a word that is not in the dawg).
//
// Run (from the root of the library, after copying this file into the dawg directory):
//
//	cp demo_test.go <repo>/dawg/c14_demo_test.go
//	cd <repo> && GOFLAGS=-mod=mod GOPROXY=off GOSUMDB=off GOTOOLCHAIN=local go test -vet=off -count=1 -timeout 600s -run 'TestC14Demo' -v ./dawg
//
// TestC14DemoProperty checks the property itself: for word sets with wide branching and with counts on both sides of
// 127, the dawg decoded from GobEncode(d) (directly, through encoding/gob, and into a receiver that already holds
// another dawg) has the same word count, the same Lookup answer as d for every stored word AND for many words that
// are not stored (the answers of d and of the decoded dawg are compared with each other), every stored word has its
// rank, pattern searches agree, and encoding the decoded dawg again gives the same bytes.  Passes before and after.
// TestC14DemoBytesUnchanged pins three small encodings; passes before and after (the change does not touch them).
// TestC14DemoIncidentalAbsentIndex pins the OLD value of the index that Lookup returns next to ok == false, which the
// documentation does not fix: 0.  With the change it is -1, so this test passes on the clean tree and fails with the
// change.
package dawg_test

import (
	"bytes"
	"encoding/gob"
	"fmt"
	"reflect"
	"sort"
	"testing"

	"github.com/Tom-Johnston/mamba/dawg"
)

func c14Sorted(ws [][]byte) [][]byte {
	sort.Slice(ws, func(i, j int) bool { return bytes.Compare(ws[i], ws[j]) < 0 })
	out := ws[:0]
	for i, w := range ws {
		if i == 0 || !bytes.Equal(w, ws[i-1]) {
			out = append(out, w)
		}
	}
	return out
}

// c14WordSets returns word sets with wide branching (up to 256 links per node) and with word and node counts on both
// sides of 127.
func c14WordSets() map[string][][]byte {
	sets := map[string][][]byte{}
	sets["empty"] = nil
	sets["emptyword"] = [][]byte{{}}
	sets["ab"] = [][]byte{[]byte("a"), []byte("b")}
	for _, k := range []int{1, 127, 128, 129, 200, 256} {
		var ws [][]byte
		for c := 0; c < k; c++ {
			ws = append(ws, []byte{byte(c)})
		}
		sets[fmt.Sprintf("fan%d", k)] = c14Sorted(ws)
		// two levels, different second levels so that the nodes are not merged
		var ws2 [][]byte
		for c := 0; c < k; c++ {
			for e := 0; e <= c%5; e++ {
				ws2 = append(ws2, []byte{byte(c), byte(255 - e)})
			}
			if c%3 == 0 {
				ws2 = append(ws2, []byte{byte(c)})
			}
		}
		sets[fmt.Sprintf("two%d", k)] = c14Sorted(ws2)
	}
	// chains: many nodes, no sharing
	for _, n := range []int{126, 127, 128, 300} {
		w := make([]byte, n)
		for i := range w {
			w[i] = byte(i * 7)
		}
		sets[fmt.Sprintf("chain%d", n)] = [][]byte{w}
	}
	// pseudo random sets over small and full alphabets
	x := uint32(12345)
	rnd := func(n int) int {
		x = x*1664525 + 1013904223
		return int(x>>8) % n
	}
	for i := 0; i < 12; i++ {
		alpha := []int{2, 3, 256}[i%3]
		var ws [][]byte
		for j := 0; j < 40+rnd(300); j++ {
			w := make([]byte, rnd(6))
			for k := range w {
				w[k] = byte(rnd(alpha))
			}
			ws = append(ws, w)
		}
		sets[fmt.Sprintf("rand%d", i)] = c14Sorted(ws)
	}
	return sets
}

// c14Probes returns words to look up: every stored word and many words that are mostly not stored.
func c14Probes(ws [][]byte) [][]byte {
	var ps [][]byte
	ps = append(ps, []byte{}, []byte{0}, []byte{255}, []byte("zzzzzzzzzz"))
	for _, w := range ws {
		ps = append(ps, w)
		ps = append(ps, append(append([]byte{}, w...), 0))
		ps = append(ps, append(append([]byte{}, w...), 255))
		if len(w) > 0 {
			ps = append(ps, w[:len(w)-1])
			v := append([]byte{}, w...)
			v[len(v)-1]++
			ps = append(ps, v)
			v = append([]byte{}, w...)
			v[0] ^= 0x55
			ps = append(ps, v)
		}
	}
	return ps
}

func c14Stored(ws [][]byte, p []byte) bool {
	i := sort.Search(len(ws), func(i int) bool { return bytes.Compare(ws[i], p) >= 0 })
	return i < len(ws) && bytes.Equal(ws[i], p)
}

func c14Same(t *testing.T, name string, ws [][]byte, d, e *dawg.Dawg) {
	t.Helper()
	if d.NumberOfWords() != len(ws) || e.NumberOfWords() != len(ws) {
		t.Fatalf("%s: word counts %d %d, want %d", name, d.NumberOfWords(), e.NumberOfWords(), len(ws))
	}
	for i, w := range ws {
		ri, ok := e.Lookup(w)
		if !ok || ri != i {
			t.Fatalf("%s: decoded Lookup(%x) = %d,%v want %d,true", name, w, ri, ok, i)
		}
	}
	for _, p := range c14Probes(ws) {
		r1, ok1 := d.Lookup(p)
		r2, ok2 := e.Lookup(p)
		if r1 != r2 || ok1 != ok2 {
			t.Fatalf("%s: Lookup(%x): original %d,%v decoded %d,%v", name, p, r1, ok1, r2, ok2)
		}
		if ok1 != c14Stored(ws, p) {
			t.Fatalf("%s: Lookup(%x) ok = %v", name, p, ok1)
		}
	}
	for _, pat := range [][]byte{{}, {'?'}, {'?', '?'}, {0, '?'}, {'?', 255}, {'?', '?', '?'}, {1, '?', '?', '?'}} {
		s1, i1 := d.Search(dawg.NewPatternSearcher(pat, '?'))
		s2, i2 := e.Search(dawg.NewPatternSearcher(pat, '?'))
		if !reflect.DeepEqual(s1, s2) || !reflect.DeepEqual(i1, i2) {
			t.Fatalf("%s: pattern %x: search results differ", name, pat)
		}
		for k := range s1 {
			if !bytes.Equal(ws[i1[k]], s1[k]) {
				t.Fatalf("%s: pattern %x: result %x has index %d", name, pat, s1[k], i1[k])
			}
		}
	}
	s1, i1 := d.Search()
	s2, i2 := e.Search()
	if len(s1) != len(ws) || !reflect.DeepEqual(s1, s2) || !reflect.DeepEqual(i1, i2) {
		t.Fatalf("%s: listing all words differs", name)
	}
}

func TestC14DemoProperty(t *testing.T) {
	other, err := dawg.New([][]byte{[]byte("other"), []byte("others"), []byte("zz")})
	if err != nil {
		t.Fatal(err)
	}
	otherBytes, _ := other.GobEncode()
	for name, ws := range c14WordSets() {
		d, err := dawg.New(ws)
		if err != nil {
			t.Fatalf("%s: %v", name, err)
		}
		b, err := d.GobEncode()
		if err != nil {
			t.Fatalf("%s: %v", name, err)
		}
		// directly
		e := new(dawg.Dawg)
		if err := e.GobDecode(b); err != nil {
			t.Fatalf("%s: %v", name, err)
		}
		c14Same(t, name, ws, d, e)
		b2, _ := e.GobEncode()
		if !bytes.Equal(b, b2) {
			t.Fatalf("%s: encoding again gives other bytes", name)
		}
		// into a receiver that holds another dawg
		f := new(dawg.Dawg)
		if err := f.GobDecode(otherBytes); err != nil {
			t.Fatal(err)
		}
		if err := f.GobDecode(b); err != nil {
			t.Fatalf("%s: %v", name, err)
		}
		c14Same(t, name+"/reused receiver", ws, d, f)
		b3, _ := f.GobEncode()
		if !bytes.Equal(b, b3) {
			t.Fatalf("%s: encoding again (reused receiver) gives other bytes", name)
		}
		// through encoding/gob
		var buf bytes.Buffer
		if err := gob.NewEncoder(&buf).Encode(d); err != nil {
			t.Fatalf("%s: %v", name, err)
		}
		g := new(dawg.Dawg)
		if err := gob.NewDecoder(&buf).Decode(g); err != nil {
			t.Fatalf("%s: %v", name, err)
		}
		c14Same(t, name+"/gob", ws, d, g)
		b4, _ := g.GobEncode()
		if !bytes.Equal(b, b4) {
			t.Fatalf("%s: encoding again (gob) gives other bytes", name)
		}
	}
}

func TestC14DemoBytesUnchanged(t *testing.T) {
	for _, c := range []struct {
		ws   [][]byte
		want string
	}{
		{nil, "010000000000"},
		{[][]byte{{}}, "010000010100"},
		{[][]byte{[]byte("a"), []byte("b")}, "020001000200026101620101010100"},
	} {
		d, err := dawg.New(c.ws)
		if err != nil {
			t.Fatal(err)
		}
		b, _ := d.GobEncode()
		if got := fmt.Sprintf("%x", b); got != c.want {
			t.Errorf("GobEncode(%q) = %s, want %s", c.ws, got, c.want)
		}
	}
}

// TestC14DemoIncidentalAbsentIndex pins the OLD behaviour: for a word that is not stored Lookup returns 0, false.
func TestC14DemoIncidentalAbsentIndex(t *testing.T) {
	ws := [][]byte{[]byte("car"), []byte("cat"), []byte("do"), []byte("dog")}
	d, err := dawg.New(ws)
	if err != nil {
		t.Fatal(err)
	}
	b, _ := d.GobEncode()
	e := new(dawg.Dawg)
	if err := e.GobDecode(b); err != nil {
		t.Fatal(err)
	}
	for _, x := range []*dawg.Dawg{d, e} {
		for _, p := range []string{"", "c", "ca", "cab", "cars", "d", "dot", "zebra"} {
			i, ok := x.Lookup([]byte(p))
			t.Logf("Lookup(%q) = %d, %v", p, i, ok)
			if ok {
				t.Errorf("Lookup(%q) reports a word that was never added", p)
			}
			if i != 0 {
				t.Errorf("Lookup(%q) = %d, %v; the clean tree returns 0, false", p, i, ok)
			}
		}
	}
}

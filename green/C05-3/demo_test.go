// Demo for green change C05/3 (arguments of the editing methods are validated before anything is changed).
//
// Run (from the root of the library):
//
//	cp /tmp/green-out/C05/3/demo_test.go graph/c05_demo3_test.go
//	GOFLAGS=-mod=mod GOPROXY=off GOSUMDB=off GOTOOLCHAIN=local go test -vet=off -count=1 -timeout 120s -run 'TestC05Demo3' -v ./graph/
//	rm graph/c05_demo3_test.go
//
// TestC05Demo3Property checks the property itself (random edit histories with VALID arguments against an
// adjacency-set model, dense against sparse): it passes on the clean tree and with the change.
// TestC05Demo3OldIncidental asserts the OLD behaviour on INVALID arguments (panic values and the state that is left
// behind): it passes on the clean tree and fails with the change.
package graph_test

import (
	"fmt"
	"math/rand"
	"runtime"
	"sort"
	"testing"

	"github.com/Tom-Johnston/mamba/graph"
)

type model struct{ adj []map[int]bool }

func (m *model) n() int { return len(m.adj) }
func (m *model) addVertex(nb []int) {
	v := len(m.adj)
	m.adj = append(m.adj, map[int]bool{})
	for _, u := range nb {
		m.adj[u][v] = true
		m.adj[v][u] = true
	}
}
func (m *model) removeVertex(v int) {
	adj := make([]map[int]bool, 0, len(m.adj)-1)
	for i, s := range m.adj {
		if i == v {
			continue
		}
		t := map[int]bool{}
		for u := range s {
			if u < v {
				t[u] = true
			} else if u > v {
				t[u-1] = true
			}
		}
		adj = append(adj, t)
	}
	m.adj = adj
}
func (m *model) addEdge(i, j int) {
	if i != j {
		m.adj[i][j] = true
		m.adj[j][i] = true
	}
}
func (m *model) removeEdge(i, j int) {
	delete(m.adj[i], j)
	delete(m.adj[j], i)
}
func (m *model) induced(V []int) *model {
	h := &model{}
	for range V {
		h.adj = append(h.adj, map[int]bool{})
	}
	for i := range V {
		for j := range V {
			if m.adj[V[i]][V[j]] {
				h.adj[i][j] = true
			}
		}
	}
	return h
}
func (m *model) copy() *model {
	V := make([]int, m.n())
	for i := range V {
		V[i] = i
	}
	return m.induced(V)
}

func agree(t *testing.T, what string, g graph.Graph, m *model) {
	t.Helper()
	if g.N() != m.n() {
		t.Fatalf("%s: N = %d, model %d", what, g.N(), m.n())
	}
	edges := 0
	deg := g.Degrees()
	if len(deg) != m.n() {
		t.Fatalf("%s: len(Degrees) = %d, model %d", what, len(deg), m.n())
	}
	for v := 0; v < m.n(); v++ {
		want := []int{}
		for u := range m.adj[v] {
			want = append(want, u)
		}
		sort.Ints(want)
		edges += len(want)
		if got := g.Neighbours(v); fmt.Sprint(got) != fmt.Sprint(want) {
			t.Fatalf("%s: Neighbours(%d) = %v, model %v", what, v, got, want)
		}
		if deg[v] != len(want) {
			t.Fatalf("%s: Degrees[%d] = %d, model %d", what, v, deg[v], len(want))
		}
		for u := 0; u < m.n(); u++ {
			if g.IsEdge(u, v) != m.adj[u][v] {
				t.Fatalf("%s: IsEdge(%d,%d) = %v, model %v", what, u, v, g.IsEdge(u, v), m.adj[u][v])
			}
		}
	}
	if g.M() != edges/2 {
		t.Fatalf("%s: M = %d, model %d", what, g.M(), edges/2)
	}
}

func TestC05Demo3Property(t *testing.T) {
	rng := rand.New(rand.NewSource(5))
	for trial := 0; trial < 200; trial++ {
		var d graph.EditableGraph = graph.NewDense(0, nil)
		var s graph.EditableGraph = graph.NewSparse(0, nil)
		m := &model{}
		for step := 0; step < 60; step++ {
			n := m.n()
			switch op := rng.Intn(8); {
			case op <= 1 || n == 0:
				nb := rng.Perm(n)[:rng.Intn(n+1)]
				d.AddVertex(nb)
				s.AddVertex(nb)
				m.addVertex(nb)
			case op == 2 && n > 0:
				v := rng.Intn(n)
				d.RemoveVertex(v)
				s.RemoveVertex(v)
				m.removeVertex(v)
			case op <= 4:
				i, j := rng.Intn(n), rng.Intn(n)
				d.AddEdge(i, j)
				s.AddEdge(i, j)
				m.addEdge(i, j)
			case op == 5:
				i, j := rng.Intn(n), rng.Intn(n)
				d.RemoveEdge(i, j)
				s.RemoveEdge(i, j)
				m.removeEdge(i, j)
			case op == 6:
				//Continue with the copy, then check that the original did not follow.
				d2, s2, m2 := d.Copy(), s.Copy(), m.copy()
				if n > 1 {
					d2.AddEdge(0, 1)
					s2.AddEdge(0, 1)
					d2.RemoveVertex(0)
					s2.RemoveVertex(0)
				}
				agree(t, "dense source after editing the copy", d, m)
				agree(t, "sparse source after editing the copy", s, m)
				_ = m2
			default:
				V := rng.Perm(n)[:rng.Intn(n+1)]
				d2, s2, m2 := d.InducedSubgraph(V), s.InducedSubgraph(V), m.induced(V)
				agree(t, "dense induced", d2, m2)
				agree(t, "sparse induced", s2, m2)
				if rng.Intn(2) == 0 {
					d, s, m = d2, s2, m2
				}
			}
			agree(t, "dense", d, m)
			agree(t, "sparse", s, m)
		}
	}
}

// catch runs f and returns the value it panicked with (nil if it returned normally).
func catch(f func()) (r interface{}) {
	defer func() { r = recover() }()
	f()
	return nil
}

func isRuntimeError(r interface{}) bool {
	_, ok := r.(runtime.Error)
	return ok
}

func TestC05Demo3OldIncidental(t *testing.T) {
	path := func() (*graph.DenseGraph, *graph.SparseGraph) {
		d := graph.NewDense(3, nil)
		s := graph.NewSparse(3, nil)
		d.AddEdge(0, 1)
		s.AddEdge(0, 1)
		return d, s
	}

	//1. The text of the panic of DenseGraph.RemoveVertex.
	d, s := path()
	if r := catch(func() { d.RemoveVertex(3) }); r != "No such vertex" {
		t.Errorf("DenseGraph.RemoveVertex(3) on 3 vertices: panic value %#v, old behaviour is the string \"No such vertex\"", r)
	}

	//2. SparseGraph.RemoveVertex of a vertex which does not exist: a runtime error after the number of vertices has been decremented.
	r := catch(func() { s.RemoveVertex(3) })
	if !isRuntimeError(r) {
		t.Errorf("SparseGraph.RemoveVertex(3) on 3 vertices: panic value %#v, old behaviour is a runtime.Error (index out of range)", r)
	}
	if s.N() != 2 {
		t.Errorf("SparseGraph.RemoveVertex(3) on 3 vertices: N() = %d afterwards, old behaviour leaves 2", s.N())
	}

	//3. DenseGraph.AddVertex with the neighbour -1: the byte of the edge 12 is set before the runtime error.
	d, s = path()
	r = catch(func() { d.AddVertex([]int{-1}) })
	if !isRuntimeError(r) {
		t.Errorf("DenseGraph.AddVertex([-1]): panic value %#v, old behaviour is a runtime.Error", r)
	}
	if !d.IsEdge(1, 2) || d.M() != 1 {
		t.Errorf("DenseGraph.AddVertex([-1]): IsEdge(1,2) = %v and M() = %d afterwards, old behaviour leaves true and 1", d.IsEdge(1, 2), d.M())
	}

	//4. SparseGraph.AddVertex with a neighbour which does not exist: N and M have been updated before the runtime error.
	r = catch(func() { s.AddVertex([]int{7}) })
	if !isRuntimeError(r) {
		t.Errorf("SparseGraph.AddVertex([7]): panic value %#v, old behaviour is a runtime.Error", r)
	}
	if s.N() != 4 || s.M() != 2 || len(s.Degrees()) != 3 {
		t.Errorf("SparseGraph.AddVertex([7]): N() = %d, M() = %d, len(Degrees()) = %d afterwards, old behaviour leaves 4, 2, 3", s.N(), s.M(), len(s.Degrees()))
	}

	//5. DenseGraph.AddEdge to a vertex which does not exist: the degree of the other end has been incremented before the runtime error.
	d, s = path()
	r = catch(func() { d.AddEdge(2, 5) })
	if !isRuntimeError(r) {
		t.Errorf("DenseGraph.AddEdge(2,5): panic value %#v, old behaviour is a runtime.Error", r)
	}
	if d.Degrees()[2] != 1 {
		t.Errorf("DenseGraph.AddEdge(2,5): Degrees()[2] = %d afterwards, old behaviour leaves 1", d.Degrees()[2])
	}

	//6. SparseGraph.AddEdge to a vertex which does not exist: a runtime error (nothing has been changed).
	r = catch(func() { s.AddEdge(2, 5) })
	if !isRuntimeError(r) {
		t.Errorf("SparseGraph.AddEdge(2,5): panic value %#v, old behaviour is a runtime.Error", r)
	}
}

package c14

import (
	"bytes"
	"encoding/gob"
	"fmt"

	"github.com/Tom-Johnston/mamba/dawg"

	"verif/internal/engine"
	"verif/internal/oracle/refdawg"
	"verif/internal/props/c12"
	"verif/internal/props/c12/dawgx"
)

// Decoding into a receiver that already holds an automaton ("GobDecode
// decodes the dawg given in b into t, replacing the current contents of t").
// The root of the decoded automaton is the receiver itself, so every field of
// the old root that is not overwritten leaks into the new automaton: its
// finality (old set contains the empty word, new one does not, and vice
// versa), its links and labels (new root without links), its numWords, its id.

// prepared is a source automaton with everything the judgement needs.
type prepared struct {
	label   string
	set     *refdawg.Set
	alpha   []byte
	d       *dawg.Dawg
	nodes   []dawg.VerifNode
	enc     []byte
	probes  [][]byte
	queries [][]refdawg.Query
	fanout  int
}

// prepare builds, checks and encodes a set.  nil: the set cannot be built or
// its original is already wrong (C12's business) or it does not encode.
func prepare(c *engine.Ctx, callKey, label string, set *refdawg.Set, alpha []byte, rg refdawg.Rand, nQueries int) *prepared {
	d, err, pi := dawgx.Build(c, callKey+"|New", set.Words)
	if pi != nil || err != nil || d == nil {
		c.Obs("builds_failed_not_judged_here(C12)", 1)
		return nil
	}
	p := &prepared{label: label, set: set, alpha: alpha, d: d}
	p.probes = refdawg.Probes(set, alpha, rg, 60+set.Len()/8)
	if f, pi, _ := dawgx.FullCheck(c, callKey+"|orig", d, set, dawgx.CheckOpts{Probes: p.probes, SkipEncode: true}); f != nil || pi != nil {
		c.Obs("original_already_wrong_not_judged_here(C12)", 1)
		return nil
	}
	if p.nodes, pi = dawgx.Nodes(c, callKey+"|orig", d); pi != nil {
		return nil
	}
	if p.enc, err, pi = dawgx.Encode(c, callKey+"|orig", d); pi != nil || err != nil {
		return nil // judged by the round-trip part
	}
	p.queries = append(p.queries, nil)
	for i := 0; i < nQueries; i++ {
		p.queries = append(p.queries, refdawg.GenQueries(set, alpha, rg))
	}
	p.fanout = set.Trie().MaxFanout()
	return p
}

var usedModes = []string{"receiver-built-by-New", "receiver-decoded-before", "decoded-twice-in-a-row", "one-gob-stream-same-variable", "one-gob-stream-same-pointer"}

func hasEmpty(s *refdawg.Set) bool { return s.Len() > 0 && len(s.Words[0]) == 0 }

// usedDecode puts the automaton of old into a receiver in the given way and
// then decodes the encoding of cur into the same receiver; the receiver must
// then be indistinguishable from a fresh decode of cur.
func usedDecode(c *engine.Ctx, callKey string, old, cur *prepared, mode int) bool {
	path := "GobDecode-into-used-receiver"
	w := fmt.Sprintf("%s|old-has-empty-word=%v,new-has-empty-word=%v", usedModes[mode], hasEmpty(old.set), hasEmpty(cur.set))
	det := dawgx.Detail(cur.label, cur.set, map[string]interface{}{"call": callKey, "how": usedModes[mode],
		"receiver_held_before": old.set.Quoted(40), "receiver_held_before_n_words": old.set.Len(), "receiver_held_before_nodes": len(old.nodes), "decoded_nodes": len(cur.nodes)})
	fail := func(step string, err error, pi *engine.PanicInfo) bool {
		c.Eval(1)
		if pi != nil {
			dawgx.Report(c, nil, pi, path+"|"+step, w, det)
			return true
		}
		if err != nil {
			c.Violation(path+"|"+step+"|error|"+w, det, err.Error(), "nil")
			return true
		}
		return false
	}
	var recv *dawg.Dawg
	var err error
	var pi *engine.PanicInfo
	encOld := append([]byte{}, old.enc...)
	encCur := append([]byte{}, cur.enc...)
	switch mode {
	case 0: // the receiver is an automaton made by the Builder
		if recv, err, pi = dawgx.Build(c, callKey+"|New(old)", old.set.Words); pi != nil || err != nil || recv == nil {
			return true
		}
		pi = c.Call(callKey+"|GobDecode(new into built)", func() { err = recv.GobDecode(encCur) })
		if fail("GobDecode", err, pi) {
			return false
		}
		c.Obs("used:receiver_built_by_New", 1)
	case 1: // the receiver was filled by an earlier GobDecode
		recv = new(dawg.Dawg)
		pi = c.Call(callKey+"|GobDecode(old)", func() { err = recv.GobDecode(encOld) })
		if pi != nil || err != nil {
			return true // judged by the round-trip part
		}
		// the caller keeps a copy of the VALUE it had (old := *d) before loading new data into the variable
		kept := *recv
		pi = c.Call(callKey+"|GobDecode(new over old)", func() { err = recv.GobDecode(encCur) })
		if fail("GobDecode", err, pi) {
			return false
		}
		c.Obs("used:receiver_decoded_before", 1)
		c.Obs("used:value_copied_before_the_reload_still_the_old_automaton", 1)
		if !compareCopyW(c, false, path+"|value-copied-before-the-reload", w, callKey, &kept, old.set, old.probes, old.d, old.nodes, old.enc, old.queries[:1], det) {
			return false
		}
	case 2: // old, then the new data twice in a row
		recv = new(dawg.Dawg)
		pi = c.Call(callKey+"|GobDecode(old)", func() { err = recv.GobDecode(encOld) })
		if pi != nil || err != nil {
			return true
		}
		for k := 0; k < 2; k++ {
			pi = c.Call(fmt.Sprintf("%s|GobDecode(new #%d)", callKey, k), func() { err = recv.GobDecode(encCur) })
			if fail("GobDecode", err, pi) {
				return false
			}
		}
		c.Obs("used:decoded_twice_in_a_row", 1)
	case 3, 4: // two values through one Encoder / Decoder pair into the same variable (3) or the same non-nil pointer (4)
		var buf bytes.Buffer
		var enc *gob.Encoder
		pi = c.Call(callKey+"|gob.Encode(old,new)", func() {
			enc = gob.NewEncoder(&buf)
			if err = enc.Encode(old.d); err == nil {
				err = enc.Encode(cur.d)
			}
		})
		if pi != nil || err != nil {
			return true // judged by the round-trip part
		}
		var v dawg.Dawg
		ptr := new(dawg.Dawg)
		var dec *gob.Decoder
		target := interface{}(&v)
		recv = &v
		if mode == 4 {
			target = &ptr
		}
		pi = c.Call(callKey+"|gob.Decode(first value)", func() {
			dec = gob.NewDecoder(&buf)
			err = dec.Decode(target)
		})
		if fail("encoding/gob.Decode(first value)", err, pi) {
			return false
		}
		if mode == 4 {
			recv = ptr
		}
		// the first value must be right as well (fresh receiver through the stream)
		if !compareCopyW(c, false, path+"|first-value-of-stream", w, callKey, recv, old.set, old.probes, old.d, old.nodes, old.enc, old.queries[:1], det) {
			return false
		}
		pi = c.Call(callKey+"|gob.Decode(second value)", func() { err = dec.Decode(target) })
		if fail("encoding/gob.Decode(second value)", err, pi) {
			return false
		}
		if mode == 4 {
			recv = ptr
			c.Obs("used:one_gob_stream_same_pointer", 1)
		} else {
			c.Obs("used:one_gob_stream_same_variable", 1)
		}
	}
	if !bytes.Equal(encCur, cur.enc) || !bytes.Equal(encOld, old.enc) {
		c.Violation(path+"|modified-its-input|"+w, det, "input bytes changed", "input untouched")
		return false
	}
	if !compareCopyW(c, false, path, w, callKey, recv, cur.set, cur.probes, cur.d, cur.nodes, cur.enc, cur.queries, det) {
		return false
	}
	// what distinguishes the old content from the new one
	oe, ne := hasEmpty(old.set), hasEmpty(cur.set)
	switch {
	case oe && !ne:
		c.Obs("used:old_root_final_new_root_not", 1)
	case !oe && ne:
		c.Obs("used:old_root_not_final_new_root_final", 1)
	}
	if len(old.nodes[0].Labels) > 0 && len(cur.nodes[0].Labels) == 0 {
		c.Obs("used:old_has_links_new_root_has_none", 1)
	}
	cmpObs := func(name string, a, b int) {
		switch {
		case a > b:
			c.Obs("used:old_more_"+name, 1)
		case a < b:
			c.Obs("used:old_fewer_"+name, 1)
		}
	}
	cmpObs("nodes", len(old.nodes), len(cur.nodes))
	cmpObs("words", old.set.Len(), cur.set.Len())
	switch {
	case old.fanout > cur.fanout:
		c.Obs("used:old_wider_fanout", 1)
	case old.fanout < cur.fanout:
		c.Obs("used:old_narrower_fanout", 1)
	}
	if old.set.Len() >= 2 && cur.set.Len() >= 2 && old.set.Hash() != cur.set.Hash() {
		c.NT("used", mode, old.set.Hash(), cur.set.Hash())
	}
	return true
}

// earlierCopyUnaffected: two receivers decoded from the same bytes share
// nothing: overwriting one of them with another automaton leaves the other.
func earlierCopyUnaffected(c *engine.Ctx, callKey string, a, b *prepared) bool {
	r1, r2 := new(dawg.Dawg), new(dawg.Dawg)
	in := append([]byte{}, a.enc...)
	var e1, e2, e3 error
	pi := c.Call(callKey+"|GobDecode(x3)", func() {
		e1 = r1.GobDecode(in)
		e2 = r2.GobDecode(in)
		e3 = r2.GobDecode(b.enc)
	})
	if pi != nil || e1 != nil || e2 != nil || e3 != nil {
		return true // judged elsewhere
	}
	w := "earlier-copy-of-the-same-bytes"
	det := dawgx.Detail(a.label, a.set, map[string]interface{}{"call": callKey, "second_receiver_then_overwritten_with": b.set.Quoted(40)})
	if !compareCopyW(c, false, "GobDecode-into-used-receiver|earlier-copy", w, callKey, r1, a.set, a.probes, a.d, a.nodes, a.enc, a.queries[:1], det) {
		return false
	}
	c.Obs("used:earlier_copy_unaffected", 1)
	return true
}

func contrastSets() []c12.Family {
	want := map[string]bool{"empty-set": true, "only-empty-word": true, "empty-word-and-a": true, "single-letter": true, "single-word": true, "repo-test-words": true,
		"tap-taps-top-tops": true, "unary-chain-all-300": true, "unary-single-300": true, "fan-2": true, "fan-128-with-empty-word": true, "fan-256": true, "fan-256-with-empty-word": true,
		"fan-256-final-children-with-loops": true, "binary-len-5": true, "product-3x3-minus-one": true}
	var out []c12.Family
	for _, f := range c12.FixedFamilies() {
		if want[f.Name] {
			out = append(out, f)
		}
	}
	return out
}

func usedReceivers(c *engine.Ctx) {
	// (a) all ordered pairs of the subsets of a 6-word universe
	u := [][]byte{[]byte(""), []byte("a"), []byte("aa"), []byte("ab"), []byte("b"), []byte("ba")}
	nSub := 1 << uint(len(u))
	label := "all ordered pairs (old content, new content) of the 64 subsets of {\"\",a,aa,ab,b,ba} x 5 ways of reusing a receiver"
	const blocks = 16
	for blk := 0; blk < blocks; blk++ {
		blk := blk
		c.Unit(fmt.Sprintf("used-receiver/pairs64/%02d", blk), func() {
			rg := engine.NewRng(uint64(500 + blk))
			preps := make([]*prepared, nSub)
			for m := 0; m < nSub; m++ {
				set := c12.SubsetOf(u, m)
				preps[m] = prepare(c, fmt.Sprintf("used|pairs64|mask=%d", m), label, set, []byte("ab"), rg, 1)
			}
			n := 0
			for o := blk * nSub / blocks; o < (blk+1)*nSub/blocks; o++ {
				for nw := 0; nw < nSub; nw++ {
					if preps[o] == nil || preps[nw] == nil {
						continue
					}
					for mode := range usedModes {
						usedDecode(c, fmt.Sprintf("used|pairs64|old=%d|new=%d|%s", o, nw, usedModes[mode]), preps[o], preps[nw], mode)
						n++
						if c.Stopped() {
							return
						}
					}
					if (o+nw)%4 == 0 {
						earlierCopyUnaffected(c, fmt.Sprintf("used|pairs64|old=%d|new=%d|earlier-copy", o, nw), preps[o], preps[nw])
					}
				}
			}
			c.Obs("used:pair_decodes", n)
			if blk == 0 {
				c.Obs("exhaustive:"+label, 1)
				c.Sample("used-receiver", map[string]interface{}{"universe": refdawg.QuoteList(u, 10), "ways": usedModes})
			}
		})
	}
	// (b) all ordered pairs of contrasting fixed sets
	fams := contrastSets()
	for oi := range fams {
		oi := oi
		c.Unit("used-receiver/contrast/old="+fams[oi].Name, func() {
			rg := engine.NewRng(uint64(700 + oi))
			old := prepare(c, "used|contrast|"+fams[oi].Name, "contrast "+fams[oi].Name, fams[oi].Set, fams[oi].Alpha, rg, 2)
			if old == nil {
				return
			}
			for ni := range fams {
				if ni == oi {
					continue
				}
				cur := prepare(c, "used|contrast|"+fams[ni].Name, "contrast "+fams[ni].Name, fams[ni].Set, fams[ni].Alpha, rg, 2)
				if cur == nil {
					continue
				}
				for mode := range usedModes {
					usedDecode(c, fmt.Sprintf("used|contrast|old=%s|new=%s|%s", fams[oi].Name, fams[ni].Name, usedModes[mode]), old, cur, mode)
					if c.Stopped() {
						return
					}
				}
				earlierCopyUnaffected(c, fmt.Sprintf("used|contrast|old=%s|new=%s|earlier-copy", fams[oi].Name, fams[ni].Name), old, cur)
			}
			if oi == 0 {
				var names []string
				for _, f := range fams {
					names = append(names, fmt.Sprintf("%s(%d words)", f.Name, f.Set.Len()))
				}
				c.Sample("used-receiver-contrast", map[string]interface{}{"sets": names})
			}
		})
	}
}

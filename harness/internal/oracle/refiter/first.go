package refiter

// First objects of families that are far too large to list: the same plain
// position-by-position recursions as in refiter.go, stopped after limit
// objects.  Nothing here depends on the size of the family (no counting, no
// ranking), so the cardinality may exceed any machine word.

import "fmt"

// RestrictedProduct returns, in lexicographic order, the tuples of
// {0..d[0]-1} x ... x {0..d[m-1]-1} all of whose non-empty prefixes are accepted
// by pred, by a depth-first search that extends a prefix only when it is
// accepted (the same set as FilterPrefixes(Product(d), pred)).  limit > 0 stops
// after that many objects.  A factor < 1 gives nothing; no factor gives the
// single empty tuple.
func RestrictedProduct(d []int, pred func([]int) bool, limit int) [][]int {
	for _, v := range d {
		if v < 1 {
			return nil
		}
	}
	var out [][]int
	cur := make([]int, 0, len(d))
	var rec func()
	rec = func() {
		if len(cur) == len(d) {
			out = append(out, cp(cur))
			return
		}
		for v := 0; v < d[len(cur)]; v++ {
			if limit > 0 && len(out) >= limit {
				return
			}
			cur = append(cur, v)
			if pred(cur) {
				rec()
			}
			cur = cur[:len(cur)-1]
		}
	}
	rec()
	return out
}

// FirstProduct returns the first limit tuples of the product in lexicographic (odometer) order.
func FirstProduct(d []int, limit int) [][]int {
	if limit <= 0 {
		return nil
	}
	return RestrictedProduct(d, func([]int) bool { return true }, limit)
}

// FirstMultisetPermutations returns the first limit arrangements of the
// multiset with freq[i] copies of i in lexicographic order.
func FirstMultisetPermutations(freq []int, limit int) [][]int {
	left := cp(freq)
	total := 0
	for _, f := range freq {
		if f > 0 {
			total += f
		}
	}
	var out [][]int
	cur := make([]int, 0, total)
	var rec func()
	rec = func() {
		if len(cur) == total {
			out = append(out, cp(cur))
			return
		}
		for v := range left {
			if len(out) >= limit {
				return
			}
			if left[v] <= 0 {
				continue
			}
			left[v]--
			cur = append(cur, v)
			rec()
			cur = cur[:len(cur)-1]
			left[v]++
		}
	}
	if limit > 0 {
		rec()
	}
	return out
}

// FirstRestrictedGrowthStrings returns the first limit restricted growth
// strings of length n in lexicographic order.
func FirstRestrictedGrowthStrings(n, limit int) [][]int {
	var out [][]int
	cur := make([]int, 0, n)
	var rec func(max int)
	rec = func(max int) {
		if len(cur) == n {
			out = append(out, cp(cur))
			return
		}
		for v := 0; v <= max+1; v++ {
			if len(out) >= limit {
				return
			}
			cur = append(cur, v)
			nm := max
			if v > max {
				nm = v
			}
			rec(nm)
			cur = cur[:len(cur)-1]
		}
	}
	if limit > 0 {
		rec(-1)
	}
	return out
}

func head(a [][]int, n int) [][]int {
	if len(a) > n {
		return a[:n]
	}
	return a
}

func selfCheckFirst() error {
	for _, d := range [][]int{{}, {1}, {0}, {3}, {2, 3}, {3, 0, 2}, {2, 2, 2}, {1, 1, 1, 1}, {4, 1, 3}, {2, 2, 2, 2, 2}} {
		full := Product(d)
		for _, limit := range []int{1, 5, 1000} {
			if a := FirstProduct(d, limit); !same(a, head(full, limit)) {
				return fmt.Errorf("FirstProduct(%v,%d) = %v", d, limit, a)
			}
		}
		for salt := 0; salt < 6; salt++ {
			pred := func(p []int) bool {
				h := salt*613 + 5
				for _, v := range p {
					h = (h*43 + v + 1) % 1000003
				}
				return h%3 != 0
			}
			want := FilterPrefixes(full, pred)
			if a := RestrictedProduct(d, pred, 0); !same(a, want) {
				return fmt.Errorf("RestrictedProduct(%v) and FilterPrefixes disagree for salt %d: %d vs %d objects", d, salt, len(a), len(want))
			}
			if a := RestrictedProduct(d, pred, 3); !same(a, head(want, 3)) {
				return fmt.Errorf("RestrictedProduct(%v, limit 3) for salt %d = %v", d, salt, a)
			}
		}
	}
	// the first tuples of a product with 2^64 elements are the binary numerals 0, 1, 2, ...
	two := make([]int, 64)
	for i := range two {
		two[i] = 2
	}
	for i, t := range FirstProduct(two, 40) {
		v := 0
		for _, b := range t {
			v = 2*v + b
		}
		if v != i || len(t) != 64 {
			return fmt.Errorf("FirstProduct(2^64)[%d] = %v", i, t)
		}
	}
	if a := FirstProduct([]int{1 << 40, 1 << 40}, 3); !same(a, [][]int{{0, 0}, {0, 1}, {0, 2}}) {
		return fmt.Errorf("FirstProduct(2^40,2^40) = %v", a)
	}
	for _, freq := range [][]int{{}, {0}, {2}, {1, 1}, {2, 1}, {2, 0, 2}, {1, 2, 3}, {3, 3}, {2, 2, 2}, {1, 1, 1, 1}} {
		full := MultisetPermutations(freq)
		for _, limit := range []int{1, 4, 1000} {
			if a := FirstMultisetPermutations(freq, limit); !same(a, head(full, limit)) {
				return fmt.Errorf("FirstMultisetPermutations(%v,%d) = %v", freq, limit, a)
			}
		}
	}
	for n := 0; n <= 7; n++ {
		full := RestrictedGrowthStrings(n)
		for _, limit := range []int{1, 6, 2000} {
			if a := FirstRestrictedGrowthStrings(n, limit); !same(a, head(full, limit)) {
				return fmt.Errorf("FirstRestrictedGrowthStrings(%d,%d) = %v", n, limit, a)
			}
		}
	}
	return nil
}

// Demonstration for C03 change 2 (preprune is no longer consulted for augmentations that fail the trivial degree test).
//
// Copy to graph/search/demo_test.go in the library and run from the repository root:
//
//	GOFLAGS=-mod=mod GOPROXY=off GOSUMDB=off GOTOOLCHAIN=local \
//	  go test -vet=off -count=1 -timeout 300s -run 'TestDemo' -v ./graph/search/
//
// TestDemoProperty checks the property C03 itself (brute force, n <= 7) and passes on both trees.
// TestDemoIncidentalPrepruneCalls pins the OLD number of calls of preprune and the OLD fact that preprune is shown
// every augmentation, including those whose new vertex is not a vertex of minimum degree; it passes on the clean tree
// and fails with the change.
package search_test

import (
	"fmt"
	"reflect"
	"testing"

	"github.com/Tom-Johnston/mamba/graph"
	"github.com/Tom-Johnston/mamba/graph/search"
)

// numClasses[n] is the number of graphs on n vertices up to isomorphism (OEIS A000088).
var numClasses = []int{1, 1, 2, 4, 11, 34, 156, 1044}

func demoPerms(n int) [][]int {
	var out [][]int
	p := make([]int, n)
	for i := range p {
		p[i] = i
	}
	var rec func(k int)
	rec = func(k int) {
		if k == n {
			out = append(out, append([]int(nil), p...))
			return
		}
		for i := k; i < n; i++ {
			p[k], p[i] = p[i], p[k]
			rec(k + 1)
			p[k], p[i] = p[i], p[k]
		}
	}
	rec(0)
	return out
}

var demoPermCache = map[int][][]int{}

// demoKey is a brute force complete isomorphism invariant: the smallest adjacency bit mask over all relabellings.
func demoKey(g *graph.DenseGraph) uint32 {
	n := g.N()
	perms, ok := demoPermCache[n]
	if !ok {
		perms = demoPerms(n)
		demoPermCache[n] = perms
	}
	type pair struct{ i, j int }
	var edges []pair
	for j := 0; j < n; j++ {
		for i := 0; i < j; i++ {
			if g.IsEdge(i, j) {
				edges = append(edges, pair{i, j})
			}
		}
	}
	best := ^uint32(0)
	for _, p := range perms {
		x := uint32(0)
		for _, e := range edges {
			a, b := p[e.i], p[e.j]
			if a > b {
				a, b = b, a
			}
			x |= 1 << uint((b*(b-1))/2+a)
		}
		if x < best {
			best = x
		}
	}
	return best
}

// demoWellFormed checks that g is a consistent DenseGraph on n vertices.
func demoWellFormed(g *graph.DenseGraph, n int) error {
	if g.NumberOfVertices != n || g.N() != n {
		return fmt.Errorf("NumberOfVertices = %d, want %d", g.NumberOfVertices, n)
	}
	if len(g.Edges) != n*(n-1)/2 {
		return fmt.Errorf("len(Edges) = %d, want %d", len(g.Edges), n*(n-1)/2)
	}
	if len(g.DegreeSequence) != n {
		return fmt.Errorf("len(DegreeSequence) = %d, want %d", len(g.DegreeSequence), n)
	}
	deg := make([]int, n)
	m := 0
	for j := 0; j < n; j++ {
		for i := 0; i < j; i++ {
			if g.Edges[(j*(j-1))/2+i] != 0 {
				if !g.IsEdge(i, j) || !g.IsEdge(j, i) {
					return fmt.Errorf("IsEdge disagrees with Edges at %d,%d", i, j)
				}
				deg[i]++
				deg[j]++
				m++
			} else if g.IsEdge(i, j) || g.IsEdge(j, i) {
				return fmt.Errorf("IsEdge disagrees with Edges at %d,%d", i, j)
			}
		}
	}
	if m != g.NumberOfEdges || m != g.M() {
		return fmt.Errorf("NumberOfEdges = %d, want %d", g.NumberOfEdges, m)
	}
	if n > 0 && !reflect.DeepEqual(deg, g.DegreeSequence) {
		return fmt.Errorf("DegreeSequence = %v, want %v", g.DegreeSequence, deg)
	}
	return nil
}

// demoCollect runs all m shards and returns key -> number of times a graph of that class was yielded.
func demoCollect(t *testing.T, n, m int, mk func(a int) *search.GraphIterator) map[uint32]int {
	seen := map[uint32]int{}
	for a := 0; a < m; a++ {
		it := mk(a)
		for it.Next() {
			g := it.Value()
			if err := demoWellFormed(g, n); err != nil {
				t.Fatalf("n=%d a=%d m=%d: malformed graph: %v", n, a, m, err)
			}
			seen[demoKey(g)]++
		}
	}
	return seen
}

func hasTriangle(g *graph.DenseGraph) bool {
	n := g.N()
	for i := 0; i < n; i++ {
		for j := i + 1; j < n; j++ {
			if !g.IsEdge(i, j) {
				continue
			}
			for k := j + 1; k < n; k++ {
				if g.IsEdge(i, k) && g.IsEdge(j, k) {
					return true
				}
			}
		}
	}
	return false
}

func maxDegreeAbove2(g *graph.DenseGraph) bool {
	for _, d := range g.Degrees() {
		if d > 2 {
			return true
		}
	}
	return false
}

func never(g *graph.DenseGraph) bool { return false }

func TestDemoProperty(t *testing.T) {
	preds := map[string]func(*graph.DenseGraph) bool{"triangle": hasTriangle, "maxdeg>2": maxDegreeAbove2}
	for n := 0; n <= 7; n++ {
		ms := []int{1, 2, 3, 4, 7}
		if n == 7 {
			ms = []int{1, 3}
		}
		// The class representatives which do NOT get pruned, per predicate, computed from the m = 1 run.
		want := map[string]map[uint32]bool{}
		for _, m := range ms {
			seen := demoCollect(t, n, m, func(a int) *search.GraphIterator { return search.All(n, a, m) })
			if len(seen) != numClasses[n] {
				t.Fatalf("All n=%d m=%d: %d classes, want %d", n, m, len(seen), numClasses[n])
			}
			for k, c := range seen {
				if c != 1 {
					t.Fatalf("All n=%d m=%d: class %x yielded %d times", n, m, k, c)
				}
			}
			if m == 1 {
				for name, pred := range preds {
					want[name] = map[uint32]bool{}
					it := search.All(n, 0, 1)
					for it.Next() {
						if !pred(it.Value()) {
							want[name][demoKey(it.Value())] = true
						}
					}
				}
			}
			for name, pred := range preds {
				for _, place := range []string{"preprune", "prune"} {
					pred, place := pred, place
					seen := demoCollect(t, n, m, func(a int) *search.GraphIterator {
						if place == "preprune" {
							return search.WithPruning(n, a, m, pred, never)
						}
						return search.WithPruning(n, a, m, never, pred)
					})
					if len(seen) != len(want[name]) {
						t.Fatalf("WithPruning %s as %s n=%d m=%d: %d classes, want %d", name, place, n, m, len(seen), len(want[name]))
					}
					for k, c := range seen {
						if c != 1 || !want[name][k] {
							t.Fatalf("WithPruning %s as %s n=%d m=%d: class %x yielded %d times, wanted=%v", name, place, n, m, k, c, want[name][k])
						}
					}
				}
			}
		}
	}
}

// The OLD behaviour: preprune is called for every augmentation that is applied, prune for every canonical one.
func TestDemoIncidentalPrepruneCalls(t *testing.T) {
	oldPre := []int{1, 1, 3, 8, 22, 76, 352, 2590}
	oldPrune := []int{1, 1, 3, 7, 18, 52, 208, 1252}
	for n := 0; n <= 7; n++ {
		pre, pr, notMin, yielded := 0, 0, 0, 0
		it := search.WithPruning(n, 0, 1, func(g *graph.DenseGraph) bool {
			pre++
			d := g.Degrees()
			for _, x := range d {
				if x < d[len(d)-1] {
					notMin++
					break
				}
			}
			return false
		}, func(g *graph.DenseGraph) bool { pr++; return false })
		for it.Next() {
			yielded++
		}
		t.Logf("n=%d: %d graphs, preprune called %d times (%d times with a new vertex not of minimum degree), prune called %d times", n, yielded, pre, notMin, pr)
		if yielded != numClasses[n] {
			t.Errorf("n=%d: %d graphs, want %d (this would be a real bug)", n, yielded, numClasses[n])
		}
		if pre != oldPre[n] {
			t.Errorf("n=%d: preprune called %d times, the old behaviour was %d", n, pre, oldPre[n])
		}
		if pr != oldPrune[n] {
			t.Errorf("n=%d: prune called %d times, the old behaviour was %d", n, pr, oldPrune[n])
		}
		if n >= 3 && notMin == 0 {
			t.Errorf("n=%d: preprune was never shown an augmentation whose new vertex is not of minimum degree; the old behaviour showed it every augmentation", n)
		}
	}
}

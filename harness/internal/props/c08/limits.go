package c08

// Workload part 7: grammar-aware hostile strings that drive the decoders'
// internal counters to their numeric limits.
//
// A sparse6 reader keeps three numbers: the declared n (read from a 1-, 4- or
// 8-byte size header), the width k of a vertex number (bits of n-1; for n = 0
// formats.txt does not define it and a reader that computes bits(n-1) in
// unsigned machine arithmetic gets the full word: 32 or 64) and the current
// vertex v, which a pair (b, x) increments (b = 1) or sets (x > v).  Random or
// mutated bytes never move these far: the strings here are built pair by pair
// from the grammar, with x taken from the boundary values of a w-bit number
// (0, 1, n-1, n, 0111.., 1000.., 111..0, 111..1) and with runs of set
// increment bits that carry v across n, 2^k, 2^8, 2^16, 2^31, 2^32, 2^63 and
// 2^64.  A graph6 reader keeps n and the number of edge bits: every header
// form of a small n is combined with every body length around the needed one
// and with all-ones / all-zeros data.
//
// Nothing here knows what the library does with such a string: the harness
// follows v by the rule of formats.txt in unbounded arithmetic only to report
// which limits a string reaches (observation counters); the verdict is the one
// of judge (no panic, no budget event, N() = declared n, well formed,
// re-encode cycle).

import (
	"fmt"
	"strings"

	"verif/internal/engine"
	"verif/internal/oracle/codec"
)

// group is one pair (b, x) of a sparse6 stream.
type group struct {
	b int
	x uint64
}

// bitWriter packs bits six to a byte, high bit first, + 63.
type bitWriter struct {
	out []byte
	cur int
	nb  int
}

func (w *bitWriter) bit(b int) {
	w.cur = w.cur<<1 | (b & 1)
	w.nb++
	if w.nb == 6 {
		w.out = append(w.out, byte(w.cur+63))
		w.cur, w.nb = 0, 0
	}
}

// number writes x as a width-bit number; bits above the 64th repeat the top bit of x.
func (w *bitWriter) number(x uint64, width int) {
	for j := width - 1; j >= 0; j-- {
		if j >= 64 {
			w.bit(int(x >> 63))
		} else {
			w.bit(int(x >> uint(j) & 1))
		}
	}
}

// pad fills the last byte with the given bit.
func (w *bitWriter) pad(fill int) {
	for w.nb != 0 {
		w.bit(fill)
	}
}

// pairString returns prefix ':' N(n) and the packed pairs.
func pairString(prefix string, hdr []byte, w int, gs []group, fill int) string {
	bw := &bitWriter{out: make([]byte, 0, len(prefix)+1+len(hdr)+(len(gs)*(w+1)+5)/6)}
	bw.out = append(bw.out, prefix...)
	bw.out = append(bw.out, ':')
	bw.out = append(bw.out, hdr...)
	for _, g := range gs {
		bw.bit(g.b)
		bw.number(g.x, w)
	}
	bw.pad(fill)
	return string(bw.out)
}

func maskOf(w int) uint64 {
	if w >= 64 {
		return ^uint64(0)
	}
	return uint64(1)<<uint(w) - 1
}

// boundaryValues are the w-bit numbers at which signed / unsigned / k-bit
// arithmetic changes behaviour, for a declared n.
func boundaryValues(n uint64, w int) []uint64 {
	mask := maskOf(w)
	var out []uint64
	for _, x := range []uint64{0, 1, n - 1, n, mask >> 1, mask>>1 + 1, mask, mask - 1} {
		x &= mask
		dup := false
		for _, y := range out {
			dup = dup || y == x
		}
		if !dup {
			out = append(out, x)
		}
	}
	return out
}

// wide is a number below 2^65: the current vertex in unbounded arithmetic.
type wide struct {
	hi bool
	lo uint64
}

func (a wide) less(x uint64) bool { return !a.hi && a.lo < x }
func (a wide) is(p int) bool { // a == 2^p - 1 ?
	if p == 64 {
		return !a.hi && a.lo == ^uint64(0)
	}
	return !a.hi && a.lo == uint64(1)<<uint(p)-1
}
func (a wide) atLeastPow(p int) bool { // a >= 2^p
	if p == 64 {
		return a.hi
	}
	return a.hi || a.lo >= uint64(1)<<uint(p)
}

var limitPowers = []int{8, 16, 31, 32, 63, 64}

// reach follows the current vertex through the pairs by the rule of
// formats.txt (if b then v++; if x > v then v = x) and returns the limits the
// stream reaches, as observation counter names.
func reach(n uint64, w int, gs []group) (flags []string, longestRun int) {
	seen := map[string]bool{}
	add := func(f string) {
		if !seen[f] {
			seen[f] = true
			flags = append(flags, f)
		}
	}
	var v wide
	run := 0
	for _, g := range gs {
		for _, p := range limitPowers {
			if v.atLeastPow(p) {
				add(fmt.Sprintf("pairs_read_while_current_vertex>=2^%d", p))
			}
		}
		if g.b == 1 {
			for _, p := range limitPowers {
				if v.is(p) {
					add(fmt.Sprintf("current_vertex_incremented_across_2^%d", p))
				}
			}
			if n > 0 && !v.hi && v.lo == n-1 {
				add("current_vertex_incremented_across_n")
			}
			if w > 0 && w < 64 && v.is(w) {
				add("current_vertex_incremented_across_2^k")
			}
			if v.lo == ^uint64(0) {
				v = wide{hi: true}
			} else {
				v.lo++
			}
			run++
			if run > longestRun {
				longestRun = run
			}
		} else {
			run = 0
		}
		if v.less(g.x) {
			v = wide{lo: g.x}
			if g.x >= n {
				add("current_vertex_set_beyond_n_by_a_vertex_number")
			}
			if g.x>>63 == 1 {
				add("current_vertex_set_to>=2^63_by_a_vertex_number")
			}
		}
	}
	return flags, longestRun
}

// judgePairs builds the string, gives it to Sparse6Decode and records what it reaches.
func (m *mon) judgePairs(prefix string, n int, hdr []byte, w int, gs []group, fill int, origin string) {
	s := pairString(prefix, hdr, w, gs, fill)
	out := m.judgeOutcome(s6, s, origin)
	if out == outSkipped {
		return
	}
	c := m.c
	c.Obs("limits:sparse6_strings", 1)
	c.Obs(fmt.Sprintf("limits:vertex_number_width=%d", w), 1)
	if n <= 2 || n == MaxN {
		nn := fmt.Sprint(n)
		if n == MaxN {
			nn = "largest_accepted"
		}
		c.Obs(fmt.Sprintf("limits:declared_n=%s:size_header_bytes=%d", nn, len(hdr)), 1)
	}
	flags, run := reach(uint64(n), w, gs)
	for _, f := range flags {
		c.Obs("limits:"+f, 1)
		if out == outGraph {
			c.Obs("limits:decoder_returned_a_graph:"+f, 1)
		}
	}
	c.ObsMax("limits:longest_run_of_set_increment_bits(pairs)", run)
}

// widthsFor returns the widths of a vertex number a reader may use for a declared n.
func widthsFor(n int) []int {
	if n == 0 {
		// bits(n-1) is not defined for n = 0: 64 or 32 by unsigned wrap-around, 0 by the loop of BitsFor; neighbours of those
		return []int{64, 32, 0, 1, 2, 8, 16, 31, 33, 63, 65}
	}
	return []int{codec.BitsFor(n)}
}

// limitExhaustive: every sequence of 1..maxLen pairs (b, x) with x a boundary value.
func (m *mon) limitExhaustive(prefix string, n int, hdr []byte, w, maxLen int, origin string) int {
	xs := boundaryValues(uint64(n), w)
	var alpha []group
	for b := 0; b <= 1; b++ {
		for _, x := range xs {
			alpha = append(alpha, group{b, x})
		}
	}
	count := 0
	gs := make([]group, 0, maxLen)
	var rec func()
	rec = func() {
		if len(gs) > 0 {
			fill := 1
			if count%4 == 3 {
				fill = 0
			}
			m.judgePairs(prefix, n, hdr, w, gs, fill, origin)
			count++
		}
		if len(gs) == maxLen || m.c.Stopped() {
			return
		}
		for _, g := range alpha {
			gs = append(gs, g)
			rec()
			gs = gs[:len(gs)-1]
		}
	}
	rec()
	return len(alpha)
}

// limitTargets are the values the current vertex is carried across.
func limitTargets(n uint64, w int) []uint64 {
	mask := maskOf(w)
	var out []uint64
	cands := []uint64{n, n + 1, mask + 1 /* 2^w, 0 stands for 2^64 */, mask>>1 + 1, 1 << 7, 1 << 8, 1 << 15, 1 << 16, 1 << 31, 1 << 32, 1 << 63}
	for _, t := range cands {
		// reachable by a jump to t-1 (a w-bit number) followed by increments
		if t-1 > mask || (t == 0 && w < 64) {
			continue
		}
		out = append(out, t)
	}
	return out
}

// limitWalk: jump just below a limit, run across it with set increment bits, then a few more pairs.
func (m *mon) limitWalk(r *engine.Rng, prefix string, n int, hdr []byte, w int, origin string) {
	mask := maskOf(w)
	xs := boundaryValues(uint64(n), w)
	ts := limitTargets(uint64(n), w)
	var gs []group
	var v wide // followed only to pick numbers next to the current vertex
	push := func(b int, x uint64) {
		x &= mask
		gs = append(gs, group{b, x})
		if b == 1 {
			if v.lo == ^uint64(0) {
				v = wide{hi: true}
			} else {
				v.lo++
			}
		}
		if v.less(x) {
			v = wide{lo: x}
		}
	}
	rounds := 1 + r.Intn(2)
	for round := 0; round < rounds; round++ {
		delta := uint64(1 + r.Intn(3))
		if len(ts) > 0 {
			t := ts[r.Intn(len(ts))]
			if t != 0 && t < delta {
				delta = t
			}
			b := 0
			if r.Bool(0.3) {
				b = 1
			}
			push(b, t-delta)
		}
		style := r.Intn(9)
		steps := int(delta) + r.Intn(4)
		for i := 0; i < steps; i++ {
			next := v.lo + 1 // the current vertex after the increment
			var x uint64
			st := style
			if st == 8 {
				st = r.Intn(8)
			}
			switch st {
			case 0:
				x = 0
			case 1:
				x = next // a loop, as long as next fits in w bits
			case 2:
				x = next - 1
			case 3:
				x = mask
			case 4:
				x = mask>>1 + 1 // 1000..0
			case 5:
				x = mask >> 1 // 0111..1
			case 6:
				x = next + 1
			default:
				x = xs[r.Intn(len(xs))]
			}
			push(1, x)
		}
		tail := r.Intn(4)
		for i := 0; i < tail; i++ {
			b := 0
			if r.Bool(0.5) {
				b = 1
			}
			x := xs[r.Intn(len(xs))]
			if r.Bool(0.4) {
				x = v.lo - 1 + uint64(r.Intn(4))
			}
			push(b, x)
		}
	}
	fill := r.Intn(2)
	m.judgePairs(prefix, n, hdr, w, gs, fill, origin)
}

// limitRun: an optional jump to start, then `steps` pairs with the increment bit set.
func (m *mon) limitRun(n int, hdr []byte, w int, hasJump bool, start uint64, steps, style int) {
	mask := maskOf(w)
	gs := make([]group, 0, steps+1)
	v := uint64(0)
	org := fmt.Sprintf("%s of n=%d, %d pairs (1, x) of 1+%d bits, style %d", hdrName(hdr), n, steps, w, style)
	if hasJump {
		start &= mask
		gs = append(gs, group{0, start})
		v = start
		org += fmt.Sprintf(", after a jump to %#x", start)
	}
	for i := 0; i < steps; i++ {
		v++
		var x uint64
		switch style {
		case 0:
			x = 0
		case 1:
			x = mask
		case 2:
			x = v & mask // a loop until v outgrows w bits, then the low bits of v
		default:
			x = mask>>1 + 1
		}
		gs = append(gs, group{1, x})
	}
	m.judgePairs("", n, hdr, w, gs, 1, org)
}

// limitNs are the declared n >= 1 of part 7: both sides of every change of k, of the change of the header form and the largest accepted n.
func limitNs(c *engine.Ctx) []int {
	if c.Thorough() {
		return []int{1, 2, 3, 4, 5, 8, 9, 16, 17, 32, 33, 62, 63, 64, 65, 128, 129, 256, 257, 512, 513, 1000, 1024, 1025, 2048, 2049, 4095, 4096}
	}
	return []int{1, 2, 3, 4, 5, 8, 9, 16, 17, 32, 33, 62, 63, 64, 65, 129, 257, 1000, 2049, 4095, 4096}
}

func hdrName(h []byte) string { return fmt.Sprintf("%d-byte size header", len(h)) }

func limitUnits(c *engine.Ctx) {
	// 7a. declared n = 0: every short sequence of boundary pairs, every width a reader may use, every header form
	for hi := 0; hi < 3; hi++ {
		hi := hi
		for _, w := range widthsFor(0) {
			w := w
			// the word widths in full (4 pairs behind the canonical header in quick, behind every header in thorough)
			maxLen := 3
			if (w == 64 && (hi == 0 || c.Thorough())) || (w == 32 && c.Thorough()) {
				maxLen = 4
			}
			if w != 64 && w != 32 && hi > 0 && !c.Thorough() {
				maxLen = 2
			}
			if w == 0 {
				maxLen = 8 // single bits (all 12-bit streams are part 5)
			}
			unit(c, fmt.Sprintf("limits/sparse6/exhaustive/n=0/width=%d/header=%d", w, hi), func(m *mon) {
				h := headers(0)[hi]
				org := fmt.Sprintf("all sequences of <= %d boundary pairs of 1+%d bits behind the %s of n=0", maxLen, w, hdrName(h))
				a := m.limitExhaustive("", 0, h, w, maxLen, org)
				if w == 64 || w == 32 {
					m.limitExhaustive(codec.S6Header, 0, h, w, 2, org+" and the >>sparse6<< header")
				}
				c.Obs(fmt.Sprintf("exhaustive:all sequences of <= %d sparse6 pairs over %d boundary pairs (b, x) of 1+%d bits for declared n=0, %s", maxLen, a, w, hdrName(h)), 1)
			})
		}
	}
	// 7b. n >= 1: the same with the width k the format defines.  What a string costs the harness grows with n
	// (the result is read back, re-encoded and decoded again): short sequences only for n >= 32 in quick.
	for _, n := range limitNs(c) {
		n := n
		unit(c, fmt.Sprintf("limits/sparse6/exhaustive/n=%d", n), func(m *mon) {
			w := codec.BitsFor(n)
			for hi, h := range headers(n) {
				canonicalHdr := len(h) == len(codec.SizeHeader(n))
				var maxLen int
				switch {
				case w == 0:
					maxLen = 8 // single bits (all 12-bit streams are part 5)
				case n <= 17:
					maxLen = 2
					if canonicalHdr || n <= 2 {
						maxLen = c.Pick(3, 4)
					}
				case n <= 65:
					maxLen = c.Pick(2, 3)
				default:
					maxLen = c.Pick(1, 2)
					if canonicalHdr {
						maxLen = c.Pick(2, 3)
					}
				}
				org := fmt.Sprintf("all sequences of <= %d boundary pairs of 1+%d bits behind the %s of n=%d", maxLen, w, hdrName(h), n)
				a := m.limitExhaustive("", n, h, w, maxLen, org)
				if hi == 0 {
					m.limitExhaustive(codec.S6Header, n, h, w, c.Pick(1, 2), org+" and the >>sparse6<< header")
				}
				c.Obs(fmt.Sprintf("exhaustive:all sequences of <= %d sparse6 pairs over %d boundary pairs (b, x) of 1+%d bits for declared n=%d, %s", maxLen, a, w, n, hdrName(h)), 1)
			}
		})
	}
	// 7c. seeded walks of the current vertex across the limits
	type walkCase struct{ n, w, cnt int }
	var walks []walkCase
	for _, w := range widthsFor(0) {
		cnt := c.Pick(300, 6000)
		if w == 64 {
			cnt = c.Pick(6000, 120000)
		} else if w == 32 {
			cnt = c.Pick(1500, 30000)
		}
		walks = append(walks, walkCase{0, w, cnt})
	}
	for _, n := range limitNs(c) {
		cnt := c.Pick(500, 10000)
		if n > 65 {
			cnt = c.Pick(60, 2000) // the harness reads every result back: O(n^2) IsEdge calls up to n = 300
		}
		walks = append(walks, walkCase{n, codec.BitsFor(n), cnt})
	}
	for _, wc := range walks {
		wc := wc
		for blk := 0; blk*1500 < wc.cnt; blk++ {
			blk := blk
			unit(c, fmt.Sprintf("limits/sparse6/walks/n=%d/width=%d/%d", wc.n, wc.w, blk), func(m *mon) {
				hs := headers(wc.n)
				for i := blk * 1500; i < (blk+1)*1500 && i < wc.cnt; i++ {
					r := c.Rand("limit-walk", (wc.n*100+wc.w)*1000000+i)
					h := hs[i%len(hs)]
					prefix := ""
					if i%8 == 7 {
						prefix = codec.S6Header
					}
					m.limitWalk(r, prefix, wc.n, h, wc.w, fmt.Sprintf("seeded walk #%d of the current vertex across a limit, n=%d, pairs of 1+%d bits, %s", i, wc.n, wc.w, hdrName(h)))
				}
			})
		}
	}
	// 7d. long runs of set increment bits
	unit(c, "limits/sparse6/long-runs/same-byte", func(m *mon) {
		// width-agnostic: one data byte repeated ('~' = every bit set: increments and maximal numbers only)
		ns := []int{0, 1, 2, 3, 4, 63, MaxN}
		for _, n := range ns {
			for _, h := range headers(n) {
				for _, by := range []byte{'~', '?', '_', '^', 'U', 'j'} {
					lens := []int{11, 43, 44, 100}
					if by == '~' || by == '_' || c.Thorough() {
						lens = append(lens, 10923, 10924, 11000)
					}
					if by == '~' && c.Thorough() {
						lens = append(lens, 1<<20)
					}
					for _, L := range lens {
						s := ":" + string(h) + strings.Repeat(string([]byte{by}), L)
						if m.judgeOutcome(s6, s, fmt.Sprintf("%s of n=%d + %d bytes %q", hdrName(h), n, L, by)) != outSkipped {
							c.Obs("limits:sparse6_strings", 1)
							c.Obs("limits:one_data_byte_repeated", 1)
							if by == '~' {
								c.ObsMax("limits:longest_all_ones_stream(bits)", 6*L)
							}
						}
					}
				}
			}
		}
	})
	for _, n := range append([]int{0}, limitNs(c)...) {
		n := n
		unit(c, fmt.Sprintf("limits/sparse6/long-runs/n=%d", n), func(m *mon) {
			for _, w := range widthsFor(n) {
				if n == 0 && w != 64 && w != 32 && w != 0 && w != 8 {
					continue
				}
				mask := maskOf(w)
				for hi, h := range headers(n) {
					for style := 0; style < 4; style++ {
						// 2^16 can only be reached by increments when k < 16: a few n, canonical header
						deep := hi == 0 && (n <= 3 || n == MaxN || c.Thorough()) && (style < 2 || n <= 3 || c.Thorough())
						m.limitRun(n, h, w, false, 0, 260, style)
						done := map[uint64]bool{}
						for _, t := range append(limitTargets(uint64(n), w), 1<<8, 1<<16) {
							if done[t] {
								continue
							}
							done[t] = true
							switch {
							case t-3 <= mask && (t >= 3 || (t == 0 && w >= 64)): // t = 0 stands for 2^64
								m.limitRun(n, h, w, true, t-3, 300, style)
							case t > mask && (t-mask <= 1000 || (deep && t-mask <= 70000)):
								m.limitRun(n, h, w, w > 0, mask, int(t-mask)+4, style)
							}
						}
					}
				}
			}
		})
	}
	// 7e. graph6: every header form of small n x every body length around the needed one x extreme data
	for _, n := range []int{0, 1, 2, 3, 4, 5, 12, 62, 63, 64} {
		n := n
		unit(c, fmt.Sprintf("limits/graph6/n=%d", n), func(m *mon) {
			need := (n*(n-1)/2 + 5) / 6
			for _, h := range headers(n) {
				for _, fill := range []byte{'?', '~', '_', '@'} {
					for L := 0; L <= need+2; L++ {
						if need > 40 && L > 3 && L < need-3 && L%17 != 0 {
							continue
						}
						body := strings.Repeat(string([]byte{fill}), L)
						org := fmt.Sprintf("%s of n=%d + %d data bytes %q (%d needed)", hdrName(h), n, L, fill, need)
						out := m.judgeOutcome(g6, string(h)+body, org)
						if L == need && fill == '~' {
							m.judgeOutcome(g6, codec.G6Header+string(h)+body, org+" behind >>graph6<<")
						}
						if out != outSkipped {
							c.Obs("limits:graph6_strings", 1)
							if n <= 2 {
								c.Obs(fmt.Sprintf("limits:graph6:declared_n=%d:size_header_bytes=%d", n, len(h)), 1)
							}
							if out == outGraph && fill == '~' && n >= 2 {
								c.Obs("limits:graph6:all_ones_data_accepted", 1)
							}
						}
					}
				}
			}
		})
	}
	if c.Thorough() {
		unit(c, "limits/graph6/all-ones/n=1000", func(m *mon) {
			n := 1000
			need := (n*(n-1)/2 + 5) / 6
			if m.judgeOutcome(g6, string(codec.SizeHeader(n))+strings.Repeat("~", need), "size header of n=1000 + all-ones data") == outGraph {
				c.Obs("limits:graph6:all_ones_data_accepted", 1)
			}
		})
	}
}

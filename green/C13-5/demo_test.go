// Demonstration for C13 change 5 (Search unwinds the searchers when a searcher panics).
//
// Run from the repository root (public API only):
//
//	cp /tmp/green-out/C13/5/demo_test.go dawg/zz_c13_demo5_test.go
//	GOFLAGS=-mod=mod GOPROXY=off GOSUMDB=off GOTOOLCHAIN=local go test -vet=off -count=1 -timeout 120s -run 'TestC13Demo5' -v ./dawg
//	rm dawg/zz_c13_demo5_test.go
//
// TestC13Demo5Property checks the property itself (exact words, ranks, order, repeatability) and passes on
// both trees.  TestC13Demo5Incidental asserts the OLD behaviour on the error path (a searcher panics in the
// middle of a search: nobody gets another call, the other searcher is left in the middle of a word): it
// PASSES on the clean tree and FAILS with the change.
package dawg_test

import (
	"fmt"
	"reflect"
	"sort"
	"testing"

	"github.com/Tom-Johnston/mamba/dawg"
)

var c13d5Words = []string{"", "bat", "bit", "but", "cat", "cats", "cot", "cut", "cuts", "dot", "tab", "tub"}

func c13d5Dawg(t *testing.T) *dawg.Dawg {
	ws := append([]string(nil), c13d5Words...)
	sort.Strings(ws)
	bs := make([][]byte, len(ws))
	for i := range ws {
		bs[i] = []byte(ws[i])
	}
	d, err := dawg.New(bs)
	if err != nil {
		t.Fatal(err)
	}
	return d
}

func c13d5Pattern(pat string, blank byte) (words []string, ranks []int) {
	ws := append([]string(nil), c13d5Words...)
	sort.Strings(ws)
	for r, w := range ws {
		if len(w) != len(pat) {
			continue
		}
		ok := true
		for i := range w {
			if pat[i] != blank && pat[i] != w[i] {
				ok = false
			}
		}
		if ok {
			words = append(words, w)
			ranks = append(ranks, r)
		}
	}
	return
}

func c13d5Strings(b [][]byte) (s []string) {
	for _, w := range b {
		s = append(s, string(w))
	}
	return
}

// bomb accepts everything and panics on its n-th AllowStep call. It records every call it receives.
type bomb struct {
	n     int
	asked int
	trace []string
}

func (b *bomb) AllowStep(c byte) bool {
	b.asked++
	b.trace = append(b.trace, "AllowStep")
	if b.asked == b.n {
		b.trace = append(b.trace, "PANIC")
		panic("bomb")
	}
	return true
}
func (b *bomb) Step(c byte)     { b.trace = append(b.trace, "Step") }
func (b *bomb) Backstep()       { b.trace = append(b.trace, "Backstep") }
func (b *bomb) AllowWord() bool { b.trace = append(b.trace, "AllowWord"); return true }
func (b *bomb) Chosen()         { b.trace = append(b.trace, "Chosen") }

func TestC13Demo5Property(t *testing.T) {
	d := c13d5Dawg(t)
	for _, pat := range []string{"c?t", "?u?", "???", "cat?", "", "x??", "c?ts"} {
		wantW, wantR := c13d5Pattern(pat, '?')
		ps := dawg.NewPatternSearcher([]byte(pat), '?')
		for rep := 0; rep < 2; rep++ {
			w, r := d.Search(ps)
			if !reflect.DeepEqual(c13d5Strings(w), wantW) || !(len(r) == 0 && len(wantR) == 0 || reflect.DeepEqual(r, wantR)) {
				t.Fatalf("pattern %q rep %d: got %q %v want %q %v", pat, rep, c13d5Strings(w), r, wantW, wantR)
			}
		}
		// with a second searcher: an anagram searcher made of blanks only accepts every word of that length
		as := dawg.NewAnagramSearcher([]byte("???"), '?')
		w, r := d.Search(ps, as)
		var ww []string
		var rr []int
		if len(pat) == 3 {
			ww, rr = wantW, wantR
		}
		if !reflect.DeepEqual(c13d5Strings(w), ww) || !(len(r) == 0 && len(rr) == 0 || reflect.DeepEqual(r, rr)) {
			t.Fatalf("pattern %q with anagram ???: got %q %v want %q %v", pat, c13d5Strings(w), r, ww, rr)
		}
	}
}

func TestC13Demo5Incidental(t *testing.T) {
	d := c13d5Dawg(t)
	ps := dawg.NewPatternSearcher([]byte("c?t"), '?')
	b := &bomb{n: 6}
	var recovered interface{}
	func() {
		defer func() { recovered = recover() }()
		d.Search(ps, b)
	}()
	if recovered != "bomb" {
		t.Fatalf("the panic of the searcher did not reach the caller unchanged: %v", recovered)
	}
	fmt.Println("trace of the panicking searcher:", b.trace)
	// OLD behaviour 1: the panic is the last thing the searcher sees.
	if last := b.trace[len(b.trace)-1]; last != "PANIC" {
		t.Errorf("calls after the panic: trace ends with %q, used to end with PANIC", last)
	}
	// OLD behaviour 2: the pattern searcher is left in the middle of a word ("c" has been stepped), so it
	// accepts 'a' as the next letter (the second position of the pattern is a blank); at the start it would refuse it.
	if !ps.AllowStep('a') {
		t.Errorf("the pattern searcher is back at the start after the panic; it used to be left one letter into the word")
	}
}

// Demo for C02, change 1: the edgeless shortcut returns another generating set.
//
// Run (from the root of the library checkout, public API only):
//
//	cp demo_test.go graph/zz_c02_demo1_test.go
//	GOFLAGS=-mod=mod GOPROXY=off GOSUMDB=off GOTOOLCHAIN=local \
//	  go test -vet=off -count=1 -timeout 120s -run 'TestC02Demo1' -v ./graph/
//	rm graph/zz_c02_demo1_test.go
//
// TestC02Demo1Property checks the property itself (orbits = orbits of Aut, every
// generator is a class-preserving automorphism, the generators generate all of
// Aut, reuse of storage/partition gives the same answer as a fresh call) on
// edgeless graphs and passes BEFORE and AFTER the change.
//
// TestC02Demo1IncidentalOld asserts the OLD incidental behaviour (for each cell of
// size k>=3 exactly two generators: the k-cycle and one transposition, i.e. at most
// 2 generators per cell). It PASSES on the clean tree and FAILS with the change
// (which returns the k-1 transpositions of consecutive cell elements instead).
package graph_test

import (
	"fmt"
	"reflect"
	"sort"
	"testing"

	"github.com/Tom-Johnston/mamba/disjoint"
	"github.com/Tom-Johnston/mamba/graph"
)

func c02d1Perms(n int) [][]int {
	var out [][]int
	p := make([]int, n)
	for i := range p {
		p[i] = i
	}
	var rec func(k int)
	rec = func(k int) {
		if k == n {
			out = append(out, append([]int(nil), p...))
			return
		}
		for i := k; i < n; i++ {
			p[k], p[i] = p[i], p[k]
			rec(k + 1)
			p[k], p[i] = p[i], p[k]
		}
	}
	rec(0)
	return out
}

func c02d1PartKey(sets [][]int) string {
	s := make([]string, len(sets))
	for i := range sets {
		c := append([]int(nil), sets[i]...)
		sort.Ints(c)
		s[i] = fmt.Sprint(c)
	}
	sort.Strings(s)
	return fmt.Sprint(s)
}

// c02d1Check verifies the statement of C02 by brute force.
func c02d1Check(g graph.Graph, classes [][]int, orbits disjoint.Set, gens [][]int) error {
	n := g.N()
	cls := make([]int, n)
	for i, c := range classes {
		for _, v := range c {
			cls[v] = i
		}
	}
	auts := map[string]bool{}
	uf := disjoint.New(n)
	for _, p := range c02d1Perms(n) {
		ok := true
		for i := 0; i < n && ok; i++ {
			if cls[p[i]] != cls[i] {
				ok = false
			}
			for j := i + 1; j < n && ok; j++ {
				if g.IsEdge(i, j) != g.IsEdge(p[i], p[j]) {
					ok = false
				}
			}
		}
		if ok {
			auts[fmt.Sprint(p)] = true
			for i := range p {
				uf.Union(i, p[i])
			}
		}
	}
	oc := append(disjoint.Set(nil), orbits...)
	if c02d1PartKey(oc.Sets()) != c02d1PartKey(uf.Sets()) {
		return fmt.Errorf("orbits %v, want %v", oc.Sets(), uf.Sets())
	}
	id := make([]int, n)
	for i := range id {
		id[i] = i
	}
	seen := map[string]bool{fmt.Sprint(id): true}
	queue := [][]int{id}
	for _, gen := range gens {
		if !auts[fmt.Sprint(gen)] {
			return fmt.Errorf("generator %v is not a (class-preserving) automorphism", gen)
		}
	}
	for len(queue) > 0 {
		p := queue[0]
		queue = queue[1:]
		for _, gen := range gens {
			q := make([]int, n)
			for i := range q {
				q[i] = gen[p[i]]
			}
			if k := fmt.Sprint(q); !seen[k] {
				seen[k] = true
				queue = append(queue, q)
			}
		}
	}
	if len(seen) != len(auts) {
		return fmt.Errorf("generators %v generate a group of order %d, |Aut| = %d", gens, len(seen), len(auts))
	}
	return nil
}

var c02d1Cases = []struct {
	n       int
	classes [][]int
}{
	{1, nil}, {2, nil}, {3, nil}, {4, nil}, {5, nil}, {6, nil},
	{5, [][]int{{4, 0, 2}, {1, 3}}},
	{6, [][]int{{5}, {0, 1, 2, 3}, {4}}},
	{6, [][]int{{3, 1, 5, 0, 2, 4}}},
	{7, [][]int{{6, 5, 4}, {0, 1, 2, 3}}},
}

func TestC02Demo1Property(t *testing.T) {
	st := graph.NewStorage(7, 21)
	op := graph.NewOrderedPartition(7, 21, nil)
	for _, c := range c02d1Cases {
		g := graph.NewDense(c.n, nil)
		perm, orb, gens := graph.CanonicalIsomorphFull(g, c.classes)
		if err := c02d1Check(g, c.classes, orb, gens); err != nil {
			t.Errorf("fresh n=%d classes=%v: %v", c.n, c.classes, err)
		}
		// Reused storage and partition: same permutation, orbits and generators as the fresh call.
		op.Reset(c.n, 0, c.classes)
		nb := make([][]int, c.n)
		for i := range nb {
			nb[i] = g.Neighbours(i)
		}
		perm2, orb2, gens2 := graph.CanonicalIsomorphAllocated(c.n, 0, nb, op, st, new(graph.CanonicalOptions))
		if err := c02d1Check(g, c.classes, orb2, gens2); err != nil {
			t.Errorf("reused n=%d classes=%v: %v", c.n, c.classes, err)
		}
		if !reflect.DeepEqual(perm, perm2) || c02d1PartKey(orb.Sets()) != c02d1PartKey(orb2.Sets()) || len(gens) != len(gens2) {
			t.Errorf("reused result differs from fresh result n=%d classes=%v", c.n, c.classes)
		}
		for i := range gens {
			if i < len(gens2) && !reflect.DeepEqual(gens[i], gens2[i]) {
				t.Errorf("reused generators differ from fresh generators n=%d classes=%v", c.n, c.classes)
			}
		}
	}
}

func TestC02Demo1IncidentalOld(t *testing.T) {
	// OLD incidental behaviour: the edgeless graph on 5 vertices gets the 5-cycle and one transposition.
	_, _, gens := graph.CanonicalIsomorphFull(graph.NewDense(5, nil), nil)
	t.Logf("generators for the edgeless graph on 5 vertices: %v", gens)
	want := [][]int{{1, 2, 3, 4, 0}, {1, 0, 2, 3, 4}}
	if !reflect.DeepEqual(gens, want) {
		t.Errorf("generators = %v, the old tree returned %v", gens, want)
	}
	// OLD incidental behaviour: never more than two generators per vertex class.
	_, _, gens = graph.CanonicalIsomorphFull(graph.NewDense(7, nil), [][]int{{6, 5, 4}, {0, 1, 2, 3}})
	t.Logf("generators for the edgeless graph on 7 vertices with classes {4,5,6},{0,1,2,3}: %v", gens)
	if len(gens) != 4 {
		t.Errorf("%d generators, the old tree returned 4 (a cycle and a transposition for each class)", len(gens))
	}
}

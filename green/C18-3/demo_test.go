// Demo for C18 change 3 (Sets and SmallestRep in one pass with a table indexed by root; exact capacities; nil for n = 0).
//
// Run (from the root of the library worktree):
//
//	cp /tmp/green-out/C18/3/demo_test.go disjoint/zz_demo_test.go
//	GOFLAGS=-mod=mod GOPROXY=off GOSUMDB=off GOTOOLCHAIN=local go test -vet=off -count=1 -timeout 120s -run 'TestDemo' -v ./disjoint/
//	rm disjoint/zz_demo_test.go
//
// TestDemoProperty checks the property C18 itself and passes before and after the change.
// TestDemoIncidentalOld asserts the OLD incidental behaviour (Sets() of an empty Set is an empty non-nil slice,
// the capacities of the slices returned by Sets() are those of append's growth): it passes on the clean tree
// and fails with the change. It also logs how long Sets/SmallestRep take on 6000 singletons (old: quadratic).
package disjoint_test

import (
	"math/rand"
	"reflect"
	"sort"
	"testing"
	"time"

	"github.com/Tom-Johnston/mamba/disjoint"
)

// model is a naive reference: comp[i] is a component label.
type model []int

func newModel(n int) model {
	m := make(model, n)
	for i := range m {
		m[i] = i
	}
	return m
}

func (m model) union(x, y int) {
	a, b := m[x], m[y]
	if a == b {
		return
	}
	for i := range m {
		if m[i] == b {
			m[i] = a
		}
	}
}

func (m model) sets() [][]int {
	byLabel := map[int][]int{}
	for i, l := range m {
		byLabel[l] = append(byLabel[l], i)
	}
	out := make([][]int, 0, len(byLabel))
	for _, s := range byLabel {
		out = append(out, s)
	}
	sort.Slice(out, func(i, j int) bool { return out[i][0] < out[j][0] })
	return out
}

func checkAll(t *testing.T, ds *disjoint.Set, m model, rng *rand.Rand) {
	t.Helper()
	n := len(m)
	buf := make([]int, 1, 4)
	reps := make([]int, n)
	for i := 0; i < n; i++ {
		if rng.Intn(2) == 0 {
			reps[i] = ds.Find(i)
		} else {
			reps[i] = ds.FindBuffered(i, buf)
		}
		if reps[i] < 0 || reps[i] >= n {
			t.Fatalf("representative %d of %d out of range", reps[i], i)
		}
	}
	for i := 0; i < n; i++ {
		// lookups never change the partition: ask again, in another flavour
		if r := ds.FindBuffered(i, buf); r != reps[i] {
			t.Fatalf("representative of %d changed by lookups: %d then %d", i, reps[i], r)
		}
		if r := ds.Find(i); r != reps[i] {
			t.Fatalf("representative of %d changed by lookups: %d then %d", i, reps[i], r)
		}
		for j := 0; j < n; j++ {
			if (reps[i] == reps[j]) != (m[i] == m[j]) {
				t.Fatalf("elements %d,%d: same representative = %v, connected = %v", i, j, reps[i] == reps[j], m[i] == m[j])
			}
		}
	}
	want := m.sets()
	got := ds.Sets()
	if n == 0 {
		if len(got) != 0 {
			t.Fatalf("Sets on empty = %v", got)
		}
	} else if !reflect.DeepEqual(got, want) {
		t.Fatalf("Sets = %v, want %v", got, want)
	}
	sr := ds.SmallestRep()
	if len(sr) != n {
		t.Fatalf("SmallestRep has length %d", len(sr))
	}
	for _, s := range want {
		for _, v := range s {
			if sr[v] != s[0] {
				t.Fatalf("SmallestRep[%d] = %d, want %d", v, sr[v], s[0])
			}
		}
	}
	roots := ds.Roots()
	if len(roots) != len(want) {
		t.Fatalf("Roots = %v but there are %d sets", roots, len(want))
	}
	seen := map[int]bool{}
	for _, r := range roots {
		if r < 0 || r >= n || seen[m[r]] {
			t.Fatalf("Roots = %v is not one element per set", roots)
		}
		seen[m[r]] = true
	}
}

func TestDemoProperty(t *testing.T) {
	rng := rand.New(rand.NewSource(18))
	for trial := 0; trial < 400; trial++ {
		n := rng.Intn(24)
		ds := disjoint.New(n)
		m := newModel(n)
		checkAll(t, &ds, m, rng)
		if n == 0 {
			continue
		}
		buf := make([]int, 1, 2)
		steps := rng.Intn(3 * n)
		for s := 0; s < steps; s++ {
			x, y := rng.Intn(n), rng.Intn(n)
			switch rng.Intn(4) {
			case 0:
				ds.Union(x, y)
				m.union(x, y)
			case 1:
				ds.UnionBuffered(x, y, buf)
				m.union(x, y)
			case 2:
				ds.Find(x)
			case 3:
				ds.FindBuffered(y, buf)
			}
			if rng.Intn(4) == 0 {
				checkAll(t, &ds, m, rng)
			}
		}
		checkAll(t, &ds, m, rng)
	}
	// The long chain 0 -> 1 -> 3 -> 7 (or whatever the union rule makes of it), built by a binomial tree.
	ds := disjoint.New(8)
	m := newModel(8)
	for _, p := range [][2]int{{0, 1}, {2, 3}, {1, 3}, {4, 5}, {6, 7}, {5, 7}, {3, 7}, {0, 7}, {7, 7}} {
		ds.Union(p[0], p[1])
		m.union(p[0], p[1])
		checkAll(t, &ds, m, rng)
	}
}

func TestDemoIncidentalOld(t *testing.T) {
	// 1. Sets() of the empty Set: the old code returned make([][]int, 0, 1), i.e. empty but NOT nil.
	empty := disjoint.New(0)
	if got := empty.Sets(); got == nil {
		t.Errorf("New(0).Sets() is nil; the old code returned an empty non-nil slice (reflect.DeepEqual(got, [][]int{}) = %v)", reflect.DeepEqual(got, [][]int{}))
	} else if !reflect.DeepEqual(got, [][]int{}) {
		t.Errorf("New(0).Sets() = %#v", got)
	}

	// 2. Capacities: the old code grew everything with append starting from capacity 1.
	ds := disjoint.New(5)
	ds.Union(0, 2)
	ds.Union(2, 4)
	sets := ds.Sets()
	if !reflect.DeepEqual(sets, [][]int{{0, 2, 4}, {1}, {3}}) {
		t.Fatalf("Sets = %v", sets) // this is the property, must hold before and after
	}
	if cap(sets) != 4 {
		t.Errorf("cap(Sets()) = %d for 3 sets; the old code got 4 from append's doubling", cap(sets))
	}
	if cap(sets[0]) != 4 {
		t.Errorf("cap(Sets()[0]) = %d for the 3-element set; the old code got 4 from append's doubling", cap(sets[0]))
	}
	// Whatever the capacities, appending to one returned set must not clobber another one.
	_ = append(sets[0], 99)
	_ = append(sets[1], 98)
	if !reflect.DeepEqual(sets, [][]int{{0, 2, 4}, {1}, {3}}) {
		t.Fatalf("appending to a returned set changed another returned set: %v", sets)
	}

	// 3. Running time on many small sets (logged only, not asserted).
	big := disjoint.New(6000)
	start := time.Now()
	s := big.Sets()
	dSets := time.Since(start)
	start = time.Now()
	sr := big.SmallestRep()
	dSR := time.Since(start)
	if len(s) != 6000 || len(sr) != 6000 {
		t.Fatalf("wrong sizes %d %d", len(s), len(sr))
	}
	t.Logf("6000 singletons: Sets %v, SmallestRep %v (old code: quadratic number of Finds)", dSets, dSR)
}

package main

import (
	"verif/internal/cli"
	_ "verif/internal/props/c17"
)

func main() { cli.Main() }

package c10

// Call sequences on graphs of a few hundred to a few thousand vertices.
//
// The other workloads judge every function once per (graph, representation),
// always in the same order, on graphs of at most 257 vertices.  Two dimensions
// are missing there and are added here:
//
//   - size: anything in the library that switches behaviour at a size (a
//     working buffer that is kept only when it is long, a table, a narrow
//     counter) is crossed by graphs with n around 512, 1024, 2048, 4096 and
//     seeded sizes in between;
//   - process state: the functions of the property are called in SEQUENCES
//     inside one process - the same function twice on the same graph, on
//     another graph of the same size, on a larger and on a smaller one, a small
//     graph between two large ones, and every ordered pair of functions after
//     each other - and every single result is judged.  A call may not depend
//     on what was called before it.
//
// The graphs live in adjacency lists owned by the harness (hgraph); the
// expected values come from definition-level oracles on those lists (one BFS
// per source, components by search, cut vertices and blocks by vertex
// deletion, girth by edge deletion, bounded induced path / cycle counts by
// path extension) and are compared with closed forms of the constructions
// before the library is judged.  Only the polynomial functions get these
// inputs: NumberOfCycles only where the count is known by construction, the
// induced counters only with maxLength <= 4 on graphs of bounded degree.

import (
	"fmt"
	"sort"

	"github.com/Tom-Johnston/mamba/graph"
	"github.com/Tom-Johnston/mamba/sortints"

	"verif/internal/engine"
	"verif/internal/gen"
	"verif/internal/oracle/conn"
	"verif/internal/oracle/rg"
	"verif/internal/selfcheck"
)

// hugeL is the largest maxLength handed to the induced counters on these graphs.
const hugeL = 4

// largeN is the size from which a graph counts as "large" in the sequence observations.
const largeN = 1024

// ---------------------------------------------------------------------------
// graphs in adjacency lists, with the closed forms of their construction

type hgraph struct {
	name string
	n, m int
	adj  [][]int // ascending
	// closed forms (none = not given)
	girth, diam, rad int
	tree, oneBlock   bool
	cycKnown         bool        // NumberOfCycles is known by construction
	cyc              map[int]int // length -> number of cycles
	ip, ic           []int       // induced paths / cycles with 0..hugeL edges (nil = not given)
	distOnly         bool        // a vertex of very high degree: only the searches are called
	thetas           int         // blocks that are a cycle with a chord (three cycles, cyclomatic number two)
}

func newH(name string, n int, edges [][2]int) *hgraph {
	g := &hgraph{name: name, n: n, girth: none, diam: none, rad: none}
	g.adj = make([][]int, n)
	for _, e := range edges {
		if e[0] == e[1] {
			continue
		}
		g.adj[e[0]] = append(g.adj[e[0]], e[1])
		g.adj[e[1]] = append(g.adj[e[1]], e[0])
	}
	for v := range g.adj {
		a := g.adj[v]
		sort.Ints(a)
		b := a[:0]
		for i, x := range a {
			if i == 0 || x != a[i-1] {
				b = append(b, x)
			}
		}
		g.adj[v] = b
		g.m += len(b)
	}
	g.m /= 2
	return g
}

func (g *hgraph) has(u, w int) bool {
	a := g.adj[u]
	i := sort.SearchInts(a, w)
	return i < len(a) && a[i] == w
}

func (g *hgraph) edges() [][2]int {
	es := make([][2]int, 0, g.m)
	for u, a := range g.adj {
		for _, w := range a {
			if u < w {
				es = append(es, [2]int{u, w})
			}
		}
	}
	return es
}

func (g *hgraph) maxDeg() int {
	d := 0
	for _, a := range g.adj {
		if len(a) > d {
			d = len(a)
		}
	}
	return d
}

func zerosL() []int { return make([]int, hugeL+1) }

func hEdgeless(n int) *hgraph {
	g := newH(fmt.Sprintf("edgeless(%d)", n), n, nil)
	g.girth, g.cycKnown = -1, true
	g.ip, g.ic = zerosL(), zerosL()
	g.ip[0] = n
	return g
}

func hPath(n int) *hgraph {
	var es [][2]int
	for i := 0; i+1 < n; i++ {
		es = append(es, [2]int{i, i + 1})
	}
	g := newH(fmt.Sprintf("path(%d)", n), n, es)
	g.girth, g.cycKnown = -1, true
	if n >= 1 {
		g.diam, g.rad, g.tree = n-1, n/2, true
	}
	g.ip, g.ic = zerosL(), zerosL()
	for k := 0; k <= hugeL; k++ {
		if n-k > 0 {
			g.ip[k] = n - k
		}
	}
	return g
}

func hCycle(n int) *hgraph {
	var es [][2]int
	for i := 0; i < n; i++ {
		es = append(es, [2]int{i, (i + 1) % n})
	}
	g := newH(fmt.Sprintf("cycle(%d)", n), n, es)
	g.girth, g.diam, g.rad, g.oneBlock = n, n/2, n/2, true
	g.cycKnown, g.cyc = true, map[int]int{n: 1}
	g.ip, g.ic = zerosL(), zerosL()
	g.ip[0] = n
	for k := 1; k <= hugeL && k <= n-2; k++ {
		g.ip[k] = n
	}
	if n <= hugeL {
		g.ic[n] = 1
	}
	return g
}

// hLollipop is the cycle 0..c-1 with the path c-1, c, ..., n-1 hanging off it.
func hLollipop(n, c int) *hgraph {
	var es [][2]int
	for i := 0; i+1 < n; i++ {
		es = append(es, [2]int{i, i + 1})
	}
	es = append(es, [2]int{0, c - 1})
	g := newH(fmt.Sprintf("cycle(%d)+tail(%d)", c, n-c), n, es)
	g.girth, g.diam = c, n-c+c/2
	g.cycKnown, g.cyc = true, map[int]int{c: 1}
	if c > hugeL {
		g.ic = zerosL()
	}
	return g
}

// hTheta is the cycle 0..n-1 with the chord {0,k}.
func hTheta(n, k int) *hgraph {
	var es [][2]int
	for i := 0; i < n; i++ {
		es = append(es, [2]int{i, (i + 1) % n})
	}
	es = append(es, [2]int{0, k})
	g := newH(fmt.Sprintf("cycle(%d)+chord(0,%d)", n, k), n, es)
	g.oneBlock = true
	g.cycKnown, g.cyc = true, map[int]int{}
	g.cyc[n]++
	g.cyc[k+1]++
	g.cyc[n-k+1]++
	g.thetas = 1
	g.girth = k + 1
	if n-k+1 < g.girth {
		g.girth = n - k + 1
	}
	return g
}

func hGrid(a, b int) *hgraph {
	var es [][2]int
	for i := 0; i < a; i++ {
		for j := 0; j < b; j++ {
			if j+1 < b {
				es = append(es, [2]int{i*b + j, i*b + j + 1})
			}
			if i+1 < a {
				es = append(es, [2]int{i*b + j, (i+1)*b + j})
			}
		}
	}
	g := newH(fmt.Sprintf("grid(%dx%d)", a, b), a*b, es)
	g.girth, g.diam, g.rad, g.oneBlock = 4, a+b-2, a/2+b/2, true
	g.ic = zerosL()
	g.ic[4] = (a - 1) * (b - 1)
	return g
}

func hCube(d int) *hgraph {
	n := 1 << uint(d)
	var es [][2]int
	for v := 0; v < n; v++ {
		for b := 0; b < d; b++ {
			if w := v ^ (1 << uint(b)); v < w {
				es = append(es, [2]int{v, w})
			}
		}
	}
	g := newH(fmt.Sprintf("Q%d", d), n, es)
	g.girth, g.diam, g.rad, g.oneBlock = 4, d, d, true
	g.ic = zerosL()
	g.ic[4] = d * (d - 1) / 2 * (n / 4)
	return g
}

// hPrism is C_k x K_2 (k >= 5).
func hPrism(k int) *hgraph {
	var es [][2]int
	for i := 0; i < k; i++ {
		es = append(es, [2]int{i, (i + 1) % k}, [2]int{k + i, k + (i+1)%k}, [2]int{i, k + i})
	}
	g := newH(fmt.Sprintf("prism(%d)", k), 2*k, es)
	g.girth, g.diam, g.rad, g.oneBlock = 4, k/2+1, k/2+1, true
	g.ic = zerosL()
	g.ic[4] = k
	return g
}

func hStar(n int) *hgraph {
	var es [][2]int
	for i := 1; i < n; i++ {
		es = append(es, [2]int{0, i})
	}
	g := newH(fmt.Sprintf("star(%d)", n), n, es)
	g.girth, g.diam, g.rad, g.tree, g.cycKnown, g.distOnly = -1, 2, 1, true, true, true
	return g
}

// hTree: shape 0 attaches every vertex to a uniform earlier one (shallow, some
// vertices of degree ~log n), shape 1 to one of the last three (deep), shape 2
// is a caterpillar, shape 3 attaches to a uniform earlier vertex of degree < 3.
func hTree(r *engine.Rng, n, shape int) *hgraph {
	var es [][2]int
	deg := make([]int, n)
	spine := n/2 + 1
	for v := 1; v < n; v++ {
		p := 0
		switch shape {
		case 0:
			p = r.Intn(v)
		case 1:
			p = v - 1 - r.Intn(3)
			if p < 0 {
				p = 0
			}
		case 2:
			if v < spine {
				p = v - 1
			} else {
				p = r.Intn(spine)
			}
		default:
			for p = r.Intn(v); deg[p] >= 3; p = r.Intn(v) {
			}
		}
		deg[p]++
		deg[v]++
		es = append(es, [2]int{p, v})
	}
	g := newH(fmt.Sprintf("tree(%d,shape %d)", n, shape), n, es)
	g.girth, g.cycKnown = -1, true
	g.tree = n >= 1
	g.ic = zerosL()
	return g
}

// hTreePlus is a tree with k more edges: connected, a few cycles of unknown length.
func hTreePlus(r *engine.Rng, n, shape, k int) *hgraph {
	t := hTree(r, n, shape)
	es := t.edges()
	for ; k > 0; k-- {
		es = append(es, [2]int{r.Intn(n), r.Intn(n)})
	}
	g := newH(fmt.Sprintf("tree(%d,shape %d)+%d edges", n, shape, len(es)-t.m), n, es)
	return g
}

// hSparseRandom has about avg*n/2 uniform edges: many components of all sizes around avg = 1.
func hSparseRandom(r *engine.Rng, n int, avg float64) *hgraph {
	var es [][2]int
	for k := int(avg * float64(n) / 2); k > 0; k-- {
		es = append(es, [2]int{r.Intn(n), r.Intn(n)})
	}
	return newH(fmt.Sprintf("random(%d,avg degree %.2f)", n, avg), n, es)
}

func hFromRG(name string, g *rg.G) *hgraph {
	var es [][2]int
	for _, e := range g.Edges() {
		es = append(es, [2]int{e[0], e[1]})
	}
	return newH(name, g.N, es)
}

// hUnion is the disjoint union, in the order given.
func hUnion(parts ...*hgraph) *hgraph {
	var es [][2]int
	name := "union("
	off, nonEmpty := 0, 0
	for i, p := range parts {
		for _, e := range p.edges() {
			es = append(es, [2]int{off + e[0], off + e[1]})
		}
		off += p.n
		if p.n > 0 {
			nonEmpty++
		}
		if i > 0 {
			name += ","
		}
		name += p.name
	}
	u := newH(name+")", off, es)
	if nonEmpty >= 2 {
		u.diam, u.rad = -1, -1
	}
	u.girth, u.cycKnown, u.cyc = -1, true, map[int]int{}
	u.ip, u.ic = zerosL(), zerosL()
	for _, p := range parts {
		switch {
		case p.girth == none || u.girth == none:
			u.girth = none
		case p.girth > 0 && (u.girth < 0 || p.girth < u.girth):
			u.girth = p.girth
		}
		if !p.cycKnown {
			u.cycKnown = false
		}
		for l, x := range p.cyc {
			u.cyc[l] += x
		}
		if p.ip == nil || u.ip == nil {
			u.ip = nil
		} else {
			for k := range u.ip {
				u.ip[k] += p.ip[k]
			}
		}
		if p.ic == nil || u.ic == nil {
			u.ic = nil
		} else {
			for k := range u.ic {
				u.ic[k] += p.ic[k]
			}
		}
		u.distOnly = u.distOnly || p.distOnly
		u.thetas += p.thetas
	}
	return u
}

// hRelabel gives vertex v the new label p[v]; what the construction says about the graph is label-free.
func hRelabel(g *hgraph, p []int) *hgraph {
	var es [][2]int
	for _, e := range g.edges() {
		es = append(es, [2]int{p[e[0]], p[e[1]]})
	}
	h := newH(g.name+"/relabelled", g.n, es)
	h.girth, h.diam, h.rad, h.tree, h.oneBlock = g.girth, g.diam, g.rad, g.tree, g.oneBlock
	h.cycKnown, h.cyc, h.ip, h.ic, h.distOnly, h.thetas = g.cycKnown, g.cyc, g.ip, g.ic, g.distOnly, g.thetas
	return h
}

// ---------------------------------------------------------------------------
// definition oracles on adjacency lists

// bfs fills dist (-1 = not reached) with the distances from s in g minus the
// vertex skipV (-1: none) minus the edge {eu,ew} (-1: none); it stops early
// once target (-1: none) is reached.
func (g *hgraph) bfs(s, skipV, eu, ew, target int, dist, queue []int) []int {
	for i := range dist {
		dist[i] = -1
	}
	dist[s] = 0
	queue = append(queue[:0], s)
	for h := 0; h < len(queue); h++ {
		u := queue[h]
		if u == target {
			break
		}
		for _, w := range g.adj[u] {
			if w == skipV || dist[w] >= 0 || (u == eu && w == ew) || (u == ew && w == eu) {
				continue
			}
			dist[w] = dist[u] + 1
			queue = append(queue, w)
		}
	}
	return queue
}

// labels numbers the components of g - skipV (0.. in order of the least vertex; skipV gets -1).
func (g *hgraph) labels(skipV int, label, queue []int) int {
	for i := range label {
		label[i] = -1
	}
	count := 0
	for s := 0; s < g.n; s++ {
		if s == skipV || label[s] >= 0 {
			continue
		}
		label[s] = count
		queue = append(queue[:0], s)
		for h := 0; h < len(queue); h++ {
			for _, w := range g.adj[queue[h]] {
				if w != skipV && label[w] < 0 {
					label[w] = count
					queue = append(queue, w)
				}
			}
		}
		count++
	}
	return count
}

type hwant struct {
	n                 int
	connected         bool
	ecc               []int
	diam, rad, girth  int
	comps             [][]int
	compOf            []int
	art               []int
	blocks            [][]int
	isolated          []int
	cycles            []int // nil: not known
	indCyc, indPath   []int // entries 0..hugeL; nil: not computed (degrees too high)
	srcs              []int // sources of the Distance rows
	rows              [][]int
	closedFormsJudged int
	inducedTooMany    bool
}

// inducedCounts counts the induced paths and induced cycles with at most L
// edges by extending induced paths one vertex at a time.
func (g *hgraph) inducedCounts(L int) (paths, cycles []int) {
	paths, cycles = make([]int, L+1), make([]int, L+1)
	paths[0] = g.n
	p := make([]int, 0, L+1)
	var ext func()
	ext = func() {
		k := len(p) - 1 // edges so far
		last := p[k]
		for _, u := range g.adj[last] {
			inPath, chords, closes := false, 0, false
			for i, x := range p {
				if x == u {
					inPath = true
					break
				}
				if i < k && g.has(u, x) {
					if i == 0 {
						closes = true
					} else {
						chords++
					}
				}
			}
			if inPath || chords > 0 {
				continue
			}
			if closes {
				// p + u is an induced cycle with k+2 vertices (k >= 1)
				if k >= 1 && k+2 <= L {
					cycles[k+2]++
				}
				continue
			}
			if k+1 <= L {
				paths[k+1]++
				if k+1 < L {
					p = append(p, u)
					ext()
					p = p[:len(p)-1]
				}
			}
		}
	}
	for s := 0; s < g.n; s++ {
		p = append(p[:0], s)
		ext()
	}
	for k := 1; k <= L; k++ {
		paths[k] /= 2 // once from each end
	}
	for l := 3; l <= L; l++ {
		cycles[l] /= 2 * l // every starting vertex, both directions
	}
	return paths, cycles
}

// expectation computes every expected value of g from the definitions and
// compares them with what the construction says.  A disagreement is a fault
// of the harness (reported as inconclusive by the caller).
func (g *hgraph) expectation(r *engine.Rng) (*hwant, string) {
	n := g.n
	w := &hwant{n: n}
	dist, queue, label := make([]int, n), make([]int, 0, n), make([]int, n)
	// components
	cnt := g.labels(-1, label, queue)
	w.comps = make([][]int, cnt)
	w.compOf = append([]int{}, label...)
	for v, l := range label {
		w.comps[l] = append(w.comps[l], v)
	}
	w.connected = cnt <= 1
	// eccentricities
	w.ecc = make([]int, n)
	for s := 0; s < n; s++ {
		if !w.connected {
			w.ecc[s] = -1
			continue
		}
		g.bfs(s, -1, -1, -1, -1, dist, queue)
		for _, d := range dist {
			if d > w.ecc[s] {
				w.ecc[s] = d
			}
		}
	}
	if n > 0 {
		if !w.connected {
			w.diam, w.rad = -1, -1
		} else {
			w.diam, w.rad = w.ecc[0], w.ecc[0]
			for _, e := range w.ecc {
				if e > w.diam {
					w.diam = e
				}
				if e < w.rad {
					w.rad = e
				}
			}
		}
	}
	// girth: the shortest cycle through the edge uv has length 1 + dist_{g-uv}(u,v)
	w.girth = -1
	for _, e := range g.edges() {
		g.bfs(e[0], -1, e[0], e[1], e[1], dist, queue)
		if d := dist[e[1]]; d >= 0 && (w.girth < 0 || d+1 < w.girth) {
			w.girth = d + 1
		}
	}
	// cut vertices by deletion; blocks: two edges at v lie in one block iff their other ends are connected in g - v
	es := g.edges()
	idx := make(map[[2]int]int, len(es))
	for i, e := range es {
		idx[e] = i
	}
	edgeOf := func(a, b int) int {
		if a > b {
			a, b = b, a
		}
		return idx[[2]int{a, b}]
	}
	par := make([]int, len(es))
	for i := range par {
		par[i] = i
	}
	find := func(x int) int {
		for par[x] != x {
			par[x] = par[par[x]]
			x = par[x]
		}
		return x
	}
	w.art, w.isolated = []int{}, []int{}
	for v := 0; v < n; v++ {
		if len(g.adj[v]) == 0 {
			w.isolated = append(w.isolated, v)
			continue
		}
		c := g.labels(v, label, queue)
		if c > cnt {
			w.art = append(w.art, v)
		}
		first := map[int]int{}
		for _, a := range g.adj[v] {
			e := edgeOf(v, a)
			if f, ok := first[label[a]]; ok {
				par[find(e)] = find(f)
			} else {
				first[label[a]] = e
			}
		}
	}
	members := map[int][]int{}
	for e := range es {
		rt := find(e)
		members[rt] = append(members[rt], es[e][0], es[e][1])
	}
	w.blocks = [][]int{}
	for _, vs := range members {
		sort.Ints(vs)
		b := []int{}
		for i, x := range vs {
			if i == 0 || x != vs[i-1] {
				b = append(b, x)
			}
		}
		w.blocks = append(w.blocks, b)
	}
	conn.SortSets(w.blocks)

	// what the construction says
	chk := func(what string, closed, orc int) string {
		if closed != none {
			w.closedFormsJudged++
			if closed != orc {
				return fmt.Sprintf("%s of %s: closed form %d, oracle %d", what, g.name, closed, orc)
			}
		}
		return ""
	}
	for _, m := range []string{chk("girth", g.girth, w.girth), chk("diameter", g.diam, w.diam), chk("radius", g.rad, w.rad)} {
		if m != "" {
			return nil, m
		}
	}
	if g.tree {
		w.closedFormsJudged++
		inner := 0
		for _, a := range g.adj {
			if len(a) >= 2 {
				inner++
			}
		}
		if !w.connected || g.m != n-1 || len(w.blocks) != g.m || len(w.art) != inner {
			return nil, fmt.Sprintf("%s should be a tree: connected %v, m=%d, %d blocks, %d cut vertices (%d vertices of degree >= 2)", g.name, w.connected, g.m, len(w.blocks), len(w.art), inner)
		}
	}
	if g.oneBlock {
		w.closedFormsJudged++
		if len(w.blocks) != 1 || len(w.blocks[0]) != n || len(w.art) != 0 {
			return nil, fmt.Sprintf("%s should be 2-connected: %d blocks, %d cut vertices", g.name, len(w.blocks), len(w.art))
		}
	}
	if g.cycKnown {
		// the cycle space has dimension m - n + c; the blocks of the constructions with known counts are edges,
		// cycles (dimension 1, one cycle) or cycles with a chord (dimension 2, three cycles)
		tot := 0
		w.cycles = make([]int, n+1)
		for l, x := range g.cyc {
			w.cycles[l] += x
			tot += x
		}
		mu := g.m - n + cnt
		if tot != mu+g.thetas || (w.girth > 0) != (tot > 0) || (w.girth > 0 && w.cycles[w.girth] == 0) {
			return nil, fmt.Sprintf("%s: %d cycles by construction, cyclomatic number %d, girth %d", g.name, tot, mu, w.girth)
		}
		w.closedFormsJudged++
	}
	if !g.distOnly {
		cost := 0
		for _, a := range g.adj {
			cost += len(a) * len(a) * len(a)
		}
		if cost <= 4000000 {
			w.indPath, w.indCyc = g.inducedCounts(hugeL)
			many := 0
			for _, x := range w.indPath {
				many += x
			}
			w.inducedTooMany = many > 300000 // the library needs several microseconds per path
			if g.ip != nil {
				w.closedFormsJudged++
				if !eqInts(g.ip, w.indPath) {
					return nil, fmt.Sprintf("induced paths of %s: closed form %v, oracle %v", g.name, g.ip, w.indPath)
				}
			}
			if g.ic != nil {
				w.closedFormsJudged++
				if !eqInts(g.ic, w.indCyc) {
					return nil, fmt.Sprintf("induced cycles of %s: closed form %v, oracle %v", g.name, g.ic, w.indCyc)
				}
			}
			if w.girth >= 3 && w.girth <= hugeL && w.indCyc[w.girth] == 0 {
				return nil, fmt.Sprintf("%s has girth %d but no induced cycle of that length", g.name, w.girth)
			}
			if w.indPath[1] != g.m {
				return nil, fmt.Sprintf("%s has %d edges but %d induced paths of length 1", g.name, g.m, w.indPath[1])
			}
		}
	}
	// rows for Distance
	if n > 0 {
		for _, s := range []int{0, n - 1, n / 2, r.Intn(n), r.Intn(n)} {
			dup := false
			for _, x := range w.srcs {
				dup = dup || x == s
			}
			if dup {
				continue
			}
			row := make([]int, n)
			g.bfs(s, -1, -1, -1, -1, row, queue)
			w.srcs = append(w.srcs, s)
			w.rows = append(w.rows, row)
			if w.connected {
				mx := 0
				for _, d := range row {
					if d > mx {
						mx = d
					}
				}
				if mx != w.ecc[s] {
					return nil, "eccentricity and distance row disagree on " + g.name
				}
			}
		}
	}
	return w, ""
}

// ---------------------------------------------------------------------------
// library values

func (g *hgraph) sparse() *graph.SparseGraph {
	nb := make([]sortints.SortedInts, g.n)
	deg := make([]int, g.n)
	for v, a := range g.adj {
		nb[v] = append(sortints.SortedInts{}, a...)
		deg[v] = len(a)
	}
	return &graph.SparseGraph{NumberOfVertices: g.n, NumberOfEdges: g.m, Neighbourhoods: nb, DegreeSequence: deg}
}

func (g *hgraph) dense() *graph.DenseGraph {
	eb := make([]byte, g.n*(g.n-1)/2+1)[:g.n*(g.n-1)/2]
	deg := make([]int, g.n)
	for v, a := range g.adj {
		deg[v] = len(a)
		for _, u := range a {
			if u < v {
				eb[v*(v-1)/2+u] = 1
			}
		}
	}
	return &graph.DenseGraph{NumberOfVertices: g.n, NumberOfEdges: g.m, DegreeSequence: deg, Edges: eb}
}

// hold builds the library value: sparse, dense, or an InducedSubgraph view of a
// larger sparse host whose extra vertices are joined to the view.
func (g *hgraph) hold(c *engine.Ctx, key, rep string, r *engine.Rng) (graph.Graph, map[string]interface{}, *engine.PanicInfo) {
	extra := map[string]interface{}{}
	switch rep {
	case "dense":
		return g.dense(), extra, nil
	case "view":
		n := g.n
		x := 1 + r.Intn(3)
		q := r.Perm(n + x)
		var es [][2]int
		for _, e := range g.edges() {
			es = append(es, [2]int{q[e[0]], q[e[1]]})
		}
		for a := n; a < n+x; a++ {
			for k := 0; k < 4 && n > 0; k++ {
				es = append(es, [2]int{q[a], q[r.Intn(n)]})
			}
			if a > n {
				es = append(es, [2]int{q[a], q[a-1]})
			}
		}
		host := newH("host", n+x, es).sparse()
		V := append([]int{}, q[:n]...)
		extra["host_vertices"] = n + x
		if n <= 64 {
			extra["V"] = V
		}
		var lg graph.Graph
		pi := c.Call(key+"|InducedSubgraph", func() { lg = graph.InducedSubgraph(host, V) })
		return lg, extra, pi
	}
	return g.sparse(), extra, nil
}

// presentsLight checks N, M, Degrees, every Neighbours list and IsEdge on all edges and as many non-edges.
func (g *hgraph) presentsLight(c *engine.Ctx, key string, lg graph.Graph) string {
	msg := ""
	pi := c.Call(key, func() {
		n := g.n
		if lg.N() != n {
			msg = fmt.Sprintf("N()=%d want %d", lg.N(), n)
			return
		}
		if lg.M() != g.m {
			msg = fmt.Sprintf("M()=%d want %d", lg.M(), g.m)
			return
		}
		deg := lg.Degrees()
		if len(deg) != n {
			msg = fmt.Sprintf("Degrees() has %d entries", len(deg))
			return
		}
		for i := 0; i < n; i++ {
			if deg[i] != len(g.adj[i]) {
				msg = fmt.Sprintf("Degrees()[%d]=%d want %d", i, deg[i], len(g.adj[i]))
				return
			}
			if nb := lg.Neighbours(i); !eqInts(nb, g.adj[i]) {
				msg = fmt.Sprintf("Neighbours(%d)=%v want %v", i, nb, g.adj[i])
				return
			}
			for _, j := range g.adj[i] {
				if !lg.IsEdge(i, j) {
					msg = fmt.Sprintf("IsEdge(%d,%d)=false", i, j)
					return
				}
				if k := (i + j*7 + 1) % n; k != i && lg.IsEdge(i, k) != g.has(i, k) {
					msg = fmt.Sprintf("IsEdge(%d,%d)=%v", i, k, !g.has(i, k))
					return
				}
			}
		}
	})
	if pi != nil {
		return pi.String()
	}
	return msg
}

// ---------------------------------------------------------------------------
// sessions: a list of graphs and a sequence of calls, all in one process, each result judged

var hugeFns = []string{"Distance", "Eccentricity", "Diameter", "Radius", "Girth", "ConnectedComponent", "ConnectedComponents",
	"BiconnectedComponents", "NumberOfCycles", "NumberOfInducedCycles", "NumberOfInducedPaths"}

var hugeDistFns = []string{"Distance", "Eccentricity", "Diameter", "Radius", "Girth"}

type hstep struct {
	gi int
	fn string
}

type hsession struct {
	name   string
	kind   string // "fixed" | "seeded"
	graphs []*hgraph
	reps   []string
	steps  []hstep
	rng    *engine.Rng // arguments (Distance pairs, vertices), view hosts
}

type hheldG struct {
	g     *hgraph
	w     *hwant
	rep   string
	lg    graph.Graph
	extra map[string]interface{}
	calls int
}

// applicable says whether fn is called on a graph in this representation.
func applicable(fn string, g *hgraph, rep string) bool {
	switch fn {
	case "Distance", "ConnectedComponent":
		return g.n > 0
	case "Eccentricity", "Diameter", "Radius", "Girth", "ConnectedComponents":
		return true
	case "BiconnectedComponents":
		return !g.distOnly
	case "NumberOfCycles":
		return !g.distOnly && g.cycKnown && rep != "view"
	}
	return !g.distOnly // induced counters: decided by the oracle (degree bound) at run time
}

func (s *hsession) add(g *hgraph, rep string) int {
	s.graphs = append(s.graphs, g)
	s.reps = append(s.reps, rep)
	return len(s.graphs) - 1
}

func (s *hsession) step(fn string, gi int) {
	if applicable(fn, s.graphs[gi], s.reps[gi]) {
		s.steps = append(s.steps, hstep{gi, fn})
	}
}

// eulerOrder returns a closed walk through all k*k ordered pairs (loops
// included) of 0..k-1: k*k+1 entries, every ordered pair consecutive once.
func eulerOrder(r *engine.Rng, k int) []int {
	next := make([][]int, k)
	for a := range next {
		next[a] = r.Perm(k)
	}
	stack := []int{r.Intn(k)}
	var circuit []int
	for len(stack) > 0 {
		v := stack[len(stack)-1]
		if l := len(next[v]); l > 0 {
			stack = append(stack, next[v][l-1])
			next[v] = next[v][:l-1]
		} else {
			circuit = append(circuit, v)
			stack = stack[:len(stack)-1]
		}
	}
	for i, j := 0, len(circuit)-1; i < j; i, j = i+1, j-1 {
		circuit[i], circuit[j] = circuit[j], circuit[i]
	}
	return circuit
}

func (s *hsession) describe(upto int) []string {
	var out []string
	for k := 0; k <= upto && k < len(s.steps); k++ {
		st := s.steps[k]
		out = append(out, fmt.Sprintf("%d: %s(g%d)", k, st.fn, st.gi))
	}
	return out
}

// runSession executes the steps in order.  It stops at the first violation
// (what follows could be a consequence of the same fault).
func runSession(c *engine.Ctx, s *hsession) {
	held := make([]*hheldG, len(s.graphs))
	var table []map[string]interface{}
	for i, g := range s.graphs {
		w, msg := g.expectation(s.rng)
		if msg != "" {
			c.Inconclusive("call sequences: " + msg)
			return
		}
		c.Obs("oracle_crosschecks", 1)
		c.Obs("huge:closed_forms_checked_against_the_oracles", w.closedFormsJudged)
		key := fmt.Sprintf("huge|%s|g%d", s.name, i)
		lg, extra, pi := g.hold(c, key, s.reps[i], s.rng)
		if pi != nil {
			c.Obs("skipped:representation_constructor_panicked:"+s.reps[i], 1)
			return
		}
		if msg := g.presentsLight(c, key+"|presents", lg); msg != "" {
			c.Obs("skipped:representation_does_not_present_the_graph:"+s.reps[i], 1)
			c.Sample("representation-broken", map[string]interface{}{"graph": g.name, "rep": s.reps[i], "what": msg})
			return
		}
		held[i] = &hheldG{g: g, w: w, rep: s.reps[i], lg: lg, extra: extra}
		table = append(table, map[string]interface{}{"g": i, "graph": g.name, "n": g.n, "m": g.m, "representation": s.reps[i]})
		c.Obs("huge:graphs", 1)
		c.Obs("huge:rep:"+s.reps[i], 1)
		c.ObsMax("huge:max_n", g.n)
		for _, t := range []int{300, 512, 1024, 2048, 4096} {
			if g.n >= t {
				c.Obs(fmt.Sprintf("huge:graphs_n>=%d", t), 1)
			}
		}
		if !w.connected {
			c.Obs("huge:graphs_disconnected", 1)
		}
		if w.girth > 0 {
			c.Obs("huge:graphs_with_cycle", 1)
		}
		c.ObsMax("huge:diameter", w.diam)
		c.ObsMax("huge:blocks_in_one_graph", len(w.blocks))
		c.ObsMax("huge:components_in_one_graph", len(w.comps))
		if g.n >= 4 && g.m >= 2 {
			c.NT("huge", s.name, i, g.name, s.reps[i])
		}
	}
	c.Obs("seq:sessions", 1)
	pairs := map[string]bool{}
	prev := -1
	for k, st := range s.steps {
		if c.Stopped() {
			return
		}
		h := held[st.gi]
		if (st.fn == "NumberOfInducedCycles" || st.fn == "NumberOfInducedPaths") && (h.w.indPath == nil || h.w.inducedTooMany) {
			c.Obs("skipped:induced_counters_over_budget", 1)
			continue
		}
		ok := s.exec(c, k, st, h, table)
		c.Obs("seq:steps", 1)
		if h.g.n >= largeN {
			c.Obs("huge:calls_n>=1024:"+st.fn, 1)
		}
		if prev >= 0 {
			p := s.steps[prev]
			pg := held[p.gi].g
			pairs[p.fn+">"+st.fn] = true
			switch {
			case p.fn == st.fn && p.gi == st.gi:
				c.Obs("seq:same_function_same_graph_again", 1)
				if h.g.n >= largeN {
					c.Obs("seq:repeat_n>=1024:"+st.fn, 1)
				}
			case p.fn == st.fn:
				c.Obs("seq:same_function_other_graph", 1)
			case p.gi == st.gi:
				c.Obs("seq:other_function_same_graph", 1)
			default:
				c.Obs("seq:other_function_other_graph", 1)
			}
			if p.gi != st.gi {
				switch {
				case h.g.n >= largeN && pg.n < largeN:
					c.Obs("seq:large_after_small", 1)
				case h.g.n < largeN && pg.n >= largeN:
					c.Obs("seq:small_after_large", 1)
				case h.g.n >= largeN && pg.n > h.g.n:
					c.Obs("seq:large_after_larger", 1)
				case h.g.n >= largeN && pg.n < h.g.n:
					c.Obs("seq:large_after_smaller_large", 1)
				case h.g.n >= largeN:
					c.Obs("seq:large_after_other_graph_of_equal_size", 1)
				}
				if held[p.gi].rep != h.rep {
					c.Obs("seq:representation_changes", 1)
				}
			}
		}
		prev = k
		if !ok {
			return
		}
	}
	c.ObsMax("seq:distinct_ordered_function_pairs_in_one_session", len(pairs))
	// the calls must leave their arguments alone, or the verdicts of this session mean nothing
	for i, h := range held {
		if msg := h.g.presentsLight(c, fmt.Sprintf("huge|%s|g%d|unchanged", s.name, i), h.lg); msg != "" {
			c.Obs("input_changed_by_calls", 1)
			c.Inconclusive(fmt.Sprintf("graph %s (%s) of session %s no longer presents its adjacency after the calls: %s", h.g.name, h.rep, s.name, msg))
		}
	}
}

// exec performs one step and judges it; false = violation raised.
func (s *hsession) exec(c *engine.Ctx, k int, st hstep, h *hheldG, table []map[string]interface{}) bool {
	g, w, lg, n := h.g, h.w, h.lg, h.g.n
	h.calls++
	ck := fmt.Sprintf("huge|%s|step=%d|%s(g%d)", s.name, k, st.fn, st.gi)
	wit := fmt.Sprintf("session=%s|step=%d|graph=%s/%s", s.name, k, g.name, h.rep)
	detail := func(more ...interface{}) map[string]interface{} {
		d := map[string]interface{}{"workload": "call sequence " + s.name, "session_kind": s.kind, "graphs": table, "steps_so_far": s.describe(k),
			"failing_step": fmt.Sprintf("%s(g%d)", st.fn, st.gi), "n": n, "m": g.m, "graph": g.name, "representation": h.rep,
			"earlier_calls_on_this_graph": h.calls - 1}
		if g.m <= 12000 {
			d["edges"] = g.edges()
		}
		for a, b := range h.extra {
			d["rep_"+a] = b
		}
		for i := 0; i+1 < len(more); i += 2 {
			d[fmt.Sprint(more[i])] = more[i+1]
		}
		return d
	}
	panicked := func(pi *engine.PanicInfo, expected string, more ...interface{}) bool {
		c.Obs("panics_judged:"+st.fn, 1)
		c.Violation(fmt.Sprintf("%s|panic|%s|%s", st.fn, engine.SiteNoLine(pi.Site), wit), detail(more...), pi.String(), expected)
		return false
	}
	wrong := func(witness, observed, expected string, more ...interface{}) bool {
		key := fmt.Sprintf("%s|wrong|%s", st.fn, wit)
		if witness != "" {
			key += "|" + witness
		}
		c.Violation(key, detail(more...), observed, expected)
		return false
	}
	short := func(a []int) string {
		if len(a) <= 40 {
			return fmt.Sprint(a)
		}
		return fmt.Sprintf("%v ... (%d entries)", a[:40], len(a))
	}
	firstDiff := func(a, b []int) string {
		if len(a) != len(b) {
			return fmt.Sprintf("%d entries instead of %d", len(a), len(b))
		}
		for i := range a {
			if a[i] != b[i] {
				return fmt.Sprintf("entry %d is %d, expected %d", i, a[i], b[i])
			}
		}
		return ""
	}
	c.Obs("calls:"+st.fn, 1)
	switch st.fn {
	case "Distance":
		type pr struct{ i, j, want int }
		var prs []pr
		for q := 0; q < 12; q++ {
			a := s.rng.Intn(len(w.srcs))
			src, t := w.srcs[a], s.rng.Intn(n)
			if q < 2 {
				t = []int{0, n - 1}[q]
			}
			if q%3 == 2 {
				prs = append(prs, pr{t, src, w.rows[a][t]})
			} else {
				prs = append(prs, pr{src, t, w.rows[a][t]})
			}
		}
		var cur pr
		got, bad := 0, false
		pi := c.Call(ck, func() {
			for _, cur = range prs {
				if got = graph.Distance(lg, cur.i, cur.j); got != cur.want {
					bad = true
					return
				}
			}
		})
		c.Obs("calls:Distance", len(prs)-1)
		c.Eval(len(prs))
		if pi != nil {
			return panicked(pi, fmt.Sprintf("Distance(%d,%d)=%d", cur.i, cur.j, cur.want), "i", cur.i, "j", cur.j)
		}
		if bad {
			return wrong(fmt.Sprintf("i=%d,j=%d", cur.i, cur.j), fmt.Sprint(got), fmt.Sprint(cur.want), "i", cur.i, "j", cur.j)
		}
	case "Eccentricity":
		var got []int
		pi := c.Call(ck, func() { got = graph.Eccentricity(lg) })
		c.Eval(1)
		if pi != nil {
			return panicked(pi, short(w.ecc))
		}
		if !eqInts(got, w.ecc) {
			return wrong("", short(got)+": "+firstDiff(got, w.ecc), short(w.ecc))
		}
	case "Diameter", "Radius", "Girth":
		f, want := graph.Diameter, w.diam
		if st.fn == "Radius" {
			f, want = graph.Radius, w.rad
		} else if st.fn == "Girth" {
			f, want = graph.Girth, w.girth
		}
		got := 0
		pi := c.Call(ck, func() { got = f(lg) })
		c.Eval(1)
		if pi != nil {
			return panicked(pi, fmt.Sprint(want))
		}
		if got != want {
			return wrong("", fmt.Sprint(got), fmt.Sprint(want))
		}
	case "ConnectedComponent":
		cands := []int{0, n - 1, s.rng.Intn(n), s.rng.Intn(n)}
		for i, cs := range w.comps {
			if i < 6 {
				cands = append(cands, cs[len(cs)-1])
			}
		}
		v := cands[h.calls%len(cands)]
		want := w.comps[w.compOf[v]]
		var got []int
		pi := c.Call(ck, func() { got = graph.ConnectedComponent(lg, v) })
		c.Eval(1)
		if pi != nil {
			return panicked(pi, short(want), "v", v)
		}
		sg := append([]int{}, got...)
		sort.Ints(sg)
		if !eqInts(sg, want) {
			return wrong(fmt.Sprintf("v=%d", v), short(got)+": "+firstDiff(sg, want), short(want), "v", v)
		}
	case "ConnectedComponents":
		var got [][]int
		pi := c.Call(ck, func() { got = graph.ConnectedComponents(lg) })
		c.Eval(1)
		if pi != nil {
			return panicked(pi, fmt.Sprintf("%d components", len(w.comps)))
		}
		cs, _ := canonSets(got)
		if !eqSets(cs, w.comps) {
			return wrong("", describeSets(cs), describeSets(w.comps)+" (each once, any order)")
		}
	case "BiconnectedComponents":
		var blocks [][]int
		var art []int
		pi := c.Call(ck, func() { blocks, art = graph.BiconnectedComponents(lg) })
		c.Eval(1)
		exp := fmt.Sprintf("blocks %s (+ optionally all of the %d isolated vertices as singletons), each once and sorted; %d articulation vertices %s", describeSets(w.blocks), len(w.isolated), len(w.art), short(w.art))
		if pi != nil {
			return panicked(pi, exp)
		}
		bs, sorted := canonSets(blocks)
		var withEdge, single [][]int
		for _, b := range bs {
			if len(b) == 1 {
				single = append(single, b)
			} else {
				withEdge = append(withEdge, b)
			}
		}
		isoSets := [][]int{}
		for _, v := range w.isolated {
			isoSets = append(isoSets, []int{v})
		}
		as := append([]int{}, art...)
		sort.Ints(as)
		switch {
		case !sorted:
			return wrong("unsorted-block", describeSets(blocks), exp)
		case !eqSets(withEdge, w.blocks) || !(len(single) == 0 || eqSets(single, isoSets)):
			return wrong("blocks", describeSets(bs), exp)
		case !eqInts(as, w.art):
			return wrong("articulation", short(as)+": "+firstDiff(as, w.art), exp)
		}
	case "NumberOfCycles":
		eg, isEd := lg.(graph.EditableGraph)
		if !isEd || w.cycles == nil {
			return true
		}
		var got []int
		pi := c.Call(ck, func() { got = graph.NumberOfCycles(eg) })
		c.Eval(1)
		if pi != nil {
			return panicked(pi, fmt.Sprint(g.cyc)+" (length: count)")
		}
		if len(got) < n+1 || !eqInts(got[:n+1], w.cycles) {
			d := ""
			if len(got) >= n+1 {
				d = firstDiff(got[:n+1], w.cycles)
			}
			return wrong("", short(got)+": "+d, fmt.Sprint(g.cyc)+" (length: count; index = length)")
		}
	case "NumberOfInducedCycles", "NumberOfInducedPaths":
		ml := []int{3, 4, 2, 0, 1}[h.calls%5]
		var got []int
		bound, want := ml, w.indCyc
		if st.fn == "NumberOfInducedCycles" {
			if ml > n {
				bound = n
			}
		} else {
			want = w.indPath
			if ml > n-1 {
				bound = n - 1
			}
		}
		pi := c.Call(fmt.Sprintf("%s|maxLength=%d", ck, ml), func() {
			if st.fn == "NumberOfInducedCycles" {
				got = graph.NumberOfInducedCycles(lg, ml)
			} else {
				got = graph.NumberOfInducedPaths(lg, ml)
			}
		})
		c.Eval(1)
		if pi != nil {
			return panicked(pi, fmt.Sprint(want[:bound+1]), "maxLength", ml)
		}
		if len(got) < bound+1 || !eqInts(got[:bound+1], want[:bound+1]) {
			return wrong(fmt.Sprintf("maxLength=%d", ml), short(got), fmt.Sprintf("%v in the entries 0..%d", want[:bound+1], bound), "maxLength", ml)
		}
		if len(got) > bound+1 {
			c.Obs("entries_beyond_bound_not_judged", len(got)-bound-1)
		}
	}
	return true
}

func eqSets(a, b [][]int) bool {
	if len(a) != len(b) {
		return false
	}
	for i := range a {
		if !eqInts(a[i], b[i]) {
			return false
		}
	}
	return true
}

func describeSets(a [][]int) string {
	if len(a) <= 6 {
		tot := 0
		for _, s := range a {
			tot += len(s)
		}
		if tot <= 60 {
			return fmt.Sprint(a)
		}
	}
	sizes := map[int]int{}
	for _, s := range a {
		sizes[len(s)]++
	}
	var ks []int
	for k := range sizes {
		ks = append(ks, k)
	}
	sort.Ints(ks)
	out := fmt.Sprintf("%d sets (size: count)", len(a))
	for i, k := range ks {
		if i == 12 {
			out += " ..."
			break
		}
		out += fmt.Sprintf(" %d:%d", k, sizes[k])
	}
	if len(a) > 0 && len(a[0]) > 0 {
		f := a[0]
		if len(f) > 12 {
			f = f[:12]
		}
		out += fmt.Sprintf(", first set starts %v", f)
	}
	return out
}

// ---------------------------------------------------------------------------
// the sessions

// splitUnion is a disconnected graph with exactly n vertices: path, cycle, tree, a small piece and two isolated vertices.
func splitUnion(r *engine.Rng, n int) *hgraph {
	rest := n - 2 - 6
	a := rest / 3
	b := rest/3 + 1
	return hUnion(hPath(a), hCycle(b), hEdgeless(1), hTree(r, rest-a-b, 0), hFromRG("K6", gen.Complete(6)), hEdgeless(1))
}

// fixedSession is the seed-independent script around one size.  depth 3: for
// every function f: f(A) f(A) f(B) f(A) f(S) f(A) f(C) f(A2) f(Z) f(T); depth
// 2: f(A) f(A) f(C) f(S) f(A); depth 1: Eccentricity(A) twice, Radius(A), and for the
// other functions but Diameter f(T) f(T) f(C) f(S) f(T); depth 0: only
// the functions that are at most quadratic on sparse graphs (all but
// Eccentricity, Diameter, Radius), each twice on a tree or a path, then on S.  A: cycle with a tail (connected, eccentricities
// all different along the tail), A2: a tree with three more edges, B:
// disconnected union, C: relabelled cycle (or a cycle with a chord), S: the
// Petersen graph, Z: no vertices.
func fixedSession(n, depth int) *hsession {
	r := fixedRng(n, depth, 31)
	s := &hsession{name: fmt.Sprintf("fixed/n=%d", n), kind: "fixed", rng: r}
	A := -1
	if depth >= 1 {
		A = s.add(hLollipop(n, n/2+n/20+1), "sparse")
	}
	S := s.add(hFromRG("petersen", gen.Kneser(5, 2)), "sparse")
	C := -1
	if depth >= 1 {
		if n%2 == 0 {
			C = s.add(hRelabel(hCycle(n), r.Perm(n)), "sparse")
		} else {
			C = s.add(hTheta(n, n/3), "sparse")
		}
	}
	expensive := map[string]bool{"Eccentricity": true, "Diameter": true, "Radius": true, "Girth": true}
	switch depth {
	case 3:
		B := s.add(splitUnion(r, n), "sparse")
		A2 := s.add(hRelabel(hTreePlus(r, n, 3, 3), r.Perm(n)), "sparse")
		Z := s.add(hEdgeless(0), "sparse")
		T := s.add(hTree(r, n, 1), "sparse")
		for _, f := range hugeFns {
			for _, gi := range []int{A, A, B, A, S, A, C, A2, Z, T} {
				s.step(f, gi)
			}
		}
	case 2:
		for _, f := range hugeFns {
			for _, gi := range []int{A, A, C, S, A} {
				s.step(f, gi)
			}
		}
	case 1:
		T := s.add(hTree(r, n, 0), "sparse")
		for _, f := range hugeFns {
			switch f {
			case "Eccentricity":
				s.step(f, A)
				s.step(f, A)
			case "Radius":
				s.step(f, A)
			case "Diameter":
			default:
				for _, gi := range []int{T, T, C, S, T} {
					s.step(f, gi)
				}
			}
		}
	default:
		T := s.add(hTree(r, n, 0), "sparse")
		P := s.add(hRelabel(hPath(n), r.Perm(n)), "sparse")
		for _, f := range hugeFns {
			gi := P
			if f == "Girth" || f == "Distance" {
				gi = T
			}
			if !expensive[f] || f == "Girth" {
				s.step(f, gi)
				s.step(f, gi)
				s.step(f, S)
			}
		}
	}
	return s
}

// connectedLarge picks a connected graph of bounded degree with about n vertices.
func connectedLarge(r *engine.Rng, n int) *hgraph {
	var g *hgraph
	switch r.Intn(10) {
	case 9:
		g = hCube(10)
		if n >= 2048 {
			g = hCube(11)
		}
	case 0:
		g = hLollipop(n, 3+r.Intn(n-3))
	case 1:
		g = hCycle(n)
	case 2:
		g = hPath(n)
	case 3:
		g = hTree(r, n, r.Intn(4))
	case 4:
		g = hTreePlus(r, n, 1+r.Intn(3), 1+r.Intn(6))
	case 5:
		a := 2 + r.Intn(30)
		g = hGrid(a, (n+a-1)/a)
	case 6:
		g = hPrism((n + 1) / 2)
	case 7:
		g = hTheta(n, 2+r.Intn(n-3))
	default:
		g = hTreePlus(r, n, 0, n/10+r.Intn(n/2))
	}
	if r.Bool(0.6) {
		g = hRelabel(g, r.Perm(g.n))
	}
	return g
}

func disconnectedLarge(r *engine.Rng, n int) *hgraph {
	var g *hgraph
	switch r.Intn(4) {
	case 0:
		g = splitUnion(r, n)
	case 1:
		g = hSparseRandom(r, n, 0.7+1.6*r.Float())
	case 2:
		a := n/2 + r.Intn(n/3)
		g = hUnion(connectedLarge(r, a), connectedLarge(r, n-a))
	default:
		g = hUnion(hTree(r, n-1-r.Intn(3), r.Intn(4)), hEdgeless(1))
	}
	if r.Bool(0.6) {
		g = hRelabel(g, r.Perm(g.n))
	}
	return g
}

func smallGraph(r *engine.Rng) *hgraph {
	switch r.Intn(6) {
	case 0:
		return hEdgeless(r.Intn(3))
	case 1:
		return hPath(1 + r.Intn(6))
	case 2:
		n := 4 + r.Intn(28)
		return hFromRG(fmt.Sprintf("G(%d,p)", n), gen.Random(r, n, 1.5/float64(n)+0.3*r.Float()))
	case 3:
		return hFromRG("petersen", gen.Kneser(5, 2))
	case 4:
		return hCycle(3 + r.Intn(60))
	}
	return hTree(r, 2+r.Intn(200), r.Intn(4))
}

// seededSession walks through every ordered pair of the functions fns; the
// graph of a step is the graph of the step before with probability 1/2,
// otherwise any other graph of the session.
//
// The dense representation and the view answer Neighbours in n steps, which
// makes the searches from every vertex cubic: large graphs get them only in
// the scripted representation sessions and (largeReps) in thorough runs.
func seededSession(r *engine.Rng, name string, fns []string, lo, hi int, largeReps, star bool) *hsession {
	s := &hsession{name: name, kind: "seeded", rng: r}
	anyRep := func() string { return []string{"sparse", "dense", "view"}[r.Intn(3)] }
	size := func() int { return lo + r.Intn(hi-lo+1) }
	n1 := size()
	s.add(connectedLarge(r, n1), "sparse")
	rep2 := "sparse"
	if largeReps && r.Bool(0.5) {
		rep2 = []string{"dense", "view"}[r.Intn(2)]
	}
	s.add(connectedLarge(r, size()), rep2)
	s.add(connectedLarge(r, n1), "sparse") // same size as the first one, another graph
	s.add(disconnectedLarge(r, size()), "sparse")
	if mid := 150 + r.Intn(largeN-150); mid <= 450 {
		s.add(connectedLarge(r, mid), anyRep())
	} else {
		s.add(connectedLarge(r, mid), "sparse")
	}
	s.add(smallGraph(r), anyRep())
	s.add(smallGraph(r), "sparse")
	if star {
		s.add(hStar(size()), "sparse")
	}
	order := eulerOrder(r, len(fns))
	gi := 0
	for _, fi := range order {
		for try := 0; try < 20; try++ {
			if try > 0 || r.Bool(0.5) {
				gi = r.Intn(len(s.graphs))
			}
			if applicable(fns[fi], s.graphs[gi], s.reps[gi]) {
				break
			}
		}
		s.step(fns[fi], gi)
	}
	return s
}

// repSession puts large graphs in the dense representation and behind an
// InducedSubgraph view.  Both answer Neighbours in n steps, so a search from
// every vertex is cubic: few of those.
func repSession(n int, thorough bool) *hsession {
	r := fixedRng(n, 77)
	s := &hsession{name: fmt.Sprintf("reps/n=%d", n), kind: "fixed", rng: r}
	D := s.add(hRelabel(hTreePlus(r, n+6, 3, 2), r.Perm(n+6)), "dense")
	V := s.add(hRelabel(hTreePlus(r, n, 1, 3), r.Perm(n)), "view")
	Sp := s.add(hTheta(n+1, n/4), "sparse")
	s.step("Eccentricity", D)
	s.step("Eccentricity", V)
	if thorough {
		s.step("Radius", D)
		s.step("Radius", V)
	}
	for _, gi := range []int{D, D, V, V, Sp, D} {
		s.step("Girth", gi)
	}
	s.step("Eccentricity", Sp)
	for _, f := range hugeFns[5:] {
		for _, gi := range []int{D, D, V, V, Sp, D} {
			s.step(f, gi)
		}
	}
	for _, gi := range []int{D, V, V, D} {
		s.step("Distance", gi)
	}
	if thorough {
		for _, f := range hugeDistFns {
			if f != "Diameter" {
				for _, gi := range []int{D, V, V, Sp, D, D} {
					s.step(f, gi)
				}
			}
		}
	}
	return s
}

type fixedPlan struct{ n, depth int }

func hugeWorkload(c *engine.Ctx) {
	plans := []fixedPlan{{300, 2}, {511, 2}, {512, 3}, {513, 2}, {1000, 1}, {1023, 1}, {1024, 3}, {1025, 1}, {2048, 1}, {4096, 0}}
	if c.Thorough() {
		// no Diameter (two searches from every vertex in one guarded call) beyond 2100 vertices
		plans = []fixedPlan{{300, 3}, {511, 3}, {512, 3}, {513, 3}, {1000, 3}, {1023, 3}, {1024, 3}, {1025, 3}, {1026, 2}, {1500, 2}, {2047, 2}, {2048, 3}, {2049, 2},
			{3000, 1}, {4095, 1}, {4096, 1}, {4097, 1}}
	}
	for _, p := range plans {
		p := p
		c.Unit(fmt.Sprintf("huge/fixed/n=%d", p.n), func() {
			s := fixedSession(p.n, p.depth)
			runSession(c, s)
			c.Obs(fmt.Sprintf("huge:fixed_script_depth=%d", p.depth), 1)
			if p.n == 1024 {
				c.Sample("call-sequences", map[string]interface{}{"session": s.name, "graphs": len(s.graphs), "steps": len(s.steps), "first_steps": s.describe(11)})
			}
		})
	}
	for _, n := range []int{1024, 1100}[:c.Pick(1, 2)] {
		n := n
		c.Unit(fmt.Sprintf("huge/reps/n=%d", n), func() { runSession(c, repSession(n, c.Thorough())) })
	}
	for i := 0; i < c.Pick(1, 8); i++ {
		i := i
		c.Unit(fmt.Sprintf("huge/mix/%d", i), func() {
			r := c.Rand("huge/mix", i)
			hi := 1100
			if i%4 == 3 {
				hi = 2100
			}
			fns := hugeFns
			if !c.Thorough() {
				// Diameter is Eccentricity twice; its neighbours in a sequence are covered by the search sessions
				fns = append(append([]string{}, hugeFns[:2]...), hugeFns[3:]...)
			}
			s := seededSession(r, fmt.Sprintf("mix/%d", i), fns, largeN, hi, c.Thorough() && i%4 == 1, false)
			runSession(c, s)
			if i == 0 {
				c.Sample("call-sequences", map[string]interface{}{"session": s.name, "graphs": len(s.graphs), "steps": len(s.steps), "first_steps": s.describe(11)})
			}
		})
	}
	for i := 0; i < c.Pick(1, 8); i++ {
		i := i
		c.Unit(fmt.Sprintf("huge/searches/%d", i), func() {
			r := c.Rand("huge/searches", i)
			hi := 1200
			if i%2 == 1 {
				hi = 2500
			}
			runSession(c, seededSession(r, fmt.Sprintf("searches/%d", i), hugeDistFns, largeN, hi, false, true))
		})
	}
}

// ---------------------------------------------------------------------------
// self-check of the adjacency-list oracles against the reference oracles of the small workloads

func init() {
	selfcheck.Add("c10: adjacency-list oracles against conn on small graphs, closed forms of the large families", func() error {
		r := engine.NewRng(0xC10AD)
		var gs []*rg.G
		for i := 0; i < 60; i++ {
			n := 1 + r.Intn(12)
			gs = append(gs, gen.Random(r, n, 0.1+0.5*r.Float()))
		}
		gs = append(gs, gen.Kneser(5, 2), gen.Grid(3, 4), gen.Hypercube(3), gen.Wheel(6), rg.Union(gen.Cycle(4), gen.PathG(3)), rg.New(0), rg.New(1))
		for _, g := range gs {
			h := hFromRG("g", g)
			w, msg := h.expectation(r)
			if msg != "" {
				return fmt.Errorf("%s", msg)
			}
			ref := oracle(g)
			if !eqInts(w.ecc, ref.ecc) || w.diam != ref.diam || w.rad != ref.rad || w.girth != ref.girth {
				return fmt.Errorf("%s: searches %v %d %d %d vs %v %d %d %d", g.G6(), w.ecc, w.diam, w.rad, w.girth, ref.ecc, ref.diam, ref.rad, ref.girth)
			}
			if !eqSets(w.comps, ref.comps) || !eqSets(w.blocks, ref.blocks) || !eqInts(w.art, ref.art) || !eqInts(w.isolated, ref.isolated) {
				return fmt.Errorf("%s: components / blocks / cut vertices differ", g.G6())
			}
			for a, s := range w.srcs {
				if !eqInts(w.rows[a], ref.dist[s]) {
					return fmt.Errorf("%s: distances from %d differ", g.G6(), s)
				}
			}
			if ref.indPaths != nil && ref.indCycles != nil {
				for k := 0; k <= hugeL && k <= g.N; k++ {
					if (k < g.N && w.indPath[k] != ref.indPaths[k]) || w.indCyc[k] != ref.indCycles[k] {
						return fmt.Errorf("%s: induced counts %v %v vs %v %v", g.G6(), w.indPath, w.indCyc, ref.indPaths, ref.indCycles)
					}
				}
			}
		}
		for _, h := range []*hgraph{hPath(9), hCycle(9), hCycle(4), hLollipop(12, 5), hTheta(11, 4), hGrid(3, 5), hCube(4), hPrism(6), hStar(7), hTree(r, 30, 0), hTree(r, 30, 1),
			hTree(r, 30, 2), hTree(r, 30, 3), splitUnion(r, 40), hRelabel(hLollipop(15, 6), r.Perm(15)), hUnion(hCycle(5), hTheta(8, 3), hPath(0))} {
			w, msg := h.expectation(r)
			if msg != "" {
				return fmt.Errorf("%s", msg)
			}
			if h.cycKnown && h.n <= 40 {
				m := rg.New(h.n)
				for _, e := range h.edges() {
					m.Add(e[0], e[1])
				}
				if cy, ok := conn.Cycles(m, &conn.Budget{Steps: 1 << 24}); !ok || !eqInts(cy, w.cycles) {
					return fmt.Errorf("%s: cycles by construction %v, by enumeration %v", h.name, w.cycles, cy)
				}
			}
		}
		for k := 2; k <= 5; k++ {
			seen := map[[2]int]bool{}
			o := eulerOrder(r, k)
			for i := 0; i+1 < len(o); i++ {
				seen[[2]int{o[i], o[i+1]}] = true
			}
			if len(o) != k*k+1 || len(seen) != k*k {
				return fmt.Errorf("eulerOrder(%d) covers %d pairs in %d entries", k, len(seen), len(o))
			}
		}
		return nil
	})
}

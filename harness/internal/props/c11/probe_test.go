package c11

import (
	"fmt"
	"sort"
	"testing"

	"github.com/Tom-Johnston/mamba/graph"

	"verif/internal/engine"
	"verif/internal/gen"
	"verif/internal/oracle/planarity"
	"verif/internal/oracle/rg"
)

func canon(bs [][]int) string {
	var ss []string
	for _, b := range bs {
		if len(b) < 2 {
			continue
		}
		c := append([]int(nil), b...)
		sort.Ints(c)
		ss = append(ss, fmt.Sprint(c))
	}
	sort.Strings(ss)
	return fmt.Sprint(ss)
}

func TestBicompProbe(t *testing.T) {
	bad := 0
	chk := func(g *rg.G) {
		lib, _ := graph.BiconnectedComponents(g.Dense())
		if canon(lib) != canon(planarity.Blocks(g)) {
			bad++
			if bad < 5 {
				t.Logf("differs on %s: lib %v ref %v", g.G6(), lib, planarity.Blocks(g))
			}
		}
	}
	for n := 0; n <= 7; n++ {
		for _, g := range gen.Classes(n) {
			chk(g)
			r := engine.NewRng(uint64(n))
			for k := 0; k < 5; k++ {
				chk(g.Induced(r.Perm(n)))
			}
		}
	}
	r := engine.NewRng(3)
	for i := 0; i < 20000; i++ {
		n := 5 + r.Intn(30)
		g := rg.New(n)
		m := int((0.7 + r.Float()) * float64(n))
		for g.M() < m {
			g.Add(r.Intn(n), r.Intn(n))
		}
		chk(g)
	}
	t.Logf("bad=%d", bad)
}

// Demonstration for C19 harmless change 8 (package comb panics with exported sentinel errors instead of strings).
//
// Run (from the root of the library, with and without patch.diff applied):
//
//	export GOFLAGS=-mod=mod GOPROXY=off GOSUMDB=off GOTOOLCHAIN=local
//	cp /tmp/green-out/C19/8/demo_test.go comb/zz_demo_c19_8_test.go
//	go test -vet=off -count=1 -timeout 300s -run 'TestDemoC19_8' -v ./comb
//	go test -vet=off -count=1 -timeout 600s -race -run 'TestDemoC19_8_Property' -v ./comb
//	rm comb/zz_demo_c19_8_test.go
//
// TestDemoC19_8_Incidental asserts the OLD incidental behaviour (the panic values are these four strings):
// it passes on the clean tree and fails with the patch.
// TestDemoC19_8_Property checks the property on the same inputs (and many more): every goroutine gets exactly the
// outcome (value, or panic of the same type and text) that the same call gives when run alone. Passes on both.
package comb_test

import (
	"fmt"
	"math"
	"reflect"
	"sync"
	"testing"

	"github.com/Tom-Johnston/mamba/comb"
)

// outcome8 is what one call did: the value it returned or the panic it raised.
type outcome8 struct {
	Value     interface{}
	Panicked  bool
	PanicType string
	PanicText string
	panicVal  interface{}
}

func run8(f func() interface{}) (o outcome8) {
	defer func() {
		if r := recover(); r != nil {
			o = outcome8{Panicked: true, PanicType: fmt.Sprintf("%T", r), PanicText: fmt.Sprint(r), panicVal: r}
		}
	}()
	return outcome8{Value: f()}
}

type call8 struct {
	name string
	f    func() interface{}
}

func calls8() []call8 {
	cs := []call8{
		{"CoeffUint64(100,50)", func() interface{} { return comb.CoeffUint64(100, 50) }},
		{"CoeffUint64(1<<40,3)", func() interface{} { return comb.CoeffUint64(1<<40, 3) }},
		{"Coeff(-1,2)", func() interface{} { return comb.Coeff(-1, 2) }},
		{"Coeff(68,34)", func() interface{} { return comb.Coeff(68, 34) }},
		{"Rank(2^32-1,2^32)", func() interface{} { return comb.Rank([]int{4294967295, 4294967296}) }},
		{"Rank(5,maxint)", func() interface{} { return comb.Rank([]int{5, math.MaxInt64}) }},
		{"Rank(big triple)", func() interface{} { return comb.Rank([]int{3000000, 3100000, 3200000}) }},
		{"Rank(-3)", func() interface{} { return comb.Rank([]int{-3}) }},
		{"Coeff(67,33)", func() interface{} { return comb.Coeff(67, 33) }},
		{"Coeff(5,-1)", func() interface{} { return comb.Coeff(5, -1) }},
		{"CoeffUint64(3,7)", func() interface{} { return comb.CoeffUint64(3, 7) }},
		{"Unrank(1<<40,3)", func() interface{} { return comb.Unrank(1<<40, 3) }},
		{"Coeffs(20)", func() interface{} { return comb.Coeffs(20) }},
	}
	for n := 0; n <= 40; n += 4 {
		for k := 0; k <= n; k += 3 {
			n, k := n, k
			cs = append(cs, call8{fmt.Sprintf("Coeff(%d,%d)", n, k), func() interface{} { return comb.Coeff(n, k) }})
		}
	}
	for k := 1; k <= 5; k++ {
		for r := 0; r < 2000; r += 37 {
			k, r := k, r
			cs = append(cs, call8{fmt.Sprintf("Rank(Unrank(%d,%d))", r, k), func() interface{} {
				c := comb.Unrank(r, k)
				return []interface{}{c, comb.Rank(c)}
			}})
		}
	}
	return cs
}

func TestDemoC19_8_Incidental(t *testing.T) {
	old := map[string]string{
		"CoeffUint64(100,50)":  "calculation overflows uint64",
		"CoeffUint64(1<<40,3)": "calculation overflows uint64",
		"Coeff(-1,2)":          "n must be non-negative",
		"Coeff(68,34)":         "calculation overflows uint64",
		"Rank(2^32-1,2^32)":    "rank has overflowed int",
		"Rank(5,maxint)":       "calculation overflows uint64",
		"Rank(-3)":             "n must be non-negative",
	}
	if math.MaxInt != math.MaxInt64 {
		t.Skip("written for 64 bit ints")
	}
	seen := 0
	for _, c := range calls8() {
		want, ok := old[c.name]
		if !ok {
			continue
		}
		seen++
		o := run8(c.f)
		if !o.Panicked {
			t.Fatalf("%s did not panic", c.name)
		}
		t.Logf("%s panics with %s %q", c.name, o.PanicType, o.PanicText)
		//OLD behaviour: the panic value is a string with exactly this text.
		if s, isString := o.panicVal.(string); !isString || s != want {
			t.Errorf("INCIDENTAL DIFFERENCE: %s panics with %s %q, the clean tree panics with string %q", c.name, o.PanicType, o.PanicText, want)
		}
	}
	if seen != len(old) {
		t.Fatalf("only %d of %d calls found", seen, len(old))
	}
}

func TestDemoC19_8_Property(t *testing.T) {
	cs := calls8()
	alone := make([]outcome8, len(cs))
	for i, c := range cs {
		alone[i] = run8(c.f)
	}
	//The inverse pair and the in-range values are what they must be whatever the panic values look like.
	for i, c := range cs {
		if pair, ok := alone[i].Value.([]interface{}); ok {
			var r, k int
			fmt.Sscanf(c.name, "Rank(Unrank(%d,%d))", &r, &k)
			if pair[1].(int) != r || len(pair[0].([]int)) != k {
				t.Fatalf("%s = %v", c.name, pair)
			}
		}
	}
	same := func(a, b outcome8) bool {
		return a.Panicked == b.Panicked && a.PanicType == b.PanicType && a.PanicText == b.PanicText && reflect.DeepEqual(a.Value, b.Value)
	}
	const G = 8
	var wg sync.WaitGroup
	errs := make(chan string, G)
	for g := 0; g < G; g++ {
		wg.Add(1)
		go func(g int) {
			defer wg.Done()
			for rep := 0; rep < 5; rep++ {
				for k := range cs {
					i := (k*7 + g*13) % len(cs)
					if o := run8(cs[i].f); !same(o, alone[i]) {
						errs <- fmt.Sprintf("%s: goroutine %d got %+v, alone %+v", cs[i].name, g, o, alone[i])
						return
					}
				}
			}
		}(g)
	}
	wg.Wait()
	close(errs)
	for e := range errs {
		t.Error(e)
	}
}

// Demo for green change C06/4 (RookGraph is built directly, squares numbered row by row).
//
// Run (from the root of the mamba repository):
//
//	cp /tmp/green-out/C06/4/demo_test.go graph/zz_green_c06_4_demo_test.go
//	GOFLAGS=-mod=mod GOPROXY=off GOSUMDB=off GOTOOLCHAIN=local \
//	    go test -vet=off -count=1 -timeout 120s -run 'TestGreenC06_4' -v ./graph/
//	rm graph/zz_green_c06_4_demo_test.go
//
// TestGreenC06_4_Property      passes on the clean tree AND with the change: RookGraph(n, m) is well formed and IS the
//                              n x m rook's graph (checked by an explicit isomorphism search against an independently
//                              built reference, plus N, M and regularity).
// TestGreenC06_4_OldIncidental passes on the clean tree, FAILS with the change: it pins the vertex numbering the old
//                              implementation happened to produce (the order in which LineGraphDense meets the edges
//                              of K_{n,m}, i.e. column by column), which the documentation never promised.
package graph_test

import (
	"fmt"
	"testing"

	"github.com/Tom-Johnston/mamba/graph"
)

func greenC06_4_wellFormed(g graph.Graph) error {
	n := g.N()
	m := 0
	deg := make([]int, n)
	for i := 0; i < n; i++ {
		if g.IsEdge(i, i) {
			return fmt.Errorf("loop at %d", i)
		}
		for j := 0; j < n; j++ {
			if g.IsEdge(i, j) != g.IsEdge(j, i) {
				return fmt.Errorf("not symmetric at %d,%d", i, j)
			}
			if g.IsEdge(i, j) {
				deg[i]++
				if i < j {
					m++
				}
			}
		}
	}
	if g.M() != m {
		return fmt.Errorf("M = %d but there are %d edges", g.M(), m)
	}
	d := g.Degrees()
	if len(d) != n {
		return fmt.Errorf("len(Degrees) = %d, N = %d", len(d), n)
	}
	for v := 0; v < n; v++ {
		if d[v] != deg[v] {
			return fmt.Errorf("Degrees[%d] = %d, adjacency says %d", v, d[v], deg[v])
		}
		seen := make(map[int]bool)
		for _, u := range g.Neighbours(v) {
			if u < 0 || u >= n || !g.IsEdge(u, v) || seen[u] {
				return fmt.Errorf("Neighbours(%d) = %v does not match the adjacency", v, g.Neighbours(v))
			}
			seen[u] = true
		}
		if len(seen) != deg[v] {
			return fmt.Errorf("Neighbours(%d) = %v does not match the adjacency", v, g.Neighbours(v))
		}
	}
	return nil
}

// isomorphic does a plain backtracking search for a bijection f with a[i][j] == g.IsEdge(f(i), f(j)).
func greenC06_4_isomorphic(a [][]bool, g graph.Graph) bool {
	n := len(a)
	if g.N() != n {
		return false
	}
	f := make([]int, n)
	used := make([]bool, n)
	var rec func(i int) bool
	rec = func(i int) bool {
		if i == n {
			return true
		}
		for x := 0; x < n; x++ {
			if used[x] {
				continue
			}
			ok := true
			for j := 0; j < i; j++ {
				if a[i][j] != g.IsEdge(x, f[j]) {
					ok = false
					break
				}
			}
			if ok {
				used[x] = true
				f[i] = x
				if rec(i + 1) {
					return true
				}
				used[x] = false
			}
		}
		return false
	}
	return rec(0)
}

// The n x m rook's graph: the squares of an n x m board, two squares joined iff a rook moves between them.
func greenC06_4_reference(n, m int) [][]bool {
	type sq struct{ r, c int }
	var squares []sq
	for r := 0; r < n; r++ {
		for c := 0; c < m; c++ {
			squares = append(squares, sq{r, c})
		}
	}
	a := make([][]bool, len(squares))
	for i := range a {
		a[i] = make([]bool, len(squares))
		for j := range a[i] {
			a[i][j] = i != j && (squares[i].r == squares[j].r || squares[i].c == squares[j].c)
		}
	}
	return a
}

func TestGreenC06_4_Property(t *testing.T) {
	for n := 0; n <= 4; n++ {
		for m := 0; m <= 5; m++ {
			g := graph.RookGraph(n, m)
			if err := greenC06_4_wellFormed(g); err != nil {
				t.Fatalf("RookGraph(%d,%d): %v", n, m, err)
			}
			if g.N() != n*m {
				t.Fatalf("RookGraph(%d,%d): N = %d, want %d", n, m, g.N(), n*m)
			}
			if n*m > 0 {
				if g.M() != n*m*(n+m-2)/2 {
					t.Fatalf("RookGraph(%d,%d): M = %d, want %d", n, m, g.M(), n*m*(n+m-2)/2)
				}
				for v, d := range g.Degrees() {
					if d != n+m-2 {
						t.Fatalf("RookGraph(%d,%d): vertex %d has degree %d, want %d", n, m, v, d, n+m-2)
					}
				}
			}
			if !greenC06_4_isomorphic(greenC06_4_reference(n, m), g) {
				t.Fatalf("RookGraph(%d,%d) = %q is not the %d x %d rook's graph", n, m, graph.Graph6Encode(g), n, m)
			}
		}
	}
}

// Old incidental behaviour: vertex k is the square in row k mod n and column k div n.
func TestGreenC06_4_OldIncidental(t *testing.T) {
	for _, c := range []struct {
		n, m int
		g6   string
	}{{2, 3, "ErhW"}, {3, 2, "E{Sw"}, {3, 4, "K{S{aSfcaQcf"}, {1, 4, "C~"}, {2, 2, "Cr"}} {
		got := graph.Graph6Encode(graph.RookGraph(c.n, c.m))
		if got != c.g6 {
			t.Errorf("RookGraph(%d,%d) = %q, the old implementation gave %q (same graph, other numbering of the squares)", c.n, c.m, got, c.g6)
		}
	}
	g := graph.RookGraph(2, 3)
	// Old numbering: 0 and 1 are the two squares of the first column, 1 and 2 share neither a row nor a column.
	if !g.IsEdge(0, 1) || g.IsEdge(1, 2) {
		t.Errorf("RookGraph(2,3): IsEdge(0,1) = %v, IsEdge(1,2) = %v; the old numbering gave true, false", g.IsEdge(0, 1), g.IsEdge(1, 2))
	}
}

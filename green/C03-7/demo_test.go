// Demonstration for C03 change 7 (the split of the search among the m iterators All(n, 0, m), ..., All(n, m-1, m):
// the choices at the split level are no longer numbered per search node (index among the siblings, modulo m) but
// consecutively across the whole level, in the order in which the search meets them, and dealt out in turn).
//
// Copy to graph/search/demo_test.go in the library and run from the repository root:
//
//	GOFLAGS=-mod=mod GOPROXY=off GOSUMDB=off GOTOOLCHAIN=local \
//	  go test -vet=off -count=1 -timeout 600s -run 'TestDemo' -v ./graph/search/
//
// TestDemoProperty checks the property C03 itself (brute force isomorphism keys, n <= 7, several m, All and
// WithPruning with two hereditary predicates placed as preprune and as prune, well-formedness of every value) and
// passes on both trees.  TestDemoPropertyResume does the same for iterators that are saved and loaded again in the
// middle of the search (n = 6, m = 3).
// TestDemoIncidentalShardSizes pins the OLD distribution of the classes among the shards (how many graphs each of
// the m iterators yields) and the OLD fact that All(n, a, m) is empty as soon as a is at least the largest number of
// children of a node at the split level.  It passes on the clean tree and fails with the change.  With m = 1 the
// change alters nothing at all (same graphs in the same order).
package search_test

import (
	"bytes"
	"fmt"
	"reflect"
	"testing"

	"github.com/Tom-Johnston/mamba/graph"
	"github.com/Tom-Johnston/mamba/graph/search"
)

// numClasses[n] is the number of graphs on n vertices up to isomorphism (OEIS A000088).
var numClasses = []int{1, 1, 2, 4, 11, 34, 156, 1044}

func demoPerms(n int) [][]int {
	var out [][]int
	p := make([]int, n)
	for i := range p {
		p[i] = i
	}
	var rec func(k int)
	rec = func(k int) {
		if k == n {
			out = append(out, append([]int(nil), p...))
			return
		}
		for i := k; i < n; i++ {
			p[k], p[i] = p[i], p[k]
			rec(k + 1)
			p[k], p[i] = p[i], p[k]
		}
	}
	rec(0)
	return out
}

var demoPermCache = map[int][][]int{}

// demoKey is a brute force complete isomorphism invariant: the smallest adjacency bit mask over all relabellings.
func demoKey(g *graph.DenseGraph) uint32 {
	n := g.N()
	perms, ok := demoPermCache[n]
	if !ok {
		perms = demoPerms(n)
		demoPermCache[n] = perms
	}
	type pair struct{ i, j int }
	var edges []pair
	for j := 0; j < n; j++ {
		for i := 0; i < j; i++ {
			if g.IsEdge(i, j) {
				edges = append(edges, pair{i, j})
			}
		}
	}
	best := ^uint32(0)
	for _, p := range perms {
		x := uint32(0)
		for _, e := range edges {
			a, b := p[e.i], p[e.j]
			if a > b {
				a, b = b, a
			}
			x |= 1 << uint((b*(b-1))/2+a)
		}
		if x < best {
			best = x
		}
	}
	return best
}

// demoWellFormed checks that g is a consistent DenseGraph on n vertices.
func demoWellFormed(g *graph.DenseGraph, n int) error {
	if g.NumberOfVertices != n || g.N() != n {
		return fmt.Errorf("NumberOfVertices = %d, want %d", g.NumberOfVertices, n)
	}
	if len(g.Edges) != n*(n-1)/2 {
		return fmt.Errorf("len(Edges) = %d, want %d", len(g.Edges), n*(n-1)/2)
	}
	if len(g.DegreeSequence) != n {
		return fmt.Errorf("len(DegreeSequence) = %d, want %d", len(g.DegreeSequence), n)
	}
	deg := make([]int, n)
	m := 0
	for j := 0; j < n; j++ {
		for i := 0; i < j; i++ {
			if g.Edges[(j*(j-1))/2+i] != 0 {
				if !g.IsEdge(i, j) || !g.IsEdge(j, i) {
					return fmt.Errorf("IsEdge disagrees with Edges at %d,%d", i, j)
				}
				deg[i]++
				deg[j]++
				m++
			} else if g.IsEdge(i, j) || g.IsEdge(j, i) {
				return fmt.Errorf("IsEdge disagrees with Edges at %d,%d", i, j)
			}
		}
	}
	if m != g.NumberOfEdges || m != g.M() {
		return fmt.Errorf("NumberOfEdges = %d, want %d", g.NumberOfEdges, m)
	}
	if n > 0 && !reflect.DeepEqual(deg, g.DegreeSequence) {
		return fmt.Errorf("DegreeSequence = %v, want %v", g.DegreeSequence, deg)
	}
	return nil
}

// demoCollect runs all m shards and returns key -> number of times a graph of that class was yielded.
func demoCollect(t *testing.T, n, m int, mk func(a int) *search.GraphIterator) map[uint32]int {
	seen := map[uint32]int{}
	for a := 0; a < m; a++ {
		it := mk(a)
		for it.Next() {
			g := it.Value()
			if err := demoWellFormed(g, n); err != nil {
				t.Fatalf("n=%d a=%d m=%d: malformed graph: %v", n, a, m, err)
			}
			seen[demoKey(g)]++
		}
	}
	return seen
}

func hasTriangle(g *graph.DenseGraph) bool {
	n := g.N()
	for i := 0; i < n; i++ {
		for j := i + 1; j < n; j++ {
			if !g.IsEdge(i, j) {
				continue
			}
			for k := j + 1; k < n; k++ {
				if g.IsEdge(i, k) && g.IsEdge(j, k) {
					return true
				}
			}
		}
	}
	return false
}

func maxDegreeAbove2(g *graph.DenseGraph) bool {
	for _, d := range g.Degrees() {
		if d > 2 {
			return true
		}
	}
	return false
}

func never(g *graph.DenseGraph) bool { return false }

// demoClassesSatisfying enumerates every labelled graph on n vertices to compute, independently of the
// library's search, the set of classes which are not pruned by the predicate.
func demoClassesSatisfying(n int, pruned func(*graph.DenseGraph) bool) map[uint32]bool {
	out := map[uint32]bool{}
	e := n * (n - 1) / 2
	for mask := 0; mask < 1<<uint(e); mask++ {
		g := graph.NewDense(n, nil)
		for j := 0; j < n; j++ {
			for i := 0; i < j; i++ {
				if mask>>uint((j*(j-1))/2+i)&1 == 1 {
					g.AddEdge(i, j)
				}
			}
		}
		if !pruned(g) {
			out[demoKey(g)] = true
		}
	}
	return out
}

func TestDemoProperty(t *testing.T) {
	preds := map[string]func(*graph.DenseGraph) bool{"triangle": hasTriangle, "maxdeg>2": maxDegreeAbove2}
	for n := 0; n <= 7; n++ {
		ms := []int{1, 2, 3, 4, 7}
		if n == 7 {
			ms = []int{1, 2, 3}
		}
		// The classes which do NOT get pruned, per predicate. For n <= 6 computed without the library's search (all
		// labelled graphs), for n = 7 from the unpruned m = 1 run (which is itself checked against the class count).
		want := map[string]map[uint32]bool{}
		if n <= 6 {
			all := demoClassesSatisfying(n, never)
			if len(all) != numClasses[n] {
				t.Fatalf("demo brute force is wrong: n=%d %d classes", n, len(all))
			}
			for name, pred := range preds {
				want[name] = demoClassesSatisfying(n, pred)
			}
		}
		for _, m := range ms {
			seen := demoCollect(t, n, m, func(a int) *search.GraphIterator { return search.All(n, a, m) })
			if len(seen) != numClasses[n] {
				t.Fatalf("All n=%d m=%d: %d classes, want %d", n, m, len(seen), numClasses[n])
			}
			for k, c := range seen {
				if c != 1 {
					t.Fatalf("All n=%d m=%d: class %x yielded %d times", n, m, k, c)
				}
			}
			if m == 1 && n > 6 {
				for name, pred := range preds {
					want[name] = map[uint32]bool{}
					it := search.All(n, 0, 1)
					for it.Next() {
						if !pred(it.Value()) {
							want[name][demoKey(it.Value())] = true
						}
					}
				}
			}
			for name, pred := range preds {
				for _, place := range []string{"preprune", "prune"} {
					pred, place := pred, place
					seen := demoCollect(t, n, m, func(a int) *search.GraphIterator {
						if place == "preprune" {
							return search.WithPruning(n, a, m, pred, never)
						}
						return search.WithPruning(n, a, m, never, pred)
					})
					if len(seen) != len(want[name]) {
						t.Fatalf("WithPruning %s as %s n=%d m=%d: %d classes, want %d", name, place, n, m, len(seen), len(want[name]))
					}
					for k, c := range seen {
						if c != 1 || !want[name][k] {
							t.Fatalf("WithPruning %s as %s n=%d m=%d: class %x yielded %d times, wanted=%v", name, place, n, m, k, c, want[name][k])
						}
					}
				}
			}
		}
	}
}

func demoShardSizes(n, m int) []int {
	counts := make([]int, m)
	for a := 0; a < m; a++ {
		it := search.All(n, a, m)
		for it.Next() {
			counts[a]++
		}
	}
	return counts
}

func TestDemoPropertyResume(t *testing.T) {
	const n, m = 6, 3
	for _, stopAfter := range []int{0, 1, 5, 17} {
		seen := map[uint32]int{}
		for a := 0; a < m; a++ {
			it := search.All(n, a, m)
			for k := 0; k < stopAfter && it.Next(); k++ {
				seen[demoKey(it.Value())]++
			}
			buf := new(bytes.Buffer)
			it.Save(buf)
			it = search.Load(buf, never, never)
			for it.Next() {
				if err := demoWellFormed(it.Value(), n); err != nil {
					t.Fatal(err)
				}
				seen[demoKey(it.Value())]++
			}
		}
		if len(seen) != numClasses[n] {
			t.Fatalf("resume after %d: %d classes, want %d", stopAfter, len(seen), numClasses[n])
		}
		for k, c := range seen {
			if c != 1 {
				t.Fatalf("resume after %d: class %x yielded %d times", stopAfter, k, c)
			}
		}
	}
}

func TestDemoIncidentalShardSizes(t *testing.T) {
	old := []struct {
		n, m int
		want []int
	}{
		{3, 2, []int{1, 3}},
		{5, 3, []int{14, 7, 13}},
		{6, 3, []int{68, 20, 68}},
		{6, 4, []int{8, 20, 68, 60}},
		{7, 4, []int{187, 229, 293, 335}},
		// Old: a node at the split level of n = 6 has at most 4 children, so the shards a >= 4 are empty for every m.
		{6, 16, []int{8, 20, 68, 60, 0, 0, 0, 0, 0, 0, 0, 0, 0, 0, 0, 0}},
	}
	for _, c := range old {
		got := demoShardSizes(c.n, c.m)
		sum := 0
		for _, x := range got {
			sum += x
		}
		t.Logf("n=%d m=%d: graphs per shard %v (total %d)", c.n, c.m, got, sum)
		if sum != numClasses[c.n] {
			t.Errorf("n=%d m=%d: PROPERTY: total %d, want %d", c.n, c.m, sum, numClasses[c.n])
		}
		if !reflect.DeepEqual(got, c.want) {
			t.Errorf("n=%d m=%d: old split %v, got %v", c.n, c.m, c.want, got)
		}
	}
}

// Demonstration for C14, change 3 (GobDecode checks its input and only touches the receiver on success).
//
// Run (from the root of the library, after copying this file into the dawg directory):
//
//	cp demo_test.go <repo>/dawg/c14_demo_test.go
//	cd <repo> && GOFLAGS=-mod=mod GOPROXY=off GOSUMDB=off GOTOOLCHAIN=local go test -vet=off -count=1 -timeout 600s -run 'TestC14Demo' -v ./dawg
//
// TestC14DemoProperty checks the property itself (round trip directly and through encoding/gob, also into a receiver
// that already holds another dawg, stable re-encoding) and passes before and after the change.
// TestC14DemoIncidentalCorruptPanics pins the OLD behaviour on bytes that GobEncode never produces (a link target or a
// node index beyond the node table, a node count of 0): GobDecode panics with an index out of range.  With the change
// it returns an error, so this test passes on the clean tree and fails with the change.
// TestC14DemoIncidentalStateAfterError pins the OLD state of the receiver after a failed GobDecode of a truncated
// encoding: the receiver has already been overwritten with the beginning of the new dawg.  With the change the receiver
// still holds the dawg it held before, so this test passes on the clean tree and fails with the change.
package dawg_test

import (
	"bytes"
	"encoding/gob"
	"fmt"
	"sort"
	"testing"

	"github.com/Tom-Johnston/mamba/dawg"
)

func c14Sorted(ws [][]byte) [][]byte {
	sort.Slice(ws, func(i, j int) bool { return bytes.Compare(ws[i], ws[j]) < 0 })
	return ws
}

// c14WordSets returns word sets with wide branching (up to 256 links per node) and with word and node counts on both
// sides of 127.
func c14WordSets() map[string][][]byte {
	sets := map[string][][]byte{}
	sets["empty"] = nil
	sets["emptyword"] = [][]byte{{}}
	for _, k := range []int{1, 127, 128, 129, 200, 256} {
		var ws [][]byte
		for b := 0; b < k; b++ {
			ws = append(ws, []byte{byte(b)})
		}
		sets[fmt.Sprintf("fan%d", k)] = ws
	}
	//256 children at the root and below them a chain of 150 nodes, every one final: more than 127 nodes.
	var ws [][]byte
	for b := 0; b < 256; b++ {
		ws = append(ws, []byte{byte(b)})
	}
	for k := 1; k <= 150; k++ {
		ws = append(ws, append([]byte{0xff}, bytes.Repeat([]byte{'a'}, k)...))
	}
	sets["fan256chain150"] = c14Sorted(ws)
	//Two levels of wide branching with different subtrees.
	ws = nil
	for a := 0; a < 130; a++ {
		for b := 0; b <= a; b += 7 {
			ws = append(ws, []byte{byte(a + 100), byte(b * 2)})
		}
	}
	sets["twolevel"] = c14Sorted(ws)
	return sets
}

func c14Same(t *testing.T, name string, words [][]byte, d, e *dawg.Dawg) {
	t.Helper()
	if d.NumberOfWords() != len(words) || e.NumberOfWords() != len(words) {
		t.Fatalf("%s: word count %d / %d, want %d", name, d.NumberOfWords(), e.NumberOfWords(), len(words))
	}
	sd, id := d.Search()
	se, ie := e.Search()
	if len(sd) != len(words) || len(se) != len(words) {
		t.Fatalf("%s: Search() lists %d / %d words, want %d", name, len(sd), len(se), len(words))
	}
	for i := range words {
		if !bytes.Equal(sd[i], words[i]) || !bytes.Equal(se[i], words[i]) || id[i] != i || ie[i] != i {
			t.Fatalf("%s: word %d differs after the round trip", name, i)
		}
		rd, okd := d.Lookup(words[i])
		re, oke := e.Lookup(words[i])
		if !okd || !oke || rd != i || re != i {
			t.Fatalf("%s: rank of word %d: %d,%v / %d,%v", name, i, rd, okd, re, oke)
		}
		if _, ok := e.Lookup(append(append([]byte{}, words[i]...), 0xfe, 0x01)); ok {
			t.Fatalf("%s: a non-word is accepted after the round trip", name)
		}
	}
	for _, pat := range [][]byte{{'?'}, {'?', '?'}, {0xff, '?'}, {'?', 0}, {0xff, 'a', 'a', '?'}} {
		pd, pid := d.Search(dawg.NewPatternSearcher(pat, '?'))
		pe, pie := e.Search(dawg.NewPatternSearcher(pat, '?'))
		if fmt.Sprint(pd, pid) != fmt.Sprint(pe, pie) {
			t.Fatalf("%s: pattern %q gives different results after the round trip", name, pat)
		}
	}
}

func TestC14DemoProperty(t *testing.T) {
	//reused is a receiver that always holds the previously decoded dawg already.
	reused := new(dawg.Dawg)
	for name, words := range c14WordSets() {
		d, err := dawg.New(words)
		if err != nil {
			t.Fatal(name, err)
		}
		enc, err := d.GobEncode()
		if err != nil {
			t.Fatal(name, err)
		}
		//Directly.
		e := new(dawg.Dawg)
		if err := e.GobDecode(append([]byte{}, enc...)); err != nil {
			t.Fatalf("%s: GobDecode: %v", name, err)
		}
		c14Same(t, name, words, d, e)
		enc2, err := e.GobEncode()
		if err != nil || !bytes.Equal(enc, enc2) {
			t.Fatalf("%s: encoding the decoded dawg again gives other bytes (err %v)", name, err)
		}
		//Directly, into a receiver which is in use.
		if err := reused.GobDecode(append([]byte{}, enc...)); err != nil {
			t.Fatalf("%s: GobDecode (reused receiver): %v", name, err)
		}
		c14Same(t, name+"/reused", words, d, reused)
		enc4, err := reused.GobEncode()
		if err != nil || !bytes.Equal(enc, enc4) {
			t.Fatalf("%s: encoding the dawg decoded into a used receiver gives other bytes (err %v)", name, err)
		}
		//Through encoding/gob.
		var buf bytes.Buffer
		if err := gob.NewEncoder(&buf).Encode(d); err != nil {
			t.Fatal(name, err)
		}
		g := new(dawg.Dawg)
		if err := gob.NewDecoder(&buf).Decode(g); err != nil {
			t.Fatalf("%s: gob: %v", name, err)
		}
		c14Same(t, name+"/gob", words, d, g)
		enc3, err := g.GobEncode()
		if err != nil || !bytes.Equal(enc, enc3) {
			t.Fatalf("%s: encoding the gob-decoded dawg again gives other bytes (err %v)", name, err)
		}
	}
}

// c14DecodePanics reports whether GobDecode(b) panics and otherwise the error it returned.
func c14DecodePanics(b []byte) (panicked bool, err error) {
	defer func() {
		if r := recover(); r != nil {
			panicked = true
		}
	}()
	err = new(dawg.Dawg).GobDecode(b)
	return false, err
}

func TestC14DemoIncidentalCorruptPanics(t *testing.T) {
	d, err := dawg.New([][]byte{[]byte("a"), []byte("b")})
	if err != nil {
		t.Fatal(err)
	}
	enc, err := d.GobEncode()
	if err != nil {
		t.Fatal(err)
	}
	//Two nodes (ids 0 and 1): 02 00 01, root record 00 02 00 02 'a' 01 'b' 01, leaf record 01 01 01 00.
	want := []byte{2, 0, 1, 0, 2, 0, 2, 'a', 1, 'b', 1, 1, 1, 1, 0}
	if !bytes.Equal(enc, want) {
		t.Fatalf("unexpected encoding % x (this demonstration needs the layout % x)", enc, want)
	}
	//None of the following is ever produced by GobEncode.
	corrupt := map[string][]byte{
		"link target 0x7f of 2 nodes": {2, 0, 1, 0, 2, 0, 2, 'a', 1, 'b', 0x7f, 1, 1, 1, 0},
		"record for node index 5":     {2, 0, 1, 0, 2, 0, 2, 'a', 1, 'b', 1, 5, 1, 1, 0},
		"node count 0":                {0},
	}
	for name, b := range corrupt {
		panicked, err := c14DecodePanics(b)
		t.Logf("%s: panicked=%v err=%v", name, panicked, err)
		if !panicked {
			t.Errorf("%s: OLD behaviour is a panic (index out of range); got a return with err=%v", name, err)
		}
	}
}

func TestC14DemoIncidentalStateAfterError(t *testing.T) {
	wordsA := [][]byte{[]byte("x"), []byte("xy"), []byte("z")}
	wordsB := [][]byte{[]byte("a"), []byte("b")}
	a, err := dawg.New(wordsA)
	if err != nil {
		t.Fatal(err)
	}
	b, err := dawg.New(wordsB)
	if err != nil {
		t.Fatal(err)
	}
	encA, _ := a.GobEncode()
	encB, _ := b.GobEncode()
	e := new(dawg.Dawg)
	if err := e.GobDecode(encA); err != nil {
		t.Fatal(err)
	}
	if e.NumberOfWords() != 3 {
		t.Fatal("e does not hold A")
	}
	//The encoding of B cut just before the record of its second node: an error in both versions.
	if err := e.GobDecode(encB[:len(encB)-4]); err == nil {
		t.Fatal("a truncated encoding was accepted")
	} else {
		t.Logf("error for the truncated encoding: %v", err)
	}
	_, okx := e.Lookup([]byte("x"))
	_, oka := e.Lookup([]byte("a"))
	t.Logf("after the failed GobDecode: NumberOfWords=%d, has x: %v, has a: %v", e.NumberOfWords(), okx, oka)
	//OLD: the receiver is the root of the half-read B by now: 2 words counted, the words of A are gone.
	if e.NumberOfWords() != 2 || okx {
		t.Fatalf("OLD behaviour is a receiver overwritten with the beginning of the new dawg; it still holds the previous one")
	}
}

package c15

// Caller-owned RESULTS.  Two methods of itertools hand out values that the
// documentation gives to the caller:
//   PartitionIterator.Value            "It is safe to modify the output of .Value()."
//   MultisetCombinationIterator.Value  "You may modify the return value."
// Every other Value / FreqValue / InverseValue says that the result must not be
// modified; those are never written to by the monitor (recorded in the evidence).
//
// Every other workload copies a value the moment it is handed out and, at most,
// overwrites its entries.  What a caller who owns a value may do with it is a
// dimension of its own: write into every entry, APPEND to every inner slice and to
// the outer slice (an append stays inside the spare capacity of the slice if there
// is any, and that storage may belong to something else), write into the spare
// capacity through a re-slice, truncate and grow again, drop parts and put new
// ones in, ask Value again for the same object, and keep the modified values while
// the iterator - and other iterators - go on.  Here every value of a granted
// method gets one of these treatments (the treatment of the i-th value read cycles
// through the table, shifted from case to case so that every position meets every
// treatment), and the monitor keeps a MODEL of what the caller did in storage the
// library has never seen.  Judged:
//   * after every single operation the caller's value is the model (an append to
//     one part must not show up in another part of the same value);
//   * FreqValue (read-only companion of the same object) reads the same before and
//     after the caller modified Value;
//   * Value called again without a Next in between yields the current object again;
//   * the enumeration (every later value, the order, the count, exhaustion) is what
//     the reference says although all earlier values were modified;
//   * a modified value still is the model after other iterators were operated
//     (bystanders alive in the same history: iterators of the same and of other
//     kinds, their own values modified too) and - Partitions only, whose results are
//     fresh objects - after further calls of Next of its own iterator, also several
//     of them (Value read only after every second / third Next).
// Recorded, not judged: what an earlier result looks like after Value of the same
// iterator was called again (MultisetCombinations documents a buffer; for
// Partitions the sentence "safe to modify" does not say "a copy"), what a
// MultisetCombinations value looks like after Next of its own iterator, and how
// much spare capacity the returned slices have.

import (
	"fmt"

	"github.com/Tom-Johnston/mamba/itertools"

	"verif/internal/engine"
)

var resultTreatments = []string{"write", "append-each", "append-each-backwards", "append-many", "fill-capacity", "outer", "truncate-regrow", "drop-and-refill", "everything", "keep"}

// results whose documentation forbids modification: never modified here
var readOnlyResults = []string{"Combinations.Value", "CombinationsColex.Value", "MultisetCombinations.FreqValue", "IntegerPartitions.Value", "Permutations.Value",
	"LexicographicPermutations.Value", "MultisetPermutations.Value", "TopologicalSorts.Value", "TopologicalSorts.InverseValue", "RestrictedPrefixPermutations.Value",
	"PermutationsByPattern.Value", "Product.Value", "RestrictedPrefixProduct.Value"}

type ownedIter struct {
	next  func() bool
	value func() [][]int // the parts of the value (Partitions: the [][]int as returned; MultisetCombinations: the returned []int as the one part of a wrapper the monitor made)
	aux   func() []int   // read-only companion view, nil if none
}

// resSpec: one iterator of a history.
type resSpec struct {
	k         *kase
	name      string           // how the results are called in observations ("Partitions", "MultisetCombinations.Value")
	grant     string           // the sentence of the documentation
	open      func() ownedIter // nil: a bystander, driven through k.build by the ordinary stepper; its values are never modified
	outer     bool             // the outer slice of value() is the library's
	flat      func(v [][]int) []int
	judgeNext bool // a modified value must survive Next of its own iterator (false: recorded)
	treat     func(i, copyNo int) string
	sched     string // description of treat
	again     int    // > 0: Value is called a second time for every again-th object read
	every     int    // Value is read after every every-th successful Next ...
	from      int    // ... starting with call #from
}

type ownedVal struct {
	nextNo, copyNo int
	orig           [][]int // as handed out
	v              [][]int // the caller's value
	model          [][]int // what the caller made of it
	treat          string
	stale          bool // Value of its iterator was called again (or an unjudged change was seen): nothing is judged of it any more
}

func deepInts(v [][]int) [][]int {
	r := make([][]int, len(v))
	for i := range v {
		r[i] = cpInts(v[i])
	}
	return r
}

func (o *ownedVal) diff() string {
	if len(o.v) != len(o.model) {
		return fmt.Sprintf("it has %d parts, the caller made %d", len(o.v), len(o.model))
	}
	for b := range o.v {
		if !sameInts(o.v[b], o.model[b]) {
			return fmt.Sprintf("part %d holds %v, the caller put %v there", b, o.v[b], o.model[b])
		}
	}
	return ""
}

type resCounts struct {
	values, writes, innerAppends, innerAppendsNotLast, outerAppends, capWrites, spareInner, spareOuter, ops int
	checksOther, checksNext, checksNextUnjudged, againCalls, auxChecks, keptOverSeveral                     int
	staleIntact, staleChanged, nextIntact, nextChanged, endIntact, endChanged                               int
	treatments                                                                                              map[string]int
}

type resPart struct {
	s        *resSpec
	tr       *trace
	it       ownedIter
	st       *stepper
	lastRaw  []int
	lastAux  []int
	fresh    []*ownedVal
	kept     []*ownedVal
	succ     int
	read     int
	late     int
	sinceVal int // calls of Next since Value was read last
	done     bool
	taken    []int // index (0-based number of the successful Next) of every value read
	again    [][2]interface{}
	cnt      resCounts
}

type resFinding struct {
	part                     int
	kind, observed, expected string
}

type resHistory struct {
	name  string
	mode  string // sequential, interleaved, seeded-interleaving
	parts []*resPart
	rng   *engine.Rng
	mark  int
	find  *resFinding
	cur   int
}

func (h *resHistory) nextMark() int {
	h.mark++
	return -1000 - h.mark
}

func (h *resHistory) found(p int, kind, observed, expected string) {
	if h.find == nil {
		h.find = &resFinding{p, kind, observed, expected}
	}
}

// apply performs one treatment on a value the documentation gives to the caller; "" = the value is what the caller made of it after every operation.
func (h *resHistory) apply(pt *resPart, o *ownedVal, treat string) string {
	cnt := &pt.cnt
	bad := ""
	ok := func(op string) bool {
		cnt.ops++
		if bad == "" {
			if d := o.diff(); d != "" {
				bad = fmt.Sprintf("the value was %v; after %s the caller holds %v: %s", o.orig, op, o.v, d)
			}
		}
		return bad == ""
	}
	write := func() bool {
		for b := range o.v {
			for i := range o.v[b] {
				x := h.nextMark()
				o.v[b][i] = x
				o.model[b][i] = x
				cnt.writes++
			}
			if !ok(fmt.Sprintf("overwriting every entry of part %d", b)) {
				return false
			}
		}
		return true
	}
	appendTo := func(b, times int) bool {
		var xs []int
		for t := 0; t < times; t++ {
			x := h.nextMark()
			xs = append(xs, x)
			if b < len(o.v)-1 {
				cnt.innerAppendsNotLast++
			}
			cnt.innerAppends++
			o.v[b] = append(o.v[b], x)
			o.model[b] = append(o.model[b], x)
		}
		return ok(fmt.Sprintf("value[%d] = append(value[%d], %s)", b, b, ints(xs)[1:len(ints(xs))-1]))
	}
	appendEach := func(times int, backwards bool) bool {
		for j := range o.v {
			b := j
			if backwards {
				b = len(o.v) - 1 - j
			}
			if !appendTo(b, times) {
				return false
			}
		}
		return true
	}
	fill := func() bool {
		for b := range o.v {
			s := o.v[b][:cap(o.v[b])]
			n := 0
			for i := len(o.v[b]); i < len(s); i++ {
				x := h.nextMark()
				s[i] = x
				o.model[b] = append(o.model[b], x)
				cnt.capWrites++
				n++
			}
			o.v[b] = s
			if !ok(fmt.Sprintf("value[%d] = value[%d][:cap(value[%d])] with the %d entries of spare capacity written", b, b, b, n)) {
				return false
			}
			if !appendTo(b, 1) {
				return false
			}
		}
		return true
	}
	outer := func() bool {
		// spare capacity of the outer slice, then real appends
		s := o.v[:cap(o.v)]
		n := 0
		for i := len(o.v); i < len(s); i++ {
			x := h.nextMark()
			s[i] = []int{x}
			o.model = append(o.model, []int{x})
			cnt.capWrites++
			n++
		}
		o.v = s
		if !ok(fmt.Sprintf("value = value[:cap(value)] with %d new parts put into the spare capacity", n)) {
			return false
		}
		for t := 1; t <= 2; t++ {
			nb := make([]int, t, t+1)
			for i := range nb {
				nb[i] = h.nextMark()
			}
			o.v = append(o.v, nb)
			o.model = append(o.model, cpInts(nb))
			cnt.outerAppends++
			if !ok(fmt.Sprintf("value = append(value, %v)", nb)) {
				return false
			}
		}
		return true
	}
	switch treat {
	case "keep":
	case "write":
		write()
	case "append-each":
		appendEach(1, false)
	case "append-each-backwards":
		appendEach(1, true)
	case "append-many":
		tot := 2
		for _, b := range o.v {
			tot += len(b)
		}
		appendEach(tot, false)
	case "fill-capacity":
		fill()
	case "outer":
		if pt.s.outer {
			if outer() {
				appendEach(1, false)
			}
		} else if appendEach(2, false) {
			write()
		}
	case "truncate-regrow":
		for b := range o.v {
			l := len(o.v[b])
			o.v[b] = o.v[b][:0]
			o.model[b] = []int{}
			if !ok(fmt.Sprintf("value[%d] = value[%d][:0]", b, b)) || !appendTo(b, l+1) {
				break
			}
		}
	case "drop-and-refill":
		l := len(o.v)
		for b := range o.v {
			o.v[b] = nil
			o.model[b] = nil
		}
		if ok("setting every part to nil") && pt.s.outer {
			o.v = o.v[:0]
			o.model = o.model[:0]
			for t := 0; t <= l; t++ {
				nb := []int{h.nextMark(), h.nextMark()}
				o.v = append(o.v, nb)
				o.model = append(o.model, cpInts(nb))
				cnt.outerAppends++
			}
			ok(fmt.Sprintf("value = value[:0] and %d new parts appended", l+1))
		} else if bad == "" {
			for b := range o.v {
				if !appendTo(b, 2) {
					break
				}
			}
		}
	case "everything":
		if write() && appendEach(1, true) && (!pt.s.outer || outer()) && fill() {
			write()
		}
	}
	return bad
}

// take reads Value (copyNo 1: after a successful Next; 2: once more for the same object), copies it for the verdict on the enumeration and treats it.
func (h *resHistory) take(pi int, copyNo int) {
	pt := h.parts[pi]
	tr, s := pt.tr, pt.s
	// every earlier result of this iterator: nothing is demanded of it once Value is called again (recorded)
	old := pt.fresh
	pt.fresh = nil
	if copyNo == 1 {
		tr.phase = fmt.Sprintf("Value after Next call #%d", tr.calls)
	} else {
		tr.phase = fmt.Sprintf("Value called again after Next call #%d (the caller has modified the first result)", tr.calls)
		pt.cnt.againCalls++
	}
	v := pt.it.value()
	raw := s.flat(v)
	var aux []int
	if pt.it.aux != nil {
		aux = cpInts(pt.it.aux())
	}
	if copyNo == 1 {
		tr.raw = append(tr.raw, raw)
		if pt.it.aux != nil {
			tr.aux = append(tr.aux, aux)
		}
		pt.taken = append(pt.taken, pt.succ-1)
	} else {
		pt.again = append(pt.again, [2]interface{}{len(tr.raw) - 1, raw})
	}
	for _, o := range old {
		o.stale = true
		if o.diff() == "" {
			pt.cnt.staleIntact++
		} else {
			pt.cnt.staleChanged++
		}
	}
	for _, b := range v {
		if cap(b) > len(b) {
			pt.cnt.spareInner++
		}
	}
	if s.outer && cap(v) > len(v) {
		pt.cnt.spareOuter++
	}
	pt.read++
	treat := s.treat(pt.read-1, copyNo)
	o := &ownedVal{nextNo: tr.calls, copyNo: copyNo, orig: deepInts(v), v: v, model: deepInts(v), treat: treat}
	pt.cnt.values++
	pt.cnt.treatments[treat]++
	tr.phase = fmt.Sprintf("the caller modifying the result of Value after Next call #%d (%s)", tr.calls, treat)
	if bad := h.apply(pt, o, treat); bad != "" {
		h.found(pi, "modifying-one-part-of-a-result-changes-another-part", fmt.Sprintf("Value after Next call #%d, treatment %q: %s", tr.calls, treat, bad),
			"a result that the documentation gives to the caller ("+s.grant+") holds exactly what the caller put there after every write and append")
		o.stale = true
	}
	if pt.it.aux != nil {
		tr.phase = fmt.Sprintf("%s after the caller modified the result of Value (Next call #%d)", s.k.auxName, tr.calls)
		now := pt.it.aux()
		pt.cnt.auxChecks++
		if !sameInts(now, aux) {
			h.found(pi, s.k.auxName+"-changed-by-modifying-Value", fmt.Sprintf("after Next call #%d %s was %v; after the caller modified the result of Value (%v, treatment %q, now %v) it is %v", tr.calls, s.k.auxName, aux, o.orig, treat, o.v, cpInts(now)),
				s.k.auxName+" describes the current object whatever the caller does with the result of Value ("+s.grant+")")
		}
	}
	pt.kept = append(pt.kept, o)
	if !o.stale {
		pt.fresh = append(pt.fresh, o)
	}
	pt.sinceVal = 0
}

// checkFresh compares the results the caller still holds (and has modified) with the model.
func (h *resHistory) checkFresh(pi int, when string, own bool) {
	pt := h.parts[pi]
	judged := !own || pt.s.judgeNext
	for _, o := range pt.fresh {
		if o.stale {
			continue
		}
		d := o.diff()
		switch {
		case !own:
			if len(h.parts) > 1 {
				pt.cnt.checksOther++
			}
		case judged:
			pt.cnt.checksNext++
			if pt.sinceVal >= 2 {
				pt.cnt.keptOverSeveral++
			}
		default:
			pt.cnt.checksNextUnjudged++
			if d == "" {
				pt.cnt.nextIntact++
			} else {
				pt.cnt.nextChanged++
				o.stale = true
			}
		}
		if d != "" && judged {
			o.stale = true
			kind, exp := "modified-result-changed-by-another-iterator", "a result the caller holds stays what the caller made of it while only other iterators are operated"
			if own {
				kind, exp = "modified-result-changed-by-Next", "a result that the documentation gives to the caller ("+pt.s.grant+") stays what the caller made of it when the iterator moves on"
			}
			h.found(pi, kind, fmt.Sprintf("the result of Value after Next call #%d (copy %d) was %v, the caller made it %v (treatment %q); %s it holds %v: %s", o.nextNo, o.copyNo, o.orig, o.model, o.treat, when, o.v, d), exp)
		}
	}
}

func (h *resHistory) build(pi int) {
	h.cur = pi
	pt := h.parts[pi]
	pt.tr.phase = "constructor"
	if pt.s.open == nil {
		pt.st = &stepper{k: pt.s.k, tr: pt.tr, expected: expectedOf(pt.s.k)}
		pt.st.it = pt.s.k.build()
		return
	}
	pt.it = pt.s.open()
}

// step: one call of Next on one iterator of the history (and whatever the caller does with the value it announces); false = its life is over.
func (h *resHistory) step(pi int) bool {
	h.cur = pi
	pt := h.parts[pi]
	tr, s := pt.tr, pt.s
	if pt.done {
		return false
	}
	if pt.st != nil {
		// bystander: its last value must not have changed while the others were operated and their values modified
		if pt.st.held != nil && !sameInts(pt.st.held, pt.lastRaw) {
			h.found(pi, "value-changed-by-another-iterator", fmt.Sprintf("the slice returned by Value after Next call #%d held %v and holds %v before the next call of Next on that iterator (only other iterators were advanced and their results modified in between)", tr.calls, pt.lastRaw, cpInts(pt.st.held)),
				"the object an iterator has yielded stays what it was until that iterator is advanced")
		} else if pt.st.heldAux != nil && !sameInts(pt.st.heldAux, pt.lastAux) {
			h.found(pi, "value-changed-by-another-iterator", fmt.Sprintf("the slice returned by %s after Next call #%d held %v and holds %v before the next call of Next on that iterator (only other iterators were advanced and their results modified in between)", s.k.auxName, tr.calls, pt.lastAux, cpInts(pt.st.heldAux)),
				"the object an iterator has yielded stays what it was until that iterator is advanced")
		}
		pt.cnt.checksOther++
		more := pt.st.step()
		pt.lastRaw, pt.lastAux = lastOf(tr.raw), lastOf(tr.aux)
		pt.done = pt.st.done
		return more
	}
	h.checkFresh(pi, fmt.Sprintf("before Next call #%d of its iterator (only other iterators were operated since it was last compared)", tr.calls+1), false)
	tr.calls++
	pt.sinceVal++
	if !tr.exhausted {
		tr.phase = fmt.Sprintf("Next call #%d", tr.calls)
		if !pt.it.next() {
			tr.exhausted = true
			h.checkFresh(pi, fmt.Sprintf("after Next call #%d of its iterator (which returned false)", tr.calls), true)
			return true
		}
		pt.succ++
		h.checkFresh(pi, fmt.Sprintf("after Next call #%d of its iterator", tr.calls), true)
		over := pt.succ > len(s.k.want)
		if pt.succ >= s.from && (pt.succ-s.from)%s.every == 0 || over && s.every == 1 {
			h.take(pi, 1)
			if s.again > 0 && len(pt.taken)%s.again == 0 {
				h.take(pi, 2)
			}
		}
		if over {
			tr.over = true
			pt.done = true
			return false
		}
		return true
	}
	pt.late++
	tr.phase = fmt.Sprintf("Next call #%d (call %d after exhaustion was reported)", tr.calls, pt.late)
	if pt.it.next() {
		tr.lateTrue = pt.late
		tr.phase = fmt.Sprintf("Value after Next call #%d", tr.calls)
		tr.lateValue = s.flat(pt.it.value())
		pt.done = true
		return false
	}
	tr.further++
	h.checkFresh(pi, fmt.Sprintf("after Next call #%d of its iterator (call %d after exhaustion was reported)", tr.calls, pt.late), true)
	if pt.late == 3 {
		tr.phase = "done"
		pt.done = true
		return false
	}
	return true
}

func (h *resHistory) finishRun() {
	for pi, pt := range h.parts {
		if pt.st != nil {
			continue
		}
		h.checkFresh(pi, "at the end of the history (other iterators were operated since it was last compared)", false)
		for _, o := range pt.kept {
			if o.diff() == "" {
				pt.cnt.endIntact++
			} else {
				pt.cnt.endChanged++
			}
		}
	}
}

func (r *runner) runResults(h *resHistory) {
	c := r.c
	if c.Stopped() || len(h.parts) == 0 {
		return
	}
	calls := make([]string, len(h.parts))
	for i, pt := range h.parts {
		calls[i] = pt.s.k.api + "(" + pt.s.k.witness + ")"
	}
	single := len(h.parts) == 1
	for i, pt := range h.parts {
		k := pt.s.k
		c.Eval(1)
		c.Obs("cases:"+k.api, 1)
		pt.tr = &trace{}
		pt.cnt.treatments = map[string]int{}
		if k.detail == nil {
			k.detail = map[string]interface{}{}
		}
		if pt.s.open != nil {
			k.witness += fmt.Sprintf(",results-modified[%s;Value read after every %d. Next from #%d;called again for every %d. object read]", pt.s.sched, pt.s.every, pt.s.from, pt.s.again)
			k.detail["treatments"] = resultTreatments
			k.detail["documentation"] = pt.s.grant
		}
		if !single {
			k.witness += fmt.Sprintf(",history[%s;%s;iterator %d of %d]", h.name, h.mode, i+1, len(h.parts))
			k.detail["history_mode"] = h.mode
			k.detail["history_constructor_calls_in_order"] = calls
		}
	}
	key := "results(" + h.parts[0].s.k.api + "(" + h.parts[0].s.k.witness + "))"
	if !single {
		key = "results-history(" + h.name + ";" + h.mode + ")"
	}
	pi := c.Call(key, func() {
		switch h.mode {
		case "sequential":
			for i := range h.parts {
				h.build(i)
				for h.step(i) {
				}
			}
		case "seeded-interleaving":
			for i := range h.parts {
				h.build(i)
			}
			var alive []int
			for i := range h.parts {
				alive = append(alive, i)
			}
			for len(alive) > 0 {
				j := h.rng.Intn(len(alive))
				if !h.step(alive[j]) {
					alive = append(alive[:j], alive[j+1:]...)
				}
			}
		default: // interleaved: one Next each, in turn
			for i := range h.parts {
				h.build(i)
			}
			for alive := len(h.parts); alive > 0; {
				alive = 0
				for i := range h.parts {
					if !h.parts[i].done && h.step(i) {
						alive++
					}
				}
			}
		}
		h.cur = -1
		h.finishRun()
	})

	c.Obs("result_histories:"+h.mode, 1)
	if !single {
		c.Obs("result_histories_with_several_iterators:"+h.mode, 1)
	}
	for _, pt := range h.parts {
		n, cnt := pt.s.name, pt.cnt
		if pt.st != nil {
			c.Obs("bystander_value_checks(value of an iterator whose results are not modified, compared after results of other iterators were modified)", cnt.checksOther)
			continue
		}
		c.Obs("caller_modified_results:"+n, cnt.values)
		c.Obs("caller_operations_each_followed_by_a_comparison_with_the_model:"+n, cnt.ops)
		c.Obs("entries_of_results_overwritten:"+n, cnt.writes)
		c.Obs("appends_to_returned_slices:"+n, cnt.innerAppends)
		if pt.s.outer {
			c.Obs("appends_to_a_part_that_is_not_the_last_part_of_the_result:"+n, cnt.innerAppendsNotLast)
			c.Obs("appends_to_the_outer_slice_of_results:"+n, cnt.outerAppends)
			c.Obs("results_whose_outer_slice_has_spare_capacity(recorded):"+n, cnt.spareOuter)
		}
		c.Obs("writes_into_the_spare_capacity_of_returned_slices:"+n, cnt.capWrites)
		c.Obs("returned_slices_with_spare_capacity(recorded):"+n, cnt.spareInner)
		c.Obs("Value_called_again_after_the_first_result_was_modified:"+n, cnt.againCalls)
		c.Obs("modified_result_checks_after_other_iterators_were_operated:"+n, cnt.checksOther)
		if pt.s.judgeNext {
			c.Obs("modified_result_checks_after_Next_of_its_own_iterator:"+n, cnt.checksNext)
			c.Obs("modified_result_checks_after_two_or_more_Next_calls_of_its_own_iterator:"+n, cnt.keptOverSeveral)
		} else {
			c.Obs("not_judged:modified_result_after_Next_of_its_own_iterator:"+n+":intact", cnt.nextIntact)
			c.Obs("not_judged:modified_result_after_Next_of_its_own_iterator:"+n+":changed", cnt.nextChanged)
		}
		if pt.it.aux != nil {
			c.Obs("companion_view_compared_before_and_after_Value_was_modified:"+n, cnt.auxChecks)
		}
		c.Obs("not_judged:earlier_result_after_Value_was_called_again:"+n+":intact", cnt.staleIntact)
		c.Obs("not_judged:earlier_result_after_Value_was_called_again:"+n+":changed", cnt.staleChanged)
		c.Obs("not_judged:results_kept_until_the_end_of_the_history:"+n+":intact", cnt.endIntact)
		c.Obs("not_judged:results_kept_until_the_end_of_the_history:"+n+":changed", cnt.endChanged)
		for t, x := range cnt.treatments {
			c.Obs("result_treatments:"+n+":"+t, x)
		}
	}

	for i, pt := range h.parts {
		k := pt.s.k
		switch {
		case pi != nil && i == h.cur:
			r.judge(k, pt.tr, pi)
		case pi != nil && h.cur == -1 && i == 0:
			// the monitor's own comparison at the end cannot panic; attribute it to the history all the same
			r.judge(k, pt.tr, pi)
		case pi != nil && !pt.done:
			c.Obs("history_iterators_not_judged_after_a_violation", 1)
		case h.find != nil && h.find.part == i:
			r.violate(k, h.find.kind, h.find.observed, h.find.expected)
		default:
			r.judgeResults(pt)
		}
	}
}

// judgeResults: the verdict on the enumeration of one iterator whose results were modified.
func (r *runner) judgeResults(pt *resPart) {
	k, tr := pt.s.k, pt.tr
	if pt.st != nil || pt.s.every == 1 && pt.s.from == 1 {
		r.judge(k, tr, nil)
	} else {
		// Value was not read after every Next: the count is judged here, the values read against their positions (or as distinct members)
		if tr.over {
			r.violate(k, "over-production", fmt.Sprintf("Next returned true %d times; last values read: %s", pt.succ, showAround(tr.raw, len(tr.raw)-1, 3)), fmt.Sprintf("exactly %d objects, then false", len(k.want)))
			return
		}
		if pt.succ < len(k.want) {
			r.violate(k, "missing", fmt.Sprintf("exhaustion reported after %d objects; values read: %s", pt.succ, show(tr.raw, 8)), fmt.Sprintf("all %d objects of the family", len(k.want)))
			return
		}
		dk := *k
		if k.ordered {
			dk.want = nil
			for _, i := range pt.taken {
				dk.want = append(dk.want, k.want[i])
			}
			r.judge(&dk, tr, nil)
		} else {
			set := make(map[string]bool, len(k.want))
			for _, w := range k.want {
				set[enc(w)] = true
			}
			dk.member = func(cv []int) string {
				if !set[enc(cv)] {
					return "not in the family"
				}
				return ""
			}
			dk.prefixOnly, dk.prefixCount, dk.sizeNote = true, len(pt.taken), "the values read"
			if tr.lateTrue > 0 {
				r.violate(k, "not-sticky", fmt.Sprintf("after Next had returned false (all %d objects yielded), further call %d of Next returned true with Value %v", pt.succ, tr.lateTrue, tr.lateValue), "false on every further call")
				return
			}
			r.judge(&dk, tr, nil)
		}
	}
	// Value called again for the same object
	for _, a := range pt.again {
		i, raw := a[0].(int), a[1].([]int)
		first, second := tr.raw[i], raw
		if k.canon != nil {
			var w1, w2 string
			first, w1 = k.canon(first)
			second, w2 = k.canon(second)
			if w1 != "" {
				return // reported by the verdict on the enumeration
			}
			if w2 != "" {
				r.violate(k, "Value-again-malformed-after-the-first-result-was-modified", fmt.Sprintf("object %d: Value returned %v, the caller modified that result, Value called again (no Next in between) returned %v: %s", i, tr.raw[i], raw, w2), "the current object again")
				return
			}
		}
		if !sameInts(first, second) {
			r.violate(k, "Value-again-differs-after-the-first-result-was-modified", fmt.Sprintf("object %d: Value returned %v, the caller modified that result, Value called again (no Next in between) returned %v", i, tr.raw[i], raw), "the current object again ("+pt.s.grant+")")
			return
		}
	}
	r.c.Obs("Value_called_again_compared_with_the_first_result", len(pt.again))
}

// ---------------------------------------------------------------------------
// the two granted methods

func flattenBlocks(v [][]int) []int {
	var flat []int
	for _, b := range v {
		for _, x := range b {
			if x == -1 {
				x = -2 // keep the separator unambiguous
			}
			flat = append(flat, x)
		}
		flat = append(flat, -1)
	}
	return flat
}

func cycle(off int) (func(i, copyNo int) string, string) {
	t := len(resultTreatments)
	return func(i, copyNo int) string {
		if copyNo == 2 {
			return resultTreatments[(i+off+3)%t]
		}
		return resultTreatments[(i+off)%t]
	}, fmt.Sprintf("i-th result read gets treatment (i+%d) mod %d of the table, a second result of the same object (i+%d) mod %d", off, t, off+3, t)
}

func seededTreatments(rg *engine.Rng, idx int) (func(i, copyNo int) string, string) {
	var memo []string
	return func(i, copyNo int) string {
		for len(memo) <= 2*i+1 {
			memo = append(memo, resultTreatments[rg.Intn(len(resultTreatments))])
		}
		return memo[2*i+copyNo-1]
	}, fmt.Sprintf("seeded treatments #%d", idx)
}

func partitionsResults(n int) *resSpec {
	k := partitionsCase(n)
	s := &resSpec{k: k, name: "Partitions", grant: "PartitionIterator: \"It is safe to modify the output of .Value().\"", outer: true, flat: flattenBlocks, judgeNext: true, every: 1, from: 1}
	s.open = func() ownedIter {
		it := itertools.Partitions(n)
		return ownedIter{next: func() bool { return it.Next() }, value: func() [][]int { return it.Value() }}
	}
	return s
}

func multisetCombinationsResults(m []int, kk int, want [][]int) *resSpec {
	k := multisetCombinationsCaseWith(m, kk, want)
	s := &resSpec{k: k, name: "MultisetCombinations.Value", grant: "MultisetCombinationIterator.Value: \"You may modify the return value.\"", flat: func(v [][]int) []int { return cpInts(v[0]) }, every: 1, from: 1}
	mm := cpInts(m)
	s.open = func() ownedIter {
		it := itertools.MultisetCombinations(cpInts(mm), kk)
		return ownedIter{next: func() bool { return it.Next() }, value: func() [][]int { return [][]int{it.Value()} }, aux: func() []int { return it.FreqValue() }}
	}
	return s
}

func (s *resSpec) with(off, again, every, from int) *resSpec {
	s.treat, s.sched = cycle(off)
	s.again, s.every, s.from = again, every, from
	return s
}

func bystander(k *kase) *resSpec { return &resSpec{k: k, name: k.api} }

func oneResult(s *resSpec) *resHistory {
	return &resHistory{mode: "sequential", parts: []*resPart{{s: s}}}
}

func history(name, mode string, rng *engine.Rng, specs ...*resSpec) *resHistory {
	h := &resHistory{name: name, mode: mode, rng: rng}
	for _, s := range specs {
		h.parts = append(h.parts, &resPart{s: s})
	}
	return h
}

func runResults(c *engine.Ctx) {
	T := len(resultTreatments)
	// Partitions: every value of every n meets every treatment
	for n := 1; n <= c.Pick(8, 9); n++ {
		n := n
		c.Unit(fmt.Sprintf("results-modified/Partitions/n=%d", n), func() {
			r := newRunner(c)
			offs := T
			switch {
			case n >= 9:
				offs = 1
			case n == 8:
				offs = c.Pick(1, 3)
			case n == 7:
				offs = c.Pick(3, T)
			}
			for off := 0; off < offs; off++ {
				again := 0
				if off%2 == 1 {
					again = 1 + off/4
				}
				r.runResults(oneResult(partitionsResults(n).with(off, again, 1, 1)))
			}
			if n <= 7 {
				// the modified value is kept over several calls of Next
				for i, ef := range [][2]int{{2, 1}, {2, 2}, {3, 1}, {3, 3}, {5, 2}} {
					r.runResults(oneResult(partitionsResults(n).with(2*i+1, i%2*2, ef[0], ef[1])))
				}
			}
			if c.Thorough() || n <= 5 {
				for i := 0; i < c.Pick(2, 6); i++ {
					s := partitionsResults(n)
					s.treat, s.sched = seededTreatments(c.Rand("results-Partitions", n*100+i), i)
					s.again, s.every, s.from = 1+i%3, 1, 1
					r.runResults(oneResult(s))
				}
			}
		})
	}
	// MultisetCombinations.Value
	vs := ownedVectors(c.Pick(5, 6))
	blocks(len(vs), 70, func(lo, hi int) {
		c.Unit(fmt.Sprintf("results-modified/MultisetCombinations/vectors %d-%d", lo, hi-1), func() {
			r := newRunner(c)
			for i := lo; i < hi; i++ {
				v := vs[i]
				for kk := 0; kk <= sumOf(v)+1; kk++ {
					every, from := 1, 1
					if (i+kk)%4 == 3 {
						every, from = 2, 1+kk%2
					}
					r.runResults(oneResult(multisetCombinationsResults(v, kk, nil).with(i+kk, (i+kk)%3, every, from)))
				}
			}
		})
	})
	c.Unit("results-modified/MultisetCombinations/longer vectors", func() {
		r := newRunner(c)
		for i := 0; i < c.Pick(40, 200); i++ {
			rg := c.Rand("results-MultisetCombinations", i)
			v := make([]int, 1+rg.Intn(6))
			for j := range v {
				v[j] = rg.Intn(5)
			}
			kk := rg.Intn(sumOf(v) + 2)
			s := multisetCombinationsResults(v, kk, nil)
			s.treat, s.sched = seededTreatments(rg, i)
			s.again, s.every, s.from = i%3, 1+i%2, 1
			r.runResults(oneResult(s))
		}
		for _, l := range []int{65, 130} {
			v := withEntries(constVec(l, 0), 0, 2, 63, 1, 64, 3, l-1, 2)
			for kk := 0; kk <= 4; kk++ {
				r.runResults(oneResult(multisetCombinationsResults(v, kk, nil).with(kk, kk%2, 1, 1)))
			}
		}
	})

	// histories: several iterators alive, the results of all granted ones modified, iterators of other kinds as bystanders
	modes := []string{"sequential", "interleaved", "seeded-interleaving"}
	for n := 1; n <= c.Pick(5, 7); n++ {
		n := n
		for mi, mode := range modes {
			mi, mode := mi, mode
			c.Unit(fmt.Sprintf("results-modified/histories/n=%d/%s", n, mode), func() {
				r := newRunner(c)
				reps := 1
				if mode == "seeded-interleaving" {
					reps = c.Pick(2, 6)
				}
				for rep := 0; rep < reps; rep++ {
					rg := c.Rand("results-history", n*1000+mi*100+rep)
					m := []int{2, 1 + n%3, n % 2, 2}
					k1 := 1 + n%3
					mc := &mcCache{v: m, want: map[int][][]int{}}
					w1, w2 := mc.kase(k1).want, mc.kase(k1+1).want
					off := n + 3*rep
					specs := []*resSpec{
						partitionsResults(n).with(off, 0, 1, 1),
						bystander(combinationsCase(n+1, (n+1)/2)),
						multisetCombinationsResults(m, k1, w1).with(off+1, 2, 1, 1),
						partitionsResults(n).with(off+4, 1, 1, 1),
						bystander(integerPartitionsCase(n + 2)),
						partitionsResults(n+1).with(off+6, 3, 2, 1),
						multisetCombinationsResults(m, k1, w1).with(off+5, 0, 1, 1),
						bystander(productCase([]int{2, 1 + n%3})),
						multisetCombinationsResults(m, k1+1, w2).with(off+2, 1, 1, 1),
						bystander(lexPermutationsCase(min(n, 4))),
						bystander(multisetCombinationsCaseWith(m, k1, w1)),
					}
					if n >= 2 {
						specs = append(specs, partitionsResults(n-1).with(off+8, 2, 1, 1))
					}
					name := fmt.Sprintf("Partitions(%d) twice, Partitions(%d), MultisetCombinations(%s,%d) twice and (.,%d), results modified; Combinations, IntegerPartitions, Product, LexicographicPermutations, MultisetCombinations as bystanders", n, n+1, ints(m), k1, k1+1)
					if n >= 2 {
						name += fmt.Sprintf("; Partitions(%d), results modified", n-1)
					}
					if mode == "seeded-interleaving" {
						name += fmt.Sprintf(" #%d", rep)
					}
					r.runResults(history(name, mode, rg, specs...))
				}
			})
		}
	}
	c.Unit("results-modified/documentation", func() {
		for _, n := range readOnlyResults {
			c.Obs("results_documented_as_not_to_be_modified(never modified by the monitor):"+n, 1)
		}
		c.Obs("results_documented_as_the_caller's(modified and judged):Partitions.Value", 1)
		c.Obs("results_documented_as_the_caller's(modified and judged):MultisetCombinations.Value", 1)
		c.Obs("exhaustive:results the documentation gives to the caller: every value of Partitions(n) for n <= 6 under each of the "+fmt.Sprint(T)+" treatments (overwrite, append to every part forwards / backwards / many, fill spare capacity, append to the outer slice, truncate and regrow, drop and refill, all of them, keep)", 1)
	})
}

// Demonstration for C01, change 7 (NewStorage cuts all of its []int working space out of ONE allocation, with capped
// capacities, and CanonicalIsomorphFull - so also CanonicalIsomorph - returns a detached copy of the permutation, made
// with append, so that holding the permutation does not keep the working space alive).
//
// Run (from the root of the library, public API only):
//
//	export GOFLAGS=-mod=mod GOPROXY=off GOSUMDB=off GOTOOLCHAIN=local
//	cp demo_test.go graph/zz_demo_test.go
//	go test -vet=off -count=1 -timeout 600s -run 'TestDemo' -v ./graph/
//	rm graph/zz_demo_test.go
//
// TestDemoProperty checks the property itself: CanonicalIsomorph returns a permutation and the canonical graph is the
// same for EVERY relabelling of every graph with at most 5 vertices, for all 40320 relabellings of G|WW}K and GhcqSK,
// for every relabelling of K6, K7 and K7 minus an edge, and for random relabellings of larger graphs, dense and sparse,
// through pointers and struct values; the number of distinct canonical graphs on 5 vertices is 34.
// TestDemoHistories checks what a caller may rely on as far as ownership goes, on both trees: a result is not changed
// by later calls, and appending to, truncating or overwriting a result does not change any other result, any later
// result, the orbits or the generators of the same call, or the graph.  Both pass before and after the change.
// TestDemoIncidental asserts what the CLEAN tree happens to do: the permutation has capacity exactly n (it is a
// make([]int, n) of its own), so append(p, x) moves to a new array and a write through the appended slice is not seen
// through p.  With the change the permutation comes from append and has the capacity of its allocation size class
// (n = 5: cap 6, n = 7: cap 8, n = 9: cap 10, ...): append(p, x) stays in place, so q := append(p, x); q[0] = ... IS
// seen through p - spare capacity that belongs to the caller and to nobody else.  It also prints the number of heap
// allocations per call.  It passes on the clean tree and fails with the change.
package graph_test

import (
	"fmt"
	"math/rand"
	"testing"

	"github.com/Tom-Johnston/mamba/graph"
	"github.com/Tom-Johnston/mamba/sortints"
)

func demoIsPerm(p []int, n int) bool {
	if len(p) != n {
		return false
	}
	seen := make([]bool, n)
	for _, v := range p {
		if v < 0 || v >= n || seen[v] {
			return false
		}
		seen[v] = true
	}
	return true
}

func demoToSparse(g graph.Graph) *graph.SparseGraph {
	n := g.N()
	nb := make([]sortints.SortedInts, n)
	for i := 0; i < n; i++ {
		nb[i] = sortints.NewSortedInts(g.Neighbours(i)...)
	}
	return graph.NewSparse(n, nb)
}

//demoCanon returns the canonical graph of g (as a graph6 string, which determines the labelled graph) after checking that the result is a permutation.
func demoCanon(t *testing.T, g graph.Graph, relabel func([]int) graph.EditableGraph) string {
	t.Helper()
	p := graph.CanonicalIsomorph(g)
	if !demoIsPerm(p, g.N()) {
		t.Fatalf("not a permutation: %v for %v", p, graph.Graph6Encode(g))
	}
	return graph.Graph6Encode(relabel(p))
}

//demoAllForms returns the canonical graph of g in the four forms (dense pointer, dense value, sparse pointer, sparse value) and fails if they differ.
func demoAllForms(t *testing.T, d *graph.DenseGraph) string {
	t.Helper()
	s := demoToSparse(d)
	c := demoCanon(t, d, d.InducedSubgraph)
	if c2 := demoCanon(t, *d, d.InducedSubgraph); c2 != c {
		t.Fatalf("dense value %v != %v", c2, c)
	}
	if c2 := demoCanon(t, s, s.InducedSubgraph); c2 != c {
		t.Fatalf("sparse %v != %v", c2, c)
	}
	if c2 := demoCanon(t, *s, s.InducedSubgraph); c2 != c {
		t.Fatalf("sparse value %v != %v", c2, c)
	}
	return c
}

func demoPerms(n int, f func([]int)) {
	p := make([]int, n)
	for i := range p {
		p[i] = i
	}
	var rec func(k int)
	rec = func(k int) {
		if k == n {
			f(p)
			return
		}
		for i := k; i < n; i++ {
			p[k], p[i] = p[i], p[k]
			rec(k + 1)
			p[k], p[i] = p[i], p[k]
		}
	}
	rec(0)
}

func demoMinus(g *graph.DenseGraph, edges ...[2]int) *graph.DenseGraph {
	h := g.Copy().(*graph.DenseGraph)
	for _, e := range edges {
		h.RemoveEdge(e[0], e[1])
	}
	return h
}

func TestDemoProperty(t *testing.T) {
	//Every graph with at most 5 vertices, every relabelling, all four forms.
	for n := 0; n <= 5; n++ {
		classes := map[string]bool{}
		ne := n * (n - 1) / 2
		for mask := 0; mask < 1<<uint(ne); mask++ {
			e := make([]byte, ne)
			for i := range e {
				e[i] = byte(mask >> uint(i) & 1)
			}
			g := graph.NewDense(n, e)
			c := demoAllForms(t, g)
			classes[c] = true
			demoPerms(n, func(pi []int) {
				h := g.InducedSubgraph(pi).(*graph.DenseGraph)
				if c2 := demoAllForms(t, h); c2 != c {
					t.Fatalf("n=%v mask=%v pi=%v: %v != %v", n, mask, pi, c2, c)
				}
			})
		}
		want := []int{1, 1, 2, 4, 11, 34}[n]
		if len(classes) != want {
			t.Fatalf("n=%v: %v canonical graphs, want %v", n, len(classes), want)
		}
	}
	//Every relabelling of some graphs with 6 to 8 vertices.
	var all []*graph.DenseGraph
	for _, s := range []string{"G|WW}K", "GhcqSK"} {
		g, err := graph.Graph6Decode(s)
		if err != nil {
			t.Fatal(err)
		}
		all = append(all, g)
	}
	all = append(all, graph.CompleteGraph(6), graph.CompleteGraph(7), demoMinus(graph.CompleteGraph(7), [2]int{2, 5}), demoMinus(graph.CompleteGraph(6), [2]int{0, 1}, [2]int{2, 3}))
	for _, g := range all {
		c := demoAllForms(t, g)
		s := demoToSparse(g)
		demoPerms(g.N(), func(pi []int) {
			if c2 := demoCanon(t, g.InducedSubgraph(pi), g.InducedSubgraph(pi).InducedSubgraph); c2 != c {
				t.Fatalf("%v pi=%v: %v != %v", graph.Graph6Encode(g), pi, c2, c)
			}
			if g.N() < 8 {
				if c2 := demoCanon(t, s.InducedSubgraph(pi), s.InducedSubgraph(pi).InducedSubgraph); c2 != c {
					t.Fatalf("sparse %v pi=%v: %v != %v", graph.Graph6Encode(g), pi, c2, c)
				}
			}
		})
	}
	//Random relabellings of larger graphs.
	k30 := graph.CompleteGraph(30)
	var matching [][2]int
	for i := 0; i < 30; i += 2 {
		matching = append(matching, [2]int{i, i + 1})
	}
	large := []*graph.DenseGraph{k30, demoMinus(k30, [2]int{3, 17}), demoMinus(k30, matching...), demoMinus(k30, [2]int{0, 1}, [2]int{1, 2}), graph.KneserGraph(5, 2), graph.HypercubeGraph(4), graph.CompletePartiteGraph(4, 4, 4), graph.RookGraph(4, 4), graph.RandomGraph(25, 0.9, 7), graph.CompleteGraph(1), graph.CompleteGraph(2)}
	r := rand.New(rand.NewSource(8))
	seen := map[string]string{}
	for _, g := range large {
		c := demoAllForms(t, g)
		if other, ok := seen[c]; ok {
			t.Fatalf("%v and %v share a canonical graph", other, graph.Graph6Encode(g))
		}
		seen[c] = graph.Graph6Encode(g)
		for rep := 0; rep < 25; rep++ {
			pi := r.Perm(g.N())
			if c2 := demoAllForms(t, g.InducedSubgraph(pi).(*graph.DenseGraph)); c2 != c {
				t.Fatalf("%v pi=%v: %v != %v", graph.Graph6Encode(g), pi, c2, c)
			}
		}
	}
}


func TestDemoHistories(t *testing.T) {
	gs := []*graph.DenseGraph{graph.KneserGraph(5, 2), graph.Path(5), graph.Cycle(7), graph.HypercubeGraph(3), graph.Star(9), graph.CompleteGraph(5), graph.NewDense(6, nil), graph.RandomGraph(13, 0.5, 3)}
	type res struct {
		p, snap []int
	}
	var held []res
	for _, g := range gs {
		before := graph.Graph6Encode(g)
		p := graph.CanonicalIsomorph(g)
		held = append(held, res{p, append([]int(nil), p...)})
		if graph.Graph6Encode(g) != before {
			t.Fatalf("the graph %v changed", before)
		}
	}
	//Results held while later calls were made are unchanged.
	for i, h := range held {
		if fmt.Sprint(h.p) != fmt.Sprint(h.snap) {
			t.Fatalf("result %v changed from %v to %v", i, h.snap, h.p)
		}
	}
	//Append to, overwrite and truncate every result; no other result and no later result is affected.
	for i, h := range held {
		q := append(h.p, 1000+i, 2000+i, 3000+i)
		for j := range q {
			q[j] = -7
		}
		for j := range h.p {
			h.p[j] = -9
		}
		_ = h.p[:0]
		for k, o := range held {
			if k > i && fmt.Sprint(o.p) != fmt.Sprint(o.snap) {
				t.Fatalf("scribbling on result %v changed result %v", i, k)
			}
		}
		for k, g := range gs {
			if p := graph.CanonicalIsomorph(g); fmt.Sprint(p) != fmt.Sprint(held[k].snap) {
				t.Fatalf("after scribbling on result %v the graph %v gets %v, before %v", i, k, p, held[k].snap)
			}
		}
	}
	//The three results of CanonicalIsomorphFull do not share memory: appending to the permutation leaves orbits and generators alone.
	for _, g := range gs {
		p, orbits, gens := graph.CanonicalIsomorphFull(g, nil)
		so, sg := fmt.Sprint(orbits), fmt.Sprint(gens)
		q := append(p, make([]int, 4*g.N()+10)...)
		for j := range q {
			q[j] = -1
		}
		q = append(p[:0], q...)
		for j := range p[:cap(p)] {
			p[:cap(p)][j] = -2
		}
		if fmt.Sprint(orbits) != so || fmt.Sprint(gens) != sg {
			t.Fatalf("writing to the permutation of %v changed the orbits or the generators", graph.Graph6Encode(g))
		}
	}
}

func TestDemoIncidental(t *testing.T) {
	for n := 1; n <= 40; n++ {
		for form := 0; form < 2; form++ {
			var g graph.Graph = graph.Path(n)
			if form == 1 {
				g = demoToSparse(g)
			}
			p := graph.CanonicalIsomorph(g)
			if !demoIsPerm(p, n) {
				t.Fatalf("not a permutation: %v", p)
			}
			first := p[0]
			q := append(p, -1)
			q[0] = -5
			if cap(p) != n || p[0] != first {
				t.Errorf("path with %v vertices, form %v: len %v cap %v, after q := append(p, -1); q[0] = -5: p[0] = %v (was %v); the clean tree returns capacity n and the append moves to a new array", n, form, len(p), cap(p), p[0], first)
			}
		}
	}
	for _, g := range []*graph.DenseGraph{graph.KneserGraph(5, 2), graph.HypercubeGraph(4), graph.RandomGraph(30, 0.5, 1)} {
		a := testing.AllocsPerRun(20, func() { graph.CanonicalIsomorph(g) })
		fmt.Printf("%v vertices: %v allocations per call\n", g.N(), a)
	}
}

// Demo for C02, change 8: CanonicalIsomorphFull (and CanonicalIsomorph, which calls it) takes
// its CanonicalStorage / CanonicalOrderedPartition from a sync.Pool shared by all calls, Resets
// the partition for the graph at hand, runs CanonicalIsomorphAllocated and hands the caller
// COPIES of the permutation, the orbits and the generators before the workspace goes back to
// the pool. Repeated calls therefore stop allocating ~20 work arrays each.
//
// Run (from the root of the library checkout, public API only):
//
//	cp demo_test.go graph/zz_c02_demo8_test.go
//	GOFLAGS=-mod=mod GOPROXY=off GOSUMDB=off GOTOOLCHAIN=local \
//	  go test -vet=off -count=1 -timeout 300s -run 'TestC02Demo8' -v ./graph/
//	rm graph/zz_c02_demo8_test.go
//
// TestC02Demo8Property checks the property itself by brute force (orbits = orbits of the
// class-preserving automorphism group, every generator is such an automorphism, the
// generators generate the whole group, a reused storage/partition pair Reset for graphs of
// sizes going up and down gives the same permutation, orbits and generators as a fresh
// call) for every labelled graph on up to 5 vertices, every graph on up to 4 vertices with
// every ordered class partition and random graphs with random classes; it also checks that
// relabelled copies get the same canonical form. TestC02Demo8History holds the results of
// CanonicalIsomorphFull while many later calls (other sizes, other classes, other
// goroutines) are made, scribbles over and appends to earlier results, and checks that
// every held result is unchanged and equals what CanonicalIsomorphAllocated returns on
// brand-new storage. Both pass BEFORE and AFTER the change.
//
// TestC02Demo8IncidentalOld asserts the OLD incidental behaviour: the generators slice
// returned for the 5-cycle has capacity n-1 = 4 (it is the storage's own slice) and a call
// for the Petersen graph makes more than 25 allocations. It PASSES on the clean tree and
// FAILS with the change (capacity = number of generators = 2, 18 allocations).
package graph_test

import (
	"fmt"
	"math/rand"
	"sync"
	"reflect"
	"sort"
	"testing"

	"github.com/Tom-Johnston/mamba/disjoint"
	"github.com/Tom-Johnston/mamba/graph"
)

// c02d8Auts lists all class-preserving automorphisms of g by backtracking.
func c02d8Auts(g graph.Graph, cls []int) [][]int {
	n := g.N()
	var out [][]int
	img := make([]int, n)
	used := make([]bool, n)
	var rec func(k int)
	rec = func(k int) {
		if k == n {
			out = append(out, append([]int(nil), img...))
			return
		}
		for v := 0; v < n; v++ {
			if used[v] || cls[v] != cls[k] {
				continue
			}
			ok := true
			for j := 0; j < k && ok; j++ {
				ok = g.IsEdge(j, k) == g.IsEdge(img[j], v)
			}
			if !ok {
				continue
			}
			used[v] = true
			img[k] = v
			rec(k + 1)
			used[v] = false
		}
	}
	rec(0)
	return out
}

func c02d8PartKey(sets [][]int) string {
	s := make([]string, len(sets))
	for i := range sets {
		c := append([]int(nil), sets[i]...)
		sort.Ints(c)
		s[i] = fmt.Sprint(c)
	}
	sort.Strings(s)
	return fmt.Sprint(s)
}

// c02d8Check verifies the statement of C02 by brute force.
func c02d8Check(g graph.Graph, classes [][]int, perm []int, orbits disjoint.Set, gens [][]int) error {
	n := g.N()
	cls := make([]int, n)
	for i, c := range classes {
		for _, v := range c {
			cls[v] = i
		}
	}
	// the permutation is a class-respecting relabelling: the classes appear in order
	if len(perm) != n {
		return fmt.Errorf("perm %v has the wrong length", perm)
	}
	seenV := make([]bool, n)
	for i, v := range perm {
		if v < 0 || v >= n || seenV[v] {
			return fmt.Errorf("perm %v is not a permutation", perm)
		}
		seenV[v] = true
		if i > 0 && cls[perm[i-1]] > cls[v] {
			return fmt.Errorf("perm %v does not keep the classes %v in order", perm, classes)
		}
	}
	auts := c02d8Auts(g, cls)
	autSet := map[string]bool{}
	uf := disjoint.New(n)
	for _, p := range auts {
		autSet[fmt.Sprint(p)] = true
		for i := range p {
			uf.Union(i, p[i])
		}
	}
	oc := append(disjoint.Set(nil), orbits...)
	if len(oc) != n || c02d8PartKey(oc.Sets()) != c02d8PartKey(uf.Sets()) {
		return fmt.Errorf("orbits %v, want %v", oc.Sets(), uf.Sets())
	}
	for _, gen := range gens {
		if !autSet[fmt.Sprint(gen)] {
			return fmt.Errorf("generator %v is not a (class-preserving) automorphism", gen)
		}
	}
	id := make([]int, n)
	for i := range id {
		id[i] = i
	}
	seen := map[string]bool{fmt.Sprint(id): true}
	queue := [][]int{id}
	for len(queue) > 0 {
		p := queue[0]
		queue = queue[1:]
		for _, gen := range gens {
			q := make([]int, n)
			for i := range q {
				q[i] = gen[p[i]]
			}
			if k := fmt.Sprint(q); !seen[k] {
				seen[k] = true
				queue = append(queue, q)
			}
		}
	}
	if len(seen) != len(auts) {
		return fmt.Errorf("generators %v generate a group of order %d, |Aut| = %d", gens, len(seen), len(auts))
	}
	return nil
}

func c02d8Nbrs(g graph.Graph) [][]int {
	nb := make([][]int, g.N())
	for i := range nb {
		nb[i] = g.Neighbours(i)
	}
	return nb
}

// c02d8Form is the canonical form: the edge list of g relabelled by perm (new vertex i is old vertex perm[i]).
func c02d8Form(g graph.Graph, perm []int) string {
	n := g.N()
	b := make([]byte, 0, n*n/2)
	for i := 1; i < n; i++ {
		for j := 0; j < i; j++ {
			if g.IsEdge(perm[i], perm[j]) {
				b = append(b, '1')
			} else {
				b = append(b, '0')
			}
		}
	}
	return string(b)
}

// c02d8Relabel returns the copy h of g with vertex v of g called s[v] in h, and the classes moved along.
func c02d8Relabel(g graph.Graph, classes [][]int, s []int) (*graph.DenseGraph, [][]int) {
	n := g.N()
	h := graph.NewDense(n, nil)
	for i := 1; i < n; i++ {
		for j := 0; j < i; j++ {
			if g.IsEdge(i, j) {
				h.AddEdge(s[i], s[j])
			}
		}
	}
	var cl [][]int
	if classes != nil {
		cl = make([][]int, len(classes))
		for i, c := range classes {
			cl[i] = make([]int, len(c))
			for j, v := range c {
				cl[i][j] = s[v]
			}
		}
	}
	return h, cl
}

type c02d8Runner struct {
	t  *testing.T
	r  *rand.Rand
	st *graph.CanonicalStorage
	op *graph.CanonicalOrderedPartition
	n  int
}

func (c *c02d8Runner) one(g *graph.DenseGraph, classes [][]int) {
	c.n++
	n := g.N()
	perm, orb, gens := graph.CanonicalIsomorphFull(g, classes)
	if err := c02d8Check(g, classes, perm, orb, gens); err != nil {
		c.t.Errorf("fresh %s classes=%v: %v", graph.Graph6Encode(g), classes, err)
		return
	}
	c.op.Reset(n, g.M(), classes)
	perm2, orb2, gens2 := graph.CanonicalIsomorphAllocated(n, g.M(), c02d8Nbrs(g), c.op, c.st, new(graph.CanonicalOptions))
	if !reflect.DeepEqual(perm, perm2) || !reflect.DeepEqual(orb, orb2) || len(gens) != len(gens2) || (len(gens) > 0 && !reflect.DeepEqual(gens, gens2)) {
		c.t.Errorf("reused result differs from fresh result %s classes=%v: %v %v %v / %v %v %v", graph.Graph6Encode(g), classes, perm, orb, gens, perm2, orb2, gens2)
	}
	// still a canonical form: a relabelled copy gets the same form
	h, hc := c02d8Relabel(g, classes, c.r.Perm(n))
	permH, _, _ := graph.CanonicalIsomorphFull(h, hc)
	if f, fh := c02d8Form(g, perm), c02d8Form(h, permH); f != fh {
		c.t.Errorf("%s classes=%v and its relabelled copy %s classes=%v get different canonical forms", graph.Graph6Encode(g), classes, graph.Graph6Encode(h), hc)
	}
}

// c02d8OrderedPartitions calls f with every ordered partition of 0..n-1 into non-empty classes.
func c02d8OrderedPartitions(n int, f func([][]int)) {
	assign := make([]int, n)
	var rec func(v, k int)
	rec = func(v, k int) {
		if v == n {
			// every surjection onto 0..k-1 in every order of the blocks
			blocks := make([][]int, k)
			for u, b := range assign {
				blocks[b] = append(blocks[b], u)
			}
			idx := make([]int, k)
			for i := range idx {
				idx[i] = i
			}
			var perms func(i int)
			perms = func(i int) {
				if i == k {
					cl := make([][]int, k)
					for a, b := range idx {
						cl[a] = blocks[b]
					}
					f(cl)
					return
				}
				for j := i; j < k; j++ {
					idx[i], idx[j] = idx[j], idx[i]
					perms(i + 1)
					idx[i], idx[j] = idx[j], idx[i]
				}
			}
			perms(0)
			return
		}
		for b := 0; b <= k; b++ {
			assign[v] = b
			if b == k {
				rec(v+1, k+1)
			} else {
				rec(v+1, k)
			}
		}
	}
	rec(0, 0)
}

func TestC02Demo8Property(t *testing.T) {
	const N, M = 8, 28
	c := &c02d8Runner{t: t, r: rand.New(rand.NewSource(7)), st: graph.NewStorage(N, M), op: graph.NewOrderedPartition(N, M, nil)}
	// every labelled graph on up to 5 vertices, no classes; up to 4 vertices with every ordered partition
	for n := 1; n <= 5; n++ {
		e := n * (n - 1) / 2
		for mask := 0; mask < 1<<uint(e); mask++ {
			edges := make([]byte, e)
			for i := range edges {
				edges[i] = byte(mask >> uint(i) & 1)
			}
			c.one(graph.NewDense(n, edges), nil)
			if n <= 4 {
				c02d8OrderedPartitions(n, func(cl [][]int) { c.one(graph.NewDense(n, append([]byte(nil), edges...)), cl) })
			}
		}
	}
	// random graphs, sizes going up and down
	for it := 0; it < 1500; it++ {
		n := 1 + (it/3+c.r.Intn(3))%N
		edges := make([]byte, n*(n-1)/2)
		p := c.r.Float64()
		for i := range edges {
			if c.r.Float64() < p {
				edges[i] = 1
			}
		}
		var classes [][]int
		if it%2 == 1 {
			k := 1 + c.r.Intn(n)
			classes = make([][]int, k)
			for i, v := range c.r.Perm(n) {
				j := i
				if i >= k {
					j = c.r.Intn(k)
				}
				classes[j] = append(classes[j], v)
			}
		}
		c.one(graph.NewDense(n, edges), classes)
	}
	t.Logf("%d cases checked", c.n)
}


func c02d8Cycle(n int) *graph.DenseGraph {
	g := graph.NewDense(n, nil)
	for i := 0; i < n; i++ {
		g.AddEdge(i, (i+1)%n)
	}
	return g
}

func c02d8Petersen() *graph.DenseGraph {
	g := graph.NewDense(10, nil)
	for i := 0; i < 5; i++ {
		g.AddEdge(i, (i+1)%5)
		g.AddEdge(i, i+5)
		g.AddEdge(5+i, 5+(i+2)%5)
	}
	return g
}

type c02d8Held struct {
	g       *graph.DenseGraph
	classes [][]int
	perm    []int
	orb     disjoint.Set
	gens    [][]int
	want    string
}

func c02d8Fresh(g *graph.DenseGraph, classes [][]int) string {
	n, m := g.N(), g.M()
	perm, orb, gens := graph.CanonicalIsomorphAllocated(n, m, c02d8Nbrs(g), graph.NewOrderedPartition(n, m, classes), graph.NewStorage(n, m), new(graph.CanonicalOptions))
	return fmt.Sprint(perm, []int(orb), len(gens), gens)
}

func TestC02Demo8History(t *testing.T) {
	r := rand.New(rand.NewSource(8))
	var held []c02d8Held
	for it := 0; it < 400; it++ {
		n := 1 + (it*5+r.Intn(3))%7 // sizes jump up and down
		g := graph.NewDense(n, nil)
		p := r.Float64()
		for i := 0; i < n; i++ {
			for j := 0; j < i; j++ {
				if it%6 != 0 && r.Float64() < p {
					g.AddEdge(i, j)
				}
			}
		}
		var classes [][]int
		if it%2 == 1 {
			k := 1 + r.Intn(n)
			classes = make([][]int, k)
			for i, v := range r.Perm(n) {
				j := i
				if i >= k {
					j = r.Intn(k)
				}
				classes[j] = append(classes[j], v)
			}
		}
		perm, orb, gens := graph.CanonicalIsomorphFull(g, classes)
		h := c02d8Held{g: g, classes: classes, perm: perm, orb: orb, gens: gens, want: c02d8Fresh(g, classes)}
		if got := fmt.Sprint(perm, []int(orb), len(gens), gens); got != h.want {
			t.Fatalf("%s classes=%v: CanonicalIsomorphFull %v, CanonicalIsomorphAllocated on new storage %v", graph.Graph6Encode(g), classes, got, h.want)
		}
		held = append(held, h)
		// the caller owns an OLDER result: scribble over it and append to it, later results must not care
		if it >= 10 && it%4 == 0 {
			o := &held[it-10]
			for i := range o.perm {
				o.perm[i] = -7
			}
			for i := range o.orb {
				o.orb[i] = -7
			}
			for _, row := range o.gens {
				for i := range row {
					row[i] = -7
				}
			}
			o.gens = append(o.gens, []int{-7, -7, -7, -7, -7, -7, -7, -7, -7, -7})
			o.want = ""
		}
	}
	// concurrent callers
	var wg sync.WaitGroup
	for w := 0; w < 4; w++ {
		wg.Add(1)
		go func(w int) {
			defer wg.Done()
			for it := 0; it < 100; it++ {
				h := held[(it*4+w)%len(held)]
				perm, orb, gens := graph.CanonicalIsomorphFull(h.g, h.classes)
				if got := fmt.Sprint(perm, []int(orb), len(gens), gens); got != c02d8Fresh(h.g, h.classes) {
					t.Errorf("concurrent call %s classes=%v: %v", graph.Graph6Encode(h.g), h.classes, got)
				}
			}
		}(w)
	}
	wg.Wait()
	for _, h := range held {
		if h.want == "" {
			continue
		}
		if got := fmt.Sprint(h.perm, []int(h.orb), len(h.gens), h.gens); got != h.want {
			t.Errorf("held result of %s classes=%v changed: %v, was %v", graph.Graph6Encode(h.g), h.classes, got, h.want)
		}
		if err := c02d8Check(h.g, h.classes, h.perm, h.orb, h.gens); err != nil {
			t.Errorf("held result of %s classes=%v: %v", graph.Graph6Encode(h.g), h.classes, err)
		}
	}
}

func TestC02Demo8IncidentalOld(t *testing.T) {
	c5 := c02d8Cycle(5)
	perm, orb, gens := graph.CanonicalIsomorphFull(c5, nil)
	if err := c02d8Check(c5, nil, perm, orb, gens); err != nil {
		t.Fatalf("property: %v", err)
	}
	t.Logf("C5: perm %v orbits %v generators %v; len/cap of the generators %d/%d", perm, orb, gens, len(gens), cap(gens))
	if cap(gens) != 4 {
		t.Errorf("cap(generators) = %d for C5, the old tree returns the storage's own slice of capacity n-1 = 4", cap(gens))
	}
	pet := c02d8Petersen()
	perm, orb, gens = graph.CanonicalIsomorphFull(pet, nil)
	if err := c02d8Check(pet, nil, perm, orb, gens); err != nil {
		t.Fatalf("property: %v", err)
	}
	allocs := testing.AllocsPerRun(100, func() { graph.CanonicalIsomorphFull(pet, nil) })
	t.Logf("Petersen graph: %d generators, %.0f allocations per call of CanonicalIsomorphFull", len(gens), allocs)
	if allocs < 26 {
		t.Errorf("%.0f allocations per call, the old tree builds a whole CanonicalStorage and partition per call (more than 25 allocations)", allocs)
	}
}

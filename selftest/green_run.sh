#!/bin/bash
# usage: selftest/green_run.sh <dir-with-patch.diff> <Cxx> [tier] [more ids]
# Applies a behaviour-PRESERVING change (the property still holds) to a scratch copy of /repo, confirms build + repo
# suite, and runs the check(s): anything but exit 0 is a false alarm (or an unwanted INCONCLUSIVE) of the check.
set -u
dir=$(cd "$1" && pwd); prop="$2"; tier="${3:-quick}"; shift; shift; shift || true
D=$(mktemp -d /tmp/greenrun.XXXXXX)
trap 'rm -rf "$D"' EXIT
cp -r /repo/. "$D/"
export GOFLAGS=-mod=mod GOPROXY=off GOSUMDB=off GOTOOLCHAIN=local
if ! git -C "$D" apply --whitespace=nowarn "$dir/patch.diff" 2>"$D/.apply.err"; then echo "PATCH-DOES-NOT-APPLY: $(head -2 "$D/.apply.err")"; exit 3; fi
if ! (cd "$D" && go build ./... 2>/dev/null); then echo "DOES-NOT-BUILD"; exit 3; fi
if [ "${SKIP_REPO_TESTS:-0}" != 1 ]; then
  if ! (cd "$D" && go test -vet=off -count=1 -timeout 900s ./... >"$D/.tests.log" 2>&1); then echo "FAILS-REPO-TESTS"; grep -E "^(---|FAIL)" "$D/.tests.log" | head -5; exit 3; fi
  echo "repo tests pass with the change"
fi
for p in "$prop" "$@"; do
  out=$(cd "$(dirname "$0")/.." && VERIF_RUN_TAG="-green$$" VERIF_REPO="$D" VERIF_BUILD="$(pwd)/.build/green-$p" ./check "$p" "$tier" 2>&1)
  rc=$?
  echo "$out" | grep -E "^(VIOLATION|INCONCLUSIVE|OK|KNOWN)" | head -3 | cut -c1-220
  echo "$out" | grep -E "^  (key|observed)=" | head -6 | cut -c1-300
  if [ $rc -eq 0 ]; then echo "SILENT (good) $p $tier"; elif [ $rc -eq 1 ]; then echo "FALSE-ALARM? $p $tier"; else echo "NOT-CLEAN rc=$rc $p $tier"; fi
done

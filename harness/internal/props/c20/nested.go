package c20

// Two tsp.LIB calls that OVERLAP IN TIME, deterministically and without
// goroutines: call B (on its own writer, with its own n and weights) runs to
// completion INSIDE call A - either inside one of the Write calls A makes on its
// writer (before the writer has taken the bytes of p: p is pending during B, as
// on a slow writer; or after it has taken them) or inside one of A's calls of
// its weights function.  Both are ordinary arguments: any io.Writer and any
// weights function may use the package.  Every call is judged against what it
// would have written alone: a healthy call returns nil and its bytes are the
// faithful TSPLIB document of ITS (n, weights); a call one of whose own writes
// failed returns a non-nil error; the failure of B's writer is not A's.
// The nesting point is enumerated over EVERY write position / weights call of A.

import (
	"fmt"

	"github.com/Tom-Johnston/mamba/tsp"

	"verif/internal/engine"
)

// nestWriter takes every byte; during its Write call number at it runs inner.
type nestWriter struct {
	data    []byte
	calls   int
	at      int
	pending bool // inner runs before the bytes of p are taken
	inner   func()
}

func (w *nestWriter) Write(p []byte) (int, error) {
	idx := w.calls
	w.calls++
	if idx == w.at && w.pending {
		w.inner()
	}
	w.data = append(w.data, p...)
	if idx == w.at && !w.pending {
		w.inner()
	}
	return len(p), nil
}

type nestDetail struct {
	Outer  string `json:"outer_call"`
	Inner  string `json:"inner_call"`
	Where  string `json:"inner_call_runs"`
	Judged string `json:"judged_call"`
	Bytes  string `json:"bytes_of_that_call,omitempty"`
	ORS    uint64 `json:"outer_rand_word,omitempty"`
	IRS    uint64 `json:"inner_rand_word,omitempty"`
}

// nestedRun: where = "write" (at = index of the Write call of the outer call;
// pending as in nestWriter) or "weights" (at = 1-based index of the weights
// call of the outer call).  in may carry a write fault of its own.  Returns
// false after a violation; ran reports whether the nesting point was reached.
func nestedRun(c *engine.Ctx, out, in seqStep, where string, at int, pending bool) (ok, ran bool) {
	iw := &recWriter{pos: in.pos, mode: in.mode}
	if in.mode == modeNone {
		iw.pos = -1
	}
	var ierr error
	ibad, iran := 0, 0
	iwf := func(i, j int) int {
		if !(0 <= j && j < i && i < in.n) {
			ibad++
		}
		return int(weightValue(in.fam, in.n, in.rs, i, j))
	}
	inner := func() {
		iran++
		ierr = tsp.LIB(iw, in.n, iwf)
	}
	ow := &nestWriter{at: -1, pending: pending}
	ocalls, obad := 0, 0
	owf := func(i, j int) int {
		ocalls++
		if !(0 <= j && j < i && i < out.n) {
			obad++
		}
		if where == "weights" && ocalls == at {
			inner()
		}
		return int(weightValue(out.fam, out.n, out.rs, i, j))
	}
	place := fmt.Sprintf("inside weights call %d of the outer call", at)
	tag := "in-weights"
	if where == "write" {
		ow.at, ow.inner = at, inner
		if pending {
			place = fmt.Sprintf("inside Write call %d of the outer call, before the writer takes the bytes", at)
			tag = "in-write:bytes-pending"
		} else {
			place = fmt.Sprintf("inside Write call %d of the outer call, after the writer took the bytes", at)
			tag = "in-write:bytes-taken"
		}
	}
	var oerr error
	pi := c.Call(fmt.Sprintf("LIB|nested: %s; %s runs %s", out, in, place), func() { oerr = tsp.LIB(ow, out.n, owf) })
	det := func(judged string, own []byte) nestDetail {
		return nestDetail{Outer: out.String(), Inner: in.String(), Where: place, Judged: judged, Bytes: clip(string(own), 2500), ORS: out.rs, IRS: in.rs}
	}
	if iran == 0 && pi == nil {
		c.Obs("nested:nesting_point_not_reached", 1)
		return true, false
	}
	c.Eval(2)
	c.Obs("nested:calls_overlapped:"+tag, 1)
	if in.mode != modeNone {
		c.Obs("nested:inner_call_with_a_write_fault:"+in.mode, 1)
	}
	if pi != nil {
		c.Violation("LIB|nested|panic|"+engine.SiteNoLine(pi.Site)+"|"+tag, det("both", ow.data), pi.String(), "both calls return")
		return false, true
	}
	if iran != 1 {
		c.Inconclusive(fmt.Sprintf("nested rig: the inner call ran %d times", iran))
		return false, true
	}
	// a healthy call: nil error, weights asked in range, its own bytes faithful
	healthy := func(who string, st seqStep, err error, bad int, own []byte) bool {
		key := "LIB|nested|" + who + "-call|"
		switch {
		case err != nil:
			c.Violation(key+"error-without-write-failure|"+tag, det(who, own), "error "+errText(err), "nil: no write of this call failed")
			return false
		case bad > 0:
			c.Violation(key+"weights-called-out-of-range|"+tag, det(who, own), fmt.Sprintf("%d calls outside 0 <= j < i < n", bad), "only 0 <= j < i < n")
			return false
		}
		d, pe := parseTSPLIB(own)
		if pe == nil {
			pe = checkDoc(d, st.n, func(i, j int) int64 { return weightValue(st.fam, st.n, st.rs, i, j) })
		}
		if pe != nil {
			c.Violation(key+"output|"+pe.Kind+"|"+tag, det(who, own), pe.Msg, "the bytes written by this call are the TSPLIB document of its own (n, weights), as when it runs alone")
			return false
		}
		return true
	}
	if !healthy("outer", out, oerr, obad, ow.data) {
		return false, true
	}
	switch {
	case in.mode == modeNone:
		if !healthy("inner", in, ierr, ibad, iw.data) {
			return false, true
		}
	case !iw.fired:
		c.Obs("nested:inner_fault_not_reached", 1)
	case judgedMode(in.mode) && ierr == nil:
		c.Violation("LIB|nested|inner-call|write-failure-not-reported|"+in.mode+"|"+tag, det("inner", iw.data), fmt.Sprintf("the inner call returned nil although its write %d failed", in.pos), "a non-nil error")
		return false, true
	}
	c.Obs("nested:pairs_judged", 1)
	c.NTDistinct(1)
	return true, true
}

// nestedPairs: (n of the outer call, n of the inner call): different numbers of
// digits in DIMENSION, different numbers of rows, equal ones, empty ones.
func nestedPairs(thorough bool) [][2]int {
	r := [][2]int{{2, 11}, {11, 2}, {12, 3}, {3, 12}, {0, 5}, {5, 0}, {7, 7}, {10, 9}, {1, 100}}
	if thorough {
		r = append(r, [2]int{9, 10}, [2]int{1, 1}, [2]int{0, 0}, [2]int{20, 4}, [2]int{4, 20}, [2]int{6, 300}, [2]int{30, 31}, [2]int{40, 1})
	}
	return r
}

var nestedInnerFaults = []string{modeTransient, modeFullErr, modePermanent, modeShortErr, modeFullKeptPerm}

func nestedUnits(c *engine.Ctx) {
	for fi, fam := range seqFamilies {
		fi, fam := fi, fam
		c.Unit("seq/nested/"+fam, func() {
			ifam := seqFamilies[(fi+1)%len(seqFamilies)]
			rsOf := func(f string, n int) uint64 {
				if f == randFamily {
					return c.Rand("nested-rand", n).U64()
				}
				return 0
			}
			count := func(st seqStep) int {
				w := &recWriter{pos: -1}
				c.Call("LIB|count "+st.String(), func() {
					tsp.LIB(w, st.n, func(i, j int) int { return int(weightValue(st.fam, st.n, st.rs, i, j)) })
				})
				return len(w.sizes)
			}
			runs := 0
			// every third run the inner call has a failing writer of its own
			faulty := func(in seqStep, WI int) seqStep {
				runs++
				if runs%3 == 0 {
					in.mode = nestedInnerFaults[(runs/3)%len(nestedInnerFaults)]
					in.pos = (runs * 7) % WI
				}
				return in
			}
			for _, pr := range nestedPairs(c.Thorough()) {
				out := seqStep{n: pr[0], fam: fam, rs: rsOf(fam, pr[0]), pos: -1}
				in := seqStep{n: pr[1], fam: ifam, rs: rsOf(ifam, pr[1]), pos: -1}
				WO, WI := count(out), count(in)
				if WO == 0 || WI == 0 {
					c.Obs("nested:pairs_skipped(no writes)", 1)
					continue
				}
				// inside every Write call of the outer call (one position past the last: not reached)
				for at := 0; at <= WO; at++ {
					for _, pending := range []bool{true, false} {
						if c.Stopped() {
							return
						}
						ok, ran := nestedRun(c, out, faulty(in, WI), "write", at, pending)
						if !ok {
							return
						}
						if ran != (at < WO) {
							c.Obs("nested:number_of_writes_differs_from_the_counting_run", 1)
						}
					}
				}
				// inside every call of the weights function of the outer call
				for k := 1; k <= out.n*(out.n-1)/2; k++ {
					if c.Stopped() {
						return
					}
					ok, _ := nestedRun(c, out, faulty(in, WI), "weights", k, false)
					if !ok {
						return
					}
				}
				c.Obs(fmt.Sprintf("nested:pair outer n=%d inner n=%d: all %d write positions x {bytes pending, bytes taken} and all %d weights calls", out.n, in.n, WO, out.n*(out.n-1)/2), 1)
			}
		})
	}
}

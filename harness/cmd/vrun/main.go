// vrun is the single binary of the verification harness: supervisor, child
// worker and replayer (see internal/cli for the modes).
package main

import (
	"verif/internal/cli"
	_ "verif/internal/props"
)

func main() { cli.Main() }

// Demonstration for change 2 (Range: descriptive panic messages instead of the fixed string "Infinite set").
//
// Run from the repository root:
//
//	cp demo_test.go sortints/demo_test.go
//	GOFLAGS=-mod=mod GOPROXY=off GOSUMDB=off GOTOOLCHAIN=local go test -vet=off -count=1 -timeout 120s -run 'TestDemo' -v ./sortints/
//
// TestDemoProperty checks the property itself for Range (every (start, end, step) in a box, plus values near the
// limits of int: the strictly increasing slice of the elements start+i*step between start (inclusive) and end
// (exclusive), and a panic - with whatever value - exactly when that set would be infinite). It passes both on the
// clean tree and with the change.
// TestDemoIncidentalPanicValue asserts the OLD incidental behaviour (the panic value is the string "Infinite set"):
// it passes on the clean tree and FAILS with the change.
package sortints_test

import (
	"math"
	"testing"

	"github.com/Tom-Johnston/mamba/sortints"
)

//callRange returns the result of Range, whether it panicked and the panic value.
func callRange(start, end, step int) (r sortints.SortedInts, panicked bool, value interface{}) {
	defer func() {
		if e := recover(); e != nil {
			panicked = true
			value = e
		}
	}()
	return sortints.Range(start, end, step), false, nil
}

func TestDemoProperty(t *testing.T) {
	for start := -9; start <= 9; start++ {
		for end := -9; end <= 9; end++ {
			for step := -7; step <= 7; step++ {
				infinite := (step == 0 && start != end) || (step > 0 && end < start) || (step < 0 && end > start)
				got, panicked, _ := callRange(start, end, step)
				if infinite {
					if !panicked {
						t.Fatalf("Range(%d, %d, %d) = %v, want a panic", start, end, step, got)
					}
					continue
				}
				if panicked {
					t.Fatalf("Range(%d, %d, %d) panicked", start, end, step)
				}
				//Model: collect start+i*step while it has not reached end, then sort increasingly.
				var want []int
				if start != end {
					for v := start; (step > 0 && v < end) || (step < 0 && v > end); v += step {
						want = append(want, v)
					}
				}
				if step < 0 {
					for i, j := 0, len(want)-1; i < j; i, j = i+1, j-1 {
						want[i], want[j] = want[j], want[i]
					}
				}
				if len(got) != len(want) {
					t.Fatalf("Range(%d, %d, %d) = %v, want %v", start, end, step, got, want)
				}
				for i := range got {
					if got[i] != want[i] || (i > 0 && got[i-1] >= got[i]) {
						t.Fatalf("Range(%d, %d, %d) = %v, want %v", start, end, step, got, want)
					}
				}
			}
		}
	}

	//Near the limits of int.
	got, panicked, _ := callRange(math.MaxInt-5, math.MaxInt, 2)
	if panicked || len(got) != 3 || got[0] != math.MaxInt-5 || got[1] != math.MaxInt-3 || got[2] != math.MaxInt-1 {
		t.Fatalf("Range(MaxInt-5, MaxInt, 2) = %v (panicked: %v)", got, panicked)
	}
	got, panicked, _ = callRange(math.MinInt+5, math.MinInt, -2)
	if panicked || len(got) != 3 || got[0] != math.MinInt+1 || got[1] != math.MinInt+3 || got[2] != math.MinInt+5 {
		t.Fatalf("Range(MinInt+5, MinInt, -2) = %v (panicked: %v)", got, panicked)
	}
	if _, panicked, _ = callRange(math.MinInt, math.MaxInt, -1); !panicked {
		t.Fatalf("Range(MinInt, MaxInt, -1) did not panic")
	}
	if _, panicked, _ = callRange(math.MaxInt, math.MinInt, 0); !panicked {
		t.Fatalf("Range(MaxInt, MinInt, 0) did not panic")
	}
}

func TestDemoIncidentalPanicValue(t *testing.T) {
	for _, c := range [][3]int{{0, 5, 0}, {0, 5, -1}, {5, 0, 2}} {
		_, panicked, value := callRange(c[0], c[1], c[2])
		t.Logf("Range(%d, %d, %d): panicked %v with %#v", c[0], c[1], c[2], panicked, value)
		if !panicked {
			t.Errorf("Range(%d, %d, %d) did not panic", c[0], c[1], c[2])
		} else if value != "Infinite set" {
			t.Errorf("Range(%d, %d, %d) panicked with %#v, the old value is \"Infinite set\"", c[0], c[1], c[2], value)
		}
	}
}

// Demonstration for C20, change 8 (the weight rows are formatted with strconv into one reused row buffer, one
// tabwriter Write per row, instead of one fmt.Fprintf per entry).
//
// Run (from the root of the library, after copying this file into the tsp directory):
//
//	cp demo_test.go <repo>/tsp/c20_demo_test.go
//	cd <repo> && GOFLAGS=-mod=mod GOPROXY=off GOSUMDB=off GOTOOLCHAIN=local go test -vet=off -count=1 -timeout 600s -run 'TestC20Demo' -v ./tsp
//
// TestC20DemoProperty checks the property itself: for several n (0 .. 40) and weight functions (negative, large,
// asymmetric in definition) the output parses as a TSPLIB problem with DIMENSION n whose LOWER_DIAG_ROW section holds
// exactly weights(i, j) for j < i and 0 on the diagonal, one row per line, followed by EOF; weights is only called with
// 0 <= j < i < n; and a failing Write at every position (transient and permanent, several short counts) makes LIB
// return a non-nil error. TestC20DemoSameWrites goes further than the property: it compares LIB with a copy of the
// clean-tree algorithm kept in this file - same bytes, same sequence of Write calls on w (number, sizes, contents),
// same sequence of calls of weights, including the extremes of int. Both pass before and after the change.
// TestC20DemoIncidentalAllocations pins OLD behaviour that the property does not mention: the clean tree goes through
// fmt.Fprintf once per entry and boxes every weight that is not a small number, so a call with n = 60 and four-digit
// weights makes more heap allocations than there are entries (1770). It passes on the clean tree and fails with the
// change, which makes a few hundred allocations (the tabwriter's own) for the same call. The test also prints the
// time of one call with n = 400 (informative only; several times faster with the change on an idle machine).
package tsp_test

import (
	"bytes"
	"errors"
	"fmt"
	"io"
	"io/ioutil"
	"math"
	"reflect"
	"strconv"
	"strings"
	"testing"
	"text/tabwriter"
	"time"

	"github.com/Tom-Johnston/mamba/tsp"
)

var errC20Injected = errors.New("c20 demo: injected write failure")

// c20Writer records every Write. The failAt-th Write call (1-based, 0 = never) fails; if permanent every later call
// fails too. A failing call accepts short bytes of its argument (clipped to len(p)) before reporting the error.
type c20Writer struct {
	calls     int
	buf       bytes.Buffer
	failAt    int
	permanent bool
	short     int
	failed    bool
}

func (w *c20Writer) Write(p []byte) (int, error) {
	w.calls++
	if w.failAt > 0 && (w.calls == w.failAt || (w.permanent && w.calls > w.failAt)) {
		w.failed = true
		k := w.short
		if k > len(p) {
			k = len(p)
		}
		w.buf.Write(p[:k])
		return k, errC20Injected
	}
	w.buf.Write(p)
	return len(p), nil
}

const c20Header = "DISPLAY_DATA_TYPE: NO_DISPLAY\nEDGE_WEIGHT_TYPE: EXPLICIT\nEDGE_WEIGHT_FORMAT: LOWER_DIAG_ROW\nEDGE_WEIGHT_SECTION\n"

// c20Check parses out as the TSPLIB problem that LIB has to produce for n and weights.
func c20Check(out string, n int, weights func(i, j int) int) error {
	prefix := "TYPE: TSP\nDIMENSION: " + strconv.Itoa(n) + "\n" + c20Header
	if !strings.HasPrefix(out, prefix) {
		return fmt.Errorf("bad header: %q", out)
	}
	rest := out[len(prefix):]
	if !strings.HasSuffix(rest, "EOF\n") {
		return fmt.Errorf("no EOF at the end")
	}
	rest = rest[:len(rest)-len("EOF\n")]
	var lines []string
	if rest != "" {
		if !strings.HasSuffix(rest, "\n") {
			return fmt.Errorf("weight section does not end with a newline")
		}
		lines = strings.Split(rest[:len(rest)-1], "\n")
	}
	if len(lines) != n {
		return fmt.Errorf("%d rows, want %d", len(lines), n)
	}
	for i, line := range lines {
		fields := strings.Fields(line)
		if len(fields) != i+1 {
			return fmt.Errorf("row %d has %d entries, want %d", i, len(fields), i+1)
		}
		for j, f := range fields {
			v, err := strconv.Atoi(f)
			if err != nil {
				return fmt.Errorf("row %d entry %d: %v", i, j, err)
			}
			want := 0
			if j < i {
				want = weights(i, j)
			}
			if v != want {
				return fmt.Errorf("row %d entry %d is %d, want %d", i, j, v, want)
			}
		}
	}
	return nil
}

var c20Weights = []struct {
	name string
	f    func(i, j int) int
}{
	{"small", func(i, j int) int { return (i*7 + j*3) % 10 }},
	{"mixed", func(i, j int) int { return (i*i*37+j*101)%2000 - 700 }},
	{"large", func(i, j int) int {
		if (i+j)%3 == 0 {
			return -(1 << 62) + i
		}
		return (1 << 40) * (i - 2*j)
	}},
	{"asymmetric", func(i, j int) int { return 1000*i - j }},
	{"growing", func(i, j int) int {
		v := 1
		for k := 0; k < (i+j)%9; k++ {
			v *= 10
		}
		return v
	}},
}

func TestC20DemoProperty(t *testing.T) {
	for _, wf := range c20Weights {
		for _, n := range []int{0, 1, 2, 3, 5, 11, 15, 16, 17, 31, 32, 33, 40} {
			n := n
			bad := ""
			counted := func(i, j int) int {
				if !(0 <= j && j < i && i < n) && bad == "" {
					bad = fmt.Sprintf("weights(%d, %d) called for n = %d", i, j, n)
				}
				return wf.f(i, j)
			}
			w := &c20Writer{}
			if err := tsp.LIB(w, n, counted); err != nil {
				t.Fatalf("%s n=%d: %v", wf.name, n, err)
			}
			if bad != "" {
				t.Fatalf("%s: %s", wf.name, bad)
			}
			if err := c20Check(w.buf.String(), n, wf.f); err != nil {
				t.Fatalf("%s n=%d: %v", wf.name, n, err)
			}
			if n > 18 {
				continue
			}
			total := w.calls
			for at := 1; at <= total; at++ {
				for _, permanent := range []bool{false, true} {
					for _, short := range []int{0, 1, 1 << 20} {
						fw := &c20Writer{failAt: at, permanent: permanent, short: short}
						err := tsp.LIB(fw, n, counted)
						if fw.failed && err == nil {
							t.Fatalf("%s n=%d: Write %d of %d failed (permanent=%v short=%d) but LIB returned nil", wf.name, n, at, total, permanent, short)
						}
						if !fw.failed {
							if err != nil {
								t.Fatalf("%s n=%d: no Write failed but LIB returned %v", wf.name, n, err)
							}
							if err := c20Check(fw.buf.String(), n, wf.f); err != nil {
								t.Fatalf("%s n=%d: %v", wf.name, n, err)
							}
						}
						if bad != "" {
							t.Fatalf("%s: %s", wf.name, bad)
						}
					}
				}
			}
		}
	}
}

// c20Reference is the algorithm of the clean tree.
func c20Reference(w io.Writer, n int, weights func(i, j int) int) error {
	if _, err := io.WriteString(w, "TYPE: TSP\n"); err != nil {
		return err
	}
	if _, err := fmt.Fprintf(w, "DIMENSION: %d\n", n); err != nil {
		return err
	}
	if _, err := io.WriteString(w, c20Header); err != nil {
		return err
	}
	tw := tabwriter.NewWriter(w, 0, 1, 1, ' ', tabwriter.AlignRight)
	for i := 0; i < n; i++ {
		for j := 0; j < i; j++ {
			fmt.Fprintf(tw, "%d\t", weights(i, j))
		}
		fmt.Fprint(tw, "0\t")
		fmt.Fprint(tw, "\n")
	}
	if err := tw.Flush(); err != nil {
		return err
	}
	_, err := io.WriteString(w, "EOF\n")
	return err
}

// c20Log records the pieces handed to Write; the failAt-th call (0 = never) fails after accepting one byte.
type c20Log struct {
	pieces []string
	failAt int
}

func (l *c20Log) Write(p []byte) (int, error) {
	l.pieces = append(l.pieces, string(p))
	if len(l.pieces) == l.failAt {
		if len(p) > 0 {
			return 1, errC20Injected
		}
		return 0, errC20Injected
	}
	return len(p), nil
}

func TestC20DemoSameWrites(t *testing.T) {
	extremes := func(i, j int) int {
		switch (i + 2*j) % 5 {
		case 0:
			return math.MinInt64
		case 1:
			return math.MaxInt64
		case 2:
			return -1
		case 3:
			return 0
		}
		return 255 + i - j
	}
	fs := []func(i, j int) int{extremes}
	for _, wf := range c20Weights {
		fs = append(fs, wf.f)
	}
	for k, f := range fs {
		for _, n := range []int{0, 1, 2, 3, 4, 9, 11, 20, 37} {
			var callsA, callsB [][2]int
			fa := func(i, j int) int { callsA = append(callsA, [2]int{i, j}); return f(i, j) }
			fb := func(i, j int) int { callsB = append(callsB, [2]int{i, j}); return f(i, j) }
			a, b := &c20Log{}, &c20Log{}
			errA, errB := tsp.LIB(a, n, fa), c20Reference(b, n, fb)
			if errA != nil || errB != nil || !reflect.DeepEqual(a.pieces, b.pieces) || !reflect.DeepEqual(callsA, callsB) {
				t.Fatalf("weights %d n=%d: LIB and the reference differ (%v, %v)", k, n, errA, errB)
			}
			if n > 11 {
				continue
			}
			for at := 1; at <= len(b.pieces); at++ {
				a, b := &c20Log{failAt: at}, &c20Log{failAt: at}
				errA, errB := tsp.LIB(a, n, f), c20Reference(b, n, f)
				if errA != errC20Injected || errB != errC20Injected || !reflect.DeepEqual(a.pieces, b.pieces) {
					t.Fatalf("weights %d n=%d, Write %d failing: LIB and the reference differ (%v, %v)", k, n, at, errA, errB)
				}
			}
		}
	}
}

func TestC20DemoIncidentalAllocations(t *testing.T) {
	const n = 60
	f := func(i, j int) int { return 1000 + 61*i + j }
	var buf bytes.Buffer
	if err := tsp.LIB(&buf, n, f); err != nil {
		t.Fatal(err)
	}
	if err := c20Check(buf.String(), n, f); err != nil { // the property holds either way
		t.Fatal(err)
	}
	entries := n * (n - 1) / 2
	allocs := testing.AllocsPerRun(20, func() { tsp.LIB(ioutil.Discard, n, f) })
	start := time.Now()
	tsp.LIB(ioutil.Discard, 400, f)
	t.Logf("n = %d: %.0f allocations per call for %d entries; one call with n = 400 takes %v", n, allocs, entries, time.Since(start))
	if allocs < float64(entries) {
		t.Fatalf("%.0f allocations for %d entries: the clean tree makes at least one per entry (fmt.Fprintf boxes every weight)", allocs, entries)
	}
}

// Demo for C02, change 5: CanonicalIsomorphAllocated works on a private copy of the
// CanonicalOptions it is given and no longer writes to the caller's struct (it used to
// set options.CheckViability = false as a side effect of every call that had it set).
//
// Run (from the root of the library checkout, public API only):
//
//	cp demo_test.go graph/zz_c02_demo5_test.go
//	GOFLAGS=-mod=mod GOPROXY=off GOSUMDB=off GOTOOLCHAIN=local \
//	  go test -vet=off -count=1 -timeout 120s -run 'TestC02Demo5' -v ./graph/
//	rm graph/zz_c02_demo5_test.go
//
// TestC02Demo5Property checks the property itself by brute force (orbits = orbits of
// the class-preserving automorphism group, every generator is such an automorphism,
// the generators generate the whole group, a reused storage/partition pair that is
// Reset for graphs of sizes going up and down within its capacity gives the same
// permutation, orbits and generators as a fresh call). Every second step of the
// sequence runs the reused call the way graph/search does: one long-lived options
// struct whose CheckViability and ViableBits are set before the call; whenever such
// a call is not refused its result is held against the fresh one as well, and a
// refusal (nil, nil, nil) must be the same with a fresh options struct. It passes
// BEFORE and AFTER the change.
//
// TestC02Demo5IncidentalOld asserts the OLD incidental behaviour: after a call with
// CheckViability set the caller's struct has CheckViability == false, so that a
// second call with the very same struct is not checked for viability any more.
// It PASSES on the clean tree and FAILS with the change.
package graph_test

import (
	"fmt"
	"math/rand"
	"reflect"
	"sort"
	"testing"

	"github.com/Tom-Johnston/mamba/disjoint"
	"github.com/Tom-Johnston/mamba/graph"
)

// c02d5Auts lists all class-preserving automorphisms of g by backtracking.
func c02d5Auts(g graph.Graph, cls []int) [][]int {
	n := g.N()
	var out [][]int
	img := make([]int, n)
	used := make([]bool, n)
	var rec func(k int)
	rec = func(k int) {
		if k == n {
			out = append(out, append([]int(nil), img...))
			return
		}
		for v := 0; v < n; v++ {
			if used[v] || cls[v] != cls[k] {
				continue
			}
			ok := true
			for j := 0; j < k && ok; j++ {
				ok = g.IsEdge(j, k) == g.IsEdge(img[j], v)
			}
			if !ok {
				continue
			}
			used[v] = true
			img[k] = v
			rec(k + 1)
			used[v] = false
		}
	}
	rec(0)
	return out
}

func c02d5PartKey(sets [][]int) string {
	s := make([]string, len(sets))
	for i := range sets {
		c := append([]int(nil), sets[i]...)
		sort.Ints(c)
		s[i] = fmt.Sprint(c)
	}
	sort.Strings(s)
	return fmt.Sprint(s)
}

// c02d5Check verifies the statement of C02 by brute force.
func c02d5Check(g graph.Graph, classes [][]int, orbits disjoint.Set, gens [][]int) error {
	n := g.N()
	cls := make([]int, n)
	for i, c := range classes {
		for _, v := range c {
			cls[v] = i
		}
	}
	auts := c02d5Auts(g, cls)
	autSet := map[string]bool{}
	uf := disjoint.New(n)
	for _, p := range auts {
		autSet[fmt.Sprint(p)] = true
		for i := range p {
			uf.Union(i, p[i])
		}
	}
	oc := append(disjoint.Set(nil), orbits...)
	if len(oc) != n || c02d5PartKey(oc.Sets()) != c02d5PartKey(uf.Sets()) {
		return fmt.Errorf("orbits %v, want %v", oc.Sets(), uf.Sets())
	}
	for _, gen := range gens {
		if !autSet[fmt.Sprint(gen)] {
			return fmt.Errorf("generator %v is not a (class-preserving) automorphism", gen)
		}
	}
	id := make([]int, n)
	for i := range id {
		id[i] = i
	}
	seen := map[string]bool{fmt.Sprint(id): true}
	queue := [][]int{id}
	for len(queue) > 0 {
		p := queue[0]
		queue = queue[1:]
		for _, gen := range gens {
			q := make([]int, n)
			for i := range q {
				q[i] = gen[p[i]]
			}
			if k := fmt.Sprint(q); !seen[k] {
				seen[k] = true
				queue = append(queue, q)
			}
		}
	}
	if len(seen) != len(auts) {
		return fmt.Errorf("generators %v generate a group of order %d, |Aut| = %d", gens, len(seen), len(auts))
	}
	return nil
}

func c02d5Random(r *rand.Rand, n int) *graph.DenseGraph {
	edges := make([]byte, n*(n-1)/2)
	p := r.Float64()
	for i := range edges {
		if r.Float64() < p {
			edges[i] = 1
		}
	}
	return graph.NewDense(n, edges)
}

func c02d5Classes(r *rand.Rand, n int) [][]int {
	k := 1 + r.Intn(n)
	p := r.Perm(n)
	cl := make([][]int, k)
	for i, v := range p {
		if i < k {
			cl[i] = append(cl[i], v)
		} else {
			j := r.Intn(k)
			cl[j] = append(cl[j], v)
		}
	}
	return cl
}


func c02d5Nbrs(g graph.Graph) [][]int {
	nb := make([][]int, g.N())
	for i := range nb {
		nb[i] = g.Neighbours(i)
	}
	return nb
}

func TestC02Demo5Property(t *testing.T) {
	const N, M = 7, 21
	r := rand.New(rand.NewSource(5))
	st := graph.NewStorage(N, M)
	op := graph.NewOrderedPartition(N, M, nil)
	shared := new(graph.CanonicalOptions) // lives as long as the pair, like in graph/search
	refused := 0
	for it := 0; it < 600; it++ {
		n := 1 + r.Intn(N)
		g := c02d5Random(r, n)
		var classes [][]int
		if it%4 >= 2 {
			classes = c02d5Classes(r, n)
		}
		perm, orb, gens := graph.CanonicalIsomorphFull(g, classes)
		if err := c02d5Check(g, classes, orb, gens); err != nil {
			t.Errorf("fresh %s classes=%v: %v", graph.Graph6Encode(g), classes, err)
		}
		nb := c02d5Nbrs(g)
		opts := new(graph.CanonicalOptions)
		if it%2 == 1 {
			// The way graph/search calls it: set both fields of the long-lived struct before the call.
			opts = shared
			opts.CheckViability = true
			opts.ViableBits = uint(r.Intn(1 << uint(n)))
			// The same call with a fresh pair and a fresh options struct.
			fo := &graph.CanonicalOptions{CheckViability: true, ViableBits: opts.ViableBits}
			fp, _, _ := graph.CanonicalIsomorphAllocated(n, g.M(), nb, graph.NewOrderedPartition(n, g.M(), classes), graph.NewStorage(n, g.M()), fo)
			op.Reset(n, g.M(), classes)
			rp, _, _ := graph.CanonicalIsomorphAllocated(n, g.M(), nb, op, st, opts)
			if (fp == nil) != (rp == nil) {
				t.Errorf("viability verdict of the reused pair differs from a fresh pair %s classes=%v bits=%b", graph.Graph6Encode(g), classes, opts.ViableBits)
				continue
			}
			if rp == nil {
				refused++
				continue
			}
			opts.CheckViability = true
		}
		op.Reset(n, g.M(), classes)
		perm2, orb2, gens2 := graph.CanonicalIsomorphAllocated(n, g.M(), nb, op, st, opts)
		if perm2 == nil {
			// only possible for it%2 == 1: the same verdict as just before
			t.Errorf("call refused although the same call was accepted just before %s", graph.Graph6Encode(g))
			continue
		}
		if !reflect.DeepEqual(perm, perm2) || c02d5PartKey(orb.Sets()) != c02d5PartKey(orb2.Sets()) || len(gens) != len(gens2) {
			t.Errorf("reused result differs from fresh result %s classes=%v", graph.Graph6Encode(g), classes)
			continue
		}
		for i := range gens {
			if !reflect.DeepEqual(gens[i], gens2[i]) {
				t.Errorf("reused generators differ from fresh generators %s classes=%v", graph.Graph6Encode(g), classes)
			}
		}
	}
	t.Logf("%d of the calls with CheckViability were refused", refused)
}

func TestC02Demo5IncidentalOld(t *testing.T) {
	// The star with centre 3: the centre (vertex n-1) ends up in a later cell than leaf 0, so with ViableBits = 1 the call is refused.
	g := graph.NewDense(4, []byte{0, 0, 0, 1, 1, 1})
	nb := c02d5Nbrs(g)
	st := graph.NewStorage(4, 3)
	op := graph.NewOrderedPartition(4, 3, nil)
	opts := &graph.CanonicalOptions{CheckViability: true, ViableBits: 1}
	p, o, gs := graph.CanonicalIsomorphAllocated(4, 3, nb, op, st, opts)
	if p != nil || o != nil || gs != nil {
		t.Fatalf("the call is not refused: %v %v %v", p, o, gs)
	}
	t.Logf("after the refused call: CheckViability=%v ViableBits=%b", opts.CheckViability, opts.ViableBits)
	if opts.CheckViability {
		t.Errorf("options.CheckViability is still true after the call; the old tree switches it off in the caller's struct")
	}
	// Old tree: the struct has been switched off, so the same struct now gives the full answer.
	op.Reset(4, 3, nil)
	p, o, gs = graph.CanonicalIsomorphAllocated(4, 3, nb, op, st, opts)
	t.Logf("second call with the same struct: %v %v %v", p, o, gs)
	if p == nil {
		t.Errorf("second call with the same (untouched by the caller) options struct is refused again; in the old tree it is answered")
	} else if err := c02d5Check(g, nil, o, gs); err != nil {
		t.Errorf("second call: %v", err)
	}

	// An accepted call switches it off as well in the old tree.
	opts = &graph.CanonicalOptions{CheckViability: true, ViableBits: 1 << 3}
	op.Reset(4, 3, nil)
	p, o, gs = graph.CanonicalIsomorphAllocated(4, 3, nb, op, st, opts)
	if p == nil {
		t.Fatalf("call with ViableBits = {3} refused")
	}
	if err := c02d5Check(g, nil, o, gs); err != nil {
		t.Errorf("accepted call: %v", err)
	}
	if opts.CheckViability {
		t.Errorf("options.CheckViability is still true after an accepted call; the old tree switches it off")
	}
}

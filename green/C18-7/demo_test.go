// Demonstration for C18-7 (Union hangs its two arguments directly below the new root).
//
// Run (from the root of the library worktree):
//   mkdir -p demo_c18_7 && cp /tmp/green-out/C18/7/demo_test.go demo_c18_7/ &&
//   GOFLAGS=-mod=mod GOPROXY=off GOSUMDB=off GOTOOLCHAIN=local go test -vet=off -count=1 -timeout 120s ./demo_c18_7/ ; rm -rf demo_c18_7
//
// TestProperty passes on the clean tree and with the change.
// TestIncidentalRawParents asserts the OLD raw parent pointers: passes on the clean tree, fails with the change.
package demo

import (
	"math/rand"
	"reflect"
	"testing"

	"github.com/Tom-Johnston/mamba/disjoint"
)

// naive model: label per element.
type model []int

func (m model) union(x, y int) {
	a, b := m[x], m[y]
	if a == b {
		return
	}
	for i := range m {
		if m[i] == b {
			m[i] = a
		}
	}
}

func checkAgainstModel(t *testing.T, ds disjoint.Set, m model) {
	t.Helper()
	n := len(m)
	reps := make([]int, n)
	buf := make([]int, n+1)
	for i := 0; i < n; i++ {
		reps[i] = ds.Find(i)
		if r := ds.FindBuffered(i, buf); r != reps[i] {
			t.Fatalf("Find(%d)=%d FindBuffered=%d", i, reps[i], r)
		}
	}
	for i := 0; i < n; i++ {
		if m[reps[i]] != m[i] {
			t.Fatalf("representative %d of %d is not in its set", reps[i], i)
		}
		for j := 0; j < n; j++ {
			if (reps[i] == reps[j]) != (m[i] == m[j]) {
				t.Fatalf("elements %d,%d: same rep %v, connected %v", i, j, reps[i] == reps[j], m[i] == m[j])
			}
		}
	}
	// expected Sets and SmallestRep
	var wantSets [][]int
	wantSR := make([]int, n)
	idx := map[int]int{}
	for i := 0; i < n; i++ {
		k, ok := idx[m[i]]
		if !ok {
			k = len(wantSets)
			idx[m[i]] = k
			wantSets = append(wantSets, nil)
		}
		wantSets[k] = append(wantSets[k], i)
		wantSR[i] = wantSets[k][0]
	}
	got := ds.Sets()
	if len(got) != len(wantSets) {
		t.Fatalf("Sets: %v want %v", got, wantSets)
	}
	for i := range got {
		if !reflect.DeepEqual(append([]int(nil), got[i]...), wantSets[i]) {
			t.Fatalf("Sets: %v want %v", got, wantSets)
		}
	}
	if sr := ds.SmallestRep(); n > 0 && !reflect.DeepEqual(sr, wantSR) {
		t.Fatalf("SmallestRep: %v want %v", sr, wantSR)
	}
	roots := append([]int(nil), ds.Roots()...)
	if len(roots) != len(wantSets) {
		t.Fatalf("Roots: %v for %d sets", roots, len(wantSets))
	}
	seen := map[int]bool{}
	for _, r := range roots {
		if seen[m[r]] {
			t.Fatalf("Roots: two roots in one set: %v", roots)
		}
		seen[m[r]] = true
	}
}

func TestProperty(t *testing.T) {
	rng := rand.New(rand.NewSource(18))
	for trial := 0; trial < 300; trial++ {
		n := 1 + rng.Intn(40)
		ds := disjoint.New(n)
		m := make(model, n)
		for i := range m {
			m[i] = i
		}
		buf := make([]int, n)
		steps := rng.Intn(3 * n)
		for s := 0; s < steps; s++ {
			x, y := rng.Intn(n), rng.Intn(n)
			switch rng.Intn(5) {
			case 0:
				ds.Union(x, y)
				m.union(x, y)
			case 1:
				ds.UnionBuffered(x, y, buf)
				m.union(x, y)
			case 2:
				ds.Find(x)
			case 3:
				ds.FindBuffered(y, buf)
			case 4:
				checkAgainstModel(t, ds, m)
			}
		}
		checkAgainstModel(t, ds, m)
	}
	// a long chain of pairings: trees of every rank
	n := 1 << 10
	ds := disjoint.New(n)
	m := make(model, n)
	for i := range m {
		m[i] = i
	}
	for step := 1; step < n; step *= 2 {
		for i := 0; i+step < n; i += 2 * step {
			ds.Union(i, i+step)
			m.union(i, i+step)
		}
		if step == 16 {
			checkAgainstModel(t, ds, m)
		}
	}
	checkAgainstModel(t, ds, m)
}

func TestIncidentalRawParents(t *testing.T) {
	ds := disjoint.New(4)
	ds.Union(0, 1)
	ds.Union(2, 3)
	ds.Union(0, 2)
	raw := append([]int(nil), ds...)
	t.Logf("raw contents after Union(0,1), Union(2,3), Union(0,2): %v", raw)
	// OLD behaviour: 0 still points at the old root 1, which now hangs below 3.
	if want := []int{1, 3, 3, -3}; !reflect.DeepEqual(raw, want) {
		t.Errorf("raw parent pointers %v, the clean tree leaves %v", raw, want)
	}
	// The partition and the representatives are the same on both trees.
	for i := 0; i < 4; i++ {
		if r := ds.Find(i); r != 3 {
			t.Fatalf("Find(%d)=%d want 3", i, r)
		}
	}
	if got := ds.Sets(); !reflect.DeepEqual(got, [][]int{{0, 1, 2, 3}}) {
		t.Fatalf("Sets %v", got)
	}
}

package engine

import (
	"bufio"
	"crypto/sha1"
	"encoding/binary"
	"encoding/hex"
	"encoding/json"
	"fmt"
	"io"
	"os"
	"os/exec"
	"path/filepath"
	"sort"
	"strconv"
	"strings"
	"sync"
	"time"
)

// SuperOpts are the options of the supervisor.
type SuperOpts struct {
	Prop     *Property
	Tier     string
	Seed     uint64
	Jobs     int
	VerifDir string // /verif
	Exe      string // path of the child binary
	Replay   string // replay file (optional)
	RepoDir  string
}

// Viol is a merged violation.
type Viol struct {
	Key      string          `json:"key"`
	Unit     string          `json:"unit"`
	Seq      int             `json:"-"`
	Case     json.RawMessage `json:"case,omitempty"`
	Observed string          `json:"observed,omitempty"`
	Expected string          `json:"expected,omitempty"`
	Kind     string          `json:"kind"` // viol | budget | crash | mem | offline
	Count    int             `json:"-"`
	Shard    int             `json:"-"` // shard that produced it (-1: unknown)
	Of       int             `json:"-"`
	Prefix   bool            `json:"-"` // reproduces only after the preceding units of its shard (process-level state)
}

// Super is the supervisor state; Finish hooks receive it.
type Super struct {
	o       SuperOpts
	RunDir  string
	mu      sync.Mutex
	Evals   int64
	NTCons  int64
	NT      map[uint64]struct{}
	ObsMap  map[string]int64
	samples []json.RawMessage
	viols   map[string]*Viol
	incon   []string
	unitsOK int
	unitsAb []string
	start   time.Time
	runTag  string
	slow    []string
	mechCov map[string]float64
	covNote string
}

// Tier returns the tier of the run.
func (s *Super) Tier() string { return s.o.Tier }

// Thorough reports whether the tier is thorough.
func (s *Super) Thorough() bool { return s.o.Tier == "thorough" }

// Obs returns a merged observation counter.
func (s *Super) Obs(name string) int64 { return s.ObsMap[name] }

// AddObs adds to a merged observation counter.
func (s *Super) AddObs(name string, n int64) { s.ObsMap[name] += n }

// AddEval adds judged evaluations made by an offline checker.
func (s *Super) AddEval(n int64) { s.Evals += n }

// Inconclusive makes the run inconclusive.
func (s *Super) Inconclusive(msg string) {
	s.mu.Lock()
	s.incon = append(s.incon, msg)
	s.mu.Unlock()
}

// Violation records a violation found by an offline checker.
func (s *Super) Violation(key string, detail interface{}, observed, expected string) {
	b, _ := json.Marshal(detail)
	s.addViol(&Viol{Key: key, Unit: "(offline)", Seq: 1 << 30, Case: b, Observed: observed, Expected: expected, Kind: "offline"})
}

// StreamFiles lists the event-stream files emitted by the children.
func (s *Super) StreamFiles(stream string) []string {
	m, _ := filepath.Glob(filepath.Join(s.RunDir, "events-"+stream+"-*.jsonl"))
	sort.Strings(m)
	return m
}

// EachLine calls f for every line of every file of the stream.
func (s *Super) EachLine(stream string, f func(line []byte)) error {
	for _, fn := range s.StreamFiles(stream) {
		fh, err := os.Open(fn)
		if err != nil {
			return err
		}
		r := bufio.NewReaderSize(fh, 1<<20)
		for {
			line, err := r.ReadBytes('\n')
			if len(line) > 0 {
				f(trimNL(line))
			}
			if err != nil {
				break
			}
		}
		fh.Close()
	}
	return nil
}

func trimNL(b []byte) []byte {
	for len(b) > 0 && (b[len(b)-1] == '\n' || b[len(b)-1] == '\r') {
		b = b[:len(b)-1]
	}
	return b
}

func (s *Super) addViol(v *Viol) {
	s.mu.Lock()
	defer s.mu.Unlock()
	if old, ok := s.viols[v.Key]; ok {
		old.Count++
		if v.Seq < old.Seq {
			v.Count = old.Count
			s.viols[v.Key] = v
		}
		return
	}
	v.Count = 1
	s.viols[v.Key] = v
}

// KnownFinding is one line of known_findings.jsonl.
type KnownFinding struct {
	Property string `json:"property"`
	Key      string `json:"key"`
	Status   string `json:"status"`
	Commit   string `json:"commit,omitempty"`
	What     string `json:"what"`
}

func loadKnown(path, prop string) []KnownFinding {
	var r []KnownFinding
	f, err := os.Open(path)
	if err != nil {
		return nil
	}
	defer f.Close()
	sc := bufio.NewScanner(f)
	sc.Buffer(make([]byte, 1<<20), 1<<20)
	for sc.Scan() {
		line := strings.TrimSpace(sc.Text())
		if line == "" || strings.HasPrefix(line, "#") {
			continue
		}
		var k KnownFinding
		if json.Unmarshal([]byte(line), &k) == nil && k.Property == prop {
			r = append(r, k)
		}
	}
	return r
}

func matchKnown(kfs []KnownFinding, key string) *KnownFinding {
	for i := range kfs {
		k := &kfs[i]
		if k.Status != "open" {
			continue
		}
		if k.Key == key {
			return k
		}
		if strings.HasSuffix(k.Key, "*") && strings.HasPrefix(key, strings.TrimSuffix(k.Key, "*")) {
			return k
		}
	}
	return nil
}

type journal struct {
	recs    []Rec
	done    bool
	stopped bool
	dead    string // unit begun but not ended
	ended   []string
}

func readJournal(path string) (*journal, error) {
	f, err := os.Open(path)
	if err != nil {
		return nil, err
	}
	defer f.Close()
	j := &journal{}
	r := bufio.NewReaderSize(f, 1<<20)
	open := ""
	for {
		line, err := r.ReadBytes('\n')
		if len(line) > 1 {
			var rec Rec
			if json.Unmarshal(line, &rec) == nil {
				j.recs = append(j.recs, rec)
				switch rec.T {
				case "begin":
					open = rec.Unit
				case "end":
					open = ""
					j.ended = append(j.ended, rec.Unit)
				case "done":
					j.done = true
				case "stopped":
					j.stopped = true
				}
			}
		}
		if err != nil {
			break
		}
	}
	j.dead = open
	return j, nil
}

func (s *Super) childArgs(shard, of int, tag string) []string {
	return []string{"child", s.o.Prop.ID, s.o.Tier,
		"--shard", strconv.Itoa(shard), "--of", strconv.Itoa(of),
		"--seed", strconv.FormatUint(s.o.Seed, 10), "--out", s.RunDir, "--tag", tag}
}

func (s *Super) runChild(args []string, stderrName string) (int, error) {
	cmd := exec.Command(s.o.Exe, args...)
	ef, err := os.Create(filepath.Join(s.RunDir, stderrName))
	if err != nil {
		return -1, err
	}
	defer ef.Close()
	cmd.Stderr = ef
	cmd.Stdout = ef
	cmd.Env = append(os.Environ(), "GOTRACEBACK=all")
	if !s.o.Prop.Race {
		cmd.Env = append(cmd.Env, "GOCOVERDIR="+filepath.Join(s.RunDir, "cov"))
	}
	if s.o.Prop.Race {
		cmd.Env = append(cmd.Env, "GORACE=halt_on_error=0 log_path="+filepath.Join(s.RunDir, "race"+strings.TrimSuffix(strings.TrimPrefix(stderrName, "shard"), ".stderr")))
	}
	err = cmd.Run()
	if err == nil {
		return 0, nil
	}
	if ee, ok := err.(*exec.ExitError); ok {
		return ee.ExitCode(), nil
	}
	return -1, err
}

func tail(path string, n int) string {
	b, err := os.ReadFile(path)
	if err != nil {
		return ""
	}
	if len(b) > n {
		// keep the head (fatal error message) and the tail
		h := n / 2
		return string(b[:h]) + "\n...\n" + string(b[len(b)-h:])
	}
	return string(b)
}

func (s *Super) absorb(j *journal, shard, of int) {
	var lastCum *Rec
	for i := range j.recs {
		r := &j.recs[i]
		switch r.T {
		case "cum":
			lastCum = r
		case "sample":
			s.mu.Lock()
			if len(s.samples) < 24 {
				s.samples = append(s.samples, r.Case)
			}
			s.mu.Unlock()
		case "viol":
			s.addViol(&Viol{Key: r.Key, Unit: r.Unit, Seq: unitSeqOf(j, r.Unit), Case: r.Case, Observed: r.Observed, Expected: r.Expected, Kind: "viol", Shard: shard, Of: of})
		case "budget":
			s.addViol(&Viol{Key: r.Key + "|budget", Unit: r.Unit, Seq: unitSeqOf(j, r.Unit), Case: jsonString(r.Key), Observed: fmt.Sprintf("library call did not return within %.1f CPU-s\n%s", r.CPU, r.Observed), Expected: "call returns (ordinary cases of this workload take milliseconds)", Kind: "budget"})
		case "mem":
			s.addViol(&Viol{Key: r.Key + "|mem", Unit: r.Unit, Seq: unitSeqOf(j, r.Unit), Observed: fmt.Sprintf("resident memory %d bytes during library call", r.V), Expected: "bounded memory", Kind: "mem"})
		case "slowskip":
			s.mu.Lock()
			s.ObsMap["units_cut_short_after_repeated_slowness(not judged)"]++
			s.unitsAb = append(s.unitsAb, r.Unit)
			s.mu.Unlock()
		case "harness_panic":
			s.Inconclusive("harness panic in unit " + r.Unit + ": " + r.Msg + "\n" + r.Observed)
		case "inconclusive":
			s.Inconclusive(r.Unit + ": " + r.Msg)
		}
	}
	if lastCum != nil {
		var cum cumRec
		if json.Unmarshal(lastCum.Case, &cum) == nil {
			s.mu.Lock()
			s.Evals += cum.Evals
			s.NTCons += cum.NTCons
			for k, v := range cum.Obs {
				if strings.HasPrefix(k, "max:") {
					if v > s.ObsMap[k] {
						s.ObsMap[k] = v
					}
				} else {
					s.ObsMap[k] += v
				}
			}
			s.mu.Unlock()
		}
	}
	s.mu.Lock()
	s.unitsOK += len(j.ended)
	s.mu.Unlock()
}

type cumRec struct {
	Evals  int64            `json:"evals"`
	NTCons int64            `json:"ntcons"`
	Obs    map[string]int64 `json:"obs"`
}

func unitSeqOf(j *journal, unit string) int {
	for i := range j.recs {
		if j.recs[i].T == "begin" && j.recs[i].Unit == unit {
			return j.recs[i].Seq
		}
	}
	return 1 << 29
}

func (s *Super) absorbNT(path string) {
	b, err := os.ReadFile(path)
	if err != nil {
		return
	}
	s.mu.Lock()
	for i := 0; i+8 <= len(b); i += 8 {
		s.NT[binary.LittleEndian.Uint64(b[i:])] = struct{}{}
	}
	s.mu.Unlock()
}

// runShard runs one shard to completion, restarting after deaths.
func (s *Super) runShard(shard, of int) {
	skip := map[string]bool{}
	slowEvents, unitBudgetEvents := 0, 0
	for attempt := 0; ; attempt++ {
		tag := ""
		if attempt > 0 {
			tag = fmt.Sprintf(".r%d", attempt)
		}
		args := s.childArgs(shard, of, tag)
		if len(skip) > 0 {
			sf := filepath.Join(s.RunDir, fmt.Sprintf("skip-%d%s.txt", shard, tag))
			var names []string
			for k := range skip {
				names = append(names, k)
			}
			os.WriteFile(sf, []byte(strings.Join(names, "\n")), 0o644)
			args = append(args, "--skip", sf)
		}
		if slowEvents >= 4 {
			args = append(args, "--slow-capped")
		}
		stderrName := fmt.Sprintf("shard-%d%s.stderr", shard, tag)
		code, err := s.runChild(args, stderrName)
		if err != nil {
			s.Inconclusive(fmt.Sprintf("shard %d: cannot run child: %v", shard, err))
			return
		}
		j, jerr := readJournal(filepath.Join(s.RunDir, fmt.Sprintf("shard-%d%s.journal", shard, tag)))
		if jerr != nil {
			s.Inconclusive(fmt.Sprintf("shard %d: no journal (exit %d): %s", shard, code, tail(filepath.Join(s.RunDir, stderrName), 2000)))
			return
		}
		if attempt == 0 {
			s.absorb(j, shard, of)
		} else {
			s.absorb(j, -1, of) // after a restart the prefix of the shard is no longer the same
		}
		s.absorbNT(filepath.Join(s.RunDir, fmt.Sprintf("nt-%d%s.bin", shard, tag)))
		if j.done || j.stopped {
			return
		}
		// the child died
		if j.dead == "" {
			s.Inconclusive(fmt.Sprintf("shard %d died outside a unit (exit %d): %s", shard, code, tail(filepath.Join(s.RunDir, stderrName), 3000)))
			return
		}
		hasRec := false
		for _, r := range j.recs {
			if (r.T == "budget" || r.T == "mem") && r.Unit == j.dead {
				hasRec = true
			}
			if r.T == "slow" && r.Unit == j.dead {
				hasRec = true
				slowEvents++
				s.mu.Lock()
				s.ObsMap["calls_abandoned_as_too_slow(not judged)"]++
				s.slow = append(s.slow, r.Key)
				s.mu.Unlock()
			}
			if r.T == "unit_budget" && r.Unit == j.dead {
				hasRec = true
				unitBudgetEvents++
				s.Inconclusive(fmt.Sprintf("unit %s abandoned after %.0f CPU-s / %d bytes resident: the harness's own work ran away there (not a verdict about the library)", r.Unit, r.CPU, r.V))
			}
		}
		if !hasRec {
			// hard crash (fatal error, stack overflow, out of memory): pin the case
			key := s.pinCrash(shard, j.dead, attempt)
			s.addViol(&Viol{Key: key + "|crash", Unit: j.dead, Seq: unitSeqOf(j, j.dead), Kind: "crash",
				Observed: fmt.Sprintf("child process died (exit %d) inside a library call:\n%s", code, tail(filepath.Join(s.RunDir, stderrName), 3000)),
				Expected: "call returns or panics recoverably"})
		}
		s.mu.Lock()
		s.unitsAb = append(s.unitsAb, j.dead)
		s.mu.Unlock()
		for _, u := range j.ended {
			skip[u] = true
		}
		skip[j.dead] = true
		if unitBudgetEvents >= 2 {
			s.Inconclusive(fmt.Sprintf("shard %d given up after two units ran away (whatever was found so far is reported)", shard))
			return
		}
		if attempt >= 30 {
			s.Inconclusive(fmt.Sprintf("shard %d restarted more than 30 times", shard))
			return
		}
	}
}

// pinCrash re-runs a unit with per-case journaling and returns the key of the
// last guarded call that was started.
func (s *Super) pinCrash(shard int, unit string, attempt int) string {
	tag := fmt.Sprintf(".pin%d", attempt)
	args := []string{"child", s.o.Prop.ID, s.o.Tier, "--shard", strconv.Itoa(shard), "--of", "1",
		"--seed", strconv.FormatUint(s.o.Seed, 10), "--out", s.RunDir, "--tag", tag, "--only", unit, "--percase"}
	s.runChild(args, fmt.Sprintf("shard-%d%s.stderr", shard, tag))
	j, err := readJournal(filepath.Join(s.RunDir, fmt.Sprintf("shard-%d%s.journal", shard, tag)))
	if err != nil {
		return unit + "|unpinned"
	}
	last := ""
	for _, r := range j.recs {
		if r.T == "case" {
			last = r.Key
		}
	}
	if last == "" {
		return unit + "|unpinned"
	}
	return last
}

// confirm re-executes the unit of a violation in a fresh child and reports
// whether the same key is produced again.
func (s *Super) confirm(v *Viol, n int) bool {
	if v.Kind == "offline" {
		return true
	}
	// a violation that depends on the schedule of goroutines (race-detector properties) need not show in every
	// execution of its unit: the confirmation is tried up to three times there
	attempts := 1
	if s.o.Prop.Race {
		attempts = 3
	}
	for a := 0; a < attempts; a++ {
		tag := fmt.Sprintf(".confirm%d", n)
		if a > 0 {
			tag = fmt.Sprintf(".confirm%d.%d", n, a)
		}
		args := []string{"child", s.o.Prop.ID, s.o.Tier, "--shard", "0", "--of", "1",
			"--seed", strconv.FormatUint(s.o.Seed, 10), "--out", s.RunDir, "--tag", tag, "--only", v.Unit}
		code, _ := s.runChild(args, fmt.Sprintf("shard-0%s.stderr", tag))
		j, err := readJournal(filepath.Join(s.RunDir, fmt.Sprintf("shard-0%s.journal", tag)))
		if err != nil {
			continue
		}
		for _, r := range j.recs {
			switch {
			case r.T == "viol" && r.Key == v.Key:
				return true
			case r.T == "budget" && r.Key+"|budget" == v.Key:
				return true
			case r.T == "mem" && r.Key+"|mem" == v.Key:
				return true
			}
		}
		if v.Kind == "crash" && !j.done && code != 0 {
			return true
		}
	}
	// The unit alone does not reproduce it: the violation may depend on state that earlier units of the same shard
	// left behind in the process (package-level pools, caches).  Re-execute the shard up to and including the unit.
	if v.Shard >= 0 && v.Of > 1 && v.Kind == "viol" {
		tag := fmt.Sprintf(".confirmprefix%d", n)
		args := []string{"child", s.o.Prop.ID, s.o.Tier, "--shard", strconv.Itoa(v.Shard), "--of", strconv.Itoa(v.Of),
			"--seed", strconv.FormatUint(s.o.Seed, 10), "--out", s.RunDir, "--tag", tag, "--stop-after", v.Unit}
		s.runChild(args, fmt.Sprintf("shard-%d%s.stderr", v.Shard, tag))
		if j2, err := readJournal(filepath.Join(s.RunDir, fmt.Sprintf("shard-%d%s.journal", v.Shard, tag))); err == nil {
			for _, r := range j2.recs {
				if r.T == "viol" && r.Key == v.Key {
					v.Prefix = true
					return true
				}
			}
		}
	}
	return false
}

// Replay is the content of a replay file.
type Replay struct {
	Property string          `json:"property"`
	Tier     string          `json:"tier"`
	Seed     uint64          `json:"seed"`
	Unit     string          `json:"unit"`
	Key      string          `json:"key"`
	Kind     string          `json:"kind"`
	Input    json.RawMessage `json:"input,omitempty"`
	Observed string          `json:"observed"`
	Expected string          `json:"expected"`
	RepoHead string          `json:"repo_head"`
	How      string          `json:"how_to_replay"`
	// NeedsPrefix: the violation reproduces only when the preceding units of shard Shard/Of ran in the same process.
	NeedsPrefix bool `json:"needs_shard_prefix,omitempty"`
	Shard       int  `json:"shard,omitempty"`
	Of          int  `json:"of,omitempty"`
}

func (s *Super) repoHead() string {
	out, err := exec.Command("git", "-C", s.o.RepoDir, "rev-parse", "--short", "HEAD").Output()
	if err != nil {
		return "unknown"
	}
	h := strings.TrimSpace(string(out))
	st, _ := exec.Command("git", "-C", s.o.RepoDir, "status", "--porcelain", "--untracked-files=no").Output()
	if len(strings.TrimSpace(string(st))) > 0 {
		h += "+dirty"
	}
	return h
}

func (s *Super) writeReplay(v *Viol) string {
	h := sha1.Sum([]byte(v.Key))
	name := fmt.Sprintf("%s-%s.json", s.o.Prop.ID, hex.EncodeToString(h[:6]))
	dir := filepath.Join(s.o.VerifDir, "replays")
	if s.runTag != "" {
		// self-test runs against scratch copies keep their replay files with their scratch directory
		dir = filepath.Join(s.RunDir, "replays")
	}
	os.MkdirAll(dir, 0o755)
	p := filepath.Join(dir, name)
	rp := Replay{Property: s.o.Prop.ID, Tier: s.o.Tier, Seed: s.o.Seed, Unit: v.Unit, Key: v.Key, Kind: v.Kind,
		Input: v.Case, Observed: v.Observed, Expected: v.Expected, RepoHead: s.repoHead(),
		How: fmt.Sprintf("cd /verif && ./check %s --replay %s", s.o.Prop.ID, p), NeedsPrefix: v.Prefix, Shard: v.Shard, Of: v.Of}
	b, _ := json.MarshalIndent(rp, "", " ")
	os.WriteFile(p, b, 0o644)
	return p
}

// RunSuper runs a whole check and returns the process exit code.
func RunSuper(o SuperOpts, out io.Writer) int {
	s := &Super{o: o, NT: map[uint64]struct{}{}, ObsMap: map[string]int64{}, viols: map[string]*Viol{}, start: time.Now()}
	// VERIF_RUN_TAG separates the scratch directory (and keeps the committed evidence file untouched) for runs
	// against scratch copies of the library (self-tests, seeded changes) that may overlap with a real run.
	s.runTag = os.Getenv("VERIF_RUN_TAG")
	s.RunDir = filepath.Join(o.VerifDir, ".run", o.Prop.ID+s.runTag)
	os.RemoveAll(s.RunDir)
	os.MkdirAll(filepath.Join(s.RunDir, "cov"), 0o755)
	if err := os.MkdirAll(s.RunDir, 0o755); err != nil {
		fmt.Fprintf(out, "INCONCLUSIVE property=%s reason=cannot create run dir: %v\n", o.Prop.ID, err)
		return 2
	}
	if o.Replay != "" {
		return s.replay(out)
	}
	jobs := o.Jobs
	if jobs < 1 {
		jobs = 1
	}
	if o.Prop.MaxJobs > 0 && jobs > o.Prop.MaxJobs {
		jobs = o.Prop.MaxJobs
	}
	var wg sync.WaitGroup
	if o.Prop.UnitPerProcess {
		s.runUnitsInOwnProcesses(jobs)
	} else {
		for k := 0; k < jobs; k++ {
			wg.Add(1)
			go func(k int) {
				defer wg.Done()
				s.runShard(k, jobs)
			}(k)
		}
		wg.Wait()
	}
	if o.Prop.Race {
		s.collectRaces()
	}
	s.collectCoverage()
	if o.Prop.Finish != nil {
		func() {
			defer func() {
				if r := recover(); r != nil {
					s.Inconclusive(fmt.Sprintf("offline checker panicked: %v", r))
				}
			}()
			o.Prop.Finish(s)
		}()
	}
	return s.verdict(out)
}

func (s *Super) verdict(out io.Writer) int {
	o := s.o
	known := loadKnown(filepath.Join(o.VerifDir, "known_findings.jsonl"), o.Prop.ID)
	var vs []*Viol
	for _, v := range s.viols {
		vs = append(vs, v)
	}
	sort.Slice(vs, func(i, j int) bool {
		if vs[i].Seq != vs[j].Seq {
			return vs[i].Seq < vs[j].Seq
		}
		return vs[i].Key < vs[j].Key
	})
	nViol := 0
	var knownHit []string
	printed := 0
	unconfirmed := 0
	seenKnown := map[string]bool{}
	for i, v := range vs {
		if k := matchKnown(known, v.Key); k != nil {
			if !seenKnown[k.Key] {
				seenKnown[k.Key] = true
				fmt.Fprintf(out, "KNOWN-FINDING: property=%s %s [key=%s]\n", o.Prop.ID, k.What, v.Key)
				knownHit = append(knownHit, v.Key)
			}
			continue
		}
		if printed >= 6 {
			// six confirmed witnesses are printed; further distinct keys are counted (and kept in the evidence) without
			// spending a fresh child each on them - a broken tree can produce dozens, and under the race detector a
			// confirmation takes a minute or two
			nViol++
			continue
		}
		if !s.confirm(v, i) {
			unconfirmed++
			s.Inconclusive(fmt.Sprintf("violation %q did not reproduce in a fresh child (observed: %s)", v.Key, firstLine(v.Observed)))
			continue
		}
		nViol++
		p := s.writeReplay(v)
		fmt.Fprintf(out, "VIOLATION property=%s replay=%s\n", o.Prop.ID, p)
		fmt.Fprintf(out, "  key=%s\n  observed=%s\n  expected=%s\n", v.Key, firstLine(v.Observed), firstLine(v.Expected))
		printed++
	}
	// floors
	nt := int64(len(s.NT)) + s.NTCons
	if nViol == 0 {
		if min := int64(o.Prop.MinEvaluations[o.Tier]); s.Evals < min {
			s.Inconclusive(fmt.Sprintf("only %d evaluations observed (floor %d)", s.Evals, min))
		}
		if min := int64(o.Prop.MinNontrivial[o.Tier]); nt < min {
			s.Inconclusive(fmt.Sprintf("only %d distinct non-trivial cases observed (floor %d)", nt, min))
		}
		for _, k := range o.Prop.RequiredObs {
			if s.ObsMap[k] <= 0 {
				s.Inconclusive(fmt.Sprintf("observation counter %q stayed at zero: the monitor never saw that mechanism", k))
			}
		}
	}
	s.writeEvidence(nViol, nt, knownHit)
	if nViol > 0 {
		return 1
	}
	if len(s.incon) > 0 {
		for i, m := range s.incon {
			if i >= 5 {
				break
			}
			fmt.Fprintf(out, "INCONCLUSIVE property=%s reason=%s\n", o.Prop.ID, strings.ReplaceAll(firstN(m, 1500), "\n", " | "))
		}
		return 2
	}
	fmt.Fprintf(out, "OK property=%s tier=%s seed=%d evaluations=%d distinct_nontrivial=%d wall_s=%.1f\n", o.Prop.ID, o.Tier, o.Seed, s.Evals, nt, time.Since(s.start).Seconds())
	return 0
}

func jsonString(s string) json.RawMessage {
	b, _ := json.Marshal(map[string]string{"guarded_call": s})
	return b
}

func firstLine(s string) string {
	if i := strings.IndexByte(s, '\n'); i >= 0 {
		s = s[:i]
	}
	return firstN(s, 300)
}

func firstN(s string, n int) string {
	if len(s) > n {
		return s[:n] + "..."
	}
	return s
}

func (s *Super) writeEvidence(nViol int, nt int64, knownHit []string) {
	o := s.o
	obs := map[string]int64{}
	for k, v := range s.ObsMap {
		obs[k] = v
	}
	samples := make([]interface{}, 0, len(s.samples))
	for _, r := range s.samples {
		var v interface{}
		if json.Unmarshal(r, &v) == nil {
			samples = append(samples, v)
		}
	}
	if len(samples) == 0 {
		samples = append(samples, "no sample recorded")
	}
	var exh []string
	for k := range obs {
		if strings.HasPrefix(k, "exhaustive:") {
			exh = append(exh, strings.TrimPrefix(k, "exhaustive:"))
		}
	}
	sort.Strings(exh)
	cov := map[string]interface{}{
		"evaluations":          s.Evals,
		"distinct_nontrivial":  nt,
		"rule":                 o.Prop.Rule,
		"samples":              samples,
		"observations":         obs,
		"exhaustive_sweeps":    exh,
		"units_completed":      s.unitsOK,
		"units_abandoned":      s.unitsAb,
		"slow_calls_abandoned": s.slow,
		"known_findings":       knownHit,
		"inconclusive":         s.incon,
		"jobs":                 o.Jobs,
	}
	if s.mechCov != nil {
		cov["mechanism_coverage_percent"] = s.mechCov
	}
	if s.covNote != "" {
		cov["mechanism_coverage_note"] = s.covNote
	}
	ev := map[string]interface{}{
		"property_id": o.Prop.ID,
		"tier":        o.Tier,
		"seed":        o.Seed,
		"level":       o.Prop.Level,
		"coverage":    cov,
		"assumptions": o.Prop.Assumptions,
		"wall_s":      time.Since(s.start).Seconds(),
		"violations":  nViol,
		"repo_head":   s.repoHead(),
	}
	b, _ := json.MarshalIndent(ev, "", " ")
	dir := filepath.Join(o.VerifDir, "evidence")
	if s.runTag != "" {
		dir = s.RunDir
	}
	os.MkdirAll(dir, 0o755)
	os.WriteFile(filepath.Join(dir, o.Prop.ID+".json"), append(b, '\n'), 0o644)
}

func (s *Super) replay(out io.Writer) int {
	b, err := os.ReadFile(s.o.Replay)
	if err != nil {
		fmt.Fprintf(out, "INCONCLUSIVE property=%s reason=cannot read replay file: %v\n", s.o.Prop.ID, err)
		return 2
	}
	var rp Replay
	if err := json.Unmarshal(b, &rp); err != nil {
		fmt.Fprintf(out, "INCONCLUSIVE property=%s reason=bad replay file: %v\n", s.o.Prop.ID, err)
		return 2
	}
	if rp.Kind == "offline" {
		fmt.Fprintf(out, "replay of an offline-checker violation: re-run ./check %s %s with VERIF_SEED=%d\n", rp.Property, rp.Tier, rp.Seed)
		return 2
	}
	s.o.Tier = rp.Tier
	s.o.Seed = rp.Seed
	v := &Viol{Key: rp.Key, Unit: rp.Unit, Kind: rp.Kind}
	args := []string{"child", s.o.Prop.ID, rp.Tier, "--shard", "0", "--of", "1",
		"--seed", strconv.FormatUint(rp.Seed, 10), "--out", s.RunDir, "--tag", ".replay", "--only", rp.Unit}
	jname := "shard-0.replay.journal"
	if rp.NeedsPrefix {
		args = []string{"child", s.o.Prop.ID, rp.Tier, "--shard", strconv.Itoa(rp.Shard), "--of", strconv.Itoa(rp.Of),
			"--seed", strconv.FormatUint(rp.Seed, 10), "--out", s.RunDir, "--tag", ".replay", "--stop-after", rp.Unit}
		jname = fmt.Sprintf("shard-%d.replay.journal", rp.Shard)
	}
	code, _ := s.runChild(args, "shard-0.replay.stderr")
	j, err := readJournal(filepath.Join(s.RunDir, jname))
	if err != nil {
		fmt.Fprintf(out, "INCONCLUSIVE property=%s reason=replay child wrote no journal\n", s.o.Prop.ID)
		return 2
	}
	hit := false
	for _, r := range j.recs {
		k := r.Key
		if r.T == "budget" {
			k += "|budget"
		}
		if (r.T == "viol" || r.T == "budget") && k == v.Key {
			hit = true
			fmt.Fprintf(out, "VIOLATION property=%s replay=%s\n  key=%s\n  case=%s\n  observed=%s\n  expected=%s\n", s.o.Prop.ID, s.o.Replay, k, string(r.Case), r.Observed, r.Expected)
		}
	}
	if !hit && rp.Kind == "crash" && !j.done && code != 0 {
		hit = true
		fmt.Fprintf(out, "VIOLATION property=%s replay=%s\n  key=%s\n  observed=child died again (exit %d)\n", s.o.Prop.ID, s.o.Replay, v.Key, code)
	}
	if hit {
		return 1
	}
	fmt.Fprintf(out, "replay: violation %q not reproduced on the current tree (unit %s ran, exit %d)\n", v.Key, rp.Unit, code)
	return 0
}

// collectRaces counts and deduplicates data-race reports of a -race run.
func (s *Super) collectRaces() {
	files, _ := filepath.Glob(filepath.Join(s.RunDir, "race*"))
	seen := map[string]string{}
	total := 0
	for _, fn := range files {
		b, err := os.ReadFile(fn)
		if err != nil {
			continue
		}
		blocks := strings.Split(string(b), "==================")
		for _, blk := range blocks {
			if !strings.Contains(blk, "WARNING: DATA RACE") {
				continue
			}
			total++
			sig := raceSignature(blk)
			if _, ok := seen[sig]; !ok {
				seen[sig] = blk
			}
		}
	}
	s.ObsMap["race_reports_total"] += int64(total)
	s.ObsMap["race_reports_distinct"] += int64(len(seen))
	for sig, blk := range seen {
		s.addViol(&Viol{Key: "race|" + sig, Unit: "(race)", Seq: 1 << 28, Kind: "offline", Observed: firstN(blk, 3500), Expected: "no data race report"})
	}
}

// raceSignature reduces a race report to the sorted pair of innermost library
// (or harness) functions of the two accesses, line numbers stripped.
func raceSignature(blk string) string {
	var fns []string
	sections := strings.Split(blk, "\n\n")
	for _, sec := range sections {
		lines := strings.Split(sec, "\n")
		if len(lines) == 0 {
			continue
		}
		head := strings.TrimSpace(lines[0])
		if !(strings.HasPrefix(head, "Write at") || strings.HasPrefix(head, "Read at") || strings.HasPrefix(head, "Previous write at") || strings.HasPrefix(head, "Previous read at") || strings.HasPrefix(head, "WARNING: DATA RACE")) {
			continue
		}
		for _, l := range lines[1:] {
			l = strings.TrimSpace(l)
			if strings.HasPrefix(l, "github.com/Tom-Johnston/mamba/") {
				if p := strings.IndexByte(l, '('); p > 0 {
					l = l[:p]
				}
				fns = append(fns, strings.TrimPrefix(l, "github.com/Tom-Johnston/mamba/"))
				break
			}
		}
	}
	sort.Strings(fns)
	if len(fns) == 0 {
		h := sha1.Sum([]byte(blk))
		return "nonlib-" + hex.EncodeToString(h[:4])
	}
	return strings.Join(fns, "~")
}

// collectCoverage reads the compiler's coverage counters written by the
// children of this run (the harness binary is built with -cover over the
// library packages) and records the statement coverage of every function of
// the property's anchored files; a required mechanism that was never executed
// makes the run inconclusive.
func (s *Super) collectCoverage() {
	p := s.o.Prop
	if p.Race || len(p.CoverFiles) == 0 {
		return
	}
	dir := filepath.Join(s.RunDir, "cov")
	ents, _ := os.ReadDir(dir)
	if len(ents) == 0 {
		s.covNote = "no coverage data written (child binary not built with -cover)"
		return
	}
	cmd := exec.Command("go", "tool", "covdata", "func", "-i="+dir)
	cmd.Env = append(os.Environ(), "GOFLAGS=-mod=mod", "GOTOOLCHAIN=local")
	out, err := cmd.Output()
	if err != nil {
		s.covNote = "go tool covdata failed: " + err.Error()
		return
	}
	s.mechCov = map[string]float64{}
	const prefix = "github.com/Tom-Johnston/mamba/"
	for _, line := range strings.Split(string(out), "\n") {
		f := strings.Fields(line)
		if len(f) != 3 || !strings.HasPrefix(f[0], prefix) {
			continue
		}
		loc := strings.TrimPrefix(f[0], prefix) // graph/canonical.go:31:
		parts := strings.Split(loc, ":")
		file := parts[0]
		keep := false
		for _, cf := range p.CoverFiles {
			if file == cf {
				keep = true
			}
		}
		for _, m := range p.Mechanisms {
			if strings.HasPrefix(m, file+":") {
				keep = true
			}
		}
		if !keep {
			continue
		}
		pct, _ := strconv.ParseFloat(strings.TrimSuffix(f[2], "%"), 64)
		s.mechCov[file+":"+f[1]] = pct
	}
	for _, m := range p.Mechanisms {
		v, ok := s.mechCov[m]
		if !ok {
			s.covNote += "mechanism " + m + " not found in the coverage table; "
			continue
		}
		if v <= 0 {
			s.Inconclusive("mechanism " + m + " was never executed by this run (coverage 0%): the monitor did not reach what it is there to watch")
		}
	}
}

// runUnitsInOwnProcesses enumerates the units with a listing child and then
// runs every unit in a fresh child process of its own.
func (s *Super) runUnitsInOwnProcesses(jobs int) {
	args := []string{"child", s.o.Prop.ID, s.o.Tier, "--shard", "0", "--of", "1",
		"--seed", strconv.FormatUint(s.o.Seed, 10), "--out", s.RunDir, "--tag", ".list", "--list"}
	if code, err := s.runChild(args, "list.stderr"); err != nil || code != 0 {
		s.Inconclusive(fmt.Sprintf("cannot enumerate units (exit %d, %v): %s", code, err, tail(filepath.Join(s.RunDir, "list.stderr"), 1500)))
		return
	}
	b, err := os.ReadFile(filepath.Join(s.RunDir, "units.txt"))
	if err != nil {
		s.Inconclusive("cannot read unit list: " + err.Error())
		return
	}
	units := strings.Split(strings.TrimSpace(string(b)), "\n")
	ch := make(chan int, len(units))
	for i := range units {
		ch <- i
	}
	close(ch)
	var wg sync.WaitGroup
	for w := 0; w < jobs; w++ {
		wg.Add(1)
		go func() {
			defer wg.Done()
			for i := range ch {
				tag := fmt.Sprintf(".u%d", i)
				a := []string{"child", s.o.Prop.ID, s.o.Tier, "--shard", strconv.Itoa(i), "--of", "1",
					"--seed", strconv.FormatUint(s.o.Seed, 10), "--out", s.RunDir, "--tag", tag, "--only", units[i]}
				stderrName := fmt.Sprintf("shard-%d%s.stderr", i, tag)
				code, err := s.runChild(a, stderrName)
				if err != nil {
					s.Inconclusive(fmt.Sprintf("unit %s: cannot run child: %v", units[i], err))
					continue
				}
				j, jerr := readJournal(filepath.Join(s.RunDir, fmt.Sprintf("shard-%d%s.journal", i, tag)))
				if jerr != nil {
					s.Inconclusive(fmt.Sprintf("unit %s: no journal (exit %d): %s", units[i], code, tail(filepath.Join(s.RunDir, stderrName), 2000)))
					continue
				}
				s.absorb(j, -1, 1)
				s.absorbNT(filepath.Join(s.RunDir, fmt.Sprintf("nt-%d%s.bin", i, tag)))
				if j.done || j.stopped {
					continue
				}
				hasRec := false
				for _, r := range j.recs {
					if r.T == "budget" || r.T == "mem" {
						hasRec = true
					}
					if r.T == "slow" {
						hasRec = true
						s.mu.Lock()
						s.ObsMap["calls_abandoned_as_too_slow(not judged)"]++
						s.slow = append(s.slow, r.Key)
						s.mu.Unlock()
					}
					if r.T == "unit_budget" {
						hasRec = true
						s.Inconclusive(fmt.Sprintf("unit %s abandoned after %.0f CPU-s: the harness's own work ran away there", r.Unit, r.CPU))
					}
				}
				if !hasRec {
					s.addViol(&Viol{Key: units[i] + "|crash", Unit: units[i], Seq: i, Kind: "crash",
						Observed: fmt.Sprintf("child process died (exit %d):\n%s", code, tail(filepath.Join(s.RunDir, stderrName), 3000)),
						Expected: "unit completes"})
				}
				s.mu.Lock()
				s.unitsAb = append(s.unitsAb, units[i])
				s.mu.Unlock()
			}
		}()
	}
	wg.Wait()
}

#!/bin/bash
# usage: selftest/sweep.sh <tier> <seed>...   -- every registered check at each seed; prints one line per run, exit 1 if any is not OK
cd "$(dirname "$0")/.."
tier="$1"; shift
rc=0
for seed in "$@"; do
  for p in $(./check list); do
    out=$(VERIF_SEED=$seed ./check "$p" "$tier" 2>&1); r=$?
    line=$(echo "$out" | grep -E "^(OK|VIOLATION|INCONCLUSIVE|KNOWN)" | head -2 | tr '\n' ' ' | cut -c1-220)
    echo "seed=$seed $p rc=$r $line"
    [ $r -ne 0 ] && rc=1
  done
done
exit $rc

// Demonstration for C15 / change 6 (MultisetCombinations keeps its own copy of the multiplicity bounds m, as Product
// does with its factor list, instead of holding on to the caller's slice).
//
// Run (from the root of the library, offline):
//
//	export GOFLAGS=-mod=mod GOPROXY=off GOSUMDB=off GOTOOLCHAIN=local
//	cp /tmp/green-out/C15/6/demo_test.go itertools/zz_c15_demo6_test.go
//	go test -vet=off -count=1 -timeout 300s -run 'TestC15Demo6' -v ./itertools/
//	rm itertools/zz_c15_demo6_test.go
//
// TestC15Demo6Property checks the property itself for MultisetCombinations: for every list m of 0..4 bounds in
// {0, 1, 2, 3} and every k from 0 to sum(m)+1 (the caller leaves m alone during the iteration, as every caller in
// the property's quantifier does) the iterator yields exactly the frequency vectors v with 0 <= v[i] <= m[i] and
// sum(v) = k, each once, Value() is the sorted multiset described by FreqValue(), m is not modified by the iterator,
// and Next returns false on each of 5 further calls.  It passes on the clean tree AND with the change.
// TestC15Demo6IncidentalAliasing asserts the OLD behaviour for a caller who DOES overwrite m after the constructor has
// returned (nothing documents what happens then): the old iterator reads the caller's slice on every Next, so it
// follows the new contents (bounds {2,1,1} lowered to {0,1,1} before the first Next: 1 multiset of size 2 instead of
// 4; a buffer {2,2} refilled with {2,1} after the first multiset: the iteration stops after 2 multisets).  It passes on the clean tree and FAILS with the change
// (the iterator enumerates for the bounds it was given: 4 resp. 3 multisets).
package itertools_test

import (
	"fmt"
	"sort"
	"testing"

	"github.com/Tom-Johnston/mamba/itertools"
)

// c15d6Model lists all v with 0 <= v[i] <= m[i] and sum(v) = k, as strings, sorted.
func c15d6Model(m []int, k int) []string {
	var out []string
	v := make([]int, len(m))
	var rec func(i, left int)
	rec = func(i, left int) {
		if i == len(m) {
			if left == 0 {
				out = append(out, fmt.Sprint(v))
			}
			return
		}
		for x := 0; x <= m[i] && x <= left; x++ {
			v[i] = x
			rec(i+1, left-x)
		}
		v[i] = 0
	}
	rec(0, k)
	sort.Strings(out)
	return out
}

func c15d6Check(t *testing.T, m []int, k int) {
	want := c15d6Model(m, k)
	arg := append([]int{}, m...)
	it := itertools.MultisetCombinations(arg, k)
	var got []string
	for it.Next() {
		f := append([]int{}, it.FreqValue()...)
		val := append([]int{}, it.Value()...)
		var flat []int
		for i, c := range f {
			for j := 0; j < c; j++ {
				flat = append(flat, i)
			}
		}
		if len(val) != k || fmt.Sprint(val) != fmt.Sprint(append(make([]int, 0), flat...)) {
			t.Fatalf("MultisetCombinations(%v,%d): Value %v does not match FreqValue %v", m, k, val, f)
		}
		got = append(got, fmt.Sprint(f))
		if len(got) > len(want) {
			t.Fatalf("MultisetCombinations(%v,%d): more than %d multisets", m, k, len(want))
		}
	}
	sort.Strings(got)
	if fmt.Sprint(got) != fmt.Sprint(want) {
		t.Fatalf("MultisetCombinations(%v,%d): got %v want %v", m, k, got, want)
	}
	for i := 0; i < 5; i++ {
		if it.Next() {
			t.Fatalf("MultisetCombinations(%v,%d): Next returned true after exhaustion (extra call %d)", m, k, i)
		}
	}
	if fmt.Sprint(arg) != fmt.Sprint(m) {
		t.Fatalf("MultisetCombinations(%v,%d): the iterator changed m to %v", m, k, arg)
	}
}

func TestC15Demo6Property(t *testing.T) {
	cases := 0
	for l := 0; l <= 4; l++ {
		total := 1
		for i := 0; i < l; i++ {
			total *= 4
		}
		for code := 0; code < total; code++ {
			m := make([]int, l)
			c, sum := code, 0
			for i := range m {
				m[i] = c % 4
				sum += m[i]
				c /= 4
			}
			for k := 0; k <= sum+1; k++ {
				c15d6Check(t, m, k)
				cases++
			}
		}
	}
	for _, m := range [][]int{{4, 3, 3, 2}, {0, 0, 5, 0, 1, 0}, {1, 1, 1, 1, 1, 1, 1}, {6}, {2, 2, 0, 0, 2, 2}} {
		sum := 0
		for _, x := range m {
			sum += x
		}
		for k := 0; k <= sum+1; k++ {
			c15d6Check(t, m, k)
			cases++
		}
	}
	t.Logf("checked %d pairs (m, k)", cases)
}

func TestC15Demo6IncidentalAliasing(t *testing.T) {
	// The bounds are lowered after the constructor has returned and before the first Next.
	m := []int{2, 1, 1}
	it := itertools.MultisetCombinations(m, 2)
	m[0] = 0
	var got []string
	for it.Next() {
		got = append(got, fmt.Sprint(it.FreqValue()))
	}
	t.Logf("bounds {2,1,1} overwritten with {0,1,1} before the first Next, k = 2: %d multisets %v", len(got), got)
	if len(got) != 1 {
		t.Errorf("old behaviour: the iterator follows the caller's slice and finds 1 multiset; got %d", len(got))
	}

	// A caller who refills one buffer (for the next iterator, say) while this one is still running.
	buf := []int{2, 2}
	a := itertools.MultisetCombinations(buf, 2)
	a.Next()
	all := []string{fmt.Sprint(a.FreqValue())}
	buf[0], buf[1] = 2, 1
	for a.Next() {
		all = append(all, fmt.Sprint(a.FreqValue()))
	}
	t.Logf("buffer {2,2} refilled with {2,1} after the first multiset, k = 2: %v", all)
	if fmt.Sprint(all) != "[[2 0] [1 1]]" {
		t.Errorf("old behaviour: the iteration follows the new bounds and stops after [2 0] [1 1]; got %v", all)
	}
}

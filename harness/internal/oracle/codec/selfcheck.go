package codec

import (
	"fmt"
	"reflect"

	"verif/internal/oracle/rg"
	"verif/internal/selfcheck"
)

// Published strings the reference codec must reproduce.
var (
	// formats.txt: size header examples.
	sizeExamples = []struct {
		n int
		b []byte
	}{
		{0, []byte{63}}, {30, []byte{93}}, {62, []byte{125}}, {63, []byte{126, 63, 63, 126}},
		{12345, []byte{126, 66, 63, 120}}, {258047, []byte{126, 125, 126, 126}},
		{258048, []byte{126, 126, 63, 63, 63, 126, 63, 63}},
		{460175067, []byte{126, 126, 63, 90, 90, 90, 90, 90}},
	}
	// graph6 / sparse6 pairs of the same labelled graph: the three pairs of the
	// repository's own tests (written by nauty's tools) and the Petersen graph
	// in Sage's labelling with Sage's documented strings.
	pairs = [][2]string{
		{"Ks@HOo?PGdCK", ":K`ADOccQXK`IaXcQMb"},
		{"OsaBA`GP@`dIHWEcas_]O", ":O`ACGPDC[QPJGYCqG\\KafPK`ckeSqDsIWyn"},
		{"J?AKagjXfo?", ":Ji?c@pEUPBFaGhg@CKf"},
		{"IheA@GUAo", ":I`ES@obGkqegW~"},
	}
)

func edgesToG(n int, e [][2]int) *rg.G {
	g := rg.New(n)
	for _, p := range e {
		g.Add(p[0], p[1])
	}
	return g
}

func init() {
	selfcheck.Add("codec: size header N(n) (formats.txt examples)", func() error {
		for _, ex := range sizeExamples {
			if got := SizeHeader(ex.n); !reflect.DeepEqual(got, ex.b) {
				return fmt.Errorf("N(%d) = %v, want %v", ex.n, got, ex.b)
			}
			n, used, ok := ParseSize(append(append([]byte{}, ex.b...), 70, 70))
			if !ok || n != uint64(ex.n) || used != len(ex.b) {
				return fmt.Errorf("ParseSize(%v) = %d,%d,%v", ex.b, n, used, ok)
			}
		}
		for _, bad := range [][]byte{{}, {126}, {126, 63}, {126, 63, 63}, {126, 126, 63, 63, 63, 63, 63}, {62}, {127}, {126, 63, 62, 63}} {
			if _, _, ok := ParseSize(bad); ok {
				return fmt.Errorf("ParseSize(%v) accepted", bad)
			}
		}
		return nil
	})

	selfcheck.Add("codec: graph6 examples (formats.txt DQc, K4, C5, Petersen)", func() error {
		ex := []struct {
			s string
			n int
			e [][2]int
		}{
			{"DQc", 5, [][2]int{{0, 2}, {0, 4}, {1, 3}, {3, 4}}},
			{"C~", 4, [][2]int{{0, 1}, {0, 2}, {0, 3}, {1, 2}, {1, 3}, {2, 3}}},
			{"Dhc", 5, [][2]int{{0, 1}, {1, 2}, {2, 3}, {3, 4}, {0, 4}}},
			{"IheA@GUAo", 10, [][2]int{{0, 1}, {0, 4}, {0, 5}, {1, 2}, {1, 6}, {2, 3}, {2, 7}, {3, 4}, {3, 8}, {4, 9}, {5, 7}, {5, 8}, {6, 8}, {6, 9}, {7, 9}}},
			{"?", 0, nil}, {"@", 1, nil}, {"A?", 2, nil}, {"A_", 2, [][2]int{{0, 1}}},
		}
		for _, x := range ex {
			g := edgesToG(x.n, x.e)
			if got := Graph6(g); got != x.s {
				return fmt.Errorf("Graph6(%v) = %q, want %q", g, got, x.s)
			}
			h, err := Graph6Parse(G6Header+x.s, 100)
			if err != nil || !h.Equal(g) {
				return fmt.Errorf("Graph6Parse(%q) = %v, %v; want %v", x.s, h, err, g)
			}
			if x.n > 0 && x.n <= 62 && g.G6() != x.s {
				return fmt.Errorf("rg.G6 disagrees on %q: %q", x.s, g.G6())
			}
		}
		for _, bad := range []string{"", "D", "DQ", "DQcc", "DQd", "~", "A~", "A\x00"} {
			if _, err := Graph6Parse(bad, 100); err == nil {
				return fmt.Errorf("Graph6Parse(%q) accepted", bad)
			}
		}
		return nil
	})

	selfcheck.Add("codec: sparse6 example of formats.txt (:Fa@x^) and K2 (:An)", func() error {
		want := edgesToG(7, [][2]int{{0, 1}, {0, 2}, {1, 2}, {5, 6}})
		r, err := Sparse6Scan(":Fa@x^", 100)
		if err != nil {
			return err
		}
		if r.N != 7 || r.K != 3 || r.Pairs != 6 || r.Loops != 0 || r.Repeats != 0 || r.Beyond != 1 || !r.Graph().Equal(want) {
			return fmt.Errorf("scan of :Fa@x^ = %+v", *r)
		}
		if got := Sparse6OfGraph(want); got != ":Fa@x^" {
			return fmt.Errorf("Sparse6 = %q, want :Fa@x^", got)
		}
		k2 := edgesToG(2, [][2]int{{0, 1}})
		if got := Sparse6OfGraph(k2); got != ":An" {
			return fmt.Errorf("Sparse6(K2) = %q, want :An", got)
		}
		for n, s := range map[int]string{0: ":?", 1: ":@", 5: ":D", 63: ":~??~"} {
			if got := Sparse6(n, nil); got != s {
				return fmt.Errorf("Sparse6(edgeless %d) = %q, want %q", n, got, s)
			}
		}
		return nil
	})

	selfcheck.Add("codec: graph6/sparse6 pairs written by nauty tools (repo tests) and Sage (Petersen)", func() error {
		for _, p := range pairs {
			g, err := Graph6Parse(p[0], 100)
			if err != nil {
				return fmt.Errorf("%q: %v", p[0], err)
			}
			if Graph6(g) != p[0] {
				return fmt.Errorf("Graph6 does not reproduce %q", p[0])
			}
			r, err := Sparse6Scan(S6Header+p[1], 100)
			if err != nil {
				return fmt.Errorf("%q: %v", p[1], err)
			}
			if r.Loops != 0 || r.Repeats != 0 || !r.Graph().Equal(g) {
				return fmt.Errorf("scan of %q differs from %q: %+v", p[1], p[0], *r)
			}
			if got := Sparse6OfGraph(g); got != p[1] {
				return fmt.Errorf("Sparse6(%q) = %q, want %q", p[0], got, p[1])
			}
		}
		return nil
	})

	selfcheck.Add("codec: sparse6 writers read back exactly (all graphs n<=5, padding rules n=2,4,8,16)", func() error {
		zero := 0
		check := func(g *rg.G, rnd *uint64) error {
			pick := func(m int) int {
				*rnd = *rnd*6364136223846793005 + 1442695040888963407
				return int((*rnd >> 33) % uint64(m))
			}
			for variant, s := range []string{Sparse6OfGraph(g), Sparse6Alt(g.N, g.Edges(), pick), Sparse6Alt(g.N, g.Edges(), pick)} {
				r, err := Sparse6Scan(s, 1000)
				if err != nil {
					return fmt.Errorf("%v variant %d %q: %v", g, variant, s, err)
				}
				if int(r.N) != g.N || r.Loops != 0 || r.Repeats != 0 || len(r.Edges) != g.M() || !r.Graph().Equal(g) {
					return fmt.Errorf("%v variant %d %q reads back as %+v", g, variant, s, *r)
				}
			}
			if g.M() == 0 {
				return nil
			}
			// The padding rule written from the text (degrees) must agree with
			// nauty's formulation: room >= k+1, last vertex written == n-2, n == 2^k.
			k := BitsFor(g.N)
			nbits, cur := 0, 0
			for _, p := range NormEdges(g.Edges()) {
				if p[1] > cur+1 {
					nbits += 1 + k
				}
				cur = p[1]
				nbits += 1 + k
			}
			room := (6 - nbits%6) % 6
			nautyZero := room != 0 && room >= k+1 && cur == g.N-2 && g.N == 1<<uint(k)
			s := Sparse6OfGraph(g)
			if len(s) != 1+len(SizeHeader(g.N))+(nbits+5)/6 {
				return fmt.Errorf("%v %q: %d stream bits expected", g, s, nbits)
			}
			lastByte := int(s[len(s)-1]) - 63
			gotZero := room != 0 && (lastByte>>uint(room-1))&1 == 0
			if nautyZero != gotZero {
				return fmt.Errorf("%v %q: zero-bit padding %v, nauty's condition says %v", g, s, gotZero, nautyZero)
			}
			if gotZero {
				zero++
			}
			return nil
		}
		rnd := uint64(12345)
		for n := 0; n <= 5; n++ {
			e := n * (n - 1) / 2
			for mask := 0; mask < 1<<uint(e); mask++ {
				g := rg.New(n)
				b := 0
				for j := 1; j < n; j++ {
					for i := 0; i < j; i++ {
						if mask>>uint(b)&1 == 1 {
							g.Add(i, j)
						}
						b++
					}
				}
				if err := check(g, &rnd); err != nil {
					return err
				}
			}
		}
		for _, n := range []int{2, 4, 8, 16, 3, 7, 9, 15, 17, 31, 32, 33, 64} {
			for t := 0; t < 400; t++ {
				g := rg.New(n)
				top := n
				if t%2 == 0 {
					top = n - 1 // last vertex isolated
				}
				for j := 1; j < top; j++ {
					for i := 0; i < j; i++ {
						rnd = rnd*6364136223846793005 + 1442695040888963407
						if (rnd>>40)%uint64(2+t%5) == 0 {
							g.Add(i, j)
						}
					}
				}
				if err := check(g, &rnd); err != nil {
					return err
				}
			}
		}
		if zero < 100 {
			return fmt.Errorf("the special padding rule was exercised only %d times", zero)
		}
		return nil
	})

	selfcheck.Add("codec: Multicode examples and round trip", func() error {
		k3 := edgesToG(3, [][2]int{{0, 1}, {0, 2}, {1, 2}})
		if got := Multicode(k3); !reflect.DeepEqual(got, []byte{3, 2, 3, 0, 3, 0}) {
			return fmt.Errorf("Multicode(K3) = %v", got)
		}
		p3 := edgesToG(3, [][2]int{{0, 1}, {1, 2}})
		if got := Multicode(p3); !reflect.DeepEqual(got, []byte{3, 2, 0, 3, 0}) {
			return fmt.Errorf("Multicode(P3) = %v", got)
		}
		if got := Multicode(rg.New(0)); !reflect.DeepEqual(got, []byte{0}) {
			return fmt.Errorf("Multicode(empty) = %v", got)
		}
		if got := Multicode(rg.New(1)); !reflect.DeepEqual(got, []byte{1}) {
			return fmt.Errorf("Multicode(K1) = %v", got)
		}
		cat := append(append(append(Multicode(k3), Multicode(rg.New(1))...), Multicode(rg.New(0))...), Multicode(p3)...)
		want := []*rg.G{k3, rg.New(1), rg.New(0), p3}
		for i, w := range want {
			g, rest, err := MulticodeParse(cat)
			if err != nil || !g.Equal(w) {
				return fmt.Errorf("record %d: %v %v", i, g, err)
			}
			cat = rest
		}
		if len(cat) != 0 {
			return fmt.Errorf("%d bytes left", len(cat))
		}
		return nil
	})

	selfcheck.Add("codec: Pruefer (Wikipedia example, Cayley counts n<=6, both compositions)", func() error {
		// Wikipedia: tree with edges 1-4 2-4 3-4 4-5 5-6 has code 4 4 4 5 (1-based).
		t := edgesToG(6, [][2]int{{0, 3}, {1, 3}, {2, 3}, {3, 4}, {4, 5}})
		if got := PruferCode(t); !reflect.DeepEqual(got, []int{3, 3, 3, 4}) {
			return fmt.Errorf("PruferCode = %v", got)
		}
		if got := PruferTree([]int{3, 3, 3, 4}); !got.Equal(t) {
			return fmt.Errorf("PruferTree = %v", got)
		}
		for n := 2; n <= 6; n++ {
			seen := map[string]bool{}
			code := make([]int, n-2)
			total := 1
			for i := 0; i < n-2; i++ {
				total *= n
			}
			for c := 0; c < total; c++ {
				x := c
				for i := range code {
					code[i] = x % n
					x /= n
				}
				tr := PruferTree(code)
				if !IsTree(tr) {
					return fmt.Errorf("PruferTree(%v) = %v is not a tree", code, tr)
				}
				if back := PruferCode(tr); !reflect.DeepEqual(back, code) {
					return fmt.Errorf("PruferCode(PruferTree(%v)) = %v", code, back)
				}
				if !PruferTreeCounted(code).Equal(tr) {
					return fmt.Errorf("PruferTreeCounted(%v) differs from PruferTree", code)
				}
				seen[tr.Key()] = true
			}
			if len(seen) != total {
				return fmt.Errorf("n=%d: %d distinct trees from %d codes", n, len(seen), total)
			}
		}
		// long codes with heavily repeated values: the two reference decoders
		// agree, the degrees are 1 + number of occurrences, the code comes back
		rnd := uint64(99)
		next := func(m int) int {
			rnd = rnd*6364136223846793005 + 1442695040888963407
			return int((rnd >> 33) % uint64(m))
		}
		for t := 0; t < 60; t++ {
			n := 20 + next(60)
			if t%10 == 0 {
				n = 300 + next(30)
			}
			code := make([]int, n-2)
			a, b := next(n), next(n)
			for i := range code {
				switch t % 3 {
				case 0:
					code[i] = a
				case 1:
					code[i] = []int{a, b}[next(2)]
				default:
					code[i] = next(n)
				}
			}
			tr := PruferTreeCounted(code)
			if !IsTree(tr) || (n < 100 && !PruferTree(code).Equal(tr)) {
				return fmt.Errorf("PruferTreeCounted(%v) wrong", code)
			}
			occ := make([]int, n)
			for _, c := range code {
				occ[c]++
			}
			for v := 0; v < n; v++ {
				if tr.Deg(v) != occ[v]+1 {
					return fmt.Errorf("PruferTreeCounted(%v): degree of %d is %d, %d occurrences", code, v, tr.Deg(v), occ[v])
				}
			}
			if back := PruferCode(tr); !reflect.DeepEqual(back, code) {
				return fmt.Errorf("PruferCode(PruferTreeCounted(%v)) = %v", code, back)
			}
		}
		return nil
	})
}

package bigcomb

import "testing"

func TestSelfCheck(t *testing.T) {
	if err := SelfCheck(); err != nil {
		t.Fatal(err)
	}
}

// Demonstration for C03 change 5 (the union-find table used by addAugmentations to find the orbits of k-subsets is no
// longer allocated with its worst-case size binomial(n, n/2) by the constructor; it is allocated on demand with the
// size that is actually needed, which is bounded by the minimum degree of the graphs that survive pruning).
//
// Copy to graph/search/demo_test.go in the library and run from the repository root:
//
//	GOFLAGS=-mod=mod GOPROXY=off GOSUMDB=off GOTOOLCHAIN=local \
//	  go test -vet=off -count=1 -timeout 300s -run 'TestDemo' -v ./graph/search/
//
// TestDemoProperty checks the property C03 itself (brute force isomorphism keys, n <= 7, several m, All and
// WithPruning with two hereditary predicates placed as preprune and as prune) and TestDemoPropertyWide checks it for
// n = 26 with the hereditary predicate "maximum degree <= 1" (classes = matchings with 0..13 edges); both pass on
// both trees.
// TestDemoIncidentalConstructorMemory pins the OLD memory behaviour (the constructor for n = 26 allocates at least
// 8*binomial(26,13) = 83 MB, and All(64,0,1) cannot even be constructed: comb.Coeff(64,32) panics); it passes on the clean tree and fails with
// the change.
package search_test

import (
	"fmt"
	"reflect"
	"runtime"
	"testing"

	"github.com/Tom-Johnston/mamba/graph"
	"github.com/Tom-Johnston/mamba/graph/search"
)

// numClasses[n] is the number of graphs on n vertices up to isomorphism (OEIS A000088).
var numClasses = []int{1, 1, 2, 4, 11, 34, 156, 1044}

func demoPerms(n int) [][]int {
	var out [][]int
	p := make([]int, n)
	for i := range p {
		p[i] = i
	}
	var rec func(k int)
	rec = func(k int) {
		if k == n {
			out = append(out, append([]int(nil), p...))
			return
		}
		for i := k; i < n; i++ {
			p[k], p[i] = p[i], p[k]
			rec(k + 1)
			p[k], p[i] = p[i], p[k]
		}
	}
	rec(0)
	return out
}

var demoPermCache = map[int][][]int{}

// demoKey is a brute force complete isomorphism invariant: the smallest adjacency bit mask over all relabellings.
func demoKey(g *graph.DenseGraph) uint32 {
	n := g.N()
	perms, ok := demoPermCache[n]
	if !ok {
		perms = demoPerms(n)
		demoPermCache[n] = perms
	}
	type pair struct{ i, j int }
	var edges []pair
	for j := 0; j < n; j++ {
		for i := 0; i < j; i++ {
			if g.IsEdge(i, j) {
				edges = append(edges, pair{i, j})
			}
		}
	}
	best := ^uint32(0)
	for _, p := range perms {
		x := uint32(0)
		for _, e := range edges {
			a, b := p[e.i], p[e.j]
			if a > b {
				a, b = b, a
			}
			x |= 1 << uint((b*(b-1))/2+a)
		}
		if x < best {
			best = x
		}
	}
	return best
}

// demoWellFormed checks that g is a consistent DenseGraph on n vertices.
func demoWellFormed(g *graph.DenseGraph, n int) error {
	if g.NumberOfVertices != n || g.N() != n {
		return fmt.Errorf("NumberOfVertices = %d, want %d", g.NumberOfVertices, n)
	}
	if len(g.Edges) != n*(n-1)/2 {
		return fmt.Errorf("len(Edges) = %d, want %d", len(g.Edges), n*(n-1)/2)
	}
	if len(g.DegreeSequence) != n {
		return fmt.Errorf("len(DegreeSequence) = %d, want %d", len(g.DegreeSequence), n)
	}
	deg := make([]int, n)
	m := 0
	for j := 0; j < n; j++ {
		for i := 0; i < j; i++ {
			if g.Edges[(j*(j-1))/2+i] != 0 {
				if !g.IsEdge(i, j) || !g.IsEdge(j, i) {
					return fmt.Errorf("IsEdge disagrees with Edges at %d,%d", i, j)
				}
				deg[i]++
				deg[j]++
				m++
			} else if g.IsEdge(i, j) || g.IsEdge(j, i) {
				return fmt.Errorf("IsEdge disagrees with Edges at %d,%d", i, j)
			}
		}
	}
	if m != g.NumberOfEdges || m != g.M() {
		return fmt.Errorf("NumberOfEdges = %d, want %d", g.NumberOfEdges, m)
	}
	if n > 0 && !reflect.DeepEqual(deg, g.DegreeSequence) {
		return fmt.Errorf("DegreeSequence = %v, want %v", g.DegreeSequence, deg)
	}
	return nil
}

// demoCollect runs all m shards and returns key -> number of times a graph of that class was yielded.
func demoCollect(t *testing.T, n, m int, mk func(a int) *search.GraphIterator) map[uint32]int {
	seen := map[uint32]int{}
	for a := 0; a < m; a++ {
		it := mk(a)
		for it.Next() {
			g := it.Value()
			if err := demoWellFormed(g, n); err != nil {
				t.Fatalf("n=%d a=%d m=%d: malformed graph: %v", n, a, m, err)
			}
			seen[demoKey(g)]++
		}
	}
	return seen
}

func hasTriangle(g *graph.DenseGraph) bool {
	n := g.N()
	for i := 0; i < n; i++ {
		for j := i + 1; j < n; j++ {
			if !g.IsEdge(i, j) {
				continue
			}
			for k := j + 1; k < n; k++ {
				if g.IsEdge(i, k) && g.IsEdge(j, k) {
					return true
				}
			}
		}
	}
	return false
}

func maxDegreeAbove2(g *graph.DenseGraph) bool {
	for _, d := range g.Degrees() {
		if d > 2 {
			return true
		}
	}
	return false
}

func never(g *graph.DenseGraph) bool { return false }

// demoClassesSatisfying enumerates every labelled graph on n vertices to compute, independently of the
// library's search, the set of classes which are not pruned by the predicate.
func demoClassesSatisfying(n int, pruned func(*graph.DenseGraph) bool) map[uint32]bool {
	out := map[uint32]bool{}
	e := n * (n - 1) / 2
	for mask := 0; mask < 1<<uint(e); mask++ {
		g := graph.NewDense(n, nil)
		for j := 0; j < n; j++ {
			for i := 0; i < j; i++ {
				if mask>>uint((j*(j-1))/2+i)&1 == 1 {
					g.AddEdge(i, j)
				}
			}
		}
		if !pruned(g) {
			out[demoKey(g)] = true
		}
	}
	return out
}

func TestDemoProperty(t *testing.T) {
	preds := map[string]func(*graph.DenseGraph) bool{"triangle": hasTriangle, "maxdeg>2": maxDegreeAbove2}
	for n := 0; n <= 7; n++ {
		ms := []int{1, 2, 3, 4, 7}
		if n == 7 {
			ms = []int{1, 2, 3}
		}
		// The classes which do NOT get pruned, per predicate. For n <= 6 computed without the library's search (all
		// labelled graphs), for n = 7 from the unpruned m = 1 run (which is itself checked against the class count).
		want := map[string]map[uint32]bool{}
		if n <= 6 {
			all := demoClassesSatisfying(n, never)
			if len(all) != numClasses[n] {
				t.Fatalf("demo brute force is wrong: n=%d %d classes", n, len(all))
			}
			for name, pred := range preds {
				want[name] = demoClassesSatisfying(n, pred)
			}
		}
		for _, m := range ms {
			seen := demoCollect(t, n, m, func(a int) *search.GraphIterator { return search.All(n, a, m) })
			if len(seen) != numClasses[n] {
				t.Fatalf("All n=%d m=%d: %d classes, want %d", n, m, len(seen), numClasses[n])
			}
			for k, c := range seen {
				if c != 1 {
					t.Fatalf("All n=%d m=%d: class %x yielded %d times", n, m, k, c)
				}
			}
			if m == 1 && n > 6 {
				for name, pred := range preds {
					want[name] = map[uint32]bool{}
					it := search.All(n, 0, 1)
					for it.Next() {
						if !pred(it.Value()) {
							want[name][demoKey(it.Value())] = true
						}
					}
				}
			}
			for name, pred := range preds {
				for _, place := range []string{"preprune", "prune"} {
					pred, place := pred, place
					seen := demoCollect(t, n, m, func(a int) *search.GraphIterator {
						if place == "preprune" {
							return search.WithPruning(n, a, m, pred, never)
						}
						return search.WithPruning(n, a, m, never, pred)
					})
					if len(seen) != len(want[name]) {
						t.Fatalf("WithPruning %s as %s n=%d m=%d: %d classes, want %d", name, place, n, m, len(seen), len(want[name]))
					}
					for k, c := range seen {
						if c != 1 || !want[name][k] {
							t.Fatalf("WithPruning %s as %s n=%d m=%d: class %x yielded %d times, wanted=%v", name, place, n, m, k, c, want[name][k])
						}
					}
				}
			}
		}
	}
}

func maxDegreeAbove1(g *graph.DenseGraph) bool {
	for _, d := range g.Degrees() {
		if d > 1 {
			return true
		}
	}
	return false
}

// TestDemoPropertyWide: n = 26, hereditary predicate "maximum degree <= 1" as preprune and as prune, m in {1,3}.
// A graph of maximum degree <= 1 is determined up to isomorphism by its number of edges, so the classes are 0..13.
func TestDemoPropertyWide(t *testing.T) {
	const n = 26
	for _, m := range []int{1, 3} {
		for _, place := range []string{"preprune", "prune"} {
			seen := map[int]int{}
			for a := 0; a < m; a++ {
				var it *search.GraphIterator
				if place == "preprune" {
					it = search.WithPruning(n, a, m, maxDegreeAbove1, never)
				} else {
					it = search.WithPruning(n, a, m, never, maxDegreeAbove1)
				}
				for it.Next() {
					g := it.Value()
					if err := demoWellFormed(g, n); err != nil {
						t.Fatalf("malformed: %v", err)
					}
					if maxDegreeAbove1(g) {
						t.Fatalf("yielded a graph which violates the predicate")
					}
					seen[g.M()]++
				}
			}
			if len(seen) != n/2+1 {
				t.Fatalf("%s m=%d: %d classes, want %d", place, m, len(seen), n/2+1)
			}
			for k, c := range seen {
				if c != 1 {
					t.Fatalf("%s m=%d: matching with %d edges yielded %d times", place, m, k, c)
				}
			}
		}
	}
}

func TestDemoIncidentalConstructorMemory(t *testing.T) {
	// OLD behaviour 1: the constructor allocates the worst-case table, 8*binomial(26,13) bytes = 83204800.
	var before, after runtime.MemStats
	runtime.GC()
	runtime.ReadMemStats(&before)
	it := search.WithPruning(26, 0, 1, maxDegreeAbove1, never)
	runtime.ReadMemStats(&after)
	delta := after.TotalAlloc - before.TotalAlloc
	t.Logf("WithPruning(26,...) allocated %d bytes", delta)
	if delta < 8*10400600 {
		t.Errorf("constructor for n=26 allocated only %d bytes; the old code allocates at least %d", delta, 8*10400600)
	}
	runtime.KeepAlive(it)

	// OLD behaviour 2: for n = 64 the worst-case table has binomial(64,32) = 1.8e18 entries, so the constructor panics
	// (comb: "calculation overflows uint64") although a heavily pruned search on 64 vertices needs only a few thousand entries.
	panicked := func() (p bool) {
		defer func() {
			if r := recover(); r != nil {
				t.Logf("All(64,0,1) panicked: %v", r)
				p = true
			}
		}()
		search.All(64, 0, 1)
		return false
	}()
	if !panicked {
		t.Errorf("All(64,0,1) could be constructed; the old code panics in the constructor")
	}
}

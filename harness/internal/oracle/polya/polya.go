// Package polya counts unlabelled graphs on n vertices from the cycle index
// of the pair group (independent of any enumeration).
package polya

import "math/big"

func gcd(a, b int) int {
	for b != 0 {
		a, b = b, a%b
	}
	return a
}

// Graphs returns the number of isomorphism classes of simple graphs on n vertices (OEIS A000088).
func Graphs(n int) *big.Int {
	if n == 0 {
		return big.NewInt(1)
	}
	total := new(big.Rat)
	var parts []int
	var rec func(rem, max int)
	rec = func(rem, max int) {
		if rem == 0 {
			// number of permutations with this cycle type / n!  = 1 / prod(k^{j_k} j_k!)
			den := big.NewInt(1)
			cnt := map[int]int{}
			for _, p := range parts {
				cnt[p]++
				den.Mul(den, big.NewInt(int64(p)))
			}
			for _, j := range cnt {
				f := big.NewInt(1)
				for i := 2; i <= j; i++ {
					f.Mul(f, big.NewInt(int64(i)))
				}
				den.Mul(den, f)
			}
			// cycles on unordered pairs
			e := 0
			for i, p := range parts {
				e += p / 2
				for _, q := range parts[:i] {
					e += gcd(p, q)
				}
			}
			num := new(big.Int).Lsh(big.NewInt(1), uint(e))
			total.Add(total, new(big.Rat).SetFrac(num, den))
			return
		}
		for p := max; p >= 1; p-- {
			if p <= rem {
				parts = append(parts, p)
				rec(rem-p, p)
				parts = parts[:len(parts)-1]
			}
		}
	}
	rec(n, n)
	if !total.IsInt() {
		panic("polya: non-integer count")
	}
	return new(big.Int).Set(total.Num())
}

// A000088 are the published values for n = 0..12.
var A000088 = []string{"1", "1", "2", "4", "11", "34", "156", "1044", "12346", "274668", "12005168", "1018997864", "165091172592"}

package main

import (
	"verif/internal/cli"
	_ "verif/internal/props/c02"
)

func main() { cli.Main() }

// Demonstration for C03 change 3 (isCanonical uses the number of triangles through a vertex as a further tie-break
// when it selects the "canonical vertex to delete", so for some isomorphism classes ANOTHER labelled representative
// is yielded, through another parent, and hence possibly from another shard).
//
// Copy to graph/search/demo_test.go in the library and run from the repository root:
//
//	GOFLAGS=-mod=mod GOPROXY=off GOSUMDB=off GOTOOLCHAIN=local \
//	  go test -vet=off -count=1 -timeout 300s -run 'TestDemo' -v ./graph/search/
//
// TestDemoProperty checks the property C03 itself (brute force isomorphism keys, n <= 7, several m, All and
// WithPruning with two hereditary predicates placed as preprune and as prune) and passes on both trees.
// TestDemoIncidentalRepresentatives pins the OLD labelled representatives for n = 6 and the OLD shard sizes; it passes
// on the clean tree and fails with the change.
package search_test

import (
	"crypto/sha256"
	"fmt"
	"reflect"
	"strings"
	"testing"

	"github.com/Tom-Johnston/mamba/graph"
	"github.com/Tom-Johnston/mamba/graph/search"
)

// numClasses[n] is the number of graphs on n vertices up to isomorphism (OEIS A000088).
var numClasses = []int{1, 1, 2, 4, 11, 34, 156, 1044}

func demoPerms(n int) [][]int {
	var out [][]int
	p := make([]int, n)
	for i := range p {
		p[i] = i
	}
	var rec func(k int)
	rec = func(k int) {
		if k == n {
			out = append(out, append([]int(nil), p...))
			return
		}
		for i := k; i < n; i++ {
			p[k], p[i] = p[i], p[k]
			rec(k + 1)
			p[k], p[i] = p[i], p[k]
		}
	}
	rec(0)
	return out
}

var demoPermCache = map[int][][]int{}

// demoKey is a brute force complete isomorphism invariant: the smallest adjacency bit mask over all relabellings.
func demoKey(g *graph.DenseGraph) uint32 {
	n := g.N()
	perms, ok := demoPermCache[n]
	if !ok {
		perms = demoPerms(n)
		demoPermCache[n] = perms
	}
	type pair struct{ i, j int }
	var edges []pair
	for j := 0; j < n; j++ {
		for i := 0; i < j; i++ {
			if g.IsEdge(i, j) {
				edges = append(edges, pair{i, j})
			}
		}
	}
	best := ^uint32(0)
	for _, p := range perms {
		x := uint32(0)
		for _, e := range edges {
			a, b := p[e.i], p[e.j]
			if a > b {
				a, b = b, a
			}
			x |= 1 << uint((b*(b-1))/2+a)
		}
		if x < best {
			best = x
		}
	}
	return best
}

// demoWellFormed checks that g is a consistent DenseGraph on n vertices.
func demoWellFormed(g *graph.DenseGraph, n int) error {
	if g.NumberOfVertices != n || g.N() != n {
		return fmt.Errorf("NumberOfVertices = %d, want %d", g.NumberOfVertices, n)
	}
	if len(g.Edges) != n*(n-1)/2 {
		return fmt.Errorf("len(Edges) = %d, want %d", len(g.Edges), n*(n-1)/2)
	}
	if len(g.DegreeSequence) != n {
		return fmt.Errorf("len(DegreeSequence) = %d, want %d", len(g.DegreeSequence), n)
	}
	deg := make([]int, n)
	m := 0
	for j := 0; j < n; j++ {
		for i := 0; i < j; i++ {
			if g.Edges[(j*(j-1))/2+i] != 0 {
				if !g.IsEdge(i, j) || !g.IsEdge(j, i) {
					return fmt.Errorf("IsEdge disagrees with Edges at %d,%d", i, j)
				}
				deg[i]++
				deg[j]++
				m++
			} else if g.IsEdge(i, j) || g.IsEdge(j, i) {
				return fmt.Errorf("IsEdge disagrees with Edges at %d,%d", i, j)
			}
		}
	}
	if m != g.NumberOfEdges || m != g.M() {
		return fmt.Errorf("NumberOfEdges = %d, want %d", g.NumberOfEdges, m)
	}
	if n > 0 && !reflect.DeepEqual(deg, g.DegreeSequence) {
		return fmt.Errorf("DegreeSequence = %v, want %v", g.DegreeSequence, deg)
	}
	return nil
}

// demoCollect runs all m shards and returns key -> number of times a graph of that class was yielded.
func demoCollect(t *testing.T, n, m int, mk func(a int) *search.GraphIterator) map[uint32]int {
	seen := map[uint32]int{}
	for a := 0; a < m; a++ {
		it := mk(a)
		for it.Next() {
			g := it.Value()
			if err := demoWellFormed(g, n); err != nil {
				t.Fatalf("n=%d a=%d m=%d: malformed graph: %v", n, a, m, err)
			}
			seen[demoKey(g)]++
		}
	}
	return seen
}

func hasTriangle(g *graph.DenseGraph) bool {
	n := g.N()
	for i := 0; i < n; i++ {
		for j := i + 1; j < n; j++ {
			if !g.IsEdge(i, j) {
				continue
			}
			for k := j + 1; k < n; k++ {
				if g.IsEdge(i, k) && g.IsEdge(j, k) {
					return true
				}
			}
		}
	}
	return false
}

func maxDegreeAbove2(g *graph.DenseGraph) bool {
	for _, d := range g.Degrees() {
		if d > 2 {
			return true
		}
	}
	return false
}

func never(g *graph.DenseGraph) bool { return false }

// demoClassesSatisfying enumerates every labelled graph on n vertices to compute, independently of the
// library's search, the set of classes which are not pruned by the predicate.
func demoClassesSatisfying(n int, pruned func(*graph.DenseGraph) bool) map[uint32]bool {
	out := map[uint32]bool{}
	e := n * (n - 1) / 2
	for mask := 0; mask < 1<<uint(e); mask++ {
		g := graph.NewDense(n, nil)
		for j := 0; j < n; j++ {
			for i := 0; i < j; i++ {
				if mask>>uint((j*(j-1))/2+i)&1 == 1 {
					g.AddEdge(i, j)
				}
			}
		}
		if !pruned(g) {
			out[demoKey(g)] = true
		}
	}
	return out
}

func TestDemoProperty(t *testing.T) {
	preds := map[string]func(*graph.DenseGraph) bool{"triangle": hasTriangle, "maxdeg>2": maxDegreeAbove2}
	for n := 0; n <= 7; n++ {
		ms := []int{1, 2, 3, 4, 7}
		if n == 7 {
			ms = []int{1, 2, 3}
		}
		// The classes which do NOT get pruned, per predicate. For n <= 6 computed without the library's search (all
		// labelled graphs), for n = 7 from the unpruned m = 1 run (which is itself checked against the class count).
		want := map[string]map[uint32]bool{}
		if n <= 6 {
			all := demoClassesSatisfying(n, never)
			if len(all) != numClasses[n] {
				t.Fatalf("demo brute force is wrong: n=%d %d classes", n, len(all))
			}
			for name, pred := range preds {
				want[name] = demoClassesSatisfying(n, pred)
			}
		}
		for _, m := range ms {
			seen := demoCollect(t, n, m, func(a int) *search.GraphIterator { return search.All(n, a, m) })
			if len(seen) != numClasses[n] {
				t.Fatalf("All n=%d m=%d: %d classes, want %d", n, m, len(seen), numClasses[n])
			}
			for k, c := range seen {
				if c != 1 {
					t.Fatalf("All n=%d m=%d: class %x yielded %d times", n, m, k, c)
				}
			}
			if m == 1 && n > 6 {
				for name, pred := range preds {
					want[name] = map[uint32]bool{}
					it := search.All(n, 0, 1)
					for it.Next() {
						if !pred(it.Value()) {
							want[name][demoKey(it.Value())] = true
						}
					}
				}
			}
			for name, pred := range preds {
				for _, place := range []string{"preprune", "prune"} {
					pred, place := pred, place
					seen := demoCollect(t, n, m, func(a int) *search.GraphIterator {
						if place == "preprune" {
							return search.WithPruning(n, a, m, pred, never)
						}
						return search.WithPruning(n, a, m, never, pred)
					})
					if len(seen) != len(want[name]) {
						t.Fatalf("WithPruning %s as %s n=%d m=%d: %d classes, want %d", name, place, n, m, len(seen), len(want[name]))
					}
					for k, c := range seen {
						if c != 1 || !want[name][k] {
							t.Fatalf("WithPruning %s as %s n=%d m=%d: class %x yielded %d times, wanted=%v", name, place, n, m, k, c, want[name][k])
						}
					}
				}
			}
		}
	}
}

func demoLabelled(g *graph.DenseGraph) string {
	var sb strings.Builder
	for _, b := range g.Edges {
		if b != 0 {
			sb.WriteByte('1')
		} else {
			sb.WriteByte('0')
		}
	}
	return sb.String()
}

func demoRun(it *search.GraphIterator) []string {
	out := []string{}
	for it.Next() {
		out = append(out, demoLabelled(it.Value()))
	}
	return out
}

// The OLD behaviour: which labelled graph represents a class, and how many graphs each shard yields.
func TestDemoIncidentalRepresentatives(t *testing.T) {
	// n <= 5: nothing changes (pinned as a hash of the sequence of labelled graphs); n = 6: two classes change their
	// representative.
	got6 := demoRun(search.All(6, 0, 1))
	h := sha256.Sum256([]byte(strings.Join(got6, "\n") + "\n"))
	const oldHash6 = "97f22fbfe1da8716d7f21936536619c84295f2a33182736a89b23f600a80305b"
	if fmt.Sprintf("%x", h) != oldHash6 {
		t.Errorf("All(6,0,1): the sequence of labelled graphs has SHA-256 %x, the old one was %s", h, oldHash6)
	}
	in6 := map[string]bool{}
	for _, s := range got6 {
		in6[s] = true
	}
	// Edges[(j*(j-1))/2+i] for i < j, i.e. the pairs 01 02 12 03 13 23 04 14 24 34 05 15 25 35 45.
	for _, s := range []string{"111010000101001", "101101011001010"} {
		if !in6[s] {
			t.Errorf("All(6,0,1) no longer yields the labelled graph %s (an isomorphic copy with another labelling is yielded instead)", s)
		}
	}
	for _, s := range []string{"101101010110010", "101101001000101"} {
		if in6[s] {
			t.Errorf("All(6,0,1) now yields the labelled graph %s which the old code did not yield", s)
		}
	}

	// Shard sizes.
	old := map[[3]int]int{
		{6, 0, 3}: 68, {6, 1, 3}: 20, {6, 2, 3}: 68,
		{7, 0, 2}: 480, {7, 1, 2}: 564,
		{7, 0, 3}: 252, {7, 1, 3}: 380, {7, 2, 3}: 412,
	}
	for k, want := range old {
		got := len(demoRun(search.All(k[0], k[1], k[2])))
		if got != want {
			t.Errorf("All(%d, %d, %d) yields %d graphs, the old code yielded %d", k[0], k[1], k[2], got, want)
		}
	}
}

// Package c05 drives DenseGraph and SparseGraph through edit histories in
// lock-step with the harness's adjacency-matrix model and checks every
// observer after every operation (DESIGN.md section 4, C05).
package c05

import (
	"fmt"
	"sort"
	"strings"

	"github.com/Tom-Johnston/mamba/graph"
	"github.com/Tom-Johnston/mamba/sortints"

	"verif/internal/engine"
	"verif/internal/oracle/rg"
)

func init() {
	engine.Register(&engine.Property{
		ID:    "C05",
		Level: "exploration",
		Rule: "edit histories (AddVertex, RemoveVertex, AddEdge, RemoveEdge, Copy, InducedSubgraph) applied in lock-step to a DenseGraph, a SparseGraph and an adjacency-matrix model; after EVERY operation all observers (N, M, IsEdge on all ordered pairs incl. the diagonal, Neighbours, Degrees) of ALL live graphs (sources and their copies / induced subgraphs) are compared with their models. " +
			"ALL histories up to a length bound from small start graphs (exhaustive), plus seeded long histories with up to 4 live graphs mutated alternately and shorter histories on graphs whose order crosses 64 and 128 vertices. " +
			"non-trivial = history with a RemoveVertex of a non-last vertex, or a Copy/InducedSubgraph followed by a mutation of source or result; distinct = hash of (start graph, operation sequence)",
		Assumptions: []string{
			"oracle: rg.G bit matrix with Induced/RemoveVertex/AddVertex written from the interface documentation",
			"argument slices stay caller-owned: the same slice object may be passed again and the caller may overwrite it after the call; slices returned by observers may be overwritten by the caller",
			"argument domain: valid vertex indices, i == j allowed for AddEdge/RemoveEdge, AddVertex neighbour lists in any order without repeated entries, InducedSubgraph vertex lists in any order without repeated entries",
			"start graphs are built by filling the exported struct fields directly or with NewDense/NewSparse(n, nil)",
		},
		Run:            run,
		MinEvaluations: map[string]int{"quick": 200000, "thorough": 2000000},
		MinNontrivial:  map[string]int{"quick": 2000, "thorough": 20000},
		RequiredObs:    []string{"op:AddVertex", "op:RemoveVertex", "op:RemoveVertex(non-last)", "op:AddEdge", "op:RemoveEdge", "op:Copy", "op:InducedSubgraph", "mutation_after_copy_or_induced", "addvertex_reusing_backing_array", "large_histories(n crossing 64/128)", "induced_shape_histories", "start_graphs_with_nonunit_edge_bytes_and_dirty_spare_capacity", "argument_slice_object_passed_again", "argument_buffer_refilled_in_place_and_passed_again", "argument_slice_overwritten_by_caller_after_call", "returned_slices_overwritten_then_reobserved"},
	})
}

// tracked is one abstract graph held in both representations plus the model.
type tracked struct {
	d graph.EditableGraph // *DenseGraph
	s graph.EditableGraph // *SparseGraph
	m *rg.G
	// derived marks graphs created by Copy / InducedSubgraph (or that served as source)
	shared bool
}

type op struct {
	kind string // av rv ae re cp is
	t    int    // index of the tracked graph it applies to
	a, b int
	list []int
}

func (o op) String() string {
	switch o.kind {
	case "av":
		return fmt.Sprintf("g%d.AddVertex(%v)", o.t, o.list)
	case "rv":
		return fmt.Sprintf("g%d.RemoveVertex(%d)", o.t, o.a)
	case "ae":
		return fmt.Sprintf("g%d.AddEdge(%d,%d)", o.t, o.a, o.b)
	case "re":
		return fmt.Sprintf("g%d.RemoveEdge(%d,%d)", o.t, o.a, o.b)
	case "cp":
		return fmt.Sprintf("g%d.Copy()", o.t)
	case "is":
		return fmt.Sprintf("g%d.InducedSubgraph(%v)", o.t, o.list)
	}
	return "?"
}

func histString(start string, ops []op) string {
	var sb strings.Builder
	sb.WriteString(start)
	for _, o := range ops {
		sb.WriteString(";")
		sb.WriteString(o.String())
	}
	return sb.String()
}

func kindOf(msg string) string {
	for i, ch := range msg {
		if ch == '(' || ch == '=' {
			return msg[:i]
		}
	}
	return msg
}

type runner struct {
	c       *engine.Ctx
	label   string
	variant int // memory layout of the start graphs (rg.DenseVariant)
	// argument slices handed to the library: a list with the same contents is handed over as the SAME slice object
	// again (a caller reusing its neighbour list), all other argument slices are overwritten by the caller after the
	// call (a caller recycling its buffer).  Neither may affect the graphs.
	pool     map[string][]int
	recycled map[int][]int
	step     int
}

// arg returns the slice to pass for list and whether it is a pooled (reused, never overwritten) object.
func (r *runner) arg(list []int, step int) ([]int, bool) {
	if r.pool == nil {
		r.pool = map[string][]int{}
	}
	key := fmt.Sprint(list)
	if s, ok := r.pool[key]; ok {
		r.c.Obs("argument_slice_object_passed_again", 1)
		return s, true
	}
	cp := append([]int(nil), list...)
	if step%2 == 0 && len(list) > 0 {
		r.pool[key] = cp
		return cp, true
	}
	if step%4 == 1 && len(list) > 0 {
		// ONE buffer per length that the caller refills in place for call after call (same address, same length,
		// other contents each time; it is overwritten after every call like any non-pooled argument)
		if r.recycled == nil {
			r.recycled = map[int][]int{}
		}
		b, ok := r.recycled[len(list)]
		if !ok {
			b = make([]int, len(list))
			r.recycled[len(list)] = b
		} else {
			r.c.Obs("argument_buffer_refilled_in_place_and_passed_again", 1)
		}
		copy(b, list)
		return b, false
	}
	return cp, false
}

// scribble overwrites a non-pooled argument slice after the call.
func (r *runner) scribble(l []int, pooled bool) {
	if pooled {
		return
	}
	for i := range l {
		l[i] = 0
	}
	if len(l) > 0 {
		r.c.Obs("argument_slice_overwritten_by_caller_after_call", 1)
	}
}

// variant selects how the start graphs are laid out in memory (see rg.DenseVariant): 0 = plain, > 0 = edge bytes
// other than 1 and spare capacity filled with garbage.
func newTracked(m *rg.G, viaConstructor bool, variant int) *tracked {
	t := &tracked{m: m.Copy()}
	if viaConstructor && m.M() == 0 {
		t.d = graph.NewDense(m.N, nil)
		t.s = graph.NewSparse(m.N, nil)
	} else {
		t.d = m.DenseVariant(variant)
		t.s = m.SparseVariant(variant)
	}
	return t
}

// apply executes o on all representations.  Returns a violation description
// or "".
func (r *runner) apply(key string, ts *[]*tracked, o op) (what, observed string) {
	c := r.c
	t := (*ts)[o.t]
	doBoth := func(name string, f func(g graph.EditableGraph)) (string, string) {
		for ri, g := range []graph.EditableGraph{t.d, t.s} {
			rep := "dense"
			if ri == 1 {
				rep = "sparse"
			}
			if pi := c.Call(key, func() { f(g) }); pi != nil {
				return rep + "|" + name + "|panic@" + engine.SiteNoLine(pi.Site), pi.String()
			}
		}
		return "", ""
	}
	switch o.kind {
	case "av":
		c.Obs("op:AddVertex", 1)
		if d, ok := t.d.(*graph.DenseGraph); ok {
			n := d.NumberOfVertices
			if cap(d.Edges) >= n*(n-1)/2+n && n > 0 {
				c.Obs("addvertex_reusing_backing_array", 1)
			}
		}
		l1, p1 := r.arg(o.list, r.step)
		l2 := l1
		if !p1 {
			l2 = append([]int(nil), o.list...)
		}
		if pi := c.Call(key, func() { t.d.AddVertex(l1) }); pi != nil {
			return "dense|AddVertex|panic@" + engine.SiteNoLine(pi.Site), pi.String()
		}
		if pi := c.Call(key, func() { t.s.AddVertex(l2) }); pi != nil {
			return "sparse|AddVertex|panic@" + engine.SiteNoLine(pi.Site), pi.String()
		}
		for i := range o.list {
			if l1[i] != o.list[i] || l2[i] != o.list[i] {
				return "AddVertex|modified-its-argument", fmt.Sprintf("argument %v became %v / %v", o.list, l1, l2)
			}
		}
		r.scribble(l1, p1)
		r.scribble(l2, p1)
		t.m = t.m.AddVertex(o.list)
	case "rv":
		c.Obs("op:RemoveVertex", 1)
		if o.a != t.m.N-1 {
			c.Obs("op:RemoveVertex(non-last)", 1)
		}
		if w, ob := doBoth("RemoveVertex", func(g graph.EditableGraph) { g.RemoveVertex(o.a) }); w != "" {
			return w, ob
		}
		t.m = t.m.RemoveVertex(o.a)
	case "ae":
		c.Obs("op:AddEdge", 1)
		if t.m.Has(o.a, o.b) || o.a == o.b {
			c.Obs("op:AddEdge(no-op)", 1)
		}
		if w, ob := doBoth("AddEdge", func(g graph.EditableGraph) { g.AddEdge(o.a, o.b) }); w != "" {
			return w, ob
		}
		t.m.Add(o.a, o.b)
	case "re":
		c.Obs("op:RemoveEdge", 1)
		if !t.m.Has(o.a, o.b) {
			c.Obs("op:RemoveEdge(no-op)", 1)
		}
		if w, ob := doBoth("RemoveEdge", func(g graph.EditableGraph) { g.RemoveEdge(o.a, o.b) }); w != "" {
			return w, ob
		}
		t.m.Del(o.a, o.b)
	case "cp":
		c.Obs("op:Copy", 1)
		nt := &tracked{m: t.m.Copy(), shared: true}
		t.shared = true
		if pi := c.Call(key, func() { nt.d = t.d.Copy() }); pi != nil {
			return "dense|Copy|panic@" + engine.SiteNoLine(pi.Site), pi.String()
		}
		if pi := c.Call(key, func() { nt.s = t.s.Copy() }); pi != nil {
			return "sparse|Copy|panic@" + engine.SiteNoLine(pi.Site), pi.String()
		}
		*ts = append(*ts, nt)
	case "is":
		c.Obs("op:InducedSubgraph", 1)
		nt := &tracked{m: t.m.Induced(o.list), shared: true}
		t.shared = true
		l1, p1 := r.arg(o.list, r.step)
		l2 := l1
		if !p1 {
			l2 = append([]int(nil), o.list...)
			if r.step%4 == 1 && len(o.list) > 0 {
				// the sparse graph gets a recycled buffer of its own (same address and length as last time)
				k := -len(o.list)
				b, ok := r.recycled[k]
				if !ok {
					b = make([]int, len(o.list))
					r.recycled[k] = b
				}
				copy(b, o.list)
				l2 = b
			}
		}
		if pi := c.Call(key, func() { nt.d = t.d.InducedSubgraph(l1) }); pi != nil {
			return "dense|InducedSubgraph|panic@" + engine.SiteNoLine(pi.Site), pi.String()
		}
		if pi := c.Call(key, func() { nt.s = t.s.InducedSubgraph(l2) }); pi != nil {
			return "sparse|InducedSubgraph|panic@" + engine.SiteNoLine(pi.Site), pi.String()
		}
		for i := range o.list {
			if l1[i] != o.list[i] || l2[i] != o.list[i] {
				return "InducedSubgraph|modified-its-argument", fmt.Sprintf("argument %v became %v / %v", o.list, l1, l2)
			}
		}
		r.scribble(l1, p1)
		r.scribble(l2, p1)
		*ts = append(*ts, nt)
	}
	if (o.kind == "av" || o.kind == "rv" || o.kind == "ae" || o.kind == "re") && t.shared {
		c.Obs("mutation_after_copy_or_induced", 1)
	}
	return "", ""
}

// observe compares every live graph with its model.
func (r *runner) observe(key string, ts []*tracked, lastKind string) (what, observed string) {
	c := r.c
	for ti, t := range ts {
		for ri, g := range []graph.EditableGraph{t.d, t.s} {
			rep := "dense"
			if ri == 1 {
				rep = "sparse"
			}
			var msg string
			if pi := c.Call(key+"|observe", func() { msg = rg.Conforms(g, t.m) }); pi != nil {
				return rep + "|after-" + lastKind + "|observer-panic@" + engine.SiteNoLine(pi.Site), fmt.Sprintf("g%d (%s): %s", ti, rep, pi.String())
			}
			c.Eval(1)
			if msg != "" {
				return rep + "|after-" + lastKind + "|" + kindOf(msg), fmt.Sprintf("g%d (%s): %s; model %v", ti, rep, msg, t.m)
			}
			// the slices returned by the observers belong to the caller: overwrite them and look again
			if r.step%4 == 1 && t.m.N > 0 {
				if pi := c.Call(key+"|observe-after-caller-overwrote-returned-slices", func() {
					for v := 0; v < t.m.N; v++ {
						nb := g.Neighbours(v)
						for i := range nb {
							nb[i] = 0
						}
					}
					d := g.Degrees()
					for i := range d {
						d[i] = -1
					}
					msg = rg.Conforms(g, t.m)
				}); pi != nil {
					return rep + "|after-" + lastKind + "|observer-panic-after-returned-slices-overwritten@" + engine.SiteNoLine(pi.Site), fmt.Sprintf("g%d (%s): %s", ti, rep, pi.String())
				}
				c.Obs("returned_slices_overwritten_then_reobserved", 1)
				if msg != "" {
					return rep + "|after-" + lastKind + "|returned-slice-aliases-graph|" + kindOf(msg), fmt.Sprintf("g%d (%s): after the caller overwrote the slices returned by Neighbours/Degrees: %s; model %v", ti, rep, msg, t.m)
				}
			}
		}
	}
	return "", ""
}

// runHistory executes a history; short = use the history itself as key.
func (r *runner) runHistory(startName string, start *rg.G, viaCons bool, ops []op, keyPfx string) bool {
	c := r.c
	variant := 0
	if !viaCons {
		variant = r.variant
	}
	ts := []*tracked{newTracked(start, viaCons, variant)}
	if variant > 0 {
		c.Obs("start_graphs_with_nonunit_edge_bytes_and_dirty_spare_capacity", 1)
	}
	nt := false
	afterShare := false
	if w, ob := r.observe(keyPfx+"|start", ts, "start"); w != "" {
		c.Violation("edit|"+w+"|"+startName, map[string]interface{}{"start": start.String(), "workload": r.label}, ob, "observers equal to the adjacency-set model")
		return false
	}
	r.pool = nil
	for step, o := range ops {
		r.step = step
		var key string
		if keyPfx == "" {
			key = "edit|" + histString(startName, ops[:step+1])
		} else {
			key = fmt.Sprintf("edit|%s|step=%d|%s", keyPfx, step, o.String())
		}
		if o.kind == "rv" && o.a != ts[o.t].m.N-1 {
			nt = true
		}
		if (o.kind == "cp" || o.kind == "is") && true {
			afterShare = true
		} else if afterShare && ts[o.t].shared {
			nt = true
		}
		w, ob := r.apply(key, &ts, o)
		if w == "" {
			w, ob = r.observe(key, ts, o.kind)
		}
		if w != "" {
			vk := "edit|" + w + "|"
			if keyPfx == "" {
				vk += histString(startName, ops[:step+1])
			} else {
				vk += fmt.Sprintf("%s|step=%d", keyPfx, step)
			}
			hist := ops[:step+1]
			tail := hist
			if len(tail) > 30 {
				tail = tail[len(tail)-30:]
			}
			c.Violation(vk, map[string]interface{}{"start": start.String(), "history_len": len(hist), "last_ops": histString("", tail), "workload": r.label}, ob, "all observers of all live graphs equal to their adjacency-set models")
			return false
		}
	}
	if nt {
		c.NT(start.Key(), histString("", ops))
	}
	return true
}

// enumerate the operations applicable to tracked graph t (index ti) in a small state.
func smallOps(ts []*tracked, maxN, maxLive int) []op {
	var r []op
	for ti, t := range ts {
		n := t.m.N
		if n < maxN {
			// all subsets as neighbour lists (ascending), plus the full list reversed
			for mask := 0; mask < 1<<uint(n); mask++ {
				var l []int
				for v := 0; v < n; v++ {
					if mask>>uint(v)&1 == 1 {
						l = append(l, v)
					}
				}
				if l == nil {
					l = []int{}
				}
				r = append(r, op{kind: "av", t: ti, list: l})
				if len(l) >= 2 && mask == 1<<uint(n)-1 {
					rev := make([]int, len(l))
					for i := range l {
						rev[i] = l[len(l)-1-i]
					}
					r = append(r, op{kind: "av", t: ti, list: rev})
				}
			}
		}
		for v := 0; v < n; v++ {
			r = append(r, op{kind: "rv", t: ti, a: v})
		}
		for i := 0; i < n; i++ {
			for j := 0; j <= i; j++ {
				r = append(r, op{kind: "ae", t: ti, a: i, b: j}, op{kind: "re", t: ti, a: j, b: i})
			}
		}
		if len(ts) < maxLive {
			r = append(r, op{kind: "cp", t: ti})
			// induced subgraphs: all non-empty ordered selections of size n and n-1 is too many; take identity, reversal, each single deletion, and the empty list
			id := make([]int, n)
			for i := range id {
				id[i] = i
			}
			r = append(r, op{kind: "is", t: ti, list: []int{}})
			if n > 0 {
				rev := make([]int, n)
				for i := range rev {
					rev[i] = n - 1 - i
				}
				r = append(r, op{kind: "is", t: ti, list: id}, op{kind: "is", t: ti, list: rev})
				for d := 0; d < n && n > 1; d++ {
					var l []int
					for i := n - 1; i >= 0; i-- {
						if i != d {
							l = append(l, i)
						}
					}
					r = append(r, op{kind: "is", t: ti, list: l})
				}
			}
		}
	}
	return r
}

func run(c *engine.Ctx) {
	// 1. bounded-exhaustive histories from small start graphs.
	maxL := c.Pick(4, 5)
	starts := []struct {
		name string
		g    *rg.G
		cons bool
	}{
		{"E0", rg.New(0), true}, {"E0f", rg.New(0), false}, {"E1", rg.New(1), true}, {"E2", rg.New(2), true},
		{"K2", rg.FromG6("A_"), false}, {"P3", rg.FromG6("Bg"), false}, {"K3", rg.FromG6("Bw"), false}, {"K1+K2", rg.FromG6("BG"), false},
	}
	for _, st := range starts {
		st := st
		// model-only state to enumerate the first op
		first := smallOps([]*tracked{{m: st.g}}, 3, 2)
		for fi := range first {
			fi := fi
			c.Unit(fmt.Sprintf("exhaustive/%s/first=%d", st.name, fi), func() {
				r := &runner{c: c, label: "exhaustive"}
				count := 0
				var seq []op
				// model-only simulation to know the applicable ops
				var rec func(ts []*tracked)
				rec = func(ts []*tracked) {
					if c.Stopped() {
						return
					}
					if len(seq) > 0 {
						count++
						r.variant = count % 3
						if !r.runHistory(st.name, st.g, st.cons, seq, "") {
							return
						}
					}
					if len(seq) == maxL {
						return
					}
					var cands []op
					if len(seq) == 0 {
						cands = []op{first[fi]}
					} else {
						cands = smallOps(ts, 3, 2)
					}
					for _, o := range cands {
						// advance the model-only state
						nts := make([]*tracked, len(ts))
						for i, t := range ts {
							nts[i] = &tracked{m: t.m}
						}
						t := nts[o.t]
						switch o.kind {
						case "av":
							t.m = t.m.AddVertex(o.list)
						case "rv":
							t.m = t.m.RemoveVertex(o.a)
						case "ae":
							t.m = t.m.Copy()
							t.m.Add(o.a, o.b)
						case "re":
							t.m = t.m.Copy()
							t.m.Del(o.a, o.b)
						case "cp":
							nts = append(nts, &tracked{m: t.m.Copy()})
						case "is":
							nts = append(nts, &tracked{m: t.m.Induced(o.list)})
						}
						seq = append(seq, o)
						rec(nts)
						seq = seq[:len(seq)-1]
					}
				}
				rec([]*tracked{{m: st.g}})
				c.Obs("exhaustive_histories", count)
				if fi == 0 {
					c.Sample("exhaustive", map[string]interface{}{"start": st.g.String(), "first_op": first[fi].String(), "max_len": maxL, "histories_in_unit": count})
				}
			})
		}
		c.Obs(fmt.Sprintf("exhaustive:all histories of length<=%d from start graph %s (<=3 vertices, <=2 live graphs)", maxL, st.name), 1)
	}

	// 1b. histories on graphs whose order crosses 64 / 128
	largeHistories(c)

	// 1c. InducedSubgraph with vertex lists of every relative size (|V| from 1 to n) on graphs with hubs
	inducedShapes(c)

	// 2. seeded long histories.
	nh := c.Pick(12000, 40000)
	L := c.Pick(80, 300)
	maxN := c.Pick(12, 40)
	per := c.Pick(40, 100)
	for u := 0; u*per < nh; u++ {
		u := u
		c.Unit(fmt.Sprintf("seeded/%d", u), func() {
			r := &runner{c: c, label: "seeded"}
			for i := u * per; i < (u+1)*per && i < nh && !c.Stopped(); i++ {
				rg0 := c.Rand("c05-seeded", i)
				n0 := rg0.Intn(maxN/2 + 1)
				start := rg.New(n0)
				p := rg0.Float()
				for a := 0; a < n0; a++ {
					for b := 0; b < a; b++ {
						if rg0.Bool(p) {
							start.Add(a, b)
						}
					}
				}
				// generate ops against a model-only simulation
				sim := []*rg.G{start.Copy()}
				var ops []op
				var lastAV []int
				bias := i % 4 // 0: balanced, 1: vertex churn, 2: edge churn, 3: copy/induced heavy
				for len(ops) < L {
					ti := rg0.Intn(len(sim))
					m := sim[ti]
					n := m.N
					x := rg0.Float()
					var o op
					switch {
					case (bias == 1 && x < 0.30) || (bias != 1 && x < 0.12):
						if n >= maxN {
							continue
						}
						k := 0
						if n > 0 {
							k = rg0.Intn(n + 1)
						}
						l := rg0.Perm(n)[:k]
						if rg0.Bool(0.3) && k > 1 {
							sort.Ints(l) // a sorted list (a caller may well pass one)
						}
						if lastAV != nil && rg0.Bool(0.35) {
							l = lastAV // the same neighbour list again
							okList := true
							for _, x := range l {
								if x >= n {
									okList = false
								}
							}
							if !okList {
								continue
							}
						}
						lastAV = append([]int{}, l...)
						o = op{kind: "av", t: ti, list: append([]int{}, l...)}
						sim[ti] = m.AddVertex(l)
					case (bias == 1 && x < 0.60) || (bias != 1 && x < 0.24):
						if n == 0 {
							continue
						}
						v := rg0.Intn(n)
						if rg0.Bool(0.15) {
							v = n - 1
						}
						o = op{kind: "rv", t: ti, a: v}
						sim[ti] = m.RemoveVertex(v)
					case x < 0.62:
						if n == 0 {
							continue
						}
						a, b := rg0.Intn(n), rg0.Intn(n)
						o = op{kind: "ae", t: ti, a: a, b: b}
						m.Add(a, b)
					case x < 0.90 || (bias != 3 && x < 0.96):
						if n == 0 {
							continue
						}
						a, b := rg0.Intn(n), rg0.Intn(n)
						if rg0.Bool(0.6) && m.M() > 0 {
							es := m.Edges()
							e := es[rg0.Intn(len(es))]
							a, b = e[0], e[1]
							if rg0.Bool(0.5) {
								a, b = b, a
							}
						}
						o = op{kind: "re", t: ti, a: a, b: b}
						m.Del(a, b)
					default:
						if len(sim) >= 4 {
							// replace: drop the oldest non-source? keep it simple: no new graphs
							continue
						}
						if rg0.Bool(0.5) {
							o = op{kind: "cp", t: ti}
							sim = append(sim, m.Copy())
						} else {
							k := 0
							if n > 0 {
								k = rg0.Intn(n + 1)
							}
							l := append([]int{}, rg0.Perm(n)[:k]...)
							o = op{kind: "is", t: ti, list: l}
							sim = append(sim, m.Induced(l))
						}
					}
					ops = append(ops, o)
				}
				r.variant = i % 3
				r.runHistory(fmt.Sprintf("seeded#%d", i), start, i%5 == 0, ops, fmt.Sprintf("seeded#%d", i))
				if i < 2 {
					c.Sample("seeded", map[string]interface{}{"start": start.String(), "len": len(ops), "first_ops": histString("", ops[:8])})
				}
			}
		})
	}
}

// largeHistories drives graphs whose order crosses 64 and 128 vertices (word-size / growth thresholds).
func largeHistories(c *engine.Ctx) {
	nh := c.Pick(48, 240)
	per := 4
	for u := 0; u*per < nh; u++ {
		u := u
		c.Unit(fmt.Sprintf("large/%d", u), func() {
			r := &runner{c: c, label: "large"}
			for i := u * per; i < (u+1)*per && i < nh && !c.Stopped(); i++ {
				rg0 := c.Rand("c05-large", i)
				base := []int{62, 63, 64, 65, 126, 127, 128, 129}[i%8]
				start := rg.New(base)
				p := []float64{0.03, 0.5, 0.9, 0.1}[(i/8)%4]
				for a := 0; a < base; a++ {
					for b := 0; b < a; b++ {
						if rg0.Bool(p) {
							start.Add(a, b)
						}
					}
				}
				sim := []*rg.G{start.Copy()}
				var ops []op
				L := 28
				for len(ops) < L {
					ti := rg0.Intn(len(sim))
					m := sim[ti]
					n := m.N
					x := rg0.Float()
					var o op
					switch {
					case x < 0.30: // grow across the boundary
						if n >= base+4 {
							continue
						}
						k := rg0.Intn(n + 1)
						if rg0.Bool(0.3) {
							k = n // adjacent to everything, incl. the vertices with index >= 64
						}
						l := append([]int{}, rg0.Perm(n)[:k]...)
						o = op{kind: "av", t: ti, list: l}
						sim[ti] = m.AddVertex(l)
					case x < 0.55:
						if n <= base-3 {
							continue
						}
						v := rg0.Intn(n)
						if rg0.Bool(0.3) {
							v = []int{0, 63, 64, n - 1}[rg0.Intn(4)]
							if v >= n {
								v = n - 1
							}
						}
						o = op{kind: "rv", t: ti, a: v}
						sim[ti] = m.RemoveVertex(v)
					case x < 0.72:
						a, b := rg0.Intn(n), rg0.Intn(n)
						if n > 61 && rg0.Bool(0.5) {
							a = 60 + rg0.Intn(n-60)
						}
						o = op{kind: "ae", t: ti, a: a, b: b}
						m.Add(a, b)
					case x < 0.88:
						a, b := rg0.Intn(n), rg0.Intn(n)
						if m.M() > 0 && rg0.Bool(0.7) {
							es := m.Edges()
							e := es[rg0.Intn(len(es))]
							a, b = e[1], e[0]
						}
						o = op{kind: "re", t: ti, a: a, b: b}
						m.Del(a, b)
					default:
						if len(sim) >= 3 {
							continue
						}
						if rg0.Bool(0.5) {
							o = op{kind: "cp", t: ti}
							sim = append(sim, m.Copy())
						} else {
							k := n - rg0.Intn(4)
							l := append([]int{}, rg0.Perm(n)[:k]...)
							o = op{kind: "is", t: ti, list: l}
							sim = append(sim, m.Induced(l))
						}
					}
					ops = append(ops, o)
				}
				c.Obs("large_histories(n crossing 64/128)", 1)
				r.variant = i % 2
				r.runHistory(fmt.Sprintf("large#%d", i), start, i%3 == 0, ops, fmt.Sprintf("large#%d", i))
				if i < 1 {
					c.Sample("large", map[string]interface{}{"start_n": base, "start_m": start.M(), "len": len(ops), "first_ops": histString("", ops[:4])})
				}
			}
		})
	}
}

var _ = sortints.SortedInts(nil)

// inducedShapes: InducedSubgraph(V) for |V| from 1 to n on graphs of 17..130 vertices with vertices of very high and
// very low degree (stars, hub + cycle, dense and sparse random graphs with hubs), V in random order, containing
// neighbours and non-neighbours of the hubs in every interleaving; every result is then edited and the source
// re-observed.  (The ratio |neighbourhood| / |V| is a parameter the edit histories above do not vary: their lists
// have n-3..n entries.)
func inducedShapes(c *engine.Ctx) {
	nh := c.Pick(96, 480)
	per := 4
	for u := 0; u*per < nh; u++ {
		u := u
		c.Unit(fmt.Sprintf("induced-shapes/%d", u), func() {
			r := &runner{c: c, label: "induced-shapes"}
			for i := u * per; i < (u+1)*per && i < nh && !c.Stopped(); i++ {
				rg0 := c.Rand("c05-induced", i)
				n := []int{17, 20, 24, 33, 48, 64, 65, 100, 130}[i%9]
				start := rg.New(n)
				shape := (i / 9) % 6
				switch shape {
				case 0: // star with centre 0
					for v := 1; v < n; v++ {
						start.Add(0, v)
					}
				case 1: // cycle on 0..n-2 plus a hub n-1 adjacent to every second vertex and more
					for v := 0; v < n-1; v++ {
						start.Add(v, (v+1)%(n-1))
						if v%2 == 0 || rg0.Bool(0.4) {
							start.Add(n-1, v)
						}
					}
				default:
					p := []float64{0.5, 0.9, 0.08, 0.25}[shape-2]
					for a := 0; a < n; a++ {
						for b := 0; b < a; b++ {
							if rg0.Bool(p) {
								start.Add(a, b)
							}
						}
					}
					// two hubs with a few non-neighbours each
					for _, h := range []int{rg0.Intn(n), rg0.Intn(n)} {
						for v := 0; v < n; v++ {
							if v != h && !rg0.Bool(0.15) {
								start.Add(h, v)
							}
						}
					}
				}
				sim := []*rg.G{start.Copy()}
				var ops []op
				sizes := []int{1, 2, 2, 3, 3, 4, 5, 6, 8, n / 8, n / 4, n / 2, n - 1, n}
				for q := 0; q < 7; q++ {
					k := sizes[rg0.Intn(len(sizes))]
					if k < 1 {
						k = 1
					}
					l := append([]int{}, rg0.Perm(n)[:k]...)
					if rg0.Bool(0.6) {
						// make sure a vertex of maximum degree is in the list
						best := 0
						for v := 0; v < n; v++ {
							if sim[0].Deg(v) > sim[0].Deg(best) {
								best = v
							}
						}
						has := false
						for _, v := range l {
							has = has || v == best
						}
						if !has {
							l[rg0.Intn(len(l))] = best
						}
					}
					if rg0.Bool(0.3) {
						sort.Ints(l)
					}
					ops = append(ops, op{kind: "is", t: 0, list: l})
					res := sim[0].Induced(l)
					sim = append(sim, res)
					ti := len(sim) - 1
					// edit the result, then the source
					if res.N >= 2 {
						a, b := rg0.Intn(res.N), rg0.Intn(res.N)
						if res.Has(a, b) {
							ops = append(ops, op{kind: "re", t: ti, a: a, b: b})
							res.Del(a, b)
						} else {
							ops = append(ops, op{kind: "ae", t: ti, a: a, b: b})
							res.Add(a, b)
						}
					}
					if q%3 == 2 {
						a, b := rg0.Intn(n), rg0.Intn(n)
						ops = append(ops, op{kind: "ae", t: 0, a: a, b: b})
						sim[0].Add(a, b)
					}
				}
				c.Obs("induced_shape_histories", 1)
				r.variant = i % 2
				r.runHistory(fmt.Sprintf("induced-shapes#%d", i), start, i%3 == 0, ops, fmt.Sprintf("induced-shapes#%d", i))
			}
		})
	}
}

// Demo for C18 change 4 (Roots() lists the roots in the order of Sets(), i.e. by least element of their set, not by ascending root).
//
// Run (from the root of the library worktree):
//
//	cp /tmp/green-out/C18/4/demo_test.go disjoint/zz_demo_test.go
//	GOFLAGS=-mod=mod GOPROXY=off GOSUMDB=off GOTOOLCHAIN=local go test -vet=off -count=1 -timeout 120s -run 'TestDemo' -v ./disjoint/
//	rm disjoint/zz_demo_test.go
//
// TestDemoProperty checks the property C18 itself (including: Roots() has exactly one element of every set, each of
// them a fixed point of Find) and passes before and after the change.
// TestDemoIncidentalOld asserts the OLD incidental behaviour (Roots() is in ascending order): it passes on the clean
// tree and fails with the change.
package disjoint_test

import (
	"math/rand"
	"reflect"
	"sort"
	"testing"

	"github.com/Tom-Johnston/mamba/disjoint"
)

// model is a naive reference: comp[i] is a component label.
type model []int

func newModel(n int) model {
	m := make(model, n)
	for i := range m {
		m[i] = i
	}
	return m
}

func (m model) union(x, y int) {
	a, b := m[x], m[y]
	if a == b {
		return
	}
	for i := range m {
		if m[i] == b {
			m[i] = a
		}
	}
}

func (m model) sets() [][]int {
	byLabel := map[int][]int{}
	for i, l := range m {
		byLabel[l] = append(byLabel[l], i)
	}
	out := make([][]int, 0, len(byLabel))
	for _, s := range byLabel {
		out = append(out, s)
	}
	sort.Slice(out, func(i, j int) bool { return out[i][0] < out[j][0] })
	return out
}

func checkAll(t *testing.T, ds *disjoint.Set, m model, rng *rand.Rand) {
	t.Helper()
	n := len(m)
	buf := make([]int, 1, 4)
	reps := make([]int, n)
	for i := 0; i < n; i++ {
		if rng.Intn(2) == 0 {
			reps[i] = ds.Find(i)
		} else {
			reps[i] = ds.FindBuffered(i, buf)
		}
		if reps[i] < 0 || reps[i] >= n {
			t.Fatalf("representative %d of %d out of range", reps[i], i)
		}
	}
	for i := 0; i < n; i++ {
		// lookups never change the partition: ask again, in another flavour
		if r := ds.FindBuffered(i, buf); r != reps[i] {
			t.Fatalf("representative of %d changed by lookups: %d then %d", i, reps[i], r)
		}
		if r := ds.Find(i); r != reps[i] {
			t.Fatalf("representative of %d changed by lookups: %d then %d", i, reps[i], r)
		}
		for j := 0; j < n; j++ {
			if (reps[i] == reps[j]) != (m[i] == m[j]) {
				t.Fatalf("elements %d,%d: same representative = %v, connected = %v", i, j, reps[i] == reps[j], m[i] == m[j])
			}
		}
	}
	want := m.sets()
	got := ds.Sets()
	if n == 0 {
		if len(got) != 0 {
			t.Fatalf("Sets on empty = %v", got)
		}
	} else if !reflect.DeepEqual(got, want) {
		t.Fatalf("Sets = %v, want %v", got, want)
	}
	sr := ds.SmallestRep()
	if len(sr) != n {
		t.Fatalf("SmallestRep has length %d", len(sr))
	}
	for _, s := range want {
		for _, v := range s {
			if sr[v] != s[0] {
				t.Fatalf("SmallestRep[%d] = %d, want %d", v, sr[v], s[0])
			}
		}
	}
	roots := ds.Roots()
	if len(roots) != len(want) {
		t.Fatalf("Roots = %v but there are %d sets", roots, len(want))
	}
	seen := map[int]bool{}
	for _, r := range roots {
		if r < 0 || r >= n || seen[m[r]] {
			t.Fatalf("Roots = %v is not one element per set", roots)
		}
		seen[m[r]] = true
		if ds.Find(r) != r {
			t.Fatalf("Roots = %v but Find(%d) = %d", roots, r, ds.Find(r))
		}
	}
}

func TestDemoProperty(t *testing.T) {
	rng := rand.New(rand.NewSource(18))
	for trial := 0; trial < 400; trial++ {
		n := rng.Intn(24)
		ds := disjoint.New(n)
		m := newModel(n)
		checkAll(t, &ds, m, rng)
		if n == 0 {
			continue
		}
		buf := make([]int, 1, 2)
		steps := rng.Intn(3 * n)
		for s := 0; s < steps; s++ {
			x, y := rng.Intn(n), rng.Intn(n)
			switch rng.Intn(4) {
			case 0:
				ds.Union(x, y)
				m.union(x, y)
			case 1:
				ds.UnionBuffered(x, y, buf)
				m.union(x, y)
			case 2:
				ds.Find(x)
			case 3:
				ds.FindBuffered(y, buf)
			}
			if rng.Intn(4) == 0 {
				checkAll(t, &ds, m, rng)
			}
		}
		checkAll(t, &ds, m, rng)
	}
	// The long chain 0 -> 1 -> 3 -> 7 (or whatever the union rule makes of it), built by a binomial tree.
	ds := disjoint.New(8)
	m := newModel(8)
	for _, p := range [][2]int{{0, 1}, {2, 3}, {1, 3}, {4, 5}, {6, 7}, {5, 7}, {3, 7}, {0, 7}, {7, 7}} {
		ds.Union(p[0], p[1])
		m.union(p[0], p[1])
		checkAll(t, &ds, m, rng)
	}
}

func TestDemoIncidentalOld(t *testing.T) {
	ds := disjoint.New(5)
	ds.Union(0, 4) // equal ranks: the root of the second argument, 4, becomes the root of {0,4}
	ds.Union(1, 3) // likewise 3 becomes the root of {1,3}
	if ds.Find(0) != 4 || ds.Find(1) != 3 || ds.Find(2) != 2 {
		t.Fatalf("unexpected representatives %d %d %d (this demo assumes union by rank with the second root winning ties)", ds.Find(0), ds.Find(1), ds.Find(2))
	}
	before := append([]int(nil), ds...)
	roots := ds.Roots()
	// Property: one root per set, each a fixed point of Find. Holds before and after.
	sorted := append([]int(nil), roots...)
	sort.Ints(sorted)
	if !reflect.DeepEqual(sorted, []int{2, 3, 4}) {
		t.Fatalf("Roots = %v is not the set of roots {2,3,4}", roots)
	}
	if !reflect.DeepEqual(before, []int(ds)) {
		t.Fatalf("Roots changed the structure: %v -> %v", before, []int(ds))
	}
	// Incidental: the old code scanned the slice and so listed the roots in ascending order [2 3 4];
	// listing them in the order of Sets() = [[0 4] [1 3] [2]] gives [4 3 2].
	if !reflect.DeepEqual(roots, []int{2, 3, 4}) {
		t.Errorf("Roots = %v; the old code returned them in ascending order [2 3 4] (Sets = %v)", roots, ds.Sets())
	}
	if !sort.IntsAreSorted(roots) {
		t.Errorf("Roots = %v is not sorted; the old code always returned a sorted slice", roots)
	}
}

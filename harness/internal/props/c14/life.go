package c14

import (
	"fmt"
	"strconv"

	"verif/internal/engine"
	"verif/internal/oracle/refdawg"
	"verif/internal/props/c12"
)

// Dawgs that are NOT the only product of a fresh Builder.  "For every Dawg
// d": also for the second, third, ... Dawg that one Builder value has built
// (Finish, Initialise, build again; Initialise after an abandoned build, after
// a rejected Add, after a Finish without words; Builder values copied by
// assignment between builds), and for an earlier Dawg after its Builder has
// been used again.  The scripts and the driver are C12's (c12/life.go); here
// every Dawg goes through the round trip right after its Finish and, for part
// of the scripts, once more after the last Initialise.  What the Builder does
// with Add and Finish is C12's business: a script whose Builder misbehaves is
// ended and counted, an original that is already wrong is skipped and counted.

// lifeRoundTrips runs one script.  again: every Dawg is round-tripped once more at the end.
func lifeRoundTrips(c *engine.Ctx, workload, callKey string, sc *c12.LifeScript, alpha []byte, rg refdawg.Rand, nQueries int, again bool) bool {
	rt := func(ld *c12.LifeDawg, di int, ev c12.LifeEvent, det map[string]interface{}, tag string, skipGob bool) bool {
		extra := map[string]interface{}{
			"script": det["script"],
			"one_Builder_used_for(origin;then one entry per build)": det["one_Builder_used_for(origin;then one entry per build)"],
			"the_dawg_is_the_one_finished_by_build_number":          ld.Step,
			"round_trip_made_after":                                 fmt.Sprintf("%s of build number %d", ev.What, ev.Step),
		}
		which := "first-dawg-of-a-builder"
		if ld.Step > 0 {
			which = "later-dawg-of-a-reused-builder"
		}
		return roundTripDawg(c, workload, callKey+"|dawg#"+strconv.Itoa(di)+tag, ld.D, ld.Set, alpha, rg, 1, nQueries, false,
			rtOpts{witness: which + "|" + c12.LifeWitness(ld.Set), extra: extra, skipGob: skipGob, probes: 40 + ld.Set.Len()/8})
	}
	ok := c12.RunLife(c, workload, callKey, sc, false, func(ev c12.LifeEvent, dawgs []*c12.LifeDawg, det map[string]interface{}) bool {
		if ev.Newest >= 0 {
			ld := dawgs[ev.Newest]
			if !rt(ld, ev.Newest, ev, det, "", (ev.Newest+ld.Set.Len())%2 == 1) {
				return false
			}
			if ld.Step > 0 {
				c.Obs("life:dawgs_of_a_reused_builder_roundtripped", 1)
				if ld.Set.Len() >= 2 {
					c.Obs("life:dawgs_of_a_reused_builder_with>=2_words_roundtripped", 1)
				}
			} else {
				c.Obs("life:first_dawgs_of_a_builder_roundtripped", 1)
			}
		}
		if ev.What == "final Initialise" && again {
			for di, ld := range dawgs {
				// (the last Dawg has only seen one more Initialise since its first round trip: done again all the same)
				if !rt(ld, di, ev, det, "|again", true) {
					return false
				}
				c.Obs("life:dawgs_roundtripped_again_after_the_builder_was_used_again", 1)
			}
		}
		return !c.Stopped()
	})
	if ok {
		c.Obs("life:scripts_completed", 1)
	}
	return ok
}

func lifeCycles(c *engine.Ctx) {
	// (a) all ordered pairs of the subsets of {"",a,aa,ab,b,ba}, the ways from one build to the next and the origins of the Builder in turn
	u := c12.LifeUniverse6()
	n := 1 << uint(len(u))
	label := "all ordered pairs (first build, second build) of the 64 subsets of {\"\",a,aa,ab,b,ba} built by ONE Builder, the 8 ways from one build to the next and the 4 origins of the Builder in turn"
	const blocks = 8
	for blk := 0; blk < blocks; blk++ {
		blk := blk
		c.Unit(fmt.Sprintf("life/pairs64/%02d", blk), func() {
			rg := engine.NewRng(uint64(1300 + blk))
			nt := 0
			for o := blk * n / blocks; o < (blk+1)*n/blocks; o++ {
				for nw := 0; nw < n; nw++ {
					tr := (o*n + nw) % len(c12.LifeTransitions)
					sc := c12.LifeChain((o+nw)%len(c12.LifeOrigins), []*refdawg.Set{c12.SubsetOf(u, o), c12.SubsetOf(u, nw)}, tr)
					again := c.Thorough() || (o+nw)%2 == 0
					if lifeRoundTrips(c, label, fmt.Sprintf("life|pairs64|first=%d|second=%d", o, nw), sc, []byte("ab"), rg, 0, again) && c12.LifeNontrivial(sc) {
						nt++
					}
					if c.Stopped() {
						return
					}
				}
			}
			c.NTDistinct(nt)
			if blk == 0 {
				c.Obs("exhaustive:"+label, 1)
				c.Sample("life-pairs", map[string]interface{}{"universe": refdawg.QuoteList(u, 10), "ways": c12.LifeTransitions, "origins": c12.LifeOrigins,
					"example": c12.LifeChain(1, []*refdawg.Set{c12.SubsetOf(u, 0x2c), c12.SubsetOf(u, 0x15)}, 2).Describe(-1)})
			}
		})
	}
	// (a') thorough: all ordered pairs of the 128 subsets of the words of length <= 2 over {a,b}, plain transition
	if c.Thorough() {
		u7 := c12.LifeUniverse7()
		n7 := 1 << uint(len(u7))
		label7 := "all ordered pairs of the 128 subsets of the 7 words of length<=2 over {a,b} built by ONE Builder (Finish, Initialise, build again)"
		for blk := 0; blk < 16; blk++ {
			blk := blk
			c.Unit(fmt.Sprintf("life/pairs128/%02d", blk), func() {
				rg := engine.NewRng(uint64(1400 + blk))
				nt := 0
				for o := blk * n7 / 16; o < (blk+1)*n7/16; o++ {
					for nw := 0; nw < n7; nw++ {
						sc := c12.LifeChain((o+nw)%len(c12.LifeOrigins), []*refdawg.Set{c12.SubsetOf(u7, o), c12.SubsetOf(u7, nw)}, 0)
						if lifeRoundTrips(c, label7, fmt.Sprintf("life|pairs128|first=%d|second=%d", o, nw), sc, []byte("ab"), rg, 0, (o+nw)%4 == 0) && c12.LifeNontrivial(sc) {
							nt++
						}
						if c.Stopped() {
							return
						}
					}
				}
				c.NTDistinct(nt)
				if blk == 0 {
					c.Obs("exhaustive:"+label7, 1)
				}
			})
		}
	}
	// (b) chains through the contrasting fixed sets (0..512 words, fan-out 0..256, up to 301 nodes)
	fams := c12.LifeContrast()
	all := make([]byte, 256)
	for i := range all {
		all[i] = byte(i)
	}
	starts := []int{0, 7, 13}
	if c.Thorough() {
		starts = starts[:0]
		for r := range fams {
			starts = append(starts, r)
		}
	}
	for _, r := range starts {
		r := r
		if r >= len(fams) {
			continue
		}
		c.Unit("life/contrast-chain/start="+fams[r].Name, func() {
			var sets []*refdawg.Set
			names := ""
			for k := 0; k < len(fams); k++ {
				f := fams[(r+k)%len(fams)]
				if r%2 == 1 {
					f = fams[((r-k)%len(fams)+len(fams))%len(fams)]
				}
				sets = append(sets, f.Set)
				names += f.Name + ","
			}
			sc := c12.LifeChain(r%len(c12.LifeOrigins), sets, r%len(c12.LifeTransitions))
			sc.Note += "; sets: " + names
			if lifeRoundTrips(c, "chain through the contrasting fixed sets", "life|contrast-chain|start="+fams[r].Name, sc, all, engine.NewRng(uint64(1500+r)), 1, true) && c12.LifeNontrivial(sc) {
				c.NT("life-contrast", r)
			}
			if r == 0 {
				c.Sample("life-contrast", map[string]interface{}{"sets": names})
			}
		})
	}
	// (c) seeded scripts
	nScripts := c.Pick(640, 4800)
	perUnit := 16
	for un := 0; un*perUnit < nScripts; un++ {
		un := un
		c.Unit(fmt.Sprintf("life/seeded/%d", un), func() {
			for i := un * perUnit; i < (un+1)*perUnit && i < nScripts; i++ {
				rg := c.Rand("c14-life", i)
				maxWords := 120
				if i%16 == 5 {
					maxWords = 1500
				}
				sc, alpha, info := c12.GenLifeScript(rg, maxWords)
				if lifeRoundTrips(c, "seeded life cycle over "+info, fmt.Sprintf("life|seeded#%d", i), sc, alpha, rg, 1, i%2 == 0) && c12.LifeNontrivial(sc) {
					c.NT("life", sc.Hash())
				}
				if c.Stopped() {
					return
				}
				if i < 2 {
					d := sc.Describe(-1)
					for k := range d {
						if len(d[k]) > 160 {
							d[k] = d[k][:160] + "..."
						}
					}
					c.Sample("life-seeded", map[string]interface{}{"gen": info, "script": d})
				}
			}
		})
	}
}

// Demonstration for C15 / change 10 (itertools.MultisetCombinationIterator.Value builds the multiset in a NEW slice on
// every call instead of filling and returning one buffer that the iterator made in its first Next and kept).
//
// Run (from the root of the library, offline):
//
//	export GOFLAGS=-mod=mod GOPROXY=off GOSUMDB=off GOTOOLCHAIN=local
//	cp /tmp/green-out/C15/10/demo_test.go itertools/zz_c15_demo10_test.go
//	go test -vet=off -count=1 -timeout 300s -run 'TestC15Demo10' -v ./itertools/
//	rm itertools/zz_c15_demo10_test.go
//
// TestC15Demo10Property checks the property itself for MultisetCombinations(m, k): for every bound vector m with
// 0..4 types and entries 0..3 (so zero and repeated multiplicities) and every k = 0..sum(m)+2 the iterator yields
// exactly the multisets of size k with at most m[i] copies of i (compared, as a set, with brute force over the box
// of frequency vectors; no order is documented), each once, Value() is the sorted element list of FreqValue(), and
// Next returns false on each of 5 further calls.  Every Value() is copied at once and never held.  Passes on the clean
// tree AND with the change.
//
// TestC15Demo10IncidentalSharedBuffer asserts the OLD incidental behaviour: all calls of Value() return the same
// backing array, so a Value() held over Next + Value() is overwritten with the later multiset, and Value() does not
// allocate.  Passes on the clean tree and FAILS with the change (a held Value() stays as it was; 1 allocation per call).
package itertools_test

import (
	"fmt"
	"sort"
	"testing"

	"github.com/Tom-Johnston/mamba/itertools"
)

func c15d10Brute(m []int, k int) []string {
	var out []string
	f := make([]int, len(m))
	var rec func(i, left int)
	rec = func(i, left int) {
		if i == len(m) {
			if left == 0 {
				out = append(out, fmt.Sprint(f))
			}
			return
		}
		for c := 0; c <= m[i] && c <= left; c++ {
			f[i] = c
			rec(i+1, left-c)
		}
		f[i] = 0
	}
	rec(0, k)
	sort.Strings(out)
	return out
}

func c15d10Check(t *testing.T, m []int, k int) {
	want := c15d10Brute(m, k)
	it := itertools.MultisetCombinations(append([]int{}, m...), k)
	var got []string
	for it.Next() {
		fr := append([]int{}, it.FreqValue()...)
		v := append([]int{}, it.Value()...)
		var flat []int
		for i, c := range fr {
			for j := 0; j < c; j++ {
				flat = append(flat, i)
			}
		}
		if fmt.Sprint(flat) != fmt.Sprint(v) || len(v) != k {
			t.Fatalf("m=%v k=%d: Value %v does not match FreqValue %v", m, k, v, fr)
		}
		got = append(got, fmt.Sprint(fr))
		if len(got) > len(want)+5 {
			break
		}
	}
	for i := 0; i < 5; i++ {
		if it.Next() {
			t.Fatalf("m=%v k=%d: Next returned true after exhaustion", m, k)
		}
	}
	sort.Strings(got)
	if fmt.Sprint(got) != fmt.Sprint(want) {
		t.Fatalf("m=%v k=%d: got %v want %v", m, k, got, want)
	}
}

func TestC15Demo10Property(t *testing.T) {
	cases := 0
	for types := 0; types <= 4; types++ {
		m := make([]int, types)
		var rec func(i int)
		rec = func(i int) {
			if i == types {
				sum := 0
				for _, v := range m {
					sum += v
				}
				for k := 0; k <= sum+2; k++ {
					c15d10Check(t, m, k)
					cases++
				}
				return
			}
			for v := 0; v <= 3; v++ {
				m[i] = v
				rec(i + 1)
			}
		}
		rec(0)
	}
	t.Logf("%d (m, k) cases checked", cases)
}

func TestC15Demo10IncidentalSharedBuffer(t *testing.T) {
	it := itertools.MultisetCombinations([]int{4, 3, 3, 2}, 5)
	if !it.Next() {
		t.Fatal("no first multiset")
	}
	held := it.Value()
	first := fmt.Sprint(held)
	if !it.Next() {
		t.Fatal("no second multiset")
	}
	second := it.Value()
	t.Logf("first multiset %s, second %v, the held first Value() now reads %v", first, second, held)
	if &held[0] != &second[0] {
		t.Errorf("OLD behaviour: every Value() is the same buffer; now the two calls returned different arrays")
	}
	if fmt.Sprint(held) != fmt.Sprint(second) {
		t.Errorf("OLD behaviour: a held Value() is overwritten by the next Value() (%v); now it still reads %v", second, held)
	}
	allocs := testing.AllocsPerRun(100, func() { _ = it.Value() })
	t.Logf("allocations per Value(): %v", allocs)
	if allocs != 0 {
		t.Errorf("OLD behaviour: Value() does not allocate; now %v allocations per call", allocs)
	}
}

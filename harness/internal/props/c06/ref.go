package c06

// Reference definitions used as oracles by the C06 monitor.  Everything here is
// written from the mathematical definitions / the library's documentation
// strings and shares no code with /repo.  The functions are validated against
// published values in selfcheck.go.

import (
	"sort"

	"verif/internal/oracle/rg"
)

// refMultipartite: the parts are consecutive blocks of vertices, part i has
// parts[i] vertices, two vertices are adjacent iff they lie in different parts.
func refMultipartite(parts []int) *rg.G {
	var part []int
	for p, s := range parts {
		for k := 0; k < s; k++ {
			part = append(part, p)
		}
	}
	g := rg.New(len(part))
	for i := range part {
		for j := 0; j < i; j++ {
			if part[i] != part[j] {
				g.Add(i, j)
			}
		}
	}
	return g
}

func refComplete(n int) *rg.G {
	g := rg.New(n)
	for i := 0; i < n; i++ {
		for j := 0; j < i; j++ {
			g.Add(i, j)
		}
	}
	return g
}

func refPath(n int) *rg.G {
	g := rg.New(n)
	for i := 0; i+1 < n; i++ {
		g.Add(i, i+1)
	}
	return g
}

// refCycle: n >= 3.
func refCycle(n int) *rg.G {
	g := rg.New(n)
	for i := 0; i < n; i++ {
		g.Add(i, (i+1)%n)
	}
	return g
}

func refStar(n int) *rg.G {
	g := rg.New(n)
	for i := 1; i < n; i++ {
		g.Add(0, i)
	}
	return g
}

// refRook: squares (r, c) of an a x b board, adjacent iff they share a row or
// a column.  The square (r, c) gets the number c*a + r (the order in which the
// edges of K_{a,b} appear in the library's documented edge order; the
// documentation of RookGraph does not fix a numbering, so a labelled mismatch
// alone is not judged).
func refRook(a, b int) *rg.G {
	g := rg.New(a * b)
	for r1 := 0; r1 < a; r1++ {
		for c1 := 0; c1 < b; c1++ {
			for r2 := 0; r2 < a; r2++ {
				for c2 := 0; c2 < b; c2++ {
					if (r1 == r2) != (c1 == c2) {
						g.Add(c1*a+r1, c2*a+r2)
					}
				}
			}
		}
	}
	return g
}

// refFlowerSnark: J_n for odd n >= 3: n stars a_i - {b_i, c_i, d_i}, the
// n-cycle b_0..b_{n-1} and the 2n-cycle c_0..c_{n-1} d_0..d_{n-1}.
// a_i, b_i, c_i, d_i = 4i, 4i+1, 4i+2, 4i+3.
func refFlowerSnark(n int) *rg.G {
	g := rg.New(4 * n)
	a := func(i int) int { return 4 * i }
	b := func(i int) int { return 4*i + 1 }
	cc := func(i int) int { return 4*i + 2 }
	d := func(i int) int { return 4*i + 3 }
	for i := 0; i < n; i++ {
		g.Add(a(i), b(i))
		g.Add(a(i), cc(i))
		g.Add(a(i), d(i))
		g.Add(b(i), b((i+1)%n))
	}
	// 2n-cycle
	cyc := make([]int, 0, 2*n)
	for i := 0; i < n; i++ {
		cyc = append(cyc, cc(i))
	}
	for i := 0; i < n; i++ {
		cyc = append(cyc, d(i))
	}
	for i := range cyc {
		g.Add(cyc[i], cyc[(i+1)%len(cyc)])
	}
	return g
}

func popcount(x int) int {
	c := 0
	for x != 0 {
		c += x & 1
		x >>= 1
	}
	return c
}

// refHypercube: vertices 0..2^d-1, adjacent iff they differ in exactly one bit.
func refHypercube(d int) *rg.G {
	n := 1 << uint(d)
	g := rg.New(n)
	for i := 0; i < n; i++ {
		for j := 0; j < i; j++ {
			if popcount(i^j) == 1 {
				g.Add(i, j)
			}
		}
	}
	return g
}

// refFoldedHypercube: the (dim-1)-cube plus an edge between every vertex and
// its antipode (the bitwise complement), dim >= 1.
func refFoldedHypercube(dim int) *rg.G {
	g := refHypercube(dim - 1)
	mask := g.N - 1
	for i := 0; i < g.N; i++ {
		g.Add(i, i^mask) // Add ignores i == i^mask (dim = 1)
	}
	return g
}

// kSubsets lists the k-subsets of {0..n-1} as bit masks in colexicographic
// order (= increasing numeric order of the masks).
func kSubsets(n, k int) []int {
	var r []int
	for m := 0; m < 1<<uint(n); m++ {
		if popcount(m) == k {
			r = append(r, m)
		}
	}
	return r
}

// refKneser: k-subsets of [n] in colex order, adjacent iff disjoint (and distinct).
func refKneser(n, k int) *rg.G {
	s := kSubsets(n, k)
	g := rg.New(len(s))
	for i := range s {
		for j := 0; j < i; j++ {
			if s[i]&s[j] == 0 {
				g.Add(i, j)
			}
		}
	}
	return g
}

// refBipartiteKneser: one side the k-subsets, the other side the (n-k)-subsets
// (both in colex order, first side first); sets on different sides are
// adjacent iff one is a subset of the other.
func refBipartiteKneser(n, k int) *rg.G {
	a := kSubsets(n, k)
	b := kSubsets(n, n-k)
	g := rg.New(len(a) + len(b))
	for i := range a {
		for j := range b {
			if a[i]&b[j] == a[i] || a[i]&b[j] == b[j] {
				g.Add(i, len(a)+j)
			}
		}
	}
	return g
}

// colexSubsets lists the k-subsets of {0..n-1} as ascending element lists in
// colexicographic order (compare the largest elements first): the subsets with
// largest element x are the (k-1)-subsets of {0..x-1} in colex order, each
// with x added, for x = k-1, k, ..., n-1.  No machine-word masks: n is not
// limited by a word size.
func colexSubsets(n, k int) [][]int {
	if k < 0 || k > n {
		return nil
	}
	if k == 0 {
		return [][]int{{}}
	}
	var out [][]int
	for x := k - 1; x < n; x++ {
		for _, s := range colexSubsets(x, k-1) {
			out = append(out, append(append(make([]int, 0, k), s...), x))
		}
	}
	return out
}

// commonElements counts the elements two ascending lists share.
func commonElements(a, b []int) int {
	c := 0
	for i, j := 0, 0; i < len(a) && j < len(b); {
		switch {
		case a[i] == b[j]:
			c++
			i++
			j++
		case a[i] < b[j]:
			i++
		default:
			j++
		}
	}
	return c
}

// refKneserSets is refKneser on element lists (any size of the ground set).
func refKneserSets(n, k int) *rg.G {
	s := colexSubsets(n, k)
	g := rg.New(len(s))
	for i := range s {
		for j := 0; j < i; j++ {
			if commonElements(s[i], s[j]) == 0 {
				g.Add(i, j)
			}
		}
	}
	return g
}

// refBipartiteKneserSets is refBipartiteKneser on element lists.
func refBipartiteKneserSets(n, k int) *rg.G {
	a := colexSubsets(n, k)
	b := colexSubsets(n, n-k)
	g := rg.New(len(a) + len(b))
	for i := range a {
		for j := range b {
			if c := commonElements(a[i], b[j]); c == len(a[i]) || c == len(b[j]) {
				g.Add(i, len(a)+j)
			}
		}
	}
	return g
}

func mod(a, n int) int {
	a %= n
	if a < 0 {
		a += n
	}
	return a
}

// refCirculant: i ~ j iff j-i or i-j is congruent to a member of diffs mod n (n >= 1).
func refCirculant(n int, diffs []int) *rg.G {
	g := rg.New(n)
	for i := 0; i < n; i++ {
		for j := 0; j < n; j++ {
			if i == j {
				continue
			}
			for _, d := range diffs {
				if mod(j-i-d, n) == 0 {
					g.Add(i, j)
				}
			}
		}
	}
	return g
}

// refCirculantBipartite: a_i = i (i < n), b_j = n + j (j < m); a_i ~ b_j iff
// j - i is congruent to a member of diffs mod m (m >= 1, or no diffs).
func refCirculantBipartite(n, m int, diffs []int) *rg.G {
	g := rg.New(n + m)
	for i := 0; i < n; i++ {
		for j := 0; j < m; j++ {
			for _, d := range diffs {
				if mod(j-i-d, m) == 0 {
					g.Add(i, n+j)
				}
			}
		}
	}
	return g
}

// refGenPetersen: u_i = i, v_i = n + i; u_i u_{i+1}, u_i v_i, v_i v_{i+k}.
func refGenPetersen(n, k int) *rg.G {
	g := rg.New(2 * n)
	for i := 0; i < n; i++ {
		g.Add(i, (i+1)%n)
		g.Add(i, n+i)
		g.Add(n+i, n+(i+k)%n)
	}
	return g
}

// refFriendship: n triangles {0, 2i+1, 2i+2} sharing the vertex 0.
func refFriendship(n int) *rg.G {
	g := rg.New(2*n + 1)
	for i := 0; i < n; i++ {
		g.Add(0, 2*i+1)
		g.Add(0, 2*i+2)
		g.Add(2*i+1, 2*i+2)
	}
	return g
}

// refLineGraph: the vertices are the edges of g in the order 01, 02, 12, 03...
// (rg.Edges), two are adjacent iff the edges share an end point.
func refLineGraph(g *rg.G) *rg.G {
	es := g.Edges()
	l := rg.New(len(es))
	for a := range es {
		for b := 0; b < a; b++ {
			if es[a][0] == es[b][0] || es[a][0] == es[b][1] || es[a][1] == es[b][0] || es[a][1] == es[b][1] {
				l.Add(a, b)
			}
		}
	}
	return l
}

// refPrufer decodes a Pruefer sequence over the labels 0..n-1, n = len(p)+2
// (textbook algorithm: repeatedly join the smallest leaf to the next entry).
func refPrufer(p []int) *rg.G {
	n := len(p) + 2
	g := rg.New(n)
	deg := make([]int, n)
	for i := range deg {
		deg[i] = 1
	}
	for _, v := range p {
		deg[v]++
	}
	for _, v := range p {
		for j := 0; j < n; j++ {
			if deg[j] == 1 {
				g.Add(j, v)
				deg[j]--
				deg[v]--
				break
			}
		}
	}
	var last []int
	for j := 0; j < n; j++ {
		if deg[j] == 1 {
			last = append(last, j)
		}
	}
	if len(last) == 2 {
		g.Add(last[0], last[1])
	}
	return g
}

// isTree: connected with n-1 edges (n >= 1).
func isTree(g *rg.G) bool {
	if g.N == 0 || g.M() != g.N-1 {
		return false
	}
	return connected(g)
}

func connected(g *rg.G) bool {
	if g.N == 0 {
		return true
	}
	seen := make([]bool, g.N)
	stack := []int{0}
	seen[0] = true
	cnt := 1
	for len(stack) > 0 {
		v := stack[len(stack)-1]
		stack = stack[:len(stack)-1]
		for _, u := range g.Nbrs(v) {
			if !seen[u] {
				seen[u] = true
				cnt++
				stack = append(stack, u)
			}
		}
	}
	return cnt == g.N
}

// refMulticode writes the Multicode of g (n <= 255): the byte n, then for each
// vertex i = 1..n-1 (1-based) the list of its neighbours j > i followed by 0.
func refMulticode(g *rg.G) []byte {
	s := []byte{byte(g.N)}
	for i := 0; i+1 < g.N; i++ {
		for j := i + 1; j < g.N; j++ {
			if g.Has(i, j) {
				s = append(s, byte(j+1))
			}
		}
		s = append(s, 0)
	}
	return s
}

// bitWriter collects bits, most significant first, six per output byte.
type bitWriter struct {
	bits []byte
}

func (w *bitWriter) put(v, k int) {
	for b := k - 1; b >= 0; b-- {
		w.bits = append(w.bits, byte(v>>uint(b)&1))
	}
}

// sizeBytes is N(n) of formats.txt: one byte n+63 for n <= 62, 126 and 18 bits
// for n <= 258047, 126 126 and 36 bits above.
func sizeBytes(n int) []byte {
	if n <= 62 {
		return []byte{byte(n + 63)}
	}
	if n <= 258047 {
		return []byte{126, byte(n>>12&63) + 63, byte(n>>6&63) + 63, byte(n&63) + 63}
	}
	out := []byte{126, 126}
	for sh := 30; sh >= 0; sh -= 6 {
		out = append(out, byte(n>>uint(sh)&63)+63)
	}
	return out
}

// longSize writes n in the 4-byte (width 18) or the 8-byte (width 36) form of
// N(n) whether or not n needs that form (formats.txt defines the long forms
// only for the sizes that need them: strings with such a header are used for
// observation only).
func longSize(n, width int) []byte {
	out := []byte{126}
	if width == 36 {
		out = append(out, 126)
	}
	for sh := width - 6; sh >= 0; sh -= 6 {
		out = append(out, byte(n>>uint(sh)&63)+63)
	}
	return out
}

// refSparse6 writes g in sparse6 as described in formats.txt (nauty): ':',
// N(n), then the b[i] x[i] stream with k = bits needed for n-1, padded with
// 1-bits (with the single 0-bit exception for n = 2, 4, 8, 16).
func refSparse6(g *rg.G) string {
	return refSparse6Edges(g.N, g.Edges())
}

// refSparse6Edges is the same writer for a graph given by its edge list (any
// order, each edge once, no loops); usable for very large n.
func refSparse6Edges(n int, edges [][2]int) string {
	out := append([]byte{':'}, sizeBytes(n)...)
	k := 0
	for (1 << uint(k)) < n { // number of bits needed to represent n-1
		k++
	}
	if n <= 1 {
		k = 0
	}
	// edges sorted by larger end point, then smaller
	type e struct{ u, v int }
	var es []e
	touched := map[int]bool{}
	for _, p := range edges {
		u, v := p[0], p[1]
		if u > v {
			u, v = v, u
		}
		if u != v {
			es = append(es, e{u, v})
			touched[u], touched[v] = true, true
		}
	}
	sort.SliceStable(es, func(i, j int) bool {
		if es[i].v != es[j].v {
			return es[i].v < es[j].v
		}
		return es[i].u < es[j].u
	})
	w := &bitWriter{}
	cur := 0
	for _, ed := range es {
		switch {
		case ed.v == cur:
			w.put(0, 1)
			w.put(ed.u, k)
		case ed.v == cur+1:
			cur++
			w.put(1, 1)
			w.put(ed.u, k)
		default:
			cur = ed.v
			w.put(1, 1)
			w.put(ed.v, k)
			w.put(0, 1)
			w.put(ed.u, k)
		}
	}
	pad := (6 - len(w.bits)%6) % 6
	if (n == 2 || n == 4 || n == 8 || n == 16) && pad >= k+1 && touched[n-2] && !touched[n-1] {
		w.put(0, 1)
		pad--
	}
	for i := 0; i < pad; i++ {
		w.put(1, 1)
	}
	for i := 0; i < len(w.bits); i += 6 {
		var b byte
		for j := 0; j < 6; j++ {
			b = b<<1 | w.bits[i+j]
		}
		out = append(out, b+63)
	}
	return string(out)
}

// refSparse6Decode is a tolerant reader of refSparse6's own output (used only
// by the self-check of the writer).
func refSparse6Decode(s string) *rg.G {
	s = s[1:]
	n := int(s[0]) - 63
	s = s[1:]
	if n == 63 {
		n = (int(s[0])-63)<<12 | (int(s[1])-63)<<6 | (int(s[2]) - 63)
		s = s[3:]
	}
	k := 0
	for (1 << uint(k)) < n {
		k++
	}
	var bits []int
	for i := 0; i < len(s); i++ {
		for b := 5; b >= 0; b-- {
			bits = append(bits, int(s[i]-63)>>uint(b)&1)
		}
	}
	g := rg.New(n)
	v := 0
	for pos := 0; pos+1+k <= len(bits); pos += 1 + k {
		if bits[pos] == 1 {
			v++
		}
		x := 0
		for j := 0; j < k; j++ {
			x = x<<1 | bits[pos+1+j]
		}
		if x >= n || v >= n {
			break
		}
		if x > v {
			v = x
		} else if x != v {
			g.Add(x, v)
		}
	}
	return g
}

package c06

// Inputs that use the freedoms the documentation / the formats leave open and
// that the library's own writers and constructors never use:
//
//   - strings and byte records written by harness-side writers: sparse6 with the
//     pairs of a vertex in any order, with repeated pairs (next to and apart
//     from their first occurrence), with loop pairs, with every way of moving to
//     the next vertex, with moves to vertices that get no pair, with pairs
//     behind a vertex number >= n, with the optional file header; Multicode with
//     the neighbour lists in any order; graph6 with the optional header;
//   - caller slices with edge bytes 2..255 ("an indicator of an edge"), with
//     spare capacity, as part of a larger buffer;
//   - graph values in the representation variants of rg.DenseVariant /
//     rg.SparseVariant (edge bytes 1..255, dirty spare capacity behind every
//     slice) and values made by the library itself from such inputs, as the
//     argument of every transformation.

import (
	"fmt"
	"strconv"

	"github.com/Tom-Johnston/mamba/graph"
	"github.com/Tom-Johnston/mamba/sortints"

	"verif/internal/engine"
	"verif/internal/oracle/codec"
	"verif/internal/oracle/rg"
)

// representation names of the extra inputs of the transformations
const (
	reprDenseVar  = "dense-variant"  // rg.DenseVariant(k > 0)
	reprSparseVar = "sparse-variant" // rg.SparseVariant(k > 0)
	reprMadeDense = "made-dense"     // *DenseGraph returned by the library for a free-form input
	reprMadeSprs  = "made-sparse"    // *SparseGraph returned by the library for a free-form input
)

var extraReprs = []string{reprDenseVar, reprSparseVar, reprMadeDense, reprMadeSprs}

// variantOf: which memory layout variant (1..5) is used for g.
func variantOf(g *rg.G) int { return 1 + (g.N+g.M())%5 }

// graphRand is a generator that depends on the seed and on g only, so that a
// value can be rebuilt for the same graph.
func graphRand(c *engine.Ctx, name string, g *rg.G) *engine.Rng {
	return c.Rand(name, int(contentHash(g)>>24))
}

func contentHash(g *rg.G) uint64 {
	h := uint64(g.N)*0x9E3779B97F4A7C15 + 1
	for _, w := range g.A {
		h = (h ^ w) * 0xBF58476D1CE4E5B9
		h ^= h >> 29
	}
	return h ^ h>>32
}

// contentKey identifies a reference graph by its contents.
func contentKey(g *rg.G) string {
	b := make([]byte, 0, 2+8*len(g.A))
	b = append(b, byte(g.N), byte(g.N>>8))
	for _, w := range g.A {
		for s := uint(0); s < 64; s += 8 {
			b = append(b, byte(w>>s))
		}
	}
	return string(b)
}

// cached remembers the free-form input written for a graph (a start value is rebuilt for every chain).
func cached(m map[string]string, g *rg.G, f func() string) string {
	k := contentKey(g)
	if s, ok := m[k]; ok {
		return s
	}
	if len(m) >= 512 {
		for x := range m {
			delete(m, x)
		}
	}
	s := f()
	m[k] = s
	return s
}

// oddBytes returns the edge bytes of g with every edge written as some value
// in 1..255 other than (mostly) 1; the slice has spare capacity filled with
// non-zero bytes.  mode selects the values.
func oddBytes(g *rg.G, rnd *engine.Rng, mode int) []byte {
	eb := g.EdgeBytes()
	out := make([]byte, len(eb), len(eb)+5+g.N)
	for i, b := range eb {
		if b == 0 {
			continue
		}
		switch mode % 5 {
		case 0:
			out[i] = 255
		case 1:
			out[i] = byte(2 + rnd.Intn(254))
		case 2:
			out[i] = byte(1 + rnd.Intn(255))
		case 3:
			out[i] = []byte{2, 0x80, '1', 3}[i%4]
		default: // a single unusual byte among ordinary ones
			out[i] = 1
		}
	}
	if mode%5 == 4 {
		var pos []int
		for i, b := range eb {
			if b != 0 {
				pos = append(pos, i)
			}
		}
		if len(pos) > 0 {
			out[pos[rnd.Intn(len(pos))]] = byte(2 + rnd.Intn(254))
		}
	}
	full := out[:cap(out)]
	for i := len(out); i < len(full); i++ {
		full[i] = 0x5A
	}
	return out
}

// s6Info says which freedoms of the format a harness-written string uses.
type s6Info struct {
	Unordered        int  `json:"vertices_with_pairs_not_in_ascending_order"`
	AdjacentRepeats  int  `json:"pairs_repeating_the_pair_before"`
	SeparatedRepeats int  `json:"pairs_repeating_an_earlier_pair_with_others_between"`
	Loops            int  `json:"loop_pairs"`
	EmptyMoves       int  `json:"moves_to_vertices_without_pairs"`
	Beyond           int  `json:"pairs_behind_a_vertex_number_>=_n"`
	Header           bool `json:"header"`
}

type bitList struct{ b []uint8 }

func (w *bitList) pair(b, x, k int) {
	w.b = append(w.b, uint8(b))
	for j := k - 1; j >= 0; j-- {
		w.b = append(w.b, uint8(x>>uint(j)&1))
	}
}

func (w *bitList) bytes() []byte {
	var out []byte
	for i := 0; i+6 <= len(w.b); i += 6 {
		var v byte
		for j := 0; j < 6; j++ {
			v = v<<1 | w.b[i+j]
		}
		out = append(out, v+63)
	}
	return out
}

// wildSparse6 writes a sparse6 string of g (2 <= n) that decodes, by the rule
// of formats.txt (v = 0; for each pair (b,x): if b then v++; if x > v then
// v = x else edge {x,v}), to the multigraph "g + some repeated edges + some
// loops", i.e. to the simple graph g.  ok = false: the string could not be
// certified by the independent reader (the caller falls back).
func wildSparse6(g *rg.G, rnd *engine.Rng) (s string, info s6Info, ok bool) {
	n := g.N
	if n < 2 {
		return "", info, false
	}
	k := codec.BitsFor(n)
	w := &bitList{}
	cur := 0
	for v := 0; v < n; v++ {
		var lower []int
		for _, u := range g.Nbrs(v) {
			if u < v {
				lower = append(lower, u)
			}
		}
		xs := append([]int{}, lower...)
		if len(lower) > 0 {
			for rep := rnd.Intn(3); rep > 0; rep-- {
				xs = append(xs, lower[rnd.Intn(len(lower))])
			}
		}
		if rnd.Bool(0.2) {
			xs = append(xs, v) // the pair (0,v) while v is the current vertex: the loop {v,v}
		}
		if len(xs) == 0 {
			if v > cur && rnd.Bool(0.2) {
				if v > cur+1 && rnd.Bool(0.5) {
					w.pair(1, v, k)
				} else {
					w.pair(0, v, k)
				}
				cur = v
				info.EmptyMoves++
			}
			continue
		}
		switch rnd.Intn(3) {
		case 0: // descending
			rnd.Shuffle(xs)
			for a := 1; a < len(xs); a++ {
				for b := a; b > 0 && xs[b-1] < xs[b]; b-- {
					xs[b-1], xs[b] = xs[b], xs[b-1]
				}
			}
		default:
			rnd.Shuffle(xs)
		}
		// statistics of the list as written
		seenAt := map[int]int{}
		asc := true
		for a, x := range xs {
			if a > 0 && x < xs[a-1] {
				asc = false
			}
			if p, dup := seenAt[x]; dup && x != v {
				if p == a-1 {
					info.AdjacentRepeats++
				} else {
					info.SeparatedRepeats++
				}
			}
			seenAt[x] = a
			if x == v {
				info.Loops++
			}
		}
		if !asc {
			info.Unordered++
		}
		first := 0
		if v > cur {
			switch {
			case v == cur+1 && rnd.Bool(0.5):
				w.pair(1, xs[0], k) // moves and gives the first pair at once
				first = 1
			case v > cur+1 && rnd.Bool(0.5):
				w.pair(1, v, k)
			default:
				w.pair(0, v, k)
			}
			cur = v
		}
		for _, x := range xs[first:] {
			w.pair(0, x, k)
		}
	}
	if (1<<uint(k)) > n && rnd.Bool(0.25) {
		// a vertex number >= n: this pair and everything behind it is ignored
		y := n + rnd.Intn((1<<uint(k))-n)
		w.pair(rnd.Intn(2), y, k)
		for t := rnd.Intn(4); t > 0; t-- {
			w.pair(rnd.Intn(2), rnd.Intn(1<<uint(k)), k)
			info.Beyond++
		}
		info.Beyond++
	}
	body := append([]uint8{}, w.b...)
	pad := (6 - len(body)%6) % 6
	head := append([]byte{':'}, codec.SizeHeader(n)...)
	// padding by meaning: 1-bits, or (where they would read as a pair that is
	// an edge) one 0-bit and 1-bits; certified by the independent reader
	for _, zero := range []bool{false, true} {
		bl := &bitList{b: append([]uint8{}, body...)}
		for i := 0; i < pad; i++ {
			if i == 0 && zero {
				bl.b = append(bl.b, 0)
			} else {
				bl.b = append(bl.b, 1)
			}
		}
		cand := string(append(append([]byte{}, head...), bl.bytes()...))
		sc, err := codec.Sparse6Scan(cand, maxN)
		if err == nil && int(sc.N) == n && sc.Graph().Equal(g) {
			if rnd.Bool(0.2) {
				cand = codec.S6Header + cand
				info.Header = true
			}
			return cand, info, true
		}
		if pad == 0 {
			break
		}
	}
	return "", info, false
}

// freeMulticode writes the Multicode record of g (n <= 255) with the larger
// neighbours of every vertex in an order of its own, inside a larger buffer
// (returned record = buf[off:off+len], with other bytes before and behind).
func freeMulticode(g *rg.G, rnd *engine.Rng) (rec []byte, unordered int) {
	buf := []byte{7, 0, 9}[:rnd.Intn(4)]
	off := len(buf)
	buf = append(buf, byte(g.N))
	for i := 0; i+1 < g.N; i++ {
		var l []int
		for j := i + 1; j < g.N; j++ {
			if g.Has(i, j) {
				l = append(l, j+1)
			}
		}
		rnd.Shuffle(l)
		for a := 1; a < len(l); a++ {
			if l[a] < l[a-1] {
				unordered++
				break
			}
		}
		for _, x := range l {
			buf = append(buf, byte(x))
		}
		buf = append(buf, 0)
	}
	end := len(buf)
	buf = append(buf, 3, 1, 0, 2)
	return buf[off:end], unordered
}

// spareLists: neighbour lists of g, unsorted with repeated entries, each with
// spare capacity filled with other vertex numbers, in an outer slice with
// spare capacity.
func spareLists(g *rg.G, rnd *engine.Rng) []sortints.SortedInts {
	base := messy(g, rnd, 2)
	nb := make([]sortints.SortedInts, g.N, g.N+3)
	for v := range nb {
		l := make([]int, len(base[v]), len(base[v])+2+rnd.Intn(3))
		copy(l, base[v])
		full := l[:cap(l)]
		for i := len(l); i < len(full); i++ {
			full[i] = (v + i) % (g.N + 1)
		}
		nb[v] = sortints.SortedInts(l)
	}
	full := nb[:cap(nb)]
	for i := g.N; i < len(full); i++ {
		full[i] = sortints.SortedInts{0, 0, 1}
	}
	return nb
}

// freedoms judges the constructors / decoders on free-form inputs of g.
func (r *runner) freedoms(g *rg.G, id string, rnd *engine.Rng) {
	c := r.c
	n := g.N
	// NewDense: edge bytes 2..255, spare capacity
	if n >= 2 {
		mode := rnd.Intn(5)
		edges := oddBytes(g, rnd, mode)
		saved := append([]byte{}, edges...)
		caseKey := fmt.Sprintf("NewDense|%s|bytes=%v", id, saved)
		if n > 8 {
			caseKey = fmt.Sprintf("NewDense|%s|odd bytes mode %d", id, mode)
		}
		detail := map[string]interface{}{"api": "NewDense", "n": n, "graph": id, "edges": fmt.Sprint(saved), "note": "edge bytes other than 0/1 (any non-zero byte indicates an edge), slice with spare capacity"}
		var h *graph.DenseGraph
		if pi := c.Call(caseKey, func() { h = graph.NewDense(n, edges) }); pi != nil {
			c.Eval(1)
			r.fail("NewDense", "edge-bytes-1..255:panic@"+engine.SiteNoLine(pi.Site), "", detail, pi.String(), "a graph")
		} else if r.check("NewDense", caseKey, "", "edge-bytes-1..255:", detail, h, g) != nil {
			c.Obs("probe:NewDense with edge bytes other than 0/1", 1)
			// the caller reuses its buffer: overwrites the bytes and appends into the spare capacity
			for i := range edges {
				edges[i] = byte(i%3) * 77
			}
			_ = append(edges, 9, 9, 9)
			if r.check("NewDense", caseKey, "", "edge-bytes-1..255:after-caller-modified-slice:", detail, h, g) != nil && g.M() > 0 {
				// the transformation that copies dense storage most directly, on this very value
				var cd *graph.DenseGraph
				if pi := c.Call(caseKey+"|ComplementDense", func() { cd = graph.ComplementDense(h) }); pi != nil {
					c.Eval(1)
					r.fail("ComplementDense|"+reprMadeDense, "panic@"+engine.SiteNoLine(pi.Site), "", detail, pi.String(), "the complement")
				} else {
					r.check("ComplementDense|"+reprMadeDense, caseKey+"|ComplementDense", "", "", detail, cd, g.Complement())
				}
			}
		}
	}
	// NewSparse: lists with spare capacity
	if n >= 1 {
		nb := spareLists(g, rnd)
		saved := copyLists(nb)
		caseKey := fmt.Sprintf("NewSparse|%s|spare|lists=%v", id, saved)
		if n > 10 {
			caseKey = fmt.Sprintf("NewSparse|%s|spare capacity", id)
		}
		detail := map[string]interface{}{"api": "NewSparse", "n": n, "graph": id, "neighbourhoods": saved, "note": "lists and outer slice with spare capacity"}
		var h *graph.SparseGraph
		if pi := c.Call(caseKey, func() { h = graph.NewSparse(n, nb) }); pi != nil {
			c.Eval(1)
			r.fail("NewSparse", "spare-capacity:panic@"+engine.SiteNoLine(pi.Site), "", detail, pi.String(), "a graph")
		} else if r.check("NewSparse", caseKey, "", "spare-capacity:", detail, h, g) != nil {
			c.Obs("probe:NewSparse with lists that have spare capacity", 1)
			for v := range nb {
				nb[v] = append(nb[v], 0)
				for k := range nb[v] {
					nb[v][k] = 0
				}
			}
			_ = append(nb, sortints.SortedInts{0})
			r.check("NewSparse", caseKey, "", "spare-capacity:after-caller-modified-slice:", detail, h, g)
		}
	}
	// Sparse6Decode: strings of the independent writers
	if n >= 2 {
		type str struct {
			s, origin string
			info      s6Info
		}
		var strs []str
		alt := codec.Sparse6Alt(n, g.Edges(), func(m int) int { return rnd.Intn(m) })
		if sc, err := codec.Sparse6Scan(alt, maxN); err == nil && int(sc.N) == n && sc.Loops == 0 && sc.Repeats == 0 && sc.Graph().Equal(g) {
			var info s6Info
			last := map[int]int{}
			seen := map[int]bool{}
			for _, e := range sc.Edges {
				if p, okp := last[e[1]]; okp && e[0] < p && !seen[e[1]] {
					info.Unordered++
					seen[e[1]] = true
				}
				last[e[1]] = e[0]
			}
			strs = append(strs, str{alt, "codec.Sparse6Alt (pairs of a vertex in any order, any way of moving on)", info})
		} else {
			c.Inconclusive("codec.Sparse6Alt wrote a string that the independent reader does not read back as the graph: " + strconv.Quote(alt))
		}
		if s, info, ok := wildSparse6(g, rnd); ok {
			strs = append(strs, str{s, "c06 writer (any order, repeated pairs, loop pairs, moves without pairs, pairs behind a vertex number >= n)", info})
		} else {
			c.Obs("free-form sparse6 writer: string not certified by the independent reader, skipped", 1)
		}
		for _, t := range strs {
			s := t.s
			caseKey := "Sparse6Decode|" + strconv.Quote(s)
			detail := map[string]interface{}{"api": "Sparse6Decode", "sparse6": s, "graph": id, "written_by": t.origin, "uses": t.info}
			var h *graph.SparseGraph
			var err error
			if pi := c.Call(caseKey, func() { h, err = graph.Sparse6Decode(s) }); pi != nil {
				c.Eval(1)
				r.fail("Sparse6Decode", "free-form-string:panic@"+engine.SiteNoLine(pi.Site), "", detail, pi.String(), "the graph "+brief(g))
				break
			}
			if err != nil {
				c.Eval(1)
				r.fail("Sparse6Decode", "free-form-string:error-on-valid-string", "", detail, "error: "+err.Error(), "the graph "+brief(g))
				break
			}
			if r.check("Sparse6Decode", caseKey, "", "free-form-string:", detail, h, g) == nil {
				break
			}
			c.Obs("probe:Sparse6Decode of a harness-written free-form string", 1)
			if t.info.Unordered > 0 {
				c.Obs("probe:Sparse6Decode string with the pairs of a vertex not in ascending order", 1)
			}
			if t.info.AdjacentRepeats > 0 {
				c.Obs("probe:Sparse6Decode string with a pair repeated right after itself", 1)
			}
			if t.info.SeparatedRepeats > 0 {
				c.Obs("probe:Sparse6Decode string with a repeated pair apart from its first occurrence", 1)
			}
			if t.info.Loops > 0 {
				c.Obs("probe:Sparse6Decode string with a loop pair", 1)
			}
			if t.info.EmptyMoves > 0 {
				c.Obs("probe:Sparse6Decode string with a move to a vertex that gets no pair", 1)
			}
			if t.info.Beyond > 0 {
				c.Obs("probe:Sparse6Decode string with pairs behind a vertex number >= n", 1)
			}
			if t.info.Header {
				c.Obs("probe:Sparse6Decode string with the >>sparse6<< header", 1)
			}
		}
	}
	// Graph6Decode with the optional header
	if n <= maxFullN && rnd.Bool(0.5) {
		s := codec.G6Header + graph6Of(g)
		caseKey := "Graph6Decode|" + strconv.Quote(s)
		detail := map[string]interface{}{"api": "Graph6Decode", "graph6": s}
		var h *graph.DenseGraph
		var err error
		if pi := c.Call(caseKey, func() { h, err = graph.Graph6Decode(s) }); pi != nil {
			c.Eval(1)
			r.fail("Graph6Decode", "with-header:panic@"+engine.SiteNoLine(pi.Site), "", detail, pi.String(), "the graph "+brief(g))
		} else if err != nil {
			c.Eval(1)
			r.fail("Graph6Decode", "with-header:error-on-valid-string", "", detail, "error: "+err.Error(), "the graph "+brief(g))
		} else if r.check("Graph6Decode", caseKey, "", "with-header:", detail, h, g) != nil {
			c.Obs("probe:Graph6Decode string with the >>graph6<< header", 1)
		}
	}
	// MulticodeDecode: neighbour lists in any order, record inside a larger buffer
	if n >= 1 && n <= 255 {
		rec, unordered := freeMulticode(g, rnd)
		saved := append([]byte{}, rec...)
		if pg, rest, err := codec.MulticodeParse(saved); err != nil || len(rest) != 0 || !pg.Equal(g) {
			c.Inconclusive(fmt.Sprintf("free-order Multicode record %v is not read back as the graph by the independent reader", saved))
			return
		}
		caseKey := fmt.Sprintf("MulticodeDecode|%s|free order %v", id, saved)
		if n > 10 {
			caseKey = "MulticodeDecode|" + id + "|free order"
		}
		detail := map[string]interface{}{"api": "MulticodeDecode", "graph": id, "code": fmt.Sprint(saved), "note": "larger neighbours of a vertex in any order; the record is a part of a larger buffer"}
		var h *graph.DenseGraph
		if pi := c.Call(caseKey, func() { h = graph.MulticodeDecode(rec) }); pi != nil {
			c.Eval(1)
			r.fail("MulticodeDecode", "free-order:panic@"+engine.SiteNoLine(pi.Site), "", detail, pi.String(), "the graph "+brief(g))
		} else if r.check("MulticodeDecode", caseKey, "", "free-order:", detail, h, g) != nil {
			if unordered > 0 {
				c.Obs("probe:MulticodeDecode record with a neighbour list not in ascending order", 1)
			}
			for i := range rec {
				rec[i] = 1
			}
			r.check("MulticodeDecode", caseKey, "", "free-order:after-caller-modified-slice:", detail, h, g)
		}
	}
}

// variantSources: start values / transformation arguments in the
// representation variants and values the library makes from free-form inputs.
// made = returned by a library call (else a struct literal).
type variantSource struct {
	chainSource
	made bool
}

func variantSources() []variantSource {
	s6cache, mcCache, ndCache := map[string]string{}, map[string]string{}, map[string]string{}
	mk := func(name, repr string, made bool, f func(c *engine.Ctx, g *rg.G) graph.EditableGraph) variantSource {
		return variantSource{chainSource{name: name, repr: repr, variant: true, build: func(c *engine.Ctx, key string, g *rg.G) graph.EditableGraph {
			return guarded(c, key, func() graph.EditableGraph { return f(c, g) })
		}}, made}
	}
	return []variantSource{
		mk("struct literal with edge bytes 1..255 and dirty spare capacity (rg.DenseVariant)", "dense", false, func(c *engine.Ctx, g *rg.G) graph.EditableGraph { return g.DenseVariant(variantOf(g)) }),
		mk("struct literal with dirty spare capacity (rg.SparseVariant)", "sparse", false, func(c *engine.Ctx, g *rg.G) graph.EditableGraph { return g.SparseVariant(variantOf(g)) }),
		mk("NewDense(n, edge bytes 1..255)", "dense", true, func(c *engine.Ctx, g *rg.G) graph.EditableGraph {
			b := cached(ndCache, g, func() string {
				rnd := graphRand(c, "made:NewDense", g)
				return string(oddBytes(g, rnd, rnd.Intn(5)))
			})
			return graph.NewDense(g.N, []byte(b))
		}),
		mk("Copy of a DenseGraph with edge bytes 1..255", "dense", true, func(c *engine.Ctx, g *rg.G) graph.EditableGraph { return g.DenseVariant(variantOf(g)).Copy() }),
		mk("ComplementDense of a DenseGraph with edge bytes 1..255", "dense", true, func(c *engine.Ctx, g *rg.G) graph.EditableGraph {
			return graph.ComplementDense(g.Complement().DenseVariant(variantOf(g)))
		}),
		mk("InducedSubgraph method of a DenseGraph with edge bytes 1..255", "dense", true, func(c *engine.Ctx, g *rg.G) graph.EditableGraph {
			sh, V := reversedInduced(g)
			return sh.DenseVariant(variantOf(g)).InducedSubgraph(V)
		}),
		mk("MulticodeDecode(neighbour lists in any order)", "dense", true, func(c *engine.Ctx, g *rg.G) graph.EditableGraph {
			if g.N == 0 || g.N > 255 {
				return graph.MulticodeDecode(refMulticode(g))
			}
			rec := cached(mcCache, g, func() string {
				b, _ := freeMulticode(g, graphRand(c, "made:Multicode", g))
				return string(b)
			})
			return graph.MulticodeDecode([]byte(rec))
		}),
		mk("NewSparse(unsorted lists with repeats and spare capacity)", "sparse", true, func(c *engine.Ctx, g *rg.G) graph.EditableGraph {
			return graph.NewSparse(g.N, spareLists(g, graphRand(c, "made:NewSparse", g)))
		}),
		mk("Sparse6Decode(free-form string)", "sparse", true, func(c *engine.Ctx, g *rg.G) graph.EditableGraph {
			s := cached(s6cache, g, func() string {
				rnd := graphRand(c, "made:Sparse6", g)
				s := refSparse6(g)
				if g.N >= 2 {
					if rnd.Bool(0.5) {
						s = codec.Sparse6Alt(g.N, g.Edges(), func(m int) int { return rnd.Intn(m) })
					} else if w, _, ok := wildSparse6(g, rnd); ok {
						s = w
					}
				}
				return s
			})
			h, err := graph.Sparse6Decode(s)
			if err != nil {
				panic(err)
			}
			return h
		}),
		mk("Copy of a SparseGraph with dirty spare capacity", "sparse", true, func(c *engine.Ctx, g *rg.G) graph.EditableGraph { return g.SparseVariant(variantOf(g)).Copy() }),
		mk("InducedSubgraph method of a SparseGraph with dirty spare capacity", "sparse", true, func(c *engine.Ctx, g *rg.G) graph.EditableGraph {
			sh, V := reversedInduced(g)
			return sh.SparseVariant(variantOf(g)).InducedSubgraph(V)
		}),
	}
}

// extraInput builds g in one of the extra representations.  For the "made"
// representations the kind of value is drawn per call; a kind whose value
// does not conform to g (judged where the constructor itself is judged) is
// not used as an argument.
func (r *runner) extraInput(g *rg.G, id, repr string, rnd *engine.Rng) (graph.Graph, graph.EditableGraph, string) {
	c := r.c
	switch repr {
	case reprDenseVar:
		d := g.DenseVariant(variantOf(g))
		return d, d, fmt.Sprintf("rg.DenseVariant(%d)", variantOf(g))
	case reprSparseVar:
		s := g.SparseVariant(variantOf(g))
		return s, s, fmt.Sprintf("rg.SparseVariant(%d)", variantOf(g))
	}
	want := "dense"
	if repr == reprMadeSprs {
		want = "sparse"
	}
	var cands []variantSource
	for _, vs := range r.vsrc {
		if vs.made && vs.repr == want {
			cands = append(cands, vs)
		}
	}
	vs := cands[rnd.Intn(len(cands))]
	ck := vs.name + "|" + id
	state, known := r.madeOK[ck]
	key := "input " + repr + "|" + ck
	h := vs.build(c, key, g)
	if h == nil {
		c.Obs("input_value_could_not_be_built:"+vs.name, 1)
		return nil, nil, vs.name
	}
	if !known {
		state = false
		if s, _, _ := observe(c, key, h); s != nil {
			if k, _, _ := s.judge(g); k == "" {
				state = true
			}
		}
		if len(r.madeOK) > 4096 {
			r.madeOK = map[string]bool{}
		}
		r.madeOK[ck] = state
	}
	if !state {
		c.Obs("input_value_not_conforming(judged with its constructor):"+vs.name, 1)
		return nil, nil, vs.name
	}
	c.Obs("transformation arguments made by: "+vs.name, 1)
	return h, h, vs.name
}

package refdawg

import (
	"bytes"
	"fmt"

	"verif/internal/selfcheck"
)

type lcg struct{ s uint64 }

func (l *lcg) next() uint64 {
	l.s = l.s*6364136223846793005 + 1442695040888963407
	return l.s >> 33
}
func (l *lcg) Intn(n int) int   { return int(l.next() % uint64(n)) }
func (l *lcg) Float() float64   { return float64(l.next()%(1<<30)) / (1 << 30) }

func init() {
	selfcheck.Add("refdawg (sorted set, minimal automaton size, match predicates)", SelfCheck)
}

// SelfCheck validates the reference model against hand-computed values and
// against slower definitions.
func SelfCheck() error {
	// minimal automaton sizes known by hand / from the repo test (19 nodes)
	repoWords := FromStrings("abject", "abjection", "abjections", "abjectly", "abjectness", "ablate", "ablated", "ablation", "ablations")
	cases := []struct {
		s    *Set
		want int
	}{
		{repoWords, 19},
		{FromStrings(), 1},
		{FromStrings(""), 1},
		{FromStrings("a"), 2},
		{FromStrings("", "a"), 2},
		{FromStrings("ab", "cb"), 3},
		{FromStrings("a", "b", "c"), 2},
		{FromStrings("a", "aa", "aaa"), 4},
		{FromStrings("", "a", "aa", "aaa"), 4},
		{FromStrings("tap", "taps", "top", "tops"), 5}, // classic example: t-{a,o}-p-(s)
		{&Set{Words: Universe([]byte("ab"), 3)}, 4},
		{FromStrings("aa", "ab", "ba", "bb"), 3},
		{FromStrings("aa", "ab", "ba"), 4},
	}
	for _, c := range cases {
		if got := c.s.MinimalStates(); got != c.want {
			return fmt.Errorf("MinimalStates(%s) = %d, want %d", c.s.Quoted(20), got, c.want)
		}
		if got := c.s.MinimalStatesNaive(); got != c.want {
			return fmt.Errorf("MinimalStatesNaive(%s) = %d, want %d", c.s.Quoted(20), got, c.want)
		}
	}
	if n := len(Universe([]byte("ab"), 3)); n != 15 {
		return fmt.Errorf("universe {a,b}<=3 has %d words, want 15", n)
	}
	// hash-consing against explicit right languages on generated sets
	r := &lcg{s: 12345}
	for i := 0; i < 400; i++ {
		s, _, info := GenSet(r, 60)
		a, b := s.MinimalStates(), s.MinimalStatesNaive()
		if a != b {
			return fmt.Errorf("MinimalStates %d != naive %d on %s %s", a, b, info, s.Quoted(60))
		}
		// sortedness, distinctness, rank = index, trie counts
		for j, w := range s.Words {
			if j > 0 && bytes.Compare(s.Words[j-1], w) >= 0 {
				return fmt.Errorf("set not strictly sorted: %s", s.Quoted(60))
			}
			if k, ok := s.Rank(w); !ok || k != j {
				return fmt.Errorf("Rank(%q) = %d,%v want %d", w, k, ok, j)
			}
		}
		t := s.Trie()
		if t.Count != s.Len() {
			return fmt.Errorf("trie root count %d != %d", t.Count, s.Len())
		}
		// trie accepts exactly the set: enumerate it
		var got [][]byte
		var rec func(n *Trie, cur []byte) error
		rec = func(n *Trie, cur []byte) error {
			cnt := 0
			if n.Final {
				got = append(got, append([]byte{}, cur...))
				cnt++
			}
			for k, l := range n.Labels {
				if k > 0 && n.Labels[k-1] >= l {
					return fmt.Errorf("trie labels not ascending")
				}
				if err := rec(n.Kids[k], append(cur, l)); err != nil {
					return err
				}
				cnt += n.Kids[k].Count
			}
			if cnt != n.Count {
				return fmt.Errorf("trie count %d != %d at %q", n.Count, cnt, cur)
			}
			return nil
		}
		if err := rec(t, nil); err != nil {
			return err
		}
		if QuoteList(got, 1000) != s.Quoted(1000) {
			return fmt.Errorf("trie enumerates %s, set is %s", QuoteList(got, 100), s.Quoted(100))
		}
	}
	// bytes, not runes: a two-byte UTF-8 letter is two positions
	if MatchPattern([]byte("\xc3\xa9"), []byte("?"), '?') || !MatchPattern([]byte("\xc3\xa9"), []byte("??"), '?') {
		return fmt.Errorf("MatchPattern does not work on bytes")
	}
	if MatchAnagram([]byte("\xc3\xa9"), []byte("?"), '?') || !MatchAnagram([]byte("\xc3\xa9"), []byte("\xa9?"), '?') {
		return fmt.Errorf("MatchAnagram does not work on bytes")
	}
	// repo test expectations
	an := FromStrings("alerting", "altering", "integral", "post", "pot", "pots", "relating", "spot", "stop", "tops", "tppss", "triangle", "ttps")
	w, ids := an.Filter([]Query{{Kind: 'a', Text: []byte("post"), Blank: 0}})
	if QuoteList(w, 20) != `["post" "pots" "spot" "stop" "tops"]` || fmt.Sprint(ids) != "[3 5 7 8 9]" {
		return fmt.Errorf("anagram filter of the repo test: %s %v", QuoteList(w, 20), ids)
	}
	w, _ = an.Filter([]Query{{Kind: 'p', Text: []byte("t?ps"), Blank: 63}})
	if QuoteList(w, 20) != `["tops" "ttps"]` {
		return fmt.Errorf("pattern filter of the repo test: %s", QuoteList(w, 20))
	}
	w, _ = an.Filter([]Query{{Kind: 'a', Text: []byte("o???"), Blank: 63}, {Kind: 'p', Text: []byte("t?ps"), Blank: 63}})
	if QuoteList(w, 20) != `["tops"]` {
		return fmt.Errorf("combined filter of the repo test: %s", QuoteList(w, 20))
	}
	// count definition of anagram matching == "some rearrangement matches as a pattern", exhaustively on short words over {a,b,?}
	sym := []byte("ab?")
	var all [][]byte
	for _, u := range Universe(sym, 4) {
		all = append(all, u)
	}
	for _, blank := range []byte{'?', 'a', 'z'} {
		for _, a := range all {
			for _, ww := range all {
				if len(a) != len(ww) {
					if MatchAnagram(ww, a, blank) {
						return fmt.Errorf("MatchAnagram accepts different lengths")
					}
					continue
				}
				if x, y := MatchAnagram(ww, a, blank), matchAnagramByPermutation(ww, a, blank); x != y {
					return fmt.Errorf("MatchAnagram(%q,%q,blank=%q) = %v, permutation definition %v", ww, a, blank, x, y)
				}
			}
		}
	}
	// builder model
	m := &BuilderModel{}
	seq := []string{"b", "a", "b", "", "c", "c", "ca"}
	want := []bool{true, false, false, false, true, false, true}
	for i, x := range seq {
		if got := m.Add([]byte(x)); got != want[i] {
			return fmt.Errorf("BuilderModel step %d (%q): %v want %v", i, x, got, want[i])
		}
	}
	m = &BuilderModel{}
	if !m.Add(nil) || m.Add([]byte{}) || m.Add(nil) || !m.Add([]byte("a")) {
		return fmt.Errorf("BuilderModel: empty word handling")
	}
	return nil
}

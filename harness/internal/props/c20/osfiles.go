package c20

// Writers of the operating system that refuse the write themselves (no injected fault, no wrapper around w): LIB is handed
// the *os.File directly, so that any special treatment of files inside LIB is on the path.
//   - a regular file opened read-only (every write(2) fails with EBADF);
//   - a regular file that was closed before the call (os.ErrClosed);
//   - the write end of an os.Pipe whose read end is closed (EPIPE);
//   - /dev/full where it exists (ENOSPC; a character device);
// and, with nothing failing, a file opened with O_APPEND that already holds bytes of the caller and an os.Pipe whose
// reader drains everything: nil and exactly the document.  All of these are decided by what the kernel did, not by time.

import (
	"bytes"
	"fmt"
	"io"
	"os"
	"path/filepath"

	"github.com/Tom-Johnston/mamba/tsp"

	"verif/internal/engine"
)

func osFileRuns(c *engine.Ctx, n int, fam string, rs uint64, b *baseRun) {
	wf := func(i, j int) int { return int(weightValue(fam, n, rs, i, j)) }
	det := func(kind string) caseDetail {
		return caseDetail{N: n, Weights: fam, RS: rs, Matrix: matrixRows(fam, n, rs), Note: "writer: " + kind + fmt.Sprintf("; the document has %d bytes", len(b.data))}
	}
	path := filepath.Join(c.OutDir(), fmt.Sprintf("c20-osfile-n%d-%s.tsp", n, fam))
	defer os.Remove(path)
	mustFail := func(kind string, w *os.File, after func() []byte) {
		var err error
		pi := c.Call(fmt.Sprintf("LIB|%s|n=%d,%s", kind, n, fam), func() { err = tsp.LIB(w, n, wf) })
		var left []byte
		if after != nil {
			left = after()
		}
		c.Eval(1)
		c.Obs("wtype:os:refusing_writer:"+kind, 1)
		switch {
		case pi != nil:
			c.Violation("LIB|panic-on-write-failure|"+engine.SiteNoLine(pi.Site)+"|writer="+kind, det(kind), pi.String(), "a non-nil error")
		case err == nil:
			c.Violation(wviolKey("refused-by-the-os", kind), det(kind), fmt.Sprintf("LIB returned nil; %d bytes reached the destination", len(left)), "a non-nil error: the operating system refuses every write on this descriptor")
		default:
			c.NTDistinct(1)
		}
	}
	// 1. read-only regular file
	if err := os.WriteFile(path, []byte("kept\n"), 0o644); err != nil {
		c.Inconclusive("cannot create a temporary file: " + err.Error())
		return
	}
	if f, err := os.Open(path); err == nil {
		mustFail("file-opened-read-only", f, func() []byte { f.Close(); d, _ := os.ReadFile(path); return d[min(len(d), 5):] })
	}
	// 2. closed file
	if f, err := os.OpenFile(path, os.O_WRONLY, 0); err == nil {
		f.Close()
		mustFail("file-closed-before-the-call", f, nil)
	}
	// 3. pipe without a reader
	if pr, pw, err := os.Pipe(); err == nil {
		pr.Close()
		mustFail("os.Pipe-whose-read-end-is-closed", pw, func() []byte { pw.Close(); return nil })
	}
	// 4. /dev/full
	if f, err := os.OpenFile("/dev/full", os.O_WRONLY, 0); err == nil {
		mustFail("/dev/full", f, func() []byte { f.Close(); return nil })
	}
	// 5. nothing fails: O_APPEND after the caller's bytes, and a drained os.Pipe
	same := func(kind string, pi *engine.PanicInfo, err error, got []byte) {
		c.Eval(1)
		c.Obs("wtype:os:accepting_writer:"+kind, 1)
		switch {
		case pi != nil:
			c.Violation("LIB|panic|"+engine.SiteNoLine(pi.Site)+"|writer="+kind, det(kind), pi.String(), "LIB returns")
		case err != nil:
			c.Violation("LIB|error-without-write-failure|writer="+kind, det(kind), "error "+err.Error(), "nil: no write failed")
		case !bytes.Equal(got, b.data):
			c.Violation("LIB|output-depends-on-writer-type|writer="+kind, det(kind), fmt.Sprintf("%q", clip(string(got), 2000)), "the same TSPLIB document as on a plain io.Writer")
		}
	}
	if f, err := os.OpenFile(path, os.O_WRONLY|os.O_APPEND, 0); err == nil {
		var lerr error
		pi := c.Call(fmt.Sprintf("LIB|file-append|n=%d,%s", n, fam), func() { lerr = tsp.LIB(f, n, wf) })
		f.Close()
		d, _ := os.ReadFile(path)
		if len(d) >= 5 && string(d[:5]) == "kept\n" {
			same("file-opened-with-O_APPEND", pi, lerr, d[5:])
		} else {
			same("file-opened-with-O_APPEND", pi, lerr, append([]byte("<the caller's bytes are gone>"), d...))
		}
	}
	if pr, pw, err := os.Pipe(); err == nil {
		done := make(chan []byte, 1)
		go func() { d, _ := io.ReadAll(pr); pr.Close(); done <- d }()
		var lerr error
		pi := c.Call(fmt.Sprintf("LIB|os.Pipe-drained|n=%d,%s", n, fam), func() { lerr = tsp.LIB(pw, n, wf) })
		pw.Close()
		same("os.Pipe-with-a-reader", pi, lerr, <-done)
	}
}

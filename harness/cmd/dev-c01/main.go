package main

import (
	"verif/internal/cli"
	_ "verif/internal/props/c01"
)

func main() { cli.Main() }

// Demo for C02, change 2: the orbits are returned as a flattened disjoint set.
//
// Run (from the root of the library checkout, public API only):
//
//	cp demo_test.go graph/zz_c02_demo2_test.go
//	GOFLAGS=-mod=mod GOPROXY=off GOSUMDB=off GOTOOLCHAIN=local \
//	  go test -vet=off -count=1 -timeout 120s -run 'TestC02Demo2' -v ./graph/
//	rm graph/zz_c02_demo2_test.go
//
// TestC02Demo2Property checks the property itself (orbit partition = orbits of Aut,
// every generator is a class-preserving automorphism, the generators generate all of
// Aut, reuse of storage/partition with sizes going up and down gives the same
// permutation, orbit partition and generators as a fresh call) and passes BEFORE and
// AFTER the change.
//
// TestC02Demo2IncidentalOld asserts the OLD incidental behaviour: the raw contents of
// the returned disjoint.Set (parent pointers of the union-find forest and the rank
// stored in the roots) as left behind by the search. It PASSES on the clean tree and
// FAILS with the change, which returns the same partition with the same roots but
// with every vertex pointing directly at its root and rank 1 (-2) in every root of a
// non-trivial orbit.
package graph_test

import (
	"fmt"
	"reflect"
	"sort"
	"testing"

	"github.com/Tom-Johnston/mamba/disjoint"
	"github.com/Tom-Johnston/mamba/graph"
)

func c02d2Perms(n int) [][]int {
	var out [][]int
	p := make([]int, n)
	for i := range p {
		p[i] = i
	}
	var rec func(k int)
	rec = func(k int) {
		if k == n {
			out = append(out, append([]int(nil), p...))
			return
		}
		for i := k; i < n; i++ {
			p[k], p[i] = p[i], p[k]
			rec(k + 1)
			p[k], p[i] = p[i], p[k]
		}
	}
	rec(0)
	return out
}

func c02d2PartKey(sets [][]int) string {
	s := make([]string, len(sets))
	for i := range sets {
		c := append([]int(nil), sets[i]...)
		sort.Ints(c)
		s[i] = fmt.Sprint(c)
	}
	sort.Strings(s)
	return fmt.Sprint(s)
}

// c02d2Check verifies the statement of C02 by brute force.
func c02d2Check(g graph.Graph, classes [][]int, orbits disjoint.Set, gens [][]int) error {
	n := g.N()
	cls := make([]int, n)
	for i, c := range classes {
		for _, v := range c {
			cls[v] = i
		}
	}
	auts := map[string]bool{}
	uf := disjoint.New(n)
	for _, p := range c02d2Perms(n) {
		ok := true
		for i := 0; i < n && ok; i++ {
			if cls[p[i]] != cls[i] {
				ok = false
			}
			for j := i + 1; j < n && ok; j++ {
				if g.IsEdge(i, j) != g.IsEdge(p[i], p[j]) {
					ok = false
				}
			}
		}
		if ok {
			auts[fmt.Sprint(p)] = true
			for i := range p {
				uf.Union(i, p[i])
			}
		}
	}
	oc := append(disjoint.Set(nil), orbits...)
	if c02d2PartKey(oc.Sets()) != c02d2PartKey(uf.Sets()) {
		return fmt.Errorf("orbits %v, want %v", oc.Sets(), uf.Sets())
	}
	id := make([]int, n)
	for i := range id {
		id[i] = i
	}
	seen := map[string]bool{fmt.Sprint(id): true}
	queue := [][]int{id}
	for _, gen := range gens {
		if !auts[fmt.Sprint(gen)] {
			return fmt.Errorf("generator %v is not a (class-preserving) automorphism", gen)
		}
	}
	for len(queue) > 0 {
		p := queue[0]
		queue = queue[1:]
		for _, gen := range gens {
			q := make([]int, n)
			for i := range q {
				q[i] = gen[p[i]]
			}
			if k := fmt.Sprint(q); !seen[k] {
				seen[k] = true
				queue = append(queue, q)
			}
		}
	}
	if len(seen) != len(auts) {
		return fmt.Errorf("generators %v generate a group of order %d, |Aut| = %d", gens, len(seen), len(auts))
	}
	return nil
}

type c02d2Case struct {
	name    string
	g       graph.Graph
	classes [][]int
	oldRaw  []int
}

func c02d2Cases() []c02d2Case {
	return []c02d2Case{
		{"C5", graph.Cycle(5), nil, []int{2, 2, -3, 2, 2}},
		{"Petersen", graph.KneserGraph(5, 2), nil, []int{1, 8, 8, 8, 8, 8, 8, 8, -3, 8}},
		{"P4", graph.Path(4), nil, []int{3, 2, -2, -2}},
		{"C6 with classes {0,3},{1,2,4,5}", graph.Cycle(6), [][]int{{0, 3}, {1, 2, 4, 5}}, []int{3, 4, 4, -2, -3, 4}},
		{"Star5", graph.Star(5), nil, []int{-1, 2, -2, 2, 2}},
		{"C4", graph.Cycle(4), nil, []int{2, 2, -2, 2}},
		{"edgeless 3", graph.NewDense(3, nil), nil, []int{-2, 0, 0}},
		{"Rook 3x3", graph.RookGraph(3, 3), nil, nil},
		{"K2", graph.CompleteGraph(2), nil, nil},
	}
}

func TestC02Demo2Property(t *testing.T) {
	st := graph.NewStorage(10, 45)
	op := graph.NewOrderedPartition(10, 45, nil)
	for _, c := range c02d2Cases() {
		n := c.g.N()
		perm, orb, gens := graph.CanonicalIsomorphFull(c.g, c.classes)
		if n <= 9 {
			if err := c02d2Check(c.g, c.classes, orb, gens); err != nil {
				t.Errorf("fresh %s: %v", c.name, err)
			}
		}
		// Reused storage and partition: same permutation, orbits and generators as the fresh call.
		op.Reset(n, c.g.M(), c.classes)
		nb := make([][]int, n)
		for i := range nb {
			nb[i] = c.g.Neighbours(i)
		}
		perm2, orb2, gens2 := graph.CanonicalIsomorphAllocated(n, c.g.M(), nb, op, st, new(graph.CanonicalOptions))
		if !reflect.DeepEqual(perm, perm2) || c02d2PartKey(orb.Sets()) != c02d2PartKey(orb2.Sets()) || len(gens) != len(gens2) {
			t.Errorf("reused result differs from fresh result for %s", c.name)
		}
		for i := range gens {
			if i < len(gens2) && !reflect.DeepEqual(gens[i], gens2[i]) {
				t.Errorf("reused generators differ from fresh generators for %s", c.name)
			}
		}
	}
}

func TestC02Demo2IncidentalOld(t *testing.T) {
	for _, c := range c02d2Cases() {
		if c.oldRaw == nil {
			continue
		}
		_, orb, _ := graph.CanonicalIsomorphFull(c.g, c.classes)
		raw := append([]int(nil), orb...) // copy before Sets(), which compresses paths
		t.Logf("%s: raw disjoint.Set %v, orbits %v", c.name, raw, orb.Sets())
		if !reflect.DeepEqual(raw, c.oldRaw) {
			t.Errorf("%s: raw disjoint.Set = %v, the old tree returned %v (same partition)", c.name, raw, c.oldRaw)
		}
	}
}

#!/bin/bash
# usage: selftest/reverts.sh [Cxx ...]
# For every defect recorded as "fixed" in known_findings.jsonl: take a scratch copy of /repo, revert that one fix
# commit there (the original defect comes back, everything else stays repaired), check that the copy still passes the
# repo's own tests, run the property's quick check against it and require a VIOLATION.  /repo is never touched.
cd "$(dirname "$0")/.."; V=$(pwd)
export GOFLAGS=-mod=mod GOPROXY=off GOSUMDB=off GOTOOLCHAIN=local
want=" $* "
python3 - <<'PY' > /tmp/reverts.list
import json
seen=set()
for l in open('known_findings.jsonl'):
    l=l.strip()
    if not l: continue
    k=json.loads(l)
    if k.get('status')=='fixed' and (k['property'],k['commit']) not in seen:
        seen.add((k['property'],k['commit']))
        print(k['property'],k['commit'])
PY
while read prop commit; do
  if [ "$want" != "  " ] && [[ "$want" != *" $prop "* ]]; then continue; fi
  D=$(mktemp -d /tmp/revert.XXXXXX)
  cp -r /repo/. "$D/"
  subj=$(git -C "$D" log --format=%s -1 "$commit" | cut -c1-90)
  if ! git -C "$D" revert -n "$commit" >/dev/null 2>&1; then echo "$prop $commit REVERT-CONFLICT ($subj)"; rm -rf "$D"; continue; fi
  if ! (cd "$D" && go build ./... 2>/dev/null); then echo "$prop $commit DOES-NOT-BUILD ($subj)"; rm -rf "$D"; continue; fi
  tests="tests-pass"
  (cd "$D" && go test -vet=off -count=1 -timeout 900s ./... >/dev/null 2>&1) || tests="TESTS-FAIL"
  out=$(VERIF_RUN_TAG="-rev$$" VERIF_REPO="$D" VERIF_BUILD="$V/.build/revert-$prop" VERIF_BUDGET_S=5 ./check "$prop" quick 2>&1)
  rc=$?
  key=$(echo "$out" | grep -E "^  key=" | head -1 | cut -c1-140)
  if [ $rc -eq 1 ]; then v=CAUGHT; else v="MISSED(rc=$rc)"; fi
  echo "$prop $commit $v $tests | $subj |$key"
  rm -rf "$D"
done < /tmp/reverts.list

#!/usr/bin/env python3
"""usage: tools/slow_units.py Cxx  -- lists the slowest units of the last run and the per-shard wall time"""
import json, sys, glob, collections
prop = sys.argv[1]
units = []
shard = collections.Counter()
for f in glob.glob(f"/verif/.run/{prop}/shard-*.journal"):
    for line in open(f):
        try:
            r = json.loads(line)
        except Exception:
            continue
        if r.get("t") == "end":
            units.append((r.get("ms", 0), r["unit"], f.split("/")[-1]))
            shard[f.split("/")[-1]] += r.get("ms", 0)
units.sort(reverse=True)
for ms, u, f in units[:15]:
    print(f"{ms:8d} ms  {u}  ({f})")
print("units:", len(units), "total ms:", sum(u[0] for u in units))
print("shard wall (ms):", sorted(shard.values()))

// Demo for C07 harmless change 2 (Graph6Decode: another non-zero byte marks an edge in DenseGraph.Edges).
//
// Run (from the root of the library worktree):
//
//	cp /tmp/green-out/C07/2/demo_test.go graph/zz_c07_demo_test.go
//	GOFLAGS=-mod=mod GOPROXY=off GOSUMDB=off GOTOOLCHAIN=local go test -vet=off -count=1 -timeout 300s -run 'TestC07Demo' -v ./graph/
//	rm graph/zz_c07_demo_test.go
//
// TestC07DemoIncidental asserts the OLD incidental behaviour: the DenseGraph returned by Graph6Decode marks every edge
// with the byte 1, so it is reflect.DeepEqual to the same graph built with NewDense + AddEdge. It passes on the clean
// tree and fails with the change (the marks are now 32, 16, 8, 4, 2 or 1).
// TestC07DemoProperty checks the property itself on the same and many more inputs through the public Graph interface
// (graph.Equal, IsEdge, M, Degrees, Neighbours, re-encoding in all codecs). It passes on both trees.
package graph_test

import (
	"math/rand"
	"reflect"
	"testing"

	"github.com/Tom-Johnston/mamba/graph"
)

func TestC07DemoIncidental(t *testing.T) {
	g := graph.NewDense(5, nil)
	g.AddEdge(0, 2)
	g.AddEdge(0, 4)
	g.AddEdge(1, 3)
	g.AddEdge(3, 4)
	h, err := graph.Graph6Decode(graph.Graph6Encode(g))
	if err != nil {
		t.Fatal(err)
	}
	t.Logf("g.Edges = %v", g.Edges)
	t.Logf("h.Edges = %v", h.Edges)
	for i, b := range h.Edges {
		if b > 1 {
			t.Errorf("Edges[%d] = %d: the old tree marks edges with 1", i, b)
		}
	}
	if !reflect.DeepEqual(g, h) {
		t.Errorf("decoded graph is not reflect.DeepEqual to the original (it is on the old tree)")
	}
}

func c07check(t *testing.T, g *graph.DenseGraph) {
	n := g.N()
	g6 := graph.Graph6Encode(g)
	for _, c := range []byte(g6) {
		if c < 63 || c > 126 {
			t.Fatalf("byte %d out of range in %q", c, g6)
		}
	}
	for _, s := range []string{g6, ">>graph6<<" + g6} {
		h, err := graph.Graph6Decode(s)
		if err != nil {
			t.Fatalf("%q: %v", s, err)
		}
		if h.N() != n || h.M() != g.M() || !graph.Equal(g, h) || !graph.Equal(h, g) {
			t.Fatalf("%q: decoded graph differs", s)
		}
		for i := 0; i < n; i++ {
			for j := 0; j < n; j++ {
				if g.IsEdge(i, j) != h.IsEdge(i, j) {
					t.Fatalf("%q: IsEdge(%d,%d) differs", s, i, j)
				}
			}
			if !reflect.DeepEqual(g.Neighbours(i), h.Neighbours(i)) {
				t.Fatalf("%q: Neighbours(%d) differs", s, i)
			}
		}
		if !reflect.DeepEqual(g.Degrees(), h.Degrees()) {
			t.Fatalf("%q: Degrees differ", s)
		}
		// The decoded graph behaves like g in every codec and under edits.
		if graph.Graph6Encode(h) != g6 || graph.Sparse6Encode(h) != graph.Sparse6Encode(g) {
			t.Fatalf("%q: re-encoding differs", s)
		}
		if n <= 255 && string(graph.MulticodeEncode(h)) != string(graph.MulticodeEncode(g)) {
			t.Fatalf("%q: Multicode differs", s)
		}
		if n >= 2 {
			c := h.Copy().(*graph.DenseGraph)
			was := c.IsEdge(0, n-1)
			c.RemoveEdge(0, n-1)
			if c.IsEdge(0, n-1) {
				t.Fatalf("%q: RemoveEdge failed", s)
			}
			c.AddEdge(0, n-1)
			c.AddEdge(0, n-1)
			if !c.IsEdge(0, n-1) || c.M() != g.M()+map[bool]int{true: 0, false: 1}[was] {
				t.Fatalf("%q: AddEdge failed", s)
			}
		}
	}
	s6 := graph.Sparse6Encode(g)
	for _, s := range []string{s6, ">>sparse6<<" + s6} {
		h, err := graph.Sparse6Decode(s)
		if err != nil || !graph.Equal(g, h) {
			t.Fatalf("sparse6 round trip failed for %q: %v", s, err)
		}
	}
	if n >= 1 && n <= 255 {
		if h := graph.MulticodeDecode(graph.MulticodeEncode(g)); !graph.Equal(g, h) {
			t.Fatalf("Multicode round trip failed for %q", g6)
		}
	}
}

func TestC07DemoProperty(t *testing.T) {
	for n := 0; n <= 6; n++ {
		m := n * (n - 1) / 2
		for mask := 0; mask < 1<<uint(m); mask++ {
			e := make([]byte, m)
			for i := range e {
				e[i] = byte(mask >> uint(i) & 1)
			}
			c07check(t, graph.NewDense(n, e))
		}
	}
	rng := rand.New(rand.NewSource(7))
	for _, n := range []int{7, 8, 9, 16, 17, 31, 32, 33, 62, 63, 64, 65, 100, 128} {
		for rep := 0; rep < 40; rep++ {
			g := graph.NewDense(n, nil)
			target := rng.Intn(n*(n-1)/2 + 1)
			if rep%2 == 0 {
				target = rng.Intn(3 * n)
			}
			for i := 0; i < target; i++ {
				g.AddEdge(rng.Intn(n), rng.Intn(n))
			}
			c07check(t, g)
		}
	}
}

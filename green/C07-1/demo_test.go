// Demo for C07 harmless change 1 (sparse6: another valid encoding of the same graph).
//
// Run (from the root of the library worktree):
//
//	cp /tmp/green-out/C07/1/demo_test.go graph/zz_c07_demo_test.go
//	GOFLAGS=-mod=mod GOPROXY=off GOSUMDB=off GOTOOLCHAIN=local go test -vet=off -count=1 -timeout 300s -run 'TestC07Demo' -v ./graph/
//	rm graph/zz_c07_demo_test.go
//
// TestC07DemoIncidental asserts the OLD incidental behaviour: the exact sparse6 string of a *SparseGraph, which was
// the same as for a *DenseGraph holding the same graph and the same as the one nauty's own writer produces (a jump of
// the vertex pointer is written with b = 1). It passes on the clean tree and fails with the change.
// TestC07DemoProperty checks the property itself (round trip through the library decoder and through an independent
// decoder written from formats.txt, allowed bytes, size header, padding rule of formats.txt, graph6 strings). It
// passes on both trees.
package graph_test

import (
	"math/bits"
	"math/rand"
	"testing"

	"github.com/Tom-Johnston/mamba/graph"
)

type c07edge struct{ u, v int }

func c07build(n int, edges []c07edge) *graph.SparseGraph {
	g := graph.NewSparse(n, nil)
	for _, e := range edges {
		g.AddEdge(e.u, e.v)
	}
	return g
}

func TestC07DemoIncidental(t *testing.T) {
	cases := []struct {
		n     int
		edges []c07edge
		want  string
	}{
		{5, []c07edge{{0, 3}}, ":DkN"},
		{7, []c07edge{{0, 1}, {2, 5}, {3, 6}}, ":FbQn"},
		{20, []c07edge{{0, 7}, {3, 19}}, ":Sf?rB"},
	}
	for _, c := range cases {
		sg := c07build(c.n, c.edges)
		got := graph.Sparse6Encode(sg)
		t.Logf("n=%d edges=%v sparse6=%q", c.n, c.edges, got)
		if got != c.want {
			t.Errorf("n=%d edges=%v: Sparse6Encode(*SparseGraph) = %q, the old tree (and nauty's writer) gives %q", c.n, c.edges, got, c.want)
		}
		dg := graph.NewDense(c.n, nil)
		for _, e := range c.edges {
			dg.AddEdge(e.u, e.v)
		}
		if d := graph.Sparse6Encode(dg); d != got {
			t.Errorf("n=%d edges=%v: dense and sparse representation of one graph give different strings %q and %q", c.n, c.edges, d, got)
		}
	}
}

// c07refDecode decodes a sparse6 string literally as formats.txt describes it. It returns n, the edges in the order
// they are output, and the number of bits after the last pair that output an edge together with those bits.
func c07refDecode(t *testing.T, s string) (n int, out []c07edge, pad []int) {
	if len(s) < 2 || s[0] != ':' {
		t.Fatalf("bad start %q", s)
	}
	body := []byte(s[1:])
	for _, c := range body {
		if c < 63 || c > 126 {
			t.Fatalf("byte %d out of range in %q", c, s)
		}
	}
	switch {
	case body[0] != 126:
		n = int(body[0] - 63)
		body = body[1:]
	case body[1] != 126:
		n = int(body[1]-63)<<12 | int(body[2]-63)<<6 | int(body[3]-63)
		body = body[4:]
		if n <= 62 {
			t.Fatalf("long header for small n in %q", s)
		}
	default:
		t.Fatalf("unexpected 8 byte header")
	}
	k := 0
	if n > 1 {
		k = bits.Len(uint(n - 1))
	}
	var bs []int
	for _, c := range body {
		for j := 5; j >= 0; j-- {
			bs = append(bs, int((c-63)>>uint(j))&1)
		}
	}
	v := 0
	pos := 0
	lastEdgeEnd := 0
	for pos+1+k <= len(bs) {
		b := bs[pos]
		x := 0
		for j := 0; j < k; j++ {
			x = x<<1 | bs[pos+1+j]
		}
		pos += 1 + k
		if b == 1 {
			v++
		}
		if x > v {
			v = x
		} else {
			if v >= n {
				// Only padding may refer to a vertex that does not exist; it is checked by the caller via pad.
				continue
			}
			out = append(out, c07edge{x, v})
			lastEdgeEnd = pos
		}
	}
	return n, out, bs[lastEdgeEnd:]
}

func c07check(t *testing.T, g *graph.DenseGraph) {
	n := g.N()
	// graph6: unique encoding, compare with the definition.
	g6 := graph.Graph6Encode(g)
	var want []byte
	if n <= 62 {
		want = append(want, byte(n+63))
	} else {
		want = append(want, 126, byte(n>>12&63)+63, byte(n>>6&63)+63, byte(n&63)+63)
	}
	var cur, cnt byte
	for j := 1; j < n; j++ {
		for i := 0; i < j; i++ {
			cur <<= 1
			if g.IsEdge(i, j) {
				cur |= 1
			}
			cnt++
			if cnt == 6 {
				want = append(want, cur+63)
				cur, cnt = 0, 0
			}
		}
	}
	if cnt > 0 {
		want = append(want, cur<<(6-cnt)+63)
	}
	if g6 != string(want) {
		t.Fatalf("graph6 of n=%d differs from the definition: %q vs %q", n, g6, want)
	}
	for _, s := range []string{g6, ">>graph6<<" + g6} {
		h, err := graph.Graph6Decode(s)
		if err != nil || !graph.Equal(g, h) {
			t.Fatalf("graph6 round trip failed for %q: %v", s, err)
		}
	}

	// sparse6, from the dense graph, from a *SparseGraph and from a SparseGraph value holding the same graph.
	sg := graph.NewSparse(n, nil)
	for j := 1; j < n; j++ {
		for i := 0; i < j; i++ {
			if g.IsEdge(i, j) {
				sg.AddEdge(i, j)
			}
		}
	}
	for _, in := range []graph.Graph{g, sg, *sg} {
		c07checkSparse6(t, g, g6, graph.Sparse6Encode(in))
	}
}

func c07checkSparse6(t *testing.T, g *graph.DenseGraph, g6, s6 string) {
	n := g.N()
	for _, s := range []string{s6, ">>sparse6<<" + s6} {
		h, err := graph.Sparse6Decode(s)
		if err != nil || !graph.Equal(g, h) || h.M() != g.M() {
			t.Fatalf("sparse6 round trip failed for %q (g6 %q): %v", s, g6, err)
		}
	}
	rn, out, pad := c07refDecode(t, s6)
	if rn != n {
		t.Fatalf("sparse6 header of %q gives n=%d, want %d", s6, rn, n)
	}
	if len(out) != g.M() {
		t.Fatalf("sparse6 %q (g6 %q): stream outputs %d edges, graph has %d", s6, g6, len(out), g.M())
	}
	seen := map[c07edge]bool{}
	for _, e := range out {
		if e.u == e.v || !g.IsEdge(e.u, e.v) || seen[e] {
			t.Fatalf("sparse6 %q (g6 %q): stream outputs bad edge %v", s6, g6, e)
		}
		seen[e] = true
	}
	// Padding rule of formats.txt.
	if len(pad) >= 6 {
		t.Fatalf("sparse6 %q: %d bits after the last edge", s6, len(pad))
	}
	k := 0
	if n > 1 {
		k = bits.Len(uint(n - 1))
	}
	deg := g.Degrees()
	rule1 := n >= 2 && k < 6 && n == 1<<uint(k) && deg[n-2] > 0 && deg[n-1] == 0 && len(pad) >= k+1
	for i, b := range pad {
		w := 1
		if rule1 && i == 0 {
			w = 0
		}
		if b != w {
			t.Fatalf("sparse6 %q (g6 %q): padding %v does not follow formats.txt (rule1=%v)", s6, g6, pad, rule1)
		}
	}
}

func TestC07DemoProperty(t *testing.T) {
	// All graphs on at most 6 vertices.
	for n := 0; n <= 6; n++ {
		m := n * (n - 1) / 2
		for mask := 0; mask < 1<<uint(m); mask++ {
			e := make([]byte, m)
			for i := range e {
				e[i] = byte(mask >> uint(i) & 1)
			}
			c07check(t, graph.NewDense(n, e))
		}
	}
	// Random graphs of many densities on larger vertex sets, including powers of two, 17..32 and the long header.
	rng := rand.New(rand.NewSource(7))
	for _, n := range []int{7, 8, 9, 15, 16, 17, 20, 31, 32, 33, 62, 63, 64, 65, 100, 128} {
		for rep := 0; rep < 150; rep++ {
			g := graph.NewDense(n, nil)
			target := rng.Intn(3 * n)
			if rep%10 == 0 {
				target = rng.Intn(n*(n-1)/2 + 1)
			}
			for i := 0; i < target; i++ {
				g.AddEdge(rng.Intn(n), rng.Intn(n))
			}
			if rep%3 == 0 {
				// Make vertex n-1 isolated and give n-2 an edge: the special padding case.
				for _, u := range g.Neighbours(n - 1) {
					g.RemoveEdge(u, n-1)
				}
				g.AddEdge(n-2, rng.Intn(n-2))
			}
			c07check(t, g)
		}
	}
}

package c06

// Chains of transformations applied to ONE EditableGraph value.  Contract and
// SplitEdge shrink and grow the same backing storage, so a value that is
// well formed after each single transformation of a fresh graph can still go
// wrong when a vertex is added after another (non-last) vertex was removed.
// The start values come from every source of graphs the monitor knows
// (struct literal, NewDense, NewSparse, edits, decoders, ComplementDense,
// LineGraphDense, Copy, InducedSubgraph, RemoveVertex of a supergraph, named
// generators): their backing arrays differ in length, capacity and history.
// Live views (Complement, InducedSubgraph) are taken BEFORE the chain and
// re-read after the steps.

import (
	"encoding/json"
	"fmt"
	"strings"

	"github.com/Tom-Johnston/mamba/graph"

	"verif/internal/engine"
	"verif/internal/gen"
	"verif/internal/oracle/rg"
)

// chainOp is one step applied to an EditableGraph value.  The compound kinds
// are applied without any observation in between.
//
//	'c' Contract(g,i,j)            's' SplitEdge(g,i,j)
//	'a' g.AddEdge(i,j)             'r' g.RemoveEdge(i,j)
//	'm' move an edge:   g.RemoveEdge(i,j); g.AddEdge(k,l)        (M unchanged if ij was an edge and kl was not)
//	'x' the same in the other order: g.AddEdge(k,l); g.RemoveEdge(i,j)
//	'w' swap two edges: g.RemoveEdge(i,j); g.RemoveEdge(k,l); g.AddEdge(i,k); g.AddEdge(j,l)
//	'v' g.AddVertex(list)          'd' g.RemoveVertex(i)
type chainOp struct {
	kind byte
	i, j int
	k, l int
	list []int
}

var opNames = map[byte]string{'c': "Contract", 's': "SplitEdge", 'a': "AddEdge", 'r': "RemoveEdge", 'm': "move-edge", 'x': "add-then-remove-edge", 'w': "swap-edges", 'v': "AddVertex", 'd': "RemoveVertex"}

func (o chainOp) name() string { return opNames[o.kind] }

func (o chainOp) String() string {
	switch o.kind {
	case 'c', 's':
		return fmt.Sprintf("%s(g,%d,%d)", o.name(), o.i, o.j)
	case 'a', 'r':
		return fmt.Sprintf("g.%s(%d,%d)", o.name(), o.i, o.j)
	case 'm':
		return fmt.Sprintf("g.RemoveEdge(%d,%d)+g.AddEdge(%d,%d)", o.i, o.j, o.k, o.l)
	case 'x':
		return fmt.Sprintf("g.AddEdge(%d,%d)+g.RemoveEdge(%d,%d)", o.k, o.l, o.i, o.j)
	case 'w':
		return fmt.Sprintf("g.RemoveEdge(%d,%d)+g.RemoveEdge(%d,%d)+g.AddEdge(%d,%d)+g.AddEdge(%d,%d)", o.i, o.j, o.k, o.l, o.i, o.k, o.j, o.l)
	case 'v':
		return fmt.Sprintf("g.AddVertex(%v)", o.list)
	}
	return fmt.Sprintf("g.RemoveVertex(%d)", o.i)
}

func opsString(ops []chainOp) string {
	p := make([]string, len(ops))
	for i, o := range ops {
		p[i] = o.String()
	}
	return strings.Join(p, ";")
}

// applyModel is the documented effect of the operation on the model.
func applyModel(m *rg.G, o chainOp) *rg.G {
	r := m.Copy()
	switch o.kind {
	case 'c':
		for _, v := range m.Nbrs(o.j) {
			r.Add(o.i, v)
		}
		return r.RemoveVertex(o.j)
	case 's':
		r.Del(o.i, o.j)
		return r.AddVertex([]int{o.i, o.j})
	case 'a':
		r.Add(o.i, o.j)
	case 'r':
		r.Del(o.i, o.j)
	case 'm':
		r.Del(o.i, o.j)
		r.Add(o.k, o.l)
	case 'x':
		r.Add(o.k, o.l)
		r.Del(o.i, o.j)
	case 'w':
		r.Del(o.i, o.j)
		r.Del(o.k, o.l)
		r.Add(o.i, o.k)
		r.Add(o.j, o.l)
	case 'v':
		return r.AddVertex(o.list)
	case 'd':
		return r.RemoveVertex(o.i)
	}
	return r
}

// applyLib performs the operation on the library value (call it inside c.Call).
func applyLib(h graph.EditableGraph, o chainOp) {
	switch o.kind {
	case 'c':
		graph.Contract(h, o.i, o.j)
	case 's':
		graph.SplitEdge(h, o.i, o.j)
	case 'a':
		h.AddEdge(o.i, o.j)
	case 'r':
		h.RemoveEdge(o.i, o.j)
	case 'm':
		h.RemoveEdge(o.i, o.j)
		h.AddEdge(o.k, o.l)
	case 'x':
		h.AddEdge(o.k, o.l)
		h.RemoveEdge(o.i, o.j)
	case 'w':
		h.RemoveEdge(o.i, o.j)
		h.RemoveEdge(o.k, o.l)
		h.AddEdge(o.i, o.k)
		h.AddEdge(o.j, o.l)
	case 'v':
		h.AddVertex(append([]int{}, o.list...))
	case 'd':
		h.RemoveVertex(o.i)
	}
}

// opsAt lists every operation that is defined on a graph with n vertices:
// Contract on all ordered pairs (i == j included: it removes the vertex),
// SplitEdge on all ordered pairs of distinct vertices (edge or not).
func opsAt(n int) []chainOp {
	var r []chainOp
	for i := 0; i < n; i++ {
		for j := 0; j < n; j++ {
			r = append(r, chainOp{kind: 'c', i: i, j: j})
			if i != j {
				r = append(r, chainOp{kind: 's', i: i, j: j})
			}
		}
	}
	return r
}

// chainSource builds a library value equal (as an abstract graph) to g.
type chainSource struct {
	name  string
	repr  string // dense | sparse
	build func(c *engine.Ctx, key string, g *rg.G) graph.EditableGraph
	// variant: a representation variant or a value made from a free-form input (variants.go); where chains are
	// run "from every start value" the quick tier takes these in rotation
	variant bool
}

// superGraph returns g with extra vertices inserted at the given position
// (first or last), each adjacent to the even old vertices and to each other.
func superGraph(g *rg.G, extra int, first bool) *rg.G {
	n := g.N
	big := rg.New(n + extra)
	off := 0
	if first {
		off = extra
	}
	for _, e := range g.Edges() {
		big.Add(e[0]+off, e[1]+off)
	}
	for x := 0; x < extra; x++ {
		xv := n + x
		if first {
			xv = x
		}
		for v := 0; v < n; v += 2 {
			big.Add(xv, v+off)
		}
		for y := 0; y < x; y++ {
			yv := n + y
			if first {
				yv = y
			}
			big.Add(xv, yv)
		}
	}
	return big
}

func guarded(c *engine.Ctx, key string, f func() graph.EditableGraph) graph.EditableGraph {
	var h graph.EditableGraph
	if pi := c.Call(key, func() { h = f() }); pi != nil {
		return nil
	}
	return h
}

// reversedInduced: a shuffled supergraph and the vertex list that induces g from it.
func reversedInduced(g *rg.G) (*rg.G, []int) {
	big := superGraph(g, 2, false)
	N := big.N
	p := make([]int, N) // vertex i of shuffled = p[i] of big
	for i := range p {
		p[i] = N - 1 - i
	}
	sh := big.Induced(p)
	V := make([]int, g.N)
	for v := range V {
		V[v] = N - 1 - v
	}
	return sh, V
}

func chainSources() []chainSource {
	srcs := baseChainSources()
	for _, vs := range variantSources() {
		src := vs.chainSource
		src.variant = true
		srcs = append(srcs, src)
	}
	return srcs
}

func baseChainSources() []chainSource {
	dense := func(name string, f func(g *rg.G) graph.EditableGraph) chainSource {
		return chainSource{name: name, repr: "dense", build: func(c *engine.Ctx, key string, g *rg.G) graph.EditableGraph {
			return guarded(c, key, func() graph.EditableGraph { return f(g) })
		}}
	}
	sparse := func(name string, f func(g *rg.G) graph.EditableGraph) chainSource {
		return chainSource{name: name, repr: "sparse", build: func(c *engine.Ctx, key string, g *rg.G) graph.EditableGraph {
			return guarded(c, key, func() graph.EditableGraph { return f(g) })
		}}
	}
	edits := func(h graph.EditableGraph, g *rg.G) graph.EditableGraph {
		for _, e := range g.Edges() {
			h.AddEdge(e[1], e[0])
		}
		return h
	}
	return []chainSource{
		dense("struct literal", func(g *rg.G) graph.EditableGraph { return g.Dense() }),
		dense("NewDense(n,edges)", func(g *rg.G) graph.EditableGraph { return graph.NewDense(g.N, g.EdgeBytes()) }),
		dense("NewDense(n,nil)+AddEdge", func(g *rg.G) graph.EditableGraph { return edits(graph.NewDense(g.N, nil), g) }),
		dense("Graph6Decode", func(g *rg.G) graph.EditableGraph {
			h, err := graph.Graph6Decode(g.G6())
			if err != nil {
				panic(err)
			}
			return h
		}),
		dense("MulticodeDecode", func(g *rg.G) graph.EditableGraph { return graph.MulticodeDecode(refMulticode(g)) }),
		dense("ComplementDense", func(g *rg.G) graph.EditableGraph { return graph.ComplementDense(g.Complement().Dense()) }),
		dense("DenseGraph.Copy", func(g *rg.G) graph.EditableGraph { return g.Dense().Copy() }),
		dense("DenseGraph.InducedSubgraph", func(g *rg.G) graph.EditableGraph {
			sh, V := reversedInduced(g)
			return sh.Dense().InducedSubgraph(V)
		}),
		dense("RemoveVertex(last) of a supergraph", func(g *rg.G) graph.EditableGraph {
			h := superGraph(g, 1, false).Dense()
			h.RemoveVertex(g.N)
			return h
		}),
		dense("RemoveVertex(0) of a supergraph", func(g *rg.G) graph.EditableGraph {
			h := superGraph(g, 1, true).Dense()
			h.RemoveVertex(0)
			return h
		}),
		dense("AddVertex x2 then RemoveVertex x2 (first, last)", func(g *rg.G) graph.EditableGraph {
			h := graph.NewDense(g.N, g.EdgeBytes())
			all := make([]int, g.N)
			for i := range all {
				all[i] = i
			}
			h.AddVertex(all)
			h.AddVertex(all)
			h.RemoveVertex(g.N + 1)
			h.RemoveVertex(g.N)
			return h
		}),
		sparse("struct literal", func(g *rg.G) graph.EditableGraph { return g.Sparse() }),
		sparse("NewSparse(n,lists)", func(g *rg.G) graph.EditableGraph {
			return graph.NewSparse(g.N, messy(g, engine.NewRng(uint64(g.N)*977+uint64(g.M())), 2))
		}),
		sparse("NewSparse(n,nil)+AddEdge", func(g *rg.G) graph.EditableGraph { return edits(graph.NewSparse(g.N, nil), g) }),
		sparse("Sparse6Decode", func(g *rg.G) graph.EditableGraph {
			h, err := graph.Sparse6Decode(refSparse6(g))
			if err != nil {
				panic(err)
			}
			return h
		}),
		sparse("SparseGraph.Copy", func(g *rg.G) graph.EditableGraph { return g.Sparse().Copy() }),
		sparse("SparseGraph.InducedSubgraph", func(g *rg.G) graph.EditableGraph {
			sh, V := reversedInduced(g)
			return sh.Sparse().InducedSubgraph(V)
		}),
		sparse("RemoveVertex(0) of a supergraph", func(g *rg.G) graph.EditableGraph {
			h := superGraph(g, 1, true).Sparse()
			h.RemoveVertex(0)
			return h
		}),
	}
}

// chainStart is a start value of a chain: how to build it and what it is.
type chainStart struct {
	variant bool // see chainSource
	source  string
	repr    string
	id      string // concrete input (start graph / parameters)
	model   *rg.G
	build   func(key string) graph.EditableGraph // nil result: could not be built
}

// conforms builds the start value once and checks it against its model
// without reporting (sources are judged by the other workloads of C06 / by
// C05); a chain is only run from a conforming start value.
func (r *runner) conforms(st chainStart) bool {
	c := r.c
	key := "chain-start|" + st.repr + "|" + st.source + "|" + st.id
	h := st.build(key)
	if h == nil {
		c.Obs("chain_start_value_could_not_be_built:"+st.source, 1)
		return false
	}
	s, _, _ := observe(c, key, h)
	if s == nil {
		c.Obs("chain_start_value_not_conforming:"+st.source, 1)
		return false
	}
	if k, _, _ := s.judge(st.model); k != "" {
		c.Obs("chain_start_value_not_conforming:"+st.source, 1)
		return false
	}
	return true
}

func viewVerts(n int) []int {
	k := n
	if k > 3 {
		k = 3
	}
	V := make([]int, k)
	for i := range V {
		V[i] = k - 1 - i
	}
	return V
}

var chainLenObs = []string{"chains of length 0", "chains of length 1", "chains of length 2", "chains of length 3", "chains of length 4", "chains of length 5"}

// lazyDetail defers building the replay detail of a case until a violation is
// actually recorded (millions of chains are run, almost none is reported).
type lazyDetail func() interface{}

func (l lazyDetail) MarshalJSON() ([]byte, error) { return json.Marshal(l()) }

// which of the two live views a chain takes before it starts
const (
	viewsBoth = iota
	viewsComplement
	viewsInduced
)

// runChain applies ops to one start value.  everyStep: all observers of the
// value and of the two views taken before the chain are compared with the
// model after every step; otherwise only after the last step (used by the
// exhaustive enumeration, where every prefix is a chain of its own).
func (r *runner) runChain(st chainStart, ops []chainOp, everyStep bool, views int) bool {
	c := r.c
	os := opsString(ops)
	caseKey := fmt.Sprintf("chain|%s|%s|%s|%s", st.repr, st.source, st.id, os)
	judgedAfter := 0
	detail := lazyDetail(func() interface{} {
		return map[string]interface{}{"api": "chain of Contract / SplitEdge on one value", "representation": st.repr, "start_value_from": st.source, "start": st.id, "start_graph": brief(st.model), "ops": os, "judged_after_step": judgedAfter}
	})
	h := st.build(caseKey + "|build")
	if h == nil {
		return true
	}
	V := viewVerts(st.model.N)
	var cv, iv graph.Graph
	if pi := c.Call(caseKey+"|views", func() {
		if views != viewsInduced {
			cv = graph.Complement(h)
		}
		if views != viewsComplement {
			iv = graph.InducedSubgraph(h, append([]int{}, V...))
		}
	}); pi != nil {
		cv, iv = nil, nil
	}
	api := "chain|" + st.repr
	m := st.model
	c.Obs(chainLenObs[len(ops)], 1)
	if st.variant {
		c.Obs("chains from a start value in a representation variant or made from a free-form input|"+st.repr, 1)
	}
	for k, o := range ops {
		o := o
		removedNonLast := o.kind == 'c' && o.j < m.N-1
		pi := c.Call(caseKey, func() { applyLib(h, o) })
		if pi != nil {
			c.Eval(1)
			r.fail(api, "after-"+o.name()+":panic@"+engine.SiteNoLine(pi.Site), "", detail, pi.String(), "the operation returns")
			return false
		}
		m = applyModel(m, o)
		if removedNonLast && k+1 < len(ops) && ops[k+1].kind == 's' {
			c.Obs("chains with a vertex added right after a non-last vertex was removed", 1)
		}
		if !everyStep && k != len(ops)-1 {
			continue
		}
		judgedAfter = k + 1
		prefix := "after-" + o.name() + ":"
		if r.check(api, caseKey, "", prefix, detail, h, m) == nil {
			return false
		}
		if cv != nil {
			c.Obs("probe:chain: Complement view taken before the chain re-read after a step", 1)
			if r.check(api+"|Complement-view-taken-before", caseKey+"|complement view", "", prefix, detail, cv, m.Complement()) == nil {
				return false
			}
		}
		if iv != nil {
			if len(V) == 0 || V[0] < m.N { // V[0] is the largest vertex of V
				c.Obs("probe:chain: InducedSubgraph view taken before the chain re-read after a step", 1)
				if r.check(api+"|InducedSubgraph-view-taken-before", caseKey+"|induced view", "", prefix, detail, iv, m.Induced(V)) == nil {
					return false
				}
			} else {
				c.Obs("not_judged:chain: a vertex of the induced view no longer exists (unspecified)", 1)
			}
		}
	}
	return true
}

// lenPolicy says how the chains of one length are run: every stride-th chain
// of the enumeration (1 = all), each from nsrc start values taken in rotation
// (0 = from every start value).
type lenPolicy struct{ stride, nsrc int }

// enumerate walks every chain of length <= len(pol) from the start values and
// runs it according to the policy of its length (pol[0] = length 1).
func (r *runner) enumerate(starts []chainStart, pol []lenPolicy, counter *int) {
	c := r.c
	if len(starts) == 0 {
		return
	}
	r.exhaustive = true
	defer func() { r.exhaustive = false }()
	var ops []chainOp
	var rec func(m *rg.G)
	rec = func(m *rg.G) {
		if c.Stopped() {
			return
		}
		for _, o := range opsAt(m.N) {
			ops = append(ops, o)
			p := pol[len(ops)-1]
			*counter++
			switch {
			case *counter%p.stride != 0:
				c.Obs(chainSkipObs[len(ops)], 1)
			case p.nsrc == 0:
				// every base start value; the variant start values all (thorough) or one in rotation (quick)
				nv, turn := 0, 0
				for _, st := range starts {
					if st.variant {
						nv++
					}
				}
				if nv > 0 {
					turn = *counter / p.stride % nv
				}
				vi := 0
				for k, st := range starts {
					if st.variant {
						vi++
						if !c.Thorough() && vi-1 != turn {
							continue
						}
					}
					r.runChain(st, ops, false, 1+(*counter+k)%2)
				}
			default:
				for k := 0; k < p.nsrc; k++ {
					idx := *counter/p.stride*p.nsrc + k
					r.runChain(starts[idx%len(starts)], ops, false, 1+(idx/len(starts))%2)
				}
			}
			if len(ops) < len(pol) {
				rec(applyModel(m, o))
			}
			ops = ops[:len(ops)-1]
		}
	}
	rec(starts[0].model)
}

var chainSkipObs = []string{"", "chains of length 1 enumerated but not run in this tier", "chains of length 2 enumerated but not run in this tier", "chains of length 3 enumerated but not run in this tier"}

func (r *runner) startsFor(g *rg.G) []chainStart {
	var sts []chainStart
	id := gid(g)
	srcs := chainSources()
	nv, vi := 0, 0
	for _, src := range srcs {
		if src.variant {
			nv++
		}
	}
	first := int(contentHash(g) % uint64(nv))
	for _, src := range srcs {
		src := src
		if src.variant {
			vi++
			// quick: three of the variant kinds per start graph (which ones is a function of the graph)
			if !r.c.Thorough() && (vi-1-first+nv)%nv >= 3 {
				continue
			}
		}
		st := chainStart{variant: src.variant, source: src.name, repr: src.repr, id: id, model: g, build: func(key string) graph.EditableGraph { return src.build(r.c, key, g) }}
		if r.conforms(st) {
			sts = append(sts, st)
		}
	}
	return sts
}

// named generator / decoder / transformation values used as chain starts
type namedValue struct {
	name  string
	build func() graph.EditableGraph
}

func namedValues() []namedValue {
	var r []namedValue
	add := func(name string, f func() graph.EditableGraph) { r = append(r, namedValue{name, f}) }
	for n := 0; n <= 6; n++ {
		n := n
		add(fmt.Sprintf("CompleteGraph(%d)", n), func() graph.EditableGraph { return graph.CompleteGraph(n) })
		add(fmt.Sprintf("Path(%d)", n), func() graph.EditableGraph { return graph.Path(n) })
		add(fmt.Sprintf("Star(%d)", n), func() graph.EditableGraph { return graph.Star(n) })
		if n >= 3 {
			add(fmt.Sprintf("Cycle(%d)", n), func() graph.EditableGraph { return graph.Cycle(n) })
		}
	}
	add("NewDense(4,nil)", func() graph.EditableGraph { return graph.NewDense(4, nil) })
	add("NewSparse(4,nil)", func() graph.EditableGraph { return graph.NewSparse(4, nil) })
	add("CompletePartiteGraph(2,3)", func() graph.EditableGraph { return graph.CompletePartiteGraph(2, 3) })
	add("CompletePartiteGraph(1,2,2)", func() graph.EditableGraph { return graph.CompletePartiteGraph(1, 2, 2) })
	add("CompletePartiteGraph(0,3)", func() graph.EditableGraph { return graph.CompletePartiteGraph(0, 3) })
	add("RookGraph(2,2)", func() graph.EditableGraph { return graph.RookGraph(2, 2) })
	add("RookGraph(2,3)", func() graph.EditableGraph { return graph.RookGraph(2, 3) })
	add("FlowerSnark(3)", func() graph.EditableGraph { return graph.FlowerSnark(3) })
	add("HypercubeGraph(2)", func() graph.EditableGraph { return graph.HypercubeGraph(2) })
	add("HypercubeGraph(3)", func() graph.EditableGraph { return graph.HypercubeGraph(3) })
	add("FoldedHypercubeGraph(3)", func() graph.EditableGraph { return graph.FoldedHypercubeGraph(3) })
	add("FoldedHypercubeGraph(4)", func() graph.EditableGraph { return graph.FoldedHypercubeGraph(4) })
	add("KneserGraph(4,2)", func() graph.EditableGraph { return graph.KneserGraph(4, 2) })
	add("KneserGraph(5,2)", func() graph.EditableGraph { return graph.KneserGraph(5, 2) })
	add("BipartiteKneserGraph(3,1)", func() graph.EditableGraph { return graph.BipartiteKneserGraph(3, 1) })
	add("BipartiteKneserGraph(4,1)", func() graph.EditableGraph { return graph.BipartiteKneserGraph(4, 1) })
	add("CirculantGraph(6,1,3)", func() graph.EditableGraph { return graph.CirculantGraph(6, 1, 3) })
	add("CirculantGraph(7,1,2)", func() graph.EditableGraph { return graph.CirculantGraph(7, 1, 2) })
	add("CirculantBipartiteGraph(3,3,0,1)", func() graph.EditableGraph { return graph.CirculantBipartiteGraph(3, 3, 0, 1) })
	add("GeneralisedPetersenGraph(3,1)", func() graph.EditableGraph { return graph.GeneralisedPetersenGraph(3, 1) })
	add("GeneralisedPetersenGraph(4,1)", func() graph.EditableGraph { return graph.GeneralisedPetersenGraph(4, 1) })
	add("GeneralisedPetersenGraph(5,2)", func() graph.EditableGraph { return graph.GeneralisedPetersenGraph(5, 2) })
	add("FriendshipGraph(2)", func() graph.EditableGraph { return graph.FriendshipGraph(2) })
	add("FriendshipGraph(3)", func() graph.EditableGraph { return graph.FriendshipGraph(3) })
	add("RandomGraph(6,0.5,1)", func() graph.EditableGraph { return graph.RandomGraph(6, 0.5, 1) })
	add("RandomGraph(8,0.3,2)", func() graph.EditableGraph { return graph.RandomGraph(8, 0.3, 2) })
	add("RandomTree(6,1)", func() graph.EditableGraph { return graph.RandomTree(6, 1) })
	add("RandomTree(9,2)", func() graph.EditableGraph { return graph.RandomTree(9, 2) })
	add("PruferDecode([3,3,3,4])", func() graph.EditableGraph { return graph.PruferDecode([]int{3, 3, 3, 4}) })
	add("PruferDecode([0,0])", func() graph.EditableGraph { return graph.PruferDecode([]int{0, 0}) })
	add("LineGraphDense(CompleteGraph(4))", func() graph.EditableGraph { return graph.LineGraphDense(graph.CompleteGraph(4)) })
	add("LineGraphDense(Star(5))", func() graph.EditableGraph { return graph.LineGraphDense(graph.Star(5)) })
	add("ComplementDense(Cycle(5))", func() graph.EditableGraph { return graph.ComplementDense(graph.Cycle(5)) })
	add("Sparse6Decode(\":Fa@x^\")", func() graph.EditableGraph {
		h, err := graph.Sparse6Decode(":Fa@x^")
		if err != nil {
			panic(err)
		}
		return h
	})
	add("Graph6Decode(\"DQc\")", func() graph.EditableGraph {
		h, err := graph.Graph6Decode("DQc")
		if err != nil {
			panic(err)
		}
		return h
	})
	add("MulticodeDecode([4 2 3 0 3 0 0])", func() graph.EditableGraph { return graph.MulticodeDecode([]byte{4, 2, 3, 0, 3, 0, 0}) })
	return r
}

// namedStarts: the value itself, its Copy and its InducedSubgraph in reversed
// order.  The model of a named value is what it shows before the chain (it is
// judged for well-formedness here and against its definition by the family
// workload).
func (r *runner) namedStarts(nv namedValue) []chainStart {
	c := r.c
	direct := func(key string) graph.EditableGraph { return guarded(c, key, nv.build) }
	h := direct("chain-start|" + nv.name)
	if h == nil {
		c.Obs("chain_start_value_could_not_be_built:named", 1)
		return nil
	}
	s, _, _ := observe(c, "chain-start|"+nv.name, h)
	if s == nil {
		c.Obs("chain_start_value_not_conforming:named", 1)
		return nil
	}
	if k, _, _ := s.judge(nil); k != "" {
		c.Obs("chain_start_value_not_conforming:named", 1)
		return nil
	}
	g := s.graph()
	repr := "dense"
	if _, ok := h.(*graph.SparseGraph); ok {
		repr = "sparse"
	}
	n := g.N
	rev := make([]int, n)
	for i := range rev {
		rev[i] = n - 1 - i
	}
	cands := []chainStart{
		{source: "generator/decoder value", repr: repr, id: nv.name, model: g, build: direct},
		{source: "Copy of a generator/decoder value", repr: repr, id: nv.name, model: g, build: func(key string) graph.EditableGraph {
			return guarded(c, key, func() graph.EditableGraph { return nv.build().Copy() })
		}},
		{source: "InducedSubgraph(reversed) of a generator/decoder value", repr: repr, id: nv.name, model: g.Induced(rev), build: func(key string) graph.EditableGraph {
			return guarded(c, key, func() graph.EditableGraph { return nv.build().InducedSubgraph(rev) })
		}},
	}
	var sts []chainStart
	for _, st := range cands {
		if r.conforms(st) {
			sts = append(sts, st)
		}
	}
	return sts
}

// randomOps draws a chain; biased towards the patterns that reuse freed
// storage (Contract of a non-last vertex, then SplitEdge) and towards edges.
func randomOps(rnd *engine.Rng, m *rg.G, L int) []chainOp {
	var ops []chainOp
	for len(ops) < L {
		n := m.N
		var o chainOp
		split := rnd.Bool(0.5)
		if n < 2 {
			if n == 0 {
				break
			}
			split = false
		}
		if n > 14 {
			split = false
		}
		if split {
			i := rnd.Intn(n)
			j := (i + 1 + rnd.Intn(n-1)) % n
			if es := m.Edges(); len(es) > 0 && rnd.Bool(0.6) {
				e := es[rnd.Intn(len(es))]
				i, j = e[0], e[1]
				if rnd.Bool(0.5) {
					i, j = j, i
				}
			}
			o = chainOp{kind: 's', i: i, j: j}
		} else {
			i, j := rnd.Intn(n), rnd.Intn(n)
			if es := m.Edges(); len(es) > 0 && rnd.Bool(0.6) {
				e := es[rnd.Intn(len(es))]
				i, j = e[0], e[1]
				if rnd.Bool(0.5) {
					i, j = j, i
				}
			}
			o = chainOp{kind: 'c', i: i, j: j}
		}
		ops = append(ops, o)
		m = applyModel(m, o)
	}
	return ops
}

func chainUnits(c *engine.Ctx) []unit {
	var us []unit
	thorough := c.Thorough()
	// 1. all chains of length <= 3 over all labelled graphs n <= 4 (all vertex
	// pairs).  Thorough: n <= 3 every chain from every start value, n = 4 every
	// chain of length <= 2 from every start value and every chain of length 3
	// from three start values in rotation.  Quick: length 1 (n = 4) / <= 2
	// (n <= 3) from every start value, the longer ones from one start value in
	// rotation, and of the 1.8 M chains of length 3 on n = 4 every 4th.
	all := lenPolicy{1, 0}
	small := []lenPolicy{all, all, {1, 1}}
	four := []lenPolicy{all, {1, 1}, {4, 1}}
	if thorough {
		small = []lenPolicy{all, all, all}
		four = []lenPolicy{all, all, {1, 3}}
	}
	us = append(us, unit{"chains/labelled/n<=2", func(r *runner) {
		counter := 0
		for n := 0; n <= 2; n++ {
			gen.AllLabelled(n, 0, 1, func(mask uint64, g *rg.G) {
				r.enumerate(r.startsFor(g.Copy()), small, &counter)
			})
		}
	}})
	for mask := 0; mask < 8; mask++ {
		mask := mask
		us = append(us, unit{fmt.Sprintf("chains/labelled/n=3/%d", mask), func(r *runner) {
			counter := mask
			gen.AllLabelled(3, uint64(mask), 8, func(_ uint64, g *rg.G) {
				r.enumerate(r.startsFor(g.Copy()), small, &counter)
			})
			if mask == 0 {
				if thorough {
					r.c.Obs("exhaustive:all chains of <= 3 Contract / SplitEdge steps (all vertex pairs) on all labelled graphs n<=3, each from every start value", 1)
				} else {
					r.c.Obs("exhaustive:all chains of <= 3 Contract / SplitEdge steps (all vertex pairs) on all labelled graphs n<=3 (length <= 2 from every start value, length 3 from the start values in rotation)", 1)
				}
			}
		}})
	}
	for mask := 0; mask < 64; mask++ {
		mask := mask
		us = append(us, unit{fmt.Sprintf("chains/labelled/n=4/%d", mask), func(r *runner) {
			counter := mask
			gen.AllLabelled(4, uint64(mask), 64, func(_ uint64, g *rg.G) {
				r.enumerate(r.startsFor(g.Copy()), four, &counter)
			})
			if mask == 0 {
				if thorough {
					r.c.Obs("exhaustive:all chains of <= 3 Contract / SplitEdge steps (all vertex pairs) on all labelled graphs n=4 (length <= 2 from every start value, length 3 from three start values in rotation)", 1)
				} else {
					r.c.Obs("exhaustive:all chains of <= 2 Contract / SplitEdge steps (all vertex pairs) on all labelled graphs n=4 (length 1 from every start value, length 2 from the start values in rotation; plus every 4th chain of length 3)", 1)
				}
			}
		}})
	}
	// 2. named generator / decoder values (and their Copy / InducedSubgraph)
	for k, nv := range namedValues() {
		k, nv := k, nv
		us = append(us, unit{fmt.Sprintf("chains/named/%02d", k), func(r *runner) {
			sts := r.namedStarts(nv)
			if len(sts) == 0 {
				return
			}
			n := sts[0].model.N
			counter := k
			var pol []lenPolicy
			switch {
			case n <= 4 && thorough:
				pol = []lenPolicy{all, all, all}
			case n <= 4:
				pol = []lenPolicy{all, all, {3, 1}}
			case n <= 6 && thorough:
				pol = []lenPolicy{all, all, {8, 1}}
			case n <= 6:
				pol = []lenPolicy{all, {2, 1}}
			case thorough:
				pol = []lenPolicy{all, {1, 1}}
			default:
				pol = []lenPolicy{all}
			}
			r.enumerate(sts, pol, &counter)
			// seeded longer chains, judged after every step
			for i := 0; i < c.Pick(12, 120); i++ {
				rnd := c.Rand("chains-named", k*1000+i)
				st := sts[rnd.Intn(len(sts))]
				r.runChain(st, randomOps(rnd, st.model, 2+rnd.Intn(4)), true, viewsBoth)
			}
			r.c.Obs("chain start values: named generator / decoder values", 1)
		}})
	}
	// 3. seeded chains of length 2..5 on graphs up to 12 vertices, judged after every step
	ns := c.Pick(1600, 30000)
	per := 50
	for u := 0; u*per < ns; u++ {
		u := u
		us = append(us, unit{fmt.Sprintf("chains/seeded/%d", u), func(r *runner) {
			srcs := chainSources()
			for i := u * per; i < (u+1)*per && i < ns; i++ {
				if r.c.Stopped() {
					return
				}
				rnd := c.Rand("chains", i)
				n := 3 + rnd.Intn(10)
				var g *rg.G
				switch i % 4 {
				case 0:
					g = gen.Random(rnd, n, 0.5)
				case 1:
					g = gen.Random(rnd, n, 0.85)
				case 2:
					g = gen.RandomTree(rnd, n)
				default:
					g = gen.Random(rnd, n, rnd.Float())
				}
				src := srcs[rnd.Intn(len(srcs))]
				st := chainStart{variant: src.variant, source: src.name, repr: src.repr, id: gid(g), model: g, build: func(key string) graph.EditableGraph { return src.build(c, key, g) }}
				if !r.conforms(st) {
					continue
				}
				ops := randomOps(rnd, g, 2+rnd.Intn(4))
				if i < 2 {
					c.Sample("seeded chain", map[string]interface{}{"start": gid(g), "from": src.name, "representation": src.repr, "ops": opsString(ops)})
				}
				r.runChain(st, ops, true, viewsBoth)
			}
		}})
	}
	return us
}

// Demonstration for C11-7 (ConnectedComponents walks neighbourhoods instead of probing IsEdge).
//
// Run (from the root of the library; public API only):
//
//	cp /tmp/green-out/C11/7/demo_test.go graph/zz_c11_7_demo_test.go
//	GOFLAGS=-mod=mod GOPROXY=off GOSUMDB=off GOTOOLCHAIN=local \
//	    go test -vet=off -count=1 -timeout 300s -run 'TestC11x7' -v ./graph/
//	rm graph/zz_c11_7_demo_test.go
//
// TestC11x7Property  passes on the clean tree AND with the change (the property itself).
// TestC11x7Incidental asserts the OLD incidental behaviour: passes on the clean tree, FAILS with the change.
package graph_test

import (
	"fmt"
	"testing"

	"github.com/Tom-Johnston/mamba/graph"
	"github.com/Tom-Johnston/mamba/sortints"
)

// c117Graph is a caller-implemented graph.Graph (sorted adjacency lists, copies handed out) that counts calls.
type c117Graph struct {
	adj        [][]int
	isEdge     int
	neighbours int
}

func (g *c117Graph) N() int { return len(g.adj) }
func (g *c117Graph) M() int {
	m := 0
	for _, a := range g.adj {
		m += len(a)
	}
	return m / 2
}
func (g *c117Graph) IsEdge(i, j int) bool {
	g.isEdge++
	for _, w := range g.adj[i] {
		if w == j {
			return true
		}
	}
	return false
}
func (g *c117Graph) Neighbours(v int) []int {
	g.neighbours++
	return append([]int(nil), g.adj[v]...)
}
func (g *c117Graph) Degrees() []int {
	d := make([]int, len(g.adj))
	for i, a := range g.adj {
		d[i] = len(a)
	}
	return d
}

func c117FromEdges(n int, edges [][2]int) *c117Graph {
	nb := make([]sortints.SortedInts, n)
	for _, e := range edges {
		nb[e[0]].Add(e[1])
		nb[e[1]].Add(e[0])
	}
	g := &c117Graph{adj: make([][]int, n)}
	for i := range nb {
		g.adj[i] = []int(nb[i])
	}
	return g
}

// triangular k x k grid (a planar triangulation of a square) on vertices off..off+k*k-1
func c117Grid(k, off int) [][2]int {
	var e [][2]int
	for i := 0; i < k; i++ {
		for j := 0; j < k; j++ {
			v := off + i*k + j
			if j+1 < k {
				e = append(e, [2]int{v, v + 1})
			}
			if i+1 < k {
				e = append(e, [2]int{v, v + k})
			}
			if i+1 < k && j+1 < k {
				e = append(e, [2]int{v, v + k + 1})
			}
		}
	}
	return e
}

// K3,3 with every edge subdivided once, on vertices off..off+14
func c117SubdividedK33(off int) [][2]int {
	var e [][2]int
	next := off + 6
	for a := 0; a < 3; a++ {
		for b := 3; b < 6; b++ {
			e = append(e, [2]int{off + a, next}, [2]int{next, off + b})
			next++
		}
	}
	return e
}

type c117Case struct {
	name   string
	g      *c117Graph
	planar bool
}

func c117Cases() []c117Case {
	// 1: a 6x6 triangular grid, 2 isolated vertices, a pendant path: planar, several components.
	e1 := c117Grid(6, 0)
	e1 = append(e1, [2]int{5, 36}, [2]int{36, 37}) // 36,37 pendant path at 5; 38,39 isolated
	// 2: the grid and, in ANOTHER component, a subdivided K3,3: not planar.
	e2 := append(c117Grid(6, 0), c117SubdividedK33(36)...)
	// 3: the subdivided K3,3 glued to the grid at a cut vertex, plus an isolated vertex: not planar.
	e3 := append(c117Grid(6, 0), c117SubdividedK33(36)...)
	e3 = append(e3, [2]int{35, 36})
	// 4: two disjoint grids: planar.
	e4 := append(c117Grid(5, 0), c117Grid(5, 25)...)
	return []c117Case{
		{"grid+isolated+pendant", c117FromEdges(40, e1), true},
		{"grid | subdivided K33", c117FromEdges(51, e2), false},
		{"grid - subdivided K33 + isolated", c117FromEdges(52, e3), false},
		{"two grids", c117FromEdges(50, e4), true},
	}
}

// The property: IsPlanar terminates without panicking and gives the right answer, for the caller-implemented type and
// for the library's own sparse and dense types built from the same adjacency lists.
func TestC11x7Property(t *testing.T) {
	for _, c := range c117Cases() {
		if got := graph.IsPlanar(c.g); got != c.planar {
			t.Errorf("%s (user graph): IsPlanar = %v, want %v", c.name, got, c.planar)
		}
		nb := make([]sortints.SortedInts, c.g.N())
		d := graph.NewDense(c.g.N(), nil)
		for v, a := range c.g.adj {
			nb[v] = append(sortints.SortedInts(nil), a...)
			for _, w := range a {
				d.AddEdge(v, w)
			}
		}
		if got := graph.IsPlanar(graph.NewSparse(c.g.N(), nb)); got != c.planar {
			t.Errorf("%s (sparse): IsPlanar = %v, want %v", c.name, got, c.planar)
		}
		if got := graph.IsPlanar(d); got != c.planar {
			t.Errorf("%s (dense): IsPlanar = %v, want %v", c.name, got, c.planar)
		}
	}
}

// The incidental behaviour of the clean tree: IsPlanar (through ConnectedComponents) probes IsEdge on the caller's
// graph, quadratically often, and ConnectedComponents lists the component of the LAST vertex first.
func TestC11x7Incidental(t *testing.T) {
	for _, c := range c117Cases() {
		c.g.isEdge, c.g.neighbours = 0, 0
		graph.IsPlanar(c.g)
		fmt.Printf("%-34s IsEdge calls %5d  Neighbours calls %5d\n", c.name, c.g.isEdge, c.g.neighbours)
		if c.g.isEdge == 0 {
			t.Errorf("%s: IsPlanar made no IsEdge call on the caller's graph (the clean tree makes hundreds)", c.name)
		}
	}
	g := c117Cases()[0].g
	comps := graph.ConnectedComponents(g)
	fmt.Println("first component listed:", comps[0][:1], "... of", len(comps), "components")
	if len(comps) != 3 {
		t.Fatalf("want 3 components, got %d", len(comps)) // holds on both trees
	}
	if comps[0][len(comps[0])-1] != g.N()-1 {
		t.Errorf("ConnectedComponents no longer starts with the component of the last vertex: %v", comps[0])
	}
}

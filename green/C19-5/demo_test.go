// C19 harmless change 5: dawg.Builder.Finish marks the builder as finished (the field `done` existed but was never
// set) and lets go of the dawg, so Add or Finish after Finish return the error the documentation always promised
// ("finish can only be called once", "words cannot be added to a builder that has already finished") instead of
// silently going on to modify the dawg that has already been handed out. Everything inside the documented domain
// (Add in order, one Finish, Initialise to start again, queries on the finished dawg) is unchanged.
//
// Run (from the root of the library worktree):
//
//	export GOFLAGS=-mod=mod GOPROXY=off GOSUMDB=off GOTOOLCHAIN=local
//	cp /tmp/green-out/C19/5/demo_test.go dawg/zz_c19_demo_test.go
//	go test -race -vet=off -count=1 -timeout 600s -run 'TestC19' -v ./dawg/
//	rm dawg/zz_c19_demo_test.go
//
// Clean tree:   TestC19Property PASS (no race report), TestC19IncidentalBuilderAfterFinish PASS.
// With patch 5: TestC19Property PASS (no race report), TestC19IncidentalBuilderAfterFinish FAIL
//
//	(Add after Finish: err = "DawgBuilder has already finished", the finished dawg keeps its 3 words; second Finish: nil dawg and the same error).
package dawg_test

import (
	"fmt"
	"reflect"
	"sync"
	"testing"

	"github.com/Tom-Johnston/mamba/dawg"
)

// c19Words returns a sorted list of distinct words which depends on the seed.
func c19Words(seed int) [][]byte {
	var words [][]byte
	for a := byte('a'); a <= 'h'; a++ {
		for b := byte('a'); b <= 'h'; b++ {
			if (int(a)*7+int(b)*3+seed)%3 == 0 {
				continue
			}
			words = append(words, []byte{a, b})
			if (int(a)+int(b)+seed)%2 == 0 {
				words = append(words, []byte{a, b, 'i', 'n', 'g'})
				words = append(words, []byte{a, b, 's'})
			}
		}
	}
	return words
}

// c19Build builds a dawg with its own builder (documented use only), and describes everything a reader can see of it.
func c19Build(seed int) (*dawg.Dawg, string) {
	words := c19Words(seed)
	var db dawg.Builder
	for _, w := range words {
		if err := db.Add(w); err != nil {
			panic(err)
		}
	}
	d, err := db.Finish()
	if err != nil {
		panic(err)
	}
	return d, c19Describe(d, words)
}

func c19Describe(d *dawg.Dawg, words [][]byte) string {
	s := fmt.Sprint(d.NumberOfWords())
	for _, w := range words {
		i, ok := d.Lookup(w)
		s += fmt.Sprint(" ", string(w), i, ok)
	}
	_, ok := d.Lookup([]byte("zz"))
	s += fmt.Sprint(" zz", ok)
	solns, ids := d.Search(dawg.NewPatternSearcher([]byte("a_s"), '_'))
	s += fmt.Sprint(" ", solns, ids)
	enc, err := d.GobEncode()
	s += fmt.Sprint(" ", enc, err)
	return s
}

// The property on these inputs: separate builders in separate goroutines, and readers sharing one finished dawg, all
// get what they get alone.
func TestC19Property(t *testing.T) {
	const G = 8
	alone := make([]string, G)
	for i := range alone {
		_, alone[i] = c19Build(i)
	}
	shared, sharedAlone := c19Build(100)
	sharedWords := c19Words(100)

	got := make([]string, G)
	gotShared := make([]string, G)
	var wg sync.WaitGroup
	for i := 0; i < G; i++ {
		wg.Add(1)
		go func(i int) {
			defer wg.Done()
			for rep := 0; rep < 5; rep++ {
				_, got[i] = c19Build(i)
				gotShared[i] = c19Describe(shared, sharedWords)
			}
		}(i)
	}
	wg.Wait()
	for i := 0; i < G; i++ {
		if got[i] != alone[i] {
			t.Errorf("builder %v: concurrent result differs from the result alone", i)
		}
		if gotShared[i] != sharedAlone {
			t.Errorf("reader %v: concurrent result on the shared dawg differs from the result alone", i)
		}
	}
}

// The incidental behaviour, outside the documented domain: on the clean tree a builder goes on working after Finish.
func TestC19IncidentalBuilderAfterFinish(t *testing.T) {
	var db dawg.Builder
	for _, w := range []string{"ab", "abc", "b"} {
		if err := db.Add([]byte(w)); err != nil {
			t.Fatal(err)
		}
	}
	d, err := db.Finish()
	if err != nil || d.NumberOfWords() != 3 {
		t.Fatal("documented use failed", d, err)
	}
	err = db.Add([]byte("c"))
	_, found := d.Lookup([]byte("c"))
	t.Logf("Add after Finish: err = %v; finished dawg now has %v words, contains \"c\": %v", err, d.NumberOfWords(), found)
	if err != nil || d.NumberOfWords() != 4 || !found {
		t.Errorf("OLD behaviour was: Add after Finish succeeds and changes the dawg which has been handed out (4 words)")
	}
	d2, err2 := db.Finish()
	t.Logf("second Finish: same dawg = %v, err = %v", d2 == d, err2)
	if err2 != nil || d2 != d {
		t.Errorf("OLD behaviour was: a second Finish returns the same dawg again and no error")
	}

	//Inside the domain on both trees: Initialise makes the builder usable again and the first dawg is not affected by the new one.
	before, _ := d.GobEncode()
	db.Initialise()
	if err := db.Add([]byte("x")); err != nil {
		t.Fatal("Add after Initialise must work", err)
	}
	d3, err := db.Finish()
	if err != nil || d3.NumberOfWords() != 1 {
		t.Fatal("Finish after Initialise must work", err)
	}
	after, _ := d.GobEncode()
	if !reflect.DeepEqual(before, after) {
		t.Fatal("a dawg built after Initialise changed the earlier dawg")
	}
}

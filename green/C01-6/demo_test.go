// Demonstration for C01, change 6 (CanonicalIsomorphAllocated checks up front that the partition and the storage it is
// given exist and are large enough for n vertices and m edges, and panics with a descriptive string instead of running
// into a runtime error when it slices the storage).
//
// Run (from the root of the library, public API only):
//
//	export GOFLAGS=-mod=mod GOPROXY=off GOSUMDB=off GOTOOLCHAIN=local
//	cp demo_test.go graph/zz_demo_test.go
//	go test -vet=off -count=1 -timeout 300s -run 'TestDemo' -v ./graph/
//	rm graph/zz_demo_test.go
//
// TestDemoProperty checks the property itself: CanonicalIsomorph returns a permutation, the canonical graph is the same
// for EVERY relabelling of every graph with at most 5 vertices, for all 40320 relabellings of G|WW}K and GhcqSK, for
// random relabellings of larger symmetric graphs, dense and sparse, and the number of distinct canonical graphs is the
// number of isomorphism classes.  It passes before and after the change.
// TestDemoIncidental calls CanonicalIsomorphAllocated OUTSIDE its contract (storage made for 3 vertices used for the
// path with 5 vertices; storage with room for 2 edges used for 4 edges; a zero CanonicalStorage; a nil storage) and
// asserts what the CLEAN tree happens to panic with: a runtime.Error ("slice bounds out of range ..." / nil pointer
// dereference).  With the change the panic value is a plain string ("the storage is too small for graphs with 5
// vertices (cap: 3)", ...).  On both trees the call is refused, the partition is left untouched and can be used with a
// proper storage straight afterwards, which gives the permutation of CanonicalIsomorph (checked on both trees).
// It passes on the clean tree and fails with the change.
package graph_test

import (
	"fmt"
	"math/rand"
	"runtime"
	"strings"
	"testing"

	"github.com/Tom-Johnston/mamba/graph"
	"github.com/Tom-Johnston/mamba/sortints"
)

func d6IsPerm(p []int, n int) bool {
	if len(p) != n {
		return false
	}
	seen := make([]bool, n)
	for _, v := range p {
		if v < 0 || v >= n || seen[v] {
			return false
		}
		seen[v] = true
	}
	return true
}

func d6Sparse(g graph.Graph) *graph.SparseGraph {
	n := g.N()
	nb := make([]sortints.SortedInts, n)
	for i := 0; i < n; i++ {
		nb[i] = append(sortints.SortedInts{}, g.Neighbours(i)...)
	}
	return graph.NewSparse(n, nb)
}

func d6Canon(t *testing.T, g graph.EditableGraph) string {
	p := graph.CanonicalIsomorph(g)
	if !d6IsPerm(p, g.N()) {
		t.Fatalf("not a permutation: %v for %v", p, graph.Graph6Encode(g))
	}
	return graph.Graph6Encode(g.InducedSubgraph(p))
}

func d6Perms(n int, f func([]int)) {
	a := make([]int, n)
	for i := range a {
		a[i] = i
	}
	var rec func(k int)
	rec = func(k int) {
		if k == n {
			f(a)
			return
		}
		for i := k; i < n; i++ {
			a[k], a[i] = a[i], a[k]
			rec(k + 1)
			a[k], a[i] = a[i], a[k]
		}
	}
	rec(0)
}

func TestDemoProperty(t *testing.T) {
	classes := []int{1, 1, 2, 4, 11, 34}
	for n := 0; n <= 5; n++ {
		N := n * (n - 1) / 2
		set := map[string]bool{}
		for mask := 0; mask < 1<<uint(N); mask++ {
			edges := make([]byte, N)
			for j := range edges {
				edges[j] = byte(mask >> uint(j) & 1)
			}
			g := graph.NewDense(n, edges)
			c := d6Canon(t, g)
			set[c] = true
			if cs := d6Canon(t, d6Sparse(g)); cs != c {
				t.Fatalf("sparse and dense differ for %v", graph.Graph6Encode(g))
			}
			d6Perms(n, func(pi []int) {
				if c2 := d6Canon(t, g.InducedSubgraph(pi)); c2 != c {
					t.Fatalf("%v relabelled by %v: %v, want %v", graph.Graph6Encode(g), pi, c2, c)
				}
			})
		}
		if len(set) != classes[n] {
			t.Fatalf("n=%v: %v canonical graphs, want %v", n, len(set), classes[n])
		}
	}
	for _, s := range []string{"G|WW}K", "GhcqSK"} {
		g, err := graph.Graph6Decode(s)
		if err != nil {
			t.Fatal(err)
		}
		c := d6Canon(t, g)
		k := 0
		d6Perms(8, func(pi []int) {
			h := g.InducedSubgraph(pi)
			if c2 := d6Canon(t, h); c2 != c {
				t.Fatalf("%v relabelled by %v: %v, want %v", s, pi, c2, c)
			}
			if k%64 == 0 {
				if c2 := d6Canon(t, d6Sparse(h)); c2 != c {
					t.Fatalf("%v (sparse) relabelled by %v: %v, want %v", s, pi, c2, c)
				}
			}
			k++
		})
	}
	rng := rand.New(rand.NewSource(5))
	big := []graph.EditableGraph{graph.KneserGraph(5, 2), graph.HypercubeGraph(4), graph.RookGraph(4, 4), graph.Cycle(12), graph.CompleteGraph(9), graph.NewDense(7, nil), graph.CirculantGraph(13, 1, 3, 4), graph.RandomGraph(20, 0.4, 7), graph.RandomTree(25, 3)}
	seen := map[string]int{}
	for i, g := range big {
		c := d6Canon(t, g)
		if j, ok := seen[c]; ok {
			t.Fatalf("graphs %v and %v share a canonical graph", i, j)
		}
		seen[c] = i
		for r := 0; r < 200; r++ {
			h := g.InducedSubgraph(rng.Perm(g.N()))
			if r%2 == 1 {
				h = d6Sparse(h)
			}
			if c2 := d6Canon(t, h); c2 != c {
				t.Fatalf("graph %v: a relabelling has another canonical graph", i)
			}
		}
	}
}

func d6Refused(f func()) (r interface{}) {
	defer func() { r = recover() }()
	f()
	return nil
}

func TestDemoIncidental(t *testing.T) {
	g := graph.Path(5)
	nb := make([][]int, 5)
	for i := range nb {
		nb[i] = g.Neighbours(i)
	}
	want := fmt.Sprint(graph.CanonicalIsomorph(g))
	cases := []struct {
		name string
		st   *graph.CanonicalStorage
	}{
		{"storage for 3 vertices", graph.NewStorage(3, 10)},
		{"storage for 2 edges", graph.NewStorage(5, 2)},
		{"zero storage", new(graph.CanonicalStorage)},
		{"nil storage", nil},
	}
	for _, c := range cases {
		op := graph.NewOrderedPartition(5, 4, nil)
		r := d6Refused(func() {
			graph.CanonicalIsomorphAllocated(5, 4, nb, op, c.st, new(graph.CanonicalOptions))
		})
		if r == nil {
			t.Fatalf("%v: the call was not refused", c.name)
		}
		t.Logf("%v: panic value %T: %v", c.name, r, r)
		if re, ok := r.(runtime.Error); !ok {
			t.Errorf("%v: the clean tree panics with a runtime.Error, got %T: %v", c.name, r, r)
		} else if c.st != nil && !strings.Contains(re.Error(), "slice bounds out of range") {
			t.Errorf("%v: the clean tree panics with 'slice bounds out of range', got %v", c.name, re)
		}
		//The partition was not touched by the refused call: use it with a proper storage (holds on both trees).
		p, _, _ := graph.CanonicalIsomorphAllocated(5, 4, nb, op, graph.NewStorage(5, 4), new(graph.CanonicalOptions))
		if fmt.Sprint(p) != want || !d6IsPerm(p, 5) {
			t.Fatalf("%v: after the refused call the partition gives %v, want %v", c.name, p, want)
		}
	}
}

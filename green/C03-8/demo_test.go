// Demonstration for C03 change 8 (GraphIterator.Save collects the gob encoding in a bufio.Writer and hands it to the
// caller's io.Writer at the end, instead of letting the gob encoder write to it directly with one Write per type
// description plus one for the value).
//
// Copy to graph/search/demo_test.go in the library and run from the repository root:
//
//	GOFLAGS=-mod=mod GOPROXY=off GOSUMDB=off GOTOOLCHAIN=local \
//	  go test -vet=off -count=1 -timeout 600s -run 'TestDemo' -v ./graph/search/
//
// TestDemoProperty checks the property C03 itself (brute force isomorphism keys, n <= 7, several m, All and
// WithPruning with two hereditary predicates placed as preprune and as prune, well-formedness of every value) and
// passes on both trees.  TestDemoPropertyResume checks it for shards that are saved (into a writer that records
// the individual writes) and loaded again in the middle of the search.
// TestDemoIncidentalWrites pins the OLD write pattern of Save: five writes (83, 94, 20, 21 and 73 bytes for the
// state after 100 graphs of All(7,0,1)), and a writer that accepts only its first write makes Save panic after having
// received a prefix of the state.  It passes on the clean tree and fails with the change (one write of 291 bytes, no
// panic for that writer).
package search_test

import (
	"bytes"
	"errors"
	"fmt"
	"reflect"
	"testing"

	"github.com/Tom-Johnston/mamba/graph"
	"github.com/Tom-Johnston/mamba/graph/search"
)

// numClasses[n] is the number of graphs on n vertices up to isomorphism (OEIS A000088).
var numClasses = []int{1, 1, 2, 4, 11, 34, 156, 1044}

func demoPerms(n int) [][]int {
	var out [][]int
	p := make([]int, n)
	for i := range p {
		p[i] = i
	}
	var rec func(k int)
	rec = func(k int) {
		if k == n {
			out = append(out, append([]int(nil), p...))
			return
		}
		for i := k; i < n; i++ {
			p[k], p[i] = p[i], p[k]
			rec(k + 1)
			p[k], p[i] = p[i], p[k]
		}
	}
	rec(0)
	return out
}

var demoPermCache = map[int][][]int{}

// demoKey is a brute force complete isomorphism invariant: the smallest adjacency bit mask over all relabellings.
func demoKey(g *graph.DenseGraph) uint32 {
	n := g.N()
	perms, ok := demoPermCache[n]
	if !ok {
		perms = demoPerms(n)
		demoPermCache[n] = perms
	}
	type pair struct{ i, j int }
	var edges []pair
	for j := 0; j < n; j++ {
		for i := 0; i < j; i++ {
			if g.IsEdge(i, j) {
				edges = append(edges, pair{i, j})
			}
		}
	}
	best := ^uint32(0)
	for _, p := range perms {
		x := uint32(0)
		for _, e := range edges {
			a, b := p[e.i], p[e.j]
			if a > b {
				a, b = b, a
			}
			x |= 1 << uint((b*(b-1))/2+a)
		}
		if x < best {
			best = x
		}
	}
	return best
}

// demoWellFormed checks that g is a consistent DenseGraph on n vertices.
func demoWellFormed(g *graph.DenseGraph, n int) error {
	if g.NumberOfVertices != n || g.N() != n {
		return fmt.Errorf("NumberOfVertices = %d, want %d", g.NumberOfVertices, n)
	}
	if len(g.Edges) != n*(n-1)/2 {
		return fmt.Errorf("len(Edges) = %d, want %d", len(g.Edges), n*(n-1)/2)
	}
	if len(g.DegreeSequence) != n {
		return fmt.Errorf("len(DegreeSequence) = %d, want %d", len(g.DegreeSequence), n)
	}
	deg := make([]int, n)
	m := 0
	for j := 0; j < n; j++ {
		for i := 0; i < j; i++ {
			if g.Edges[(j*(j-1))/2+i] != 0 {
				if !g.IsEdge(i, j) || !g.IsEdge(j, i) {
					return fmt.Errorf("IsEdge disagrees with Edges at %d,%d", i, j)
				}
				deg[i]++
				deg[j]++
				m++
			} else if g.IsEdge(i, j) || g.IsEdge(j, i) {
				return fmt.Errorf("IsEdge disagrees with Edges at %d,%d", i, j)
			}
		}
	}
	if m != g.NumberOfEdges || m != g.M() {
		return fmt.Errorf("NumberOfEdges = %d, want %d", g.NumberOfEdges, m)
	}
	if n > 0 && !reflect.DeepEqual(deg, g.DegreeSequence) {
		return fmt.Errorf("DegreeSequence = %v, want %v", g.DegreeSequence, deg)
	}
	return nil
}

// demoCollect runs all m shards and returns key -> number of times a graph of that class was yielded.
func demoCollect(t *testing.T, n, m int, mk func(a int) *search.GraphIterator) map[uint32]int {
	seen := map[uint32]int{}
	for a := 0; a < m; a++ {
		it := mk(a)
		for it.Next() {
			g := it.Value()
			if err := demoWellFormed(g, n); err != nil {
				t.Fatalf("n=%d a=%d m=%d: malformed graph: %v", n, a, m, err)
			}
			seen[demoKey(g)]++
		}
	}
	return seen
}

func hasTriangle(g *graph.DenseGraph) bool {
	n := g.N()
	for i := 0; i < n; i++ {
		for j := i + 1; j < n; j++ {
			if !g.IsEdge(i, j) {
				continue
			}
			for k := j + 1; k < n; k++ {
				if g.IsEdge(i, k) && g.IsEdge(j, k) {
					return true
				}
			}
		}
	}
	return false
}

func maxDegreeAbove2(g *graph.DenseGraph) bool {
	for _, d := range g.Degrees() {
		if d > 2 {
			return true
		}
	}
	return false
}

func never(g *graph.DenseGraph) bool { return false }

// demoClassesSatisfying enumerates every labelled graph on n vertices to compute, independently of the
// library's search, the set of classes which are not pruned by the predicate.
func demoClassesSatisfying(n int, pruned func(*graph.DenseGraph) bool) map[uint32]bool {
	out := map[uint32]bool{}
	e := n * (n - 1) / 2
	for mask := 0; mask < 1<<uint(e); mask++ {
		g := graph.NewDense(n, nil)
		for j := 0; j < n; j++ {
			for i := 0; i < j; i++ {
				if mask>>uint((j*(j-1))/2+i)&1 == 1 {
					g.AddEdge(i, j)
				}
			}
		}
		if !pruned(g) {
			out[demoKey(g)] = true
		}
	}
	return out
}

func TestDemoProperty(t *testing.T) {
	preds := map[string]func(*graph.DenseGraph) bool{"triangle": hasTriangle, "maxdeg>2": maxDegreeAbove2}
	for n := 0; n <= 7; n++ {
		ms := []int{1, 2, 3, 4, 7}
		if n == 7 {
			ms = []int{1, 2, 3}
		}
		// The classes which do NOT get pruned, per predicate. For n <= 6 computed without the library's search (all
		// labelled graphs), for n = 7 from the unpruned m = 1 run (which is itself checked against the class count).
		want := map[string]map[uint32]bool{}
		if n <= 6 {
			all := demoClassesSatisfying(n, never)
			if len(all) != numClasses[n] {
				t.Fatalf("demo brute force is wrong: n=%d %d classes", n, len(all))
			}
			for name, pred := range preds {
				want[name] = demoClassesSatisfying(n, pred)
			}
		}
		for _, m := range ms {
			seen := demoCollect(t, n, m, func(a int) *search.GraphIterator { return search.All(n, a, m) })
			if len(seen) != numClasses[n] {
				t.Fatalf("All n=%d m=%d: %d classes, want %d", n, m, len(seen), numClasses[n])
			}
			for k, c := range seen {
				if c != 1 {
					t.Fatalf("All n=%d m=%d: class %x yielded %d times", n, m, k, c)
				}
			}
			if m == 1 && n > 6 {
				for name, pred := range preds {
					want[name] = map[uint32]bool{}
					it := search.All(n, 0, 1)
					for it.Next() {
						if !pred(it.Value()) {
							want[name][demoKey(it.Value())] = true
						}
					}
				}
			}
			for name, pred := range preds {
				for _, place := range []string{"preprune", "prune"} {
					pred, place := pred, place
					seen := demoCollect(t, n, m, func(a int) *search.GraphIterator {
						if place == "preprune" {
							return search.WithPruning(n, a, m, pred, never)
						}
						return search.WithPruning(n, a, m, never, pred)
					})
					if len(seen) != len(want[name]) {
						t.Fatalf("WithPruning %s as %s n=%d m=%d: %d classes, want %d", name, place, n, m, len(seen), len(want[name]))
					}
					for k, c := range seen {
						if c != 1 || !want[name][k] {
							t.Fatalf("WithPruning %s as %s n=%d m=%d: class %x yielded %d times, wanted=%v", name, place, n, m, k, c, want[name][k])
						}
					}
				}
			}
		}
	}
}

// writeLog records the size of every Write and can refuse all writes after the first maxWrites (0 = no limit).
type writeLog struct {
	buf       bytes.Buffer
	sizes     []int
	maxWrites int
}

var errFull = errors.New("demo: writer is full")

func (w *writeLog) Write(p []byte) (int, error) {
	if w.maxWrites > 0 && len(w.sizes) >= w.maxWrites {
		return 0, errFull
	}
	w.sizes = append(w.sizes, len(p))
	return w.buf.Write(p)
}

func TestDemoPropertyResume(t *testing.T) {
	const n, m = 6, 3
	for _, stopAfter := range []int{0, 1, 5, 17} {
		seen := map[uint32]int{}
		for a := 0; a < m; a++ {
			it := search.All(n, a, m)
			for k := 0; k < stopAfter && it.Next(); k++ {
				seen[demoKey(it.Value())]++
			}
			w := new(writeLog)
			it.Save(w)
			it = search.Load(&w.buf, never, never)
			for it.Next() {
				if err := demoWellFormed(it.Value(), n); err != nil {
					t.Fatal(err)
				}
				seen[demoKey(it.Value())]++
			}
		}
		if len(seen) != numClasses[n] {
			t.Fatalf("resume after %d: %d classes, want %d", stopAfter, len(seen), numClasses[n])
		}
		for k, c := range seen {
			if c != 1 {
				t.Fatalf("resume after %d: class %x yielded %d times", stopAfter, k, c)
			}
		}
	}
}

func TestDemoIncidentalWrites(t *testing.T) {
	it := search.All(7, 0, 1)
	for i := 0; i < 100; i++ {
		it.Next()
	}
	w := new(writeLog)
	it.Save(w)
	t.Logf("Save issued %d writes of sizes %v, %d bytes in total", len(w.sizes), w.sizes, w.buf.Len())
	if w.buf.Len() != 291 {
		t.Errorf("BOTH trees: the saved state has 291 bytes, got %d", w.buf.Len())
	}
	if !reflect.DeepEqual(w.sizes, []int{83, 94, 20, 21, 73}) {
		t.Errorf("old behaviour: writes of 83, 94, 20, 21, 73 bytes; got %v", w.sizes)
	}
	// The same bytes continue the search correctly on both trees.
	rest := 0
	for l := search.Load(&w.buf, never, never); l.Next(); {
		rest++
	}
	if rest != 944 {
		t.Errorf("BOTH trees: 944 graphs remain after loading, got %d", rest)
	}

	// A writer that takes one write only.
	lim := &writeLog{maxWrites: 1}
	var panicked interface{}
	func() {
		defer func() { panicked = recover() }()
		it.Save(lim)
	}()
	t.Logf("writer that accepts one write: panic value %v, received %d bytes", panicked, lim.buf.Len())
	if panicked != errFull || lim.buf.Len() != 83 {
		t.Errorf("old behaviour: Save panics with the writer's error after the writer has received the first 83 bytes; got panic %v, %d bytes", panicked, lim.buf.Len())
	}
}

package refdawg

import (
	"bytes"
	"fmt"
)

// Rand is the randomness the generators need (satisfied by *engine.Rng).
type Rand interface {
	Intn(n int) int
	Float() float64
}

// Universe returns all words of length <= maxLen over the alphabet, sorted.
func Universe(alphabet []byte, maxLen int) [][]byte {
	var out [][]byte
	var rec func(cur []byte)
	rec = func(cur []byte) {
		out = append(out, append([]byte{}, cur...))
		if len(cur) == maxLen {
			return
		}
		for _, b := range alphabet {
			rec(append(cur, b))
		}
	}
	rec(nil)
	return FromWords(out).Words
}

// Alphabet draws an alphabet of the given size: contiguous from a random
// base, or scattered over the whole byte range; the bytes 0x00 and 0xFF, the
// ASCII letters and bytes >= 0x80 (which are not valid UTF-8 on their own) all
// get their chance.
func Alphabet(r Rand, size int) []byte {
	if size >= 256 {
		size = 256
	}
	a := make([]byte, 0, size)
	switch r.Intn(4) {
	case 0: // contiguous from 'a' (wraps)
		for i := 0; i < size; i++ {
			a = append(a, byte('a'+i))
		}
	case 1: // contiguous from a random base
		base := r.Intn(256)
		for i := 0; i < size; i++ {
			a = append(a, byte(base+i))
		}
	case 2: // contiguous from 0
		for i := 0; i < size; i++ {
			a = append(a, byte(i))
		}
	default: // scattered
		perm := make([]int, 256)
		for i := range perm {
			perm[i] = i
		}
		for i := 255; i > 0; i-- {
			j := r.Intn(i + 1)
			perm[i], perm[j] = perm[j], perm[i]
		}
		for i := 0; i < size; i++ {
			a = append(a, byte(perm[i]))
		}
	}
	return a
}

// AlphabetSize draws a size in 1..256 skewed to small alphabets (where
// sharing is dense) but reaching the wide ones regularly.
func AlphabetSize(r Rand) int {
	switch x := r.Intn(20); {
	case x < 9:
		return 1 + r.Intn(4)
	case x < 14:
		return 5 + r.Intn(22)
	case x < 17:
		return 27 + r.Intn(100)
	case x < 19:
		return 127 + r.Intn(130) // 127..256
	default:
		return 256
	}
}

func randWord(r Rand, alpha []byte, minLen, maxLen int) []byte {
	l := minLen + r.Intn(maxLen-minLen+1)
	w := make([]byte, l)
	for i := range w {
		w[i] = alpha[r.Intn(len(alpha))]
	}
	return w
}

// GenInfo describes how a set was generated (for samples and keys).
type GenInfo struct {
	Mode     string
	Alphabet int
	Words    int
}

func (g GenInfo) String() string {
	return fmt.Sprintf("%s/alphabet=%d/words=%d", g.Mode, g.Alphabet, g.Words)
}

// GenSet draws a word set: alphabets of size 1..256, words of 0..12 bytes,
// up to maxWords words, in one of several shapes with heavy prefix / suffix
// sharing; with or without the empty word.  It also returns the alphabet.
func GenSet(r Rand, maxWords int) (*Set, []byte, GenInfo) {
	asz := AlphabetSize(r)
	alpha := Alphabet(r, asz)
	// size: mostly small
	var n int
	switch x := r.Intn(100); {
	case x < 55:
		n = r.Intn(25)
	case x < 85:
		n = 10 + r.Intn(120)
	case x < 97:
		n = 100 + r.Intn(900)
	default:
		n = 1000 + r.Intn(4001)
	}
	if maxWords >= 5000 { // the large cases
		if r.Intn(3) == 0 {
			n = 100 + r.Intn(900)
		} else {
			n = 1000 + r.Intn(4001)
		}
	}
	if n > maxWords {
		n = maxWords
	}
	maxLen := 1 + r.Intn(12)
	var ws [][]byte
	mode := r.Intn(7)
	name := ""
	switch mode {
	case 0:
		name = "uniform"
		for i := 0; i < n; i++ {
			ws = append(ws, randWord(r, alpha, 0, maxLen))
		}
	case 1:
		name = "prefix-x-suffix"
		np := 1 + r.Intn(12)
		ns := 1 + r.Intn(12)
		pl := r.Intn(maxLen/2 + 1)
		var P, S [][]byte
		for i := 0; i < np; i++ {
			P = append(P, randWord(r, alpha, 0, pl))
		}
		for i := 0; i < ns; i++ {
			S = append(S, randWord(r, alpha, 0, maxLen-pl))
		}
		density := r.Float()
		if r.Intn(3) == 0 {
			density = 1
		}
		for _, p := range P {
			for _, s := range S {
				if r.Float() <= density {
					ws = append(ws, append(append([]byte{}, p...), s...))
				}
			}
		}
		// a few words that break the product structure
		for i := r.Intn(4); i > 0; i-- {
			ws = append(ws, randWord(r, alpha, 0, maxLen))
		}
	case 2:
		name = "random-automaton"
		// layered random DAG; words = labels of random root-to-final walks
		layers := 2 + r.Intn(maxLen)
		if layers > 12 {
			layers = 12
		}
		width := 1 + r.Intn(4)
		type st struct {
			final bool
			lab   []byte
			to    []int
		}
		L := make([][]st, layers+1)
		for d := 0; d <= layers; d++ {
			w := width
			if d == 0 {
				w = 1
			}
			L[d] = make([]st, w)
			for i := range L[d] {
				L[d][i].final = r.Intn(3) == 0 || d == layers
				if d < layers {
					deg := 1 + r.Intn(minInt(len(alpha), 4))
					used := map[byte]bool{}
					for k := 0; k < deg; k++ {
						b := alpha[r.Intn(len(alpha))]
						if used[b] {
							continue
						}
						used[b] = true
						L[d][i].lab = append(L[d][i].lab, b)
						L[d][i].to = append(L[d][i].to, r.Intn(width))
					}
				}
			}
		}
		for i := 0; i < 3*n; i++ {
			d, s := 0, 0
			var w []byte
			for {
				cur := L[d][s]
				if cur.final && (d == layers || r.Intn(3) == 0) {
					ws = append(ws, w)
					break
				}
				if d == layers || len(cur.lab) == 0 {
					break
				}
				k := r.Intn(len(cur.lab))
				w = append(w, cur.lab[k])
				s = cur.to[k]
				d++
				if s >= len(L[d]) {
					s = 0
				}
			}
		}
	case 3:
		name = "one-byte-edits"
		nb := 1 + n/8
		for i := 0; i < nb; i++ {
			base := randWord(r, alpha, 1, maxLen)
			ws = append(ws, base)
			for k := 0; k < 8; k++ {
				e := append([]byte{}, base...)
				e[r.Intn(len(e))] = alpha[r.Intn(len(alpha))]
				ws = append(ws, e)
			}
		}
	case 4:
		name = "prefix-chains"
		for len(ws) < n {
			w := randWord(r, alpha, 0, maxLen)
			p := r.Float()
			for i := 0; i <= len(w); i++ {
				if r.Float() < p {
					ws = append(ws, w[:i])
				}
			}
			ws = append(ws, w)
		}
	case 5:
		name = "near-complete"
		// all words up to a length over a small sub-alphabet, minus a few
		sub := alpha
		if len(sub) > 3 {
			sub = sub[:1+r.Intn(3)]
		}
		l := 1 + r.Intn(4)
		if len(sub) == 1 {
			l = 1 + r.Intn(12)
		}
		all := Universe(sub, l)
		drop := r.Intn(4)
		for _, w := range all {
			if drop > 0 && r.Intn(len(all)) < 3 {
				drop--
				continue
			}
			ws = append(ws, w)
		}
	default:
		name = "common-suffixes"
		ns := 1 + r.Intn(5)
		var S [][]byte
		for i := 0; i < ns; i++ {
			S = append(S, randWord(r, alpha, 1, maxInt(1, maxLen/2)))
		}
		for i := 0; i < n; i++ {
			p := randWord(r, alpha, 0, maxLen-maxLen/2)
			ws = append(ws, append(p, S[r.Intn(ns)]...))
		}
	}
	set := FromWords(ws)
	if len(set.Words) > maxWords {
		set.Words = set.Words[:maxWords]
	}
	// the empty word: force in / force out / leave
	switch r.Intn(4) {
	case 0:
		set = FromWords(append(set.Copy(), []byte{}))
	case 1:
		if len(set.Words) > 0 && len(set.Words[0]) == 0 {
			set.Words = set.Words[1:]
		}
	}
	return set, alpha, GenInfo{Mode: name, Alphabet: asz, Words: len(set.Words)}
}

func minInt(a, b int) int {
	if a < b {
		return a
	}
	return b
}

func maxInt(a, b int) int {
	if a > b {
		return a
	}
	return b
}

// Probes returns candidate probe strings for a set: the empty word, every
// proper prefix of members, members extended by one byte (letters of the
// alphabet and one byte outside it), one-byte substitutions, one-byte
// deletions, and random words; at most max of them (the systematic ones are
// sub-sampled when there are too many).  Members may occur among them; the
// caller classifies with Has.
func Probes(s *Set, alpha []byte, r Rand, max int) [][]byte {
	seen := map[string]bool{}
	var out [][]byte
	add := func(w []byte) {
		if !seen[string(w)] {
			seen[string(w)] = true
			out = append(out, append([]byte{}, w...))
		}
	}
	add([]byte{})
	outside := byte(0)
	found := false
	in := [256]bool{}
	for _, b := range alpha {
		in[b] = true
	}
	for x := 255; x >= 0; x-- {
		if !in[x] {
			outside = byte(x)
			found = true
			break
		}
	}
	stride := 1
	if len(s.Words)*6 > max {
		stride = 1 + len(s.Words)*6/maxInt(max, 1)
	}
	for i := r.Intn(stride); i < len(s.Words); i += stride {
		w := s.Words[i]
		if len(w) <= 32 {
			for k := 0; k < len(w); k++ {
				add(w[:k])
			}
		} else { // a long word: a few of its prefixes
			for _, k := range []int{1, 2, len(w) / 2, len(w) - 2, len(w) - 1} {
				add(w[:k])
			}
			for k := 0; k < 6; k++ {
				add(w[:r.Intn(len(w))])
			}
		}
		add(append(append([]byte{}, w...), alpha[r.Intn(len(alpha))]))
		if found {
			add(append(append([]byte{}, w...), outside))
		}
		if len(w) > 0 {
			e := append([]byte{}, w...)
			e[r.Intn(len(e))] = alpha[r.Intn(len(alpha))]
			add(e)
			k := r.Intn(len(w))
			add(append(append([]byte{}, w[:k]...), w[k+1:]...))
			if found {
				e = append([]byte{}, w...)
				e[r.Intn(len(e))] = outside
				add(e)
			}
		}
		if len(out) >= max {
			break
		}
	}
	for k := 0; k < 20 && len(out) < max+20; k++ {
		add(randWord(r, alpha, 0, 7))
	}
	return out
}

// blankChoice picks the blank byte of a query: a byte outside the alphabet,
// a letter of the alphabet, or any byte.
func blankChoice(alpha []byte, r Rand) byte {
	switch r.Intn(4) {
	case 0:
		return alpha[r.Intn(len(alpha))]
	case 1:
		return byte(r.Intn(256))
	}
	in := [256]bool{}
	for _, b := range alpha {
		in[b] = true
	}
	for _, c := range []byte{'?', 0, '.', 255, '_'} {
		if !in[c] {
			return c
		}
	}
	return alpha[0]
}

// GenQuery draws one pattern or anagram for the set: derived from a member
// (blanks at random positions; for anagrams also shuffled, which matters for
// how the letter counts are gathered), from a near-member, with letters
// outside the alphabet, with repeated letters, all blanks, or empty.
func GenQuery(s *Set, alpha []byte, r Rand, kind byte) Query {
	blank := blankChoice(alpha, r)
	var text []byte
	base := func() []byte {
		if len(s.Words) == 0 {
			return randWord(r, alpha, 0, 5)
		}
		return append([]byte{}, s.Words[r.Intn(len(s.Words))]...)
	}
	switch x := r.Intn(20); {
	case x < 11: // member with blanks
		text = base()
		p := r.Float()
		for i := range text {
			if r.Float() < p {
				text[i] = blank
			}
		}
	case x < 13: // near member: one byte changed / appended / removed
		text = base()
		switch r.Intn(3) {
		case 0:
			if len(text) > 0 {
				text[r.Intn(len(text))] = alpha[r.Intn(len(alpha))]
			}
		case 1:
			text = append(text, blank)
		default:
			if len(text) > 0 {
				text = text[:len(text)-1]
			}
		}
		if len(text) > 0 && r.Intn(2) == 0 {
			text[r.Intn(len(text))] = blank
		}
	case x < 14: // letter outside the alphabet
		text = base()
		if len(text) > 0 {
			text[r.Intn(len(text))] = byte(r.Intn(256))
		}
	case x < 16: // all blanks
		l := r.Intn(8)
		if len(s.Words) > 0 && r.Intn(2) == 0 {
			l = len(s.Words[r.Intn(len(s.Words))])
		}
		text = bytes.Repeat([]byte{blank}, l)
	case x < 17: // empty
		text = []byte{}
	case x < 19: // repeated letters
		l := 1 + r.Intn(6)
		a := alpha[r.Intn(len(alpha))]
		b := alpha[r.Intn(len(alpha))]
		text = make([]byte, l)
		for i := range text {
			switch r.Intn(4) {
			case 0:
				text[i] = b
			case 1:
				text[i] = blank
			default:
				text[i] = a
			}
		}
	default:
		text = randWord(r, alpha, 0, 6)
	}
	if kind == 'a' && len(text) > 1 && r.Intn(4) != 0 {
		// shuffle
		for i := len(text) - 1; i > 0; i-- {
			j := r.Intn(i + 1)
			text[i], text[j] = text[j], text[i]
		}
	}
	return Query{Kind: kind, Text: text, Blank: blank}
}

// GenQueries draws a conjunction of 0..3 queries.  Conjunctions are biased
// to be satisfiable: the further queries are derived from a word matched by
// the first.
func GenQueries(s *Set, alpha []byte, r Rand) []Query {
	kinds := []byte{'p', 'a'}
	var n int
	switch x := r.Intn(20); {
	case x < 1:
		n = 0
	case x < 13:
		n = 1
	case x < 18:
		n = 2
	default:
		n = 3
	}
	var qs []Query
	for i := 0; i < n; i++ {
		k := kinds[r.Intn(2)]
		q := GenQuery(s, alpha, r, k)
		if i > 0 && r.Intn(3) != 0 {
			// derive from a word matched so far
			ws, _ := s.Filter(qs)
			if len(ws) > 0 {
				t := append([]byte{}, ws[r.Intn(len(ws))]...)
				for j := range t {
					if r.Intn(2) == 0 {
						t[j] = q.Blank
					}
				}
				if k == 'a' {
					for a := len(t) - 1; a > 0; a-- {
						b := r.Intn(a + 1)
						t[a], t[b] = t[b], t[a]
					}
				}
				q.Text = t
			}
		}
		qs = append(qs, q)
	}
	return qs
}

package c09

// Further representations of the argument graph.
//
// graph.Graph is an interface with four implementations in the library
// (DenseGraph, SparseGraph and the live views graph.InducedSubgraph(g, V) and
// graph.Complement(g)); views can be stacked, the two structs can be passed as
// pointers or as values, their contents are not unique for a graph (edge bytes
// > 1, spare capacity), and a caller may pass a Graph of his own.  "For every
// graph ... unchanged by switching between the representations" covers all of
// them, so besides the five representations of buildReprs every case is also
// presented through
//
//   - a view of a view: a seeded chain of two or three view constructors over
//     a dense / sparse base that contains the graph - induced of induced with
//     unsorted (and, now and then, sorted) inner and outer lists, each level a
//     full relabelling or a proper subset of a larger graph with junk
//     vertices; complement of induced; induced of complement; three levels;
//   - one of: rg.DenseVariant / rg.SparseVariant (edge bytes in 1..255, spare
//     capacity filled with garbage), a DenseGraph / SparseGraph struct VALUE
//     (not a pointer), a caller-implemented Graph (callerGraph over
//     rg.UserGraph, which hands out its stored adjacency lists: they must be
//     intact afterwards).
//
// The chain is planned backwards from the graph of the case (a complement is
// undone by complementing, an induced subgraph by embedding), so the value
// stands for exactly that graph by the documentation of the constructors, and
// the plan is replayed on the reference graph before it is used.

import (
	"fmt"
	"sort"
	"strings"

	"github.com/Tom-Johnston/mamba/graph"

	"verif/internal/engine"
	"verif/internal/oracle/rg"
)

// chainOp is one view constructor: graph.Complement (V == nil) or
// graph.InducedSubgraph(., V).
type chainOp struct {
	V []int
}

// chainShape names a chain innermost first: "I>C" is Complement(InducedSubgraph(base, V)).
func chainShape(ops []chainOp) string {
	parts := make([]string, len(ops))
	for i, o := range ops {
		if o.V == nil {
			parts[i] = "C"
		} else {
			parts[i] = "I"
		}
	}
	return strings.Join(parts, ">")
}

func chainFull(ops []chainOp) string {
	parts := make([]string, len(ops))
	for i, o := range ops {
		if o.V == nil {
			parts[i] = "Complement"
		} else {
			parts[i] = fmt.Sprintf("InducedSubgraph%v", o.V)
		}
	}
	return strings.Join(parts, " > ")
}

// applyChain builds the library value (calls into the library: inside c.Call).
// The constructors get copies of the lists.
func applyChain(base graph.Graph, ops []chainOp) graph.Graph {
	h := base
	for _, o := range ops {
		if o.V == nil {
			h = graph.Complement(h)
		} else {
			h = graph.InducedSubgraph(h, append([]int{}, o.V...))
		}
	}
	return h
}

// modelChain is applyChain on the reference graph.
func modelChain(h *rg.G, ops []chainOp) *rg.G {
	for _, o := range ops {
		if o.V == nil {
			h = h.Complement()
		} else {
			h = h.Induced(o.V)
		}
	}
	return h
}

var (
	shapes2 = []string{"I>I", "I>C", "C>I"}
	shapes3 = []string{"I>I>I", "I>C>I", "C>I>C", "I>I>C", "C>I>I", "I>C>C", "C>C>I", "C>C>C"}
)

// planChain returns a base graph and the lists of the chain of the given
// shape such that the chain applied to the base is exactly g.
func planChain(r *engine.Rng, g *rg.G, shape string) (*rg.G, []chainOp) {
	kinds := strings.Split(shape, ">")
	ops := make([]chainOp, len(kinds))
	x := g
	for k := len(kinds) - 1; k >= 0; k-- {
		if kinds[k] == "C" {
			x = x.Complement()
			continue
		}
		extra := 0
		if r.Bool(0.6) {
			extra = 1 + r.Intn(3)
		}
		N2 := x.N + extra
		inj := append([]int{}, r.Perm(N2)[:x.N]...)
		if r.Bool(0.15) {
			sort.Ints(inj) // an increasing list now and then
		}
		y := rg.New(N2)
		for _, e := range x.Edges() {
			y.Add(inj[e[0]], inj[e[1]])
		}
		if extra > 0 {
			used := make([]bool, N2)
			for _, v := range inj {
				used[v] = true
			}
			for j := 0; j < N2; j++ {
				if used[j] {
					continue
				}
				p := 0.2 + 0.6*r.Float()
				for u := 0; u < N2; u++ {
					if u != j && r.Bool(p) {
						y.Add(j, u)
					}
				}
			}
		}
		x = y
		ops[k] = chainOp{V: inj}
	}
	return x, ops
}

func increasing(a []int) bool {
	for i := 1; i < len(a); i++ {
		if a[i] < a[i-1] {
			return false
		}
	}
	return true
}

// libBase fills a library value for the model (no constructor under test):
// dense or sparse, plain or variant, pointer or struct value.
func libBase(r *engine.Rng, g *rg.G) (graph.Graph, string) {
	k := 0
	if r.Bool(0.3) {
		k = 1 + r.Intn(5)
	}
	value := r.Bool(0.2)
	var h graph.Graph
	var how string
	if r.Bool(0.5) {
		d := g.DenseVariant(k)
		h, how = d, "dense"
		if value {
			h, how = *d, "dense struct value"
		}
	} else {
		s := g.SparseVariant(k)
		h, how = s, "sparse"
		if value {
			h, how = *s, "sparse struct value"
		}
	}
	if k > 0 {
		how += fmt.Sprintf(" (variant %d)", k)
	}
	if g.N <= 40 {
		how += " " + g.G6()
	}
	return h, how
}

// nestedRepr presents cs.g through a chain of views of the given shape.
func nestedRepr(c *engine.Ctx, cs *graphCase, r *engine.Rng, shape string) (repr, bool) {
	name := "nested:" + shape
	baseModel, ops := planChain(r, cs.g, shape)
	if !modelChain(baseModel, ops).Equal(cs.g) {
		c.Inconclusive(fmt.Sprintf("harness: the planned chain %s does not give back the graph %s", chainFull(ops), cs.keyID()))
		return repr{}, false
	}
	base, how := libBase(r, baseModel)
	var h graph.Graph
	if pi := c.Call("build-representation|"+cs.keyID()+"|"+name, func() { h = applyChain(base, ops) }); pi != nil {
		c.Obs("rep_unusable:"+name+"(constructor panicked)", 1)
		return repr{}, false
	}
	how = chainFull(ops) + " over " + how
	if len(how) > 1500 {
		how = how[:1500] + "..."
	}
	// what the evidence has to show
	c.Obs("rep:nested", 1)
	if len(ops) >= 3 {
		c.Obs("nested:three_levels", 1)
	}
	for k := 0; k+1 < len(ops); k++ {
		in, out := ops[k], ops[k+1]
		switch {
		case in.V != nil && out.V != nil:
			c.Obs("nested:induced_of_induced", 1)
			if !increasing(in.V) {
				c.Obs("nested:induced_of_induced,inner_list_unsorted", 1)
				if len(out.V) < len(in.V) {
					c.Obs("nested:induced_of_induced,inner_list_unsorted,outer_proper_subset", 1)
				} else if !increasing(out.V) {
					c.Obs("nested:induced_of_induced,inner_list_unsorted,outer_full_relabelling", 1)
				}
				if !increasing(out.V) {
					c.Obs("nested:induced_of_induced,both_lists_unsorted", 1)
				}
			} else {
				c.Obs("nested:induced_of_induced,inner_list_sorted", 1)
			}
		case in.V != nil && out.V == nil:
			c.Obs("nested:complement_of_induced", 1)
		case in.V == nil && out.V != nil:
			c.Obs("nested:induced_of_complement", 1)
		default:
			c.Obs("nested:complement_of_complement", 1)
		}
	}
	return repr{name: name, how: how, h: h}, true
}

var variantKinds = []string{"dense-variant", "sparse-variant", "dense-value", "sparse-value", "user"}

func variantRepr(cs *graphCase, r *engine.Rng, kind string) repr {
	g := cs.g
	switch kind {
	case "dense-variant":
		k := 1 + r.Intn(5)
		return repr{name: kind, how: fmt.Sprintf("rg.DenseVariant(%d): edge bytes in 1..255, spare capacity filled with garbage", k), h: g.DenseVariant(k), poly: "dense"}
	case "sparse-variant":
		k := 1 + r.Intn(5)
		return repr{name: kind, how: fmt.Sprintf("rg.SparseVariant(%d): spare capacity filled with garbage", k), h: g.SparseVariant(k), poly: "sparse"}
	case "dense-value":
		k := 0
		if r.Bool(0.3) {
			k = 1 + r.Intn(5)
		}
		return repr{name: kind, how: fmt.Sprintf("graph.DenseGraph struct value (not a pointer), rg.DenseVariant(%d)", k), h: *g.DenseVariant(k), filled: k == 0}
	case "sparse-value":
		k := 0
		if r.Bool(0.3) {
			k = 1 + r.Intn(5)
		}
		return repr{name: kind, how: fmt.Sprintf("graph.SparseGraph struct value (not a pointer), rg.SparseVariant(%d)", k), h: *g.SparseVariant(k), filled: k == 0}
	default:
		u := g.User()
		return repr{name: "user", how: "a Graph implemented by the caller (rg.UserGraph): Neighbours hands out the stored adjacency lists, Degrees a copy", h: callerGraph{u}, user: u, filled: true}
	}
}

// callerGraph is the caller-implemented Graph: a type the library does not
// know, so that every type switch / assertion of the library takes its
// general path.  Neighbours hands out the stored adjacency lists of the
// rg.UserGraph themselves (a function that takes a Graph - "a graph which
// cannot be copied or edited" - must leave them alone; they are compared with
// the model afterwards).  Degrees hands out a COPY, as every implementation of
// the library does: the library's own graph.Complement(g).Degrees() writes into
// the slice it gets from g.Degrees(), so the result of Degrees belongs to the
// caller by the convention of the library itself, and a behaviour-preserving
// change may start to ask a complement view for its degrees (IndependenceNumber
// runs on Complement(g)).
type callerGraph struct {
	*rg.UserGraph
}

func (u callerGraph) Degrees() []int {
	return append([]int(nil), u.Deg...)
}

// extraReprs draws `nested` views of views and `variants` further
// representations of cs.g.  The names within one case are distinct.
func extraReprs(c *engine.Ctx, cs *graphCase, r *engine.Rng, nested, variants int) []repr {
	var out []repr
	depth1 := 0
	for i := 0; i < nested; i++ {
		var shape string
		switch {
		case i == 0:
			switch x := r.Intn(20); {
			case x < 8:
				shape = "I>I"
			case x < 11:
				shape = "I>C"
			case x < 14:
				shape = "C>I"
			default:
				shape = shapes3[r.Intn(len(shapes3))]
			}
			depth1 = strings.Count(shape, ">") + 1
		case i == 1 && depth1 == 3:
			// the second one is of the other depth than the first
			shape = shapes2[r.Intn(len(shapes2))]
		default:
			shape = shapes3[r.Intn(len(shapes3))]
		}
		if rp, ok := nestedRepr(c, cs, r, shape); ok {
			if i >= 2 {
				rp.name += fmt.Sprintf("#%d", i)
			}
			out = append(out, rp)
		}
	}
	first := r.Intn(len(variantKinds))
	for i := 0; i < variants && i < len(variantKinds); i++ {
		out = append(out, variantRepr(cs, r, variantKinds[(first+i)%len(variantKinds)]))
	}
	return out
}

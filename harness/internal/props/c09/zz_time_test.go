package c09

import (
	"fmt"
	"testing"
	"time"

	"github.com/Tom-Johnston/mamba/graph"
)

func timed(name string, f func()) string {
	done := make(chan struct{})
	t0 := time.Now()
	go func() { f(); close(done) }()
	select {
	case <-done:
		d := time.Since(t0)
		if d > 40*time.Millisecond {
			return fmt.Sprintf("%s=%v ", name, d.Round(time.Millisecond))
		}
		return ""
	case <-time.After(15 * time.Second):
		return name + "=TIMEOUT "
	}
}

func TestTimeBig(t *testing.T) {
	var all []bigCase
	for _, n := range append(append([]int(nil), extraSizes...), bigSizes...) {
		all = append(all, bigFamilies(n)...)
	}
	all = append(all, mycielskiChain(6)...)
	for _, b := range all {
		for _, h := range []graph.Graph{b.g.Dense(), b.g.Sparse()} {
			s := ""
			s += timed("omega", func() { graph.CliqueNumber(h) })
			if b.callAlpha {
				s += timed("alpha", func() { graph.IndependenceNumber(h) })
			}
			if b.callCliques {
				s += timed("cliques", func() {
					ch := make(chan []int)
					go graph.AllMaximalCliques(h, ch)
					for range ch {
					}
				})
			}
			if b.callChi {
				s += timed("chi", func() { graph.ChromaticNumber(h) })
				if b.ksBelow {
					s += timed("k-1", func() { graph.IsKColorable(h, b.chi-1) })
				}
				s += timed("k", func() { graph.IsKColorable(h, b.chi) })
				s += timed("k+1", func() { graph.IsKColorable(h, b.chi+1) })
			}
			if b.callIndex {
				s += timed("index", func() { graph.ChromaticIndex(h) })
			}
			s += timed("degen", func() { graph.Degeneracy(h) })
			if s != "" {
				t.Logf("%-28s n=%d %T: %s", b.name, b.g.N, h, s)
			}
		}
	}
}

// Package selfcheck validates the oracle library against published tables
// before any verdict is trusted (DESIGN.md section 3).
package selfcheck

import (
	"fmt"
	"io"
)

// Check is one self-check.
type Check struct {
	Name string
	F    func() error
}

var checks []Check

// Add registers a self-check.
func Add(name string, f func() error) { checks = append(checks, Check{name, f}) }

// Run runs all self-checks.
func Run(w io.Writer) error {
	for _, c := range checks {
		if err := c.F(); err != nil {
			return fmt.Errorf("%s: %v", c.Name, err)
		}
		fmt.Fprintf(w, "selfcheck %-40s ok\n", c.Name)
	}
	return nil
}

// Demonstration for C03 change 1 (children of a search node are visited in the opposite order).
//
// Copy to graph/search/demo_test.go in the library and run from the repository root:
//
//	GOFLAGS=-mod=mod GOPROXY=off GOSUMDB=off GOTOOLCHAIN=local \
//	  go test -vet=off -count=1 -timeout 300s -run 'TestDemo' -v ./graph/search/
//
// TestDemoProperty checks the property C03 itself (brute force, n <= 7) and passes on both trees.
// TestDemoIncidentalOrderAndShards pins the OLD, undocumented order of the results and the OLD assignment of graphs to
// shards; it passes on the clean tree and fails with the change.
package search_test

import (
	"fmt"
	"reflect"
	"testing"

	"github.com/Tom-Johnston/mamba/graph"
	"github.com/Tom-Johnston/mamba/graph/search"
)

// numClasses[n] is the number of graphs on n vertices up to isomorphism (OEIS A000088).
var numClasses = []int{1, 1, 2, 4, 11, 34, 156, 1044}

func demoPerms(n int) [][]int {
	var out [][]int
	p := make([]int, n)
	for i := range p {
		p[i] = i
	}
	var rec func(k int)
	rec = func(k int) {
		if k == n {
			out = append(out, append([]int(nil), p...))
			return
		}
		for i := k; i < n; i++ {
			p[k], p[i] = p[i], p[k]
			rec(k + 1)
			p[k], p[i] = p[i], p[k]
		}
	}
	rec(0)
	return out
}

var demoPermCache = map[int][][]int{}

// demoKey is a brute force complete isomorphism invariant: the smallest adjacency bit mask over all relabellings.
func demoKey(g *graph.DenseGraph) uint32 {
	n := g.N()
	perms, ok := demoPermCache[n]
	if !ok {
		perms = demoPerms(n)
		demoPermCache[n] = perms
	}
	type pair struct{ i, j int }
	var edges []pair
	for j := 0; j < n; j++ {
		for i := 0; i < j; i++ {
			if g.IsEdge(i, j) {
				edges = append(edges, pair{i, j})
			}
		}
	}
	best := ^uint32(0)
	for _, p := range perms {
		x := uint32(0)
		for _, e := range edges {
			a, b := p[e.i], p[e.j]
			if a > b {
				a, b = b, a
			}
			x |= 1 << uint((b*(b-1))/2+a)
		}
		if x < best {
			best = x
		}
	}
	return best
}

// demoWellFormed checks that g is a consistent DenseGraph on n vertices.
func demoWellFormed(g *graph.DenseGraph, n int) error {
	if g.NumberOfVertices != n || g.N() != n {
		return fmt.Errorf("NumberOfVertices = %d, want %d", g.NumberOfVertices, n)
	}
	if len(g.Edges) != n*(n-1)/2 {
		return fmt.Errorf("len(Edges) = %d, want %d", len(g.Edges), n*(n-1)/2)
	}
	if len(g.DegreeSequence) != n {
		return fmt.Errorf("len(DegreeSequence) = %d, want %d", len(g.DegreeSequence), n)
	}
	deg := make([]int, n)
	m := 0
	for j := 0; j < n; j++ {
		for i := 0; i < j; i++ {
			if g.Edges[(j*(j-1))/2+i] != 0 {
				if !g.IsEdge(i, j) || !g.IsEdge(j, i) {
					return fmt.Errorf("IsEdge disagrees with Edges at %d,%d", i, j)
				}
				deg[i]++
				deg[j]++
				m++
			} else if g.IsEdge(i, j) || g.IsEdge(j, i) {
				return fmt.Errorf("IsEdge disagrees with Edges at %d,%d", i, j)
			}
		}
	}
	if m != g.NumberOfEdges || m != g.M() {
		return fmt.Errorf("NumberOfEdges = %d, want %d", g.NumberOfEdges, m)
	}
	if n > 0 && !reflect.DeepEqual(deg, g.DegreeSequence) {
		return fmt.Errorf("DegreeSequence = %v, want %v", g.DegreeSequence, deg)
	}
	return nil
}

// demoCollect runs all m shards and returns key -> number of times a graph of that class was yielded.
func demoCollect(t *testing.T, n, m int, mk func(a int) *search.GraphIterator) map[uint32]int {
	seen := map[uint32]int{}
	for a := 0; a < m; a++ {
		it := mk(a)
		for it.Next() {
			g := it.Value()
			if err := demoWellFormed(g, n); err != nil {
				t.Fatalf("n=%d a=%d m=%d: malformed graph: %v", n, a, m, err)
			}
			seen[demoKey(g)]++
		}
	}
	return seen
}

func hasTriangle(g *graph.DenseGraph) bool {
	n := g.N()
	for i := 0; i < n; i++ {
		for j := i + 1; j < n; j++ {
			if !g.IsEdge(i, j) {
				continue
			}
			for k := j + 1; k < n; k++ {
				if g.IsEdge(i, k) && g.IsEdge(j, k) {
					return true
				}
			}
		}
	}
	return false
}

func maxDegreeAbove2(g *graph.DenseGraph) bool {
	for _, d := range g.Degrees() {
		if d > 2 {
			return true
		}
	}
	return false
}

func never(g *graph.DenseGraph) bool { return false }

func TestDemoProperty(t *testing.T) {
	preds := map[string]func(*graph.DenseGraph) bool{"triangle": hasTriangle, "maxdeg>2": maxDegreeAbove2}
	for n := 0; n <= 7; n++ {
		ms := []int{1, 2, 3, 4, 7}
		if n == 7 {
			ms = []int{1, 3}
		}
		// The class representatives which do NOT get pruned, per predicate, computed from the m = 1 run.
		want := map[string]map[uint32]bool{}
		for _, m := range ms {
			seen := demoCollect(t, n, m, func(a int) *search.GraphIterator { return search.All(n, a, m) })
			if len(seen) != numClasses[n] {
				t.Fatalf("All n=%d m=%d: %d classes, want %d", n, m, len(seen), numClasses[n])
			}
			for k, c := range seen {
				if c != 1 {
					t.Fatalf("All n=%d m=%d: class %x yielded %d times", n, m, k, c)
				}
			}
			if m == 1 {
				for name, pred := range preds {
					want[name] = map[uint32]bool{}
					it := search.All(n, 0, 1)
					for it.Next() {
						if !pred(it.Value()) {
							want[name][demoKey(it.Value())] = true
						}
					}
				}
			}
			for name, pred := range preds {
				for _, place := range []string{"preprune", "prune"} {
					pred, place := pred, place
					seen := demoCollect(t, n, m, func(a int) *search.GraphIterator {
						if place == "preprune" {
							return search.WithPruning(n, a, m, pred, never)
						}
						return search.WithPruning(n, a, m, never, pred)
					})
					if len(seen) != len(want[name]) {
						t.Fatalf("WithPruning %s as %s n=%d m=%d: %d classes, want %d", name, place, n, m, len(seen), len(want[name]))
					}
					for k, c := range seen {
						if c != 1 || !want[name][k] {
							t.Fatalf("WithPruning %s as %s n=%d m=%d: class %x yielded %d times, wanted=%v", name, place, n, m, k, c, want[name][k])
						}
					}
				}
			}
		}
	}
}

func demoLabelled(g *graph.DenseGraph) string {
	s := ""
	for _, b := range g.Edges {
		if b != 0 {
			s += "1"
		} else {
			s += "0"
		}
	}
	return s
}

func demoRun(it *search.GraphIterator) []string {
	out := []string{}
	for it.Next() {
		out = append(out, demoLabelled(it.Value()))
	}
	return out
}

// The OLD behaviour: the dense graphs come out first and the empty graph last, and the empty graph is in shard 0.
func TestDemoIncidentalOrderAndShards(t *testing.T) {
	old := map[[3]int][]string{
		{3, 0, 1}: {"111", "101", "100", "000"},
		{4, 0, 1}: {"111111", "111101", "111010", "111000", "101101", "101001", "101010", "101000", "100001", "100000", "000000"},
		{4, 0, 2}: {"111111", "111101", "111010", "111000", "100001", "100000", "000000"},
		{4, 1, 2}: {"101101", "101001", "101010", "101000"},
		{4, 0, 3}: {"100001", "100000", "000000"},
		{4, 1, 3}: {"101101", "101001", "101010", "101000"},
		{4, 2, 3}: {"111111", "111101", "111010", "111000"},
	}
	for k, want := range old {
		got := demoRun(search.All(k[0], k[1], k[2]))
		t.Logf("All(%d, %d, %d) yields %q", k[0], k[1], k[2], got)
		if !reflect.DeepEqual(got, want) {
			t.Errorf("All(%d, %d, %d): order of results / shard contents differ from the old behaviour\n got %q\nwant %q", k[0], k[1], k[2], got, want)
		}
	}
	for n := 2; n <= 7; n++ {
		it := search.All(n, 0, 1)
		it.Next()
		if it.Value().M() != n*(n-1)/2 {
			t.Errorf("n=%d: the first graph has %d edges; the old first graph was the complete graph", n, it.Value().M())
		}
	}
}

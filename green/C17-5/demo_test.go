// Demonstration for change 5 (Remove hands back storage once the set has shrunk to a quarter of its capacity).
//
// Run from the repository root:
//
//	cp demo_test.go sortints/demo_test.go
//	GOFLAGS=-mod=mod GOPROXY=off GOSUMDB=off GOTOOLCHAIN=local go test -vet=off -count=1 -timeout 120s -run 'TestDemo' -v ./sortints/
//
// TestDemoProperty checks the property itself on "breathing" histories (a set grown by Add and drained by Remove,
// several cycles, compared with a map model after every step; a bystander set must stay untouched) and passes both on
// the clean tree and with the change.
// TestDemoIncidentalRemoveKeepsStorage asserts the OLD incidental behaviour (Remove never moves the receiver: same
// backing array and same capacity however far the set is drained): it passes on the clean tree and FAILS with the change.
package sortints_test

import (
	"math/rand"
	"sort"
	"testing"

	"github.com/Tom-Johnston/mamba/sortints"
)

func modelSlice(m map[int]bool) []int {
	r := make([]int, 0, len(m))
	for k := range m {
		r = append(r, k)
	}
	sort.Ints(r)
	return r
}

func sameInts(a, b []int) bool {
	if len(a) != len(b) {
		return false
	}
	for i := range a {
		if a[i] != b[i] {
			return false
		}
	}
	return true
}

func TestDemoProperty(t *testing.T) {
	rng := rand.New(rand.NewSource(17))
	for trial := 0; trial < 40; trial++ {
		var s sortints.SortedInts
		model := map[int]bool{}
		bystander := sortints.NewSortedInts(-7, 0, 3, 1000)
		bystanderCopy := append([]int(nil), bystander...)
		check := func(what string) {
			want := modelSlice(model)
			if !sameInts(s, want) {
				t.Fatalf("trial %d after %s: got %v want %v", trial, what, []int(s), want)
			}
			if !sameInts(bystander, bystanderCopy) {
				t.Fatalf("trial %d after %s: bystander changed", trial, what)
			}
			for _, v := range want[:min(len(want), 3)] {
				if !sortints.ContainsSingle(s, v) {
					t.Fatalf("trial %d after %s: ContainsSingle(%d) false", trial, what, v)
				}
			}
		}
		for cycle := 0; cycle < 3; cycle++ {
			target := 64 + rng.Intn(300)
			for len(model) < target {
				v := rng.Intn(4000) - 2000
				s.Add(v)
				model[v] = true
			}
			check("growth")
			// drain by Remove alone, in random order, sometimes removing absent values
			order := modelSlice(model)
			rng.Shuffle(len(order), func(i, j int) { order[i], order[j] = order[j], order[i] })
			stop := rng.Intn(5)
			for _, v := range order[:len(order)-stop] {
				if rng.Intn(4) == 0 {
					s.Remove(v + 5000) // absent
				}
				s.Remove(v)
				delete(model, v)
				check("Remove")
			}
			// operations on the drained set with other sets
			other := sortints.Range(-3, 9, 2)
			u := sortints.Union(s, other)
			um := map[int]bool{}
			for k := range model {
				um[k] = true
			}
			for _, v := range other {
				um[v] = true
			}
			if !sameInts(u, modelSlice(um)) {
				t.Fatalf("trial %d: Union after drain wrong", trial)
			}
			s.Union(other)
			for _, v := range other {
				model[v] = true
			}
			check("Union method")
		}
	}
}

func min(a, b int) int {
	if a < b {
		return a
	}
	return b
}

func TestDemoIncidentalRemoveKeepsStorage(t *testing.T) {
	s := sortints.Range(0, 200, 1) // 200 elements
	first := &s[0]
	c := cap(s)
	for v := 199; v >= 10; v-- {
		s.Remove(v)
	}
	if !sameInts(s, sortints.Range(0, 10, 1)) {
		t.Fatalf("wrong contents %v", []int(s))
	}
	t.Logf("after draining 200 -> 10: cap %d (was %d), same backing array: %v", cap(s), c, &s[0] == first)
	if cap(s) != c || &s[0] != first {
		t.Fatalf("OLD behaviour gone: Remove moved the receiver (cap %d -> %d, same array %v)", c, cap(s), &s[0] == first)
	}
}

// Demonstration for green change C11/5 (IsPlanar checks the edge bound of every block first and then embeds the
// blocks smallest first, instead of handling the blocks one after the other in the order BiconnectedComponents
// returns them).
//
// Run (from the root of the library, offline):
//   cp demo_test.go graph/zz_demo_c11_5_test.go
//   export GOFLAGS=-mod=mod GOPROXY=off GOSUMDB=off GOTOOLCHAIN=local
//   go test -vet=off -count=1 -timeout 120s -v -run 'TestDemoC11_5' ./graph/
//
// TestDemoC11_5_Property   checks the property itself (right answer, no panic, invariance under relabelling, pendant
//                          and isolated vertices, subdivision, subgraphs of planar graphs) on the graphs used below
//                          and some more.  Passes on the clean tree AND with the change.
// TestDemoC11_5_Incidental counts, through a user-defined graph.Graph that forwards to a DenseGraph, how many times
//                          IsPlanar asks for a neighbourhood before it answers "false" for a graph made of a large
//                          planar block (9x9 triangular grid) and a small non-planar block (K3,3, respectively K6)
//                          glued on at one vertex.  It asserts the OLD behaviour: the large block, which comes first in
//                          the list of blocks, is embedded completely before the small block is looked at, so the
//                          number of Neighbours calls is at least the number needed for the grid alone.  Passes on the
//                          clean tree, FAILS with the change (the answer arrives after a fraction of the calls).
package graph_test

import (
	"fmt"
	"testing"

	"github.com/Tom-Johnston/mamba/graph"
)

// c115count forwards to an inner graph and counts the calls.
type c115count struct {
	g          graph.Graph
	neighbours *int
}

func (c c115count) N() int              { return c.g.N() }
func (c c115count) M() int              { return c.g.M() }
func (c c115count) IsEdge(i, j int) bool { return c.g.IsEdge(i, j) }
func (c c115count) Neighbours(v int) []int {
	*c.neighbours++
	return c.g.Neighbours(v)
}
func (c c115count) Degrees() []int { return c.g.Degrees() }

type c115edges struct {
	n int
	e [][2]int
}

func (a c115edges) dense(perm []int) *graph.DenseGraph {
	g := graph.NewDense(a.n, nil)
	for _, e := range a.e {
		if perm == nil {
			g.AddEdge(e[0], e[1])
		} else {
			g.AddEdge(perm[e[0]], perm[e[1]])
		}
	}
	return g
}

// c115grid is the k x k triangular grid (a planar near-triangulation, one block) on 0..k*k-1.
func c115grid(k int) c115edges {
	a := c115edges{n: k * k}
	for r := 0; r < k; r++ {
		for c := 0; c < k; c++ {
			v := r*k + c
			if c+1 < k {
				a.e = append(a.e, [2]int{v, v + 1})
			}
			if r+1 < k {
				a.e = append(a.e, [2]int{v, v + k})
			}
			if c+1 < k && r+1 < k {
				a.e = append(a.e, [2]int{v, v + k + 1})
			}
		}
	}
	return a
}

// c115glue adds a copy of b to a, identifying vertex 0 of b with vertex at of a.
func c115glue(a c115edges, at int, b c115edges) c115edges {
	r := c115edges{n: a.n + b.n - 1, e: append([][2]int(nil), a.e...)}
	m := func(v int) int {
		if v == 0 {
			return at
		}
		return a.n + v - 1
	}
	for _, e := range b.e {
		r.e = append(r.e, [2]int{m(e[0]), m(e[1])})
	}
	return r
}

func c115complete(n int) c115edges {
	a := c115edges{n: n}
	for i := 0; i < n; i++ {
		for j := i + 1; j < n; j++ {
			a.e = append(a.e, [2]int{i, j})
		}
	}
	return a
}

func c115k33() c115edges {
	a := c115edges{n: 6}
	for i := 0; i < 3; i++ {
		for j := 3; j < 6; j++ {
			a.e = append(a.e, [2]int{i, j})
		}
	}
	return a
}

// c115subdivide replaces edge number i by a path with one inner vertex.
func c115subdivide(a c115edges, i int) c115edges {
	r := c115edges{n: a.n + 1, e: append([][2]int(nil), a.e...)}
	e := r.e[i]
	r.e[i] = [2]int{e[0], a.n}
	r.e = append(r.e, [2]int{a.n, e[1]})
	return r
}

func c115perm(n, mult, add int) []int {
	p := make([]int, n)
	for i := range p {
		p[i] = (i*mult + add) % n
	}
	return p
}

func c115gcd(a, b int) int {
	for b != 0 {
		a, b = b, a%b
	}
	return a
}

func c115call(g graph.Graph) (res bool, panicked interface{}) {
	defer func() { panicked = recover() }()
	return graph.IsPlanar(g), nil
}

func c115calls(g graph.Graph) (bool, int) {
	n := 0
	res := graph.IsPlanar(c115count{g: g, neighbours: &n})
	return res, n
}

func TestDemoC11_5_Property(t *testing.T) {
	type tc struct {
		name string
		a    c115edges
		want bool
	}
	grid := c115grid(9)
	cases := []tc{
		{"grid9", grid, true},
		{"grid9+K4", c115glue(grid, 80, c115complete(4)), true},
		{"grid9+K5", c115glue(grid, 80, c115complete(5)), false},
		{"grid9+K6", c115glue(grid, 80, c115complete(6)), false},
		{"grid9+K33", c115glue(grid, 80, c115k33()), false},
		{"grid9+K33 at 0", c115glue(grid, 0, c115k33()), false},
		{"grid9+K33 at 40", c115glue(grid, 40, c115k33()), false},
		{"grid9+grid4", c115glue(grid, 80, c115grid(4)), true},
		{"grid9+grid4+K33", c115glue(c115glue(grid, 80, c115grid(4)), 90, c115k33()), false},
		{"K33+grid5", c115glue(c115k33(), 3, c115grid(5)), false},
		{"K5", c115complete(5), false},
		{"K33", c115k33(), false},
		{"grid9+subdivided K33", c115glue(grid, 80, c115subdivide(c115subdivide(c115k33(), 0), 4)), false},
	}
	check := func(name string, g graph.Graph, want bool) {
		res, p := c115call(g)
		if p != nil {
			t.Errorf("%s: IsPlanar panicked: %v", name, p)
		} else if res != want {
			t.Errorf("%s: IsPlanar = %v, want %v", name, res, want)
		}
	}
	for _, c := range cases {
		n := c.a.n
		perms := [][]int{nil}
		for _, mult := range []int{7, 11, 13, 17} {
			if c115gcd(mult, n) == 1 {
				perms = append(perms, c115perm(n, mult, 5))
			}
		}
		for pi, perm := range perms {
			name := fmt.Sprintf("%s/perm%d", c.name, pi)
			g := c.a.dense(perm)
			check(name, g, c.want)
			cnt := 0
			check(name+"/user-defined", c115count{g: g, neighbours: &cnt}, c.want)
			// pendant and isolated vertices
			h := c.a.dense(perm)
			h.AddVertex([]int{0})
			h.AddVertex(nil)
			h.AddVertex([]int{n / 2})
			check(name+"/pendant+isolated", h, c.want)
			// subdivide the first and the last edge
			s := c115subdivide(c115subdivide(c.a, 0), len(c.a.e)-1)
			var sperm []int
			if perm != nil {
				sperm = append(append([]int(nil), perm...), n, n+1)
			}
			check(name+"/subdivided", s.dense(sperm), c.want)
			// subgraphs of planar graphs are planar: delete each 7th edge / a vertex
			if c.want && pi < 2 {
				for i := 0; i < len(c.a.e); i += 7 {
					sub := c.a.dense(perm)
					e := c.a.e[i]
					if perm == nil {
						sub.RemoveEdge(e[0], e[1])
					} else {
						sub.RemoveEdge(perm[e[0]], perm[e[1]])
					}
					check(fmt.Sprintf("%s/minus edge %d", name, i), sub, true)
				}
				sub := c.a.dense(perm)
				sub.RemoveVertex(n / 3)
				check(name+"/minus vertex", sub, true)
			}
		}
	}
}

func TestDemoC11_5_Incidental(t *testing.T) {
	grid := c115grid(9)
	resGrid, callsGrid := c115calls(grid.dense(nil))
	if !resGrid {
		t.Fatalf("the 9x9 triangular grid must be planar")
	}
	t.Logf("9x9 triangular grid alone: IsPlanar = %v after %d Neighbours calls", resGrid, callsGrid)
	for _, c := range []struct {
		name string
		a    c115edges
	}{
		{"grid9+K33 (K33 needs the embedding phase to be refuted)", c115glue(grid, 0, c115k33())},
		{"grid9+K6 (K6 is refuted by the edge count)", c115glue(grid, 0, c115complete(6))},
	} {
		blocks, _ := graph.BiconnectedComponents(c.a.dense(nil))
		sizes := []int{}
		for _, b := range blocks {
			sizes = append(sizes, len(b))
		}
		res, calls := c115calls(c.a.dense(nil))
		t.Logf("%s: block sizes in the order of BiconnectedComponents %v; IsPlanar = %v after %d Neighbours calls", c.name, sizes, res, calls)
		if res {
			t.Errorf("%s: IsPlanar = true, want false (this would be a violation of the property)", c.name)
		}
		if len(sizes) != 2 || sizes[0] != 81 {
			t.Fatalf("%s: the demonstration expects the large block to come first", c.name)
		}
		if calls < callsGrid {
			t.Errorf("%s: OLD behaviour expected: the large block that comes first is embedded before the small one is looked at, "+
				"so at least %d Neighbours calls; got only %d", c.name, callsGrid, calls)
		}
	}
}

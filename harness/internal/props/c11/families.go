package c11

import (
	"verif/internal/engine"
	"verif/internal/oracle/planarity"
	"verif/internal/oracle/rg"
)

// ---- planar by construction (every builder returns a rotation system) ----

// stacked returns a stacked triangulation (Apollonian network) on n >= 3
// vertices: a triangle, then every new vertex goes into a random face.
func stacked(r *engine.Rng, n int) *planarity.FaceGraph {
	f := planarity.NewCycleFaces(3)
	for f.N < n {
		f.AddVertex(r.Intn(len(f.Faces)), []int{0, 1, 2})
	}
	return f
}

// flipSome tries the given number of random edge flips on a triangulation.
func flipSome(r *engine.Rng, f *planarity.FaceGraph, tries int) (done int) {
	es := f.EdgeList()
	for t := 0; t < tries; t++ {
		i := r.Intn(len(es))
		a, b := es[i][0], es[i][1]
		if r.Bool(0.5) {
			a, b = b, a
		}
		if f.Flip(a, b) {
			done++
			es = f.EdgeList()
		}
	}
	return done
}

// randomPlane returns a random 2-connected plane graph on n vertices: a
// cycle, then new vertices joined to 2..4 corners of a random face and chords
// across random faces; extra chord rounds at the end (density in [0,1]).
func randomPlane(r *engine.Rng, n int, density float64) *planarity.FaceGraph {
	k0 := 3 + r.Intn(6)
	if k0 > n {
		k0 = n
	}
	f := planarity.NewCycleFaces(k0)
	chord := func() {
		fi := r.Intn(len(f.Faces))
		k := len(f.Faces[fi])
		if k < 4 {
			return
		}
		i := r.Intn(k)
		j := (i + 2 + r.Intn(k-3)) % k
		f.AddChord(fi, i, j)
	}
	for f.N < n {
		if r.Bool(0.3) {
			chord()
			continue
		}
		fi := r.Intn(len(f.Faces))
		k := len(f.Faces[fi])
		cnt := 2 + r.Intn(3)
		if cnt > k {
			cnt = k
		}
		p := r.Perm(k)[:cnt]
		sortInts(p)
		f.AddVertex(fi, p)
	}
	extra := int(density * float64(3*n))
	for t := 0; t < extra; t++ {
		chord()
	}
	return f
}

// outerplanar returns a cycle on n vertices with up to chords non-crossing
// chords, all inside (face 1, the outside, is never split).
func outerplanar(r *engine.Rng, n, chords int) *planarity.FaceGraph {
	f := planarity.NewCycleFaces(n)
	for t := 0; t < 4*chords && chords > 0; t++ {
		fi := r.Intn(len(f.Faces))
		if fi == 1 {
			continue
		}
		k := len(f.Faces[fi])
		if k < 4 {
			continue
		}
		i := r.Intn(k)
		j := (i + 2 + r.Intn(k-3)) % k
		if f.AddChord(fi, i, j) {
			chords--
		}
	}
	return f
}

// gridEmb returns the a x b grid where every unit square gets, with
// probability pDiag, one of its two diagonals.  The rotation system is the
// clockwise order of the 8 compass directions (a straight-line drawing).
func gridEmb(r *engine.Rng, a, b int, pDiag float64) *planarity.Emb {
	id := func(i, j int) int { return i*b + j }
	// diag[i][j] for the square with corners (i,j),(i+1,j+1): 0 none, 1 '\', 2 '/'
	diag := make([][]int, a)
	for i := range diag {
		diag[i] = make([]int, b)
		for j := range diag[i] {
			if i+1 < a && j+1 < b && r.Bool(pDiag) {
				diag[i][j] = 1 + r.Intn(2)
			}
		}
	}
	e := planarity.NewEmb(a * b)
	in := func(i, j int) bool { return i >= 0 && j >= 0 && i < a && j < b }
	for i := 0; i < a; i++ {
		for j := 0; j < b; j++ {
			var rot []int
			// N, NE, E, SE, S, SW, W, NW   (row index grows to the south)
			if in(i-1, j) {
				rot = append(rot, id(i-1, j))
			}
			if in(i-1, j+1) && diag[i-1][j] == 2 { // square (i-1,j): '/' joins (i-1,j+1)-(i,j)
				rot = append(rot, id(i-1, j+1))
			}
			if in(i, j+1) {
				rot = append(rot, id(i, j+1))
			}
			if in(i+1, j+1) && diag[i][j] == 1 { // square (i,j): '\' joins (i,j)-(i+1,j+1)
				rot = append(rot, id(i+1, j+1))
			}
			if in(i+1, j) {
				rot = append(rot, id(i+1, j))
			}
			if in(i+1, j-1) && diag[i][j-1] == 2 { // square (i,j-1): '/' joins (i,j)-(i+1,j-1)
				rot = append(rot, id(i+1, j-1))
			}
			if in(i, j-1) {
				rot = append(rot, id(i, j-1))
			}
			if in(i-1, j-1) && diag[i-1][j-1] == 1 { // square (i-1,j-1): '\' joins (i-1,j-1)-(i,j)
				rot = append(rot, id(i-1, j-1))
			}
			e.Rot[id(i, j)] = rot
		}
	}
	return e
}

// thin deletes every edge independently with probability p.
func thin(r *engine.Rng, e *planarity.Emb, p float64) *planarity.Emb {
	c := e.Copy()
	for _, ed := range e.Edges() {
		if r.Bool(p) {
			c.DeleteEdge(ed[0], ed[1])
		}
	}
	return c
}

// blockTree glues the parts into one graph: each further part is attached to
// a random vertex of what is there by identification (cut vertex), by a
// bridge, or is left as a separate component.
func blockTree(r *engine.Rng, parts []*planarity.Emb) *planarity.Emb {
	e := parts[0].Copy()
	for _, p := range parts[1:] {
		if p.N() == 0 {
			continue
		}
		old := e.N()
		off := e.Append(p)
		a := r.Intn(old)
		b := off + r.Intn(p.N())
		switch x := r.Intn(10); {
		case x < 6:
			e.Identify(a, b)
		case x < 9:
			e.Bridge(a, b, r.Intn(len(e.Rot[a])+1), r.Intn(len(e.Rot[b])+1))
		}
	}
	return e
}

// decorate applies the operations the statement lists as planarity
// preserving: subdivisions, pendant and isolated vertices.
func decorate(r *engine.Rng, e *planarity.Emb, sub, pend, iso int) *planarity.Emb {
	c := e.Copy()
	for t := 0; t < sub; t++ {
		es := c.Edges()
		if len(es) == 0 {
			break
		}
		ed := es[r.Intn(len(es))]
		c.Subdivide(ed[0], ed[1])
	}
	for t := 0; t < pend && c.N() > 0; t++ {
		v := r.Intn(c.N())
		c.AddPendant(v, r.Intn(len(c.Rot[v])+1))
	}
	for t := 0; t < iso; t++ {
		c.AddIsolated()
	}
	return c
}

func sortInts(a []int) {
	for i := 1; i < len(a); i++ {
		for j := i; j > 0 && a[j-1] > a[j]; j-- {
			a[j-1], a[j] = a[j], a[j-1]
		}
	}
}

// ---- non-planar by construction (every builder returns the Kuratowski subgraph) ----

// kur is a subdivision of K5 or K3,3 on vertices 0..n-1.
type kur struct {
	n      int
	edges  [][2]int
	branch []int
	kind   string
}

// kSubdivision builds K5 (five == true) or K3,3 and subdivides every edge
// 0..maxSub times (at least minSub).
func kSubdivision(r *engine.Rng, five bool, minSub, maxSub int) *kur {
	k := &kur{}
	var base [][2]int
	if five {
		k.kind = "K5"
		k.n = 5
		for i := 0; i < 5; i++ {
			for j := 0; j < i; j++ {
				base = append(base, [2]int{j, i})
			}
		}
	} else {
		k.kind = "K3,3"
		k.n = 6
		for i := 0; i < 3; i++ {
			for j := 3; j < 6; j++ {
				base = append(base, [2]int{i, j})
			}
		}
	}
	for i := 0; i < k.n; i++ {
		k.branch = append(k.branch, i)
	}
	for _, e := range base {
		s := minSub
		if maxSub > minSub {
			s += r.Intn(maxSub - minSub + 1)
		}
		prev := e[0]
		for t := 0; t < s; t++ {
			k.edges = append(k.edges, [2]int{prev, k.n})
			prev = k.n
			k.n++
		}
		k.edges = append(k.edges, [2]int{prev, e[1]})
	}
	return k
}

// overlay returns P plus the subdivision H, where the H-vertices listed in
// onto are identified with the given (distinct) vertices of P and all others
// are new vertices after those of P, plus the listed links (H-vertex,
// P-vertex).  The second result is the image of H: a Kuratowski subgraph.
func overlay(p *rg.G, h *kur, onto map[int]int, links [][2]int) (*rg.G, [][2]int) {
	m := make([]int, h.n)
	next := p.N
	for v := 0; v < h.n; v++ {
		if t, ok := onto[v]; ok {
			m[v] = t
		} else {
			m[v] = next
			next++
		}
	}
	g := rg.New(next)
	for _, e := range p.Edges() {
		g.Add(e[0], e[1])
	}
	var img [][2]int
	for _, e := range h.edges {
		g.Add(m[e[0]], m[e[1]])
		img = append(img, [2]int{m[e[0]], m[e[1]]})
	}
	for _, l := range links {
		g.Add(m[l[0]], l[1])
	}
	return g, img
}

func relabelEdges(es [][2]int, perm []int) [][2]int {
	inv := make([]int, len(perm))
	for i, p := range perm {
		inv[p] = i
	}
	out := make([][2]int, len(es))
	for i, e := range es {
		out[i] = [2]int{inv[e[0]], inv[e[1]]}
	}
	return out
}

func identity(n int) []int {
	p := make([]int, n)
	for i := range p {
		p[i] = i
	}
	return p
}

func reversed(n int) []int {
	p := make([]int, n)
	for i := range p {
		p[i] = n - 1 - i
	}
	return p
}

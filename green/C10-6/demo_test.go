// Demonstration for green change C10/6 (BiconnectedComponents returns blocks of exactly the right capacity and no
// longer reserves room for a whole component in every partial block).
//
// Run (from the repository root, clean tree or patched tree):
//
//	cp /tmp/green-out/C10/6/demo_test.go graph/zz_green_c10_6_demo_test.go
//	export GOFLAGS=-mod=mod GOPROXY=off GOSUMDB=off GOTOOLCHAIN=local
//	go test -vet=off -count=1 -timeout 120s -v -run 'TestGreenC10_6' ./graph/
//	rm graph/zz_green_c10_6_demo_test.go
//
// TestGreenC10_6_Property checks the property itself (the blocks, each once and sorted, and the articulation vertices,
// against an independent recursive Hopcroft-Tarjan with an edge stack and against the definition of a cut vertex; in
// dense, sparse and relabelled form; the returned slices are independent of each other and of later calls): passes
// on BOTH trees.
// TestGreenC10_6_Incidental asserts the OLD memory layout (every returned block sits in an array with room for its
// whole connected component; a path on n vertices costs more than 8*n*n bytes): passes on the CLEAN tree, FAILS with
// the patch (cap == len, a few hundred kB).
package graph_test

import (
	"fmt"
	"math/rand"
	"reflect"
	"runtime"
	"sort"
	"testing"

	"github.com/Tom-Johnston/mamba/graph"
)

// c106Reference: blocks (sorted vertex lists, list sorted lexicographically) and cut vertices (sorted) of g.
// Blocks by the textbook recursive lowpoint algorithm with a stack of edges; an isolated vertex is a block by itself.
// Cut vertices by the definition: deleting the vertex increases the number of components.
func c106Reference(g graph.Graph) ([][]int, []int) {
	n := g.N()
	adj := make([][]int, n)
	for i := 0; i < n; i++ {
		for j := 0; j < n; j++ {
			if i != j && g.IsEdge(i, j) {
				adj[i] = append(adj[i], j)
			}
		}
	}
	num := make([]int, n)
	low := make([]int, n)
	counter := 0
	type edge struct{ a, b int }
	var stack []edge
	var blocks [][]int
	var dfs func(v, parent int)
	dfs = func(v, parent int) {
		counter++
		num[v] = counter
		low[v] = counter
		for _, w := range adj[v] {
			if num[w] == 0 {
				stack = append(stack, edge{v, w})
				dfs(w, v)
				if low[w] < low[v] {
					low[v] = low[w]
				}
				if low[w] >= num[v] {
					set := map[int]bool{}
					for {
						e := stack[len(stack)-1]
						stack = stack[:len(stack)-1]
						set[e.a] = true
						set[e.b] = true
						if e.a == v && e.b == w {
							break
						}
					}
					var b []int
					for x := range set {
						b = append(b, x)
					}
					sort.Ints(b)
					blocks = append(blocks, b)
				}
			} else if w != parent && num[w] < num[v] {
				stack = append(stack, edge{v, w})
				if num[w] < low[v] {
					low[v] = num[w]
				}
			}
		}
	}
	for v := 0; v < n; v++ {
		if num[v] == 0 {
			if len(adj[v]) == 0 {
				counter++
				num[v] = counter
				blocks = append(blocks, []int{v})
				continue
			}
			dfs(v, -1)
		}
	}
	c106SortBlocks(blocks)

	components := func(skip int) int {
		seen := make([]bool, n)
		c := 0
		for s := 0; s < n; s++ {
			if s == skip || seen[s] {
				continue
			}
			c++
			seen[s] = true
			st := []int{s}
			for len(st) > 0 {
				x := st[len(st)-1]
				st = st[:len(st)-1]
				for _, y := range adj[x] {
					if y != skip && !seen[y] {
						seen[y] = true
						st = append(st, y)
					}
				}
			}
		}
		return c
	}
	base := components(-1)
	cuts := []int{}
	for v := 0; v < n; v++ {
		if components(v) > base {
			cuts = append(cuts, v)
		}
	}
	return blocks, cuts
}

func c106SortBlocks(b [][]int) {
	sort.Slice(b, func(i, j int) bool {
		x, y := b[i], b[j]
		for k := 0; k < len(x) && k < len(y); k++ {
			if x[k] != y[k] {
				return x[k] < y[k]
			}
		}
		return len(x) < len(y)
	})
}

func c106Check(t *testing.T, name string, g graph.Graph) {
	wantB, wantA := c106Reference(g)
	gotB, gotA := graph.BiconnectedComponents(g)
	for _, b := range gotB {
		if !sort.IntsAreSorted(b) {
			t.Fatalf("%s: block %v is not sorted", name, b)
		}
	}
	// the property does not fix the order of the list of blocks or of the list of cut vertices
	sb := make([][]int, len(gotB))
	for i, b := range gotB {
		sb[i] = append([]int(nil), b...)
	}
	c106SortBlocks(sb)
	sa := append([]int{}, gotA...)
	sort.Ints(sa)
	if fmt.Sprint(sb) != fmt.Sprint(wantB) {
		t.Fatalf("%s: blocks %v, want %v", name, sb, wantB)
	}
	if fmt.Sprint(sa) != fmt.Sprint(wantA) {
		t.Fatalf("%s: articulation vertices %v, want %v", name, sa, wantA)
	}
	// the returned slices belong to the caller: growing and overwriting them changes neither the other blocks nor a
	// later call
	snapshot := fmt.Sprint(gotB, gotA)
	for i := range gotB {
		others := fmt.Sprint(gotB[:i], gotB[i+1:], gotA)
		grown := append(gotB[i], -7, -8, -9)
		for k := range grown {
			grown[k] = -1 - k
		}
		if fmt.Sprint(gotB[:i], gotB[i+1:], gotA) != others {
			t.Fatalf("%s: writing to block %d changed another result", name, i)
		}
	}
	againB, againA := graph.BiconnectedComponents(g)
	if fmt.Sprint(againB, againA) != snapshot {
		t.Fatalf("%s: second call differs after the first result was overwritten", name)
	}
}

func c106Graphs() []*graph.DenseGraph {
	rng := rand.New(rand.NewSource(106))
	gs := []*graph.DenseGraph{graph.NewDense(0, nil), graph.NewDense(1, nil), graph.NewDense(2, nil), graph.NewDense(5, nil),
		graph.Path(2), graph.Path(3), graph.Path(9), graph.Cycle(3), graph.Cycle(8), graph.Star(7), graph.CompleteGraph(6),
		graph.FriendshipGraph(5), graph.HypercubeGraph(3), graph.GeneralisedPetersenGraph(5, 2)}
	for r := 0; r < 400; r++ {
		n := 1 + rng.Intn(14)
		p := []float64{0.08, 0.15, 0.25, 0.4, 0.7}[r%5]
		gs = append(gs, graph.RandomGraph(n, p, rng.Int63()))
	}
	for r := 0; r < 60; r++ {
		n := 3 + rng.Intn(30)
		g := graph.RandomTree(n, rng.Int63())
		// a tree with a few extra edges: many bridges, cut vertices and some short cycles
		for e := 0; e < r%6; e++ {
			a, b := rng.Intn(n), rng.Intn(n)
			if a != b {
				g.AddEdge(a, b)
			}
		}
		// plus a few isolated vertices and a disjoint triangle
		g.AddVertex(nil)
		g.AddVertex([]int{})
		m := g.N()
		g.AddVertex([]int{})
		g.AddVertex([]int{m})
		g.AddVertex([]int{m, m + 1})
		gs = append(gs, g)
	}
	return gs
}

func TestGreenC10_6_Property(t *testing.T) {
	// all labelled graphs on up to 5 vertices
	for n := 0; n <= 5; n++ {
		pairs := n * (n - 1) / 2
		for mask := 0; mask < 1<<uint(pairs); mask++ {
			g := graph.NewDense(n, nil)
			k := 0
			for j := 1; j < n; j++ {
				for i := 0; i < j; i++ {
					if mask>>uint(k)&1 == 1 {
						g.AddEdge(i, j)
					}
					k++
				}
			}
			c106Check(t, fmt.Sprintf("n=%d mask=%d", n, mask), g)
		}
	}
	for k, g := range c106Graphs() {
		n := g.N()
		c106Check(t, fmt.Sprintf("dense #%d", k), g)
		sp := graph.NewSparse(n, nil)
		perm := rand.New(rand.NewSource(int64(k))).Perm(n)
		h := graph.NewDense(n, nil)
		for j := 1; j < n; j++ {
			for i := 0; i < j; i++ {
				if g.IsEdge(i, j) {
					sp.AddEdge(i, j)
					h.AddEdge(perm[i], perm[j])
				}
			}
		}
		c106Check(t, fmt.Sprintf("sparse #%d", k), sp)
		c106Check(t, fmt.Sprintf("relabelled #%d", k), h)
		// relabelling carries blocks to blocks and cut vertices to cut vertices
		b1, a1 := graph.BiconnectedComponents(g)
		b2, a2 := graph.BiconnectedComponents(h)
		m1 := make([][]int, len(b1))
		for i, b := range b1 {
			for _, x := range b {
				m1[i] = append(m1[i], perm[x])
			}
			sort.Ints(m1[i])
		}
		ma := []int{}
		for _, x := range a1 {
			ma = append(ma, perm[x])
		}
		sort.Ints(ma)
		sa := append([]int{}, a2...)
		sort.Ints(sa)
		c106SortBlocks(m1)
		c106SortBlocks(b2)
		if fmt.Sprint(m1) != fmt.Sprint(b2) || !reflect.DeepEqual(ma, sa) {
			t.Fatalf("#%d: relabelling changed the block structure", k)
		}
	}
}

func TestGreenC10_6_Incidental(t *testing.T) {
	// two components: a path 0..5 and a triangle with a pendant vertex 6,7,8 - 9
	g := graph.NewDense(10, nil)
	for i := 0; i < 5; i++ {
		g.AddEdge(i, i+1)
	}
	g.AddEdge(6, 7)
	g.AddEdge(7, 8)
	g.AddEdge(6, 8)
	g.AddEdge(8, 9)
	blocks, _ := graph.BiconnectedComponents(g)
	comps := graph.ConnectedComponents(g)
	for _, b := range blocks {
		size := 0
		for _, c := range comps {
			for _, x := range c {
				if x == b[0] {
					size = len(c)
				}
			}
		}
		t.Logf("block %v: len %d cap %d (its component has %d vertices)", b, len(b), cap(b), size)
		// OLD layout: every block lives in an array with room for its whole component
		if cap(b) != size {
			t.Errorf("block %v has capacity %d, the old implementation gave it capacity %d", b, cap(b), size)
		}
	}

	const n = 1500
	p := graph.Path(n)
	var before, after runtime.MemStats
	runtime.ReadMemStats(&before)
	bl, cut := graph.BiconnectedComponents(p)
	runtime.ReadMemStats(&after)
	if len(bl) != n-1 || len(cut) != n-2 {
		t.Fatalf("path: %d blocks, %d cut vertices", len(bl), len(cut))
	}
	used := after.TotalAlloc - before.TotalAlloc
	t.Logf("BiconnectedComponents(Path(%d)) allocated %d bytes", n, used)
	if used < 8*n*n {
		t.Errorf("allocated %d bytes, the old implementation allocated more than 8*n*n = %d (one n-sized buffer per block)", used, 8*n*n)
	}
}

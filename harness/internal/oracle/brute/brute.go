package brute

// Brute-force reference oracles on small graphs given as adjacency bitmasks.

type G struct {
	N   int
	Adj []uint32
}

func NewG(n int) *G { return &G{N: n, Adj: make([]uint32, n)} }
func (g *G) Add(i, j int) {
	if i != j {
		g.Adj[i] |= 1 << uint(j)
		g.Adj[j] |= 1 << uint(i)
	}
}
func (g *G) Has(i, j int) bool { return g.Adj[i]>>uint(j)&1 == 1 }
func (g *G) M() int {
	m := 0
	for _, a := range g.Adj {
		m += popc(a)
	}
	return m / 2
}
func popc(x uint32) int {
	c := 0
	for x != 0 {
		x &= x - 1
		c++
	}
	return c
}
func (g *G) Relabel(p []int) *G { // vertex i of result = p[i]
	h := NewG(g.N)
	for i := 0; i < g.N; i++ {
		for j := 0; j < i; j++ {
			if g.Has(p[i], p[j]) {
				h.Add(i, j)
			}
		}
	}
	return h
}

func (g *G) isClique(s uint32) bool {
	for t := s; t != 0; t &= t - 1 {
		v := tz(t)
		if (s&^(1<<uint(v)))&^g.Adj[v] != 0 {
			return false
		}
	}
	return true
}
func (g *G) isIndep(s uint32) bool {
	for t := s; t != 0; t &= t - 1 {
		v := tz(t)
		if s&g.Adj[v] != 0 {
			return false
		}
	}
	return true
}
func tz(x uint32) int {
	c := 0
	for x&1 == 0 {
		x >>= 1
		c++
	}
	return c
}
func (g *G) Omega() int {
	best := 0
	for s := uint32(0); s < 1<<uint(g.N); s++ {
		if c := popc(s); c > best && g.isClique(s) {
			best = c
		}
	}
	return best
}
func (g *G) Alpha() int {
	best := 0
	for s := uint32(0); s < 1<<uint(g.N); s++ {
		if c := popc(s); c > best && g.isIndep(s) {
			best = c
		}
	}
	return best
}
func (g *G) MaximalCliques() []uint32 {
	var r []uint32
	all := uint32(1)<<uint(g.N) - 1
	for s := uint32(0); s <= all; s++ {
		if g.N == 0 && s > 0 {
			break
		}
		if !g.isClique(s) {
			continue
		}
		max := true
		for v := 0; v < g.N; v++ {
			if s>>uint(v)&1 == 0 && s&^g.Adj[v] == 0 {
				max = false
				break
			}
		}
		if max {
			r = append(r, s)
		}
		if s == all {
			break
		}
	}
	return r
}

// Chi: chromatic number by DP over subsets.
func (g *G) Chi() int {
	n := g.N
	if n == 0 {
		return 0
	}
	full := uint32(1)<<uint(n) - 1
	indep := make([]bool, full+1)
	for s := uint32(0); s <= full; s++ {
		indep[s] = g.isIndep(s)
	}
	dp := make([]int, full+1)
	for s := uint32(1); s <= full; s++ {
		dp[s] = n + 1
		low := s & -s
		// choose independent subset containing lowest vertex
		rest := s ^ low
		for t := rest; ; t = (t - 1) & rest {
			if indep[t|low] && dp[s^(t|low)]+1 < dp[s] {
				dp[s] = dp[s^(t|low)] + 1
			}
			if t == 0 {
				break
			}
		}
	}
	return dp[full]
}

// CountColourings counts proper k-colourings by backtracking.
func (g *G) CountColourings(k int) int {
	col := make([]int, g.N)
	var rec func(v int) int
	rec = func(v int) int {
		if v == g.N {
			return 1
		}
		c := 0
		for x := 0; x < k; x++ {
			ok := true
			for u := 0; u < v; u++ {
				if g.Has(u, v) && col[u] == x {
					ok = false
					break
				}
			}
			if ok {
				col[v] = x
				c += rec(v + 1)
			}
		}
		return c
	}
	return rec(0)
}

func (g *G) LineGraph() (*G, [][2]int) {
	var es [][2]int
	for j := 0; j < g.N; j++ {
		for i := 0; i < j; i++ {
			if g.Has(i, j) {
				es = append(es, [2]int{i, j})
			}
		}
	}
	l := NewG(len(es))
	for a := range es {
		for b := 0; b < a; b++ {
			if es[a][0] == es[b][0] || es[a][0] == es[b][1] || es[a][1] == es[b][0] || es[a][1] == es[b][1] {
				l.Add(a, b)
			}
		}
	}
	return l, es
}

func (g *G) Dist() [][]int {
	n := g.N
	d := make([][]int, n)
	for i := range d {
		d[i] = make([]int, n)
		for j := range d[i] {
			if i != j {
				d[i][j] = 1 << 20
			}
			if g.Has(i, j) {
				d[i][j] = 1
			}
		}
	}
	for k := 0; k < n; k++ {
		for i := 0; i < n; i++ {
			for j := 0; j < n; j++ {
				if d[i][k]+d[k][j] < d[i][j] {
					d[i][j] = d[i][k] + d[k][j]
				}
			}
		}
	}
	for i := range d {
		for j := range d[i] {
			if d[i][j] >= 1<<20 {
				d[i][j] = -1
			}
		}
	}
	return d
}

func (g *G) comps(removed uint32) int {
	seen := removed
	c := 0
	for v := 0; v < g.N; v++ {
		if seen>>uint(v)&1 == 1 {
			continue
		}
		c++
		stack := []int{v}
		seen |= 1 << uint(v)
		for len(stack) > 0 {
			u := stack[len(stack)-1]
			stack = stack[:len(stack)-1]
			for t := g.Adj[u] &^ seen; t != 0; t &= t - 1 {
				w := tz(t)
				seen |= 1 << uint(w)
				stack = append(stack, w)
			}
		}
	}
	return c
}

func (g *G) Articulation() []int {
	base := g.comps(0)
	var r []int
	for v := 0; v < g.N; v++ {
		// removing v: components among the rest
		if g.comps(1<<uint(v)) > base-boolInt(g.Adj[v] == 0) {
			r = append(r, v)
		}
	}
	return r
}
func boolInt(b bool) int {
	if b {
		return 1
	}
	return 0
}

// Cycles enumerates all simple cycles; returns counts by length and for each cycle its edge set as list of pairs.
func (g *G) Cycles() (byLen []int, cycles [][]int) {
	n := g.N
	byLen = make([]int, n+1)
	// cycles with smallest vertex s, path s -> ... , second vertex < last vertex to fix orientation
	for s := 0; s < n; s++ {
		path := []int{s}
		var rec func(v int, used uint32)
		rec = func(v int, used uint32) {
			for t := g.Adj[v]; t != 0; t &= t - 1 {
				w := tz(t)
				if w == s && len(path) >= 3 && path[1] < path[len(path)-1] {
					byLen[len(path)]++
					c := make([]int, len(path))
					copy(c, path)
					cycles = append(cycles, c)
				}
				if w > s && used>>uint(w)&1 == 0 {
					path = append(path, w)
					rec(w, used|1<<uint(w))
					path = path[:len(path)-1]
				}
			}
		}
		rec(s, 1<<uint(s))
	}
	return
}

func (g *G) Girth() int {
	bl, _ := g.Cycles()
	for l := 3; l < len(bl); l++ {
		if bl[l] > 0 {
			return l
		}
	}
	return -1
}

func (g *G) InducedCycles() []int {
	_, cs := g.Cycles()
	r := make([]int, g.N+1)
	for _, c := range cs {
		// induced iff each vertex has exactly 2 neighbours within the cycle
		var s uint32
		for _, v := range c {
			s |= 1 << uint(v)
		}
		ok := true
		for _, v := range c {
			if popc(g.Adj[v]&s) != 2 {
				ok = false
				break
			}
		}
		if ok {
			r[len(c)]++
		}
	}
	return r
}

// InducedPaths counts induced paths by number of edges (length), length 0 = vertices.
func (g *G) InducedPaths() []int {
	n := g.N
	r := make([]int, n+1)
	for s := 0; s < n; s++ {
		path := []int{s}
		var rec func(v int, used uint32)
		rec = func(v int, used uint32) {
			for t := g.Adj[v] &^ used; t != 0; t &= t - 1 {
				w := tz(t)
				// w must be adjacent to no path vertex except v
				if g.Adj[w]&used&^(1<<uint(v)) != 0 {
					continue
				}
				path = append(path, w)
				r[len(path)-1]++
				rec(w, used|1<<uint(w))
				path = path[:len(path)-1]
			}
		}
		rec(s, 1<<uint(s))
	}
	for i := 1; i < len(r); i++ {
		r[i] /= 2
	}
	r[0] = n
	return r
}

func (g *G) Degeneracy() int {
	n := g.N
	removed := uint32(0)
	d := 0
	for k := 0; k < n; k++ {
		best, bv := 1<<20, -1
		for v := 0; v < n; v++ {
			if removed>>uint(v)&1 == 0 {
				if dg := popc(g.Adj[v] &^ removed); dg < best {
					best, bv = dg, v
				}
			}
		}
		if best > d {
			d = best
		}
		removed |= 1 << uint(bv)
	}
	return d
}

// Blocks: classes of edges under "share a cycle", as sorted vertex sets; bridges as 2-sets; isolated vertices as singletons.
func (g *G) Blocks() [][]int {
	_, cs := g.Cycles()
	var es [][2]int
	idx := map[[2]int]int{}
	for j := 0; j < g.N; j++ {
		for i := 0; i < j; i++ {
			if g.Has(i, j) {
				idx[[2]int{i, j}] = len(es)
				es = append(es, [2]int{i, j})
			}
		}
	}
	par := make([]int, len(es))
	for i := range par {
		par[i] = i
	}
	var find func(x int) int
	find = func(x int) int {
		for par[x] != x {
			x = par[x]
		}
		return x
	}
	for _, c := range cs {
		first := -1
		for k := range c {
			a, b := c[k], c[(k+1)%len(c)]
			if a > b {
				a, b = b, a
			}
			e := idx[[2]int{a, b}]
			if first < 0 {
				first = e
			} else {
				par[find(e)] = find(first)
			}
		}
	}
	sets := map[int]uint32{}
	for e := range es {
		r := find(e)
		sets[r] |= 1<<uint(es[e][0]) | 1<<uint(es[e][1])
	}
	var out [][]int
	for _, s := range sets {
		var b []int
		for t := s; t != 0; t &= t - 1 {
			b = append(b, tz(t))
		}
		out = append(out, b)
	}
	for v := 0; v < g.N; v++ {
		if g.Adj[v] == 0 {
			out = append(out, []int{v})
		}
	}
	return out
}

// FromRG converts a reference graph with at most 32 vertices.
func FromRG(r interface {
	Has(i, j int) bool
}, n int) *G {
	if n > 32 {
		panic("brute.FromRG: n > 32")
	}
	g := NewG(n)
	for i := 0; i < n; i++ {
		for j := 0; j < i; j++ {
			if r.Has(i, j) {
				g.Add(i, j)
			}
		}
	}
	return g
}

package c09

// Large structured graphs (n up to 200) whose invariants are known in closed
// form and whose witnesses are checked from the definition in polynomial
// time.  They carry the workload across the size thresholds (32, 64, 128
// vertices, ...) that the exhaustive sweeps and the brute-force oracles never
// reach.  Every closed form is validated against brute force at small sizes
// by a self-check (same constructor, n <= 12).

import (
	"fmt"
	"sort"
	"strings"

	"verif/internal/engine"
	"verif/internal/gen"
	"verif/internal/oracle/brute"
	"verif/internal/oracle/rg"
	"verif/internal/selfcheck"
)

// bigCase is one structured graph with its closed-form values (-1 = not
// tabulated / not to be judged).
type bigCase struct {
	name                             string
	g                                *rg.G
	omega, alpha, chi, chiIdx, degen int
	nCliques                         int     // number of maximal cliques, -1 unknown
	cliques                          [][]int // all maximal cliques (nil: only the count, or nothing, is known)
	callAlpha                        bool    // IndependenceNumber is cheap (few maximal independent sets)
	callIndex                        bool    // ChromaticIndex is cheap (small line graph whose chi equals its omega)
	callCliques                      bool    // AllMaximalCliques (few enough cliques)
	callChi                          bool    // ChromaticNumber is cheap (it starts with CliqueNumber)
	ksBelow                          bool    // IsKColorable(chi-1) is cheap as well (chi and chi+1 always are)
	skipOmega                        bool    // CliqueNumber walks every maximal clique: too many of them
	parts                            [][]int // colour classes / parts, for the GreedyColor orders "largest part first" and "largest part last"
	cliqueWalkDenseOnly              bool    // CliqueNumber / ChromaticNumber walk ~2*10^5 maximal cliques: 1 s dense, 5 s sparse; only the dense representation gets them
	indexAnyLabelling                bool    // the line-graph search is forced whatever the labelling (else ChromaticIndex only on the fixed labelling, measured)
}

func edgesAsCliques(g *rg.G) [][]int {
	var out [][]int
	for _, e := range g.Edges() {
		out = append(out, []int{e[0], e[1]})
	}
	// isolated vertices are maximal cliques of size one
	for v := 0; v < g.N; v++ {
		if g.Deg(v) == 0 {
			out = append(out, []int{v})
		}
	}
	return out
}

func maxInt(a ...int) int {
	m := a[0]
	for _, x := range a {
		if x > m {
			m = x
		}
	}
	return m
}

func minInt(a ...int) int {
	m := a[0]
	for _, x := range a {
		if x < m {
			m = x
		}
	}
	return m
}

// unionOfCliques returns the disjoint union of complete graphs of the given sizes.
func unionOfCliques(sizes []int) (*rg.G, [][]int) {
	n := 0
	for _, s := range sizes {
		n += s
	}
	g := rg.New(n)
	var parts [][]int
	at := 0
	for _, s := range sizes {
		var p []int
		for i := 0; i < s; i++ {
			p = append(p, at+i)
			for j := 0; j < i; j++ {
				g.Add(at+i, at+j)
			}
		}
		parts = append(parts, p)
		at += s
	}
	return g, parts
}

// productCliques lists one vertex from each part, all combinations (the
// maximal cliques of a complete multipartite graph).
func productCliques(parts [][]int) [][]int {
	out := [][]int{{}}
	for _, p := range parts {
		var next [][]int
		for _, c := range out {
			for _, v := range p {
				next = append(next, append(append([]int(nil), c...), v))
			}
		}
		out = next
	}
	return out
}

func multipartiteParts(sizes []int) [][]int {
	var parts [][]int
	at := 0
	for _, s := range sizes {
		var p []int
		for i := 0; i < s; i++ {
			p = append(p, at+i)
		}
		parts = append(parts, p)
		at += s
	}
	return parts
}

func product(sizes []int) int {
	p := 1
	for _, s := range sizes {
		p *= s
		if p > 1<<40 {
			return 1 << 40
		}
	}
	return p
}

// turanSizes: n split into r parts as evenly as possible.
func turanSizes(n, r int) []int {
	s := make([]int, r)
	for i := range s {
		s[i] = n / r
		if i < n%r {
			s[i]++
		}
	}
	return s
}

// perrin(n) = number of maximal independent sets of the cycle C_n (n >= 3? see
// the self-check): P(0)=3, P(1)=0, P(2)=2, P(n)=P(n-2)+P(n-3).
func perrin(n int) int {
	p := []int{3, 0, 2}
	for i := 3; i <= n; i++ {
		p = append(p, p[i-2]+p[i-3])
	}
	return p[n]
}

const maxListedCliques = 45000

// completeMultipartiteCase fills the closed forms of K_{sizes}.
func completeMultipartiteCase(name string, sizes []int) bigCase {
	g := gen.CompleteMultipartite(sizes...)
	n := g.N
	r := len(sizes)
	bc := bigCase{name: name, g: g, omega: r, alpha: maxInt(sizes...), chi: r, chiIdx: -1, degen: n - maxInt(sizes...),
		nCliques: product(sizes), callAlpha: true, callChi: true, ksBelow: true}
	bc.parts = multipartiteParts(sizes)
	if bc.nCliques <= maxListedCliques {
		bc.cliques = productCliques(multipartiteParts(sizes))
		bc.callCliques = true
	} else {
		// CliqueNumber (and ChromaticNumber through it) enumerates all maximal cliques
		bc.skipOmega = true
		bc.callChi = false
	}
	return bc
}

// bigFamilies returns the structured graphs of order n with the per-function
// cost rules (call... flags) measured on this machine: each guarded call
// stays far below the budget for a correct implementation.
func bigFamilies(n int) []bigCase {
	var out []bigCase
	add := func(b bigCase) { out = append(out, b) }

	// complete graph
	{
		b := bigCase{name: fmt.Sprintf("K_%d", n), g: gen.Complete(n), omega: n, alpha: 1, chi: n, chiIdx: -1, degen: n - 1,
			nCliques: 1, cliques: [][]int{identity(n)}, callAlpha: true, callCliques: true, callChi: true, ksBelow: true}
		if n%2 == 0 {
			b.chiIdx = n - 1
		} else {
			b.chiIdx = n
		}
		if n == 1 {
			b.chiIdx = 0
		}
		b.callIndex = n <= 8
		add(b)
	}
	// edgeless graph
	{
		g := rg.New(n)
		add(bigCase{name: fmt.Sprintf("E_%d", n), g: g, omega: 1, alpha: n, chi: 1, chiIdx: 0, degen: 0, nCliques: n, cliques: edgesAsCliques(g),
			callAlpha: true, callIndex: true, callCliques: true, callChi: true, ksBelow: true, indexAnyLabelling: true})
	}
	// path
	if n >= 2 {
		g := gen.PathG(n)
		ci := 2
		if n == 2 {
			ci = 1
		}
		add(bigCase{name: fmt.Sprintf("P_%d", n), g: g, omega: 2, alpha: (n + 1) / 2, chi: 2, chiIdx: ci, degen: 1, nCliques: n - 1, cliques: edgesAsCliques(g),
			callAlpha: n <= 33, callIndex: true, callCliques: true, callChi: true, ksBelow: true, indexAnyLabelling: true})
	}
	// cycle
	if n >= 4 {
		g := gen.Cycle(n)
		chi := 2 + n%2
		add(bigCase{name: fmt.Sprintf("C_%d", n), g: g, omega: 2, alpha: n / 2, chi: chi, chiIdx: chi, degen: 2, nCliques: n, cliques: edgesAsCliques(g),
			callAlpha: n <= 33, callIndex: true, callCliques: true, callChi: true, ksBelow: true, indexAnyLabelling: true})
	}
	// complement of the cycle (n <= 33: Perrin-many maximal cliques)
	if n >= 6 && n <= 33 {
		g := gen.Cycle(n).Complement()
		add(bigCase{name: fmt.Sprintf("co-C_%d", n), g: g, omega: n / 2, alpha: 2, chi: (n + 1) / 2, chiIdx: -1, degen: n - 3, nCliques: perrin(n),
			callAlpha: true, callCliques: true, callChi: n%2 == 0, ksBelow: false})
	}
	// star
	if n >= 3 {
		g := gen.CompleteMultipartite(1, n-1)
		add(bigCase{name: fmt.Sprintf("star_%d", n), g: g, omega: 2, alpha: n - 1, chi: 2, chiIdx: n - 1, degen: 1, nCliques: n - 1, cliques: edgesAsCliques(g),
			callAlpha: true, callIndex: true, callCliques: true, callChi: true, ksBelow: true, indexAnyLabelling: true})
	}
	// complete bipartite: balanced and very unbalanced
	if n >= 4 {
		for _, a := range []int{n / 2, 3} {
			b := n - a
			if a < 1 || b < a || (a == 3 && n/2 <= 3) {
				continue
			}
			g := gen.CompleteMultipartite(a, b)
			add(bigCase{name: fmt.Sprintf("K_%d,%d", a, b), g: g, omega: 2, alpha: b, chi: 2, chiIdx: b, degen: a, nCliques: a * b, cliques: edgesAsCliques(g),
				callAlpha: true, callIndex: a == 3 && b <= 130, callCliques: true, callChi: true, ksBelow: true})
		}
	}
	// Turan graphs (balanced complete multipartite) with 3, 5 and 8 parts
	for _, r := range []int{3, 5} {
		if n >= 2*r {
			add(completeMultipartiteCase(fmt.Sprintf("turan_%d_%d", n, r), turanSizes(n, r)))
		}
	}
	// complete multipartite with many parts: n-8 singletons and parts 2,3,3
	if n >= 10 {
		sizes := make([]int, n-8)
		for i := range sizes {
			sizes[i] = 1
		}
		sizes = append(sizes, 2, 3, 3)
		add(completeMultipartiteCase(fmt.Sprintf("K_1x%d,2,3,3", n-8), sizes))
	}
	// disjoint union of cliques of different sizes: one big, a few small
	if n >= 12 {
		sizes := []int{n - 10, 4, 3, 2, 1}
		g, parts := unionOfCliques(sizes)
		add(bigCase{name: fmt.Sprintf("K_%d+K_4+K_3+K_2+K_1", n-10), g: g, omega: maxInt(sizes...), alpha: len(sizes), chi: maxInt(sizes...), chiIdx: -1, degen: maxInt(sizes...) - 1,
			nCliques: len(parts), cliques: parts, callAlpha: true, callCliques: true, callChi: true, ksBelow: true})
	}
	// many small cliques of sizes 1..4 repeated
	if n >= 10 {
		var sizes []int
		left := n
		for k := 0; left > 0; k++ {
			s := 1 + k%4
			if s > left {
				s = left
			}
			sizes = append(sizes, s)
			left -= s
		}
		g, parts := unionOfCliques(sizes)
		add(bigCase{name: fmt.Sprintf("cliques1234_%d", n), g: g, omega: maxInt(sizes...), alpha: len(sizes), chi: maxInt(sizes...), chiIdx: -1, degen: maxInt(sizes...) - 1,
			nCliques: len(parts), cliques: parts, callAlpha: n <= 24, callCliques: true, callChi: true, ksBelow: true})
	}
	// wheel: rim C_(n-1) + hub
	if n >= 6 {
		r := n - 1
		g := gen.Wheel(r)
		var tri [][]int
		for i := 0; i < r; i++ {
			tri = append(tri, []int{i, (i + 1) % r, r})
		}
		add(bigCase{name: fmt.Sprintf("wheel_%d", n), g: g, omega: 3, alpha: r / 2, chi: 3 + r%2, chiIdx: r, degen: 3, nCliques: r, cliques: tri,
			callAlpha: n <= 33, callIndex: n <= 66, callCliques: true, callChi: true, ksBelow: true})
	}
	if n%2 == 0 && n >= 8 {
		k := n / 2
		// ladder P_k x K_2
		g := gen.Grid(k, 2)
		add(bigCase{name: fmt.Sprintf("ladder_%d", n), g: g, omega: 2, alpha: k, chi: 2, chiIdx: 3, degen: 2, nCliques: 3*k - 2, cliques: edgesAsCliques(g),
			callAlpha: n <= 32, callIndex: true, callCliques: true, callChi: true, ksBelow: true})
		// prism C_k x K_2
		p := gen.GenPetersen(k, 1)
		alpha := k
		if k%2 == 1 {
			alpha = k - 1
		}
		add(bigCase{name: fmt.Sprintf("prism_%d", n), g: p, omega: 2, alpha: alpha, chi: 2 + k%2, chiIdx: 3, degen: 3, nCliques: 3 * k, cliques: edgesAsCliques(p),
			callAlpha: n <= 32, callIndex: true, callCliques: true, callChi: true, ksBelow: true})
	}
	// cocktail party K_n minus a perfect matching (2^(n/2) maximal cliques)
	if n%2 == 0 && n >= 4 && n <= 24 {
		add(completeMultipartiteCase(fmt.Sprintf("cocktail_%d", n), func() []int {
			s := make([]int, n/2)
			for i := range s {
				s[i] = 2
			}
			return s
		}()))
	}
	// hypercube Q_d for n = 2^d
	for d := 2; d <= 7; d++ {
		if n == 1<<uint(d) {
			g := gen.Hypercube(d)
			add(bigCase{name: fmt.Sprintf("Q_%d", d), g: g, omega: 2, alpha: n / 2, chi: 2, chiIdx: d, degen: d, nCliques: d * n / 2, cliques: edgesAsCliques(g),
				callAlpha: d <= 4, callIndex: d <= 6, callCliques: true, callChi: true, ksBelow: true})
		}
	}
	return out
}

// degreeFamilies: graphs whose degrees and colour classes cross 255 / 256 / 257
// (a counter of "neighbours with colour c" kept in 8 bits wraps exactly there).
// Complete multipartite graphs with a part of 255..300 vertices, stars, the
// wheel with 300 rim vertices, the join of K_3 with 300 isolated vertices.
func degreeFamilies() []bigCase {
	var out []bigCase
	multi := func(name string, sizes ...int) {
		b := completeMultipartiteCase(name, sizes)
		// CliqueNumber walks all maximal cliques (up to 2*10^5 here: measured
		// 0.3 - 1.5 s); the lists themselves are only compared where short.
		b.skipOmega = false
		b.callChi = true
		b.callAlpha = true
		if len(sizes) == 2 {
			b.chiIdx = maxInt(sizes...) // not called: the line graph has a*b vertices
		}
		b.cliqueWalkDenseOnly = b.nCliques > 100000
		out = append(out, b)
	}
	multi("K_255,256", 255, 256)
	multi("K_256,257", 256, 257)
	multi("K_257,256", 257, 256)
	multi("K_256,300", 256, 300)
	multi("K_256,258,3", 256, 258, 3)
	multi("K_3,256,257", 3, 256, 257)
	multi("K_2,300", 2, 300)
	multi("K_1,1,300", 1, 1, 300)
	multi("K_3+E_300", 1, 1, 1, 300) // join of K_3 with 300 isolated vertices
	for _, l := range []int{255, 256, 257, 300} {
		b := completeMultipartiteCase(fmt.Sprintf("star_%dleaves", l), []int{1, l})
		b.chiIdx = l
		b.callIndex = true // the line graph is K_l: forced search
		b.indexAnyLabelling = true
		out = append(out, b)
	}
	{
		r := 300
		g := gen.Wheel(r)
		var tri [][]int
		var rim []int
		for i := 0; i < r; i++ {
			tri = append(tri, []int{i, (i + 1) % r, r})
			rim = append(rim, i)
		}
		out = append(out, bigCase{name: "wheel_300rim", g: g, omega: 3, alpha: r / 2, chi: 3, chiIdx: r, degen: 3, nCliques: r, cliques: tri,
			callCliques: true, callChi: true, ksBelow: true, parts: [][]int{{r}, rim}})
	}
	return out
}

// mycielskiChain returns M_2 = K_2, M_3 = C_5, ... up to M_k (chi = k, omega = 2).
func mycielskiChain(k int) []bigCase {
	var out []bigCase
	g := gen.Complete(2)
	for i := 2; i <= k; i++ {
		if i > 2 {
			g = gen.Mycielski(g)
		}
		out = append(out, bigCase{name: fmt.Sprintf("mycielski_M%d", i), g: g, omega: 2, alpha: -1, chi: i, chiIdx: -1, degen: -1, nCliques: g.M(), cliques: edgesAsCliques(g),
			callCliques: true, callChi: i <= 5, ksBelow: i <= 5})
	}
	return out
}

// bigSizes are the orders at which the structured families are built: around
// the word-size thresholds and beyond.
var bigSizes = []int{31, 32, 33, 63, 64, 65, 66, 100, 127, 128, 129, 130, 200}

// extraSizes: small even orders for the cocktail party graphs.
var extraSizes = []int{20, 22, 24}

// bigUnits registers one unit per (order, family).
func bigUnits(c *engine.Ctx) {
	sizes := append(append([]int(nil), extraSizes...), bigSizes...)
	for _, n := range sizes {
		for fi, b := range bigFamilies(n) {
			if n < 31 && !strings.HasPrefix(b.name, "cocktail") {
				continue // only the cocktail party graphs at the extra sizes
			}
			n, fi, b := n, fi, b
			c.Unit(fmt.Sprintf("large/n=%d/%s", n, b.name), func() { runBig(c, b, n*1000+fi) })
		}
	}
	for fi, b := range mycielskiChain(6) {
		fi, b := fi, b
		c.Unit("large/"+b.name, func() { runBig(c, b, 900000+fi) })
	}
	for fi, b := range degreeFamilies() {
		fi, b := fi, b
		c.Unit("large/degree256/"+b.name, func() {
			c.Obs("large:degree>=255", 1)
			runBig(c, b, 950000+fi)
		})
	}
}

func mapCliques(cl [][]int, inv []int) []string {
	out := make([]string, 0, len(cl))
	for _, s := range cl {
		t := make([]int, len(s))
		for i, v := range s {
			t[i] = inv[v]
		}
		sort.Ints(t)
		out = append(out, fmt.Sprint(t))
	}
	sort.Strings(out)
	return out
}

// runBig runs one structured graph under the identity and a seeded relabelling
// in the dense and sparse representations.
func runBig(c *engine.Ctx, b bigCase, idx int) {
	n := b.g.N
	c.Obs("large:graphs", 1)
	c.Obs(fmt.Sprintf("large:n=%d", n), 1)
	r := &ref{n: n, m: b.g.M(), omega: b.omega, alpha: b.alpha, chi: b.chi, chiIdx: b.chiIdx, degen: b.degen, nCliques: b.nCliques}
	if !b.callAlpha {
		if b.alpha >= 0 {
			c.Obs("large:IndependenceNumber_skipped(exponentially many maximal independent sets)", 1)
		}
		r.alpha = -1
	}
	if b.skipOmega {
		c.Obs("large:CliqueNumber_skipped(too many maximal cliques)", 1)
		r.omega = -1
	}
	if !b.callIndex {
		c.Obs("large:ChromaticIndex_skipped(line graph too large or chi(L) > omega(L))", 1)
	}
	if !b.callCliques {
		c.Obs("large:AllMaximalCliques_skipped(too many cliques)", 1)
	}
	for li := 0; li < 2; li++ {
		// quick tier, n >= 200: identity labelling in the dense and the seeded
		// relabelling in the sparse representation; everything else: both in both
		reps := map[string]bool{"dense": true, "sparse": true}
		if !c.Thorough() && n >= 200 {
			if li == 0 {
				reps = map[string]bool{"dense": true}
			} else {
				reps = map[string]bool{"sparse": true}
			}
		}
		p := identity(n)
		id := b.name
		rng := fixedRng("large-case", idx)
		if li == 1 {
			p = c.Rand("large-relabel", idx).Perm(n)
			id = b.name + "(relabelled)"
			rng = c.Rand("large-case", idx)
		}
		inv := make([]int, n)
		for i, v := range p {
			inv[v] = i
		}
		cs := &graphCase{workload: "large", class: b.name, labelling: li, perm: p, g: b.g.Induced(p), ref: r, id: id}
		if b.cliques != nil {
			cs.cliqueSets = mapCliques(b.cliques, inv)
		}
		var ks []int
		for _, k := range []int{b.chi - 1, b.chi, b.chi + 1} {
			if k < 0 || (k == b.chi-1 && !b.ksBelow) {
				continue
			}
			ks = append(ks, k)
		}
		opt := runOpts{index: b.callIndex && (li == 0 || b.indexAnyLabelling), seededOrders: 2, rng: rng, reps: reps,
			ks: ks, fixedKs: true, noChi: !b.callChi, noCliques: !b.callCliques}
		if b.parts != nil {
			// vertex orders by part: largest part first / last
			ps := append([][]int(nil), b.parts...)
			sort.SliceStable(ps, func(x, y int) bool { return len(ps[x]) > len(ps[y]) })
			var first, last []int
			for _, part := range ps {
				for _, v := range part {
					first = append(first, inv[v])
				}
			}
			for k := len(ps) - 1; k >= 0; k-- {
				for _, v := range ps[k] {
					last = append(last, inv[v])
				}
			}
			opt.extraOrders = [][]int{first, last}
			opt.extraOrderNames = []string{"largest-part-first", "largest-part-last"}
		}
		if (b.cliqueWalkDenseOnly || (!c.Thorough() && b.nCliques > maxListedCliques && n > 500)) && reps["sparse"] {
			if reps["dense"] {
				od := opt
				od.reps = map[string]bool{"dense": true}
				runCase(c, cs, od)
			}
			// sparse: without the two functions that walk every maximal clique
			c.Obs("large:CliqueNumber/ChromaticNumber_skipped_on_sparse(>=65000 maximal cliques)", 1)
			rs := *r
			rs.omega = -1
			css := *cs
			css.ref = &rs
			os := opt
			os.reps = map[string]bool{"sparse": true}
			os.noChi = true
			runCase(c, &css, os)
		} else {
			// further representations (views of views, representation variants,
			// struct values, a caller-implemented Graph: reprs.go) where no function
			// walks more than maxListedCliques cliques: the seeded relabelling gets
			// one of them in the quick tier, both labellings get two in thorough
			// (a view of a view pays for every Neighbours call with a merge through
			// each level: n <= 66 in the quick tier)
			if n <= 130 && b.nCliques <= maxListedCliques {
				if c.Thorough() {
					opt.variants = 1
					if n <= 66 || li == 1 {
						opt.nested = 1
					}
				} else if li == 1 {
					if idx%2 == 1 {
						opt.variants = 1
					} else if n <= 66 {
						opt.nested = 1
					}
				}
				if opt.nested+opt.variants > 0 {
					c.Obs("large:graphs_in_further_representations", 1)
				}
			}
			runCase(c, cs, opt)
		}
		if li == 0 && (n == 64 || n == 200) {
			c.Sample(fmt.Sprintf("large:n=%d", n), map[string]interface{}{"name": b.name, "n": n, "m": r.m, "omega": b.omega, "alpha": b.alpha, "chi": b.chi, "chi_index": b.chiIdx, "degeneracy": b.degen, "maximal_cliques": b.nCliques})
		}
	}
}

func init() {
	selfcheck.Add("c09: closed forms of the large structured families vs brute force (n <= 12)", func() error {
		check := func(b bigCase) error {
			g := b.g
			if g.N > 13 {
				return nil
			}
			r := computeRef(g, false, true)
			cmp := func(what string, closed, got int) error {
				if closed >= 0 && got >= 0 && closed != got {
					return fmt.Errorf("%s: closed form %s = %d, brute force %d", b.name, what, closed, got)
				}
				return nil
			}
			for _, e := range []error{cmp("omega", b.omega, r.omega), cmp("alpha", b.alpha, r.alpha), cmp("chi", b.chi, r.chi), cmp("chi'", b.chiIdx, r.chiIdx),
				cmp("degeneracy", b.degen, r.degen), cmp("number of maximal cliques", b.nCliques, r.nCliques)} {
				if e != nil {
					return e
				}
			}
			if b.cliques != nil {
				bg := brute.FromRG(g, g.N)
				var want []string
				for _, s := range bg.MaximalCliques() {
					var vs []int
					for v := 0; v < g.N; v++ {
						if s>>uint(v)&1 == 1 {
							vs = append(vs, v)
						}
					}
					want = append(want, fmt.Sprint(vs))
				}
				sort.Strings(want)
				got := mapCliques(b.cliques, identity(g.N))
				if fmt.Sprint(got) != fmt.Sprint(want) {
					return fmt.Errorf("%s: closed-form clique list %v, brute force %v", b.name, got, want)
				}
			}
			return nil
		}
		for n := 1; n <= 12; n++ {
			for _, b := range bigFamilies(n) {
				if err := check(b); err != nil {
					return err
				}
			}
		}
		for _, b := range mycielskiChain(4) {
			if err := check(b); err != nil {
				return err
			}
		}
		// the join / tripartite / star closed forms at small sizes (same code path as degreeFamilies)
		for _, sizes := range [][]int{{1, 1, 1, 5}, {1, 1, 6}, {2, 7}, {4, 5, 3}, {3, 4, 5}, {1, 9}, {5, 4}} {
			b := completeMultipartiteCase(fmt.Sprint("K_", sizes), sizes)
			if len(sizes) == 2 {
				b.chiIdx = maxInt(sizes...)
			}
			if err := check(b); err != nil {
				return err
			}
		}
		for _, b := range degreeFamilies() {
			want := 0
			for _, part := range b.parts {
				want += len(part)
			}
			if want != b.g.N {
				return fmt.Errorf("%s: parts cover %d of %d vertices", b.name, want, b.g.N)
			}
		}
		// the constructors must really produce the orders asked for
		for _, n := range bigSizes {
			for _, b := range bigFamilies(n) {
				if b.g.N != n {
					return fmt.Errorf("%s has %d vertices, want %d", b.name, b.g.N, n)
				}
			}
		}
		return nil
	})
}

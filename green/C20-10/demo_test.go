// Demonstration for C20, change 10 (LIB writes through a private "sticky" error writer and looks at the error once,
// at the end, instead of returning at the first failed step).
//
// Run (from the root of the library, after copying this file into the tsp directory):
//
//	cp demo_test.go <repo>/tsp/c20_demo_test.go
//	cd <repo> && GOFLAGS=-mod=mod GOPROXY=off GOSUMDB=off GOTOOLCHAIN=local go test -vet=off -count=1 -timeout 600s -run 'TestC20Demo' -v ./tsp
//
// TestC20DemoProperty checks the property itself with a plain recording writer, a *bufio.Writer and a real file:
// DIMENSION is n, the LOWER_DIAG_ROW section holds exactly weights(i, j) for j < i and 0 on the diagonal, row by row,
// then EOF; weights is only called with 0 <= j < i < n; a failing Write on w at every position (transient and
// permanent, several short counts) gives a non-nil error. TestC20DemoErrorPath adds, for every failure position: the
// error returned is the error of the FIRST failing Write, w is never written to again after that Write, what w
// received before it is a prefix of the complete problem, and WriteString is used for the same pieces as before.
// Both pass before and after the change.
// TestC20DemoIncidentalWorkAfterFailure pins OLD behaviour the property does not mention: when one of the three header
// Writes fails, LIB returns at once and never calls weights. It passes on the clean tree and fails with the change,
// where LIB still asks for all n(n-1)/2 weights (in the usual order, with legal arguments), lets its tabwriter format
// them into the error writer, which drops them, and then returns the header error.
package tsp_test

import (
	"bufio"
	"bytes"
	"errors"
	"fmt"
	"io/ioutil"
	"os"
	"strconv"
	"strings"
	"testing"

	"github.com/Tom-Johnston/mamba/tsp"
)

var errC20Injected = errors.New("c20 demo: injected write failure")

// c20Writer records what it is given and fails the Write with index failAt (0-based); short is how many bytes it
// claims to have taken on the failing Write; if permanent every later Write fails as well.
type c20Writer struct {
	buf       bytes.Buffer
	calls     int
	failAt    int
	short     int
	permanent bool
}

func (w *c20Writer) Write(p []byte) (int, error) {
	k := w.calls
	w.calls++
	if w.failAt >= 0 && (k == w.failAt || (w.permanent && k > w.failAt)) {
		s := w.short
		if s > len(p) {
			s = len(p)
		}
		w.buf.Write(p[:s])
		return s, errC20Injected
	}
	w.buf.Write(p)
	return len(p), nil
}

func c20Weights(kind int) func(i, j int) int {
	switch kind {
	case 0:
		return func(i, j int) int { return 100*j + i }
	case 1:
		return func(i, j int) int { return -(7*i - 3*j) * (i + j) }
	case 2:
		return func(i, j int) int { return (1<<62 - 1) - i*1000003 + j }
	default:
		return func(i, j int) int { return i*i - 13*j } // asymmetric in definition
	}
}

// c20Check parses out as a TSPLIB problem and compares it with n and f.
func c20Check(out string, n int, f func(i, j int) int) error {
	head := "TYPE: TSP\nDIMENSION: " + strconv.Itoa(n) + "\nDISPLAY_DATA_TYPE: NO_DISPLAY\nEDGE_WEIGHT_TYPE: EXPLICIT\nEDGE_WEIGHT_FORMAT: LOWER_DIAG_ROW\nEDGE_WEIGHT_SECTION\n"
	if !strings.HasPrefix(out, head) {
		return fmt.Errorf("bad header in %q", out)
	}
	rest := out[len(head):]
	if !strings.HasSuffix(rest, "EOF\n") {
		return fmt.Errorf("no EOF trailer")
	}
	rest = rest[:len(rest)-len("EOF\n")]
	lines := strings.Split(rest, "\n")
	if lines[len(lines)-1] != "" {
		return fmt.Errorf("weight section does not end with a newline")
	}
	lines = lines[:len(lines)-1]
	if len(lines) != n {
		return fmt.Errorf("%d rows, want %d", len(lines), n)
	}
	for i, l := range lines {
		fs := strings.Fields(l)
		if len(fs) != i+1 {
			return fmt.Errorf("row %d has %d entries", i, len(fs))
		}
		for j, s := range fs {
			v, err := strconv.Atoi(s)
			if err != nil {
				return err
			}
			want := 0
			if j < i {
				want = f(i, j)
			}
			if v != want {
				return fmt.Errorf("entry (%d,%d) = %d, want %d", i, j, v, want)
			}
		}
	}
	return nil
}

func TestC20DemoProperty(t *testing.T) {
	for _, n := range []int{0, 1, 2, 3, 5, 12, 30} {
		for kind := 0; kind < 4; kind++ {
			f := c20Weights(kind)
			guarded := func(i, j int) int {
				if !(0 <= j && j < i && i < n) {
					t.Fatalf("weights(%d, %d) called with n = %d", i, j, n)
				}
				return f(i, j)
			}
			// (a) plain writer
			w := &c20Writer{failAt: -1}
			if err := tsp.LIB(w, n, guarded); err != nil {
				t.Fatalf("n=%d: %v", n, err)
			}
			if err := c20Check(w.buf.String(), n, f); err != nil {
				t.Fatalf("n=%d kind=%d plain: %v", n, kind, err)
			}
			total := w.calls
			// (b) bufio.Writer, two buffer sizes
			for _, size := range []int{16, 1 << 20} {
				in := &c20Writer{failAt: -1}
				bw := bufio.NewWriterSize(in, size)
				if err := tsp.LIB(bw, n, guarded); err != nil {
					t.Fatalf("n=%d: %v", n, err)
				}
				if err := bw.Flush(); err != nil {
					t.Fatal(err)
				}
				if err := c20Check(in.buf.String(), n, f); err != nil {
					t.Fatalf("n=%d kind=%d bufio %d: %v", n, kind, size, err)
				}
			}
			// (c) real file
			file, err := ioutil.TempFile("", "c20demo")
			if err != nil {
				t.Fatal(err)
			}
			if err := tsp.LIB(file, n, guarded); err != nil {
				t.Fatalf("n=%d file: %v", n, err)
			}
			file.Close()
			data, _ := ioutil.ReadFile(file.Name())
			os.Remove(file.Name())
			if err := c20Check(string(data), n, f); err != nil {
				t.Fatalf("n=%d kind=%d file: %v", n, kind, err)
			}
			// failing writes at every position
			if n > 12 {
				continue
			}
			for k := 0; k < total; k++ {
				for _, permanent := range []bool{false, true} {
					for _, short := range []int{0, 1, 1 << 30} {
						fw := &c20Writer{failAt: k, short: short, permanent: permanent}
						if err := tsp.LIB(fw, n, guarded); err == nil {
							t.Fatalf("n=%d: failing Write %d (permanent=%v short=%d) gave a nil error", n, k, permanent, short)
						}
					}
				}
			}
		}
	}
	// a closed file is refused with an error
	file, err := ioutil.TempFile("", "c20demo")
	if err != nil {
		t.Fatal(err)
	}
	file.Close()
	os.Remove(file.Name())
	if err := tsp.LIB(file, 4, c20Weights(0)); err == nil {
		t.Fatal("closed file: nil error")
	}
}

// c20StringWriter is a c20Writer that also has WriteString, and records which pieces arrive that way.
type c20StringWriter struct {
	c20Writer
	viaString []string
}

func (w *c20StringWriter) WriteString(s string) (int, error) {
	w.viaString = append(w.viaString, s)
	return w.c20Writer.Write([]byte(s))
}

func TestC20DemoErrorPath(t *testing.T) {
	n := 7
	f := c20Weights(1)
	ref := &c20StringWriter{c20Writer: c20Writer{failAt: -1}}
	if err := tsp.LIB(ref, n, f); err != nil {
		t.Fatal(err)
	}
	if len(ref.viaString) != 3 || ref.viaString[0] != "TYPE: TSP\n" || ref.viaString[2] != "EOF\n" {
		t.Fatalf("pieces given to WriteString: %q", ref.viaString)
	}
	full := ref.buf.String()
	for k := 0; k < ref.calls; k++ {
		for _, short := range []int{0, 2} {
			first := fmt.Errorf("failure number one at Write %d", k)
			calls := 0
			w := c20FuncWriter(func(p []byte) (int, error) {
				calls++
				if calls-1 == k {
					s := short
					if s > len(p) {
						s = len(p)
					}
					return s, first
				}
				if calls-1 > k {
					t.Fatalf("Write %d after the failed Write %d", calls-1, k)
				}
				return len(p), nil
			})
			if err := tsp.LIB(w, n, f); err != first {
				t.Fatalf("failing Write %d: got error %v, want the writer's error", k, err)
			}
		}
		// prefix check with the recording writer
		fw := &c20Writer{failAt: k, short: 1}
		if err := tsp.LIB(fw, n, f); err != errC20Injected {
			t.Fatalf("failing Write %d: error %v", k, err)
		}
		if !strings.HasPrefix(full, fw.buf.String()) || fw.calls != k+1 {
			t.Fatalf("failing Write %d: w received %q in %d calls", k, fw.buf.String(), fw.calls)
		}
	}
}

type c20FuncWriter func(p []byte) (int, error)

func (f c20FuncWriter) Write(p []byte) (int, error) { return f(p) }

func TestC20DemoIncidentalWorkAfterFailure(t *testing.T) {
	n := 9
	for k := 0; k < 3; k++ { // the three header Writes
		asked := 0
		f := func(i, j int) int {
			if !(0 <= j && j < i && i < n) {
				t.Fatalf("weights(%d, %d)", i, j)
			}
			asked++
			return i + j
		}
		w := &c20Writer{failAt: k}
		err := tsp.LIB(w, n, f)
		if err != errC20Injected {
			t.Fatalf("header Write %d fails: error %v", k, err)
		}
		if w.calls != k+1 {
			t.Fatalf("header Write %d fails: %d Writes on w", k, w.calls)
		}
		t.Logf("header Write %d fails: weights called %d times afterwards", k, asked)
		if asked != 0 {
			t.Errorf("OLD behaviour gone: after a failed header Write LIB used to return without calling weights; now %d calls (n(n-1)/2 = %d)", asked, n*(n-1)/2)
		}
	}
}

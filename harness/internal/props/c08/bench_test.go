package c08

import (
	"testing"
	"time"

	"github.com/Tom-Johnston/mamba/graph"

	"verif/internal/oracle/codec"
	"verif/internal/oracle/rg"
)

func TestBench(t *testing.T) {
	strs := []string{}
	for x := 0; x < 4096; x++ {
		strs = append(strs, string([]byte{':', 'P' , byte(x>>6) + 63, byte(x&63) + 63}))
	}
	t0 := time.Now()
	for _, s := range strs {
		graph.Sparse6Decode(s)
	}
	t.Log("decode", time.Since(t0)/time.Duration(len(strs)))
	t0 = time.Now()
	for _, s := range strs {
		canonical(s6, s)
	}
	t.Log("canonical", time.Since(t0)/time.Duration(len(strs)))
	t0 = time.Now()
	for _, s := range strs {
		h, _ := graph.Sparse6Decode(s)
		rg.WellFormed(h)
	}
	t.Log("decode+wellformed", time.Since(t0)/time.Duration(len(strs)))
	t0 = time.Now()
	for _, s := range strs {
		codec.Sparse6Scan(s, 4096)
	}
	t.Log("scan", time.Since(t0)/time.Duration(len(strs)))
	t0 = time.Now()
	for _, s := range strs {
		h, _ := graph.Sparse6Decode(s)
		rg.FromGraph(h)
	}
	t.Log("decode+fromgraph", time.Since(t0)/time.Duration(len(strs)))
	t0 = time.Now()
	for _, s := range strs {
		detail(s, "x")
	}
	t.Log("detail", time.Since(t0)/time.Duration(len(strs)))
}

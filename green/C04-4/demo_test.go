// Demonstration for C04 change 4 (WithPruning/All reduce the class a modulo m, so values of a outside
// 0..m-1 select a class instead of nothing).
//
// Run (from the root of the mamba repository):
//
//	mkdir -p c04demo && cp /tmp/green-out/C04/4/demo_test.go c04demo/ && \
//	  GOFLAGS=-mod=mod GOPROXY=off GOSUMDB=off GOTOOLCHAIN=local \
//	  go test -vet=off -count=1 -timeout 300s -v ./c04demo/ ; rm -rf c04demo
//
// TestProperty checks C04 itself (every save position, save/load chains, non-disturbance, independence) for
// values of a inside AND outside 0..m-1 and passes on the clean tree AND with the patch.
// TestInDomainOutputUnchanged pins digests of the complete output for a in 0..m-1; passes on both trees.
// TestIncidentalOutOfDomainClass asserts the OLD behaviour for a outside 0..m-1 (nothing is produced, and the
// saved record keeps the unreduced a); it passes on the clean tree and FAILS with the patch.
package c04demo

import (
	"bytes"
	"crypto/sha256"
	"encoding/gob"
	"fmt"
	"strings"
	"testing"

	"github.com/Tom-Johnston/mamba/graph"
	"github.com/Tom-Johnston/mamba/graph/search"
)

func snap(g *graph.DenseGraph) string {
	return fmt.Sprint(g.NumberOfVertices, g.NumberOfEdges, g.DegreeSequence, g.Edges)
}

func drain(it *search.GraphIterator) []string {
	var out []string
	for it.Next() {
		out = append(out, snap(it.Value()))
	}
	return out
}

func equal(a, b []string) bool {
	if len(a) != len(b) {
		return false
	}
	for i := range a {
		if a[i] != b[i] {
			return false
		}
	}
	return true
}

type pred struct {
	name string
	pre  func(*graph.DenseGraph) bool
	post func(*graph.DenseGraph) bool
}

func never(*graph.DenseGraph) bool { return false }

func hasTriangle(g *graph.DenseGraph) bool {
	n := g.NumberOfVertices
	for i := 0; i < n; i++ {
		for j := i + 1; j < n; j++ {
			if !g.IsEdge(i, j) {
				continue
			}
			for k := j + 1; k < n; k++ {
				if g.IsEdge(i, k) && g.IsEdge(j, k) {
					return true
				}
			}
		}
	}
	return false
}

func maxDegreeOver3(g *graph.DenseGraph) bool {
	for _, d := range g.DegreeSequence {
		if d > 3 {
			return true
		}
	}
	return false
}

var preds = []pred{
	{"none", never, never},
	{"triangle-free(prune)", never, hasTriangle},
	{"maxdeg<=3(preprune)", maxDegreeOver3, never},
}

func TestProperty(t *testing.T) {
	splits := [][2]int{{0, 1}, {0, 2}, {1, 2}, {2, 3}, {1, 1}, {2, 2}, {3, 3}, {4, 3}, {7, 2}, {-1, 3}, {-3, 3}}
	for n := 0; n <= 6; n++ {
		for _, am := range splits {
			for _, p := range preds {
				a, m := am[0], am[1]
				name := fmt.Sprintf("n=%d a=%d m=%d %s", n, a, m, p.name)
				full := drain(search.WithPruning(n, a, m, p.pre, p.post))
				for k := 0; k <= len(full)+1; k++ {
					orig := search.WithPruning(n, a, m, p.pre, p.post)
					for i := 0; i < k; i++ {
						orig.Next()
					}
					kk := k
					if kk > len(full) {
						kk = len(full)
					}
					before := snap(orig.Value())
					var buf bytes.Buffer
					orig.Save(&buf)
					if snap(orig.Value()) != before {
						t.Fatalf("%s k=%d: Save changed Value()", name, k)
					}
					saved := append([]byte(nil), buf.Bytes()...)
					loaded := search.Load(&buf, p.pre, p.post)

					//Chain: advance the loaded iterator by one, save and load again.
					var got []string
					if loaded.Next() {
						got = append(got, snap(loaded.Value()))
						var buf2 bytes.Buffer
						loaded.Save(&buf2)
						second := search.Load(&buf2, p.pre, p.post)
						//The original and the first loaded iterator go on, interleaved with the second one.
						rest2 := drain(second)
						rest1 := drain(loaded)
						if !equal(rest1, rest2) {
							t.Fatalf("%s k=%d: chain differs", name, k)
						}
						got = append(got, rest2...)
					}
					if !equal(got, full[kk:]) {
						t.Fatalf("%s k=%d: resumed output differs: got %d graphs, want %d", name, k, len(got), len(full)-kk)
					}
					if rest := drain(orig); !equal(rest, full[kk:]) {
						t.Fatalf("%s k=%d: the original was disturbed", name, k)
					}
					//The same bytes can be loaded again after everything else has finished.
					if again := drain(search.Load(bytes.NewReader(saved), p.pre, p.post)); !equal(again, full[kk:]) {
						t.Fatalf("%s k=%d: reloading the same bytes differs", name, k)
					}
				}
			}
		}
	}
}

func digest(out []string) string {
	sum := sha256.Sum256([]byte(strings.Join(out, ";")))
	return fmt.Sprintf("%d:%x", len(out), sum[:6])
}

// For a in 0..m-1 nothing changes: same graphs, same order, same classes.
func TestInDomainOutputUnchanged(t *testing.T) {
	want := map[string]string{
		"6 0 1": "156:cf5aa69c7be7",
		"7 0 1": "1044:64c29f2ebf1e",
		"7 0 3": "252:37f5fc0ce02c",
		"7 1 3": "380:df0fe9f5e794",
		"7 2 3": "412:1d97048391a1",
		"1 0 2": "1:0f57e0d4ea3e",
		"1 1 2": "0:e3b0c44298fc",
	}
	for key, w := range want {
		var n, a, m int
		fmt.Sscan(key, &n, &a, &m)
		if got := digest(drain(search.All(n, a, m))); got != w {
			t.Errorf("All(%d,%d,%d): digest %s, want %s", n, a, m, got, w)
		}
	}
}

// record mirrors the gob layout written by Save so that the saved parameters can be read back.
type record struct {
	N, A, M int
}

func TestIncidentalOutOfDomainClass(t *testing.T) {
	for _, c := range [][3]int{{5, 3, 3}, {5, 4, 3}, {6, -1, 3}, {7, 2, 2}, {1, 1, 1}, {0, 2, 2}, {4, 1, 1}} {
		n, a, m := c[0], c[1], c[2]
		got := len(drain(search.All(n, a, m)))
		t.Logf("All(%d,%d,%d) yields %d graphs", n, a, m, got)
		if got != 0 {
			t.Errorf("All(%d,%d,%d): a is outside 0..m-1 but %d graphs were produced, old behaviour: none", n, a, m, got)
		}
	}
	var buf bytes.Buffer
	search.All(5, 4, 3).Save(&buf)
	var r record
	if err := gob.NewDecoder(&buf).Decode(&r); err != nil {
		t.Fatal(err)
	}
	t.Logf("record saved by All(5,4,3): N=%d A=%d M=%d", r.N, r.A, r.M)
	if r.A != 4 {
		t.Errorf("saved A = %d, old behaviour: the unreduced 4", r.A)
	}
}

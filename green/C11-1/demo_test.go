// C11 demo for change 1 (block neighbourhoods cached once, path-search buffer reused).
//
// Run (from the root of the library, with or without patch.diff applied):
//
//	cp /tmp/green-out/C11/1/demo_test.go graph/c11_demo1_test.go
//	GOFLAGS=-mod=mod GOPROXY=off GOSUMDB=off GOTOOLCHAIN=local \
//	  go test -vet=off -count=1 -timeout 120s -run 'TestC11Demo1' -v ./graph/
//	rm graph/c11_demo1_test.go
//
// TestC11Demo1Property checks the property itself (answers of IsPlanar on known planar / non-planar graphs,
// invariance under relabelling, pendant and isolated vertices, subdivision, subgraphs): passes on BOTH trees.
//
// TestC11Demo1Incidental asserts the OLD incidental behaviour: how many times IsPlanar asks the caller's Graph
// for a neighbourhood.  It PASSES on the clean tree and FAILS with the change (the patched IsPlanar asks far
// less often, because it keeps the neighbourhoods of a block instead of recomputing them).
package graph_test

import (
	"testing"

	"github.com/Tom-Johnston/mamba/graph"
)

// c11d1Counting is a user-defined read-only Graph (public interface graph.Graph) that forwards to a DenseGraph and
// counts the calls of Neighbours.
type c11d1Counting struct {
	g     *graph.DenseGraph
	calls *int
}

func (c c11d1Counting) N() int               { return c.g.N() }
func (c c11d1Counting) M() int               { return c.g.M() }
func (c c11d1Counting) IsEdge(i, j int) bool { return c.g.IsEdge(i, j) }
func (c c11d1Counting) Degrees() []int       { return c.g.Degrees() }
func (c c11d1Counting) Neighbours(v int) []int {
	*c.calls++
	return c.g.Neighbours(v)
}

func c11d1Count(g *graph.DenseGraph) (bool, int) {
	calls := 0
	r := graph.IsPlanar(c11d1Counting{g: g, calls: &calls})
	return r, calls
}

// triangular grid on k*k vertices: planar, 2-connected
func c11d1Grid(k int) *graph.DenseGraph {
	g := graph.NewDense(k*k, nil)
	for i := 0; i < k; i++ {
		for j := 0; j < k; j++ {
			v := i*k + j
			if j+1 < k {
				g.AddEdge(v, v+1)
			}
			if i+1 < k {
				g.AddEdge(v, v+k)
			}
			if i+1 < k && j+1 < k {
				g.AddEdge(v, v+k+1)
			}
		}
	}
	return g
}

func c11d1Relabel(g *graph.DenseGraph, perm func(int) int) *graph.DenseGraph {
	n := g.N()
	h := graph.NewDense(n, nil)
	for i := 0; i < n; i++ {
		for j := 0; j < i; j++ {
			if g.IsEdge(i, j) {
				h.AddEdge(perm(i), perm(j))
			}
		}
	}
	return h
}

// grid plus a K3,3 whose edges are subdivided once, joined to the grid by two edges (one block, non-planar,
// and still far below the bound m <= 3n-6, so the decision is taken by the embedding phase)
func c11d1GridPlusK33(k int) *graph.DenseGraph {
	g := c11d1Grid(k)
	base := g.N()
	for i := 0; i < 6+9; i++ {
		g.AddVertex(nil)
	}
	s := base + 6
	for a := 0; a < 3; a++ {
		for b := 3; b < 6; b++ {
			g.AddEdge(base+a, s)
			g.AddEdge(s, base+b)
			s++
		}
	}
	g.AddEdge(0, base)
	g.AddEdge(k*k-1, base+4)
	return g
}

// the grid with an edge between two interior vertices that share no face: non-planar (it is a single block
// and m = 121 is far below 3n-6 = 141)
func c11d1Chord(grid *graph.DenseGraph, perm func(int) int) *graph.DenseGraph {
	g := c11d1Relabel(grid, perm)
	g.AddEdge(perm(8), perm(40))
	return g
}

func c11d1Petersen() *graph.DenseGraph {
	g := graph.NewDense(10, nil)
	for i := 0; i < 5; i++ {
		g.AddEdge(i, (i+1)%5)
		g.AddEdge(i, i+5)
		g.AddEdge(5+i, 5+(i+2)%5)
	}
	return g
}

type c11d1Case struct {
	name     string
	g        *graph.DenseGraph
	planar   bool
	oldCalls int // number of Neighbours calls made by the clean tree
}

func c11d1Cases() []c11d1Case {
	grid := c11d1Grid(7)
	perm := func(v int) int { return (v*17 + 5) % 49 }
	return []c11d1Case{
		{"grid7", grid, true, 340},
		{"grid7-relabelled", c11d1Relabel(grid, perm), true, 338},
		{"grid7+subdividedK33", c11d1GridPlusK33(7), false, 449},
		{"grid7+chord", c11d1Chord(grid, func(v int) int { return v }), false, 319},
		{"grid7+chord-relabelled", c11d1Chord(grid, perm), false, 293},
		{"petersen", c11d1Petersen(), false, 59},
		{"K5", graph.CompleteGraph(5), false, 14},
	}
}

func TestC11Demo1Property(t *testing.T) {
	for _, c := range c11d1Cases() {
		if got := graph.IsPlanar(c.g); got != c.planar {
			t.Errorf("%s: IsPlanar = %v, want %v", c.name, got, c.planar)
		}
		if got, _ := c11d1Count(c.g); got != c.planar {
			t.Errorf("%s (through a user-defined Graph): IsPlanar = %v, want %v", c.name, got, c.planar)
		}
		n := c.g.N()
		// relabelling
		rev := c11d1Relabel(c.g, func(v int) int { return n - 1 - v })
		if got := graph.IsPlanar(rev); got != c.planar {
			t.Errorf("%s reversed labels: IsPlanar = %v, want %v", c.name, got, c.planar)
		}
		// pendant and isolated vertices
		h := c11d1Relabel(c.g, func(v int) int { return v })
		h.AddVertex([]int{3})
		h.AddVertex(nil)
		h.AddVertex([]int{n})
		if got := graph.IsPlanar(h); got != c.planar {
			t.Errorf("%s + pendant/isolated vertices: IsPlanar = %v, want %v", c.name, got, c.planar)
		}
		// subdivide every third edge
		s := c11d1Relabel(c.g, func(v int) int { return v })
		cnt := 0
		for i := 0; i < n; i++ {
			for j := 0; j < i; j++ {
				if c.g.IsEdge(i, j) {
					if cnt%3 == 0 {
						s.RemoveEdge(i, j)
						s.AddVertex([]int{i, j})
					}
					cnt++
				}
			}
		}
		if got := graph.IsPlanar(s); got != c.planar {
			t.Errorf("%s subdivided: IsPlanar = %v, want %v", c.name, got, c.planar)
		}
		// subgraphs of a planar graph are planar
		if c.planar {
			d := c11d1Relabel(c.g, func(v int) int { return v })
			cnt = 0
			for i := 0; i < n; i++ {
				for j := 0; j < i; j++ {
					if c.g.IsEdge(i, j) {
						if cnt%4 == 1 {
							d.RemoveEdge(i, j)
						}
						cnt++
					}
				}
			}
			if !graph.IsPlanar(d) {
				t.Errorf("%s: a subgraph of a planar graph is reported non-planar", c.name)
			}
		}
	}
}

func TestC11Demo1Incidental(t *testing.T) {
	for _, c := range c11d1Cases() {
		got, calls := c11d1Count(c.g)
		t.Logf("%-22s n=%3d m=%3d planar=%-5v Neighbours calls=%d (clean tree: %d)", c.name, c.g.N(), c.g.M(), got, calls, c.oldCalls)
		if calls != c.oldCalls {
			t.Errorf("%s: IsPlanar called Neighbours %d times, the clean tree calls it %d times", c.name, calls, c.oldCalls)
		}
	}
}

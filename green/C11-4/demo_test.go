// Demonstration for green change C11/4 (the two internal-error panics of IsPlanar get descriptive error values).
//
// Run (from the root of the library, offline):
//   cp demo_test.go graph/zz_demo_c11_4_test.go
//   export GOFLAGS=-mod=mod GOPROXY=off GOSUMDB=off GOTOOLCHAIN=local
//   go test -vet=off -count=1 -timeout 120s -v -run 'TestDemoC11_4' ./graph/
//
// TestDemoC11_4_Property   checks the property itself on genuine simple graphs (among them the symmetric closure of
//                          the broken input below, in several labellings, with pendant and isolated vertices, and its
//                          subgraphs): no panic and the right answer.  Passes on the clean tree AND with the change.
// TestDemoC11_4_Incidental feeds IsPlanar something that is NOT a graph: a user-defined implementation of graph.Graph
//                          whose Neighbours is not symmetric (2 lists 4 as a neighbour, 4 does not list 2).  This is
//                          outside the domain of the property.  The test asserts the OLD behaviour there: a panic
//                          whose value is the string "Oh dear".  Passes on the clean tree, FAILS with the change (the
//                          value is now an error with a descriptive text).
package graph_test

import (
	"fmt"
	"testing"

	"github.com/Tom-Johnston/mamba/graph"
)

type c114adj [][]int

func (a c114adj) N() int { return len(a) }
func (a c114adj) M() int {
	s := 0
	for _, x := range a {
		s += len(x)
	}
	return s / 2
}
func (a c114adj) IsEdge(i, j int) bool {
	for _, x := range a[i] {
		if x == j {
			return true
		}
	}
	return false
}
func (a c114adj) Neighbours(v int) []int { return append([]int(nil), a[v]...) }
func (a c114adj) Degrees() []int {
	d := make([]int, len(a))
	for i, x := range a {
		d[i] = len(x)
	}
	return d
}

// c114call runs IsPlanar and reports the result and the recovered panic value (nil if it did not panic).
func c114call(g graph.Graph) (res bool, panicked interface{}) {
	defer func() { panicked = recover() }()
	return graph.IsPlanar(g), nil
}

func c114fromAdj(a [][]int, perm []int) *graph.DenseGraph {
	g := graph.NewDense(len(a), nil)
	for v, nb := range a {
		for _, u := range nb {
			if perm == nil {
				g.AddEdge(u, v)
			} else {
				g.AddEdge(perm[u], perm[v])
			}
		}
	}
	return g
}

func TestDemoC11_4_Property(t *testing.T) {
	// Symmetric closure of the broken input: the house graph 0-1, 0-2, 1-2, 1-3, 2-4, 3-4 (planar).
	house := [][]int{{1, 2}, {0, 2, 3}, {0, 1, 4}, {1, 4}, {2, 3}}
	k5 := [][]int{{1, 2, 3, 4}, {0, 2, 3, 4}, {0, 1, 3, 4}, {0, 1, 2, 4}, {0, 1, 2, 3}}
	k33 := [][]int{{3, 4, 5}, {3, 4, 5}, {3, 4, 5}, {0, 1, 2}, {0, 1, 2}, {0, 1, 2}}
	// the octahedron K_{2,2,2}: a planar triangulation with 6 vertices and 12 = 3n-6 edges
	oct := [][]int{{1, 2, 4, 5}, {0, 2, 3, 5}, {0, 1, 3, 4}, {1, 2, 4, 5}, {0, 2, 3, 5}, {0, 1, 3, 4}}
	cases := []struct {
		name   string
		adj    [][]int
		planar bool
	}{{"house", house, true}, {"K5", k5, false}, {"K33", k33, false}, {"octahedron", oct, true}}
	for _, c := range cases {
		n := len(c.adj)
		perms := [][]int{nil, make([]int, n), make([]int, n)}
		for i := 0; i < n; i++ {
			perms[1][i] = n - 1 - i
			perms[2][i] = (i + 2) % n
		}
		for _, perm := range perms {
			g := c114fromAdj(c.adj, perm)
			for _, in := range []graph.Graph{g, c114adj(c.adj)} {
				got, p := c114call(in)
				if p != nil || got != c.planar {
					t.Errorf("%s: IsPlanar = %v (panic %v), want %v", c.name, got, p, c.planar)
				}
			}
			h := g.Copy()
			h.AddVertex(nil)
			h.AddVertex([]int{1})
			h.AddVertex([]int{n + 1})
			if got, p := c114call(h); p != nil || got != c.planar {
				t.Errorf("%s + isolated/pendant: IsPlanar = %v (panic %v), want %v", c.name, got, p, c.planar)
			}
			// subdivide the edge between 0 and its first neighbour
			s := g.Copy()
			u := g.Neighbours(0)[0]
			s.RemoveEdge(0, u)
			s.AddVertex([]int{0, u})
			if got, p := c114call(s); p != nil || got != c.planar {
				t.Errorf("%s subdivided: IsPlanar = %v (panic %v), want %v", c.name, got, p, c.planar)
			}
			if c.planar {
				for v := 0; v < n; v++ {
					for _, u := range g.Neighbours(v) {
						sub := g.Copy()
						sub.RemoveEdge(u, v)
						if got, p := c114call(sub); p != nil || !got {
							t.Errorf("%s minus %d-%d: IsPlanar = %v (panic %v), want true", c.name, u, v, got, p)
						}
					}
				}
			}
		}
	}
}

func TestDemoC11_4_Incidental(t *testing.T) {
	// Not a graph: 2 lists 4 as a neighbour but 4 does not list 2.
	broken := c114adj{{1, 2}, {0, 2, 3}, {0, 1, 4}, {1, 4}, {3}}
	_, p := c114call(broken)
	t.Logf("inconsistent Graph implementation: panic value %T: %v", p, p)
	if p == nil {
		t.Fatalf("no panic on the inconsistent input (clean tree: panics)")
	}
	if s, ok := p.(string); !ok || s != "Oh dear" {
		t.Errorf("panic value is %T %q, the clean tree panics with the string \"Oh dear\"", p, fmt.Sprint(p))
	}
}

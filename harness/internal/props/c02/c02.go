// Package c02 monitors the orbits and generators returned with the canonical
// form, storage reuse through Reset, and vertex classes (DESIGN.md C02).
package c02

import (
	"fmt"
	"math/big"
	"sort"

	"github.com/Tom-Johnston/mamba/disjoint"
	"github.com/Tom-Johnston/mamba/graph"

	"verif/internal/engine"
	"verif/internal/gen"
	"verif/internal/oracle/iso"
	"verif/internal/oracle/rg"
)

func init() {
	engine.Register(&engine.Property{
		ID:    "C02",
		Level: "exploration",
		Rule: "(perm, orbits, gens) = CanonicalIsomorphFull(g, classes) on every isomorphism class n<=8 x 3..24 relabellings, on structured families with analytically known |Aut|, with ALL ordered set partitions of the vertex set as classes for every class n<=5 (seeded partitions above); and histories of graphs pushed through ONE NewStorage/NewOrderedPartition pair with Reset (sizes up and down, n=0,1, edgeless, complete, repeats, with and without classes) compared with fresh calls. " +
			"Judged: every generator is a (class-preserving) automorphism, the returned partition equals the true orbit partition, |<gens>| (Schreier-Sims) equals |Aut| (independent orbit-stabiliser oracle), reused == fresh (perm and generator list exactly, orbits as partition), and (canonical graph, class of each position) is invariant under relabellings that carry the classes along. " +
			"non-trivial = |Aut| > 1, or history position > 0, or classes != nil; distinct = (graph, classes, relabelling / history position)",
		Assumptions: []string{
			"oracle: iso.Automorphisms (individualisation-refinement search with verified automorphisms, orbit-stabiliser product) and iso.GroupOrder (Schreier-Sims), cross-checked on Petersen 120, Q4 384, K(6,2) 720, rook 3x3 72, Paley 13 78 and ~90 family values",
			"vertex classes are non-empty and partition the vertex set; order inside one class list is immaterial",
			"results alias the caller's storage (documented): the monitor copies them before the next call",
		},
		Run:            run,
		MinEvaluations: map[string]int{"quick": 20000, "thorough": 200000},
		MinNontrivial:  map[string]int{"quick": 5000, "thorough": 50000},
		RequiredObs:    []string{"aut>1", "classes!=nil", "reuse_history_steps", "reuse:classes_buffer_refilled_in_place", "edgeless_shortcut", "generators_checked", "earlier_full_result_rechecked_after_next_call", "results_appended_to_by_the_caller"},
	})
}

type result struct {
	perm []int
	orb  []int // orbit label per vertex (least member), derived through Find on a copy
	gens [][]int
}

func copyResult(n int, perm []int, ds disjoint.Set, gens [][]int) (result, string) {
	r := result{perm: append([]int(nil), perm...)}
	for _, g := range gens {
		r.gens = append(r.gens, append([]int(nil), g...))
	}
	if n == 0 {
		return r, ""
	}
	if len(ds) != n {
		return r, fmt.Sprintf("orbit set has %d elements, n=%d", len(ds), n)
	}
	cp := append(disjoint.Set(nil), ds...)
	rep := make([]int, n)
	for v := 0; v < n; v++ {
		// walk parents by hand (no library call outside c.Call): parents are >= 0, roots negative
		x := v
		steps := 0
		for cp[x] >= 0 {
			x = cp[x]
			steps++
			if steps > n || x >= n {
				return r, fmt.Sprintf("orbit structure is not a forest: %v", []int(cp))
			}
		}
		rep[v] = x
	}
	least := map[int]int{}
	for v := 0; v < n; v++ {
		if _, ok := least[rep[v]]; !ok {
			least[rep[v]] = v
		}
	}
	r.orb = make([]int, n)
	for v := range r.orb {
		r.orb[v] = least[rep[v]]
	}
	return r, ""
}

// heldFull is the most recent result of CanonicalIsomorphFull (the very slices, and a snapshot).
var heldFull struct {
	p    []int
	o    disjoint.Set
	g    [][]int
	snap result
	key  string
}

func isPerm(p []int, n int) bool {
	if len(p) != n {
		return false
	}
	seen := make([]bool, n)
	for _, x := range p {
		if x < 0 || x >= n || seen[x] {
			return false
		}
		seen[x] = true
	}
	return true
}

func clsString(classes [][]int) string {
	if classes == nil {
		return "nil"
	}
	return fmt.Sprint(classes)
}

func clsVector(n int, classes [][]int) []int {
	if classes == nil {
		return nil
	}
	v := make([]int, n)
	for ci, cl := range classes {
		for _, x := range cl {
			v[x] = ci
		}
	}
	return v
}

func eq(a, b []int) bool {
	if len(a) != len(b) {
		return false
	}
	for i := range a {
		if a[i] != b[i] {
			return false
		}
	}
	return true
}

// judge checks one result against the oracle. name identifies the graph (g6 / family), ai may be nil to compute.
func judge(c *engine.Ctx, vk string, wit func() interface{}, g *rg.G, classes [][]int, r result, ai *iso.AutInfo, wantOrder *big.Int) bool {
	n := g.N
	cls := clsVector(n, classes)
	c.Eval(1)
	if !isPerm(r.perm, n) {
		c.Violation("aut|perm-not-a-permutation|"+vk, wit(), fmt.Sprint(r.perm), "a permutation")
		return false
	}
	if n == 0 {
		return true
	}
	for gi, p := range r.gens {
		c.Obs("generators_checked", 1)
		if !iso.IsAutomorphism(g, p, cls) {
			c.Violation("aut|generator-not-an-automorphism|"+vk, wit(), fmt.Sprintf("generator %d = %v", gi, p), "a (class-preserving) automorphism of the graph")
			return false
		}
	}
	if ai == nil {
		a := iso.Automorphisms(g, cls)
		ai = &a
	}
	if !eq(r.orb, ai.Orbit) {
		c.Violation("aut|orbits-wrong|"+vk, wit(), fmt.Sprintf("orbit labels %v", r.orb), fmt.Sprintf("orbit labels %v (|Aut|=%v)", ai.Orbit, ai.Order))
		return false
	}
	if wantOrder != nil && wantOrder.Cmp(ai.Order) != 0 {
		c.Inconclusive(fmt.Sprintf("oracle disagreement on |Aut| of %s: computed %v, table %v", vk, ai.Order, wantOrder))
		return false
	}
	got := iso.GroupOrder(n, r.gens)
	if got.Cmp(ai.Order) != 0 {
		c.Violation("aut|generators-do-not-generate-Aut|"+vk, wit(), fmt.Sprintf("|<gens>| = %v with %d generators %v", got, len(r.gens), r.gens), fmt.Sprintf("|Aut| = %v", ai.Order))
		return false
	}
	if ai.Order.Cmp(big.NewInt(1)) > 0 {
		c.Obs("aut>1", 1)
	}
	if g.M() == 0 {
		c.Obs("edgeless_shortcut", 1)
	}
	return true
}

// full calls CanonicalIsomorphFull on a representation.
func full(c *engine.Ctx, key string, g *rg.G, sparse bool, classes [][]int) (result, *engine.PanicInfo, string) {
	var lg graph.Graph
	// every fourth graph (a function of the graph) comes in a representation variant: edge bytes 1..255 and dirty
	// spare capacity (dense), spare capacity (sparse)
	variant := 0
	if hv := g.M()*7 + g.N*3 + len(classes); g.N > 0 && hv%4 == 1 {
		variant = 1 + hv%5
		c.Obs("rep:variant(edge bytes 1..255 / spare capacity)", 1)
	}
	if sparse {
		lg = g.SparseVariant(variant)
	} else {
		lg = g.DenseVariant(variant)
	}
	var cl [][]int
	if classes != nil {
		cl = make([][]int, len(classes))
		for i := range classes {
			cl[i] = append([]int{}, classes[i]...)
		}
	}
	var r result
	var bad string
	var rawP []int
	var rawO disjoint.Set
	var rawG [][]int
	call := c.Call
	if g.N >= 13 {
		call = c.CallSlowOK // see C01: slow on large symmetric graphs is not wrong
	}
	pi := call(key, func() {
		rawP, rawO, rawG = graph.CanonicalIsomorphFull(lg, cl)
		r, bad = copyResult(g.N, rawP, rawO, rawG)
	})
	// results of a fresh call handed out earlier must not change when the function is called again
	if heldFull.p != nil && pi == nil {
		c.Obs("earlier_full_result_rechecked_after_next_call", 1)
		now, _ := copyResult(len(heldFull.snap.perm), heldFull.p, heldFull.o, heldFull.g)
		if !eq(now.perm, heldFull.snap.perm) || fmt.Sprint(now.gens) != fmt.Sprint(heldFull.snap.gens) || !eq(now.orb, heldFull.snap.orb) {
			c.Violation("aut|earlier-result-changed-by-a-later-call|"+heldFull.key, map[string]interface{}{"first_call": heldFull.key, "then": key}, fmt.Sprintf("perm %v orbits %v gens %v", now.perm, now.orb, now.gens), fmt.Sprintf("as returned: perm %v orbits %v gens %v", heldFull.snap.perm, heldFull.snap.orb, heldFull.snap.gens))
			heldFull.p = nil
			return r, pi, "an earlier result changed"
		}
	}
	// the three results are the caller's: appending to one of them (permutation, orbit set, any generator) must not
	// change another one (they were copied above, so the judgement of their values is not affected)
	if pi == nil && bad == "" && g.N > 0 {
		c.Obs("results_appended_to_by_the_caller", 1)
		if msg := engine.AppendTouchesOthers(append([][]int{rawP, []int(rawO)}, rawG...)); msg != "" {
			bad = "the results share memory (list 0 = permutation, 1 = orbits, 2.. = generators): " + msg
		}
	}
	if pi == nil && bad == "" && g.N > 0 {
		heldFull.p, heldFull.o, heldFull.g, heldFull.snap, heldFull.key = rawP, rawO, rawG, r, key
	}
	if pi == nil && classes != nil {
		for i := range classes {
			if !eq(cl[i], classes[i]) {
				bad = fmt.Sprintf("the vertexClasses argument was modified: %v -> %v", classes, cl)
			}
		}
	}
	return r, pi, bad
}

// checkGraph: Full on g with classes under k relabellings (classes carried along), all judged, invariance of canonical structure.
func checkGraph(c *engine.Ctx, label, name string, g *rg.G, classes [][]int, k int, rnd func(i int) *engine.Rng, wantOrder *big.Int) bool {
	n := g.N
	vk := name + "|classes=" + clsString(classes)
	cls := clsVector(n, classes)
	var refG *rg.G
	var refC []int
	base := iso.Automorphisms(g, cls)
	for i := 0; i < k; i++ {
		pi := make([]int, n)
		for j := range pi {
			pi[j] = j
		}
		var hc [][]int
		if i > 0 {
			pi = rnd(i).Perm(n)
		}
		inv := make([]int, n)
		for a, b := range pi {
			inv[b] = a
		}
		h := g.Induced(pi) // vertex a of h is pi[a] of g
		if classes != nil {
			hc = make([][]int, len(classes))
			for ci, cl := range classes {
				for _, x := range cl {
					hc[ci] = append(hc[ci], inv[x])
				}
				if i%2 == 1 {
					sort.Ints(hc[ci])
				} else if i > 0 {
					rnd(i + 1000).Shuffle(hc[ci])
				}
			}
		}
		sparse := i%3 == 2
		wit := func() interface{} {
			return map[string]interface{}{"workload": label, "graph": name, "g": g.String(), "classes": classes, "relabelling": pi, "relabelled": h.String(), "relabelled_classes": hc, "sparse": sparse}
		}
		r, pinfo, bad := full(c, "aut|"+vk, h, sparse, hc)
		if pinfo != nil {
			kind := "nil"
			if classes != nil {
				kind = "nonnil"
			}
			c.Violation("aut|panic@"+engine.SiteNoLine(pinfo.Site)+"|classes-"+kind+"|"+vk, wit(), pinfo.String(), "permutation, orbits, generators")
			return false
		}
		if bad != "" {
			c.Violation("aut|bad-result|"+vk, wit(), bad, "well-formed result")
			return false
		}
		// oracle for the relabelled graph: orbits of g carried through the relabelling (vertex a of h is pi[a] of g)
		ai := &iso.AutInfo{Order: base.Order, Orbit: make([]int, n)}
		least := map[int]int{}
		for a := 0; a < n; a++ {
			o := base.Orbit[pi[a]]
			if _, ok := least[o]; !ok {
				least[o] = a
			}
			ai.Orbit[a] = least[o]
		}
		if !judge(c, vk, wit, h, hc, r, ai, wantOrder) {
			return false
		}
		// invariance of (canonical graph, class of position)
		cg := h.Induced(r.perm)
		var cc []int
		if classes != nil {
			hv := clsVector(n, hc)
			cc = make([]int, n)
			for pos, v := range r.perm {
				cc[pos] = hv[v]
			}
		}
		if refG == nil {
			refG, refC = cg, cc
		} else if !cg.Equal(refG) || !eq(cc, refC) {
			c.Violation("aut|canonical-form-not-invariant|"+vk, wit(), fmt.Sprintf("canonical graph %s, classes by position %v", cg.G6(), cc), fmt.Sprintf("canonical graph %s, classes by position %v", refG.G6(), refC))
			return false
		}
		if base.Order.Cmp(big.NewInt(1)) > 0 || classes != nil {
			c.NT(vk, i)
		}
		if classes != nil {
			c.Obs("classes!=nil", 1)
		}
	}
	return true
}

// orderedSetPartitions enumerates all ordered partitions of {0..n-1} into non-empty classes.
func orderedSetPartitions(n int, f func(classes [][]int)) {
	if n == 0 {
		return
	}
	// assign each element a block id via restricted growth strings, then permute the blocks
	rgs := make([]int, n)
	var rec func(i, max int)
	rec = func(i, max int) {
		if i == n {
			k := max + 1
			blocks := make([][]int, k)
			for v, b := range rgs {
				blocks[b] = append(blocks[b], v)
			}
			perm := make([]int, k)
			for j := range perm {
				perm[j] = j
			}
			var pr func(j int)
			pr = func(j int) {
				if j == k {
					cl := make([][]int, k)
					for a, b := range perm {
						cl[a] = blocks[b]
					}
					f(cl)
					return
				}
				for t := j; t < k; t++ {
					perm[j], perm[t] = perm[t], perm[j]
					pr(j + 1)
					perm[j], perm[t] = perm[t], perm[j]
				}
			}
			pr(0)
			return
		}
		for b := 0; b <= max+1; b++ {
			rgs[i] = b
			m := max
			if b > max {
				m = b
			}
			rec(i+1, m)
		}
	}
	rgs[0] = 0
	rec(1, 0)
}

func randomClasses(r *engine.Rng, n int) [][]int {
	if n == 0 {
		return nil
	}
	k := 1 + r.Intn(min(n, 5))
	cl := make([][]int, k)
	p := r.Perm(n)
	for i, v := range p {
		if i < k {
			cl[i] = append(cl[i], v)
		} else {
			j := r.Intn(k)
			cl[j] = append(cl[j], v)
		}
	}
	return cl
}

// randomClassesK partitions 0..n-1 into exactly k non-empty classes (k <= n).
func randomClassesK(r *engine.Rng, n, k int) [][]int {
	cl := make([][]int, k)
	p := r.Perm(n)
	for i, v := range p {
		if i < k {
			cl[i] = append(cl[i], v)
		} else {
			j := r.Intn(k)
			cl[j] = append(cl[j], v)
		}
	}
	return cl
}

func min(a, b int) int {
	if a < b {
		return a
	}
	return b
}

func run(c *engine.Ctx) {
	// 1. all classes, nil vertex classes
	maxN := 8
	for n := 0; n <= maxN; n++ {
		block := 60
		total := len(gen.Classes(min(n, 3))) // cheap placeholder to keep unit enumeration deterministic below
		_ = total
		nclasses := []int{1, 1, 2, 4, 11, 34, 156, 1044, 12346}[n]
		for b := 0; b*block < nclasses; b++ {
			n, b := n, b
			c.Unit(fmt.Sprintf("nil-classes/n=%d/%d", n, b), func() {
				cls := gen.Classes(n)
				for ci := b * block; ci < (b+1)*block && ci < len(cls) && !c.Stopped(); ci++ {
					ci := ci
					k := 24
					if n >= 7 {
						k = c.Pick(8, 24)
					}
					if n == 8 {
						k = c.Pick(3, 8)
					}
					checkGraph(c, "classes", cls[ci].G6(), cls[ci], nil, k, func(i int) *engine.Rng { return c.Rand(fmt.Sprintf("c02-cls-%d", n), ci*32+i) }, nil)
				}
				if b == 0 {
					c.Obs(fmt.Sprintf("exhaustive:all %d isomorphism classes on %d vertices (nil vertex classes) x 6-24 labellings", nclasses, n), 1)
					c.Sample("nil-classes", map[string]interface{}{"n": n, "first": cls[b*block].G6()})
				}
			})
		}
	}
	// 2. families with known |Aut|
	fams := gen.Families()
	for fi := range fams {
		fi := fi
		c.Unit("family/"+fams[fi].Name, func() {
			f := fams[fi]
			checkGraph(c, "families", f.Name, f.G, nil, c.Pick(4, 16), func(i int) *engine.Rng { return c.Rand("c02-fam-"+f.Name, i) }, f.Aut)
			if fi < 2 {
				c.Sample("families", map[string]interface{}{"name": f.Name, "n": f.G.N, "aut": fmt.Sprint(f.Aut)})
			}
			// families with seeded vertex classes
			for t := 0; t < c.Pick(2, 6); t++ {
				r := c.Rand("c02-fam-classes-"+f.Name, t)
				cl := randomClasses(r, f.G.N)
				checkGraph(c, "families+classes", f.Name, f.G, cl, 2, func(i int) *engine.Rng { return c.Rand("c02-famc-"+f.Name, t*8+i) }, nil)
			}
		})
	}
	// 3. all ordered set partitions as vertex classes for every class with n <= 5 (n <= 4 quick + n = 5 on every 3rd class)
	for n := 1; n <= 5; n++ {
		nclasses := []int{1, 1, 2, 4, 11, 34}[n]
		for ci := 0; ci < nclasses; ci++ {
			n, ci := n, ci
			if n == 5 && !c.Thorough() && ci%3 != 0 {
				continue
			}
			c.Unit(fmt.Sprintf("ordered-partitions/n=%d/%d", n, ci), func() {
				g := gen.Classes(n)[ci]
				cnt := 0
				orderedSetPartitions(n, func(cl [][]int) {
					if c.Stopped() {
						return
					}
					cnt++
					cc := make([][]int, len(cl))
					for i := range cl {
						cc[i] = append([]int{}, cl[i]...)
					}
					checkGraph(c, "ordered-partitions", g.G6(), g, cc, 3, func(i int) *engine.Rng { return c.Rand(fmt.Sprintf("c02-op-%d-%d", n, ci), cnt*8+i) }, nil)
				})
				c.Obs("ordered_set_partitions_tried", cnt)
				if ci == 0 && (n < 5 || c.Thorough()) {
					c.Obs(fmt.Sprintf("exhaustive:all ordered set partitions of the vertex set as classes, all graph classes n=%d", n), 1)
				}
			})
		}
	}
	// 4. seeded graphs with seeded classes
	NS := c.Pick(2000, 12000)
	for u := 0; u*20 < NS; u++ {
		u := u
		c.Unit(fmt.Sprintf("seeded-classes/%d", u), func() {
			for i := u * 20; i < (u+1)*20 && i < NS && !c.Stopped(); i++ {
				r := c.Rand("c02-seeded", i)
				var g *rg.G
				switch i % 4 {
				case 0:
					g = gen.Random(r, 2+r.Intn(11), r.Float())
				case 1:
					g = gen.Copies(gen.Random(r, 2+r.Intn(4), r.Float()), 2+r.Intn(3))
				case 2:
					g = gen.RandomTree(r, 2+r.Intn(20))
				case 3:
					n := 6 + r.Intn(14)
					d := 3
					if n%2 == 1 {
						n++
					}
					g = gen.RandomRegular(r, n, d)
					if g == nil {
						g = gen.Cycle(n)
					}
				}
				var cl [][]int
				if i%5 != 0 {
					cl = randomClasses(r, g.N)
				}
				checkGraph(c, "seeded", fmt.Sprintf("seeded#%d", i), g, cl, 3, func(j int) *engine.Rng { return c.Rand("c02-seeded-perm", i*8+j) }, nil)
				if i < 2 {
					c.Sample("seeded", map[string]interface{}{"g": g.String(), "classes": cl})
				}
			}
		})
	}
	// 5. reuse histories
	NH := c.Pick(120, 600)
	for hi := 0; hi < NH; hi++ {
		hi := hi
		c.Unit(fmt.Sprintf("reuse/%d", hi), func() { reuseHistory(c, hi) })
	}
}

func reuseHistory(c *engine.Ctx, hi int) {
	r := c.Rand("c02-reuse", hi)
	N := 4 + r.Intn(12)
	if hi%7 == 0 {
		N = 16 + r.Intn(9)
	}
	M := N * (N - 1) / 2
	L := c.Pick(50, 300)
	var st *graph.CanonicalStorage
	var op *graph.CanonicalOrderedPartition
	if pi := c.Call(fmt.Sprintf("reuse#%d|NewStorage(%d,%d)", hi, N, M), func() {
		st = graph.NewStorage(N, M)
		op = graph.NewOrderedPartition(N, M, nil)
	}); pi != nil {
		c.Violation("reuse|panic@"+engine.SiteNoLine(pi.Site)+"|NewStorage", map[string]int{"N": N, "M": M}, pi.String(), "storage")
		return
	}
	withClasses := hi%2 == 1
	var prev *rg.G
	var prevCl, clBuf [][]int
	var trace []string
	for step := 0; step < L && !c.Stopped(); step++ {
		var g *rg.G
		x := r.Intn(12)
		switch {
		case x == 0:
			g = rg.New(r.Intn(3)) // n = 0,1,2 edgeless
		case x == 1:
			g = rg.New(1 + r.Intn(N)) // edgeless (m == 0 shortcut)
		case x == 2:
			g = gen.Complete(1 + r.Intn(N))
		case x == 3 && prev != nil:
			g = prev // the same graph twice
		case x == 4:
			g = gen.Random(r, N, r.Float()) // full capacity
		case x == 5:
			k := 1 + r.Intn(N/2+1)
			g = gen.Copies(gen.Random(r, 1+r.Intn(3), 0.6), k)
			if g.N > N {
				g = gen.Random(r, N, 0.5)
			}
		default:
			g = gen.Random(r, 1+r.Intn(N), r.Float())
		}
		sameAsBefore := prev != nil && g == prev
		prev = g
		var cl [][]int
		if withClasses && g.N > 0 && r.Bool(0.5) {
			cl = randomClasses(r, g.N)
			if sameAsBefore && prevCl != nil && len(prevCl) <= g.N && r.Bool(0.7) {
				// the same graph again with ANOTHER colouring that has as many classes as the previous one
				cl = randomClassesK(r, g.N, len(prevCl))
			}
		}
		prevCl = cl
		// the classes live in ONE caller-owned buffer (outer slice and inner slices) that is refilled in place for most
		// steps; what is passed to Reset is that buffer, the judgement uses the private copy cl
		passed := cl
		if cl != nil {
			if clBuf != nil && len(cl) <= cap(clBuf) && r.Bool(0.75) {
				clBuf = clBuf[:len(cl)]
				for i := range cl {
					clBuf[i] = append(clBuf[i][:0], cl[i]...)
				}
				c.Obs("reuse:classes_buffer_refilled_in_place", 1)
			} else {
				clBuf = make([][]int, len(cl), len(cl)+3)
				for i := range cl {
					clBuf[i] = append(make([]int, 0, len(cl[i])+4), cl[i]...)
				}
			}
			passed = clBuf
		}
		n, m := g.N, g.M()
		trace = append(trace, fmt.Sprintf("%s/%s", g.G6(), clsString(cl)))
		if len(trace) > 12 {
			trace = trace[1:]
		}
		vk := fmt.Sprintf("reuse#%d|step=%d", hi, step)
		wit := func() interface{} {
			return map[string]interface{}{"workload": "reuse", "history": hi, "step": step, "capacity": []int{N, M}, "graph": g.String(), "classes": cl, "last_graphs": append([]string{}, trace...)}
		}
		nb := make([][]int, n)
		for v := range nb {
			nb[v] = g.Nbrs(v)
		}
		var reused result
		var bad string
		call := c.Call
		if n >= 13 {
			call = c.CallSlowOK
		}
		pi := call("aut|"+vk+"|reused", func() {
			op.Reset(n, m, passed)
			p, o, gs := graph.CanonicalIsomorphAllocated(n, m, nb, op, st, new(graph.CanonicalOptions))
			reused, bad = copyResult(n, p, o, gs)
		})
		if pi != nil {
			kind := "nil"
			if cl != nil {
				kind = "nonnil"
			}
			c.Violation("reuse|panic@"+engine.SiteNoLine(pi.Site)+"|classes-"+kind+"|"+vk, wit(), pi.String(), "the result of a fresh call")
			return
		}
		if bad != "" {
			c.Violation("reuse|bad-result|"+vk, wit(), bad, "well-formed result")
			return
		}
		fresh, pi2, bad2 := full(c, "aut|"+vk+"|fresh", g, false, cl)
		if pi2 != nil || bad2 != "" {
			// fresh call broken: judged by the other workloads; stop this history
			c.Obs("reuse_history_fresh_call_failed", 1)
			return
		}
		c.Eval(1)
		c.Obs("reuse_history_steps", 1)
		if !eq(reused.perm, fresh.perm) || !eq(reused.orb, fresh.orb) || fmt.Sprint(reused.gens) != fmt.Sprint(fresh.gens) {
			c.Violation("reuse|differs-from-fresh|"+vk, wit(), fmt.Sprintf("reused: perm %v orbits %v gens %v", reused.perm, reused.orb, reused.gens), fmt.Sprintf("fresh: perm %v orbits %v gens %v", fresh.perm, fresh.orb, fresh.gens))
			return
		}
		if !judge(c, vk, wit, g, cl, reused, nil, nil) {
			return
		}
		if step > 0 {
			c.NT("reuse", hi, step)
		}
		if cl != nil {
			c.Obs("classes!=nil", 1)
		}
	}
	if hi < 2 {
		c.Sample("reuse", map[string]interface{}{"capacity_N": N, "steps": L, "with_classes": withClasses, "last_graphs": trace})
	}
}

// Demonstration for C13 change 2 (Search asks every searcher about every step and every word).
//
// Copy to dawg/demo_test.go in the library and run:
//
//	GOFLAGS=-mod=mod GOPROXY=off GOSUMDB=off GOTOOLCHAIN=local \
//	  go test -vet=off -count=1 -timeout 600s -run 'TestDemoC13' -v ./dawg/
//
// TestDemoC13Property checks the property itself (exact matches, lexicographic order, ranks, repeatability,
// Dawg unchanged, also with a user-defined searcher) and passes on the clean tree and with the change.
// TestDemoC13IncidentalOld asserts the OLD incidental behaviour (a searcher is not asked about a step or a word
// which a searcher in front of it has already refused): it passes on the clean tree and fails with the change.
package dawg_test

import (
	"bytes"
	"sort"
	"testing"

	"github.com/Tom-Johnston/mamba/dawg"
)

var demoWords = []string{"", "a", "ab", "abc", "b", "ba", "bab", "cab", "cat", "opts", "post", "pots", "spot", "stop", "tops", "z"}

func demoDawg(t *testing.T) (*dawg.Dawg, [][]byte) {
	ws := make([][]byte, len(demoWords))
	for i, w := range demoWords {
		ws[i] = []byte(w)
	}
	sort.Slice(ws, func(i, j int) bool { return bytes.Compare(ws[i], ws[j]) < 0 })
	d, err := dawg.New(ws)
	if err != nil {
		t.Fatal(err)
	}
	return d, ws
}

func matchPattern(w, pat []byte, blank byte) bool {
	if len(w) != len(pat) {
		return false
	}
	for i := range w {
		if pat[i] != blank && pat[i] != w[i] {
			return false
		}
	}
	return true
}

func matchAnagram(w, ana []byte, blank byte) bool {
	if len(w) != len(ana) {
		return false
	}
	var cnt [256]int
	blanks := 0
	for _, c := range ana {
		if c == blank {
			blanks++
		} else {
			cnt[c]++
		}
	}
	for _, c := range w {
		if cnt[c] > 0 {
			cnt[c]--
		} else {
			blanks--
		}
	}
	return blanks >= 0
}

func checkSearch(t *testing.T, name string, d *dawg.Dawg, ws [][]byte, accept func(w []byte) bool, mk func() []dawg.Searcher) {
	var wantW [][]byte
	var wantI []int
	for i, w := range ws {
		if accept(w) {
			wantW = append(wantW, w)
			wantI = append(wantI, i)
		}
	}
	srch := mk()
	for rep := 0; rep < 2; rep++ { //The same searchers are used twice: they must be back in their initial state.
		gotW, gotI := d.Search(srch...)
		if len(gotW) != len(wantW) || len(gotI) != len(wantI) {
			t.Fatalf("%s rep %d: got %q %v want %q %v", name, rep, gotW, gotI, wantW, wantI)
		}
		for i := range gotW {
			if !bytes.Equal(gotW[i], wantW[i]) || gotI[i] != wantI[i] {
				t.Fatalf("%s rep %d: got %q %v want %q %v", name, rep, gotW, gotI, wantW, wantI)
			}
		}
	}
}

func TestDemoC13Property(t *testing.T) {
	d, ws := demoDawg(t)
	before, err := d.GobEncode()
	if err != nil {
		t.Fatal(err)
	}
	patterns := []string{"", "?", "??", "???", "????", "?????", "a?", "?a?", "c??", "?o??", "p??s", "stop", "st?p", "xx", "q???", "??b"}
	for _, p := range patterns {
		p := []byte(p)
		checkSearch(t, "pattern "+string(p), d, ws, func(w []byte) bool { return matchPattern(w, p, '?') },
			func() []dawg.Searcher { return []dawg.Searcher{dawg.NewPatternSearcher(p, '?')} })
		checkSearch(t, "anagram "+string(p), d, ws, func(w []byte) bool { return matchAnagram(w, p, '?') },
			func() []dawg.Searcher { return []dawg.Searcher{dawg.NewAnagramSearcher(p, '?')} })
	}
	anagrams := []string{"opst", "tsop", "o?t?", "ab", "ba", "bab", "abb", "tac", "a?c", "qrs", "zz"}
	for _, a := range anagrams {
		a := []byte(a)
		checkSearch(t, "anagram "+string(a), d, ws, func(w []byte) bool { return matchAnagram(w, a, '?') },
			func() []dawg.Searcher { return []dawg.Searcher{dawg.NewAnagramSearcher(a, '?')} })
		for _, p := range patterns {
			p := []byte(p)
			checkSearch(t, "both "+string(a)+" "+string(p), d, ws,
				func(w []byte) bool { return matchAnagram(w, a, '?') && matchPattern(w, p, '?') },
				func() []dawg.Searcher {
					return []dawg.Searcher{dawg.NewAnagramSearcher(a, '?'), dawg.NewPatternSearcher(p, '?')}
				})
		}
	}
	//No searcher at all: every word.
	checkSearch(t, "all", d, ws, func(w []byte) bool { return true }, func() []dawg.Searcher { return nil })

	//The returned words belong to the caller: overwriting and appending to one must not disturb the others or the Dawg.
	gotW, _ := d.Search(dawg.NewPatternSearcher([]byte("????"), '?'))
	for i := range gotW {
		for j := range gotW[i] {
			gotW[i][j] = '#'
		}
		gotW[i] = append(gotW[i], "!!!!!!!!"...)
	}
	checkSearch(t, "after overwrite", d, ws, func(w []byte) bool { return len(w) == 4 },
		func() []dawg.Searcher { return []dawg.Searcher{dawg.NewPatternSearcher([]byte("????"), '?')} })

	after, err := d.GobEncode()
	if err != nil {
		t.Fatal(err)
	}
	if !bytes.Equal(before, after) {
		t.Fatal("the Dawg changed")
	}
}

// spy is a user-defined searcher which accepts everything and records how it is called. It is meant to be passed
// after a pattern searcher with the same pattern and blank; it follows the depth itself through Step and Backstep.
type spy struct {
	pattern                      []byte
	blank                        byte
	depth                        int
	allowStep, refusedStep       int //calls of AllowStep; those for a step the pattern searcher in front refuses
	allowWord, refusedWord       int //calls of AllowWord; those at a depth where the pattern searcher in front refuses
	steps, backsteps, chosen     int
	maxDepth, negativeDepthCalls int
}

func (s *spy) AllowStep(b byte) bool {
	s.allowStep++
	if s.depth >= len(s.pattern) || (s.pattern[s.depth] != s.blank && s.pattern[s.depth] != b) {
		s.refusedStep++
	}
	return true
}
func (s *spy) Step(b byte) {
	s.steps++
	s.depth++
	if s.depth > s.maxDepth {
		s.maxDepth = s.depth
	}
}
func (s *spy) Backstep() {
	s.backsteps++
	s.depth--
	if s.depth < 0 {
		s.negativeDepthCalls++
	}
}
func (s *spy) AllowWord() bool {
	s.allowWord++
	if s.depth != len(s.pattern) {
		s.refusedWord++
	}
	return true
}
func (s *spy) Chosen() { s.chosen++ }

func runSpy(t *testing.T) *spy {
	d, ws := demoDawg(t)
	pat := []byte("?o??")
	sp := &spy{pattern: pat, blank: '?'}
	matches := 0
	for _, w := range ws {
		if matchPattern(w, pat, '?') {
			matches++
		}
	}
	//The property, with a user-defined searcher in the combination.
	checkSearch(t, "pattern+spy", d, ws, func(w []byte) bool { return matchPattern(w, pat, '?') },
		func() []dawg.Searcher { return []dawg.Searcher{dawg.NewPatternSearcher(pat, '?'), sp} })
	//What any searcher may rely on: steps and backsteps are balanced, only allowed steps are taken, Chosen once per result (checkSearch runs the search twice).
	if sp.depth != 0 || sp.steps != sp.backsteps || sp.negativeDepthCalls != 0 || sp.maxDepth > len(pat) || sp.chosen != 2*matches {
		t.Fatalf("searcher protocol broken: %+v", *sp)
	}
	return sp
}

func TestDemoC13PropertyWithSpy(t *testing.T) {
	runSpy(t)
}

func TestDemoC13IncidentalOld(t *testing.T) {
	sp := runSpy(t)
	t.Logf("spy: %+v", *sp)
	if sp.refusedStep != 0 || sp.refusedWord != 0 {
		t.Fatalf("OLD incidental behaviour gone: the second searcher was asked about %d steps and %d words which the first searcher refuses (used to be 0 and 0)",
			sp.refusedStep, sp.refusedWord)
	}
}

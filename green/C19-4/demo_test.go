// C19 harmless change 4: graph.AllMaximalCliques makes its first pass over the vertices in a degeneracy ordering (the
// improvement its doc comment said was still missing). The set of maximal cliques it sends is the same; the order in
// which they arrive on the channel and the order of the vertices inside a clique are different.
//
// Run (from the root of the library worktree):
//
//	export GOFLAGS=-mod=mod GOPROXY=off GOSUMDB=off GOTOOLCHAIN=local
//	cp /tmp/green-out/C19/4/demo_test.go graph/zz_c19_demo_test.go
//	go test -race -vet=off -count=1 -timeout 600s -run 'TestC19' -v ./graph/
//	rm graph/zz_c19_demo_test.go
//
// Clean tree:   TestC19Property PASS (no race report), TestC19IncidentalCliqueOrder PASS.
// With patch 4: TestC19Property PASS (no race report), TestC19IncidentalCliqueOrder FAIL, e.g. for the path 0-1-2-3
//
//	[[1 0] [1 2] [3 2]] -> [[3 2] [2 1] [1 0]].
package graph_test

import (
	"fmt"
	"sort"
	"sync"
	"testing"

	"github.com/Tom-Johnston/mamba/graph"
	"github.com/Tom-Johnston/mamba/graph/search"
)

// c19Cliques runs the producer in its own goroutine and returns everything it sends, in order, once it has closed the channel.
func c19Cliques(g graph.Graph) [][]int {
	c := make(chan []int)
	go graph.AllMaximalCliques(g, c)
	var out [][]int
	for q := range c {
		out = append(out, q)
	}
	return out
}

// c19Key is the clique as a set.
func c19Key(q []int) string {
	s := append([]int(nil), q...)
	sort.Ints(s)
	return fmt.Sprint(s)
}

// c19Brute returns the maximal cliques of g as sets, found by looking at all subsets of the vertices.
func c19Brute(g graph.Graph) map[string]bool {
	n := g.N()
	isClique := make([]bool, 1<<uint(n))
	for s := 0; s < 1<<uint(n); s++ {
		ok := true
		for i := 0; i < n && ok; i++ {
			for j := i + 1; j < n && ok; j++ {
				if s>>uint(i)&1 == 1 && s>>uint(j)&1 == 1 && !g.IsEdge(i, j) {
					ok = false
				}
			}
		}
		isClique[s] = ok
	}
	out := map[string]bool{}
	for s := 0; s < 1<<uint(n); s++ {
		if !isClique[s] {
			continue
		}
		maximal := true
		q := []int{}
		for v := 0; v < n; v++ {
			if s>>uint(v)&1 == 1 {
				q = append(q, v)
			} else if isClique[s|1<<uint(v)] {
				maximal = false
			}
		}
		if maximal {
			out[fmt.Sprint(q)] = true
		}
	}
	return out
}

func c19Graphs() map[string]graph.Graph {
	gs := map[string]graph.Graph{
		"empty0":    graph.NewDense(0, nil),
		"single":    graph.NewDense(1, nil),
		"noedges5":  graph.NewDense(5, nil),
		"path4":     graph.Path(4),
		"cycle5":    graph.Cycle(5),
		"K6":        graph.CompleteGraph(6),
		"K222":      graph.CompletePartiteGraph(2, 2, 2),
		"K3333":     graph.CompletePartiteGraph(3, 3, 3, 3),
		"petersen":  graph.GeneralisedPetersenGraph(5, 2),
		"rook33":    graph.RookGraph(3, 3),
		"friend4":   graph.FriendshipGraph(4),
		"star7":     graph.Star(7),
		"random12a": graph.RandomGraph(12, 0.5, 1),
		"random12b": graph.RandomGraph(12, 0.8, 2),
		"random13":  graph.RandomGraph(13, 0.3, 3),
	}
	s, err := graph.Sparse6Decode(graph.Sparse6Encode(graph.RandomGraph(12, 0.4, 4)))
	if err != nil {
		panic(err)
	}
	gs["sparse12"] = s
	return gs
}

// TestC19Property checks the property itself: many producers (each with its own channel) and other observers run at the same time on shared
// finished graphs; every consumer receives exactly what it receives when it is the only goroutine, the channel is closed, and what it
// receives is every maximal clique of the graph exactly once. Run it with -race.
func TestC19Property(t *testing.T) {
	gs := c19Graphs()
	it := search.All(6, 0, 1)
	for i := 0; it.Next(); i++ {
		gs[fmt.Sprintf("all6/%d", i)] = it.Value().Copy()
	}

	const readers = 4
	type result struct {
		name    string
		cliques [][]int
		number  int
	}
	results := make(chan result)
	var wg sync.WaitGroup
	for name, g := range gs {
		for r := 0; r < readers; r++ {
			wg.Add(1)
			go func(name string, g graph.Graph) {
				defer wg.Done()
				results <- result{name, c19Cliques(g), graph.CliqueNumber(g)}
			}(name, g)
		}
	}
	go func() { wg.Wait(); close(results) }()
	concurrent := map[string][]result{}
	for r := range results {
		concurrent[r.name] = append(concurrent[r.name], r)
	}

	for name, g := range gs {
		alone := c19Cliques(g)
		want := c19Brute(g)
		seen := map[string]bool{}
		best := 0
		for _, q := range alone {
			k := c19Key(q)
			if seen[k] {
				t.Errorf("%s: clique %v sent twice", name, q)
			}
			seen[k] = true
			if !want[k] {
				t.Errorf("%s: %v is not a maximal clique", name, q)
			}
			if len(q) > best {
				best = len(q)
			}
		}
		if len(seen) != len(want) {
			t.Errorf("%s: %d maximal cliques sent, there are %d", name, len(seen), len(want))
		}
		if len(concurrent[name]) != readers {
			t.Errorf("%s: %d results", name, len(concurrent[name]))
		}
		for _, r := range concurrent[name] {
			if fmt.Sprint(r.cliques) != fmt.Sprint(alone) {
				t.Errorf("%s: a concurrent consumer received %v, alone %v", name, r.cliques, alone)
			}
			if r.number != best {
				t.Errorf("%s: CliqueNumber %d, largest clique sent %d", name, r.number, best)
			}
		}
	}
}

// TestC19IncidentalCliqueOrder pins something the property does not fix: the order in which the cliques arrive and the order of the vertices in them.
func TestC19IncidentalCliqueOrder(t *testing.T) {
	old := map[string]string{
		"path4":   "[[1 0] [1 2] [3 2]]",
		"cycle5":  "[[0 1] [0 4] [2 1] [3 2] [3 4]]",
		"K222":    "[[0 5 2] [0 5 3] [0 4 2] [0 4 3] [1 2 5] [1 2 4] [1 3 4] [1 3 5]]",
		"friend4": "[[0 1 2] [0 4 3] [0 6 5] [0 8 7]]",
		"star7":   "[[0 1] [0 2] [0 3] [0 4] [0 5] [0 6]]",
	}
	gs := c19Graphs()
	for name, want := range old {
		if got := fmt.Sprint(c19Cliques(gs[name])); got != want {
			t.Errorf("%s: received %s, on the clean tree %s", name, got, want)
		}
	}
}

// Demo for C12 change 4 (Builder.Finish marks the builder as finished, as its documentation always said: a second
// Finish and any Add after Finish now return an error; the register is released).
//
// Run (from the root of the library worktree):
//
//	cp /tmp/green-out/C12/4/demo_test.go dawg/c12demo4_test.go
//	GOFLAGS=-mod=mod GOPROXY=off GOSUMDB=off GOTOOLCHAIN=local go test -vet=off -count=1 -timeout 600s -run 'TestC12Demo4' -v ./dawg/
//	rm dawg/c12demo4_test.go
//
// TestC12Demo4Property checks the property itself (accepts exactly the words, NumberOfWords, ranks of members, false
// for non-members, minimal node count, rejected Adds return an error and are harmless, also through a builder reset
// with Initialise) on fixed and random word sets and passes before and after the change.
// TestC12Demo4Incidental asserts the OLD incidental behaviour outside the documented use of a Builder (a second Finish
// returns the same dawg again with a nil error, and Add after Finish returns nil) and therefore passes on the clean tree
// and fails with the change.
package dawg_test

import (
	"encoding/hex"
	"math/rand"
	"sort"
	"testing"

	"github.com/Tom-Johnston/mamba/dawg"
)

var c12demo4Sets = [][]string{
	{},
	{""},
	{"", "a"},
	{"abject", "abjection", "abjections", "abjectly", "abjectness", "ablate", "ablated", "ablation", "ablations"},
	{"", "a", "aa", "ab", "b", "ba", "bb", "tap", "taps", "top", "tops"},
	{"\x00", "\x00\xff", "\xff", "\xff\x00\xff"},
}

// randomSets4 returns sorted duplicate-free random word sets over small alphabets (many shared prefixes and suffixes).
func randomSets4(n int, seed int64) [][]string {
	rng := rand.New(rand.NewSource(seed))
	var sets [][]string
	for k := 0; k < n; k++ {
		alpha := 1 + rng.Intn(3)
		maxLen := 1 + rng.Intn(5)
		set := map[string]bool{}
		for i, m := 0, rng.Intn(14); i < m; i++ {
			w := make([]byte, rng.Intn(maxLen+1))
			for j := range w {
				w[j] = "ab\xff"[rng.Intn(alpha)]
			}
			set[string(w)] = true
		}
		words := []string{}
		for w := range set {
			words = append(words, w)
		}
		sort.Strings(words)
		sets = append(sets, words)
	}
	return sets
}

// minimalNodes4 is the number of states of the minimal (trim) deterministic acyclic automaton of the set: the number of
// distinct non-empty right languages of prefixes, and 1 (just the root) for the empty set.
func minimalNodes4(words []string) int {
	langs := map[string]bool{}
	for _, w := range words {
		for i := 0; i <= len(w); i++ {
			p := w[:i]
			var rl []string
			for _, v := range words {
				if len(v) >= len(p) && v[:len(p)] == p {
					rl = append(rl, v[len(p):])
				}
			}
			sort.Strings(rl)
			key := ""
			for _, s := range rl {
				key += hex.EncodeToString([]byte(s)) + ","
			}
			langs[key] = true
		}
	}
	if len(langs) == 0 {
		return 1
	}
	return len(langs)
}

// encodedNumNodes4 reads the node count which GobEncode writes first.
func encodedNumNodes4(t *testing.T, d *dawg.Dawg) int {
	b, err := d.GobEncode()
	if err != nil {
		t.Fatal(err)
	}
	if b[0] <= 127 {
		return int(b[0])
	}
	n := int(b[0]) - 128
	x := 0
	for _, c := range b[1 : 1+n] {
		x = x<<8 | int(c)
	}
	return x
}

func probes4(words []string) []string {
	set := map[string]bool{"": true, "zz": true, "a": true, "\x00": true}
	for _, w := range words {
		set[w] = true
		set[w+"a"] = true
		set[w+"\x00"] = true
		for i := 0; i < len(w); i++ {
			set[w[:i]] = true
			set[w[:i]+"\x01"] = true
			set[w[:i]+"b"] = true
		}
	}
	var ps []string
	for p := range set {
		ps = append(ps, p)
	}
	sort.Strings(ps)
	return ps
}

func checkDawg4(t *testing.T, d *dawg.Dawg, words []string) {
	t.Helper()
	if d.NumberOfWords() != len(words) {
		t.Errorf("%q: NumberOfWords = %d, want %d", words, d.NumberOfWords(), len(words))
	}
	rank := map[string]int{}
	for i, w := range words {
		rank[w] = i
	}
	for _, p := range probes4(words) {
		r, ok := d.Lookup([]byte(p))
		wr, wok := rank[p]
		if ok != wok || (ok && r != wr) {
			t.Errorf("%q: Lookup(%q) = (%d, %v), want (%d, %v)", words, p, r, ok, wr, wok)
		}
	}
	if got, want := encodedNumNodes4(t, d), minimalNodes4(words); got != want {
		t.Errorf("%q: %d nodes, minimal automaton has %d", words, got, want)
	}
}

func TestC12Demo4Property(t *testing.T) {
	rng := rand.New(rand.NewSource(12))
	for _, words := range append(c12demo4Sets, randomSets4(3000, 3)...) {
		var bs [][]byte
		for _, w := range words {
			bs = append(bs, []byte(w))
		}
		d, err := dawg.New(bs)
		if err != nil {
			t.Fatal(err)
		}
		checkDawg4(t, d, words)

		// The same set through a Builder with rejected Adds (duplicates and out-of-order words) in between.
		db := new(dawg.Builder)
		for i, w := range words {
			if err := db.Add([]byte(w)); err != nil {
				t.Fatal(err)
			}
			if err := db.Add([]byte(w)); err == nil {
				t.Errorf("%q: duplicate %q accepted", words, w)
			}
			if i > 0 {
				j := rng.Intn(i)
				if err := db.Add([]byte(words[j])); err == nil {
					t.Errorf("%q: out-of-order %q accepted", words, words[j])
				}
			}
			if w != "" {
				if err := db.Add([]byte(w[:len(w)-1])); err == nil {
					t.Errorf("%q: out-of-order %q accepted", words, w[:len(w)-1])
				}
			}
		}
		d, err = db.Finish()
		if err != nil {
			t.Fatal(err)
		}
		checkDawg4(t, d, words)

		// A builder which has been reset with Initialise() builds the same set again (documented way to reuse a builder).
		db.Initialise()
		for _, w := range words {
			if err := db.Add([]byte(w)); err != nil {
				t.Fatal(err)
			}
		}
		d2, err := db.Finish()
		if err != nil {
			t.Fatal(err)
		}
		checkDawg4(t, d2, words)
		checkDawg4(t, d, words) // the first dawg is not disturbed

		// New rejects a list with a duplicate or an inversion.
		if len(bs) > 0 {
			if _, err := dawg.New(append(bs[:len(bs):len(bs)], bs[rng.Intn(len(bs))])); err == nil {
				t.Errorf("%q: New accepted a list which is not strictly increasing", words)
			}
		}
	}
}

// On the clean tree the "done" flag of a Builder is never set: Finish can be called again and returns the same root
// with a nil error, and Add after Finish is accepted. The documentation forbids both uses ("finish can only be called
// once", "words cannot be added to a builder that has already finished") and the property says nothing about them.
func TestC12Demo4Incidental(t *testing.T) {
	for _, words := range c12demo4Sets {
		db := new(dawg.Builder)
		for _, w := range words {
			if err := db.Add([]byte(w)); err != nil {
				t.Fatal(err)
			}
		}
		d1, err := db.Finish()
		if err != nil {
			t.Fatal(err)
		}
		checkDawg4(t, d1, words)
		d2, err := db.Finish()
		t.Logf("%q: second Finish: same dawg %v, err %v", words, d1 == d2, err)
		if err != nil {
			t.Errorf("%q: second Finish: error %q, old behaviour: nil error", words, err)
		}
		if d2 != d1 {
			t.Errorf("%q: second Finish: old behaviour: the same *Dawg again", words)
		}
		checkDawg4(t, d1, words) // whatever the second Finish did, the dawg returned by the first is intact
	}

	// Add after Finish (a word larger than every word so far, so that the order check is not what rejects it).
	db := new(dawg.Builder)
	if err := db.Add([]byte("a")); err != nil {
		t.Fatal(err)
	}
	if _, err := db.Finish(); err != nil {
		t.Fatal(err)
	}
	err := db.Add([]byte("b"))
	t.Logf("Add after Finish: err %v", err)
	if err != nil {
		t.Errorf("Add after Finish: error %q, old behaviour: nil error", err)
	}
}

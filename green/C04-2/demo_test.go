// Demonstration for C04 change 2 (new layout of the saved record, written to w with a single Write).
//
// Run (from the root of the mamba repository):
//
//	mkdir -p c04demo && cp /tmp/green-out/C04/2/demo_test.go c04demo/ && \
//	  GOFLAGS=-mod=mod GOPROXY=off GOSUMDB=off GOTOOLCHAIN=local \
//	  go test -vet=off -count=1 -timeout 300s -v ./c04demo/ ; rm -rf c04demo
//
// TestProperty checks C04 itself (every save position, save/load chains, non-disturbance, independence)
// and passes on the clean tree AND with the patch.
// TestIncidentalSavedBytes asserts the OLD shape of what Save hands to the writer (number of Write calls,
// record length, digest, embedded gob type name); it passes on the clean tree and FAILS with the patch.
package c04demo

import (
	"bytes"
	"crypto/sha256"
	"fmt"
	"testing"

	"github.com/Tom-Johnston/mamba/graph"
	"github.com/Tom-Johnston/mamba/graph/search"
)

func snap(g *graph.DenseGraph) string {
	return fmt.Sprint(g.NumberOfVertices, g.NumberOfEdges, g.DegreeSequence, g.Edges)
}

func drain(it *search.GraphIterator) []string {
	var out []string
	for it.Next() {
		out = append(out, snap(it.Value()))
	}
	return out
}

func equal(a, b []string) bool {
	if len(a) != len(b) {
		return false
	}
	for i := range a {
		if a[i] != b[i] {
			return false
		}
	}
	return true
}

type pred struct {
	name      string
	pre, post func(g *graph.DenseGraph) bool
}

func never(g *graph.DenseGraph) bool { return false }

func maxDeg3(g *graph.DenseGraph) bool {
	for _, d := range g.DegreeSequence {
		if d > 3 {
			return true
		}
	}
	return false
}

func tooManyEdges(g *graph.DenseGraph) bool { return g.NumberOfEdges > g.NumberOfVertices+1 }

var preds = []pred{
	{"none", never, never},
	{"preprune-maxdeg3", maxDeg3, never},
	{"prune-edges", never, tooManyEdges},
}

func TestProperty(t *testing.T) {
	type am struct{ a, m int }
	for n := 0; n <= 6; n++ {
		for _, s := range []am{{0, 1}, {0, 2}, {1, 2}, {2, 3}} {
			for _, p := range preds {
				full := drain(search.WithPruning(n, s.a, s.m, p.pre, p.post))
				for k := 0; k <= len(full)+1; k++ {
					orig := search.WithPruning(n, s.a, s.m, p.pre, p.post)
					pos := k
					for i := 0; i < k; i++ {
						if !orig.Next() {
							pos = len(full) //saved after exhaustion
							break
						}
					}
					var buf bytes.Buffer
					orig.Save(&buf)
					saved := append([]byte(nil), buf.Bytes()...)
					want := full[pos:]

					//Load, advance one step, save again, load again (a chain), interleaved with the original.
					l1 := search.Load(bytes.NewReader(saved), p.pre, p.post)
					var got1 []string
					var got2 []string
					var gotOrig []string
					if l1.Next() {
						got1 = append(got1, snap(l1.Value()))
						got2 = append(got2, got1[0])
					}
					var buf2 bytes.Buffer
					l1.Save(&buf2)
					l2 := search.Load(bytes.NewReader(buf2.Bytes()), p.pre, p.post)
					for {
						a := l1.Next()
						if a {
							got1 = append(got1, snap(l1.Value()))
						}
						b := orig.Next()
						if b {
							gotOrig = append(gotOrig, snap(orig.Value()))
						}
						c := l2.Next()
						if c {
							got2 = append(got2, snap(l2.Value()))
						}
						if !a && !b && !c {
							break
						}
					}
					if !equal(gotOrig, want) {
						t.Fatalf("n=%d a=%d m=%d %s k=%d: the original was disturbed by Save", n, s.a, s.m, p.name, k)
					}
					if !equal(got1, want) {
						t.Fatalf("n=%d a=%d m=%d %s k=%d: the loaded iterator does not resume exactly", n, s.a, s.m, p.name, k)
					}
					if !equal(got2, want) {
						t.Fatalf("n=%d a=%d m=%d %s k=%d: the twice saved iterator does not resume exactly", n, s.a, s.m, p.name, k)
					}
					//The same bytes can be loaded again later.
					if l3 := search.Load(bytes.NewReader(saved), p.pre, p.post); !equal(drain(l3), want) {
						t.Fatalf("n=%d a=%d m=%d %s k=%d: second load differs", n, s.a, s.m, p.name, k)
					}
				}
			}
		}
	}
}

//countingWriter records how Save talks to its io.Writer.
type countingWriter struct {
	bytes.Buffer
	writes int
}

func (c *countingWriter) Write(p []byte) (int, error) {
	c.writes++
	return c.Buffer.Write(p)
}

func TestIncidentalSavedBytes(t *testing.T) {
	it := search.All(5, 0, 1)
	for i := 0; i < 7; i++ {
		it.Next()
	}
	w := new(countingWriter)
	it.Save(w)
	digest := fmt.Sprintf("%x", sha256.Sum256(w.Bytes()))
	t.Logf("writes=%d len=%d sha256=%s mentionsDenseGraph=%v", w.writes, w.Len(), digest, bytes.Contains(w.Bytes(), []byte("DenseGraph")))

	//What the pinned tree happens to do.
	const oldWrites = 5
	const oldLen = 269
	const oldDigest = "ef896c1fb0a95971e6b00972f8775f4e5c4276458af27ea562f4af2909ff14b2"
	if w.writes != oldWrites {
		t.Errorf("Save made %d calls of Write, the old implementation made %d", w.writes, oldWrites)
	}
	if w.Len() != oldLen {
		t.Errorf("the saved record has %d bytes, the old one had %d", w.Len(), oldLen)
	}
	if digest != oldDigest {
		t.Errorf("the saved record is not byte for byte the old one")
	}
	if !bytes.Contains(w.Bytes(), []byte("DenseGraph")) {
		t.Errorf("the saved record does not embed a gob encoded graph.DenseGraph any more")
	}

	//Whatever the bytes are, they resume exactly (the property).
	want := drain(it)
	if got := drain(search.Load(bytes.NewReader(w.Bytes()), never, never)); !equal(got, want) {
		t.Fatalf("the loaded iterator does not resume exactly")
	}
}

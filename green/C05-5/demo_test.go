// Demo for green change C05/5 (SparseGraph.AddEdge inserts into the neighbour lists in place, using spare capacity).
//
// Run (from the root of the library):
//
//	cp /tmp/green-out/C05/5/demo_test.go graph/c05_demo5_test.go
//	GOFLAGS=-mod=mod GOPROXY=off GOSUMDB=off GOTOOLCHAIN=local go test -vet=off -count=1 -timeout 120s -run 'TestC05Demo5' -v ./graph/
//	rm graph/c05_demo5_test.go
//
// TestC05Demo5Property checks the property itself (random edit histories with valid arguments against an
// adjacency-set model, dense against sparse, Copy and InducedSubgraph results edited next to their source and both
// sides rechecked): it passes on the clean tree and with the change.
// TestC05Demo5OldIncidental asserts three OLD incidental behaviours of SparseGraph.AddEdge, all read through the
// exported field Neighbourhoods or the allocator and none of them part of the property: every AddEdge leaves the two
// neighbour lists with cap == len, a slice header taken from g.Neighbourhoods[v] before an AddEdge still shows the old
// list afterwards, and an AddEdge/RemoveEdge pair costs six heap allocations.  It passes on the clean tree and fails
// with the change; the observers are compared with the expected graph in the same test and agree on both.
package graph_test

import (
	"fmt"
	"math/rand"
	"sort"
	"testing"

	"github.com/Tom-Johnston/mamba/graph"
)

type model struct{ adj []map[int]bool }

func (m *model) n() int { return len(m.adj) }
func (m *model) addVertex(nb []int) {
	v := len(m.adj)
	m.adj = append(m.adj, map[int]bool{})
	for _, u := range nb {
		m.adj[u][v] = true
		m.adj[v][u] = true
	}
}
func (m *model) removeVertex(v int) {
	adj := make([]map[int]bool, 0, len(m.adj)-1)
	for i, s := range m.adj {
		if i == v {
			continue
		}
		t := map[int]bool{}
		for u := range s {
			if u < v {
				t[u] = true
			} else if u > v {
				t[u-1] = true
			}
		}
		adj = append(adj, t)
	}
	m.adj = adj
}
func (m *model) addEdge(i, j int) {
	if i != j {
		m.adj[i][j] = true
		m.adj[j][i] = true
	}
}
func (m *model) removeEdge(i, j int) {
	delete(m.adj[i], j)
	delete(m.adj[j], i)
}
func (m *model) induced(V []int) *model {
	h := &model{}
	for range V {
		h.adj = append(h.adj, map[int]bool{})
	}
	for i := range V {
		for j := range V {
			if m.adj[V[i]][V[j]] {
				h.adj[i][j] = true
			}
		}
	}
	return h
}
func (m *model) copy() *model {
	V := make([]int, m.n())
	for i := range V {
		V[i] = i
	}
	return m.induced(V)
}

func agree(t *testing.T, what string, g graph.Graph, m *model) {
	t.Helper()
	if g.N() != m.n() {
		t.Fatalf("%s: N = %d, model %d", what, g.N(), m.n())
	}
	edges := 0
	deg := g.Degrees()
	if len(deg) != m.n() {
		t.Fatalf("%s: len(Degrees) = %d, model %d", what, len(deg), m.n())
	}
	for v := 0; v < m.n(); v++ {
		want := []int{}
		for u := range m.adj[v] {
			want = append(want, u)
		}
		sort.Ints(want)
		edges += len(want)
		if got := g.Neighbours(v); fmt.Sprint(got) != fmt.Sprint(want) {
			t.Fatalf("%s: Neighbours(%d) = %v, model %v", what, v, got, want)
		}
		if deg[v] != len(want) {
			t.Fatalf("%s: Degrees[%d] = %d, model %d", what, v, deg[v], len(want))
		}
		for u := 0; u < m.n(); u++ {
			if g.IsEdge(u, v) != m.adj[u][v] {
				t.Fatalf("%s: IsEdge(%d,%d) = %v, model %v", what, u, v, g.IsEdge(u, v), m.adj[u][v])
			}
		}
	}
	if g.M() != edges/2 {
		t.Fatalf("%s: M = %d, model %d", what, g.M(), edges/2)
	}
}

func TestC05Demo5Property(t *testing.T) {
	rng := rand.New(rand.NewSource(5))
	for trial := 0; trial < 200; trial++ {
		var d graph.EditableGraph = graph.NewDense(0, nil)
		var s graph.EditableGraph = graph.NewSparse(0, nil)
		m := &model{}
		for step := 0; step < 60; step++ {
			n := m.n()
			switch op := rng.Intn(8); {
			case op <= 1 || n == 0:
				nb := rng.Perm(n)[:rng.Intn(n+1)]
				d.AddVertex(nb)
				s.AddVertex(nb)
				m.addVertex(nb)
			case op == 2 && n > 0:
				v := rng.Intn(n)
				d.RemoveVertex(v)
				s.RemoveVertex(v)
				m.removeVertex(v)
			case op <= 4:
				i, j := rng.Intn(n), rng.Intn(n)
				d.AddEdge(i, j)
				s.AddEdge(i, j)
				m.addEdge(i, j)
			case op == 5:
				i, j := rng.Intn(n), rng.Intn(n)
				d.RemoveEdge(i, j)
				s.RemoveEdge(i, j)
				m.removeEdge(i, j)
			case op == 6:
				//Edit the copy and the source differently (AddEdge on both sides), then check each against its own model.
				d2, s2, m2 := d.Copy(), s.Copy(), m.copy()
				for k := 0; k < 6 && n > 1; k++ {
					i, j := rng.Intn(n), rng.Intn(n)
					d2.AddEdge(i, j)
					s2.AddEdge(i, j)
					m2.addEdge(i, j)
					i, j = rng.Intn(n), rng.Intn(n)
					d.AddEdge(i, j)
					s.AddEdge(i, j)
					m.addEdge(i, j)
					i, j = rng.Intn(n), rng.Intn(n)
					d2.RemoveEdge(i, j)
					s2.RemoveEdge(i, j)
					m2.removeEdge(i, j)
				}
				agree(t, "dense copy", d2, m2)
				agree(t, "sparse copy", s2, m2)
				agree(t, "dense source after editing the copy", d, m)
				agree(t, "sparse source after editing the copy", s, m)
				if rng.Intn(3) == 0 {
					d, s, m = d2, s2, m2
				}
			default:
				V := rng.Perm(n)[:rng.Intn(n+1)]
				d2, s2, m2 := d.InducedSubgraph(V), s.InducedSubgraph(V), m.induced(V)
				agree(t, "dense induced", d2, m2)
				agree(t, "sparse induced", s2, m2)
				for k := 0; k < 4 && len(V) > 1; k++ {
					i, j := rng.Intn(len(V)), rng.Intn(len(V))
					d2.AddEdge(i, j)
					s2.AddEdge(i, j)
					m2.addEdge(i, j)
				}
				agree(t, "dense induced, edited", d2, m2)
				agree(t, "sparse induced, edited", s2, m2)
				agree(t, "dense source after editing the induced subgraph", d, m)
				agree(t, "sparse source after editing the induced subgraph", s, m)
				if rng.Intn(2) == 0 {
					d, s, m = d2, s2, m2
				}
			}
			agree(t, "dense", d, m)
			agree(t, "sparse", s, m)
		}
	}
}


func TestC05Demo5OldIncidental(t *testing.T) {
	g := graph.NewSparse(8, nil)
	d := graph.NewDense(8, nil)
	m := &model{}
	for i := 0; i < 8; i++ {
		m.addVertex(nil)
	}
	add := func(i, j int) {
		g.AddEdge(i, j)
		d.AddEdge(i, j)
		m.addEdge(i, j)
		//The property on this input.
		agree(t, "sparse", g, m)
		agree(t, "dense", d, m)
	}

	//1. cap == len after every AddEdge (SortedInts.Add builds a slice of exactly the new length).
	exact := true
	for _, e := range [][2]int{{0, 7}, {0, 5}, {0, 3}, {0, 1}, {0, 6}, {2, 0}} {
		add(e[0], e[1])
		for _, v := range e {
			if cap(g.Neighbourhoods[v]) != len(g.Neighbourhoods[v]) {
				exact = false
			}
		}
	}
	t.Logf("Neighbourhoods[0] = %v, len %d, cap %d", g.Neighbourhoods[0], len(g.Neighbourhoods[0]), cap(g.Neighbourhoods[0]))
	if !exact {
		t.Errorf("a neighbour list has spare capacity after AddEdge; old behaviour is cap == len after every AddEdge")
	}

	//2. A slice header read from the exported field before an AddEdge. The old AddEdge replaces the list by a new slice and leaves the old array alone.
	before := g.Neighbourhoods[0]
	snapshot := fmt.Sprint(before)
	add(0, 4)
	t.Logf("header taken before AddEdge(0,4): then %s, now %v; Neighbours(0) = %v", snapshot, before, g.Neighbours(0))
	add(4, 0) //already present: nothing happens in either version
	g.RemoveEdge(0, 4)
	d.RemoveEdge(0, 4)
	m.removeEdge(0, 4)
	agree(t, "sparse", g, m)
	agree(t, "dense", d, m)
	before = g.Neighbourhoods[0]
	snapshot = fmt.Sprint(before)
	add(0, 4)
	if fmt.Sprint(before) != snapshot {
		t.Errorf("header taken from g.Neighbourhoods[0] before AddEdge(0,4) showed %s and shows %v now; old behaviour is that it does not change", snapshot, before)
	}

	//3. Heap allocations of an AddEdge/RemoveEdge pair (old: two calls of SortedInts.Add, three slices each).
	allocs := testing.AllocsPerRun(100, func() {
		g.AddEdge(3, 6)
		g.RemoveEdge(3, 6)
	})
	t.Logf("AddEdge(3,6) + RemoveEdge(3,6): %v allocations", allocs)
	if allocs < 6 {
		t.Errorf("AddEdge + RemoveEdge: %v allocations, old behaviour is 6", allocs)
	}
	agree(t, "sparse", g, m)
}

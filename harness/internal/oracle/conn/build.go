package conn

import (
	"sort"

	"verif/internal/engine"
	"verif/internal/oracle/rg"
)

// Built is a graph whose block structure is known by construction: it is
// glued from 2-connected pieces (and single edges) that pairwise share at
// most one vertex and are arranged as a forest, so the pieces are exactly the
// blocks and the vertices lying in two or more pieces are exactly the
// articulation vertices.
type Built struct {
	G        *rg.G
	Blocks   [][]int // ascending vertex lists, sorted lexicographically
	Isolated []int
	Art      []int
	Pieces   []string // kind of every piece, in construction order
}

// Mode selects the pieces used by BuildBlockTree.
type Mode int

const (
	Trees  Mode = iota // bridges only
	Cactus             // bridges and cycles
	Mixed              // bridges, cycles, cliques, wheels, K2,k, cycles with chords
)

type piece struct {
	verts []int
	kind  string
}

// BuildBlockTree builds a random block forest with about n vertices.
// hubBias in [0,1] is the probability of attaching the next piece to the
// vertex used last time (many blocks at one cut vertex); deepBias the
// probability of attaching to a vertex of the newest piece (long chains).
func BuildBlockTree(r *engine.Rng, n int, mode Mode, comps, isolated int, hubBias, deepBias float64) *Built {
	type edge struct{ a, b int }
	var edges []edge
	var pieces []piece
	nv := 0
	var isoList []int
	for i := 0; i < isolated && nv < n; i++ {
		isoList = append(isoList, nv)
		nv++
	}
	if comps < 1 {
		comps = 1
	}
	per := (n - nv) / comps
	for c := 0; c < comps; c++ {
		limit := nv + per
		if c == comps-1 {
			limit = n
		}
		if limit-nv < 2 {
			break
		}
		compVerts := []int{nv}
		nv++
		lastAttach := compVerts[0]
		newest := []int{compVerts[0]}
		for nv < limit {
			var a int
			switch {
			case r.Bool(hubBias):
				a = lastAttach
			case r.Bool(deepBias):
				a = newest[r.Intn(len(newest))]
			default:
				a = compVerts[r.Intn(len(compVerts))]
			}
			lastAttach = a
			room := limit - nv // new vertices available
			k := 2             // piece size including a
			kind := "K2"
			if mode != Trees && room >= 2 && r.Bool(0.6) {
				k = 3 + r.Intn(4)
				if k-1 > room {
					k = room + 1
				}
				kinds := []string{"cycle"}
				if mode == Mixed {
					kinds = []string{"cycle", "complete", "chords", "wheel", "K2,k"}
				}
				kind = kinds[r.Intn(len(kinds))]
				if k < 4 && (kind == "wheel" || kind == "K2,k") {
					kind = "cycle"
				}
			}
			vs := make([]int, k)
			vs[0] = a
			for i := 1; i < k; i++ {
				vs[i] = nv
				nv++
			}
			newest = append([]int(nil), vs...)
			compVerts = append(compVerts, vs[1:]...)
			// a sits at a random position of the piece
			r.Shuffle(vs)
			switch kind {
			case "K2":
				edges = append(edges, edge{vs[0], vs[1]})
			case "cycle":
				for i := 0; i < k; i++ {
					edges = append(edges, edge{vs[i], vs[(i+1)%k]})
				}
			case "complete":
				for i := 0; i < k; i++ {
					for j := 0; j < i; j++ {
						edges = append(edges, edge{vs[i], vs[j]})
					}
				}
			case "chords":
				for i := 0; i < k; i++ {
					edges = append(edges, edge{vs[i], vs[(i+1)%k]})
				}
				for t := 0; t < 1+r.Intn(3); t++ {
					i, j := r.Intn(k), r.Intn(k)
					if i != j {
						edges = append(edges, edge{vs[i], vs[j]})
					}
				}
			case "wheel":
				for i := 1; i < k; i++ {
					edges = append(edges, edge{vs[0], vs[i]})
					nx := i + 1
					if nx == k {
						nx = 1
					}
					edges = append(edges, edge{vs[i], vs[nx]})
				}
			case "K2,k":
				for i := 2; i < k; i++ {
					edges = append(edges, edge{vs[0], vs[i]}, edge{vs[1], vs[i]})
				}
			}
			pieces = append(pieces, piece{append([]int(nil), vs...), kind})
		}
	}
	// vertices never created count as isolated too
	for nv < n {
		isoList = append(isoList, nv)
		nv++
	}
	// random relabelling: vertex x of the construction becomes p[x]
	p := r.Perm(nv)
	g := rg.New(nv)
	for _, e := range edges {
		g.Add(p[e.a], p[e.b])
	}
	b := &Built{G: g}
	inPieces := make([]int, nv)
	for _, pc := range pieces {
		s := make([]int, len(pc.verts))
		for i, x := range pc.verts {
			s[i] = p[x]
			inPieces[p[x]]++
		}
		sort.Ints(s)
		b.Blocks = append(b.Blocks, s)
		b.Pieces = append(b.Pieces, pc.kind)
	}
	SortSets(b.Blocks)
	b.Isolated = []int{}
	for _, x := range isoList {
		b.Isolated = append(b.Isolated, p[x])
	}
	sort.Ints(b.Isolated)
	b.Art = []int{}
	for v, k := range inPieces {
		if k >= 2 {
			b.Art = append(b.Art, v)
		}
	}
	return b
}

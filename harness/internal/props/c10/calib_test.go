package c10

import (
	"fmt"
	"testing"
	"time"

	"github.com/Tom-Johnston/mamba/graph"
	"verif/internal/engine"
	"verif/internal/gen"
	"verif/internal/oracle/rg"
)

func TestCalib(t *testing.T) {
	r := engine.NewRng(5)
	var gs []*rg.G
	for _, f := range families() {
		gs = append(gs, f.g)
	}
	for i := 0; i < 12; i++ {
		gs = append(gs, gen.Random(r, 13, 0.1+0.06*float64(i)))
	}
	for _, g := range gs {
		if g.N < 6 {
			continue
		}
		t0 := time.Now()
		w := oracle(g)
		to := time.Since(t0)
		if w.indCycles == nil || w.indPaths == nil {
			fmt.Println(g.N, g.M(), "oracle gave up", to)
			continue
		}
		d := g.Dense()
		t0 = time.Now()
		graph.NumberOfInducedCycles(d, -1)
		t1 := time.Since(t0)
		t0 = time.Now()
		graph.NumberOfInducedPaths(d, -1)
		t2 := time.Since(t0)
		fmt.Printf("n=%d m=%d steps=%d oracle=%v libC=%v libP=%v  perstep=%.2fus mu=%d\n", g.N, g.M(), w.indSteps, to, t1, t2, float64((t1+t2).Microseconds())/float64(w.indSteps+1), w.maxMu)
	}
}

package c06

import (
	"fmt"

	"verif/internal/engine"
	"verif/internal/gen"
	"verif/internal/oracle/brute"
	"verif/internal/oracle/codec"
	"verif/internal/oracle/iso"
	"verif/internal/oracle/rg"
	"verif/internal/selfcheck"
)

func regular(g *rg.G, d int) bool {
	for _, x := range g.Degrees() {
		if x != d {
			return false
		}
	}
	return true
}

func binom(n, k int) int {
	if k < 0 || k > n {
		return 0
	}
	r := 1
	for i := 1; i <= k; i++ {
		r = r * (n - k + i) / i
	}
	return r
}

func init() {
	selfcheck.Add("c06 reference families", func() error {
		aut := func(g *rg.G) string { return iso.Automorphisms(g, nil).Order.String() }
		// Petersen three ways
		pet := refKneser(5, 2)
		if pet.N != 10 || pet.M() != 15 || !regular(pet, 3) || aut(pet) != "120" {
			return fmt.Errorf("refKneser(5,2) is not the Petersen graph")
		}
		if !iso.Isomorphic(pet, refGenPetersen(5, 2)) {
			return fmt.Errorf("refGenPetersen(5,2) not isomorphic to K(5,2)")
		}
		if !refGenPetersen(7, 3).Equal(gen.GenPetersen(7, 3)) && !iso.Isomorphic(refGenPetersen(7, 3), gen.GenPetersen(7, 3)) {
			return fmt.Errorf("refGenPetersen(7,3) differs from gen.GenPetersen")
		}
		// colex order: the 2-subsets of [4] are 01 02 12 03 13 23
		if fmt.Sprint(kSubsets(4, 2)) != "[3 5 6 9 10 12]" {
			return fmt.Errorf("kSubsets(4,2) = %v", kSubsets(4, 2))
		}
		for n := 0; n <= 7; n++ {
			for k := 0; k <= n; k++ {
				g := refKneser(n, k)
				wantM := binom(n, k) * binom(n-k, k) / 2
				if k == 0 {
					wantM = 0
				}
				if g.N != binom(n, k) || g.M() != wantM {
					return fmt.Errorf("refKneser(%d,%d): n=%d m=%d", n, k, g.N, g.M())
				}
				b := refBipartiteKneser(n, k)
				// every k-set lies in C(n-k, n-2k) sets of size n-k (k <= n-k), symmetric otherwise
				lo := k
				if n-k < lo {
					lo = n - k
				}
				if b.N != 2*binom(n, k) || b.M() != binom(n, k)*binom(n-lo, n-2*lo) {
					return fmt.Errorf("refBipartiteKneser(%d,%d): n=%d m=%d", n, k, b.N, b.M())
				}
			}
		}
		if !iso.Isomorphic(refKneser(6, 2), gen.Kneser(6, 2)) || aut(refKneser(6, 2)) != "720" {
			return fmt.Errorf("refKneser(6,2)")
		}
		// H(3,1) and H(3,2) are both the 6-cycle
		if !iso.Isomorphic(refBipartiteKneser(3, 1), refCycle(6)) || !iso.Isomorphic(refBipartiteKneser(3, 2), refCycle(6)) {
			return fmt.Errorf("refBipartiteKneser(3,1)/(3,2) is not C6")
		}
		// hypercubes
		for d := 0; d <= 6; d++ {
			q := refHypercube(d)
			if q.N != 1<<uint(d) || q.M() != d*(1<<uint(d))/2 || !regular(q, d) {
				return fmt.Errorf("refHypercube(%d)", d)
			}
		}
		if aut(refHypercube(4)) != "384" || !iso.Isomorphic(refHypercube(4), gen.Hypercube(4)) {
			return fmt.Errorf("refHypercube(4): |Aut| != 384")
		}
		// folded 5-cube = Clebsch graph: 16 vertices, 5-regular, |Aut| = 1920; folded 3-cube = K4, folded 4-cube = K4,4
		if f := refFoldedHypercube(5); f.N != 16 || !regular(f, 5) || aut(f) != "1920" {
			return fmt.Errorf("refFoldedHypercube(5) is not the Clebsch graph")
		}
		if !refFoldedHypercube(3).Equal(refComplete(4)) || !iso.Isomorphic(refFoldedHypercube(4), refMultipartite([]int{4, 4})) {
			return fmt.Errorf("refFoldedHypercube(3)/(4)")
		}
		if f := refFoldedHypercube(1); f.N != 1 || f.M() != 0 {
			return fmt.Errorf("refFoldedHypercube(1)")
		}
		if f := refFoldedHypercube(2); f.N != 2 || f.M() != 1 {
			return fmt.Errorf("refFoldedHypercube(2)")
		}
		// rook graphs
		if r := refRook(3, 3); !regular(r, 4) || aut(r) != "72" || !iso.Isomorphic(r, gen.Rook(3, 3)) {
			return fmt.Errorf("refRook(3,3)")
		}
		if r := refRook(4, 4); !regular(r, 6) || !iso.Isomorphic(r, gen.Rook(4, 4)) || iso.Isomorphic(r, gen.Shrikhande()) {
			return fmt.Errorf("refRook(4,4)")
		}
		if r := refRook(2, 5); r.N != 10 || r.M() != 5+2*10 {
			return fmt.Errorf("refRook(2,5)")
		}
		// flower snark J5: 20 vertices, 30 edges, cubic, girth 5, |Aut| = 20, chromatic index 4 is not checked
		j5 := refFlowerSnark(5)
		if j5.N != 20 || j5.M() != 30 || !regular(j5, 3) || brute.FromRG(j5, 20).Girth() != 5 || aut(j5) != "20" {
			return fmt.Errorf("refFlowerSnark(5): n=%d m=%d girth=%d aut=%s", j5.N, j5.M(), brute.FromRG(j5, 20).Girth(), aut(j5))
		}
		if j3 := refFlowerSnark(3); j3.N != 12 || !regular(j3, 3) || brute.FromRG(j3, 12).Girth() != 3 {
			return fmt.Errorf("refFlowerSnark(3)")
		}
		// circulants
		if !refCirculant(9, []int{1, -2}).Equal(gen.Circulant(9, 1, 2)) || !refCirculant(5, []int{1, 2}).Equal(refComplete(5)) {
			return fmt.Errorf("refCirculant")
		}
		if !refCirculant(6, []int{3}).Equal(refCirculant(6, []int{9, 0, 6})) || refCirculant(6, []int{3}).M() != 3 {
			return fmt.Errorf("refCirculant(6;3)")
		}
		if c := refCirculantBipartite(4, 4, []int{0, 1}); !iso.Isomorphic(c, refCycle(8)) {
			return fmt.Errorf("refCirculantBipartite(4,4;0,1) is not C8")
		}
		if c := refCirculantBipartite(3, 5, []int{0, 1, 2, 3, 4}); !c.Equal(refMultipartite([]int{3, 5})) {
			return fmt.Errorf("refCirculantBipartite(3,5;all) is not K3,5")
		}
		// heawood = circulant bipartite (7,7; 0,1,3)
		if c := refCirculantBipartite(7, 7, []int{0, 1, 3}); !iso.Isomorphic(c, gen.Heawood()) {
			return fmt.Errorf("refCirculantBipartite(7,7;0,1,3) is not the Heawood graph")
		}
		if !refMultipartite([]int{2, 0, 3}).Equal(gen.CompleteMultipartite(2, 3)) || refMultipartite([]int{2, 2, 2}).M() != 12 {
			return fmt.Errorf("refMultipartite")
		}
		if f := refFriendship(3); f.N != 7 || f.M() != 9 || f.Deg(0) != 6 || aut(f) != "48" {
			return fmt.Errorf("refFriendship(3)")
		}
		if !refPath(5).Equal(gen.PathG(5)) || !refCycle(7).Equal(gen.Cycle(7)) || refStar(6).Deg(0) != 5 || refStar(6).M() != 5 {
			return fmt.Errorf("path/cycle/star")
		}
		return nil
	})
	selfcheck.Add("c06 line graph, Pruefer, Multicode, sparse6 writers", func() error {
		// L(K4) = octahedron K2,2,2 ; L(K5) = complement of Petersen ; L(K1,3) = K3 = L(K3)
		if !iso.Isomorphic(refLineGraph(refComplete(4)), refMultipartite([]int{2, 2, 2})) {
			return fmt.Errorf("L(K4)")
		}
		if !iso.Isomorphic(refLineGraph(refComplete(5)), refKneser(5, 2).Complement()) {
			return fmt.Errorf("L(K5)")
		}
		if !refLineGraph(refStar(4)).Equal(refComplete(3)) || !refLineGraph(refCycle(3)).Equal(refComplete(3)) {
			return fmt.Errorf("L(K1,3), L(K3)")
		}
		for n := 0; n <= 6; n++ {
			for _, g := range gen.Classes(n) {
				l, _ := brute.FromRG(g, g.N).LineGraph()
				ref := refLineGraph(g)
				for i := 0; i < ref.N; i++ {
					for j := 0; j < ref.N; j++ {
						if i != j && ref.Has(i, j) != l.Has(i, j) {
							return fmt.Errorf("refLineGraph differs from brute.LineGraph on %s", g.G6())
						}
					}
				}
			}
		}
		// Wikipedia example: code 4,4,4,5 (1-based) <-> edges 1-4 2-4 3-4 4-5 5-6
		t := refPrufer([]int{3, 3, 3, 4})
		w := rg.New(6)
		for _, e := range [][2]int{{0, 3}, {1, 3}, {2, 3}, {3, 4}, {4, 5}} {
			w.Add(e[0], e[1])
		}
		if !t.Equal(w) {
			return fmt.Errorf("refPrufer(4,4,4,5) = %s", t)
		}
		// Cayley: the n^(n-2) codes give n^(n-2) distinct trees
		for n := 2; n <= 6; n++ {
			seen := map[string]bool{}
			p := make([]int, n-2)
			var rec func(i int) error
			rec = func(i int) error {
				if i == len(p) {
					t := refPrufer(p)
					if !isTree(t) {
						return fmt.Errorf("refPrufer(%v) is not a tree", p)
					}
					for v := 0; v < n; v++ {
						cnt := 1
						for _, x := range p {
							if x == v {
								cnt++
							}
						}
						if t.Deg(v) != cnt {
							return fmt.Errorf("refPrufer(%v): degree of %d", p, v)
						}
					}
					seen[t.Key()] = true
					return nil
				}
				for v := 0; v < n; v++ {
					p[i] = v
					if err := rec(i + 1); err != nil {
						return err
					}
				}
				return nil
			}
			if err := rec(0); err != nil {
				return err
			}
			want := 1
			for i := 0; i < n-2; i++ {
				want *= n
			}
			if len(seen) != want {
				return fmt.Errorf("refPrufer n=%d: %d distinct trees, want %d", n, len(seen), want)
			}
		}
		// Multicode of the path 0-1-2 and of K3 plus an isolated vertex
		if fmt.Sprint(refMulticode(refPath(3))) != "[3 2 0 3 0]" || fmt.Sprint(refMulticode(rg.Union(refComplete(3), rg.New(1)))) != "[4 2 3 0 3 0 0]" || fmt.Sprint(refMulticode(rg.New(0))) != "[0]" || fmt.Sprint(refMulticode(rg.New(1))) != "[1]" {
			return fmt.Errorf("refMulticode")
		}
		// formats.txt example :Fa@x^ = 7 vertices, edges 0-1 0-2 1-2 5-6
		ex := rg.New(7)
		for _, e := range [][2]int{{0, 1}, {0, 2}, {1, 2}, {5, 6}} {
			ex.Add(e[0], e[1])
		}
		if s := refSparse6(ex); s != ":Fa@x^" {
			return fmt.Errorf("refSparse6(example of formats.txt) = %q", s)
		}
		if s := refSparse6(refComplete(2)); s != ":An" {
			return fmt.Errorf("refSparse6(K2) = %q", s)
		}
		if refSparse6(rg.New(0)) != ":?" || refSparse6(rg.New(1)) != ":@" || refSparse6(rg.New(5)) != ":D" {
			return fmt.Errorf("refSparse6 of edgeless graphs")
		}
		// round trip through the tolerant reader on all classes n <= 6 and on 2, 4, 8, 16 vertices with a trailing isolated vertex
		for n := 0; n <= 6; n++ {
			for _, g := range gen.Classes(n) {
				if !refSparse6Decode(refSparse6(g)).Equal(g) {
					return fmt.Errorf("sparse6 writer/reader disagree on %s: %q", g.G6(), refSparse6(g))
				}
			}
		}
		for _, n := range []int{2, 4, 8, 16, 17, 33, 70} {
			g := refPath(n - 1)
			g = g.AddVertex(nil)
			if !refSparse6Decode(refSparse6(g)).Equal(g) {
				return fmt.Errorf("sparse6 writer/reader disagree on P%d + K1: %q", n-1, refSparse6(g))
			}
			h := refCycle(n + 1)
			if !refSparse6Decode(refSparse6(h)).Equal(h) {
				return fmt.Errorf("sparse6 writer/reader disagree on C%d", n+1)
			}
		}
		return nil
	})
	selfcheck.Add("c06 free-form writers (sparse6 in any order with repeats and loops, Multicode in any order, edge bytes 1..255)", func() error {
		// hand-made strings with a published meaning: the star K1,3 with the pairs of vertex 3 as 2,0,1 and as 0,1,2
		star := refStar(4)
		if !star.Has(0, 1) { // refStar has its centre at 0: relabel to centre 3
			return fmt.Errorf("refStar(4)")
		}
		star3 := rg.New(4)
		star3.Add(3, 0)
		star3.Add(3, 1)
		star3.Add(3, 2)
		for _, s := range []string{":CY@", codec.Sparse6(4, star3.Edges())} {
			sc, err := codec.Sparse6Scan(s, 100)
			if err != nil || !sc.Graph().Equal(star3) || !refSparse6Decode(s).Equal(star3) {
				return fmt.Errorf("%q is not read as the star with centre 3", s)
			}
		}
		rnd := engine.NewRng(20260928)
		var tot s6Info
		written, certified := 0, 0
		try := func(g *rg.G) error {
			if g.N < 2 {
				return nil
			}
			written++
			s, info, ok := wildSparse6(g, rnd)
			if !ok {
				return nil
			}
			certified++
			body := s
			if info.Header {
				body = s[len(codec.S6Header):]
			}
			if !refSparse6Decode(body).Equal(g) {
				return fmt.Errorf("free-form sparse6 %q of %s is read as another graph by the second reader", s, g)
			}
			sc, err := codec.Sparse6Scan(s, maxN)
			if err != nil || (info.Loops > 0) != (sc.Loops > 0) || (info.AdjacentRepeats+info.SeparatedRepeats > 0) != (sc.Repeats > 0) || (info.Beyond > 0 && sc.Beyond == 0) {
				return fmt.Errorf("free-form sparse6 %q of %s: the writer says %+v, the reader %+v", s, g, info, sc)
			}
			tot.Unordered += info.Unordered
			tot.AdjacentRepeats += info.AdjacentRepeats
			tot.SeparatedRepeats += info.SeparatedRepeats
			tot.Loops += info.Loops
			tot.EmptyMoves += info.EmptyMoves
			tot.Beyond += info.Beyond
			return nil
		}
		for n := 2; n <= 6; n++ {
			for _, g := range gen.Classes(n) {
				if err := try(g); err != nil {
					return err
				}
			}
		}
		for _, n := range []int{2, 3, 4, 5, 8, 9, 15, 16, 17, 31, 32, 33, 62, 63, 64, 70} {
			for _, p := range []float64{0.05, 0.3, 0.9} {
				if err := try(gen.Random(rnd, n, p)); err != nil {
					return err
				}
			}
			if err := try(refPath(n - 1).AddVertex(nil)); err != nil {
				return err
			}
		}
		if certified*10 < written*9 {
			return fmt.Errorf("free-form sparse6 writer: only %d of %d strings certified", certified, written)
		}
		if tot.Unordered == 0 || tot.AdjacentRepeats == 0 || tot.SeparatedRepeats == 0 || tot.Loops == 0 || tot.EmptyMoves == 0 || tot.Beyond == 0 {
			return fmt.Errorf("free-form sparse6 writer does not use every freedom: %+v", tot)
		}
		// Multicode in any order; edge bytes
		unorderedSeen := false
		for n := 1; n <= 6; n++ {
			for _, g := range gen.Classes(n) {
				rec, un := freeMulticode(g, rnd)
				pg, rest, err := codec.MulticodeParse(append([]byte{}, rec...))
				if err != nil || len(rest) != 0 || !pg.Equal(g) {
					return fmt.Errorf("free-order Multicode %v of %s", rec, g)
				}
				sorted := true
				for i := 2; i < len(rec); i++ {
					if rec[i] != 0 && rec[i-1] != 0 && rec[i] < rec[i-1] {
						sorted = false
					}
				}
				if sorted != (un == 0) {
					return fmt.Errorf("free-order Multicode %v: unordered = %d", rec, un)
				}
				unorderedSeen = unorderedSeen || un > 0
				for mode := 0; mode < 5; mode++ {
					ob := oddBytes(g, rnd, mode)
					eb := g.EdgeBytes()
					odd := false
					for i := range eb {
						if (eb[i] != 0) != (ob[i] != 0) {
							return fmt.Errorf("oddBytes(%s, mode %d) = %v", g, mode, ob)
						}
						odd = odd || ob[i] > 1
					}
					if g.M() > 0 && mode != 2 && !odd {
						return fmt.Errorf("oddBytes(%s, mode %d) = %v has only bytes 0/1", g, mode, ob)
					}
					if len(ob) != len(eb) || cap(ob) <= len(ob) {
						return fmt.Errorf("oddBytes: len %d cap %d", len(ob), cap(ob))
					}
				}
			}
		}
		if !unorderedSeen {
			return fmt.Errorf("free-order Multicode writer never wrote a list out of ascending order")
		}
		return nil
	})
	selfcheck.Add("c06 references beyond a machine word and long size fields", func() error {
		// colex order on element lists = colex order on word masks
		for n := 0; n <= 9; n++ {
			for k := 0; k <= n; k++ {
				sets := colexSubsets(n, k)
				masks := kSubsets(n, k)
				if len(sets) != len(masks) || len(sets) != binom(n, k) {
					return fmt.Errorf("colexSubsets(%d,%d): %d sets, %d masks", n, k, len(sets), len(masks))
				}
				for i, st := range sets {
					m := 0
					for a, v := range st {
						if a > 0 && st[a-1] >= v {
							return fmt.Errorf("colexSubsets(%d,%d)[%d] = %v not ascending", n, k, i, st)
						}
						m |= 1 << uint(v)
					}
					if m != masks[i] {
						return fmt.Errorf("colexSubsets(%d,%d)[%d] = %v, mask order gives %b", n, k, i, st, masks[i])
					}
				}
				if !refKneserSets(n, k).Equal(refKneser(n, k)) || !refBipartiteKneserSets(n, k).Equal(refBipartiteKneser(n, k)) {
					return fmt.Errorf("Kneser references on element lists and on masks differ for (%d,%d)", n, k)
				}
			}
		}
		// K(65,2): C(65,2) = 2080 vertices, regular of degree C(63,2) = 1953; the sets {0,64} and {1,64} (colex ranks 2016, 2017) share 64
		if g := refKneserSets(65, 2); g.N != 2080 || !regular(g, 1953) || g.M() != 2031120 || g.Has(2016, 2017) || !g.Has(0, 2079) {
			return fmt.Errorf("refKneserSets(65,2): n=%d m=%d", g.N, g.M())
		}
		if s := colexSubsets(65, 2); fmt.Sprint(s[2016], s[2017], s[2079], s[0]) != "[0 64] [1 64] [63 64] [0 1]" {
			return fmt.Errorf("colexSubsets(65,2): %v %v %v %v", s[2016], s[2017], s[2079], s[0])
		}
		// H(65,1): {i} ~ [65] minus {j} iff i != j; the 64-subsets in colex order: rank j lacks the element 64-j
		if b := refBipartiteKneserSets(65, 1); b.N != 130 || b.M() != 65*64 || !regular(b, 64) || b.Has(64, 65) || !b.Has(0, 65) || b.Has(0, 129) {
			return fmt.Errorf("refBipartiteKneserSets(65,1): n=%d m=%d", b.N, b.M())
		}
		if !refKneserSets(70, 1).Equal(refComplete(70)) || refKneserSets(70, 69).M() != 0 || refKneserSets(66, 66).N != 1 || refKneserSets(66, 0).N != 1 {
			return fmt.Errorf("refKneserSets k = 1, n-1, n, 0")
		}
		// size fields
		for _, n := range []int{0, 1, 62, 63, 64, 4095, 4096, 4227, 258047, 258048, 262144, 300000, 1<<21 + 1} {
			if string(sizeBytes(n)) != string(codec.SizeHeader(n)) {
				return fmt.Errorf("sizeBytes(%d) = %v, codec.SizeHeader %v", n, sizeBytes(n), codec.SizeHeader(n))
			}
			for _, w := range []int{18, 36} {
				if n >= 1<<uint(w) || (w == 18 && n > 258047) {
					continue
				}
				got, used, ok := codec.ParseSize(longSize(n, w))
				if !ok || used != 1+w/6+(w/36) || got != uint64(n) {
					return fmt.Errorf("longSize(%d,%d) = %v is read as %d (%d bytes)", n, w, longSize(n, w), got, used)
				}
			}
		}
		if string(sizeBytes(258048)) != "~~???~??" || string(sizeBytes(63)) != "~??~" {
			return fmt.Errorf("sizeBytes(258048) = %q, sizeBytes(63) = %q", sizeBytes(258048), sizeBytes(63))
		}
		// the edge-list writers agree with each other and are read back, also behind the 4-byte form
		rnd := engine.NewRng(20260929)
		for _, n := range []int{1000, 4227, 65537, 258048, 300000} {
			es := largeEdges(n, rnd)
			mod := modelOfEdges(n, es)
			a, b := refSparse6Edges(n, es), codec.Sparse6(n, es)
			if a != b {
				return fmt.Errorf("refSparse6Edges and codec.Sparse6 differ for n=%d", n)
			}
			sc, err := codec.Sparse6Scan(codec.S6Header+a, uint64(n))
			if err != nil || int(sc.N) != n || len(sc.Edges) != len(es) || sc.Loops != 0 || sc.Repeats != 0 {
				return fmt.Errorf("sparse6 string for n=%d is not read back: %v", n, err)
			}
			for _, e := range sc.Edges {
				if !mod.has(e[0], e[1]) || !mod.has(e[1], e[0]) || mod.has(e[0], e[0]) {
					return fmt.Errorf("sparse6 string for n=%d: edge %v", n, e)
				}
			}
			if mod.m != len(es) || len(es) < 300 {
				return fmt.Errorf("largeEdges(%d): %d edges", n, len(es))
			}
		}
		g := gen.Random(rnd, 90, 0.3)
		if mg, me := modelOfGraph(g), modelOfEdges(90, g.Edges()); mg.m != me.m || fmt.Sprint(mg.nbrs(7)) != fmt.Sprint(me.nbrs(7)) || mg.has(3, 4) != me.has(3, 4) {
			return fmt.Errorf("bigModel of a graph and of its edge list differ")
		}
		if pg, err := codec.Graph6Parse(codec.G6Header+codec.Graph6(g), 90); err != nil || !pg.Equal(g) {
			return fmt.Errorf("codec.Graph6 / Graph6Parse on 90 vertices")
		}
		return nil
	})
	selfcheck.Add("c06 budgeted isomorphism search (agrees with the iso oracle; rook / hypercube / snark renumbered)", func() error {
		rnd := engine.NewRng(20260930)
		// all pairs of classes n = 5, 6: isomorphic iff the same class
		for n := 5; n <= 6; n++ {
			cl := gen.Classes(n)
			for i := range cl {
				a := cl[i].Induced(rnd.Perm(n))
				for j := range cl {
					if cl[i].M() != cl[j].M() {
						continue
					}
					v, p := isoBudgeted(a, cl[j], 100000)
					if (v == 1) != (i == j) || v < 0 || (v == 1 && !isIsomorphism(a, cl[j], p)) {
						return fmt.Errorf("isoBudgeted on classes %d, %d of n=%d: %d", i, j, n, v)
					}
				}
			}
		}
		// random pairs against the iso oracle
		for k := 0; k < 300; k++ {
			n := 7 + rnd.Intn(10)
			a := gen.RandomRegular(rnd, n+n%2, 3)
			b := gen.RandomRegular(rnd, n+n%2, 3)
			if k%3 == 0 {
				b = a.Induced(rnd.Perm(a.N))
			}
			v, _ := isoBudgeted(a, b, 100000)
			if v < 0 || (v == 1) != iso.Isomorphic(a, b) {
				return fmt.Errorf("isoBudgeted disagrees with the iso oracle on %s and %s: %d", a, b, v)
			}
		}
		// the 4 x 4 rook's graph and the Shrikhande graph have the same parameters and are not isomorphic
		if v, _ := isoBudgeted(refRook(4, 4), gen.Shrikhande(), 100000); v != 0 {
			return fmt.Errorf("isoBudgeted(rook 4x4, Shrikhande) = %d", v)
		}
		// two vertex-transitive quartic graphs on 52 vertices, one with triangles, one without
		if v, _ := isoBudgeted(refCirculant(52, []int{1, 2}), refCirculant(52, []int{1, 3}), 3000); v != 0 {
			return fmt.Errorf("isoBudgeted(C52(1,2), C52(1,3)) = %d", v)
		}
		// renumbered members of the families, more than 48 vertices, within the budget of isoVerdict
		type pair struct {
			name string
			a, b *rg.G
		}
		rowMajor := func(a, b int) *rg.G { // square (r, c) = r*b + c
			g := rg.New(a * b)
			for x := 0; x < a*b; x++ {
				for y := 0; y < x; y++ {
					if (x/b == y/b) != (x%b == y%b) {
						g.Add(x, y)
					}
				}
			}
			return g
		}
		shuffled := func(g *rg.G) *rg.G { return g.Induced(rnd.Perm(g.N)) }
		for _, t := range []pair{
			{"rook 9x7 row by row", refRook(9, 7), rowMajor(9, 7)},
			{"rook 5x13 row by row", refRook(5, 13), rowMajor(5, 13)},
			{"rook 11x12 row by row", refRook(11, 12), rowMajor(11, 12)},
			{"rook 8x8 shuffled", refRook(8, 8), shuffled(refRook(8, 8))},
			{"hypercube 8 shuffled", refHypercube(8), shuffled(refHypercube(8))},
			{"folded hypercube 9 shuffled", refFoldedHypercube(9), shuffled(refFoldedHypercube(9))},
			{"flower snark 33 shuffled", refFlowerSnark(33), shuffled(refFlowerSnark(33))},
			{"bipartite Kneser (65,1) shuffled", refBipartiteKneserSets(65, 1), shuffled(refBipartiteKneserSets(65, 1))},
			{"cycle 129 shuffled", refCycle(129), shuffled(refCycle(129))},
			{"path 130 shuffled", refPath(130), shuffled(refPath(130))},
			{"friendship 64 shuffled", refFriendship(64), shuffled(refFriendship(64))},
			{"star 257 shuffled", refStar(257), shuffled(refStar(257))},
		} {
			if v := isoVerdict(t.a, t.b); v != 1 {
				return fmt.Errorf("isoVerdict(%s) = %d", t.name, v)
			}
		}
		if v := isoVerdict(refRook(9, 7), refRook(7, 9)); v != 1 {
			return fmt.Errorf("isoVerdict(rook 9x7, rook 7x9) = %d", v)
		}
		if v := isoVerdict(refHypercube(6), refCirculant(64, []int{1, 2, 3})); v != 0 {
			return fmt.Errorf("isoVerdict(hypercube 6, a 6-regular circulant on 64 vertices) = %d", v)
		}
		return nil
	})
}

// dev-c09 links only the C09 monitor (development binary).
package main

import (
	"verif/internal/cli"
	_ "verif/internal/props/c09"
)

func main() { cli.Main() }

// Demo for C09 change 3: ChromaticNumber first takes the greedy colouring along a degeneracy ordering as an upper
// bound (and returns it straight away when it meets the clique number); DSATUR only searches below that bound.
//
// Run (from the root of the library worktree, offline):
//
//	export GOFLAGS=-mod=mod GOPROXY=off GOSUMDB=off GOTOOLCHAIN=local
//	mkdir -p greendemo && cp /tmp/green-out/C09/3/demo_test.go greendemo/demo_test.go
//	go test -vet=off -count=1 -timeout 600s -v ./greendemo
//	rm -r greendemo
//
// TestIncidentalWhichOptimalColouring asserts the exact optimal vertex colouring (ChromaticNumber) and the exact
// optimal edge colouring (ChromaticIndex) that the OLD implementation returns - which of the many optimal colourings
// is documented as arbitrary.  It PASSES on the clean tree and FAILS with the change.
// TestPropertyColouring checks what C09 actually demands (true optimum against a brute-force oracle, proper witness
// using exactly that many colours, same value for every labelling and for the dense, sparse and view
// representations): it PASSES on both trees.
package greendemo

import (
	"fmt"
	"math/rand"
	"testing"

	"github.com/Tom-Johnston/mamba/graph"
	"github.com/Tom-Johnston/mamba/sortints"
)

// kColourable is a plain backtracking oracle.
func kColourable(g graph.Graph, k int) bool {
	n := g.N()
	c := make([]int, n)
	var rec func(v, used int) bool
	rec = func(v, used int) bool {
		if v == n {
			return true
		}
		for col := 0; col < k && col <= used; col++ {
			ok := true
			for u := 0; u < v; u++ {
				if c[u] == col && g.IsEdge(u, v) {
					ok = false
					break
				}
			}
			if !ok {
				continue
			}
			c[v] = col
			nu := used
			if col == used {
				nu++
			}
			if rec(v+1, nu) {
				return true
			}
		}
		return false
	}
	return rec(0, 0)
}

func bruteChi(g graph.Graph) int {
	for k := 0; ; k++ {
		if kColourable(g, k) {
			return k
		}
	}
}

func toSparse(g graph.Graph) *graph.SparseGraph {
	n := g.N()
	nb := make([]sortints.SortedInts, n)
	for i := 0; i < n; i++ {
		nb[i] = append(sortints.SortedInts{}, g.Neighbours(i)...)
	}
	return graph.NewSparse(n, nb)
}

func relabel(g graph.Graph, perm []int) *graph.DenseGraph {
	n := g.N()
	h := graph.NewDense(n, nil)
	for j := 1; j < n; j++ {
		for i := 0; i < j; i++ {
			if g.IsEdge(i, j) {
				h.AddEdge(perm[i], perm[j])
			}
		}
	}
	return h
}

func edgeIndex(i, j int) int {
	if i > j {
		i, j = j, i
	}
	return j*(j-1)/2 + i
}

// checkVertex validates value and witness of ChromaticNumber.
func checkVertex(g graph.Graph, want int) error {
	cn, col := graph.ChromaticNumber(g)
	if cn != want {
		return fmt.Errorf("ChromaticNumber = %d, want %d", cn, want)
	}
	if col == nil || len(col) != g.N() {
		return fmt.Errorf("colouring %v has the wrong length", col)
	}
	seen := make([]bool, want)
	for v, c := range col {
		if c < 0 || c >= want {
			return fmt.Errorf("colour %d of vertex %d not in [0,%d)", c, v, want)
		}
		seen[c] = true
		for _, u := range g.Neighbours(v) {
			if col[u] == c {
				return fmt.Errorf("colouring %v is not proper", col)
			}
		}
	}
	for c, b := range seen {
		if !b {
			return fmt.Errorf("colour %d unused in %v", c, col)
		}
	}
	return nil
}

// checkEdge validates value and witness of ChromaticIndex.
func checkEdge(g graph.Graph, want int) error {
	ci, ce := graph.ChromaticIndex(g)
	if ci != want {
		return fmt.Errorf("ChromaticIndex = %d, want %d", ci, want)
	}
	n := g.N()
	if len(ce) != n*(n-1)/2 {
		return fmt.Errorf("edge colouring has length %d", len(ce))
	}
	seen := make([]bool, want+1)
	for j := 1; j < n; j++ {
		for i := 0; i < j; i++ {
			c := int(ce[edgeIndex(i, j)])
			if !g.IsEdge(i, j) {
				if c != 0 {
					return fmt.Errorf("non-edge %d,%d has colour %d", i, j, c)
				}
				continue
			}
			if c < 1 || c > want {
				return fmt.Errorf("edge %d,%d has colour %d not in [1,%d]", i, j, c, want)
			}
			seen[c] = true
			for k := 0; k < n; k++ {
				if k == i || k == j {
					continue
				}
				if g.IsEdge(i, k) && int(ce[edgeIndex(i, k)]) == c || g.IsEdge(j, k) && int(ce[edgeIndex(j, k)]) == c {
					return fmt.Errorf("edge colouring %v is not proper", ce)
				}
			}
		}
	}
	for c := 1; c <= want; c++ {
		if !seen[c] {
			return fmt.Errorf("edge colour %d unused in %v", c, ce)
		}
	}
	return nil
}

func checkAllForms(t *testing.T, name string, g *graph.DenseGraph, rng *rand.Rand, edge bool) {
	t.Helper()
	chi := bruteChi(g)
	chiE := -1
	if edge {
		chiE = bruteChi(graph.LineGraphDense(g))
	}
	forms := map[string]graph.Graph{
		"dense":     g,
		"sparse":    toSparse(g),
		"view":      graph.Complement(graph.ComplementDense(g)),
		"relabeled": relabel(g, rng.Perm(g.N())),
	}
	for fn, f := range forms {
		if err := checkVertex(f, chi); err != nil {
			t.Fatalf("%s (%s): %v", name, fn, err)
		}
		if edge {
			if err := checkEdge(f, chiE); err != nil {
				t.Fatalf("%s (%s): %v", name, fn, err)
			}
		}
	}
}

func named() ([]string, map[string]*graph.DenseGraph) {
	names := []string{"Path4", "Path5", "Cycle5", "Star5", "K222", "Petersen", "Friendship2", "K4", "K23", "Cube"}
	return names, map[string]*graph.DenseGraph{
		"Path4": graph.Path(4), "Path5": graph.Path(5), "Cycle5": graph.Cycle(5), "Star5": graph.Star(5),
		"K222": graph.CompletePartiteGraph(2, 2, 2), "Petersen": graph.KneserGraph(5, 2),
		"Friendship2": graph.FriendshipGraph(2), "K4": graph.CompleteGraph(4), "K23": graph.CompletePartiteGraph(2, 3),
		"Cube": graph.HypercubeGraph(3),
	}
}

func TestPropertyColouring(t *testing.T) {
	rng := rand.New(rand.NewSource(9))
	// every labelled graph on at most 5 vertices (vertex and edge colourings), on 6 vertices (vertex colourings)
	for n := 0; n <= 6; n++ {
		m := n * (n - 1) / 2
		for mask := 0; mask < 1<<uint(m); mask++ {
			e := make([]byte, m)
			for b := 0; b < m; b++ {
				if mask>>uint(b)&1 == 1 {
					e[b] = 1
				}
			}
			checkAllForms(t, fmt.Sprintf("n=%d mask=%d", n, mask), graph.NewDense(n, e), rng, n <= 5)
		}
	}
	names, gs := named()
	for _, name := range names {
		checkAllForms(t, name, gs[name], rng, gs[name].M() <= 15)
	}
	for it := 0; it < 300; it++ {
		n := 7 + rng.Intn(5)
		g := graph.RandomGraph(n, rng.Float64(), rng.Int63())
		checkAllForms(t, fmt.Sprintf("random %d", it), g, rng, false)
	}
}

func TestIncidentalWhichOptimalColouring(t *testing.T) {
	// exact witnesses of the OLD implementation
	oldVertex := map[string]string{
		"Path4":       "[1 0 1 0]",
		"Path5":       "[1 0 1 0 1]",
		"Cycle5":      "[0 1 2 0 1]",
		"Star5":       "[0 1 1 1 1]",
		"K222":        "[0 0 2 2 1 1]",
		"Petersen":    "[0 0 0 2 2 2 1 1 1 1]",
		"Friendship2": "[0 2 1 2 1]",
		"K4":          "[0 3 2 1]",
		"K23":         "[0 0 1 1 1]",
	}
	oldEdge := map[string]string{
		"Path4":       "[2 0 1 0 0 2]",
		"Star5":       "[1 4 0 3 0 0 2 0 0 0]",
		"Friendship2": "[1 2 3 4 0 0 3 0 0 1]",
		"K4":          "[1 2 3 3 2 1]",
		"Cube":        "[1 2 0 0 2 1 3 0 0 0 0 3 0 0 2 0 0 3 0 1 0 0 0 0 3 0 1 2]",
	}
	names, gs := named()
	diff := 0
	for _, name := range names {
		if want, ok := oldVertex[name]; ok {
			cn, col := graph.ChromaticNumber(gs[name])
			got := fmt.Sprint(col)
			t.Logf("%-12s chi=%d  colouring %s (old %s)", name, cn, got, want)
			if got != want {
				diff++
				t.Errorf("%s: ChromaticNumber returns another optimal colouring: %s, old %s", name, got, want)
			}
		}
		if want, ok := oldEdge[name]; ok {
			ci, ce := graph.ChromaticIndex(gs[name])
			got := fmt.Sprint(ce)
			t.Logf("%-12s chi'=%d edge colouring %s (old %s)", name, ci, got, want)
			if got != want {
				diff++
				t.Errorf("%s: ChromaticIndex returns another optimal edge colouring: %s, old %s", name, got, want)
			}
		}
	}
	t.Logf("%d witnesses differ from the old implementation", diff)
}

// Package c17 monitors the sortints API against a map-based set model and
// ints.Sort against the standard library (DESIGN.md section 4, C17).
package c17

import (
	"fmt"
	"sort"

	"github.com/Tom-Johnston/mamba/ints"
	"github.com/Tom-Johnston/mamba/sortints"

	"verif/internal/engine"
	"verif/internal/oracle/refset"
)

func init() {
	engine.Register(&engine.Property{
		ID:    "C17",
		Level: "exploration",
		Rule: "all pairs of subsets of a small universe for every binary operation (receiver of the Union method with exact, missing-by-one, sufficient and no spare capacity, and aliased), " +
			"all argument lists up to length 4 over {-1..3} for Add on every receiver within {0..4} and for NewSortedInts (length 5), Remove/ContainsSingle/Complement on all small sets, Range on a full cube of (start,end,step); " +
			"seeded large sets, seeded histories of Add/Remove/Union on one value with bystander results; ints.Sort and the heapsort entry point on every small input and on patterned inputs of length 0..3000. " +
			"Every operand lives inside a larger array surrounded by sentinels and is compared bit for bit (length, contents, spare capacity) after each call; for the receivers of Add, Remove and the Union method that covers the array around the receiver's own cells (up to its capacity; Remove: its elements). " +
			"Representations: the empty set as nil, empty non-nil with and without capacity, zero-length sub-slices and every empty result the library itself returns (Range, Intersection, SetMinus, XOR, Union, Complement, NewSortedInts(), emptied by Remove, nil receivers after Add()/Union(nil)) " +
			"in every argument position of every function, as receiver and as variadic argument list, all ordered pairs of them and each with non-empty operands (exact, spare capacity, library result). " +
			"Values: scenarios with several LIVE values sharing backing arrays - copies by assignment, prefixes / sub-slices of a larger set, longer earlier snapshots, library results, the raw array around a value - made in 12 ways " +
			"(exact, spare capacity, grown by append, single Adds, NewSortedInts with repeats, after Remove, after in-place Union ...): every ordered pair of single mutations on two copies of one parent, and seeded forests of values mixing copies, mutators and functions whose results join the forest; " +
			"after EVERY call all live values are compared with what they read before (cells inside the receiver's own array that a mutator may rewrite in place - Remove: its elements; Add and a fitting Union method: up to its capacity - are recorded, not judged). " +
			"Numeric extremes inside otherwise ordinary sets (differences and sums of elements, of an element and a candidate 0..n-1 of Complement, of an element and the x of Remove / ContainsSingle do not fit in an int): " +
			"all pairs of subsets of {MinInt, MinInt+1, -1, 0, MaxInt-1, MaxInt} (thorough: with 1, -2^62-1 and 2^62) for every two-operand function and the Union method (every kind of spare capacity, aliased), " +
			"every argument list (len<=3, thorough 4) over {MinInt, MinInt+1, -1, 0, 1, MaxInt-1, MaxInt} for Add on every receiver made of limits of int and for NewSortedInts, Remove / ContainsSingle of every x at and next to the elements on all subsets of a 9-element universe of extremes, " +
			"Complement(n<=6, a) for all subsets a of {MinInt, MinInt+1, -1, 0..4, MaxInt-1, MaxInt}, ints.Sort on every sequence (len<=5, thorough 7) over the same seven values and on three patterns of values at the limits of int for every length 0..3000 (also through the heapsort entry), " +
			"seeded sets and seeded Add/Remove/Union histories whose elements are spread over the whole int range (limits of int, +-2^62, +-2^53, +-2^32, +-2^31 and their neighbours, arbitrary 64-bit values, small values) through every function, as receiver and as every argument; " +
			"the evidence counts, per function, the calls whose operands hold MinInt / MaxInt / two elements whose difference overflows (extremes:<function>:...). " +
			"non-trivial = binary case whose operands properly overlap (a-b, b-a and a&b all non-empty), Add/NewSortedInts list with a repeated or already present element plus a new one, Range with >= 2 elements, sort input longer than 12 that is not already sorted, " +
			"pair of operands in two different representations, scenario in which a mutator ran while another live value shared the receiver's array; distinct = enumeration without repetition or hash of the operands",
		Assumptions: []string{
			"oracle: map[int]bool with the literal definitions of the set operations, cross-checked against bit-mask arithmetic (on a small universe and on one made of the limits of int); sort.Ints of the standard library for ints.Sort; " +
				"model, comparisons and generators order values by comparison only and never subtract or add two elements, so they are right where differences and sums of elements overflow",
			"Range(start,end,step) is read as documented: the elements start + i*step (i >= 0) from start (inclusive) towards end (exclusive), returned increasing; the three 'Infinite set' conditions of the code must panic; start == end is the empty set",
			"Complement(n, a) for n < 0 is not fixed by the documentation and not exercised; n near MaxInt is not affordable (the result has n-|a| elements): sets a holding the limits of int are exercised with small n only; Range is exercised up to the limits of int with small results only",
			"the property speaks about sets: nil, empty non-nil and empty-with-capacity slices all are the empty set and must be treated alike as arguments; which of them a function returns for an empty result is recorded, not judged",
			"'mutators change only their receiver' between values that share a backing array is read the way the unchanged library itself requires for Remove and the Union method: " +
				"a mutator (Add, Remove, the Union method) may rewrite any cell of its receiver's own backing array up to its capacity (Remove shifts the receiver's elements, the Union method merges in place when the result fits, " +
				"Add may append or insert in place when there is room), so a copy or a longer snapshot that reads such cells may change - counted in values:value_sharing_the_array_disturbed_by_in_place_*(not judged) and the value leaves the scenario; " +
				"judged: the arguments, every live value's cells outside the receiver's capacity window (Remove: outside its elements; a Union method that cannot fit: everything), the array around the receiver, " +
				"and that a receiver which moved to another array shares it with no argument and no other value",
		},
		Run:            run,
		MinEvaluations: map[string]int{"quick": 150000, "thorough": 1500000},
		MinNontrivial:  map[string]int{"quick": 5000, "thorough": 50000},
		RequiredObs: []string{"breathing:drains_completed",
			"op:Union", "op:Intersection", "op:IntersectionSize", "op:SetMinus", "op:XOR", "op:ContainsSorted", "op:ContainsSingle", "op:Complement",
			"op:NewSortedInts", "op:Add", "op:Remove", "op:Range", "op:Union_method", "Union_method:in_place", "Union_method:reallocated",
			"Range:required_panics_seen", "Range:descending", "Add:args_repeated_and_present", "sort:heapsort_entry", "sort:Sort", "operands_compared_bitwise", "history:bystanders_checked",
			"Add:array_around_receiver_compared", "Add:one_new_largest_element_on_receiver_with_spare_capacity",
			"reps:pairs_of_empty_sets_one_nil_one_non_nil", "reps:empty_library_result_fed_back_as_argument", "reps:nil_receiver", "reps:nil_argument_list",
			"values:copies_by_assignment", "values:other_values_compared", "values:mutations_while_another_live_value_shares_the_array",
			"values:Add_on_receiver_whose_spare_capacity_is_read_by_another_live_value", "values:value_sharing_the_array_intact_after_in_place_Remove", "values:Union_method_that_cannot_be_done_in_place",
			// numeric extremes inside ordinary sets: every function saw operands holding MinInt, holding MaxInt, and with two elements whose difference overflows
			"extremes:Union:difference_of_two_elements_overflows", "extremes:Union:MinInt_among_the_elements", "extremes:Union:MaxInt_among_the_elements",
			"extremes:Intersection:difference_of_two_elements_overflows", "extremes:Intersection:MinInt_among_the_elements", "extremes:Intersection:MaxInt_among_the_elements",
			"extremes:IntersectionSize:difference_of_two_elements_overflows", "extremes:IntersectionSize:MinInt_among_the_elements", "extremes:IntersectionSize:MaxInt_among_the_elements",
			"extremes:SetMinus:difference_of_two_elements_overflows", "extremes:SetMinus:MinInt_among_the_elements", "extremes:SetMinus:MaxInt_among_the_elements",
			"extremes:XOR:difference_of_two_elements_overflows", "extremes:XOR:MinInt_among_the_elements", "extremes:XOR:MaxInt_among_the_elements",
			"extremes:ContainsSorted:difference_of_two_elements_overflows", "extremes:ContainsSorted:MinInt_among_the_elements", "extremes:ContainsSorted:MaxInt_among_the_elements",
			"extremes:Union_method:difference_of_two_elements_overflows", "extremes:Union_method:MinInt_among_the_elements", "extremes:Union_method:MaxInt_among_the_elements",
			"extremes:Add:difference_of_two_elements_overflows", "extremes:Add:MinInt_among_the_elements", "extremes:Add:MaxInt_among_the_elements",
			"extremes:NewSortedInts:difference_of_two_elements_overflows", "extremes:NewSortedInts:MinInt_among_the_elements", "extremes:NewSortedInts:MaxInt_among_the_elements",
			"extremes:Remove:difference_of_two_elements_overflows", "extremes:Remove:MinInt_among_the_elements", "extremes:Remove:MaxInt_among_the_elements",
			"extremes:ContainsSingle:difference_of_two_elements_overflows", "extremes:ContainsSingle:MinInt_among_the_elements", "extremes:ContainsSingle:MaxInt_among_the_elements",
			"extremes:Complement:difference_of_two_elements_overflows", "extremes:Complement:a_holds_MinInt_and_elements_of_0..n-1", "extremes:Complement:a_holds_MaxInt_and_elements_of_0..n-1",
			"extremes:ints.Sort:difference_of_two_elements_overflows", "extremes:ints.Sort:MinInt_among_the_elements", "extremes:ints.Sort:MaxInt_among_the_elements",
			"extremes:ints.Sort(heapsort/quicksort entry, longer than 12):difference_of_two_elements_overflows",
			"extremes:history:difference_of_two_elements_overflows",
		},
	})
}

// ---------------------------------------------------------------- operands inside sentinel arrays

const pad = 3

func sentinel(i int) int { return -777700000 - 13*i }

type emb struct {
	s    sortints.SortedInts
	back []int
	snap []int
	off  int // index in back of the first cell of s
}

// embed places vals at offset pad of a fresh array with `spare` cells of spare
// capacity behind them and pad cells on both sides outside the slice.
func embed(vals []int, spare int) *emb {
	n := len(vals)
	back := make([]int, pad+n+spare+pad)
	for i := range back {
		back[i] = sentinel(i)
	}
	copy(back[pad:], vals)
	e := &emb{back: back, snap: append([]int(nil), back...), off: pad}
	e.s = back[pad : pad+n : pad+n+spare]
	return e
}

// watch wraps a value that was made elsewhere (nil, a literal, the result of a
// library call): the watched array is the value up to its capacity.
func watch(s sortints.SortedInts) *emb {
	full := []int(s[:cap(s)])
	return &emb{s: s, back: full, snap: append([]int(nil), full...)}
}

// outsideWindow reports the first change outside the cells [0, cap) of the
// slice ("" if none): cells that never belonged to the value.
func (e *emb) outsideWindow(window int) string {
	for i := range e.back {
		if (i < e.off || i >= e.off+window) && e.back[i] != e.snap[i] {
			return fmt.Sprintf("array index %d (slice index %d): %d -> %d", i, i-e.off, e.snap[i], e.back[i])
		}
	}
	return ""
}

// changed describes the first difference between the array and its snapshot
// ("" if bit-identical), also checking the slice header.
func (e *emb) changed(s sortints.SortedInts, n int) string {
	if len(s) != n {
		return fmt.Sprintf("length %d became %d", n, len(s))
	}
	for i := range e.back {
		if e.back[i] != e.snap[i] {
			where := "contents"
			if i < e.off {
				where = "cells before the slice"
			} else if i >= e.off+n {
				where = "spare capacity / cells behind the slice"
			}
			return fmt.Sprintf("%s changed at array index %d (slice index %d): %d -> %d", where, i, i-e.off, e.snap[i], e.back[i])
		}
	}
	return ""
}

// aliases reports whether r shares memory with the array of e.
func (e *emb) aliases(r []int) bool {
	if cap(r) == 0 {
		return false
	}
	r = r[:1]
	for i := range e.back {
		if &e.back[i] == &r[0] {
			return true
		}
	}
	return false
}

// ---------------------------------------------------------------- monitor

type mon struct {
	c     *engine.Ctx
	bad   map[string]int // violations per API and input class in this unit (cascade control)
	class string         // input class of the case being judged (e.g. Range: ascending / descending)
	// ntFilter (when set) restricts which cases of a sweep count as non-trivial: a second exhaustive sweep that
	// overlaps an earlier one only counts the cases the earlier one cannot contain
	ntFilter func(operands ...[]int) bool
}

func (m *mon) ntOK(operands ...[]int) bool { return m.ntFilter == nil || m.ntFilter(operands...) }

func newMon(c *engine.Ctx) *mon { return &mon{c: c, bad: map[string]int{}} }

// muted: after two violations of one API inside a unit the rest of the unit
// adds nothing but noise for that API.
func (m *mon) muted(api string) bool {
	if m.bad[api+"/"+m.class] >= 2 {
		m.c.Obs("skipped_after_violation:"+api+"/"+m.class, 1)
		return true
	}
	return false
}

func (m *mon) viol(api, kind, witness string, detail interface{}, observed, expected string) {
	m.bad[api+"/"+m.class]++
	m.c.Violation(api+"|"+kind+"|"+witness, detail, observed, expected)
}

func show(a []int) string {
	if len(a) <= 40 {
		return fmt.Sprint(a)
	}
	return fmt.Sprintf("%v...%v(len %d)", a[:12], a[len(a)-12:], len(a))
}

// result checks a returned set against the model.
func (m *mon) result(api, wit string, detail interface{}, got []int, want refset.Set) bool {
	if !refset.StrictlyIncreasing(got) {
		m.viol(api, "not-increasing", wit, detail, show(got), show(want.Sorted()))
		return false
	}
	if !refset.Equal(got, want) {
		m.viol(api, "wrong", wit, detail, show(got), show(want.Sorted()))
		return false
	}
	return true
}

func (m *mon) untouched(api, wit string, detail interface{}, what string, e *emb, n int) bool {
	m.c.Obs("operands_compared_bitwise", 1)
	if d := e.changed(e.s, n); d != "" {
		m.viol(api, "modifies-"+what, wit, detail, d, "argument bit-identical after the call")
		return false
	}
	return true
}

func properOverlap(A, B refset.Set) bool {
	return len(refset.Inter(A, B)) > 0 && len(refset.Minus(A, B)) > 0 && len(refset.Minus(B, A)) > 0
}

// binary runs every two-operand operation on (a, b).
func (m *mon) binary(a, b []int, spareA, spareB int, small bool) {
	c := m.c
	m.class = ""
	A, B := refset.Of(a...), refset.Of(b...)
	wit := "a=" + show(a) + ",b=" + show(b)
	detail := map[string]interface{}{"a": a, "b": b, "spare_capacity_a": spareA, "spare_capacity_b": spareB}
	if !small && len(a)+len(b) > 80 {
		wit = fmt.Sprintf("seeded|len(a)=%d,len(b)=%d,a0=%d,b0=%d", len(a), len(b), first(a), first(b))
	}
	m.binaryOn(a, b, func() (*emb, *emb) { return embed(a, spareA), embed(b, spareB) }, wit, detail, small)
	// the Union method: receiver with no / missing-by-one / exact / ample spare capacity
	need := len(refset.Minus(B, A))
	spares := []int{0, need, need + 2}
	if need >= 1 {
		spares = append(spares, need-1)
	}
	if !small {
		spares = []int{spareA, need, need + spareA}
		if need >= 1 {
			spares = append(spares, need-1)
		}
	}
	for _, sp := range spares {
		if m.muted("Union_method") {
			break
		}
		m.unionMethod(a, b, sp, spareB, wit)
	}
	if small || len(a) < 200 {
		if properOverlap(A, B) && m.ntOK(a, b) {
			if small {
				c.NTDistinct(1)
			} else {
				c.NT("bin", a, b)
			}
		}
	}
}

// binaryOn runs the six two-operand functions on operands made by mk (values
// a and b in whatever representation mk chooses; mk is called again after a
// violation so that the next function starts from clean operands).
func (m *mon) binaryOn(a, b []int, mk func() (*emb, *emb), wit string, detail interface{}, small bool) {
	c := m.c
	A, B := refset.Of(a...), refset.Of(b...)
	ea, eb := mk()
	fresh := func() { ea, eb = mk() }

	type fn struct {
		name string
		f    func(x, y sortints.SortedInts) sortints.SortedInts
		want refset.Set
	}
	wide := spreadOf(a, b)
	for _, o := range []fn{
		{"Union", sortints.Union, refset.Union(A, B)},
		{"Intersection", sortints.Intersection, refset.Inter(A, B)},
		{"SetMinus", sortints.SetMinus, refset.Minus(A, B)},
		{"XOR", sortints.XOR, refset.Xor(A, B)},
	} {
		if m.muted(o.name) {
			continue
		}
		var got sortints.SortedInts
		pi := c.Call(o.name+"|"+wit, func() { got = o.f(ea.s, eb.s) })
		c.Eval(1)
		c.Obs("op:"+o.name, 1)
		wide.note(c, o.name)
		if pi != nil {
			m.viol(o.name, "panic", wit+"|"+engine.SiteNoLine(pi.Site), detail, pi.String(), show(o.want.Sorted()))
			fresh()
			continue
		}
		ok := m.result(o.name, wit, detail, got, o.want) &&
			m.untouched(o.name, wit, detail, "a", ea, len(a)) && m.untouched(o.name, wit, detail, "b", eb, len(b))
		if ok && small && (ea.aliases(got) || eb.aliases(got)) {
			m.viol(o.name, "result-aliases-argument", wit, detail, "the returned slice shares memory with an argument", "a new SortedInts")
			ok = false
		}
		if !ok {
			fresh()
		}
	}
	if !m.muted("IntersectionSize") {
		var got int
		pi := c.Call("IntersectionSize|"+wit, func() { got = sortints.IntersectionSize(ea.s, eb.s) })
		c.Eval(1)
		c.Obs("op:IntersectionSize", 1)
		wide.note(c, "IntersectionSize")
		want := len(refset.Inter(A, B))
		if pi != nil {
			m.viol("IntersectionSize", "panic", wit+"|"+engine.SiteNoLine(pi.Site), detail, pi.String(), fmt.Sprint(want))
			fresh()
		} else if got != want {
			m.viol("IntersectionSize", "wrong", wit, detail, fmt.Sprint(got), fmt.Sprint(want))
		} else if !(m.untouched("IntersectionSize", wit, detail, "a", ea, len(a)) && m.untouched("IntersectionSize", wit, detail, "b", eb, len(b))) {
			fresh()
		}
	}
	if !m.muted("ContainsSorted") {
		var got bool
		pi := c.Call("ContainsSorted|"+wit, func() { got = sortints.ContainsSorted(ea.s, eb.s) })
		c.Eval(1)
		c.Obs("op:ContainsSorted", 1)
		wide.note(c, "ContainsSorted")
		want := refset.Subset(B, A)
		if pi != nil {
			m.viol("ContainsSorted", "panic", wit+"|"+engine.SiteNoLine(pi.Site), detail, pi.String(), fmt.Sprint(want))
			fresh()
		} else if got != want {
			m.viol("ContainsSorted", "wrong", wit, detail, fmt.Sprint(got), fmt.Sprint(want)+" (is b a subset of a)")
		} else if !(m.untouched("ContainsSorted", wit, detail, "a", ea, len(a)) && m.untouched("ContainsSorted", wit, detail, "b", eb, len(b))) {
			fresh()
		}
		if want {
			c.Obs("ContainsSorted:true", 1)
		}
	}
}

func first(a []int) int {
	if len(a) == 0 {
		return 0
	}
	return a[0]
}

func (m *mon) unionMethod(a, b []int, spare, spareB int, wit string) bool {
	w := fmt.Sprintf("%s,spare=%d", wit, spare)
	detail := map[string]interface{}{"receiver": a, "receiver_spare_capacity": spare, "b": b}
	return m.unionMethodOn(a, b, embed(a, spare), embed(b, spareB), w, detail)
}

// unionMethodOn: er.s.Union(eb.s) for a receiver / argument in any representation.
func (m *mon) unionMethodOn(a, b []int, er, eb *emb, w string, detail interface{}) bool {
	c := m.c
	A, B := refset.Of(a...), refset.Of(b...)
	want := refset.Union(A, B)
	s := er.s
	pi := c.Call("Union_method|"+w, func() { s.Union(eb.s) })
	c.Eval(1)
	c.Obs("op:Union_method", 1)
	spreadOf(a, b).note(c, "Union_method")
	if pi != nil {
		m.viol("Union_method", "panic", w+"|"+engine.SiteNoLine(pi.Site), detail, pi.String(), show(want.Sorted()))
		return false
	}
	if !m.result("Union_method", w, detail, s, want) {
		return false
	}
	if !m.untouched("Union_method", w, detail, "b", eb, len(b)) {
		return false
	}
	// outside the receiver's own cells nothing may change
	if d := er.outsideWindow(cap(er.s)); d != "" {
		m.viol("Union_method", "writes-outside-receiver", w, detail, d, "untouched")
		return false
	}
	if er.aliases(s) {
		c.Obs("Union_method:in_place", 1)
	} else {
		c.Obs("Union_method:reallocated", 1)
		// the old cells of the receiver are then left alone as well
		if d := er.changed(er.s, len(a)); d != "" {
			c.Obs("Union_method:reallocated_but_old_array_changed(unjudged)", 1)
		}
	}
	if eb.aliases(s) {
		m.viol("Union_method", "result-aliases-argument", w, detail, "the receiver now shares memory with b", "receiver owns its cells")
		return false
	}
	return true
}

// unionAliased: s.Union(s) and s.Union(part of s).
func (m *mon) unionAliased(a []int, spare int) {
	c := m.c
	m.class = "aliased"
	if m.muted("Union_method") {
		return
	}
	A := refset.Of(a...)
	for variant := 0; variant < 2; variant++ {
		er := embed(a, spare)
		s := er.s
		b := er.s
		name := "self"
		if variant == 1 {
			if len(a) < 2 {
				continue
			}
			b = er.s[1:]
			name = "tail-of-self"
		}
		w := fmt.Sprintf("recv=%s,b=%s,spare=%d", show(a), name, spare)
		detail := map[string]interface{}{"receiver": a, "b": name, "receiver_spare_capacity": spare}
		pi := c.Call("Union_method|"+w, func() { s.Union(b) })
		c.Eval(1)
		c.Obs("op:Union_method_aliased", 1)
		if pi != nil {
			m.viol("Union_method", "panic", w+"|"+engine.SiteNoLine(pi.Site), detail, pi.String(), show(a))
			return
		}
		if !m.result("Union_method", w, detail, s, A) {
			return
		}
	}
}

func (m *mon) add(recv, args []int, spare int, small bool) {
	wit := "recv=" + show(recv) + ",args=" + show(args)
	if !small {
		wit = fmt.Sprintf("seeded|len(recv)=%d,len(args)=%d,recv0=%d,args0=%d", len(recv), len(args), first(recv), first(args))
	}
	detail := map[string]interface{}{"receiver": recv, "args": args, "receiver_spare_capacity": spare}
	m.addOn(recv, args, embed(recv, spare), embed(args, 1), wit, detail, small)
}

// addOn: er.s.Add(ex.s...) for a receiver / argument list in any representation.
func (m *mon) addOn(recv, args []int, er, ex *emb, wit string, detail interface{}, small bool) {
	c := m.c
	R := refset.Of(recv...)
	seen := map[int]int{}
	rep, present, isNew := false, false, false
	repPresent := false
	for _, x := range args {
		seen[x]++
	}
	for x, n := range seen {
		if n > 1 {
			rep = true
		}
		if R[x] {
			present = true
		} else {
			isNew = true
		}
		if n > 1 && R[x] {
			repPresent = true
		}
	}
	m.class = "plain"
	if repPresent {
		m.class = "argument repeated and present"
	}
	if m.muted("Add") {
		return
	}
	want := refset.Union(R, refset.Of(args...))
	s := er.s
	pi := c.Call("Add|"+wit, func() { s.Add(ex.s...) })
	c.Eval(1)
	c.Obs("op:Add", 1)
	spreadOf(recv, args).note(c, "Add")
	if repPresent {
		c.Obs("Add:args_repeated_and_present", 1)
	}
	if pi != nil {
		m.viol("Add", "panic", wit+"|"+engine.SiteNoLine(pi.Site), detail, pi.String(), show(want.Sorted()))
		return
	}
	if !m.result("Add", wit, detail, s, want) {
		return
	}
	if !m.untouched("Add", wit, detail, "args", ex, len(args)) {
		return
	}
	if ex.aliases(s) {
		m.viol("Add", "result-aliases-argument", wit, detail, "the receiver now shares memory with the argument list", "receiver owns its cells")
		return
	}
	// Like Remove and the Union method, Add may rewrite the cells of its receiver's own array up to its capacity
	// (appending or inserting in place when there is room is its own business: recorded, not judged); the array
	// AROUND the receiver belongs to somebody else and reads as before
	c.Obs("Add:array_around_receiver_compared", 1)
	if cap(er.s) > len(er.s) {
		c.Obs("Add:receiver_with_spare_capacity", 1)
		if len(args) == 1 && len(want) > len(R) && (len(recv) == 0 || args[0] > recv[len(recv)-1]) {
			c.Obs("Add:one_new_largest_element_on_receiver_with_spare_capacity", 1)
		}
	}
	if d := er.outsideWindow(cap(er.s)); d != "" {
		m.viol("Add", "writes-outside-receiver", wit, detail, d, "Add changes its receiver only: memory outside the receiver's own array (up to its capacity) untouched")
		return
	}
	if er.aliases(s) {
		c.Obs("Add:in_place", 1)
	} else {
		c.Obs("Add:reallocated", 1)
	}
	if er.changed(er.s, len(recv)) != "" {
		c.Obs("Add:cells_of_the_receiver's_own_array_rewritten(not judged)", 1)
	}
	if (rep || present) && isNew && m.ntOK(recv, args) {
		if small {
			c.NTDistinct(1)
		} else {
			c.NT("add", recv, args)
		}
	}
}

func (m *mon) newSorted(args []int, small bool) {
	wit := "args=" + show(args)
	if !small {
		wit = fmt.Sprintf("seeded|len(args)=%d,args0=%d", len(args), first(args))
	}
	m.newSortedOn(args, embed(args, 2), wit, small)
}

// newSortedOn: NewSortedInts(ex.s...) for an argument list in any representation.
func (m *mon) newSortedOn(args []int, ex *emb, wit string, small bool) {
	c := m.c
	m.class = ""
	if m.muted("NewSortedInts") {
		return
	}
	want := refset.Of(args...)
	detail := map[string]interface{}{"args": args, "witness": wit}
	var got sortints.SortedInts
	pi := c.Call("NewSortedInts|"+wit, func() { got = sortints.NewSortedInts(ex.s...) })
	c.Eval(1)
	c.Obs("op:NewSortedInts", 1)
	spreadOf(args).note(c, "NewSortedInts")
	if pi != nil {
		m.viol("NewSortedInts", "panic", wit+"|"+engine.SiteNoLine(pi.Site), detail, pi.String(), show(want.Sorted()))
		return
	}
	if !m.result("NewSortedInts", wit, detail, got, want) {
		return
	}
	if !m.untouched("NewSortedInts", wit, detail, "args", ex, len(args)) {
		return
	}
	if ex.aliases(got) {
		m.viol("NewSortedInts", "result-aliases-argument", wit, detail, "the result shares memory with the argument list", "a new SortedInts")
		return
	}
	if len(want) < len(args) && len(want) >= 2 && m.ntOK(args) {
		if small {
			c.NTDistinct(1)
		} else {
			c.NT("new", args)
		}
	}
}

func (m *mon) removeAndContains(recv []int, x, spare int) {
	wit := fmt.Sprintf("recv=%s,x=%d", show(recv), x)
	detail := map[string]interface{}{"receiver": recv, "x": x, "receiver_spare_capacity": spare}
	m.removeAndContainsOn(recv, x, func() *emb { return embed(recv, spare) }, wit, detail)
}

// removeAndContainsOn: ContainsSingle(v, x) and v.Remove(x) on values made by mk (any representation).
func (m *mon) removeAndContainsOn(recv []int, x int, mk func() *emb, wit string, detail interface{}) {
	c := m.c
	m.class = ""
	R := refset.Of(recv...)
	if !m.muted("ContainsSingle") {
		ea := mk()
		var got bool
		pi := c.Call("ContainsSingle|"+wit, func() { got = sortints.ContainsSingle(ea.s, x) })
		c.Eval(1)
		c.Obs("op:ContainsSingle", 1)
		spreadOf(recv, []int{x}).note(c, "ContainsSingle")
		if pi != nil {
			m.viol("ContainsSingle", "panic", wit+"|"+engine.SiteNoLine(pi.Site), detail, pi.String(), fmt.Sprint(R[x]))
		} else if got != R[x] {
			m.viol("ContainsSingle", "wrong", wit, detail, fmt.Sprint(got), fmt.Sprint(R[x]))
		} else {
			m.untouched("ContainsSingle", wit, detail, "a", ea, len(recv))
		}
	}
	if !m.muted("Remove") {
		er := mk()
		s := er.s
		want := R.Copy()
		delete(want, x)
		pi := c.Call("Remove|"+wit, func() { s.Remove(x) })
		c.Eval(1)
		c.Obs("op:Remove", 1)
		spreadOf(recv, []int{x}).note(c, "Remove")
		if pi != nil {
			m.viol("Remove", "panic", wit+"|"+engine.SiteNoLine(pi.Site), detail, pi.String(), show(want.Sorted()))
			return
		}
		if !m.result("Remove", wit, detail, s, want) {
			return
		}
		if d := er.outsideWindow(len(recv)); d != "" {
			m.viol("Remove", "writes-outside-receiver", wit, detail, d, "only the receiver's own elements move")
			return
		}
		if R[x] {
			c.Obs("Remove:present", 1)
		}
	}
}

func (m *mon) complement(n int, a []int, spare int) {
	m.complementOn(n, a, embed(a, spare), fmt.Sprintf("n=%d,a=%s", n, show(a)))
}

// complementOn: Complement(n, ea.s) for an argument in any representation.
func (m *mon) complementOn(n int, a []int, ea *emb, wit string) {
	c := m.c
	m.class = "a within 0..n-1"
	for _, v := range a {
		if v < 0 || v >= n {
			m.class = "a has elements outside 0..n-1"
		}
	}
	if m.muted("Complement") {
		return
	}
	want := refset.Minus(refset.Interval(n), refset.Of(a...))
	detail := map[string]interface{}{"n": n, "a": a, "witness": wit}
	var got sortints.SortedInts
	pi := c.Call("Complement|"+wit, func() { got = sortints.Complement(n, ea.s) })
	c.Eval(1)
	c.Obs("op:Complement", 1)
	outside, inside := false, false
	for _, v := range a {
		if v < 0 || v >= n {
			outside = true
		} else {
			inside = true
		}
	}
	if outside {
		c.Obs("Complement:a_has_elements_outside_0..n-1", 1)
	}
	// the candidates 0..n-1 are compared with every element of a: they are operands of the scan like a itself
	if n > 0 {
		spreadOf(a, []int{0, n - 1}).note(c, "Complement")
	} else {
		spreadOf(a).note(c, "Complement")
	}
	if inside && len(a) > 0 {
		if a[0] == minInt {
			c.Obs("extremes:Complement:a_holds_MinInt_and_elements_of_0..n-1", 1)
		}
		if a[len(a)-1] == maxInt {
			c.Obs("extremes:Complement:a_holds_MaxInt_and_elements_of_0..n-1", 1)
		}
	}
	if pi != nil {
		m.viol("Complement", "panic", wit+"|"+engine.SiteNoLine(pi.Site), detail, pi.String(), show(want.Sorted()))
		return
	}
	if !m.result("Complement", wit, detail, got, want) {
		return
	}
	if !m.untouched("Complement", wit, detail, "a", ea, len(a)) {
		return
	}
	if ea.aliases(got) {
		m.viol("Complement", "result-aliases-argument", wit, detail, "shares memory with a", "a new SortedInts")
	}
}

func (m *mon) rangeCase(start, end, step int) {
	c := m.c
	switch {
	case (end < start && step > 0) || (end > start && step < 0) || (end != start && step == 0):
		m.class = "infinite"
	case end == start:
		m.class = "empty"
	case step > 1<<32 || step < -(1<<32):
		m.class = "step near the limits of int"
	case end < start:
		m.class = "descending"
	default:
		m.class = "ascending"
	}
	if m.muted("Range") {
		return
	}
	wit := fmt.Sprintf("start=%d,end=%d,step=%d", start, end, step)
	detail := map[string]interface{}{"start": start, "end": end, "step": step}
	mustPanic := (end < start && step > 0) || (end > start && step < 0) || (end != start && step == 0)
	var got sortints.SortedInts
	pi := c.Call("Range|"+wit, func() { got = sortints.Range(start, end, step) })
	c.Eval(1)
	c.Obs("op:Range", 1)
	if mustPanic {
		if pi == nil {
			m.viol("Range", "no-panic", wit, detail, show(got), `panic("Infinite set"): the step does not lead from start to end`)
			return
		}
		c.Obs("Range:required_panics_seen", 1)
		if pi.Value != "Infinite set" {
			c.Obs("Range:panic_with_other_value", 1)
		}
		return
	}
	want := refset.Progression(start, end, step)
	if start == end {
		want = refset.Set{}
	}
	if pi != nil {
		m.viol("Range", "panic", wit+"|"+engine.SiteNoLine(pi.Site), detail, pi.String(), show(want.Sorted()))
		return
	}
	if end < start {
		c.Obs("Range:descending", 1)
	}
	if !refset.StrictlyIncreasing(got) {
		m.viol("Range", "not-increasing", wit, detail, show(got), show(want.Sorted()))
		return
	}
	if !refset.Equal(got, want) {
		m.viol("Range", "wrong", wit, detail, show(got), show(want.Sorted())+" (the elements start + i*step from start inclusive towards end exclusive)")
		return
	}
	if len(want) >= 2 {
		c.NT("range", start, end, step)
	}
}

// ---------------------------------------------------------------- sorting

func (m *mon) sortCase(kind string, depth int, data []int, label string) {
	c := m.c
	api := "ints.Sort"
	if depth >= 0 {
		api = fmt.Sprintf("ints.VerifQuickSortDepth(depth=%d)", depth)
	}
	m.class = ""
	if m.muted(api) {
		return
	}
	want := append([]int(nil), data...)
	sort.Ints(want)
	e := embed(data, 2)
	wit := fmt.Sprintf("%s,len=%d", label, len(data))
	if len(data) <= 16 {
		wit = show(data)
	}
	var detail interface{} = map[string]interface{}{"kind": kind, "input": data}
	if len(data) > 200 {
		detail = map[string]interface{}{"kind": kind, "len": len(data), "label": label, "head": data[:16]}
	}
	a := []int(e.s)
	var pi *engine.PanicInfo
	if depth < 0 {
		pi = c.Call(api+"|"+wit, func() { ints.Sort(a) })
		c.Obs("sort:Sort", 1)
		spreadOf(data).note(c, "ints.Sort")
	} else {
		pi = c.Call(api+"|"+wit, func() { ints.VerifQuickSortDepth(a, depth) })
		if len(data) > 12 {
			c.Obs("sort:heapsort_entry", 1)
			spreadOf(data).note(c, "ints.Sort(heapsort/quicksort entry, longer than 12)")
		}
	}
	c.Eval(1)
	if pi != nil {
		m.viol(api, "panic", wit+"|"+engine.SiteNoLine(pi.Site), detail, pi.String(), "sorted slice")
		return
	}
	for i := range want {
		if a[i] != want[i] {
			m.viol(api, "wrong", wit, detail, fmt.Sprintf("index %d holds %d; result %s", i, a[i], show(a)), fmt.Sprintf("%d; sort.Ints gives %s", want[i], show(want)))
			return
		}
	}
	for i := range e.back {
		if (i < pad || i >= pad+len(data)) && e.back[i] != e.snap[i] {
			m.viol(api, "writes-outside-slice", wit, detail, fmt.Sprintf("array index %d (slice index %d)", i, i-pad), "cells outside a[0:len] untouched")
			return
		}
	}
	if len(data) > 12 && !sort.IntsAreSorted(data) {
		if len(data) <= 64 {
			c.NT("sort", api, data)
		} else {
			c.NT("sort", api, label, len(data), data[:32])
		}
	}
}

var patterns = []string{"random", "sorted", "reversed", "organ-pipe", "few-distinct", "sawtooth", "all-equal", "random-small-range", "nearly-sorted", "pipe-organ-inverted", "killer-median3",
	// values at and around the limits of int (differences and sums of elements overflow)
	"limits-of-int-few-distinct", "whole-int-range", "limits-of-int-with-offsets-among-small-values"}

func genPattern(p string, n int, rg *engine.Rng) []int {
	a := make([]int, n)
	switch p {
	case "random":
		for i := range a {
			a[i] = int(rg.U64()>>1) - 1<<62
		}
	case "sorted":
		for i := range a {
			a[i] = i*3 - n
		}
	case "reversed":
		for i := range a {
			a[i] = (n - i) * 2
		}
	case "organ-pipe":
		for i := range a {
			if i < n/2 {
				a[i] = i
			} else {
				a[i] = n - i
			}
		}
	case "pipe-organ-inverted":
		for i := range a {
			if i < n/2 {
				a[i] = n - i
			} else {
				a[i] = i
			}
		}
	case "few-distinct":
		d := 1 + rg.Intn(4)
		for i := range a {
			a[i] = rg.Intn(d) - 1
		}
	case "sawtooth":
		t := 2 + rg.Intn(17)
		for i := range a {
			a[i] = i % t
		}
	case "all-equal":
		for i := range a {
			a[i] = 7
		}
	case "random-small-range":
		r := 1 + n/4
		for i := range a {
			a[i] = rg.Intn(r)
		}
	case "nearly-sorted":
		for i := range a {
			a[i] = i
		}
		for s := 0; s < 1+n/50; s++ {
			if n > 1 {
				i, j := rg.Intn(n), rg.Intn(n)
				a[i], a[j] = a[j], a[i]
			}
		}
	case "limits-of-int-few-distinct":
		pal := []int{minInt, minInt + 1, -1, 0, 1, maxInt - 1, maxInt}
		d := 2 + rg.Intn(len(pal)-1)
		off := rg.Intn(len(pal))
		// evenly spread, or one value dominating with a few others around it (the skewed-duplicates branch of the pivot step)
		dom := []float64{0, 0, 0.8, 0.93}[rg.Intn(4)]
		domv := pal[rg.Intn(len(pal))]
		for i := range a {
			if rg.Bool(dom) {
				a[i] = domv
			} else {
				a[i] = pal[(off+rg.Intn(d))%len(pal)]
			}
		}
	case "whole-int-range":
		for i := range a {
			a[i] = int(rg.U64())
		}
	case "limits-of-int-with-offsets-among-small-values":
		for i := range a {
			switch rg.Intn(4) {
			case 0:
				a[i] = minInt + rg.Intn(n+1)
			case 1:
				a[i] = maxInt - rg.Intn(n+1)
			default:
				a[i] = rg.Intn(2*n+1) - n
			}
		}
	case "killer-median3":
		// the classical median-of-three adversary layout
		h := n / 2
		for i := 0; i < h; i++ {
			if i%2 == 0 {
				a[i] = i + 1
			} else {
				a[i] = h + i + (h % 2)
			}
		}
		for i := h; i < n; i++ {
			a[i] = (i - h + 1) * 2
		}
	}
	return a
}

// ---------------------------------------------------------------- workload

func subsetOf(univ []int, mask int) []int {
	r := []int{}
	for i, v := range univ {
		if mask>>uint(i)&1 == 1 {
			r = append(r, v)
		}
	}
	return r
}

func randSet(rg *engine.Rng, maxLen, span int) []int {
	n := rg.Intn(maxLen + 1)
	off := rg.Intn(2*span+1) - span
	s := refset.Set{}
	for i := 0; i < n; i++ {
		s[off+rg.Intn(span)] = true
	}
	return s.Sorted()
}

func run(c *engine.Ctx) {
	c.Unit("selfcheck", func() {
		if err := refset.SelfCheck(); err != nil {
			c.Inconclusive("oracle self-check failed: " + err.Error())
		}
		// the sentinel machinery itself
		e := embed([]int{1, 2, 3}, 2)
		if e.changed(e.s, 3) != "" || len(e.s) != 3 || cap(e.s) != 5 {
			c.Inconclusive("embed self-check failed")
		}
		e.s[:5][4] = 0
		if e.changed(e.s, 3) == "" {
			c.Inconclusive("embed does not notice a write into spare capacity")
		}
		if !e.aliases(e.s[1:]) || e.aliases([]int{1}) {
			c.Inconclusive("alias detection self-check failed")
		}
		c.Obs("oracle_selfcheck_runs", 1)
	})

	// 0. regression witnesses (fixed part)
	c.Unit("regression", func() {
		m := newMon(c)
		m.rangeCase(10, 0, -3)
		m.rangeCase(0, 10, 3)
		m.add([]int{1, 3, 5}, []int{3, 3}, 0, true)
		m.add([]int{1, 3, 5}, []int{3, 3, 4}, 0, true)
	})

	// 1. all pairs of subsets of a small universe, every binary operation
	univ := []int{-2, -1, 0, 1, 2, 3}
	if c.Thorough() {
		univ = []int{-3, -2, -1, 0, 1, 2, 3, 4}
	}
	nsub := 1 << uint(len(univ))
	blk := nsub / 16
	for lo := 0; lo < nsub; lo += blk {
		lo := lo
		c.Unit(fmt.Sprintf("binary/a=%d..", lo), func() {
			m := newMon(c)
			for am := lo; am < lo+blk; am++ {
				a := subsetOf(univ, am)
				for bm := 0; bm < nsub; bm++ {
					b := subsetOf(univ, bm)
					m.binary(a, b, (am+bm)%3, (am*7+bm)%2, true)
				}
				m.unionAliased(a, am%3)
				if c.Stopped() {
					return
				}
			}
			if lo == 0 {
				c.Obs(fmt.Sprintf("exhaustive:Union/Intersection/IntersectionSize/SetMinus/XOR/ContainsSorted/Union method on all pairs of subsets of %v", univ), 1)
			}
		})
	}

	// 2. Add on every receiver within {0..4} x every argument list of length <= 4 over {-1..3}; NewSortedInts on every list
	vals := []int{-1, 0, 1, 2, 3}
	maxLen := 4
	var lists [][]int
	var gen func(cur []int)
	gen = func(cur []int) {
		lists = append(lists, append([]int{}, cur...))
		if len(cur) == maxLen+1 {
			return
		}
		for _, v := range vals {
			gen(append(cur, v))
		}
	}
	// lists up to length 5 (the length-5 ones are used by NewSortedInts only), shortest witnesses first
	gen(nil)
	sort.SliceStable(lists, func(i, j int) bool { return len(lists[i]) < len(lists[j]) })
	recvU := []int{0, 1, 2, 3, 4}
	for rm := 0; rm < 32; rm += 8 {
		rm := rm
		c.Unit(fmt.Sprintf("add/recv=%d..", rm), func() {
			m := newMon(c)
			for li, l := range lists {
				if len(l) > maxLen {
					continue
				}
				for r := rm; r < rm+8; r++ {
					m.add(subsetOf(recvU, r), l, (li+r)%3, true)
				}
			}
			if rm == 0 {
				c.Obs("exhaustive:Add of every list (len<=4 over -1..3) on every receiver within {0..4}", 1)
			}
		})
	}
	for part := 0; part < 4; part++ {
		part := part
		c.Unit(fmt.Sprintf("newsortedints/%d", part), func() {
			m := newMon(c)
			for li, l := range lists {
				if li%4 == part {
					m.newSorted(l, true)
				}
			}
			if part == 0 {
				c.Obs("exhaustive:NewSortedInts on every list of length<=5 over -1..3", 1)
			}
		})
	}

	// 3. Remove, ContainsSingle, Complement on all small sets
	c.Unit("remove-contains", func() {
		m := newMon(c)
		u := []int{-2, -1, 0, 1, 2, 3, 5}
		for rm := 0; rm < 1<<uint(len(u)); rm++ {
			recv := subsetOf(u, rm)
			for x := -3; x <= 6; x++ {
				m.removeAndContains(recv, x, rm%3)
			}
		}
		c.Obs("exhaustive:Remove and ContainsSingle of x in -3..6 on all subsets of {-2,-1,0,1,2,3,5}", 1)
	})
	c.Unit("complement", func() {
		m := newMon(c)
		u := []int{0, 1, 2, 3, 4, 5, -1, -2, 6, 7}
		for n := 0; n <= 6; n++ {
			for am := 0; am < 1<<uint(len(u)); am++ {
				a := subsetOf(u, am)
				sort.Ints(a)
				m.complement(n, a, am%3)
			}
		}
		c.Obs("exhaustive:Complement(n,a) for n<=6 and all subsets a of {-2..7}", 1)
	})

	// 4. Range on a full cube
	R := 6
	if c.Thorough() {
		R = 10
	}
	c.Unit("range/cube", func() {
		m := newMon(c)
		// by growing |start|, |end|, |step| so that the first witness of a defect is a small one
		ord := []int{0}
		for v := 1; v <= R; v++ {
			ord = append(ord, v, -v)
		}
		for _, start := range ord {
			for _, end := range ord {
				for _, step := range ord {
					m.rangeCase(start, end, step)
				}
			}
		}
		c.Obs(fmt.Sprintf("exhaustive:Range(start,end,step) on [-%d,%d]^3", R, R), 1)
	})
	// steps near the limits of int and ranges at the bottom of the int range
	c.Unit("range/extremes", func() {
		m := newMon(c)
		const maxInt = int(^uint(0) >> 1)
		const minInt = -maxInt - 1
		for _, st := range []int{maxInt, maxInt - 1, 1 << 62, 1<<62 + 1, 1 << 40} {
			for _, start := range []int{5, 0, -5, 1, -1} {
				for _, d := range []int{1, 5, 9} {
					m.rangeCase(start, start+d, st)
					m.rangeCase(start, start-d, -st)
					c.Obs("Range:extreme_step_cases", 2)
				}
			}
		}
		m.rangeCase(0, -7, minInt)
		for _, st := range []int{1, 3, 7} {
			for _, d := range []int{1, 10, 23} {
				m.rangeCase(minInt, minInt+d, st)
				m.rangeCase(minInt+d, minInt, -st)
				c.Obs("Range:bottom_of_int_cases", 2)
			}
		}
	})
	// ranges that end at the top of the int range, in a unit of their own: where "i += step" wraps
	// around, the call allocates until the memory watchdog of the engine stops the child
	c.Unit("range/top-of-int", func() {
		m := newMon(c)
		const maxInt = int(^uint(0) >> 1)
		const minInt = -maxInt - 1
		m.rangeCase(maxInt-5, maxInt, 3)
		m.rangeCase(maxInt, maxInt-10, -3)
		m.rangeCase(maxInt-9, maxInt, 1)
		m.rangeCase(maxInt-1, maxInt, 2)
		m.rangeCase(minInt, maxInt, 1<<62)
		m.rangeCase(maxInt, minInt, -(1 << 62))
		m.rangeCase(maxInt, minInt, minInt)
		c.Obs("Range:top_of_int_cases", 7)
	})
	c.Unit("range/seeded", func() {
		m := newMon(c)
		rg := c.Rand("range", 0)
		for i := 0; i < c.Pick(2000, 20000); i++ {
			start := rg.Range(-100000, 100000)
			ln := rg.Intn(3000)
			step := 1 + rg.Intn(40)
			end := start + ln*step/2 + rg.Intn(step+1)
			if rg.Bool(0.5) {
				step = -step
				end = start - (end - start)
			}
			if rg.Bool(0.05) {
				step = -step // must panic (unless start == end)
			}
			m.rangeCase(start, end, step)
		}
	})

	// 5. seeded large sets
	nl := c.Pick(1500, 15000)
	perL := 50
	for u := 0; u*perL < nl; u++ {
		u := u
		c.Unit(fmt.Sprintf("seeded/large/%d", u), func() {
			m := newMon(c)
			for i := u * perL; i < (u+1)*perL && i < nl; i++ {
				rg := c.Rand("large", i)
				span := 1 + rg.Intn(1<<uint(1+rg.Intn(13)))
				a := randSet(rg, 1+rg.Intn(400), span)
				b := randSet(rg, 1+rg.Intn(400), span)
				switch rg.Intn(6) {
				case 0:
					b = append([]int{}, a...) // equal
				case 1:
					if len(a) > 0 { // a subset
						b = []int{}
						for _, v := range a {
							if rg.Bool(0.5) {
								b = append(b, v)
							}
						}
					}
				case 2:
					// interleaved / disjoint blocks
					for j := range b {
						b[j] += span
					}
				}
				m.binary(a, b, rg.Intn(4), rg.Intn(4), false)
				// Add / NewSortedInts with unsorted, repeated, partly present arguments
				var args []int
				na := rg.Intn(60)
				for j := 0; j < na; j++ {
					switch {
					case len(a) > 0 && rg.Bool(0.4):
						args = append(args, a[rg.Intn(len(a))])
					case len(args) > 0 && rg.Bool(0.3):
						args = append(args, args[rg.Intn(len(args))])
					default:
						args = append(args, rg.Intn(2*span+2)-span)
					}
				}
				if args == nil {
					args = []int{}
				}
				m.add(a, args, rg.Intn(5), false)
				m.newSorted(args, false)
				if len(a) > 0 {
					m.removeAndContains(a, a[rg.Intn(len(a))], rg.Intn(3))
				}
				m.removeAndContains(a, rg.Intn(2*span+2)-span, rg.Intn(3))
				if n := rg.Intn(300); true {
					m.complement(n, randSet(rg, n, n+3), rg.Intn(3))
				}
				if i < 2 {
					c.Sample("seeded large sets", map[string]interface{}{"len_a": len(a), "len_b": len(b), "len_args": len(args), "span": span})
				}
				if c.Stopped() {
					return
				}
			}
		})
	}

	// 6. histories of mutations on one value, with bystanders
	nh := c.Pick(800, 8000)
	perH := 25
	for u := 0; u*perH < nh; u++ {
		u := u
		c.Unit(fmt.Sprintf("seeded/history/%d", u), func() {
			m := newMon(c)
			for i := u * perH; i < (u+1)*perH && i < nh; i++ {
				m.history(i)
				if c.Stopped() {
					return
				}
			}
		})
	}

	// 6b. "breathing" histories: one value grown to 64..700 elements and drained again by Remove alone (from the
	// front, the back, the middle, at random), several cycles, compared with the model after every call: whatever
	// is rebuilt or released when a set shrinks far below its capacity happens here and nowhere in the short histories
	nb := c.Pick(48, 400)
	for u := 0; u < nb; u++ {
		u := u
		c.Unit(fmt.Sprintf("seeded/breathing/%d", u), func() {
			m := newMon(c)
			m.breathing(u)
		})
	}

	// 7. every representation of a value in every argument position (reps.go)
	repUnits(c)

	// 8. several live values that share backing arrays (values.go)
	valueUnits(c)

	// 9. sorting
	sortUnits(c)

	// 10. numeric extremes inside otherwise ordinary sets, every function (extremes.go)
	extremeUnits(c)
}

// breathing: see run().
func (m *mon) breathing(idx int) {
	c := m.c
	m.class = ""
	if m.muted("history") {
		return
	}
	rg := c.Rand("breathing", idx)
	var s sortints.SortedInts
	model := refset.Of()
	key := fmt.Sprintf("breathing#%d", idx)
	var log []string
	fail := func(kind, obs, exp string) {
		tail := log
		if len(tail) > 12 {
			tail = tail[len(tail)-12:]
		}
		m.viol("history", kind, fmt.Sprintf("%s|step=%d", key, len(log)), map[string]interface{}{"calls_so_far": len(log), "last_calls": tail}, obs, exp)
	}
	check := func(pi *engine.PanicInfo) bool {
		c.Eval(1)
		if pi != nil {
			fail("panic|"+engine.SiteNoLine(pi.Site), pi.String(), show(model.Sorted()))
			return false
		}
		if !refset.StrictlyIncreasing(s) || !refset.Equal(s, model) {
			fail("wrong", show(s), show(model.Sorted()))
			return false
		}
		return true
	}
	cycles := 2 + rg.Intn(3)
	for cy := 0; cy < cycles && !c.Stopped(); cy++ {
		target := []int{64, 65, 100, 128, 129, 200, 256, 300, 513, 700}[rg.Intn(10)]
		// grow: Range, batches of Add, Union method
		switch rg.Intn(3) {
		case 0:
			step := 1 + rg.Intn(3)
			var r sortints.SortedInts
			pi := c.Call(key+"|Range", func() { r = sortints.Range(0, target*step, step) })
			if pi != nil {
				fail("panic|"+engine.SiteNoLine(pi.Site), pi.String(), "a range")
				return
			}
			log = append(log, fmt.Sprintf("s.Union(Range(0,%d,%d))", target*step, step))
			pi = c.Call(key+"|Union", func() { s.Union(r) })
			for x := 0; x < target*step; x += step {
				model[x] = true
			}
			if !check(pi) {
				return
			}
		default:
			for len(model) < target {
				var args []int
				for j := 1 + rg.Intn(12); j > 0; j-- {
					args = append(args, rg.Intn(3*target))
				}
				log = append(log, fmt.Sprintf("Add(%v)", args))
				pi := c.Call(key+"|Add", func() { s.Add(args...) })
				for _, x := range args {
					model[x] = true
				}
				if !check(pi) {
					return
				}
			}
		}
		c.ObsMax("breathing:largest_set", len(model))
		// drain by Remove alone
		style := rg.Intn(5)
		floor := []int{0, 0, 1, 3, 10}[rg.Intn(5)]
		for len(model) > floor {
			cur := model.Sorted()
			var x int
			switch style {
			case 0:
				x = cur[0]
			case 1:
				x = cur[len(cur)-1]
			case 2:
				x = cur[len(cur)/2]
			case 3:
				x = cur[rg.Intn(len(cur))]
			default:
				x = cur[rg.Intn(2)*(len(cur)-1)] // alternate ends at random
			}
			if rg.Bool(0.05) {
				x = -1 - rg.Intn(5) // absent
			}
			log = append(log, fmt.Sprintf("Remove(%d)[len=%d cap=%d]", x, len(s), cap(s)))
			pi := c.Call(key+"|Remove", func() { s.Remove(x) })
			delete(model, x)
			c.Obs("breathing:removes", 1)
			if !check(pi) {
				return
			}
			if 4*len(s) <= cap(s) && cap(s) >= 64 {
				c.Obs("breathing:set_at_a_quarter_of_its_capacity_or_less(cap>=64; recorded only: whether storage is kept is up to the library)", 1)
			}
		}
		c.Obs("breathing:drains_completed", 1)
	}
	c.NT("breathing", idx, c.Seed())
}

type bystander struct {
	name string
	got  []int
	snap []int
}

// history drives one SortedInts value through a seeded sequence of
// mutations, comparing it with the model after every step; results of
// non-mutating functions computed along the way ("bystanders") must stay
// what they were.
func (m *mon) history(idx int) { m.historyOn(idx, false) }

// historyOn: wide = the values come from a table of span+4 distinct ints spread over the whole int range
// (limits of int, +-2^62, +-2^32, +-2^31 and their neighbours, small values; see wideTable) instead of a small interval.
func (m *mon) historyOn(idx int, wide bool) {
	c := m.c
	m.class = ""
	if m.muted("history") {
		return
	}
	name := "history"
	if wide {
		name = "widehistory"
	}
	rg := c.Rand(name, idx)
	span := 4 + rg.Intn(60)
	steps := 20 + rg.Intn(100)
	val := func() int { return rg.Intn(span+4) - 2 }
	set := func(maxLen int) []int { return randSet(rg, maxLen, span) }
	if wide {
		tab := wideTable(rg, span+4)
		val = func() int { return tab[rg.Intn(len(tab))] }
		set = func(maxLen int) []int { return subsetOfTable(rg, tab, rg.Intn(maxLen+1)) }
	}
	initial := set(span / 2)
	spare := []int{0, 0, 3, 40}[rg.Intn(4)]
	er := embed(initial, spare)
	s := er.s
	model := refset.Of(initial...)
	var log []string
	var bys []bystander
	key := fmt.Sprintf("%s#%d", name, idx)
	fail := func(kind, obs, exp string) {
		tail := log
		if len(tail) > 30 {
			tail = tail[len(tail)-30:]
		}
		m.viol("history", kind, fmt.Sprintf("%s|step=%d", key, len(log)), map[string]interface{}{"initial": initial, "spare_capacity": spare, "steps": len(log), "last_ops": tail}, obs, exp)
	}
	for st := 0; st < steps; st++ {
		var pi *engine.PanicInfo
		switch op := rg.Intn(10); {
		case op < 4:
			var args []int
			for j := rg.Intn(5); j >= 0; j-- {
				x := val()
				args = append(args, x)
				if rg.Bool(0.3) {
					args = append(args, x)
				}
			}
			rg.Shuffle(args)
			log = append(log, fmt.Sprintf("Add(%v)", args))
			pi = c.Call(key+"|Add", func() { s.Add(args...) })
			for _, x := range args {
				model[x] = true
			}
			c.Obs("history:Add", 1)
		case op < 7:
			x := val()
			log = append(log, fmt.Sprintf("Remove(%d)", x))
			pi = c.Call(key+"|Remove", func() { s.Remove(x) })
			delete(model, x)
			c.Obs("history:Remove", 1)
		default:
			b := set(6)
			eb := embed(b, rg.Intn(2))
			log = append(log, fmt.Sprintf("Union(%v)[cap-len=%d]", b, cap(s)-len(s)))
			pi = c.Call(key+"|Union", func() { s.Union(eb.s) })
			for _, x := range b {
				model[x] = true
			}
			c.Obs("history:Union_method", 1)
			if pi == nil && eb.changed(eb.s, len(b)) != "" {
				fail("mutator-changes-operand", eb.changed(eb.s, len(b)), "b untouched")
				return
			}
		}
		c.Eval(1)
		if wide {
			spreadOf(s).note(c, "history")
		}
		if pi != nil {
			fail("panic|"+engine.SiteNoLine(pi.Site), pi.String(), show(model.Sorted()))
			return
		}
		if !refset.StrictlyIncreasing(s) || !refset.Equal(s, model) {
			fail("wrong", show(s), show(model.Sorted()))
			return
		}
		for _, b := range bys {
			c.Obs("history:bystanders_checked", 1)
			if fmt.Sprint(b.got) != fmt.Sprint(b.snap) {
				fail("mutation-changes-earlier-result:"+b.name, show(b.got), show(b.snap))
				return
			}
		}
		if st%7 == 3 {
			t := sortints.SortedInts(set(8))
			var r sortints.SortedInts
			var name string
			var want refset.Set
			T := refset.Of(t...)
			switch rg.Intn(5) {
			case 0:
				name, want = "Union", refset.Union(model, T)
				pi = c.Call(key+"|fn", func() { r = sortints.Union(s, t) })
			case 1:
				name, want = "Intersection", refset.Inter(model, T)
				pi = c.Call(key+"|fn", func() { r = sortints.Intersection(s, t) })
			case 2:
				name, want = "SetMinus", refset.Minus(model, T)
				pi = c.Call(key+"|fn", func() { r = sortints.SetMinus(s, t) })
			case 3:
				name, want = "XOR", refset.Xor(model, T)
				pi = c.Call(key+"|fn", func() { r = sortints.XOR(s, t) })
			default:
				name, want = "Union(empty)", model.Copy()
				pi = c.Call(key+"|fn", func() { r = sortints.Union(s, sortints.SortedInts{}) })
			}
			log = append(log, "bystander:"+name)
			c.Eval(1)
			if pi != nil {
				fail("panic|"+engine.SiteNoLine(pi.Site), pi.String(), show(want.Sorted()))
				return
			}
			if !refset.Equal(r, want) {
				fail("wrong-"+name, show(r), show(want.Sorted()))
				return
			}
			if len(bys) >= 4 {
				bys = bys[1:]
			}
			bys = append(bys, bystander{name, r, append([]int(nil), r...)})
		}
	}
	c.NT(name, idx, c.Seed())
}

func sortUnits(c *engine.Ctx) {
	// every permutation of length <= 8 and every sequence over {0,1,2} of length <= 9
	c.Unit("sort/exhaustive/permutations", func() {
		m := newMon(c)
		maxN := c.Pick(7, 8)
		for n := 0; n <= maxN; n++ {
			p := make([]int, n)
			for i := range p {
				p[i] = i
			}
			var rec func(k int)
			rec = func(k int) {
				if k == n {
					m.sortCase("permutation", -1, p, "perm")
					return
				}
				for i := k; i < n; i++ {
					p[k], p[i] = p[i], p[k]
					rec(k + 1)
					p[k], p[i] = p[i], p[k]
				}
			}
			rec(0)
		}
		c.Obs(fmt.Sprintf("exhaustive:ints.Sort on all permutations of length<=%d", maxN), 1)
	})
	c.Unit("sort/exhaustive/ternary", func() {
		m := newMon(c)
		maxN := c.Pick(8, 10)
		for n := 0; n <= maxN; n++ {
			a := make([]int, n)
			total := 1
			for i := 0; i < n; i++ {
				total *= 3
			}
			for code := 0; code < total; code++ {
				x := code
				for i := range a {
					a[i] = x % 3
					x /= 3
				}
				m.sortCase("ternary", -1, a, "ternary")
			}
		}
		c.Obs(fmt.Sprintf("exhaustive:ints.Sort on all sequences over {0,1,2} of length<=%d", maxN), 1)
	})
	// patterned inputs of length 0..3000
	var lengths []int
	if c.Thorough() {
		for n := 0; n <= 3000; n++ {
			lengths = append(lengths, n)
		}
	} else {
		seen := map[int]bool{}
		add := func(n int) {
			if n >= 0 && n <= 3000 && !seen[n] {
				seen[n] = true
				lengths = append(lengths, n)
			}
		}
		for n := 0; n <= 130; n++ {
			add(n)
		}
		for n := 131; n <= 3000; n += 41 {
			add(n)
		}
		for p := 128; p <= 2048; p *= 2 {
			add(p - 1)
			add(p)
			add(p + 1)
		}
		add(2999)
		add(3000)
		sort.Ints(lengths)
	}
	per := 16
	if c.Thorough() {
		per = 50
	}
	for lo := 0; lo < len(lengths); lo += per {
		lo := lo
		hi := lo + per
		if hi > len(lengths) {
			hi = len(lengths)
		}
		c.Unit(fmt.Sprintf("sort/patterns/len=%d..%d", lengths[lo], lengths[hi-1]), func() {
			m := newMon(c)
			for _, n := range lengths[lo:hi] {
				for pi, p := range patterns {
					rg := c.Rand("sort/"+p, n)
					data := genPattern(p, n, rg)
					m.sortCase(p, -1, data, p)
					// the heapsort branch and the first quicksort levels through the verif-tagged entry point
					for depth := 0; depth <= 2; depth++ {
						m.sortCase(p, depth, data, p)
					}
					if n == 1000 && pi < 2 {
						c.Sample("sort input", map[string]interface{}{"pattern": p, "len": n, "head": data[:8]})
					}
				}
				c.Obs("sort:lengths", 1)
			}
		})
	}
}

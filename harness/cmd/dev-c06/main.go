// dev-c06 links only the C06 monitor (development builds).
package main

import (
	"verif/internal/cli"
	_ "verif/internal/props/c06"
)

func main() { cli.Main() }

package c15

// "Large n, small output": every workload of c15.go has n <= 9, so anything in
// the library keyed to a word size, a table size or a large index is never
// reached there.  The cases below have more than 64 positions / values but
// families of at most a few ten thousand objects, with references obtained by
// pruned searches (refiter.RestrictedPermutations, LinearExtensions, PatternDFS)
// or by the same plain recursions as before, cross-checked against closed
// formulas where one exists.  Families too large to exhaust are compared on
// their first few thousand objects (prefixOnly).

import (
	"fmt"

	"github.com/Tom-Johnston/mamba/itertools"

	"verif/internal/engine"
	"verif/internal/oracle/refiter"
)

// ---------------------------------------------------------------------------
// TopologicalSorts

type bigRel struct {
	rel   relation
	count int // closed formula for the number of linear extensions
	heavy bool
}

func pairsOfChain(elems []int, transitive bool) [][2]int {
	var pairs [][2]int
	for i := range elems {
		for j := i + 1; j < len(elems); j++ {
			if transitive || j == i+1 {
				pairs = append(pairs, [2]int{elems[i], elems[j]})
			}
		}
	}
	return pairs
}

// chainFree: the elements outside free form a chain (or a total order when transitive), those in free are unconstrained.
func chainFree(n int, free []int, transitive bool) bigRel {
	isFree := map[int]bool{}
	for _, f := range free {
		isFree[f] = true
	}
	var rest []int
	for i := 0; i < n; i++ {
		if !isFree[i] {
			rest = append(rest, i)
		}
	}
	count := 1
	for t := 0; t < len(isFree); t++ {
		count *= n - t
	}
	name := "chain"
	if transitive {
		name = "total-order"
	}
	if len(free) > 0 {
		name += fmt.Sprintf("-with-free-%v", free)
	}
	return bigRel{rel: relation{name: name, pairs: pairsOfChain(rest, transitive)}, count: count, heavy: len(isFree) >= 2}
}

// twoChains: 0<1<...<a-1 and a<a+1<...<n-1, nothing across.
func twoChains(n, a int) bigRel {
	var lo, hi []int
	for i := 0; i < n; i++ {
		if i < a {
			lo = append(lo, i)
		} else {
			hi = append(hi, i)
		}
	}
	pairs := append(pairsOfChain(lo, false), pairsOfChain(hi, false)...)
	return bigRel{rel: relation{name: fmt.Sprintf("two-chains(%d+%d)", a, n-a), pairs: pairs}, count: refiter.Binomial(n, a), heavy: a >= 2 && n-a >= 2}
}

func bigRelations(n int) []bigRel {
	mid := n / 2
	if n > 66 {
		mid = 63 // the pair {63,64} straddles the word boundary
	}
	return []bigRel{
		chainFree(n, nil, true), chainFree(n, nil, false),
		chainFree(n, []int{0}, false), chainFree(n, []int{n - 1}, false), chainFree(n, []int{mid}, false), chainFree(n, []int{n - 1}, true),
		twoChains(n, 1), twoChains(n, n-1),
		chainFree(n, []int{0, 1}, false), chainFree(n, []int{n - 2, n - 1}, false), chainFree(n, []int{mid, mid + 1}, false),
		chainFree(n, []int{0, n - 1}, false), chainFree(n, []int{n - 2, n - 1}, true),
		twoChains(n, 2), twoChains(n, n-2),
	}
}

func bigTopologicalCase(c *engine.Ctx, n int, b bigRel) *kase {
	k := topologicalCase(n, nil, b.rel)
	k.want = refiter.LinearExtensions(n, b.rel.pairs)
	if len(k.want) != b.count {
		c.Inconclusive(fmt.Sprintf("reference LinearExtensions(%d,%s) has %d objects, the closed formula gives %d", n, b.rel.name, len(k.want), b.count))
	}
	// a correct Next needs at most n answers; the constructor may ask about every pair once
	k.mon.limit = 16 * (int64(n)*int64(n)*int64(len(k.want)+2) + 64)
	return k
}

// ---------------------------------------------------------------------------
// predicates that leave few permutations of a large n

func windowPred(n, s, w int, reversed bool) pred {
	name := fmt.Sprintf("identity-outside[%d,%d)", s, s+w)
	if reversed {
		name = fmt.Sprintf("reversal-outside[%d,%d)", s, s+w)
	}
	return pred{name: name, f: func(p []int) bool {
		if len(p) == 0 {
			return true
		}
		i := len(p) - 1
		v := p[i]
		if reversed {
			v = n - 1 - v
		}
		if i < s || i >= s+w {
			return v == i
		}
		return v >= s && v < s+w
	}}
}

func rotationPred(n int) pred {
	return pred{name: "rotation-by-one", f: func(p []int) bool {
		return len(p) == 0 || p[len(p)-1] == len(p)%n
	}}
}

// at most one adjacent transposition: n permutations
func oneSwapPred() pred {
	return pred{name: "identity-or-one-adjacent-transposition", f: func(p []int) bool {
		moved := 0
		for i, v := range p {
			if v != i {
				if v < i-1 || v > i+1 {
					return false
				}
				moved++
			}
		}
		return moved <= 2
	}}
}

func bigPermPreds(n int) []pred {
	return []pred{
		windowPred(n, 0, 5, false), windowPred(n, 62, 5, false), windowPred(n, n-5, 5, false),
		windowPred(n, 0, 4, true), windowPred(n, 62, 5, true), windowPred(n, n-5, 5, true),
		rotationPred(n), oneSwapPred(),
		{name: "none", f: func(p []int) bool { return len(p) == 0 }},
	}
}

func bigRestrictedPermutationsCase(n int, p pred) *kase {
	k := restrictedPermutationsCase(n, nil, p)
	calls := int64(0)
	k.want = refiter.RestrictedPermutations(n, func(a []int) bool { calls++; return p.f(a) }, 0)
	// the reference asks once about every child of every accepted prefix; so does any search that only knows f
	k.mon.limit = 16 * (calls + 64)
	return k
}

// patterns: every new element is the largest so far (x = l) outside the window,
// and among the d+1 largest inside it.
func topPatternPred(s, w, d int) pred {
	return pred{name: fmt.Sprintf("new-maximum-outside[%d,%d),top-%d-inside", s, s+w, d+1), f: func(q []int) bool {
		if len(q) == 0 {
			return true
		}
		i := len(q) - 1
		if i < s || i >= s+w {
			return q[i] == i
		}
		return q[i] >= i-d
	}}
}

func bigPatternPreds(n int) []pred {
	return []pred{
		{name: "increasing", f: func(q []int) bool { return len(q) == 0 || q[len(q)-1] == len(q)-1 }},
		{name: "decreasing", f: func(q []int) bool { return len(q) == 0 || q[len(q)-1] == 0 }},
		topPatternPred(0, 5, 2), topPatternPred(62, 5, 2), topPatternPred(n-5, 5, 2),
		{name: "none", f: func(q []int) bool { return len(q) == 0 }},
	}
}

func bigPatternCase(n int, p pred) *kase {
	calls := int64(0)
	counted := pred{name: p.name, f: func(a []int) bool { calls++; return p.f(a) }}
	k := patternCase(n, counted) // the reference (PatternDFS) runs here
	k.mon.limit = 16 * (calls + 64)
	return k
}

// ---------------------------------------------------------------------------
// prefixes of families that are too large to exhaust

func lexPermutationsPrefixCase(n, first int) *kase {
	k := &kase{api: "LexicographicPermutations", witness: fmt.Sprintf("n=%d,first=%d", n, first), want: refiter.FirstPermutations(n, first),
		ordered: true, orderName: "lexicographic", prefixOnly: true,
		build: func() iface {
			it := itertools.LexicographicPermutations(n)
			return iface{next: func() bool { return it.Next() }, value: func() []int { return it.Value() }}
		}}
	return k
}

func combinationsPrefixCase(n, kk, first int) *kase {
	return &kase{api: "Combinations", witness: fmt.Sprintf("n=%d,k=%d,first=%d", n, kk, first), want: refiter.FirstCombinations(n, kk, first),
		ordered: true, orderName: "lexicographic", prefixOnly: true,
		build: func() iface {
			it := itertools.Combinations(n, kk)
			return iface{next: func() bool { return it.Next() }, value: func() []int { return it.Value() }}
		}}
}

// the first C(m,k) k-subsets of {0..n-1} in colexicographic order are the k-subsets of {0..m-1}
func colexPrefixCase(n, kk, m int) *kase {
	k := colexCase(m, kk)
	k.witness = fmt.Sprintf("n=%d,k=%d,first=%d", n, kk, len(k.want))
	k.prefixOnly = true
	k.build = func() iface {
		it := itertools.CombinationsColex(n, kk)
		return iface{next: func() bool { return it.Next() }, value: func() []int { return it.Value() }}
	}
	return k
}

func integerPartitionsPrefixCase(n, first int) *kase {
	k := integerPartitionsCase(0)
	k.convention = false
	k.witness = fmt.Sprintf("n=%d,first=%d", n, first)
	k.want = refiter.FirstIntegerPartitions(n, first)
	k.prefixOnly = true
	k.build = func() iface {
		it := itertools.IntegerPartitions(n)
		return iface{next: func() bool { return it.Next() }, value: func() []int { return it.Value() }}
	}
	return k
}

// ---------------------------------------------------------------------------
// long vectors

func constVec(n, v int) []int {
	a := make([]int, n)
	for i := range a {
		a[i] = v
	}
	return a
}

func withEntries(v []int, kv ...int) []int {
	a := cpInts(v)
	for i := 0; i+1 < len(kv); i += 2 {
		if kv[i] >= 0 && kv[i] < len(a) {
			a[kv[i]] = kv[i+1]
		}
	}
	return a
}

func sumOf(v []int) int {
	s := 0
	for _, x := range v {
		s += x
	}
	return s
}

// ---------------------------------------------------------------------------

func runLarge(c *engine.Ctx) {
	// TopologicalSorts
	for _, n := range []int{63, 64, 65, 66, 70, 100, 130} {
		n := n
		c.Unit(fmt.Sprintf("large/n=%d/TopologicalSorts/at most n sorts", n), func() {
			r := newRunner(c)
			for _, b := range bigRelations(n) {
				if !b.heavy {
					r.run(bigTopologicalCase(c, n, b))
				}
			}
		})
		for bi, b := range bigRelations(n) {
			if !b.heavy {
				continue
			}
			// quick: all of them up to n = 70, the high-end ones (two free elements or a second chain among the indices >= 64) beyond
			if !c.Thorough() && n >= 100 && bi != 9 && bi != 12 && bi != 14 {
				continue
			}
			b := b
			c.Unit(fmt.Sprintf("large/n=%d/TopologicalSorts/%s", n, b.rel.name), func() {
				newRunner(c).run(bigTopologicalCase(c, n, b))
			})
		}
	}

	// RestrictedPrefixPermutations, PermutationsByPattern
	for _, n := range []int{65, 70, 100, 130} {
		n := n
		c.Unit(fmt.Sprintf("large/n=%d/RestrictedPrefixPermutations", n), func() {
			r := newRunner(c)
			for _, p := range bigPermPreds(n) {
				r.run(bigRestrictedPermutationsCase(n, p))
			}
		})
		c.Unit(fmt.Sprintf("large/n=%d/PermutationsByPattern", n), func() {
			r := newRunner(c)
			for _, p := range bigPatternPreds(n) {
				r.run(bigPatternCase(n, p))
			}
		})
	}

	// Combinations, CombinationsColex
	for _, n := range []int{63, 64, 65, 70, 130, 1000} {
		n := n
		c.Unit(fmt.Sprintf("large/n=%d/Combinations+Colex", n), func() {
			r := newRunner(c)
			for _, k := range []int{0, 1, n - 2, n - 1, n, n + 1} {
				if k == n-2 && n > 200 {
					continue // C(1000,2) objects of 998 elements
				}
				r.run(combinationsCase(n, k))
				r.run(colexCase(n, k))
			}
		})
		c.Unit(fmt.Sprintf("large/n=%d/Combinations+Colex/k=2", n), func() {
			r := newRunner(c)
			r.run(combinationsCase(n, 2))
			r.run(colexCase(n, 2))
		})
	}
	c.Unit("large/Combinations+Colex/first objects", func() {
		r := newRunner(c)
		r.run(combinationsPrefixCase(1000, 3, 5000))
		r.run(combinationsPrefixCase(1000, 500, 3000))
		r.run(combinationsPrefixCase(130, 65, 5000))
		r.run(colexPrefixCase(1000, 3, 40))
		r.run(colexPrefixCase(1000, 500, 501))
		r.run(colexPrefixCase(130, 65, 67))
	})

	// LexicographicPermutations, IntegerPartitions: first objects
	c.Unit("large/LexicographicPermutations+IntegerPartitions/first objects", func() {
		r := newRunner(c)
		for _, n := range []int{66, 72, 130} {
			r.run(lexPermutationsPrefixCase(n, 6000))
		}
		for _, n := range []int{70, 100, 200} {
			r.run(integerPartitionsPrefixCase(n, 5000))
		}
	})

	// MultisetCombinations with long m
	for _, l := range []int{65, 70, 130} {
		l := l
		c.Unit(fmt.Sprintf("large/len=%d/MultisetCombinations", l), func() {
			r := newRunner(c)
			ones := constVec(l, 1)
			for _, k := range []int{0, 1, 2, l - 1, l, l + 1} {
				r.run(multisetCombinationsCase(ones, k))
			}
			high := constVec(l, 0)
			for i := l - 8; i < l; i++ {
				high[i] = 1
			}
			high = withEntries(high, 64, 2)
			for k := 0; k <= 4; k++ {
				r.run(multisetCombinationsCase(high, k))
			}
			alt := make([]int, l)
			for i := range alt {
				alt[i] = i % 2
			}
			for k := 0; k <= 2; k++ {
				r.run(multisetCombinationsCase(alt, k))
			}
			ends := withEntries(constVec(l, 0), 0, 2, 63, 1, 64, 1, l-1, 2)
			for k := 0; k <= 7; k++ {
				r.run(multisetCombinationsCase(ends, k))
			}
			for i := 0; i < c.Pick(4, 20); i++ {
				rg := c.Rand("long-m", l*100+i)
				m := make([]int, l)
				for j := range m {
					if rg.Bool(0.15) {
						m[j] = 1 + rg.Intn(2)
					}
				}
				r.run(multisetCombinationsCase(m, 1+rg.Intn(3)))
			}
		})
	}

	// MultisetPermutations with 65+ elements almost all equal, and long frequency vectors
	c.Unit("large/MultisetPermutations", func() {
		r := newRunner(c)
		freqs := [][]int{{70, 1, 1}, {1, 70, 1}, {1, 1, 70}, {64, 2}, {2, 64}, {63, 1}, {64, 1}, {65, 1}, {1, 65}, {66}, {100, 1, 1}, {0, 64, 0, 1, 1},
			withEntries(constVec(100, 0), 3, 1, 64, 2, 99, 2),
			withEntries(constVec(70, 0), 64, 66, 69, 2),
			withEntries(constVec(130, 0), 129, 65, 0, 1),
		}
		if c.Thorough() {
			freqs = append(freqs, []int{66, 3}, []int{130, 1, 1}, []int{2, 66, 1})
		}
		for _, f := range freqs {
			r.run(multisetPermutationsCase(f))
		}
	})

	// Product, RestrictedPrefixProduct with many factors of size 1
	for _, l := range []int{65, 70, 130} {
		l := l
		c.Unit(fmt.Sprintf("large/len=%d/Product+RestrictedPrefixProduct", l), func() {
			r := newRunner(c)
			ones := constVec(l, 1)
			vecs := [][]int{
				ones,
				withEntries(ones, 0, 2, 63, 3, 64, 2, l-1, 3),
				withEntries(ones, 64, 5),
				withEntries(ones, l-1, 7),
				withEntries(ones, 0, 2, 64, 0),
				withEntries(ones, 0, 3, l-1, 0),
				withEntries(ones, 62, 2, 63, 2, 64, 2, 65, 2, 66%l, 2),
			}
			preds := []pred{fixedPreds(l)[0], fixedPreds(l)[1], fixedPreds(l)[4],
				{name: "sum-at-most-3", f: func(p []int) bool { return sumOf(p) <= 3 }},
				{name: "last-at-most-1", f: func(p []int) bool { return len(p) == 0 || p[len(p)-1] <= 1 }},
			}
			for i := 0; i < 3; i++ {
				rg := c.Rand("long-factors", l*10+i)
				preds = append(preds, hashPred(rg.U64()&0xffffffffff, 3, 4, 1<<uint(rg.Intn(16))))
			}
			for _, v := range vecs {
				r.run(productCase(v))
				for _, p := range preds {
					r.run(restrictedProductCase(v, p))
				}
			}
		})
	}
	c.Unit("large-workloads", func() {
		c.Obs("exhaustive:large n, small output: TopologicalSorts n in {63,64,65,66,70,100,130} under total orders, chains with one or two free elements (low, middle, high) and two chains; "+
			"Combinations/Colex n in {63,64,65,70,130,1000}, k in {0,1,2,n-2,n-1,n,n+1}; windowed predicates for RestrictedPrefixPermutations / PermutationsByPattern n in {65,70,100,130}; long multiplicity, frequency and factor vectors (65..130 entries)", 1)
	})
}

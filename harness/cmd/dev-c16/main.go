package main

import (
	"verif/internal/cli"
	_ "verif/internal/props/c16"
)

func main() { cli.Main() }

// dev-c20 links only the C20 monitor (development builds).
package main

import (
	"verif/internal/cli"
	_ "verif/internal/props/c20"
)

func main() { cli.Main() }

// Demonstration for C04-8 (Value hands out a copy of the iterator's graph instead of the graph it is working on).
//
// Run from the repository root:
//
//	cp /tmp/green-out/C04/8/demo_test.go graph/search/zz_demo_c04_8_test.go
//	GOFLAGS=-mod=mod GOPROXY=off GOSUMDB=off GOTOOLCHAIN=local go test -vet=off -count=1 -timeout 600s -run 'TestC04Demo8' -v ./graph/search/
//	rm graph/search/zz_demo_c04_8_test.go
//
// TestC04Demo8Property checks the property itself (every save position, chains of save/load, independence,
// the original is not disturbed) and passes before and after the change.
// TestC04Demo8IncidentalOld asserts the OLD incidental behaviour (Value() is the very graph the iterator works on:
// a held value follows the iterator, the pointer never changes, it is the pointer the callbacks get, and it has the
// capacity of an n vertex graph); it passes on the clean tree and fails with the patch.
package search_test

import (
	"bytes"
	"fmt"
	"testing"

	"github.com/Tom-Johnston/mamba/graph"
	"github.com/Tom-Johnston/mamba/graph/search"
)

func never8(g *graph.DenseGraph) bool { return false }

func key8(g *graph.DenseGraph) string {
	return fmt.Sprintf("%d/%d/%v/%v", g.NumberOfVertices, g.NumberOfEdges, g.DegreeSequence, g.Edges)
}

func drain8(it *search.GraphIterator) []string {
	var out []string
	for it.Next() {
		out = append(out, key8(it.Value()))
	}
	return out
}

func equal8(a, b []string) bool {
	if len(a) != len(b) {
		return false
	}
	for i := range a {
		if a[i] != b[i] {
			return false
		}
	}
	return true
}

type config8 struct {
	n, a, m  int
	pre, pru func(g *graph.DenseGraph) bool
	name     string
}

func configs8() []config8 {
	triangleFree := func(g *graph.DenseGraph) bool {
		n := g.N()
		for i := 0; i < n-1; i++ {
			for j := i + 1; j < n-1; j++ {
				if g.IsEdge(i, n-1) && g.IsEdge(j, n-1) && g.IsEdge(i, j) {
					return true
				}
			}
		}
		return false
	}
	maxDeg3 := func(g *graph.DenseGraph) bool {
		for _, d := range g.DegreeSequence {
			if d > 3 {
				return true
			}
		}
		return false
	}
	all := func(g *graph.DenseGraph) bool { return true }
	var cs []config8
	for n := 0; n <= 6; n++ {
		cs = append(cs, config8{n, 0, 1, never8, never8, fmt.Sprintf("all n=%d", n)})
	}
	for a := 0; a < 3; a++ {
		cs = append(cs, config8{6, a, 3, never8, never8, fmt.Sprintf("n=6 class %d of 3", a)})
		cs = append(cs, config8{7, a, 3, triangleFree, maxDeg3, fmt.Sprintf("n=7 triangle free maxdeg 3 class %d of 3", a)})
	}
	cs = append(cs, config8{6, 0, 1, triangleFree, never8, "n=6 triangle free"})
	cs = append(cs, config8{5, 0, 1, all, never8, "n=5 everything prepruned"})
	cs = append(cs, config8{5, 0, 1, never8, all, "n=5 everything pruned"})
	return cs
}

func TestC04Demo8Property(t *testing.T) {
	for _, c := range configs8() {
		want := drain8(search.WithPruning(c.n, c.a, c.m, c.pre, c.pru))
		// Every save position 0..len(want) and one more call after exhaustion.
		for k := 0; k <= len(want)+1; k++ {
			it := search.WithPruning(c.n, c.a, c.m, c.pre, c.pru)
			for j := 0; j < k; j++ {
				it.Next()
			}
			kk := k
			if kk > len(want) {
				kk = len(want)
			}
			before := key8(it.Value())
			var buf bytes.Buffer
			it.Save(&buf)
			if key8(it.Value()) != before {
				t.Fatalf("%s k=%d: Save changed the value of the original", c.name, k)
			}
			saved := append([]byte(nil), buf.Bytes()...)
			ld := search.Load(&buf, c.pre, c.pru)
			// A chain: advance the loaded one by one graph, save again, load again.
			var got []string
			if ld.Next() {
				got = append(got, key8(ld.Value()))
				var buf2 bytes.Buffer
				ld.Save(&buf2)
				ld2 := search.Load(&buf2, c.pre, c.pru)
				rest2 := drain8(ld2)
				rest := drain8(ld)
				if !equal8(rest, rest2) {
					t.Fatalf("%s k=%d: second link of the chain differs", c.name, k)
				}
				got = append(got, rest...)
			}
			if !equal8(got, want[kk:]) {
				t.Fatalf("%s k=%d: loaded iterator gives %d graphs, want the remaining %d in order", c.name, k, len(got), len(want)-kk)
			}
			// The original is not disturbed by Save nor by whatever the loaded iterators did.
			if rest := drain8(it); !equal8(rest, want[kk:]) {
				t.Fatalf("%s k=%d: original disturbed", c.name, k)
			}
			// The same record can be loaded again later.
			if rest := drain8(search.Load(bytes.NewReader(saved), c.pre, c.pru)); !equal8(rest, want[kk:]) {
				t.Fatalf("%s k=%d: second load of the same record differs", c.name, k)
			}
		}
	}
}

func TestC04Demo8IncidentalOld(t *testing.T) {
	var seen []*graph.DenseGraph
	prune := func(g *graph.DenseGraph) bool {
		seen = append(seen, g)
		return false
	}
	it := search.WithPruning(5, 0, 1, never8, prune)

	// Before the first Next: the empty graph, but (old) in an allocation large enough for 5 vertices.
	g0 := it.Value()
	t.Logf("before the first Next: %s cap(Edges)=%d cap(DegreeSequence)=%d", key8(g0), cap(g0.Edges), cap(g0.DegreeSequence))
	if cap(g0.Edges) != 10 || cap(g0.DegreeSequence) != 5 {
		t.Errorf("OLD behaviour gone: capacities before the first Next are %d and %d (old: 10 and 5)", cap(g0.Edges), cap(g0.DegreeSequence))
	}

	if !it.Next() {
		t.Fatal("no first graph")
	}
	held := it.Value()
	first := key8(held)
	if it.Value() != held {
		t.Fatalf("two calls of Value without Next in between gave different pointers")
	}
	if !it.Next() {
		t.Fatal("no second graph")
	}
	second := key8(it.Value())
	t.Logf("first graph %s, second graph %s, the value held since the first graph now reads %s", first, second, key8(held))
	if first == second {
		t.Fatal("first and second graph are equal")
	}
	// Old: the held pointer is the iterator's own graph, so it now shows the second graph and is what Value returns.
	if key8(held) != second {
		t.Errorf("OLD behaviour gone: a value held across Next used to follow the iterator, now it still reads %s", key8(held))
	}
	if it.Value() != held || g0 != held {
		t.Errorf("OLD behaviour gone: Value used to return one and the same pointer for the whole life of the iterator")
	}
	// Old: the callbacks are handed that very pointer too.
	for _, p := range seen {
		if p != held {
			t.Errorf("OLD behaviour gone: prune used to be called with the pointer that Value returns")
			break
		}
	}
	// Saving does not depend on any of this.
	var buf bytes.Buffer
	it.Save(&buf)
	ld := search.Load(&buf, never8, never8)
	a, b := drain8(ld), drain8(it)
	if !equal8(a, b) || len(a) != 32 {
		t.Fatalf("resume after two graphs: %d and %d graphs", len(a), len(b))
	}
}

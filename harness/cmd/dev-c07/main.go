// dev-c07 links only the C07 monitor (development builds).
package main

import (
	"verif/internal/cli"
	_ "verif/internal/props/c07"
)

func main() { cli.Main() }

// Demo for green change C06/6 (DenseGraph.AddVertex, and with it SplitEdge, grows the backing array of Edges
// geometrically through append instead of allocating exactly the new size on every call).
//
// Run (from the root of the mamba repository):
//
//	cp /tmp/green-out/C06/6/demo_test.go graph/zz_green_c06_6_demo_test.go
//	GOFLAGS=-mod=mod GOPROXY=off GOSUMDB=off GOTOOLCHAIN=local \
//	    go test -vet=off -count=1 -timeout 120s -run 'TestGreenC06_6' -v ./graph/
//	rm graph/zz_green_c06_6_demo_test.go
//
// TestGreenC06_6_Property      passes on the clean tree AND with the change: after every step of long random histories
//
//	of SplitEdge / Contract / AddVertex / RemoveVertex / AddEdge / RemoveEdge on dense graphs
//	(started from generators, NewDense with a caller slice, and zero-vertex graphs) the graph
//	is well formed, has len(Edges) = n(n-1)/2 and equals an independent map-based model;
//	a caller slice given to NewDense and overwritten later never shows through.
//
// TestGreenC06_6_OldIncidental passes on the clean tree, FAILS with the change: it pins the allocation behaviour of the
//
//	old implementation (cap(Edges) == len(Edges) after SplitEdge on a fresh graph, a new
//	backing array on every single AddVertex), which the documentation never promised (it
//	even says adding a vertex "may be quick if the backing array doesn't have to grow").
package graph_test

import (
	"fmt"
	"math/rand"
	"testing"

	"github.com/Tom-Johnston/mamba/graph"
)

func greenC06_6_wellFormed(g *graph.DenseGraph) error {
	n := g.N()
	if n != g.NumberOfVertices || len(g.Edges) != n*(n-1)/2 || len(g.DegreeSequence) != n {
		return fmt.Errorf("sizes: N %d, len(Edges) %d, len(DegreeSequence) %d", n, len(g.Edges), len(g.DegreeSequence))
	}
	m := 0
	deg := make([]int, n)
	for i := 0; i < n; i++ {
		if g.IsEdge(i, i) {
			return fmt.Errorf("loop at %d", i)
		}
		for j := 0; j < n; j++ {
			if g.IsEdge(i, j) != g.IsEdge(j, i) {
				return fmt.Errorf("not symmetric at %d,%d", i, j)
			}
			if g.IsEdge(i, j) {
				deg[i]++
				if i < j {
					m++
				}
			}
		}
	}
	if g.M() != m {
		return fmt.Errorf("M = %d but there are %d edges", g.M(), m)
	}
	d := g.Degrees()
	if len(d) != n {
		return fmt.Errorf("len(Degrees) = %d, N = %d", len(d), n)
	}
	for v := 0; v < n; v++ {
		if d[v] != deg[v] {
			return fmt.Errorf("Degrees[%d] = %d, adjacency says %d", v, d[v], deg[v])
		}
		seen := make(map[int]bool)
		nb := g.Neighbours(v)
		for _, u := range nb {
			if u < 0 || u >= n || !g.IsEdge(u, v) || seen[u] {
				return fmt.Errorf("Neighbours(%d) = %v does not match the adjacency", v, nb)
			}
			seen[u] = true
		}
		if len(nb) != deg[v] {
			return fmt.Errorf("Neighbours(%d) = %v, but the degree is %d", v, nb, deg[v])
		}
	}
	return nil
}

// greenC06_6_model is an independent adjacency-matrix model of the editing operations.
type greenC06_6_model [][]bool

func greenC06_6_modelOf(g graph.Graph) greenC06_6_model {
	n := g.N()
	a := make(greenC06_6_model, n)
	for i := range a {
		a[i] = make([]bool, n)
		for j := range a[i] {
			a[i][j] = g.IsEdge(i, j)
		}
	}
	return a
}

func (a greenC06_6_model) addVertex(nb []int) greenC06_6_model {
	n := len(a)
	for i := range a {
		a[i] = append(a[i], false)
	}
	a = append(a, make([]bool, n+1))
	for _, v := range nb {
		a[n][v], a[v][n] = true, true
	}
	return a
}

func (a greenC06_6_model) removeVertex(v int) greenC06_6_model {
	a = append(a[:v:v], a[v+1:]...)
	for i := range a {
		a[i] = append(a[i][:v:v], a[i][v+1:]...)
	}
	return a
}

func (a greenC06_6_model) equal(g graph.Graph) error {
	if g.N() != len(a) {
		return fmt.Errorf("N = %d, model has %d", g.N(), len(a))
	}
	for i := range a {
		for j := range a {
			if g.IsEdge(i, j) != a[i][j] {
				return fmt.Errorf("pair %d,%d: IsEdge = %v, model %v", i, j, g.IsEdge(i, j), a[i][j])
			}
		}
	}
	return nil
}

func TestGreenC06_6_Property(t *testing.T) {
	callerBytes := []byte{1, 0, 1, 1, 0, 1}
	starts := []func() *graph.DenseGraph{
		func() *graph.DenseGraph { return graph.NewDense(0, nil) },
		func() *graph.DenseGraph { return graph.NewDense(1, nil) },
		func() *graph.DenseGraph { return &graph.DenseGraph{} },
		func() *graph.DenseGraph {
			g := graph.NewDense(4, callerBytes)
			return g
		},
		func() *graph.DenseGraph { return graph.Path(10) },
		func() *graph.DenseGraph { return graph.CompleteGraph(6) },
		func() *graph.DenseGraph { return graph.RandomGraph(9, 0.5, 11) },
		func() *graph.DenseGraph { return graph.Cycle(5).Copy().(*graph.DenseGraph) },
		func() *graph.DenseGraph { return graph.Star(7).InducedSubgraph([]int{3, 0, 5}).(*graph.DenseGraph) },
	}
	for si, start := range starts {
		for seed := int64(0); seed < 6; seed++ {
			r := rand.New(rand.NewSource(seed*97 + int64(si)))
			g := start()
			a := greenC06_6_modelOf(g)
			for step := 0; step < 120; step++ {
				n := g.N()
				op := r.Intn(6)
				switch {
				case op == 0 && n >= 2: //SplitEdge
					i := r.Intn(n)
					j := (i + 1 + r.Intn(n-1)) % n
					graph.SplitEdge(g, i, j)
					a[i][j], a[j][i] = false, false
					a = a.addVertex([]int{i, j})
				case op == 1 && n >= 2: //Contract
					i := r.Intn(n)
					j := (i + 1 + r.Intn(n-1)) % n
					graph.Contract(g, i, j)
					for v := 0; v < n; v++ {
						if a[j][v] && v != i {
							a[i][v], a[v][i] = true, true
						}
					}
					a = a.removeVertex(j)
				case op == 2 && n < 16: //AddVertex with a random duplicate-free neighbour list
					var nb []int
					for v := 0; v < n; v++ {
						if r.Intn(2) == 0 {
							nb = append(nb, v)
						}
					}
					r.Shuffle(len(nb), func(x, y int) { nb[x], nb[y] = nb[y], nb[x] })
					g.AddVertex(nb)
					a = a.addVertex(nb)
				case op == 3 && n >= 1:
					v := r.Intn(n)
					g.RemoveVertex(v)
					a = a.removeVertex(v)
				case op == 4 && n >= 2:
					i, j := r.Intn(n), r.Intn(n)
					g.AddEdge(i, j)
					if i != j {
						a[i][j], a[j][i] = true, true
					}
				case op == 5 && n >= 2:
					i, j := r.Intn(n), r.Intn(n)
					g.RemoveEdge(i, j)
					a[i][j], a[j][i] = false, false
				default:
					continue
				}
				//The caller's slice is overwritten again and again; the graph must never notice.
				for k := range callerBytes {
					callerBytes[k] = byte(r.Intn(2))
				}
				if err := greenC06_6_wellFormed(g); err != nil {
					t.Fatalf("start %d seed %d step %d (op %d): %v", si, seed, step, op, err)
				}
				if err := a.equal(g); err != nil {
					t.Fatalf("start %d seed %d step %d (op %d): %v", si, seed, step, op, err)
				}
			}
			for k, b := range []byte{1, 0, 1, 1, 0, 1} {
				callerBytes[k] = b
			}
		}
	}
}

func TestGreenC06_6_OldIncidental(t *testing.T) {
	//1. After SplitEdge on a freshly generated graph the old implementation leaves no spare capacity.
	g := graph.Path(10)
	graph.SplitEdge(g, 3, 4)
	if err := greenC06_6_wellFormed(g); err != nil {
		t.Fatalf("not well formed: %v", err)
	}
	t.Logf("after SplitEdge(Path(10), 3, 4): len(Edges) = %d, cap(Edges) = %d", len(g.Edges), cap(g.Edges))
	if cap(g.Edges) != len(g.Edges) {
		t.Errorf("old implementation allocates exactly n(n-1)/2 bytes: cap %d != len %d", cap(g.Edges), len(g.Edges))
	}

	//2. Every AddVertex of the old implementation moves the adjacency matrix to a new backing array.
	h := graph.NewDense(2, nil)
	h.AddEdge(0, 1)
	moves := 0
	for k := 0; k < 30; k++ {
		before := &h.Edges[0]
		h.AddVertex([]int{0})
		if &h.Edges[0] != before {
			moves++
		}
	}
	if err := greenC06_6_wellFormed(h); err != nil {
		t.Fatalf("not well formed: %v", err)
	}
	t.Logf("30 calls of AddVertex moved the backing array %d times", moves)
	if moves != 30 {
		t.Errorf("old implementation reallocates on every call (30), got %d", moves)
	}
}

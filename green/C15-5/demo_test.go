// Demonstration for C15 / change 5 (ProductIterator.Next rewritten as a ripple-carry odometer that stops for good
// through the existing "empty" flag).
//
// Run (from the root of the library, offline):
//
//	export GOFLAGS=-mod=mod GOPROXY=off GOSUMDB=off GOTOOLCHAIN=local
//	cp /tmp/green-out/C15/5/demo_test.go itertools/zz_c15_demo5_test.go
//	go test -vet=off -count=1 -timeout 300s -run 'TestC15Demo5' -v ./itertools/
//	rm itertools/zz_c15_demo5_test.go
//
// TestC15Demo5Property checks the property itself for Product: for every list of 0..4 factors with every factor in
// {0, 1, 2, 3} (and a few longer / larger lists) the iterator yields exactly the tuples of the product, each once, in
// lexicographic order (what the clean tree does), every value copied while it is current, and Next returns false on
// each of 5 further calls.  The caller's argument slice is changed after construction to check it was copied.  It
// passes on the clean tree AND with the change.
// TestC15Demo5IncidentalAfterExhaustion asserts the OLD content of Value() at moments when no element is current:
// after Next has returned false the old iterator still shows the last tuple (n[0]-1, ..., n[m-1]-1), and an iterator
// over a product with a zero factor keeps counting through the other coordinates while it reports false.  It passes on
// the clean tree and FAILS with the change (the state has wrapped round to (0, ..., 0), resp. is never touched).
package itertools_test

import (
	"fmt"
	"testing"

	"github.com/Tom-Johnston/mamba/itertools"
)

// c15d5Model lists the product in lexicographic order by plain recursion.
func c15d5Model(n []int) [][]int {
	if len(n) == 0 {
		return [][]int{{}}
	}
	var out [][]int
	for _, rest := range c15d5Model(n[:len(n)-1]) {
		for x := 0; x < n[len(n)-1]; x++ {
			t := append(append([]int{}, rest...), x)
			out = append(out, t)
		}
	}
	return out
}

func c15d5Check(t *testing.T, n []int) {
	want := c15d5Model(n)
	arg := append([]int{}, n...)
	it := itertools.Product(arg...)
	for i := range arg {
		arg[i] = 7
	}
	var got [][]int
	for it.Next() {
		got = append(got, append([]int{}, it.Value()...))
		if len(got) > len(want) {
			t.Fatalf("Product(%v): more than %d elements", n, len(want))
		}
	}
	if fmt.Sprint(got) != fmt.Sprint(want) {
		t.Fatalf("Product(%v): got %v want %v", n, got, want)
	}
	for i := 0; i < 5; i++ {
		if it.Next() {
			t.Fatalf("Product(%v): Next returned true after exhaustion (extra call %d)", n, i)
		}
	}
}

func TestC15Demo5Property(t *testing.T) {
	cases := 0
	for m := 0; m <= 4; m++ {
		total := 1
		for i := 0; i < m; i++ {
			total *= 4
		}
		for code := 0; code < total; code++ {
			n := make([]int, m)
			c := code
			for i := range n {
				n[i] = c % 4
				c /= 4
			}
			c15d5Check(t, n)
			cases++
		}
	}
	for _, n := range [][]int{{1, 1, 1, 1, 1, 1}, {2, 2, 2, 2, 2, 2, 2}, {5, 1, 4}, {7}, {1}, {0}, {3, 4, 5, 2}, {2, 0, 0, 2}, {6, 6, 6}} {
		c15d5Check(t, n)
		cases++
	}
	t.Logf("checked %d factor lists", cases)
}

func TestC15Demo5IncidentalAfterExhaustion(t *testing.T) {
	it := itertools.Product(3, 3, 2)
	count := 0
	for it.Next() {
		count++
	}
	if count != 18 {
		t.Fatalf("Product(3,3,2) has %d elements", count)
	}
	after := fmt.Sprint(it.Value())
	t.Logf("Value() after Next returned false on Product(3,3,2): %s", after)
	if after != "[2 2 1]" {
		t.Errorf("old behaviour: the state stays on the last tuple [2 2 1]; got %s", after)
	}

	z := itertools.Product(2, 0, 3)
	var seen []string
	for i := 0; i < 5; i++ {
		if z.Next() {
			t.Fatalf("Product(2,0,3) yielded something")
		}
		seen = append(seen, fmt.Sprint(z.Value()))
	}
	t.Logf("Value() of Product(2,0,3) after each of 5 calls of Next (all false): %v", seen)
	if fmt.Sprint(seen) != "[[0 0 0] [0 0 1] [0 0 2] [1 0 0] [1 0 1]]" {
		t.Errorf("old behaviour: the state counts on while Next reports false; got %v", seen)
	}
}

// Demo for C16 change 3 (Coeffs adds with an overflow check and panics instead of silently wrapping).
//
// Run (from the root of the mamba worktree, offline):
//
//	export GOFLAGS=-mod=mod GOPROXY=off GOSUMDB=off GOTOOLCHAIN=local
//	cp /tmp/green-out/C16/3/demo_test.go comb/c16_demo_test.go
//	go test -vet=off -count=1 -timeout 120s -run 'TestC16Demo' -v ./comb/ ; rm comb/c16_demo_test.go
//
// TestC16DemoProperty checks the property itself: Coeffs(n) is Pascal's triangle (exact values, documented layout
// m = 0..n, k = 0..m/2) for every n for which that is possible at all with an int, i.e. n <= 66, plus
// Coeff/CoeffUint64 exact-or-panic and Rank/Unrank against CombinationsColex on a few inputs.
// PASSES before and after the change.
// TestC16DemoIncidentalOldBehaviour asserts the OLD incidental behaviour for n >= 67 (where C(67,33) > MaxInt64 so
// no [][]int can be Pascal's triangle): Coeffs returns without panicking and the entries are the true values
// reduced modulo 2^64, the recurrence holding in wrapping int arithmetic.  PASSES on the clean tree, FAILS with
// the change (Coeffs(67) panics "coeff does not fit in an int").
package comb_test

import (
	"math/big"
	"testing"

	"github.com/Tom-Johnston/mamba/comb"
	"github.com/Tom-Johnston/mamba/itertools"
)

func c16Coeffs(n int) (rows [][]int, p interface{}) {
	defer func() { p = recover() }()
	return comb.Coeffs(n), nil
}

func TestC16DemoProperty(t *testing.T) {
	if ^uint(0)>>63 != 1 {
		t.Skip("demo written for 64-bit ints")
	}
	//Coeffs(n) is Pascal's triangle for every n where all entries fit.
	for n := 0; n <= 66; n++ {
		rows, p := c16Coeffs(n)
		if p != nil {
			t.Fatalf("Coeffs(%d) panicked: %v", n, p)
		}
		if len(rows) != n+1 {
			t.Fatalf("Coeffs(%d) has %d rows", n, len(rows))
		}
		for m, row := range rows {
			if len(row) != m/2+1 {
				t.Fatalf("Coeffs(%d)[%d] has length %d", n, m, len(row))
			}
			for k, v := range row {
				want := new(big.Int).Binomial(int64(m), int64(k))
				if !want.IsInt64() || want.Int64() != int64(v) {
					t.Fatalf("Coeffs(%d)[%d][%d] = %d, want %v", n, m, k, v, want)
				}
			}
		}
	}
	//Coeff and CoeffUint64 are untouched: exact on the table and around the centre.
	for n := 0; n <= 64; n++ {
		for k := 0; k <= n; k++ {
			func() {
				defer func() { recover() }()
				got := comb.CoeffUint64(uint64(n), uint64(k))
				want := new(big.Int).Binomial(int64(n), int64(k))
				if !want.IsUint64() || want.Uint64() != got {
					t.Fatalf("CoeffUint64(%d,%d) = %d, want %v", n, k, got, want)
				}
			}()
		}
	}
	//Rank and Unrank against CombinationsColex.
	for n := 0; n <= 9; n++ {
		for k := 0; k <= n; k++ {
			it := itertools.CombinationsColex(n, k)
			idx := 0
			for it.Next() {
				v := it.Value()
				if r := comb.Rank(v); r != idx {
					t.Fatalf("Rank(%v) = %d, want %d", v, r, idx)
				}
				u := comb.Unrank(idx, k)
				if len(u) != len(v) {
					t.Fatalf("Unrank(%d,%d) = %v, want %v", idx, k, u, v)
				}
				for i := range u {
					if u[i] != v[i] {
						t.Fatalf("Unrank(%d,%d) = %v, want %v", idx, k, u, v)
					}
				}
				idx++
			}
			if idx != comb.Coeff(n, k) {
				t.Fatalf("CombinationsColex(%d,%d) gave %d sets", n, k, idx)
			}
		}
	}
}

func TestC16DemoIncidentalOldBehaviour(t *testing.T) {
	if ^uint(0)>>63 != 1 {
		t.Skip("demo written for 64-bit ints")
	}
	mod := new(big.Int).Lsh(big.NewInt(1), 64)
	for _, n := range []int{67, 70, 100} {
		rows, p := c16Coeffs(n)
		if p != nil {
			t.Errorf("OLD behaviour gone: Coeffs(%d) panicked with %v instead of returning wrapped entries", n, p)
			continue
		}
		for m, row := range rows {
			for k, v := range row {
				//The old code wraps: every entry is the true value modulo 2^64.
				want := new(big.Int).Binomial(int64(m), int64(k))
				want.Mod(want, mod)
				if want.Uint64() != uint64(v) {
					t.Errorf("Coeffs(%d)[%d][%d] = %d is not C(%d,%d) mod 2^64", n, m, k, v, m, k)
				}
			}
		}
	}
	//One pinned value: C(67,33) = 14226520737620288370 wraps to a negative int.
	rows, p := c16Coeffs(67)
	if p == nil {
		if got := rows[67][33]; got != -4220223336089263246 {
			t.Errorf("Coeffs(67)[67][33] = %d, old code gives -4220223336089263246", got)
		}
	}
}

// Demonstration for C11-8 (BiconnectedComponents returns exact-size blocks and no longer reserves room for n
// vertices for every block: linear instead of quadratic memory when IsPlanar meets a graph with many blocks).
//
// Run (from the root of the library; public API only):
//
//	cp /tmp/green-out/C11/8/demo_test.go graph/zz_c11_8_demo_test.go
//	GOFLAGS=-mod=mod GOPROXY=off GOSUMDB=off GOTOOLCHAIN=local \
//	    go test -vet=off -count=1 -timeout 300s -run 'TestC11x8' -v ./graph/
//	rm graph/zz_c11_8_demo_test.go
//
// TestC11x8Property  passes on the clean tree AND with the change (the property itself).
// TestC11x8Incidental asserts the OLD incidental behaviour: passes on the clean tree, FAILS with the change.
package graph_test

import (
	"fmt"
	"runtime"
	"testing"

	"github.com/Tom-Johnston/mamba/graph"
	"github.com/Tom-Johnston/mamba/sortints"
)

// c118Chain builds a connected graph with many blocks: `wheels` wheels W5 (hub + 5-cycle, 6 vertices, planar) glued in
// a chain at cut vertices, followed by a pendant path with `tail` edges.  With k5 a K5 is glued on at the far end.
func c118Chain(wheels, tail int, k5 bool) *graph.SparseGraph {
	n := 1 + 5*wheels + tail
	if k5 {
		n += 4
	}
	nb := make([]sortints.SortedInts, n)
	add := func(a, b int) { nb[a].Add(b); nb[b].Add(a) }
	next := 1
	cut := 0 // the vertex shared with the previous block; it is a rim vertex of the next wheel
	for w := 0; w < wheels; w++ {
		hub := next
		rim := []int{cut, next + 1, next + 2, next + 3, next + 4}
		next += 5
		for i := range rim {
			add(hub, rim[i])
			add(rim[i], rim[(i+1)%5])
		}
		cut = rim[2]
	}
	for i := 0; i < tail; i++ {
		add(cut, next)
		cut = next
		next++
	}
	if k5 {
		vs := []int{cut, next, next + 1, next + 2, next + 3}
		for i := range vs {
			for j := i + 1; j < 5; j++ {
				add(vs[i], vs[j])
			}
		}
	}
	return graph.NewSparse(n, nb)
}

func c118Alloc(f func()) uint64 {
	var a, b runtime.MemStats
	runtime.GC()
	runtime.ReadMemStats(&a)
	f()
	runtime.ReadMemStats(&b)
	return b.TotalAlloc - a.TotalAlloc
}

// The property: right answers, no panic, on large graphs with very many blocks; the K5 sits far from where the
// search starts.  Also: the blocks handed out are the caller's (appending to them must not disturb anything).
func TestC11x8Property(t *testing.T) {
	for _, c := range []struct {
		wheels, tail int
		k5           bool
	}{{3, 2, false}, {3, 2, true}, {200, 1000, false}, {200, 1000, true}, {0, 2500, false}, {0, 2500, true}} {
		g := c118Chain(c.wheels, c.tail, c.k5)
		if got := graph.IsPlanar(g); got != !c.k5 {
			t.Errorf("wheels=%d tail=%d k5=%v: IsPlanar = %v", c.wheels, c.tail, c.k5, got)
		}
		bc, _ := graph.BiconnectedComponents(g)
		want := c.wheels + c.tail
		if c.k5 {
			want++
		}
		if len(bc) != want {
			t.Errorf("wheels=%d tail=%d k5=%v: %d blocks, want %d", c.wheels, c.tail, c.k5, len(bc), want)
		}
		snapshot := fmt.Sprint(bc)
		for i := range bc {
			_ = append(bc[i], -1) // the caller appends to results it was given
		}
		if fmt.Sprint(bc) != snapshot {
			t.Errorf("appending to one block changed another")
		}
		if got := graph.IsPlanar(g); got != !c.k5 {
			t.Errorf("second call: IsPlanar = %v", got)
		}
	}
}

// The incidental behaviour of the clean tree: every block returned by BiconnectedComponents has room for all the
// vertices of its connected component, so IsPlanar allocates about 8*n*(number of blocks) bytes on a graph with many
// blocks (a path on 2501 vertices: ~50 MB).
func TestC11x8Incidental(t *testing.T) {
	g := c118Chain(0, 2500, false) // a path on 2501 vertices: 2500 blocks
	bc, _ := graph.BiconnectedComponents(g)
	fmt.Println("blocks:", len(bc), "len/cap of the first:", len(bc[0]), cap(bc[0]))
	if cap(bc[0]) != g.N() {
		t.Errorf("cap of a block is %d, the clean tree reserves %d", cap(bc[0]), g.N())
	}
	var planar bool
	bytes := c118Alloc(func() { planar = graph.IsPlanar(g) })
	fmt.Printf("IsPlanar(path on %d vertices) = %v allocated %.1f MB\n", g.N(), planar, float64(bytes)/(1<<20))
	if !planar {
		t.Errorf("a path is planar") // holds on both trees
	}
	if bytes < 20<<20 {
		t.Errorf("IsPlanar allocated only %d bytes; the clean tree allocates about 8*n*n = %d", bytes, 8*g.N()*g.N())
	}
}

// Demonstration for C20, change 1 (LIB sends its whole output through one bufio.Writer).
//
// Run (from the root of the library, after copying this file into the tsp directory):
//
//	cp demo_test.go <repo>/tsp/c20_demo_test.go
//	cd <repo> && GOFLAGS=-mod=mod GOPROXY=off GOSUMDB=off GOTOOLCHAIN=local go test -vet=off -count=1 -timeout 600s -run 'TestC20Demo' -v ./tsp
//
// TestC20DemoProperty checks the property itself (well formed and faithful output for several n and weight functions,
// arguments of weights in range, a non-nil error whenever some Write of the underlying writer failed; the failing
// positions are taken from the number of Write calls of a successful run of the SAME build, they are not hard coded)
// and passes before and after the change.
// TestC20DemoIncidentalWrites pins the OLD way the bytes reach the writer (header as three separate Writes, the first
// being "TYPE: TSP\n"; a failure of the 2nd Write call exists and leaves exactly the first header line behind) and
// therefore passes on the clean tree and fails with the change (one single Write carries everything, a "2nd Write"
// never happens and LIB rightly returns nil for a complete output).
package tsp_test

import (
	"errors"
	"fmt"
	"strconv"
	"strings"
	"testing"

	"github.com/Tom-Johnston/mamba/tsp"
)

var errC20Injected = errors.New("c20 demo: injected write failure")

// c20Writer records every Write. The failAt-th Write call (1-based, 0 = never) fails; if permanent every later call
// fails too. A failing call accepts short bytes of its argument (clipped to len(p)) before reporting the error.
type c20Writer struct {
	calls     int
	chunks    []string
	failAt    int
	permanent bool
	short     int
	failed    bool
}

func (w *c20Writer) Write(p []byte) (int, error) {
	w.calls++
	if w.failAt > 0 && (w.calls == w.failAt || (w.permanent && w.calls > w.failAt)) {
		w.failed = true
		k := w.short
		if k > len(p) {
			k = len(p)
		}
		w.chunks = append(w.chunks, string(p[:k]))
		return k, errC20Injected
	}
	w.chunks = append(w.chunks, string(p))
	return len(p), nil
}

func (w *c20Writer) String() string { return strings.Join(w.chunks, "") }

// c20Check parses out as the TSPLIB problem that LIB has to produce for n and weights.
func c20Check(out string, n int, weights func(i, j int) int) error {
	lines := strings.Split(out, "\n")
	if len(lines) == 0 || lines[len(lines)-1] != "" {
		return fmt.Errorf("output does not end with a newline")
	}
	lines = lines[:len(lines)-1]
	header := []string{"TYPE: TSP", "DIMENSION: " + strconv.Itoa(n), "DISPLAY_DATA_TYPE: NO_DISPLAY", "EDGE_WEIGHT_TYPE: EXPLICIT", "EDGE_WEIGHT_FORMAT: LOWER_DIAG_ROW", "EDGE_WEIGHT_SECTION"}
	if len(lines) != len(header)+n+1 {
		return fmt.Errorf("%d lines, want %d", len(lines), len(header)+n+1)
	}
	for k, h := range header {
		if lines[k] != h {
			return fmt.Errorf("header line %d is %q, want %q", k, lines[k], h)
		}
	}
	for i := 0; i < n; i++ {
		fields := strings.Fields(lines[len(header)+i])
		if len(fields) != i+1 {
			return fmt.Errorf("row %d has %d entries", i, len(fields))
		}
		for j, f := range fields {
			v, err := strconv.Atoi(f)
			if err != nil {
				return fmt.Errorf("row %d entry %d: %v", i, j, err)
			}
			want := 0
			if j < i {
				want = weights(i, j)
			}
			if v != want {
				return fmt.Errorf("row %d entry %d is %d, want %d", i, j, v, want)
			}
		}
	}
	if lines[len(lines)-1] != "EOF" {
		return fmt.Errorf("last line is %q, want EOF", lines[len(lines)-1])
	}
	return nil
}

type c20Weights struct {
	name string
	f    func(i, j int) int
}

func c20WeightFunctions() []c20Weights {
	return []c20Weights{
		{"golden", func(i, j int) int {
			if i > j {
				return 100*j + i
			}
			return 100*i + j
		}},
		{"negative", func(i, j int) int { return -(7*i + 3*j + 1) }},
		{"large", func(i, j int) int { return (1<<62 - 1) - 1000003*i - j }},
		{"asymmetric", func(i, j int) int { return (i-2*j)*(i+5) - 40 }},
		{"mixed widths", func(i, j int) int {
			v := 1
			for k := 0; k < (i*i+j)%17; k++ {
				v *= 10
			}
			if (i+j)%3 == 0 {
				v = -v
			}
			return v
		}},
	}
}

// c20Guard wraps weights and records calls with arguments outside 0 <= j < i < n.
func c20Guard(n int, f func(i, j int) int, bad *[]string) func(i, j int) int {
	return func(i, j int) int {
		if !(0 <= j && j < i && i < n) {
			*bad = append(*bad, fmt.Sprintf("(%d,%d)", i, j))
		}
		return f(i, j)
	}
}

func TestC20DemoProperty(t *testing.T) {
	for _, wf := range c20WeightFunctions() {
		for _, n := range []int{0, 1, 2, 3, 5, 11, 24, 90} {
			var bad []string
			good := &c20Writer{}
			err := tsp.LIB(good, n, c20Guard(n, wf.f, &bad))
			if err != nil {
				t.Fatalf("%s n=%d: error %v on a writer that does not fail", wf.name, n, err)
			}
			if err := c20Check(good.String(), n, wf.f); err != nil {
				t.Fatalf("%s n=%d: %v", wf.name, n, err)
			}
			if len(bad) > 0 {
				t.Fatalf("%s n=%d: weights called outside 0 <= j < i < n: %v", wf.name, n, bad)
			}
			// Failing Write at every position that exists in this build (all of them for small n, a sample for n = 90),
			// and a few positions that do not exist.
			positions := []int{}
			for k := 1; k <= good.calls+2; k++ {
				if n <= 24 || k <= 8 || k > good.calls-8 || k%97 == 0 {
					positions = append(positions, k)
				}
			}
			for _, k := range positions {
				for _, permanent := range []bool{false, true} {
					for _, short := range []int{0, 1, 1 << 30} {
						var bad []string
						w := &c20Writer{failAt: k, permanent: permanent, short: short}
						err := tsp.LIB(w, n, c20Guard(n, wf.f, &bad))
						if w.failed && err == nil {
							t.Fatalf("%s n=%d: Write call %d failed (permanent=%v short=%d) but LIB returned nil", wf.name, n, k, permanent, short)
						}
						if err == nil {
							if cerr := c20Check(w.String(), n, wf.f); cerr != nil {
								t.Fatalf("%s n=%d failAt=%d: LIB returned nil but the output is wrong: %v", wf.name, n, k, cerr)
							}
						}
						if len(bad) > 0 {
							t.Fatalf("%s n=%d failAt=%d: weights called outside 0 <= j < i < n: %v", wf.name, n, k, bad)
						}
					}
				}
			}
		}
	}
}

func TestC20DemoIncidentalWrites(t *testing.T) {
	wf := c20WeightFunctions()[0].f
	n := 3
	good := &c20Writer{}
	if err := tsp.LIB(good, n, wf); err != nil {
		t.Fatal(err)
	}
	t.Logf("successful run: %d Write calls with sizes %v", good.calls, c20Sizes(good.chunks))
	if good.chunks[0] != "TYPE: TSP\n" {
		t.Errorf("OLD behaviour: the first Write carries exactly %q; got %q", "TYPE: TSP\n", good.chunks[0])
	}
	if good.calls < 5 {
		t.Errorf("OLD behaviour: three header Writes, the weight section in pieces and the trailer, i.e. at least 5 Write calls; got %d", good.calls)
	}
	w := &c20Writer{failAt: 2}
	err := tsp.LIB(w, n, wf)
	t.Logf("2nd Write call failing: err=%v, %d Write calls, received %q", err, w.calls, w.String())
	if err == nil {
		// Not a violation of the property: the 2nd Write call never happened, nothing failed, the output is complete.
		if w.failed || c20Check(w.String(), n, wf) != nil {
			t.Fatalf("PROPERTY violated: nil error for a failed or incomplete output")
		}
		t.Errorf("OLD behaviour: a 2nd Write call exists and its failure is reported; got nil (only %d Write call(s) were made)", w.calls)
	} else if w.String() != "TYPE: TSP\n" {
		t.Errorf("OLD behaviour: after the failure of the 2nd Write the writer holds exactly the first header line; got %q", w.String())
	}
}

func c20Sizes(chunks []string) []int {
	s := make([]int, len(chunks))
	for i, c := range chunks {
		s[i] = len(c)
	}
	return s
}

// Demo for C06 change 1 (NewDense normalises the edge bytes of its private copy to 1).
//
// Run (from the root of the library worktree):
//
//	cp /tmp/green-out/C06/1/demo_test.go graph/zz_c06_demo1_test.go
//	GOFLAGS=-mod=mod GOPROXY=off GOSUMDB=off GOTOOLCHAIN=local go test -vet=off -count=1 -timeout 120s -run 'TestC06Demo1' -v ./graph/
//	rm graph/zz_c06_demo1_test.go
//
// TestC06Demo1Property checks the property itself (well-formedness, agreement with the adjacency the caller
// described, independence from later modifications of the caller's slice) and passes on the clean tree AND with the
// change.  TestC06Demo1IncidentalOldBytes asserts the OLD incidental behaviour (the private copy keeps the caller's
// byte values verbatim); it passes on the clean tree and FAILS with the change.
package graph_test

import (
	"bytes"
	"sort"
	"testing"

	"github.com/Tom-Johnston/mamba/graph"
)

// the inputs: n and an edge slice using assorted non-zero markers.
var c06demo1Inputs = []struct {
	n     int
	edges []byte
}{
	{0, []byte{}},
	{1, []byte{}},
	{2, []byte{7}},
	{3, []byte{2, 0, 255}},
	{4, []byte{1, 0, 3, 0, 128, 9}},
	{5, []byte{0, 200, 0, 1, 1, 0, 0, 0, 77, 2}},
}

func c06demo1Check(t *testing.T, g *graph.DenseGraph, n int, want []byte) {
	t.Helper()
	if g.N() != n {
		t.Fatalf("N = %d, want %d", g.N(), n)
	}
	m := 0
	deg := make([]int, n)
	for j := 0; j < n; j++ {
		if g.IsEdge(j, j) {
			t.Fatalf("loop at %d", j)
		}
		for i := 0; i < j; i++ {
			e := want[(j*(j-1))/2+i] != 0
			if g.IsEdge(i, j) != e || g.IsEdge(j, i) != e {
				t.Fatalf("IsEdge(%d,%d)=%v IsEdge(%d,%d)=%v, want %v", i, j, g.IsEdge(i, j), j, i, g.IsEdge(j, i), e)
			}
			if e {
				m++
				deg[i]++
				deg[j]++
			}
		}
	}
	if g.M() != m {
		t.Fatalf("M = %d, want %d", g.M(), m)
	}
	d := g.Degrees()
	if len(d) != n {
		t.Fatalf("len(Degrees) = %d, want %d", len(d), n)
	}
	for v := 0; v < n; v++ {
		if d[v] != deg[v] {
			t.Fatalf("Degrees[%d] = %d, want %d", v, d[v], deg[v])
		}
		nb := append([]int(nil), g.Neighbours(v)...)
		sort.Ints(nb)
		var wantNb []int
		for u := 0; u < n; u++ {
			if u != v && g.IsEdge(u, v) {
				wantNb = append(wantNb, u)
			}
		}
		if len(nb) != len(wantNb) {
			t.Fatalf("Neighbours(%d) = %v, want %v", v, nb, wantNb)
		}
		for k := range nb {
			if nb[k] != wantNb[k] {
				t.Fatalf("Neighbours(%d) = %v, want %v", v, nb, wantNb)
			}
		}
	}
}

func TestC06Demo1Property(t *testing.T) {
	for _, in := range c06demo1Inputs {
		orig := append([]byte{}, in.edges...)
		mine := append([]byte{}, in.edges...)
		g := graph.NewDense(in.n, mine)
		c06demo1Check(t, g, in.n, orig)
		// the caller now scribbles over its slice: the graph must not change.
		for i := range mine {
			if mine[i] == 0 {
				mine[i] = 1
			} else {
				mine[i] = 0
			}
		}
		c06demo1Check(t, g, in.n, orig)
	}
}

func TestC06Demo1IncidentalOldBytes(t *testing.T) {
	for _, in := range c06demo1Inputs {
		g := graph.NewDense(in.n, append([]byte{}, in.edges...))
		t.Logf("n=%d input=%v stored=%v", in.n, in.edges, g.Edges)
		if !bytes.Equal(g.Edges, in.edges) {
			t.Errorf("n=%d: stored bytes %v are not the caller's bytes %v verbatim", in.n, g.Edges, in.edges)
		}
	}
}

// dev-c08 links only the C08 monitor (development builds).
package main

import (
	"verif/internal/cli"
	_ "verif/internal/props/c08"
)

func main() { cli.Main() }

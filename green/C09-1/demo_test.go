// Demo for C09 change 1: Degeneracy rewritten with the array based bucket queue of Batagelj and Zaversnik.
//
// Run (from the root of the library worktree, offline):
//
//	export GOFLAGS=-mod=mod GOPROXY=off GOSUMDB=off GOTOOLCHAIN=local
//	mkdir -p greendemo && cp /tmp/green-out/C09/1/demo_test.go greendemo/demo_test.go
//	go test -vet=off -count=1 -timeout 600s -v ./greendemo
//	rm -r greendemo
//
// TestIncidentalDegeneracyOrder asserts the exact ordering the OLD implementation returns (which of the many valid
// degeneracy orderings): it PASSES on the clean tree and FAILS with the change.
// TestPropertyDegeneracy checks what C09 actually demands of Degeneracy (true degeneracy, certifying ordering, same
// value for every labelling and representation): it PASSES on both trees.
package greendemo

import (
	"fmt"
	"math/rand"
	"testing"

	"github.com/Tom-Johnston/mamba/graph"
	"github.com/Tom-Johnston/mamba/sortints"
)

// fromMask builds the adjacency matrix of the labelled graph on n vertices whose edge {i,j}, i<j, is present when
// bit j(j-1)/2+i of mask is set.
func fromMask(n int, mask uint64) [][]bool {
	adj := make([][]bool, n)
	for i := range adj {
		adj[i] = make([]bool, n)
	}
	for j := 1; j < n; j++ {
		for i := 0; i < j; i++ {
			if mask&(1<<uint(j*(j-1)/2+i)) != 0 {
				adj[i][j] = true
				adj[j][i] = true
			}
		}
	}
	return adj
}

func dense(adj [][]bool) *graph.DenseGraph {
	n := len(adj)
	g := graph.NewDense(n, nil)
	for j := 1; j < n; j++ {
		for i := 0; i < j; i++ {
			if adj[i][j] {
				g.AddEdge(i, j)
			}
		}
	}
	return g
}

func sparse(adj [][]bool) *graph.SparseGraph {
	n := len(adj)
	nbrs := make([]sortints.SortedInts, n)
	for i := 0; i < n; i++ {
		nbrs[i] = sortints.SortedInts{}
		for j := 0; j < n; j++ {
			if adj[i][j] {
				nbrs[i] = append(nbrs[i], j)
			}
		}
	}
	return graph.NewSparse(n, nbrs)
}

// representations returns the same labelled graph as a dense graph, a sparse graph, the complement view of the dense
// complement and an induced-subgraph view on all the vertices.
func representations(adj [][]bool) map[string]graph.Graph {
	n := len(adj)
	all := make([]int, n)
	for i := range all {
		all[i] = i
	}
	return map[string]graph.Graph{
		"dense":           dense(adj),
		"sparse":          sparse(adj),
		"complement view": graph.Complement(graph.ComplementDense(dense(adj))),
		"induced view":    graph.InducedSubgraph(sparse(adj), all),
	}
}

// bruteDegeneracy is the maximum over the non-empty vertex subsets S of the minimum degree of G[S].
func bruteDegeneracy(adj [][]bool) int {
	n := len(adj)
	best := 0
	for s := 1; s < 1<<uint(n); s++ {
		min := n
		for v := 0; v < n; v++ {
			if s&(1<<uint(v)) == 0 {
				continue
			}
			d := 0
			for u := 0; u < n; u++ {
				if s&(1<<uint(u)) != 0 && adj[u][v] {
					d++
				}
			}
			if d < min {
				min = d
			}
		}
		if min > best {
			best = min
		}
	}
	return best
}

// certifies reports an error unless order is a permutation of the vertices in which no vertex is preceded by more
// than d of its neighbours.
func certifies(adj [][]bool, d int, order []int) error {
	n := len(adj)
	if len(order) != n {
		return fmt.Errorf("order %v has length %d, want %d", order, len(order), n)
	}
	seen := make([]bool, n)
	for i, v := range order {
		if v < 0 || v >= n || seen[v] {
			return fmt.Errorf("order %v is not a permutation", order)
		}
		seen[v] = true
		before := 0
		for _, u := range order[:i] {
			if adj[u][v] {
				before++
			}
		}
		if before > d {
			return fmt.Errorf("vertex %d is preceded by %d > %d neighbours in %v", v, before, d, order)
		}
	}
	return nil
}

func relabel(adj [][]bool, perm []int) [][]bool {
	n := len(adj)
	out := make([][]bool, n)
	for i := range out {
		out[i] = make([]bool, n)
	}
	for i := 0; i < n; i++ {
		for j := 0; j < n; j++ {
			out[perm[i]][perm[j]] = adj[i][j]
		}
	}
	return out
}

func TestPropertyDegeneracy(t *testing.T) {
	//Every labelled graph on at most 6 vertices, every representation.
	for n := 0; n <= 6; n++ {
		for mask := uint64(0); mask < 1<<uint(n*(n-1)/2); mask++ {
			adj := fromMask(n, mask)
			want := bruteDegeneracy(adj)
			for name, g := range representations(adj) {
				d, order := graph.Degeneracy(g)
				if d != want {
					t.Fatalf("n=%d mask=%d %s: Degeneracy = %d, want %d", n, mask, name, d, want)
				}
				if err := certifies(adj, d, order); err != nil {
					t.Fatalf("n=%d mask=%d %s: %v", n, mask, name, err)
				}
			}
		}
	}
	//Random larger graphs and random relabellings.
	rng := rand.New(rand.NewSource(9))
	for iter := 0; iter < 300; iter++ {
		n := 7 + rng.Intn(8)
		p := rng.Float64()
		adj := make([][]bool, n)
		for i := range adj {
			adj[i] = make([]bool, n)
		}
		for j := 1; j < n; j++ {
			for i := 0; i < j; i++ {
				if rng.Float64() < p {
					adj[i][j], adj[j][i] = true, true
				}
			}
		}
		want := bruteDegeneracy(adj)
		for r := 0; r < 3; r++ {
			b := adj
			if r > 0 {
				b = relabel(adj, rng.Perm(n))
			}
			for name, g := range representations(b) {
				d, order := graph.Degeneracy(g)
				if d != want {
					t.Fatalf("random %d relabelling %d %s: Degeneracy = %d, want %d", iter, r, name, d, want)
				}
				if err := certifies(b, d, order); err != nil {
					t.Fatalf("random %d relabelling %d %s: %v", iter, r, name, err)
				}
			}
		}
	}
}

func TestIncidentalDegeneracyOrder(t *testing.T) {
	cases := []struct {
		name string
		g    graph.Graph
		d    int
		old  []int
	}{
		{"empty graph on 4 vertices", graph.NewDense(4, nil), 0, []int{0, 1, 2, 3}},
		{"Path(5)", graph.Path(5), 1, []int{0, 1, 2, 3, 4}},
		{"Cycle(6)", graph.Cycle(6), 2, []int{0, 1, 2, 3, 4, 5}},
		{"Star(5)", graph.Star(5), 1, []int{1, 0, 2, 3, 4}},
		{"Petersen", graph.KneserGraph(5, 2), 3, []int{3, 7, 1, 4, 8, 0, 5, 6, 2, 9}},
		{"sparse Path(5)", sparse(fromMask(5, 1|1<<2|1<<5|1<<9)), 1, []int{0, 1, 2, 3, 4}},
	}
	for _, c := range cases {
		d, order := graph.Degeneracy(c.g)
		t.Logf("%s: d=%d order=%v", c.name, d, order)
		if d != c.d {
			t.Errorf("%s: degeneracy %d, want %d (this would be a real defect)", c.name, d, c.d)
		}
		if fmt.Sprint(order) != fmt.Sprint(c.old) {
			t.Errorf("%s: ordering %v differs from the ordering %v of the old implementation (incidental)", c.name, order, c.old)
		}
	}
}

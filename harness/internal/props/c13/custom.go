package c13

// User-defined searchers.  The Searcher interface is public, so "all
// combinations of searchers" includes searchers written by the user of the
// library.  This file drives Search with harness-written searchers (alone and
// combined with the library's), records the callback protocol and checks it,
// starts complete searches from inside the callbacks of a running search
// (same Dawg and another Dawg), and compares searches on a Dawg that has been
// searched before with searches on a freshly built one.

import (
	"bytes"
	"fmt"
	"strings"

	"github.com/Tom-Johnston/mamba/dawg"

	"verif/internal/engine"
	"verif/internal/oracle/refdawg"
	"verif/internal/props/c12"
	"verif/internal/props/c12/dawgx"
)

// ---- conditions: a reference predicate and a way to make a searcher for it ----

type cond interface {
	Match(w []byte) bool
	String() string
	New() dawg.Searcher // library constructors are called here: only inside c.Call
}

// libCond is one of the library's searchers.
type libCond struct{ q refdawg.Query }

func (l libCond) Match(w []byte) bool { return l.q.Match(w) }
func (l libCond) String() string      { return "library " + l.q.String() }
func (l libCond) New() dawg.Searcher {
	t := append([]byte{}, l.q.Text...)
	if l.q.Kind == 'p' {
		return dawg.NewPatternSearcher(t, l.q.Blank)
	}
	return dawg.NewAnagramSearcher(t, l.q.Blank)
}

// lenCond: the word length is one of the given lengths.
type lenCond struct{ lens []int }

func (l lenCond) has(n int) bool {
	for _, x := range l.lens {
		if x == n {
			return true
		}
	}
	return false
}
func (l lenCond) max() int {
	m := -1
	for _, x := range l.lens {
		if x > m {
			m = x
		}
	}
	return m
}
func (l lenCond) Match(w []byte) bool { return l.has(len(w)) }
func (l lenCond) String() string      { return fmt.Sprintf("user length-in%v", l.lens) }
func (l lenCond) New() dawg.Searcher {
	s := &lenS{max: l.max()}
	s.ok = make([]bool, s.max+2)
	for _, x := range l.lens {
		if x >= 0 {
			s.ok[x] = true
		}
	}
	return s
}

type lenS struct {
	max   int
	ok    []bool // ok[n]: n is one of the lengths
	depth int
}

func (s *lenS) AllowStep(b byte) bool { return s.depth < s.max }
func (s *lenS) Step(b byte)           { s.depth++ }
func (s *lenS) Backstep()             { s.depth-- }
func (s *lenS) AllowWord() bool       { return s.depth >= 0 && s.depth < len(s.ok) && s.ok[s.depth] }
func (s *lenS) Chosen()               {}

// sumCond: the sum of the bytes is r modulo m (no pruning at all).
type sumCond struct{ m, r int }

func (x sumCond) Match(w []byte) bool {
	t := 0
	for _, b := range w {
		t += int(b)
	}
	return t%x.m == x.r
}
func (x sumCond) String() string     { return fmt.Sprintf("user byte-sum=%d mod %d", x.r, x.m) }
func (x sumCond) New() dawg.Searcher { return &sumS{c: x, st: []int{0}} }

type sumS struct {
	c  sumCond
	st []int
}

func (s *sumS) AllowStep(b byte) bool { return true }
func (s *sumS) Step(b byte)           { s.st = append(s.st, (s.st[len(s.st)-1]+int(b))%s.c.m) }
func (s *sumS) Backstep()             { s.st = s.st[:len(s.st)-1] }
func (s *sumS) AllowWord() bool       { return s.st[len(s.st)-1] == s.c.r }
func (s *sumS) Chosen()               {}

// prefixCond: the word starts with one of the prefixes.
type prefixCond struct{ ps [][]byte }

func (p prefixCond) Match(w []byte) bool {
	for _, x := range p.ps {
		if bytes.HasPrefix(w, x) {
			return true
		}
	}
	return false
}
func (p prefixCond) String() string     { return "user prefix-in" + refdawg.QuoteList(p.ps, 8) }
func (p prefixCond) New() dawg.Searcher { return &prefixS{c: p} }

type prefixS struct {
	c    prefixCond
	path []byte
}

func (s *prefixS) AllowStep(b byte) bool {
	// path+b is a prefix of x, or x is a prefix of path+b (written without building path+b: the path can be long)
	n := len(s.path)
	for _, x := range s.c.ps {
		if len(x) > n {
			if x[n] == b && bytes.Equal(x[:n], s.path) {
				return true
			}
		} else if bytes.HasPrefix(s.path, x) {
			return true
		}
	}
	return false
}
func (s *prefixS) Step(b byte)     { s.path = append(s.path, b) }
func (s *prefixS) Backstep()       { s.path = s.path[:len(s.path)-1] }
func (s *prefixS) AllowWord() bool { return s.c.Match(s.path) }
func (s *prefixS) Chosen()         {}

// patCond: the pattern rule written again by the harness.
type patCond struct {
	pat   []byte
	blank byte
}

func (p patCond) Match(w []byte) bool { return refdawg.MatchPattern(w, p.pat, p.blank) }
func (p patCond) String() string      { return fmt.Sprintf("user pattern(%q,blank=%q)", p.pat, string([]byte{p.blank})) }
func (p patCond) New() dawg.Searcher  { return &patS{c: p} }

type patS struct {
	c patCond
	i int
}

func (s *patS) AllowStep(b byte) bool {
	return s.i < len(s.c.pat) && (s.c.pat[s.i] == s.c.blank || s.c.pat[s.i] == b)
}
func (s *patS) Step(b byte)     { s.i++ }
func (s *patS) Backstep()       { s.i-- }
func (s *patS) AllowWord() bool { return s.i == len(s.c.pat) }
func (s *patS) Chosen()         {}

func condsString(cs []cond) string {
	if len(cs) == 0 {
		return "no searcher"
	}
	p := make([]string, len(cs))
	for i, x := range cs {
		p[i] = x.String()
	}
	return strings.Join(p, " & ")
}

func filterConds(set *refdawg.Set, cs []cond) (ws [][]byte, ids []int) {
	for i, w := range set.Words {
		ok := true
		for _, x := range cs {
			if !x.Match(w) {
				ok = false
				break
			}
		}
		if ok {
			ws = append(ws, w)
			ids = append(ids, i)
		}
	}
	return
}

func compareConds(solns [][]byte, ids []int, set *refdawg.Set, cs []cond) *dawgx.Finding {
	want, wantIDs := filterConds(set, cs)
	same := len(solns) == len(want) && len(ids) == len(want)
	for i := 0; same && i < len(want); i++ {
		same = bytes.Equal(solns[i], want[i]) && ids[i] == wantIDs[i]
	}
	if same {
		return nil
	}
	cut := func(a []int) []int {
		if len(a) > 30 {
			return a[:30]
		}
		return a
	}
	return &dawgx.Finding{Kind: "wrong-result", Observed: fmt.Sprintf("words %s ids %v", refdawg.QuoteList(solns, 30), cut(ids)),
		Expected: fmt.Sprintf("words %s ids %v (the matching words in lexicographic order with their ranks)", refdawg.QuoteList(want, 30), cut(wantIDs))}
}

// ---- wrappers ----

// budgetS refuses every further step once it has been asked too often, so
// that a search that has lost its way still returns (and is reported).
type budgetS struct {
	in      dawg.Searcher
	asked   int
	limit   int
	tripped bool
}

func (s *budgetS) AllowStep(b byte) bool {
	s.asked++
	if s.asked > s.limit {
		s.tripped = true
		return false
	}
	return s.in.AllowStep(b)
}
func (s *budgetS) Step(b byte)     { s.in.Step(b) }
func (s *budgetS) Backstep()       { s.in.Backstep() }
func (s *budgetS) AllowWord() bool { return !s.tripped && s.in.AllowWord() }
func (s *budgetS) Chosen()         { s.in.Chosen() }

// stepLimit bounds the AllowStep calls one searcher can see in a correct
// search: at most one per (trie node, outgoing letter), i.e. fewer than the
// number of trie nodes; a generous factor on top.
func stepLimit(set *refdawg.Set) int { return 8*set.Trie().Size() + 1000 }

// stepLimit of a built set, computed once (the trie of a set of long words is large).
func (b *built) stepLimit() int {
	if b.limit == 0 {
		b.limit = stepLimit(b.set)
	}
	return b.limit
}

// event kinds of the protocol trace
const (
	evAllowStep = iota
	evStep
	evBackstep
	evAllowWord
	evChosen
)

type event struct {
	kind uint8
	who  uint8
	b    byte
	ok   bool
}

type trace struct{ ev []event }

// recS records what the library asks searcher number who and what it answers.
type recS struct {
	in  dawg.Searcher
	who uint8
	tr  *trace
}

func (s *recS) AllowStep(b byte) bool {
	ok := s.in.AllowStep(b)
	s.tr.ev = append(s.tr.ev, event{evAllowStep, s.who, b, ok})
	return ok
}
func (s *recS) Step(b byte) {
	s.tr.ev = append(s.tr.ev, event{evStep, s.who, b, false})
	s.in.Step(b)
}
func (s *recS) Backstep() {
	s.tr.ev = append(s.tr.ev, event{evBackstep, s.who, 0, false})
	s.in.Backstep()
}
func (s *recS) AllowWord() bool {
	// recorded before the call: a nested search started by the inner searcher must not reorder the trace
	i := len(s.tr.ev)
	s.tr.ev = append(s.tr.ev, event{evAllowWord, s.who, 0, false})
	ok := s.in.AllowWord()
	s.tr.ev[i].ok = ok
	return ok
}
func (s *recS) Chosen() {
	s.tr.ev = append(s.tr.ev, event{evChosen, s.who, 0, false})
	s.in.Chosen()
}

// qb quotes a byte string for a message; a long one is cut.
func qb(w []byte) string {
	if len(w) <= 64 {
		return fmt.Sprintf("%q", w)
	}
	return fmt.Sprintf("%q...(%d bytes)", w[:48], len(w))
}

// checkTrace checks the callback protocol of one Search with n searchers:
// Step / Backstep / Chosen come in complete rounds over all searchers; a Step(b)
// round follows AllowStep(b) == true of every searcher at the current
// position; Step and Backstep are nested and the depth is back at 0 at the
// end; AllowWord is only asked where the letters stepped so far spell a stored
// word; a Chosen round happens once per returned solution, in order, where the
// stepped letters spell that solution and every searcher has allowed the word.
// It returns the broken rule and a description, or "", "".
func checkTrace(tr *trace, n int, set *refdawg.Set, solns [][]byte) (rule, what string) {
	type allowed struct {
		b   byte
		ok  bool
		set bool
	}
	al := make([]allowed, n)
	wordOK := make([]bool, n)
	wordNo := false
	seen := make([]bool, n)
	grp, cnt := -1, 0
	var grpB byte
	var path []byte
	chosen := 0
	resetPos := func() {
		for i := range al {
			al[i] = allowed{}
			wordOK[i] = false
		}
		wordNo = false
	}
	names := []string{"AllowStep", "Step", "Backstep", "AllowWord", "Chosen"}
	// the description of the position is only built when a rule is broken (the path can be thousands of bytes long)
	var k int
	var e event
	at := func() string {
		return fmt.Sprintf("event %d (%s of searcher %d) after stepping %s", k, names[e.kind], e.who, qb(path))
	}
	for k, e = range tr.ev {
		if int(e.who) >= n {
			return "unknown-searcher", at()
		}
		if grp != -1 && int(e.kind) != grp {
			return "incomplete-round", fmt.Sprintf("%s: a %s round had reached %d of %d searchers", at(), names[grp], cnt, n)
		}
		switch e.kind {
		case evAllowStep:
			al[e.who] = allowed{e.b, e.ok, true}
		case evAllowWord:
			if !set.Has(path) {
				return "AllowWord-asked-at-a-non-word", at()
			}
			if e.ok {
				wordOK[e.who] = true
			} else {
				wordNo = true
			}
		case evStep, evBackstep, evChosen:
			if grp == -1 {
				grp, cnt, grpB = int(e.kind), 0, e.b
				for i := range seen {
					seen[i] = false
				}
			}
			if seen[e.who] {
				return "searcher-called-twice-in-one-round", at()
			}
			seen[e.who] = true
			cnt++
			if e.kind == evStep {
				if e.b != grpB {
					return "Step-letters-differ-within-a-round", at()
				}
				if a := al[e.who]; !a.set || !a.ok || a.b != e.b {
					return "Step-without-AllowStep", fmt.Sprintf("%s: Step(%q) but the last AllowStep answer of this searcher here was %+v", at(), string([]byte{e.b}), a)
				}
			}
			if cnt < n {
				continue
			}
			grp = -1
			switch e.kind {
			case evStep:
				path = append(path, grpB)
				resetPos()
			case evBackstep:
				if len(path) == 0 {
					return "Backstep-below-the-root", at()
				}
				path = path[:len(path)-1]
				resetPos()
			case evChosen:
				if chosen >= len(solns) {
					return "Chosen-more-often-than-solutions", fmt.Sprintf("%s: %d solutions returned", at(), len(solns))
				}
				if !bytes.Equal(path, solns[chosen]) {
					return "Chosen-where-the-steps-do-not-spell-the-solution", fmt.Sprintf("%s: solution #%d is %s", at(), chosen, qb(solns[chosen]))
				}
				for i := range wordOK {
					if !wordOK[i] || wordNo {
						return "Chosen-without-AllowWord-of-every-searcher", at()
					}
				}
				chosen++
			}
		}
	}
	if grp != -1 {
		return "incomplete-round", fmt.Sprintf("the trace ends inside a %s round (%d of %d searchers)", names[grp], cnt, n)
	}
	if len(path) != 0 {
		return "Step-Backstep-unbalanced", fmt.Sprintf("the search returned with %s still stepped", qb(path))
	}
	if chosen != len(solns) {
		return "Chosen-not-once-per-solution", fmt.Sprintf("%d Chosen rounds, %d solutions returned", chosen, len(solns))
	}
	return "", ""
}

// nestS runs a complete inner search from inside a callback of the outer one.
type nestS struct {
	in        dawg.Searcher
	inChosen  bool // else in AllowWord
	target    *dawg.Dawg
	targetSet *refdawg.Set
	conds     []cond
	maxRuns   int
	runs      []nestRun
	limit     int
}

type nestRun struct {
	solns   [][]byte
	ids     []int
	tripped bool
}

func (s *nestS) inner() {
	if len(s.runs) >= s.maxRuns {
		return
	}
	var ss []dawg.Searcher
	var bs []*budgetS
	for _, x := range s.conds {
		b := &budgetS{in: x.New(), limit: s.limit}
		bs = append(bs, b)
		ss = append(ss, b)
	}
	r := nestRun{}
	r.solns, r.ids = s.target.Search(ss...)
	for _, b := range bs {
		r.tripped = r.tripped || b.tripped
	}
	s.runs = append(s.runs, r)
}
func (s *nestS) AllowStep(b byte) bool { return s.in.AllowStep(b) }
func (s *nestS) Step(b byte)           { s.in.Step(b) }
func (s *nestS) Backstep()             { s.in.Backstep() }
func (s *nestS) AllowWord() bool {
	if !s.inChosen {
		s.inner()
	}
	return s.in.AllowWord()
}
func (s *nestS) Chosen() {
	if s.inChosen {
		s.inner()
	}
	s.in.Chosen()
}

// ---- one judged search with user-defined searchers ----

type nestSpec struct {
	inChosen bool
	other    *built // nil: the inner searches run on the same Dawg
	conds    []cond
}

func customDetail(b *built, cs []cond, tag, callKey string, extra map[string]interface{}) map[string]interface{} {
	m := map[string]interface{}{"call": callKey, "searchers": condsString(cs), "scenario": tag}
	for k, v := range extra {
		m[k] = v
	}
	return dawgx.Detail(b.label, b.set, m)
}

// customSearch runs one search of d with fresh searchers for cs, every one
// behind a recorder, the first also behind a step budget (and, if nest is
// given, behind a searcher that starts inner searches), and judges result,
// protocol, inner results and termination.
func customSearch(c *engine.Ctx, b *built, d *dawg.Dawg, callKey, tag string, cs []cond, nest *nestSpec) bool {
	w := tag + "|" + dawgx.Witness(b.set.Words)
	var ss []dawg.Searcher
	tr := &trace{}
	var bud *budgetS
	var ns *nestS
	limit := b.stepLimit()
	if pi := c.Call(callKey+"|new searchers", func() {
		for i, x := range cs {
			var s dawg.Searcher = x.New()
			if i == 0 {
				if nest != nil {
					ns = &nestS{in: s, inChosen: nest.inChosen, target: d, targetSet: b.set, conds: nest.conds, maxRuns: 64, limit: limit}
					if nest.other != nil {
						ns.target, ns.targetSet = nest.other.d, nest.other.set
						ns.limit = nest.other.stepLimit()
					}
					s = ns
				}
				bud = &budgetS{in: s, limit: limit}
				s = bud
			}
			ss = append(ss, &recS{in: s, who: uint8(i), tr: tr})
		}
	}); pi != nil {
		dawgx.Report(c, nil, pi, "NewSearcher", w, customDetail(b, cs, tag, callKey, nil))
		return false
	}
	solns, ids, pi := dawgx.Search(c, callKey, d, ss)
	c.Eval(1)
	det := customDetail(b, cs, tag, callKey, nil)
	if nest != nil {
		det["inner_searchers"] = condsString(nest.conds)
		det["inner_search_started_from"] = map[bool]string{true: "Chosen", false: "AllowWord"}[nest.inChosen]
		if nest.other != nil {
			det["inner_search_on_another_dawg_holding"] = nest.other.set.Quoted(40)
		}
	}
	if pi != nil {
		dawgx.Report(c, nil, pi, "Search", w, det)
		return false
	}
	if bud != nil && bud.tripped {
		c.Violation("Search|runaway|"+w, det, fmt.Sprintf("the search was still asking AllowStep after %d calls to one searcher; the trie of the word set has %d nodes", bud.limit, (bud.limit-1000)/8), "at most one AllowStep per searcher, node of the trie and outgoing letter")
		return false
	}
	if f := compareConds(solns, ids, b.set, cs); f != nil {
		c.Violation("Search|"+f.Kind+"|"+w, det, f.Observed, f.Expected)
		return false
	}
	if len(cs) > 0 {
		c.Eval(1)
		if rule, what := checkTrace(tr, len(cs), b.set, solns); rule != "" {
			c.Violation("Search|protocol:"+rule+"|"+w, det, what, "the callback protocol of Search (AllowStep before Step for every searcher, nested Step/Backstep, AllowWord at stored words only, Chosen once per solution on every searcher)")
			return false
		}
		c.Obs("protocol_traces_checked", 1)
		c.ObsMax("protocol_events_in_one_search", len(tr.ev))
	}
	if ns != nil {
		for k, r := range ns.runs {
			c.Eval(1)
			if r.tripped {
				c.Violation("Search|runaway|inner|"+w, det, fmt.Sprintf("inner search #%d did not finish within its step budget", k), "the inner search terminates")
				return false
			}
			if f := compareConds(r.solns, r.ids, ns.targetSet, nest.conds); f != nil {
				c.Violation("Search|inner-"+f.Kind+"|"+w, det, fmt.Sprintf("inner search #%d: %s", k, f.Observed), f.Expected)
				return false
			}
		}
		// the inner results are the caller's as well: overwrite them all, the outer results must not notice
		for k, r := range ns.runs {
			if msg := overwriteResults(c, r.solns); msg != "" {
				c.Violation("Search|inner-results-share-memory|"+w, det, fmt.Sprintf("inner search #%d: %s", k, msg), "independent byte slices")
				return false
			}
		}
		if len(ns.runs) > 0 {
			c.Eval(1)
			if f := compareConds(solns, ids, b.set, cs); f != nil {
				c.Violation("Search|outer-results-share-memory-with-inner-results|"+w, det, "after the caller has overwritten the words returned by the inner searches: "+f.Observed, f.Expected)
				return false
			}
			c.Obs("ownership:outer_results_intact_after_overwriting_inner_results", 1)
		}
		name := "nested:from_" + det["inner_search_started_from"].(string)
		if nest.other != nil {
			name += "_on_another_dawg"
		} else {
			name += "_on_the_same_dawg"
		}
		if len(ns.runs) > 0 {
			c.Obs(name, 1)
			c.Obs("nested:inner_searches", len(ns.runs))
		}
	}
	for _, x := range solns {
		if len(x) > 1024 {
			c.Obs("long:searches_behind_recorders_returning_a_word_of_more_than_1024_bytes", 1)
			if ns != nil && len(ns.runs) > 0 {
				c.Obs("long:nested_searches_whose_outer_search_returns_a_word_of_more_than_1024_bytes", 1)
			}
			break
		}
	}
	if msg := overwriteResults(c, solns); msg != "" {
		c.Violation("Search|results-share-memory|"+w, det, msg, "independent byte slices")
		return false
	}
	nSolns := len(solns)
	hasUser, hasLib := false, false
	for _, x := range cs {
		if _, ok := x.(libCond); ok {
			hasLib = true
		} else {
			hasUser = true
		}
	}
	switch {
	case hasUser && hasLib:
		c.Obs("custom:user_and_library_searchers", 1)
	case hasUser:
		c.Obs("custom:user_searchers_only", 1)
	case hasLib:
		c.Obs("custom:library_searchers_behind_recorder", 1)
	}
	if nontrivialResult(b.set, nSolns) {
		c.NT("custom", tag, b.hash(), condsString(cs))
	}
	return true
}

// fixedConds: the conjunctions of the exhaustive part over {a,b} / {a,b,c}.
func fixedConds() [][]cond {
	p := func(s string) cond { return patCond{[]byte(s), '?'} }
	lp := func(s string) cond { return libCond{refdawg.Query{Kind: 'p', Text: []byte(s), Blank: '?'}} }
	la := func(s string) cond { return libCond{refdawg.Query{Kind: 'a', Text: []byte(s), Blank: '?'}} }
	pre := func(ss ...string) cond {
		var b [][]byte
		for _, s := range ss {
			b = append(b, []byte(s))
		}
		return prefixCond{b}
	}
	return [][]cond{
		{lenCond{[]int{0, 2}}}, {lenCond{[]int{1, 3}}}, {lenCond{[]int{3}}}, {lenCond{nil}}, {lenCond{[]int{0, 1, 2, 3, 4}}},
		{sumCond{3, 0}}, {sumCond{3, 1}}, {sumCond{2, 1}},
		{pre("a")}, {pre("ab", "b")}, {pre("")}, {pre("bb", "ba", "c")},
		{p("")}, {p("?")}, {p("a?")}, {p("??b")}, {p("???")}, {p("b?a")},
		{lenCond{[]int{2, 3}}, sumCond{2, 0}}, {pre("a"), lenCond{[]int{1, 3}}}, {p("?a?"), sumCond{3, 2}},
		{lp("??"), lenCond{[]int{2}}}, {lenCond{[]int{1, 2, 3}}, lp("?b")}, {la("ab?"), pre("a", "ba")}, {sumCond{2, 0}, la("?a")}, {lp("a??"), p("??b")},
		{la("??"), lp("?b"), sumCond{3, 0}}, {pre("b"), la("b??"), lenCond{[]int{3}}},
	}
}

// customExhaustive: every word set over a small universe x the fixed
// conjunctions (protocol recorded), and nested searches on every set.
func customExhaustive(c *engine.Ctx) {
	type sw struct {
		name, alphabet string
		maxLen, blocks int
		every          int
	}
	for _, s := range []sw{{"custom-exhaustive", "ab", 3, 64, c.Pick(8, 1)}, {"custom-exhaustive3", "abc", 2, 16, c.Pick(2, 1)}} {
		s := s
		u := refdawg.Universe([]byte(s.alphabet), s.maxLen)
		per := (1 << uint(len(u))) / s.blocks
		conds := fixedConds()
		label := fmt.Sprintf("every %d-th of the 2^%d word sets over the words of length<=%d over {%s} x %d conjunctions of user-defined and library searchers with protocol check, and nested searches from Chosen and from AllowWord (same Dawg / another Dawg)", s.every, len(u), s.maxLen, s.alphabet, len(conds))
		inners := [][]cond{{patCond{[]byte("a??"), '?'}}, {libCond{refdawg.Query{Kind: 'p', Text: []byte("?b"), Blank: '?'}}}, {lenCond{[]int{0, 1, 2, 3}}}, {libCond{refdawg.Query{Kind: 'a', Text: []byte("b?"), Blank: '?'}}, sumCond{2, 0}}, nil}
		outers := [][]cond{{patCond{[]byte("???"), '?'}}, {libCond{refdawg.Query{Kind: 'p', Text: []byte("??"), Blank: '?'}}}, {lenCond{[]int{0, 1, 2, 3}}}, {libCond{refdawg.Query{Kind: 'a', Text: []byte("?a?"), Blank: '?'}}, lenCond{[]int{3}}}, {sumCond{2, 1}, libCond{refdawg.Query{Kind: 'p', Text: []byte("?"), Blank: '?'}}}}
		for blk := 0; blk < s.blocks; blk++ {
			blk := blk
			c.Unit(fmt.Sprintf("%s/%02d", s.name, blk), func() {
				var prev *built
				n := 0
				for mask := blk * per; mask < (blk+1)*per; mask++ {
					if mask%s.every != 0 {
						continue
					}
					set := c12.SubsetOf(u, mask)
					callKey := fmt.Sprintf("%s|mask=%d", s.name, mask)
					d := buildFor(c, callKey, set)
					if d == nil {
						continue
					}
					b := &built{d: d, set: set, label: label}
					before, ok := snap(c, callKey+"|before", b, u)
					if !ok {
						continue
					}
					good := true
					for ci, cs := range conds {
						if !customSearch(c, b, d, fmt.Sprintf("%s|conj%d", callKey, ci), "user-searchers", cs, nil) {
							good = false
							break
						}
						n++
					}
					// nested: rotate outer / inner / callback / target over the masks so that every set sees several combinations
					for k := 0; good && k < 4; k++ {
						x := mask/s.every + k
						nest := &nestSpec{inChosen: k%2 == 0, conds: inners[x%len(inners)]}
						tag := "nested-search-from-AllowWord"
						if nest.inChosen {
							tag = "nested-search-from-Chosen"
						}
						if k >= 2 && prev != nil {
							nest.other = prev
							tag += "-on-another-dawg"
						} else {
							tag += "-on-the-same-dawg"
						}
						if !customSearch(c, b, d, fmt.Sprintf("%s|nest%d", callKey, k), tag, outers[(x/len(inners))%len(outers)], nest) {
							good = false
						}
						n++
					}
					if good {
						checkUnchanged(c, label, callKey, b, before, u)
					}
					if c.Stopped() {
						return
					}
					prev = b
				}
				c.Obs("custom:exhaustive_searches", n)
				if blk == 0 {
					c.Obs("exhaustive:"+label, 1)
					var ex []string
					for _, cs := range conds[:6] {
						ex = append(ex, condsString(cs))
					}
					c.Sample(s.name, map[string]interface{}{"conjunctions": len(conds), "examples": ex, "nested_outer_example": condsString(outers[3]), "nested_inner_example": condsString(inners[3])})
				}
			})
		}
	}
}

// genCond draws a user-defined or library condition for a set.
func genCond(set *refdawg.Set, alpha []byte, rg *engine.Rng) cond {
	pick := func() []byte {
		if set.Len() == 0 {
			return []byte{alpha[rg.Intn(len(alpha))]}
		}
		return set.Words[rg.Intn(set.Len())]
	}
	switch rg.Intn(7) {
	case 0:
		var ls []int
		for k := rg.Intn(4); k >= 0; k-- {
			ls = append(ls, len(pick())+rg.Intn(2))
		}
		if rg.Intn(6) == 0 {
			ls = append(ls, 0)
		}
		return lenCond{ls}
	case 1:
		m := 2 + rg.Intn(4)
		return sumCond{m, rg.Intn(m)}
	case 2:
		var ps [][]byte
		for k := rg.Intn(3); k >= 0; k-- {
			w := pick()
			ps = append(ps, append([]byte{}, w[:rg.Intn(len(w)+1)]...))
		}
		return prefixCond{ps}
	case 3:
		q := refdawg.GenQuery(set, alpha, rg, 'p')
		return patCond{q.Text, q.Blank}
	case 4:
		return libCond{refdawg.GenQuery(set, alpha, rg, 'a')}
	default:
		return libCond{refdawg.GenQuery(set, alpha, rg, 'p')}
	}
}

func genConds(set *refdawg.Set, alpha []byte, rg *engine.Rng) []cond {
	n := 1 + rg.Intn(3)
	if rg.Intn(25) == 0 {
		n = 0
	}
	var cs []cond
	for i := 0; i < n; i++ {
		cs = append(cs, genCond(set, alpha, rg))
	}
	return cs
}

// wideOpen is an outer condition that visits (nearly) everything, so that the
// nested searches are started at many positions of the outer search.
func wideOpen(set *refdawg.Set, rg *engine.Rng) []cond {
	maxLen := 0
	for _, w := range set.Words {
		if len(w) > maxLen {
			maxLen = len(w)
		}
	}
	switch rg.Intn(3) {
	case 0:
		var ls []int
		for l := 0; l <= maxLen; l++ {
			ls = append(ls, l)
		}
		return []cond{lenCond{ls}}
	case 1:
		l := 0
		if set.Len() > 0 {
			l = len(set.Words[rg.Intn(set.Len())])
		}
		return []cond{libCond{refdawg.Query{Kind: 'p', Text: bytes.Repeat([]byte{0}, l), Blank: 0}}}
	}
	return []cond{sumCond{2, rg.Intn(2)}}
}

// customOn runs the user-searcher scenarios on one built set: conjunctions
// with protocol check, nested searches, and cold / warm searches.
func customOn(c *engine.Ctx, b *built, other *built, callKey string, rg *engine.Rng, nConj, nNest int) bool {
	for i := 0; i < nConj; i++ {
		if !customSearch(c, b, b.d, fmt.Sprintf("%s|conj%d", callKey, i), "user-searchers", genConds(b.set, b.alpha, rg), nil) {
			return false
		}
	}
	for i := 0; i < nNest; i++ {
		nest := &nestSpec{inChosen: i%2 == 0, conds: genConds(b.set, b.alpha, rg)}
		tag := "nested-search-from-AllowWord"
		if nest.inChosen {
			tag = "nested-search-from-Chosen"
		}
		if i%4 >= 2 && other != nil {
			nest.other = other
			nest.conds = genConds(other.set, other.alpha, rg)
			tag += "-on-another-dawg"
		} else {
			tag += "-on-the-same-dawg"
		}
		outer := wideOpen(b.set, rg)
		if i%3 == 2 {
			outer = genConds(b.set, b.alpha, rg)
			if len(outer) == 0 {
				outer = wideOpen(b.set, rg)
			}
		}
		if !customSearch(c, b, b.d, fmt.Sprintf("%s|nest%d", callKey, i), tag, outer, nest) {
			return false
		}
	}
	// cold / warm: the same conjunction on a Dawg that has just been searched deeply and on one that has never been searched
	if b.noCold {
		return true
	}
	cold := buildLong(c, callKey+"|cold", b.set, b.slowOK)
	if cold == nil {
		return true
	}
	cs := genConds(b.set, b.alpha, rg)
	warmups := [][]cond{nil, wideOpen(b.set, rg), genConds(b.set, b.alpha, rg)}
	for wi, wu := range warmups {
		if !customSearch(c, b, b.d, fmt.Sprintf("%s|warmup%d", callKey, wi), "warm-dawg(searched before)", wu, nil) {
			return false
		}
	}
	if !customSearch(c, b, b.d, callKey+"|warm", "warm-dawg(searched before)", cs, nil) {
		return false
	}
	if !customSearch(c, b, cold, callKey+"|cold", "cold-dawg(never searched)", cs, nil) {
		return false
	}
	// and a shallow search after a deep one on the formerly cold Dawg, then the deep one again
	for wi, wu := range [][]cond{warmups[1], {lenCond{[]int{0, 1}}}, warmups[1]} {
		if !customSearch(c, b, cold, fmt.Sprintf("%s|cold-then%d", callKey, wi), "warm-dawg(searched before)", wu, nil) {
			return false
		}
	}
	c.Obs("cold_warm_comparisons", 1)
	return true
}

// customFamiliesAndSeeded: the fixed families and seeded sets.
func customFamiliesAndSeeded(c *engine.Ctx) {
	for fi, fam := range c12.FixedFamilies() {
		fi, fam := fi, fam
		if fam.Set.Len() > 600 {
			continue
		}
		c.Unit("custom-family/"+fam.Name, func() {
			callKey := "custom-family|" + fam.Name
			d := buildFor(c, callKey, fam.Set)
			if d == nil {
				return
			}
			b := &built{d: d, set: fam.Set, alpha: fam.Alpha, label: "family " + fam.Name}
			lookups := fam.Set.Words
			before, ok := snap(c, callKey+"|before", b, lookups)
			if !ok {
				return
			}
			rg := engine.NewRng(uint64(4200 + fi))
			var other *built
			if od := buildFor(c, callKey+"|other", refdawg.FromStrings("", "other", "others", "tap", "taps", "top", "tops")); od != nil {
				other = &built{d: od, set: refdawg.FromStrings("", "other", "others", "tap", "taps", "top", "tops"), alpha: []byte("aehoprst"), label: "other"}
			}
			if customOn(c, b, other, callKey, rg, 40, 16) {
				checkUnchanged(c, b.label, callKey, b, before, lookups)
			}
		})
	}
	nSets := c.Pick(1800, 16000)
	perUnit := 30
	for un := 0; un*perUnit < nSets; un++ {
		un := un
		c.Unit(fmt.Sprintf("custom-seeded/%d", un), func() {
			var prev *built
			for i := un * perUnit; i < (un+1)*perUnit && i < nSets; i++ {
				rg := c.Rand("c13-custom", i)
				maxWords := 200
				if i%30 == 7 {
					maxWords = 1500
				}
				set, alpha, info := refdawg.GenSet(rg, maxWords)
				callKey := fmt.Sprintf("custom-seeded#%d", i)
				d := buildFor(c, callKey, set)
				if d == nil {
					continue
				}
				b := &built{d: d, set: set, alpha: alpha, label: "seeded " + info.String()}
				lookups := set.Words
				if len(lookups) > 200 {
					lookups = lookups[:200]
				}
				before, ok := snap(c, callKey+"|before", b, lookups)
				if !ok {
					continue
				}
				nc, nn := 8, 4
				if set.Len() > 400 {
					nc, nn = 3, 2
				}
				if customOn(c, b, prev, callKey, rg, nc, nn) {
					checkUnchanged(c, b.label, callKey, b, before, lookups)
				}
				if c.Stopped() {
					return
				}
				if i < 2 {
					c.Sample("custom-seeded", map[string]interface{}{"gen": info.String(), "words": set.Quoted(10), "example_conjunction": condsString(genConds(set, alpha, rg))})
				}
				prev = b
			}
		})
	}
}

package c16

// Process-level state across calls.
//
// Every value the property speaks about is the value of ONE call; a library
// that keeps something between calls (the last answer to step to its
// successor, a memo of answers, a table that grows and is handed out again)
// can return the right value at the moment of the return and still break the
// statement: the slice returned for rank r is not the set of rank r any more
// once a later call has written into it, and two results that share memory
// cannot both be the sets of their ranks once the caller uses one of them.
//
// Two mechanisms, both independent of how such a state would be implemented:
//
//  1. the ledger: EVERY judged Unrank result and EVERY judged Coeffs table of
//     a unit (whatever workload the unit belongs to) is kept - the very slice,
//     never a copy - together with what it has to read.  The last few are read
//     again after every later call into the package (so the witness is the pair
//     of calls), all of them at every checkpoint and at the end of the unit.
//     At a checkpoint every result is then overwritten by the caller with a
//     marker of its own: results that share memory read each other's marker;
//     the overwritten results stay on the ledger (nothing may write into them
//     later either) and the calls next to the last ones (same rank, rank + 1,
//     rank - 1, the same table) are made again: what the caller did to ITS
//     slices must not show in later results.
//     The caller also APPENDS to what it was given (append is how a half row
//     of Coeffs is completed by symmetry and how a set is extended): to every
//     held result at every checkpoint, to the rows and the outer slice of a
//     table right after it was returned, to an earlier result between two
//     calls.  An append writes into the spare capacity of the slice if it has
//     any; whether a result has spare capacity is not judged, but what the
//     caller appends to one result must not show in another one nor in the
//     results of later calls.
//  2. the order of the calls as a dimension of the workload (stateUnits):
//     ascending, descending, repeated, zigzag, strided, random sweeps over
//     windows of consecutive ranks at small ranks, across the C(l,k)
//     boundaries, at 63-bit ranks and at MaxInt; one k, two k alternating or in
//     blocks; other functions of the package called in between; the caller
//     editing a result before the next call; complete tables of all k-subsets
//     of {0..n-1} filled in several orders; Coeffs(n) in several orders of n.

import (
	"encoding/json"
	"fmt"
	"math/big"

	"github.com/Tom-Johnston/mamba/comb"

	"verif/internal/engine"
	"verif/internal/oracle/bigcomb"
)

type callRec struct{ api, args string }

// heldRes is one []int handed out by the library: an Unrank result or a row of
// a Coeffs table.
type heldRes struct {
	api, args string
	r, k      int   // Unrank arguments (row of a table: k = -1)
	res       []int // the slice the library returned
	want      []int // what it has to read: the judged value, later what the caller wrote into it
	at        int   // number of logged calls of the unit when it was returned
	marked    bool  // overwritten with its marker at a checkpoint
	mark      int
	dead      bool // a violation has been recorded for it: not judged again
	cheap     bool // calling Unrank with a neighbouring rank costs no more than maxProbeSteps loop steps
	amark     int  // the value the caller appended to it (0: nothing appended with a marker yet)
	appended  int  // number of values the caller appended to it
}

// heldTab is one Coeffs result: the outer slice and its rows.
type heldTab struct {
	n      int
	res    [][]int
	rows   []*heldRes
	at     int
	marked bool
	dead   bool
	grown  [][]int // the outer slice after the caller appended a row of its own to it
}

type ledger struct {
	unitName string
	log      []callRec
	held     []*heldRes // Unrank results and table rows, in the order of the calls
	tabs     []*heldTab
	byMark   map[int]*heldRes
	byAppend map[int]*heldRes // marker values the caller appended to a result -> that result
	marks    int
	lastHeld *heldRes // the result of the last Unrank call if it was judged exact
	closing  bool

	prevR, prevK int
	havePrev     bool
	seenRK       map[[2]int]bool

	rankBuf []int
	pascal  map[int][]int64
	wants   map[[2]int][]uint64 // oracle answers of this unit (the order patterns ask for the same ranks many times)
}

// wantOf is bigcomb.UnrankBig remembered for the unit.
func (m *mon) wantOf(r, k int) []uint64 {
	if w, ok := m.wants[[2]int{r, k}]; ok {
		return w
	}
	w := bigcomb.UnrankBig(big.NewInt(int64(r)), k)
	if m.wants == nil {
		m.wants = map[[2]int][]uint64{}
	}
	if len(m.wants) < 1<<14 {
		m.wants[[2]int{r, k}] = w
	}
	return w
}

const maxProbeSteps = 400000

func (m *mon) unit(name string, f func()) {
	m.c.Unit(name, func() {
		m.ledger = ledger{unitName: name, pascal: m.pascal}
		f()
		m.endOfUnit()
	})
}

func (m *mon) ledgerLive() bool { return len(m.held) > 0 || len(m.tabs) > 0 }

func (m *mon) logCall(api, args string) {
	if len(m.log) < 1<<20 {
		m.log = append(m.log, callRec{api, args})
	}
}

func recString(r callRec) string { return r.api + "(" + r.args + ")" }

// history returns the last n of the first upTo logged calls of the unit (oldest first).
func (m *mon) history(n, upTo int) []string {
	if upTo > len(m.log) {
		upTo = len(m.log)
	}
	lo := upTo - n
	if lo < 0 {
		lo = 0
	}
	var h []string
	for _, r := range m.log[lo:upTo] {
		h = append(h, recString(r))
	}
	return h
}

// lazyHistory is rendered only when a violation is written: the outcome of a
// call may depend on what the earlier calls of the unit left behind in the process.
type lazyHistory struct {
	m    *mon
	upTo int
}

func (l lazyHistory) MarshalJSON() ([]byte, error) { return json.Marshal(l.m.history(9, l.upTo)) }

// withHistory adds the calls of the unit up to the current one to the detail of a violation.
func (m *mon) withHistory(detail map[string]interface{}) map[string]interface{} {
	if len(m.log) > 1 {
		detail["calls_in_unit_up_to_this_one"] = m.history(9, len(m.log))
	}
	return detail
}

// callsSince lists the calls logged after position at (the first few and the last few).
func (m *mon) callsSince(at int) []string {
	var h []string
	if at > len(m.log) {
		at = len(m.log)
	}
	rest := m.log[at:]
	for i, r := range rest {
		if i >= 6 && i < len(rest)-6 {
			if i == 6 {
				h = append(h, fmt.Sprintf("... %d more calls ...", len(rest)-12))
			}
			continue
		}
		h = append(h, recString(r))
	}
	return h
}

// noteOrder records how an Unrank call relates to the Unrank call before it
// in the same unit (the order of the calls is a dimension of the workload).
func (m *mon) noteOrder(r, k int) {
	c := m.c
	if m.seenRK == nil {
		m.seenRK = map[[2]int]bool{}
	}
	if m.havePrev {
		switch {
		case k != m.prevK:
			c.Obs("state:Unrank_after_Unrank_with_other_k", 1)
			if m.seenRK[[2]int{r - 1, k}] {
				c.Obs("state:Unrank(r,k)_after_(r-1,k)_with_other_k_in_between", 1)
			}
		case r == m.prevR+1:
			c.Obs("state:Unrank(r,k)_directly_after_(r-1,k)", 1)
		case r == m.prevR-1:
			c.Obs("state:Unrank(r,k)_directly_after_(r+1,k)", 1)
		case r == m.prevR:
			c.Obs("state:Unrank(r,k)_directly_after_the_same_call", 1)
		default:
			c.Obs("state:Unrank(r,k)_after_a_non-adjacent_rank_same_k", 1)
		}
	}
	if m.seenRK[[2]int{r, k}] {
		c.Obs("state:Unrank_same_arguments_again_in_unit", 1)
	}
	if len(m.seenRK) < 1<<16 {
		m.seenRK[[2]int{r, k}] = true
	}
	m.prevR, m.prevK, m.havePrev = r, k, true
}

func (m *mon) holdUnrank(args string, r, k int, got []int, want []uint64) {
	if len(got) == 0 {
		return
	}
	if cap(got) > len(got) {
		// appending to the result would write into memory the caller was not shown: not fixed by the statement
		m.c.Obs("Unrank:result_with_spare_capacity(unjudged)", 1)
	}
	h := &heldRes{api: "Unrank", args: args, r: r, k: k, res: got, want: append([]int(nil), got...), at: len(m.log)}
	h.cheap = stepsOK(want, maxProbeSteps)
	m.held = append(m.held, h)
	m.lastHeld = h
	m.c.Obs("state:results_held_until_end_of_unit", 1)
}

func sameInts(a, b []int) bool {
	if len(a) != len(b) {
		return false
	}
	for i := range a {
		if a[i] != b[i] {
			return false
		}
	}
	return true
}

// recheck reads one held slice again.  false = it has changed (violation recorded).
func (m *mon) recheck(h *heldRes) bool {
	if h.dead {
		return true
	}
	if sameInts(h.res, h.want) {
		return true
	}
	h.dead = true
	c := m.c
	detail := map[string]interface{}{"api": h.api, "result_of": recString(callRec{h.api, h.args}), "unit": m.unitName,
		"returned_and_judged_as": h.want, "calls_after_it": m.callsSince(h.at)}
	what := "the slice returned by " + recString(callRec{h.api, h.args})
	if h.marked {
		detail["note"] = "the caller had overwritten this result with a marker of its own (it owns the slice)"
		what += " (overwritten by the caller with " + fmt.Sprint(h.mark) + ")"
	}
	// does it read what the caller appended to another result?  then the append went into this one
	for _, v := range h.res {
		if o, ok := m.byAppend[v]; ok && o != h {
			m.appendShowsIn(h, o, fmt.Sprintf("%d (%d times)", o.amark, o.appended))
			return false
		}
	}
	// does it read the marker of another result?  then the two share memory
	for _, v := range h.res {
		if o, ok := m.byMark[v]; ok && o != h {
			detail["shares_memory_with_result_of"] = recString(callRec{o.api, o.args})
			c.Violation(h.api+"|results-share-memory|"+h.args+"|"+o.api+":"+o.args, detail,
				what+" reads "+seqString(h.res)+" after the caller wrote "+fmt.Sprint(o.mark)+" into the result of "+recString(callRec{o.api, o.args}),
				seqString(h.want)+" (results of different calls do not share memory)")
			return false
		}
	}
	c.Violation(h.api+"|result-changed-by-later-call|"+h.args, detail,
		what+" reads "+seqString(h.res)+" after the later calls "+fmt.Sprint(m.callsSince(h.at)),
		seqString(h.want)+" (a returned result is not written to by later calls)")
	return false
}

// appendShowsIn records that h does not read what it has to read any more after the
// caller appended to ANOTHER result o (h is not judged again).
func (m *mon) appendShowsIn(h, o *heldRes, appended string) {
	h.dead = true
	oname := recString(callRec{o.api, o.args})
	detail := map[string]interface{}{"api": h.api, "result_of": recString(callRec{h.api, h.args}), "unit": m.unitName,
		"returned_and_judged_as": h.want, "the_caller_appended_to_the_result_of": oname, "appended": appended, "calls_after_it": m.callsSince(h.at)}
	m.c.Violation(h.api+"|append-to-another-result-writes-into-it|"+h.args+"|"+o.api+":"+o.args, detail,
		"the slice returned by "+recString(callRec{h.api, h.args})+" reads "+seqString(h.res)+" after the caller appended "+appended+" to the slice returned by "+oname,
		seqString(h.want)+" (a result belongs to the caller, who may append to it: that does not write into another result)")
}

// grow lets the caller append to a result it was given: cnt copies of a marker
// value of this result (cnt <= 0: a number that cycles with salt through 1, 2,
// len, len+3).  Whether the append finds spare capacity is not judged.
func (m *mon) grow(h *heldRes, cnt, salt int) {
	if h == nil || h.dead {
		return
	}
	if h.amark == 0 {
		m.marks++
		h.amark = -1000000 - 1000*m.marks
		if m.byAppend == nil {
			m.byAppend = map[int]*heldRes{}
		}
		m.byAppend[h.amark] = h
	}
	if cnt <= 0 {
		cnt = []int{1, 2, len(h.res), len(h.res) + 3}[salt&3]
		if cnt == 0 {
			cnt = 1
		}
	}
	if cap(h.res) > len(h.res) {
		m.c.Obs("state:append_found_spare_capacity_in_the_result(unjudged)", 1)
	}
	g := h.res
	for i := 0; i < cnt; i++ {
		g = append(g, h.amark)
	}
	h.appended += cnt
	sink = g
}

var sink []int // what append returned (the caller goes on using it)

// rereadAll reads every live held result and table again (no new evaluation is counted).
func (m *mon) rereadAll() {
	for _, h := range m.held {
		if h.k >= 0 && !h.dead {
			m.recheck(h)
		}
	}
	for _, t := range m.tabs {
		if !t.dead && m.recheckTab(t) {
			for _, h := range t.rows {
				if !m.recheck(h) {
					t.dead = true
					break
				}
			}
		}
	}
}

// growEarlier: between two calls the caller appends to a result it was given
// some calls ago (later results exist by then), and reads the recent ones again.
func (m *mon) growEarlier(back, salt int) {
	i := len(m.held) - back
	if i < 0 {
		return
	}
	h := m.held[i]
	if h.dead || h.marked || h.appended != 0 {
		return
	}
	m.grow(h, 0, salt)
	m.logCall("caller", "appends to the result of "+recString(callRec{h.api, h.args}))
	m.c.Obs("state:caller_appends_to_an_earlier_result_between_calls", 1)
	n := 0
	for j := len(m.held) - 1; j >= 0 && n < 8; j-- {
		if m.held[j] != h && !m.held[j].dead {
			n++
			m.c.Obs("state:results_read_again_after_the_caller_appended_to_another", 1)
			m.recheck(m.held[j])
		}
	}
}

// completeRows: the natural use of a Coeffs table, which holds only the half
// rows k <= m/2: the caller completes row m by symmetry, appending C(m,m-k)
// for k = m/2+1 .. m to the slice it was given.  After every row the other rows
// of the table are read again: they are Pascal rows whatever the caller appended.
func (m *mon) completeRows(t *heldTab, descending bool) bool {
	c := m.c
	for x := range t.rows {
		mm := x
		if descending {
			mm = len(t.rows) - 1 - x
		}
		h := t.rows[mm]
		if h.dead {
			continue
		}
		row := h.res
		for k := mm/2 + 1; k <= mm; k++ {
			row = append(row, row[mm-k])
		}
		h.appended += len(row) - len(h.res)
		sink = row
		c.Obs("state:half_rows_completed_by_appending", 1)
		for _, o := range t.rows {
			if !o.dead && !sameInts(o.res, o.want) {
				if o == h {
					// append never changes the elements below len of its own argument
					m.recheck(o)
				} else {
					m.appendShowsIn(o, h, fmt.Sprintf("%v (the second half of row %d)", row[len(h.res):], mm))
				}
				t.dead = true
				return false
			}
		}
	}
	m.logCall("caller", "completes every half row of the table returned by Coeffs("+is(t.n)+") by appending to it")
	c.Obs("state:tables_with_all_rows_completed_by_appending_and_the_other_rows_read_again", 1)
	return true
}

// recheckTab reads the outer slice of a held table again (its rows are on m.held).
func (m *mon) recheckTab(t *heldTab) bool {
	if t.dead {
		return true
	}
	for i, h := range t.rows {
		ok := len(t.res[i]) == len(h.res) && (len(h.res) == 0 || &t.res[i][0] == &h.res[0])
		if t.marked {
			ok = t.res[i] == nil
		}
		if !ok {
			t.dead = true
			m.c.Violation("Coeffs|result-changed-by-later-call|n="+is(t.n), map[string]interface{}{"api": "Coeffs", "n": t.n, "unit": m.unitName, "calls_after_it": m.callsSince(t.at)},
				fmt.Sprintf("entry %d of the slice of rows returned by Coeffs(%d) is a different slice after the later calls %v", i, t.n, m.callsSince(t.at)),
				"the rows that were returned")
			return false
		}
	}
	return true
}

// recheckRecent reads the last n live held results (and the last two tables) again.
func (m *mon) recheckRecent(n int) {
	if !m.ledgerLive() {
		return
	}
	for i := len(m.held) - 1; i >= 0 && n > 0; i-- {
		h := m.held[i]
		if h.k < 0 {
			continue // rows are read with their table
		}
		n--
		m.c.Obs("state:results_read_again_after_the_next_calls", 1)
		m.recheck(h)
	}
	for i := len(m.tabs) - 1; i >= 0 && i >= len(m.tabs)-2; i-- {
		m.recheckTabFull(m.tabs[i])
	}
}

func (m *mon) recheckTabFull(t *heldTab) {
	if t.dead {
		return
	}
	m.c.Obs("state:tables_read_again_after_the_next_calls", 1)
	if !m.recheckTab(t) {
		return
	}
	for _, h := range t.rows {
		if !m.recheck(h) {
			t.dead = true
			return
		}
	}
}

func (m *mon) recheckAll() {
	for _, h := range m.held {
		if h.k >= 0 && !h.dead {
			if !h.marked {
				m.c.Eval(1) // the judged value, read again after everything that was called since
			}
			m.c.Obs("state:results_read_again_at_checkpoint", 1)
			m.recheck(h)
		}
	}
	for _, t := range m.tabs {
		if !t.dead {
			if !t.marked {
				m.c.Eval(1)
			}
			m.recheckTabFull(t)
		}
	}
}

// checkpoint: read everything again, let the caller overwrite every result
// with a marker of its own (results that share memory then read each other's
// marker), read everything again, and repeat the calls next to the last ones.
func (m *mon) checkpoint() {
	c := m.c
	if !m.ledgerLive() || m.closing {
		return
	}
	m.closing = true
	defer func() { m.closing = false }()
	m.recheckAll()
	// the caller appends to every result it holds (rows of tables and the outer slices included); every one is read again
	grownNow := 0
	for i, h := range m.held {
		if h.dead || h.marked || h.appended != 0 {
			continue
		}
		m.grow(h, 0, i)
		grownNow++
	}
	for _, t := range m.tabs {
		if t.dead || t.marked || t.grown != nil {
			continue
		}
		m.marks++
		t.grown = append(t.res, []int{-1000000 - 1000*m.marks})
		c.Obs("state:caller_appended_a_row_to_the_outer_slice_of_a_table", 1)
		grownNow++
	}
	if grownNow > 0 {
		m.logCall("caller", fmt.Sprintf("appends to %d results it holds, a marker of its own each", grownNow))
		c.Obs("state:caller_appended_to_results_and_all_were_read_again", grownNow)
		m.rereadAll()
		if c.Stopped() {
			return
		}
	}
	if m.byMark == nil {
		m.byMark = map[int]*heldRes{}
	}
	fresh := 0
	var lastU []*heldRes
	for _, h := range m.held {
		if h.dead || h.marked {
			continue
		}
		if h.k >= 0 {
			if len(lastU) == 2 {
				lastU = lastU[1:]
			}
			lastU = append(lastU, h)
		}
		m.marks++
		h.mark = -1000000 - 1000*m.marks // no int the package returns is negative; spaced so that a marker that was counted up or down is not taken for another one
		h.marked = true
		m.byMark[h.mark] = h
		for i := range h.res {
			h.res[i] = h.mark
			h.want[i] = h.mark
		}
		fresh++
	}
	var lastT *heldTab
	for _, t := range m.tabs {
		if t.dead || t.marked {
			continue
		}
		// the outer slice belongs to the caller too: drop the rows from it
		for i := range t.res {
			t.res[i] = nil
		}
		t.marked = true
		lastT = t
		fresh++
	}
	if fresh == 0 {
		return
	}
	m.logCall("caller", fmt.Sprintf("overwrites the %d results it holds, each with a marker of its own", fresh))
	c.Obs("state:results_overwritten_by_caller_and_compared_for_shared_memory", fresh)
	c.Obs("state:checkpoints", 1)
	m.recheckAll()
	if c.Stopped() {
		return
	}
	// what the caller wrote into its slices must not show in later answers: the calls next to the last ones again
	for _, h := range lastU {
		if !h.cheap {
			c.Obs("state:probe_after_overwrite_skipped_long_loop", 1)
			continue
		}
		ds := []int{1, 0, -1}
		if h != lastU[len(lastU)-1] {
			ds = []int{1}
		}
		for _, d := range ds {
			r := h.r + d
			if r < 0 || (d > 0 && h.r == maxInt) {
				continue
			}
			want := m.wantOf(r, h.k)
			if !stepsOK(want, maxProbeSteps) {
				continue
			}
			c.Obs("state:Unrank_after_caller_overwrote_earlier_results", 1)
			if !m.unrank(r, h.k, want, false) {
				break
			}
		}
	}
	if lastT != nil {
		c.Obs("state:Coeffs_after_caller_overwrote_earlier_tables", 1)
		m.coeffs(lastT.n)
		if lastT.n > 0 {
			m.coeffs(lastT.n - 1)
		}
		if lastT.n < 66 {
			m.coeffs(lastT.n + 1) // the row the caller put behind the outer slice is not the next row of anything
		}
	}
	m.recheckAll()
}

func (m *mon) endOfUnit() {
	if !m.ledgerLive() {
		return
	}
	m.checkpoint()
	// the results of the probe calls of the checkpoint: read once more, nothing is called after them
	m.recheckAll()
	m.c.Obs("state:units_with_ledger_verified_at_end", 1)
	m.c.ObsMax("state:most_results_held_in_one_unit", len(m.held))
}

// edit lets the caller write into a result it was given (it owns the slice).
func (m *mon) edit(h *heldRes, mode int) {
	if h == nil || h.dead || mode == 0 {
		return
	}
	var how string
	for i := range h.res {
		switch mode {
		case 1:
			h.res[i] = 0
			how = "zeros"
		case 2:
			h.res[i] += 1 + i // another valid set
			how = "another set"
		default:
			h.res[i] = maxInt - i // not a set (decreasing, huge)
			how = "a decreasing sequence near MaxInt"
		}
		h.want[i] = h.res[i]
	}
	m.logCall("caller", "overwrites the result of "+recString(callRec{h.api, h.args})+" with "+how)
	m.c.Obs("state:caller_edits_a_result_before_the_next_call", 1)
}

// ---------------------------------------------------------------- Coeffs

func (m *mon) pascalRow(n int) []int64 {
	if m.pascal == nil {
		m.pascal = map[int][]int64{}
	}
	if r, ok := m.pascal[n]; ok {
		return r
	}
	row := bigcomb.PascalRow(n)
	out := make([]int64, 0, n/2+1)
	for k := 0; k <= n/2; k++ {
		if !row[k].IsInt64() {
			out = append(out, -1) // does not fit: no int equals it
			continue
		}
		out = append(out, row[k].Int64())
	}
	m.pascal[n] = out
	return out
}

// coeffs judges one call of Coeffs(n) (rows m = 0..n, entries k <= m/2) and
// puts the table on the ledger.
func (m *mon) coeffs(n int) bool {
	c := m.c
	var got [][]int
	args := "n=" + is(n)
	pi := c.Call("Coeffs|"+args, func() { got = comb.Coeffs(n) })
	if n > 66 {
		// C(67,33) > MaxInt: what the int table holds there is not defined
		if pi == nil && len(got) == n+1 {
			last := got[n]
			if len(last) > 0 && big.NewInt(int64(last[len(last)-1])).Cmp(bigcomb.Binomial(uint64(n), uint64(n/2))) != 0 {
				c.Obs("Coeffs:entries_beyond_int_range_wrapped(unjudged)", 1)
			}
		}
		return true
	}
	c.Eval(1)
	detail := map[string]interface{}{"api": "Coeffs", "n": n}
	m.logCall("Coeffs", args)
	if len(m.log) > 1 {
		detail["calls_in_unit_up_to_this_one"] = lazyHistory{m, len(m.log)}
	}
	if pi != nil {
		c.Violation("Coeffs|panic|"+args, detail, pi.String(), "Pascal rows 0.."+is(n))
		return false
	}
	if len(got) != n+1 {
		c.Violation("Coeffs|shape|"+args, detail, fmt.Sprintf("%d rows", len(got)), fmt.Sprintf("%d rows", n+1))
		return false
	}
	for mm := 0; mm <= n; mm++ {
		row := m.pascalRow(mm)
		if len(got[mm]) != mm/2+1 {
			c.Violation("Coeffs|shape|"+args, detail, fmt.Sprintf("row %d has %d entries", mm, len(got[mm])), fmt.Sprintf("%d entries (k <= m/2)", mm/2+1))
			return false
		}
		for k := 0; k <= mm/2; k++ {
			if row[k] < 0 || row[k] != int64(got[mm][k]) {
				c.Violation("Coeffs|wrong|"+args, detail, fmt.Sprintf("row %d entry %d = %d", mm, k, got[mm][k]), bigcomb.PascalRow(mm)[k].String())
				return false
			}
		}
		c.Obs("Coeffs:rows_checked", 1)
	}
	m.recheckRecent(4)
	t := &heldTab{n: n, res: got, at: len(m.log)}
	for mm := range got {
		h := &heldRes{api: "Coeffs", args: args + ",row=" + is(mm), k: -1, res: got[mm], want: append([]int(nil), got[mm]...), at: len(m.log)}
		t.rows = append(t.rows, h)
		m.held = append(m.held, h)
	}
	m.tabs = append(m.tabs, t)
	c.Obs("state:tables_held_until_end_of_unit", 1)
	if m.closing {
		return true // the probe calls of a checkpoint: left alone, the next checkpoint appends to them
	}
	// what the caller does with the table before anything else is called (cycles from table to table)
	switch len(m.tabs) % 4 {
	case 1:
		return m.completeRows(t, false)
	case 2:
		return m.completeRows(t, true)
	case 3:
		for i, h := range t.rows {
			m.grow(h, 0, i)
		}
		m.marks++
		t.grown = append(t.res, []int{-1000000 - 1000*m.marks})
		m.logCall("caller", "appends to every row and to the outer slice of the table returned by Coeffs("+is(n)+")")
		c.Obs("state:caller_appended_a_row_to_the_outer_slice_of_a_table", 1)
		c.Obs("state:caller_appended_to_results_and_all_were_read_again", len(t.rows))
		m.recheckTabFull(t)
		return !t.dead
	}
	return true
}

// ---------------------------------------------------------------- the order of the calls

type stStep struct {
	r, k int
	edit int // 0: the result is left alone; 1..3: the caller overwrites it before the next call
	also int // another function of the package called between this Unrank and the next one
}

// orderPatterns: offsets into a window of w consecutive ranks.
var orderPatterns = []struct {
	name string
	gen  func(w int, rg *engine.Rng) []int
}{
	{"ascending", func(w int, _ *engine.Rng) (o []int) {
		for i := 0; i < w; i++ {
			o = append(o, i)
		}
		return
	}},
	{"descending", func(w int, _ *engine.Rng) (o []int) {
		for i := w - 1; i >= 0; i-- {
			o = append(o, i)
		}
		return
	}},
	{"each-twice", func(w int, _ *engine.Rng) (o []int) {
		for i := 0; i < w; i++ {
			o = append(o, i, i)
		}
		return
	}},
	{"zigzag", func(w int, _ *engine.Rng) (o []int) {
		for i := 0; i+1 < w; i++ {
			o = append(o, i, i+1, i)
		}
		return
	}},
	{"ascending-then-first-again", func(w int, _ *engine.Rng) (o []int) {
		for i := 0; i < w; i++ {
			o = append(o, i)
		}
		return append(o, 0, 1)
	}},
	{"stride-2", func(w int, _ *engine.Rng) (o []int) {
		for i := 0; i < w; i += 2 {
			o = append(o, i)
		}
		for i := 1; i < w; i += 2 {
			o = append(o, i)
		}
		return
	}},
	{"stride-minus-2", func(w int, _ *engine.Rng) (o []int) {
		for i := w - 1; i >= 0; i -= 2 {
			o = append(o, i)
		}
		for i := w - 2; i >= 0; i -= 2 {
			o = append(o, i)
		}
		return
	}},
	{"outside-in", func(w int, _ *engine.Rng) (o []int) {
		for i, j := 0, w-1; i <= j; i, j = i+1, j-1 {
			o = append(o, i)
			if j != i {
				o = append(o, j)
			}
		}
		return
	}},
	{"random-with-repeats", func(w int, rg *engine.Rng) (o []int) {
		o = rg.Perm(w)
		for i := 0; i < w/2+1; i++ {
			o = append(o, rg.Intn(w))
		}
		return
	}},
	{"random-walk", func(w int, rg *engine.Rng) (o []int) {
		p := rg.Intn(w)
		for i := 0; i < 2*w; i++ {
			o = append(o, p)
			p += rg.Intn(5) - 2
			if p < 0 {
				p = 0
			}
			if p >= w {
				p = w - 1
			}
		}
		return
	}},
}

var kModeNames = []string{"one-k", "two-k-alternating", "two-k-in-blocks", "other-k-between-pairs"}

// buildSeq turns a pattern of offsets into steps: kMode 0 one k; 1 every rank
// with k and with k2 in turn; 2 the whole pattern with k, with k2, with k
// again; 3 one call with k2 (at an unrelated rank) between every two calls with k.
func buildSeq(base int, offs []int, k, k2, kMode, edit, also int) []stStep {
	var s []stStep
	one := func(kk int) {
		for _, o := range offs {
			s = append(s, stStep{r: base + o, k: kk, edit: edit, also: also})
		}
	}
	switch kMode {
	case 0:
		one(k)
	case 1:
		for _, o := range offs {
			s = append(s, stStep{r: base + o, k: k, edit: edit, also: also}, stStep{r: base + o, k: k2, edit: edit, also: also})
		}
	case 2:
		one(k)
		one(k2)
		one(k)
	default:
		for i, o := range offs {
			s = append(s, stStep{r: base + o, k: k, edit: edit, also: also})
			s = append(s, stStep{r: 7 + 3*i, k: k2})
		}
	}
	return s
}

// runSeq executes the steps in order (no reordering: the order is the point),
// then a checkpoint.
func (m *mon) runSeq(label string, steps []stStep, stepLimit int64) {
	c := m.c
	done := 0
	for i, st := range steps {
		if st.r < 0 || st.k < 1 {
			continue
		}
		want := m.wantOf(st.r, st.k)
		if !stepsOK(want, stepLimit) {
			c.Obs("state:step_skipped_long_loop_by_design", 1)
			continue
		}
		if !m.unrank(st.r, st.k, want, false) {
			if c.Stopped() {
				return
			}
			continue
		}
		done++
		h := m.lastHeld
		switch st.also {
		case 1:
			// Rank on the very slice Unrank returned
			if h != nil {
				c.Obs("state:Rank_on_the_slice_Unrank_returned", 1)
				m.rankWith(append([]int(nil), h.want...), h.res, false)
			}
		case 2:
			// Rank through one buffer the caller reuses from call to call
			if h != nil {
				if cap(m.rankBuf) < 128 {
					m.rankBuf = make([]int, 128)
				}
				if len(h.want) <= 128 {
					buf := m.rankBuf[:len(h.want)]
					copy(buf, h.want)
					c.Obs("state:Rank_through_a_reused_buffer", 1)
					m.rankWith(append([]int(nil), h.want...), buf, false)
				}
			}
		case 3:
			m.coeffInt(40+i%30, 2+i%17, false)
			m.coeffU64(uint64(60+i%9), uint64(st.k), false)
			c.Obs("state:Coeff_between_Unrank_calls", 1)
		case 4:
			m.coeffs(3 + i%9)
			c.Obs("state:Coeffs_between_Unrank_calls", 1)
		}
		m.edit(h, st.edit)
		if i%3 == 2 {
			m.growEarlier(2+i%2, i/3)
		}
	}
	if done > 0 {
		c.Obs("state:sequences", 1)
		c.Obs("state:order:"+label, 1)
	}
	m.checkpoint()
}

// stateBases: where the windows of consecutive ranks start for k.
func stateBases(k, w int, rg *engine.Rng, thorough bool) []int {
	var bs []int
	seen := map[int]bool{}
	add := func(b *big.Int) {
		top := new(big.Int).Add(b, big.NewInt(int64(w+2)))
		if b.Sign() < 0 || top.Cmp(bigMaxI) > 0 {
			return
		}
		v := int(b.Int64())
		if !seen[v] {
			seen[v] = true
			bs = append(bs, v)
		}
	}
	add(big.NewInt(0))
	L := largestL(uint64(k), bigMaxI)
	ladder := []uint64{uint64(k) + 1, uint64(k) + 2, uint64(k) + 5, 2*uint64(k) + 7, 40, 200, 3000, 50000, L - 1, L}
	if thorough {
		ladder = append(ladder, uint64(k)+3, 3*uint64(k)+1, 100, 1000, 12000, 200000, 1<<20, L/2, L-7)
	}
	for _, l := range ladder {
		if l <= uint64(k) || l > L {
			continue
		}
		// the window straddles C(l,k): the successor of the last set below it rewrites every position
		add(new(big.Int).Sub(bigcomb.Binomial(l, uint64(k)), big.NewInt(int64(w/2))))
	}
	add(new(big.Int).Sub(bigMaxI, big.NewInt(int64(w+2)))) // the last window an int can hold
	bitsMax := 62
	switch k {
	case 1:
		bitsMax = 17
	case 2:
		bitsMax = 31
	case 3:
		bitsMax = 48
	}
	for i := 0; i < 2; i++ {
		add(new(big.Int).SetUint64(randRank(rg, bitsMax)))
	}
	return bs
}

func stateUnits(c *engine.Ctx, m *mon) {
	ks := []int{1, 2, 3, 4, 5, 6, 7, 9, 13, 21, 40, 75}
	w := 6
	stepLimit := int64(40000)
	if c.Thorough() {
		ks = []int{1, 2, 3, 4, 5, 6, 7, 8, 9, 10, 12, 13, 16, 21, 27, 33, 40, 64, 75, 100}
		w = 10
		stepLimit = 300000
	}
	// A. windows of consecutive ranks, every order pattern at every base
	for _, k := range ks {
		k := k
		m.unit(fmt.Sprintf("state/unrank/orders/k=%d", k), func() {
			rg := c.Rand("state-orders", k)
			m.probe()
			bases := stateBases(k, w, rg, c.Thorough())
			c.Obs("state:window_bases", len(bases))
			for bi, base := range bases {
				for pi, p := range orderPatterns {
					offs := p.gen(w, rg)
					// the plain form: one k, nothing in between, results left alone
					m.runSeq(p.name+"/one-k", buildSeq(base, offs, k, 0, 0, 0, 0), stepLimit)
					// and one derived form per (base, pattern), cycling through the other dimensions
					x := bi*len(orderPatterns) + pi
					if (bi+pi)%2 == 0 || c.Thorough() {
						kMode := 1 + (x/2)%3
						k2 := k + 1
						if (x/2)%2 == 1 && k > 1 {
							k2 = k - 1
						}
						edit := (x / 6) % 4
						also := (x / 2) % 5
						m.runSeq(p.name+"/"+kModeNames[kMode], buildSeq(base, offs, k, k2, kMode, edit, also), stepLimit)
					}
					if (bi+pi)%2 == 1 || c.Thorough() {
						// edited results with one k: what the caller writes must not be the start of the next answer
						m.runSeq(p.name+"/one-k/edited", buildSeq(base, offs, k, 0, 0, 1+(x/2)%3, (x/6)%5), stepLimit)
					}
					if c.Stopped() {
						return
					}
				}
			}
		})
	}
	// B. the complete table of the k-subsets of {0..n-1}, filled by unranking in several orders and compared with the
	// oracle's list only afterwards (the ledger does that)
	maxN := c.Pick(9, 12)
	for n := 1; n <= maxN; n++ {
		n := n
		m.unit(fmt.Sprintf("state/unrank/tables/n=%d", n), func() {
			rg := c.Rand("state-tables", n)
			for k := 1; k <= n; k++ {
				subs := bigcomb.ColexSubsets(n, k)
				N := len(subs)
				fill := func(label string, order []int, kk []int) {
					table := make([][]uint64, 0, N)
					for _, s := range subs {
						table = append(table, toU(s))
					}
					for _, r := range order {
						for _, k1 := range kk {
							if k1 == k {
								if !m.unrank(r, k, table[r], false) {
									return
								}
							} else if k1 >= 1 && int64(r) < bigcomb.Binomial(uint64(n), uint64(k1)).Int64() {
								if !m.unrank(r, k1, nil, false) {
									return
								}
							}
						}
					}
					c.Obs("state:tables_filled", 1)
					c.Obs("state:order:table/"+label, 1)
					m.checkpoint()
				}
				asc := make([]int, N)
				desc := make([]int, N)
				for i := range asc {
					asc[i] = i
					desc[i] = N - 1 - i
				}
				fill("ascending", asc, []int{k})
				fill("descending", desc, []int{k})
				fill("random", rg.Perm(N), []int{k})
				fill("ascending/two-k-alternating", asc, []int{k, n - k})
				if c.Stopped() {
					return
				}
			}
			if n == maxN {
				c.Obs(fmt.Sprintf("exhaustive:tables of all k-subsets of {0..n-1}, n<=%d, filled by Unrank ascending, descending, in random order and alternating k with n-k, verified after the fill", maxN), 1)
			}
		})
	}
	// C. seeded histories: a few k, a random walk over ranks with small steps, random edits and calls in between
	nu := c.Pick(6, 60)
	for u := 0; u < nu; u++ {
		u := u
		m.unit(fmt.Sprintf("state/unrank/seeded/%d", u), func() {
			rg := c.Rand("state-seeded", u)
			m.probe()
			for s := 0; s < 12; s++ {
				nk := 1 + rg.Intn(3)
				kk := make([]int, nk)
				pos := make([]int, nk)
				for i := range kk {
					kk[i] = pickK(rg)
					bitsMax := 62
					switch kk[i] {
					case 1:
						bitsMax = 17
					case 2:
						bitsMax = 31
					case 3:
						bitsMax = 48
					}
					pos[i] = int(randRank(rg, bitsMax))
					if rg.Bool(0.3) {
						pos[i] = rg.Intn(50)
					}
					if i > 0 && rg.Bool(0.4) {
						pos[i] = pos[0] // the same ranks with another k
					}
				}
				var steps []stStep
				edit, also := 0, 0
				if rg.Bool(0.4) {
					edit = 1 + rg.Intn(3)
				}
				if rg.Bool(0.4) {
					also = 1 + rg.Intn(4)
				}
				for i := 0; i < 30; i++ {
					j := rg.Intn(nk)
					st := stStep{r: pos[j], k: kk[j]}
					if edit != 0 && rg.Bool(0.5) {
						st.edit = edit
					}
					if also != 0 && rg.Bool(0.5) {
						st.also = also
					}
					steps = append(steps, st)
					d := []int{1, 1, 1, -1, -1, 0, 2, -2}[rg.Intn(8)]
					if pos[j]+d >= 0 && pos[j] < maxInt-2 {
						pos[j] += d
					}
				}
				m.runSeq("seeded-walk", steps, stepLimit)
				if c.Stopped() {
					return
				}
			}
		})
	}
	// D. Coeffs(n) in several orders of n, tables kept, edited, asked for again
	m.unit("state/coeffs/orders", func() {
		rg := c.Rand("state-coeffs", 0)
		run := func(label string, ns []int, editEvery int) {
			for i, n := range ns {
				if !m.coeffs(n) {
					return
				}
				if editEvery > 0 && i%editEvery == 0 && len(m.tabs) > 0 {
					// the caller uses the table it was given as scratch space
					t := m.tabs[len(m.tabs)-1]
					for _, h := range t.rows {
						for j := range h.res {
							h.res[j] = -7 - j
							h.want[j] = h.res[j]
						}
					}
					m.logCall("caller", "overwrites every entry of the table returned by Coeffs("+is(t.n)+")")
					c.Obs("state:caller_edits_a_table_before_the_next_call", 1)
				}
			}
			c.Obs("state:order:coeffs/"+label, 1)
			m.checkpoint()
		}
		var desc, twice, rnd []int
		for n := 66; n >= 0; n-- {
			desc = append(desc, n)
		}
		for n := 0; n <= 66; n += 5 {
			twice = append(twice, n, n, n+1, n)
		}
		for i := 0; i < 40; i++ {
			rnd = append(rnd, rg.Intn(67))
		}
		run("descending", desc, 0)
		run("same-n-again", twice, 0)
		run("random", rnd, 0)
		run("random/edited", rnd, 2)
		run("descending/edited", desc, 3)
	})
}
